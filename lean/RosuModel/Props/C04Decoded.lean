/-
  Props/C04Decoded.lean — the `Decoded` invariant of DESIGN 5.4 for the six record sections, and the record-section
  theorems of C04 instantiated for every DECODED map.

  `decoded_inv`: whatever bytes are decoded, the decoder state satisfies `DecodedInv.DecInv` (Lemmas/DecodedInv*.lean):
  every metadata text is its own trim and single-line, ids / preview time / offsets / version are within ±(2³¹−1),
  bookmarks are `i32`s, every float is within the parse limit and not NaN, slider multiplier / tick rate lie inside
  their clamps as the code tests them, `audio_lead_in` is an integer value, file names carry no line feed, backslash,
  (background:) comma or outer quote, colour components are bytes, custom colour names are trimmed, without `:`, line
  feed, `//`, leading `Combo`, and pairwise distinct. No codec law is used — only `ConstFacts` (closed facts about the
  decoder's own constants) — so this is a statement about the IEEE instance too.

  What a decoded map can still violate of `RtFile.RepRecords`: (a) representability of its finite float values by the
  codec — a codec law (`FloatsRep`, implied by `LimitRep`); (b) a file name containing `//` — finding F16
  (`NoDoubleSlash`), with decoded witnesses below. Everything else is discharged. ACCEPTANCE (this property) does not
  even need (b): `record_lines_accepted_decoded`, `record_blocks_accepted_decoded` assume neither `Rep*` nor the F16
  exclusion; RECOVERY of the record fields (`record_blocks_accepted_and_recovered_decoded`, C02's
  `records_roundtrip_decoded`) needs (b), and the real code fails there exactly on those inputs.
-/
import RosuModel.Props.C04
import RosuModel.Lemmas.DecodedInvFrame
import RosuModel.Lemmas.DecodedInvAccept
import RosuModel.Lemmas.DecodedInvReader
import RosuModel.Model.FloatInst
namespace Rosu.C04
open Rosu Encode EncodeLines C05 Scalar DecodedInv
set_option linter.unusedSectionVars false

section
variable {F P : Type} [Scalar F] [Scalar P] [Cvt P F]

/-- **reader_lines_lf_free** (Lemmas/DecodedInvReader.lean) — every line the reader hands to the framing driver, for every
byte string and each of the three encodings, contains no line feed and is its own `trim_end`. -/
theorem reader_lines_lf_free (enc : Encoding) (bs : List UInt8) :
    ∀ l ∈ (C10.linesOf enc bs).1, '\n' ∉ l ∧ trimEnd l = l := reader_lines_clean enc bs

/-- **parser_calls_keep_decoded_inv** (Lemmas/DecodedInvSections.lean, DecodedInvFrame.lean) — one call of any section
parser of the `Beatmap` decoder on any LF-free line, accepted or rejected, keeps the invariant; the initial state has it. -/
theorem parser_calls_keep_decoded_inv (C : ConstFacts F P) :
    (∀ v : Int, -i32Max ≤ v ∧ v ≤ i32Max → DecInv (BeatmapState.create v : BeatmapState F P)) ∧
    (∀ (s : Section) (st : BeatmapState F P) (l : Str), '\n' ∉ l → DecInv st → DecInv (BeatmapState.step s st l)) :=
  ⟨fun v hv => decInv_create C v hv, fun s st l hl h => decInv_step C s st l hl h⟩

/-- **decoded_inv** — every successfully decoded byte string (any encoding, any content: hostile, non-chronological,
with rejected lines) leaves the `Beatmap` decoder in a state satisfying the `Decoded` invariant. -/
theorem decoded_inv (C : ConstFacts F P) (bytes : List UInt8) (st : BeatmapState F P)
    (h : decodeBytes beatmapDecoder bytes = .ok st) : DecInv st := by
  obtain ⟨ls, rfl, hls⟩ := decodeBytes_lines _ bytes st h
  exact decInv_frame C ls (fun l hl => (hls l hl).1)

/-- the two law-free sections need no hypothesis at all: every decoded state has representable metadata and colours. -/
theorem decoded_metadata_colours_representable (bytes : List UInt8) (st : BeatmapState F P)
    (h : decodeBytes beatmapDecoder bytes = .ok st) :
    RtMetadata.RepMetadata st.metadata ∧ RtColours.RepColors st.colors := by
  obtain ⟨ls, rfl, hls⟩ := decodeBytes_lines _ bytes st h
  refine frame_invariant_lines (beatmapDecoder : LineDecoder (BeatmapState F P))
    (fun st => RtMetadata.RepMetadata st.metadata ∧ RtColours.RepColors st.colors) (fun l => '\n' ∉ l)
    (fun _ _ => ⟨metadata_create, colors_create⟩) ?_ ls (fun l hl => (hls l hl).1)
  intro s st l hl hI
  cases s
  case metadata => exact ⟨inv_parseMetadata _ l hl hI.1, hI.2⟩
  case colors => exact ⟨hI.1, inv_parseColors _ l hl hI.2⟩
  all_goals exact hI

variable [Trig F] [Trig P]

/-- **decoded_map_inv** — … and through the finaliser: every decoded `Beatmap` satisfies the invariant. -/
theorem decoded_map_inv (C : ConstFacts F P) (bytes : List UInt8) (st : BeatmapState F P) (m : Beatmap F P)
    (h : decodeBytes beatmapDecoder bytes = .ok st) (hf : st.finish = .ok m) : DecInvMap m :=
  decInv_finish st m (decoded_inv C bytes st h) hf

variable {RF : F → Prop} {RP : P → Prop}

/-- **decoded_records_representable** — a decoded map's record sections are representable (`RtFile.RepRecords`, the
hypothesis of the C02 / C03 / C04 record theorems) as soon as the codec represents its float values and neither file
name contains `//`. Every other clause of every `Rep*` predicate holds by construction. -/
theorem decoded_records_representable (C : ConstFacts F P) (bytes : List UInt8) (st : BeatmapState F P) (m : Beatmap F P)
    (h : decodeBytes beatmapDecoder bytes = .ok st) (hf : st.finish = .ok m)
    (hr : FloatsRep RF RP m) (hds : NoDoubleSlash m) : RtFile.RepRecords RF RP m :=
  repRecords_of_decInv m (decoded_map_inv C bytes st m h hf) hr hds

/-- the same with the float side stated as one codec law: the codec represents every value within the parse limit. -/
theorem decoded_records_representable_of_limitRep (C : ConstFacts F P) (LRF : LimitRep RF) (LRP : LimitRep RP)
    (bytes : List UInt8) (st : BeatmapState F P) (m : Beatmap F P)
    (h : decodeBytes beatmapDecoder bytes = .ok st) (hf : st.finish = .ok m) (hds : NoDoubleSlash m) :
    RtFile.RepRecords RF RP m :=
  decoded_records_representable C bytes st m h hf (floatsRep_of_limitRep LRF LRP m (decoded_map_inv C bytes st m h hf)) hds

/-- **record_lines_accepted_decoded** — C04 for the six record sections of every DECODED map: under the codec laws and
representability of the map's float values, every record line the encoder writes for `[General]`, `[Editor]`,
`[Metadata]`, `[Difficulty]`, `[Events]`, `[Colours]` is a record line (neither header nor skipped) and is accepted by
its section's parser in any state. No `Rep*` assumption and NO F16 exclusion: a file name containing `//` is cut when
read back (C02's concern) but its line is still accepted (Lemmas/DecodedInvAccept.lean). -/
theorem record_lines_accepted_decoded (C : ConstFacts F P) (LF : CodecLaws F RF) (LP : CodecLaws P RP) (LI : IntPrintLaw F)
    (bytes : List UInt8) (st : BeatmapState F P) (m : Beatmap F P)
    (h : decodeBytes beatmapDecoder bytes = .ok st) (hf : st.finish = .ok m)
    (hr : FloatsRep RF RP m) (ss : SampleBank) :
    (∀ r ∈ RtGeneral.decodedLines m.general ss, RecordLine r ∧ ∀ s : GeneralState F P, (parseGeneral s r).1 = .ok ()) ∧
    (∀ r ∈ RtEditor.decodedLines m.editor, RecordLine r ∧ ∀ s : Editor F, (parseEditor s r).2 = true) ∧
    (∀ r ∈ RtMetadata.decodedLines m.metadata, RecordLine r ∧ ∀ s, (parseMetadata s r).2 = true) ∧
    (∀ r ∈ RtDifficulty.decodedLines m.difficulty, RecordLine r ∧ ∀ s : DifficultyState F P, (parseDifficulty s r).2 = true) ∧
    (∀ r ∈ RtEvents.decodedLines m.events, RecordLine r ∧ ∀ s : Events F, (parseEvents s r).2 = true) ∧
    (∀ r ∈ RtColours.decodedLines m.colors, RecordLine r ∧ ∀ s, (parseColors s r).2 = true) := by
  have hi := decoded_map_inv C bytes st m h hf
  exact ⟨general_lines_accepted_dec LI LP _ ss hi.general hr.stackLeniency,
    record_lines_accepted_editor LF _ (repEditor_of_decInv _ hi.editor hr.distanceSpacing hr.timelineZoom),
    record_lines_accepted_metadata _ hi.metadata,
    record_lines_accepted_difficulty LF LP _ (repDifficulty_of_decInv _ hi.difficulty hr.hp hr.cs hr.od hr.ar hr.sm hr.tr),
    event_lines_accepted_dec LF _ hi.events hr.breaks, record_lines_accepted_colours _ hi.colors⟩

/-- **record_blocks_accepted_decoded** — file level, acceptance only, still without the F16 exclusion: the text encoded
from a decoded map is the version line and the eight blocks as lines; read back from its UTF-8 bytes, reading succeeds,
the reader yields exactly those lines end-trimmed, and the framing driver hands each block's lines, in order, to exactly
that section's parser (where `record_lines_accepted_decoded` says they are accepted). The list blocks enter by their
shape, as in `record_blocks_accepted_and_recovered`. -/
theorem record_blocks_accepted_decoded (C : ConstFacts F P) (LF : CodecLaws F RF) (LP : CodecLaws P RP) (LI : IntPrintLaw F)
    (bytes : List UInt8) (st : BeatmapState F P) (m : Beatmap F P)
    (h : decodeBytes beatmapDecoder bytes = .ok st) (hf : st.finish = .ok m)
    (hr : FloatsRep RF RP m) (t : Str) (T H : List Str) (he : encode m = .ok t)
    (hT : encodeTimingPoints m = .ok (unlines (str "[TimingPoints]" :: T)))
    (hH : encodeHitObjects m = .ok (unlines (str "[HitObjects]" :: H)))
    (sT : RtFile.ListBlockShape T) (sH : RtFile.ListBlockShape H) :
    t = unlines (RtFile.fileLines m.formatVersion (RtGeneral.generalLines m.general (RtGeneral.sampleSetOf m.controlPoints))
      (RtEditor.editorLines m.editor) (RtMetadata.metadataLines m.metadata) (RtDifficulty.difficultyLines m.difficulty)
      (RtEvents.eventLines m.events) T (RtColours.colourLines m.colors) H) ∧
    decodeBytes (beatmapDecoder : LineDecoder (BeatmapState F P)) (utf8Encode t) =
      .ok ((H.map trimEnd).foldl (BeatmapState.step .hitObjects)
        ((RtColours.decodedLines m.colors).foldl (BeatmapState.step .colors)
        ((T.map trimEnd).foldl (BeatmapState.step .timingPoints)
        ((RtEvents.decodedLines m.events).foldl (BeatmapState.step .events)
        ((RtDifficulty.decodedLines m.difficulty).foldl (BeatmapState.step .difficulty)
        ((RtMetadata.decodedLines m.metadata).foldl (BeatmapState.step .metadata)
        ((RtEditor.decodedLines m.editor).foldl (BeatmapState.step .editor)
        ((RtGeneral.decodedLines m.general (RtGeneral.sampleSetOf m.controlPoints)).foldl (BeatmapState.step .general)
          (BeatmapState.create m.formatVersion))))))))) := by
  have hi := decoded_map_inv C bytes st m h hf
  have hE := repEditor_of_decInv (RF := RF) _ hi.editor hr.distanceSpacing hr.timelineZoom
  have hD := repDifficulty_of_decInv (RF := RF) (RP := RP) _ hi.difficulty hr.hp hr.cs hr.od hr.ar hr.sm hr.tr
  have acc := record_lines_accepted_decoded C LF LP LI bytes st m h hf hr (RtGeneral.sampleSetOf m.controlPoints)
  have ht := RtFile.encode_eq_unlines m t T H he hT hH
  refine ⟨ht, ?_⟩
  have hhead : t.head? ≠ some (Char.ofNat 0xFEFF) := by
    rw [ht]
    have : ∀ rest, (unlines (RtFile.versionLine m.formatVersion :: rest)).head? = some 'o' := by
      intro rest
      have e : RtFile.versionLine m.formatVersion = 'o' :: (str "su file format v" ++ showInt m.formatVersion) := rfl
      rw [unlines_cons, e]
      rfl
    unfold RtFile.fileLines
    rw [this]
    decide
  have hlines : (textLines t).map trimEnd =
      RtFile.fileLines m.formatVersion (RtGeneral.decodedLines m.general (RtGeneral.sampleSetOf m.controlPoints))
        (RtEditor.decodedLines m.editor) (RtMetadata.decodedLines m.metadata) (RtDifficulty.decodedLines m.difficulty)
        (RtEvents.decodedLines m.events) (T.map trimEnd) (RtColours.decodedLines m.colors) (H.map trimEnd) := by
    rw [ht]
    exact (lines_of_unlines _ (RtFile.fileLines_no_lf _ _ _ _ _ _ _ _ _
      (generalLines_no_lf_dec LI LP _ _ hi.general hr.stackLeniency) (RtEditor.editorLines_no_lf LF _ hE)
      (RtMetadata.metadataLines_no_lf _ hi.metadata) (RtDifficulty.difficultyLines_no_lf LF LP _ hD)
      (eventLines_no_lf_dec LF _ hi.events hr.breaks) (fun l hl => (sT l hl).1) (RtColours.colourLines_no_lf _ hi.colors)
      (fun l hl => (sH l hl).1))).trans (RtFile.fileLines_map_trimEnd _ _ _ _ _ _ _ _ _)
  rw [RtFile.decodeBytes_utf8_text _ t hhead, hlines,
    RtFile.frame_fileLines _ _ hi.version.1 hi.version.2 _ _ _ _ _ _ _ _
      (fun r hr' => (acc.1 r hr').1) (fun r hr' => (acc.2.1 r hr').1) (fun r hr' => (acc.2.2.1 r hr').1)
      (fun r hr' => (acc.2.2.2.1 r hr').1) (fun r hr' => (acc.2.2.2.2.1 r hr').1)
      (fun r hr' => by obtain ⟨l, hl, rfl⟩ := List.mem_map.mp hr'; exact (sT l hl).2)
      (fun r hr' => (acc.2.2.2.2.2 r hr').1)
      (fun r hr' => by obtain ⟨l, hl, rfl⟩ := List.mem_map.mp hr'; exact (sH l hl).2)]
  rfl

/-- `[Metadata]` and `[Colours]` need no hypothesis at all (no law, no constant fact): every line the encoder writes for
them from a decoded map is a record line and is accepted. -/
theorem record_lines_accepted_decoded_metadata_colours (bytes : List UInt8) (st : BeatmapState F P) (m : Beatmap F P)
    (h : decodeBytes beatmapDecoder bytes = .ok st) (hf : st.finish = .ok m) :
    (∀ r ∈ RtMetadata.decodedLines m.metadata, RecordLine r ∧ ∀ s, (parseMetadata s r).2 = true) ∧
    (∀ r ∈ RtColours.decodedLines m.colors, RecordLine r ∧ ∀ s, (parseColors s r).2 = true) := by
  obtain ⟨h1, h2⟩ := decoded_metadata_colours_representable bytes st h
  obtain ⟨_, _, _, e4, _, _, e7⟩ := RtFile.finish_records st m hf
  have e4' : m.metadata = st.metadata := e4
  have e7' : m.colors = st.colors := e7
  rw [e4', e7']
  exact ⟨record_lines_accepted_metadata _ h1, record_lines_accepted_colours _ h2⟩

/-- **record_blocks_accepted_and_recovered_decoded** — the file-level statement of C04 for the record blocks of every
DECODED map: `RepRecords` is no longer assumed. What remains: the codec laws, `FloatsRep` (codec side), the F16
exclusion, and — as before — the shape of the two list blocks (covered separately by `hitobjects_block_accepted` /
`timing_block_shape`). -/
theorem record_blocks_accepted_and_recovered_decoded (C : ConstFacts F P) (LF : CodecLaws F RF) (LP : CodecLaws P RP)
    (LI : IntPrintLaw F) (bytes : List UInt8) (st : BeatmapState F P) (m : Beatmap F P)
    (h : decodeBytes beatmapDecoder bytes = .ok st) (hf : st.finish = .ok m)
    (hr : FloatsRep RF RP m) (hds : NoDoubleSlash m) (t : Str) (T H : List Str) (he : encode m = .ok t)
    (hT : encodeTimingPoints m = .ok (unlines (str "[TimingPoints]" :: T)))
    (hH : encodeHitObjects m = .ok (unlines (str "[HitObjects]" :: H)))
    (sT : RtFile.ListBlockShape T) (sH : RtFile.ListBlockShape H) :
    t = unlines (RtFile.fileLines m.formatVersion (RtGeneral.generalLines m.general (RtGeneral.sampleSetOf m.controlPoints))
      (RtEditor.editorLines m.editor) (RtMetadata.metadataLines m.metadata) (RtDifficulty.difficultyLines m.difficulty)
      (RtEvents.eventLines m.events) T (RtColours.colourLines m.colors) H) ∧
    ∃ st2 : BeatmapState F P, decodeBytes beatmapDecoder (utf8Encode t) = .ok st2 ∧
      RtFile.recView st2 = RtFile.preservedRecords m :=
  record_blocks_accepted_and_recovered LF LP LI m (decoded_records_representable C bytes st m h hf hr hds) t T H he hT hH sT sH

end

/-! ### what a decoded map CAN violate: `//` in a file name (finding F16) — decoded witnesses on the toy scalar -/

/-- two consecutive backslashes in `AudioFilename` are standardised to `//` … -/
example : (parseGeneral (GeneralState.default : GeneralState ZC ZC) (str "AudioFilename: a\\\\b.mp3")).2.audioFile = str "a//b.mp3" := by
  decide
/-- … as is a slash followed by a backslash; -/
example : (parseGeneral (GeneralState.default : GeneralState ZC ZC) (str "AudioFilename: a/\\b.mp3")).2.audioFile = str "a//b.mp3" := by
  decide
/-- the encoder writes the name verbatim and the decoder cuts it at the `//` as a comment: the name does not come back. -/
example : (parseGeneral (GeneralState.default : GeneralState ZC ZC)
    (trimEnd (kvl (str "AudioFilename") (str "a//b.mp3")))).2.audioFile = str "a" := by decide

/-- `[Events]`: four backslashes collapse to two and are standardised to `//`; a slash followed by a backslash likewise. -/
example : (parseEvents (Events.default : Events ZC) (str "0,0,\"a\\\\\\\\b.png\",0,0")).1.backgroundFile = str "a//b.png" := by decide
example : (parseEvents (Events.default : Events ZC) (str "0,0,\"a/\\b.png\",0,0")).1.backgroundFile = str "a//b.png" := by decide
/-- read back, the background line is cut inside the quoted name: `"a` loses its quote and `a` is stored. -/
example : (parseEvents (Events.default : Events ZC) (trimEnd (RtEvents.backgroundLine (str "a//b.png")))).1.backgroundFile = str "a" := by
  decide

/-- … but both written lines are ACCEPTED (`audioFilename_line_accepted`, `background_line_accepted`): -/
example (st : GeneralState ZC ZC) : (parseGeneral st (trimEnd (kvl (str "AudioFilename") (str "a//b.mp3")))).1 = .ok () :=
  audioFilename_line_accepted st _ (by decide)
example (st : Events ZC) : (parseEvents st (trimEnd (RtEvents.backgroundLine (str "a//b.png")))).2 = true :=
  background_line_accepted st _

/-- so `NoDoubleSlash` cannot be dropped from the recovery / round-trip statements: a decoded state whose audio file violates `RepAudioName.noDS`. -/
theorem f16_decoded_witness :
    hasDS (frame (beatmapDecoder : LineDecoder (BeatmapState ZC ZC))
      [str "osu file format v14", str "[General]", str "AudioFilename: a\\\\b.mp3"]).hitObjects.timingPoints.general.audioFile = true := by
  decide

/-- custom colour names, by contrast, can NOT contain `//` in a decoded map (`parse_colors` strips comments before it
splits key and value): the line below stores the colour under the name `x`. -/
example : (parseColors Colors.default (str "x//y : 1,2,3")).1 = Colors.default ∧
    (parseColors Colors.default (str "x : 1,2,3 //y")).1.customColors = [⟨str "x", ⟨1, 2, 3, 255⟩⟩] := by decide

/-! ### `ConstFacts` as a boolean check — evaluated on the driver's IEEE instances at build time (a test, NOT a proof) -/

section
variable {α : Type} [Scalar α]

/-- `InLimit` as the code computes it. -/
def inLimitB (x : α) : Bool := !lt x (-(maxParseValue : α)) && !lt (maxParseValue : α) x && !isNaN x

theorem inLimit_of_check {x : α} (h : inLimitB x = true) : InLimit x := by
  simp only [inLimitB, Bool.and_eq_true, Bool.not_eq_true'] at h
  exact ⟨h.1.1, h.1.2, h.2⟩

end

/-- every clause of `ConstFacts` except `0 = (0 as f64)` (for which equal `total_cmp` keys are tested) as one boolean. -/
def constFactsB (F P : Type) [Scalar F] [Scalar P] : Bool :=
  inLimitB (1 : F) && inLimitB (1.4 : F) && inLimitB (0.4 : F) && inLimitB (3.6 : F) && inLimitB (0.5 : F) && inLimitB (8 : F) &&
  !lt (0.4 : F) (0.4 : F) && !lt (3.6 : F) (0.4 : F) && !lt (3.6 : F) (3.6 : F) &&
  !lt (0.5 : F) (0.5 : F) && !lt (8 : F) (0.5 : F) && !lt (8 : F) (8 : F) &&
  !lt (1.4 : F) (0.4 : F) && !lt (3.6 : F) (1.4 : F) && !lt (1 : F) (0.5 : F) && !lt (8 : F) (1 : F) &&
  inLimitB (5 : P) && inLimitB (0.7 : P) && decide (totalKey (0 : F) = totalKey (Scalar.ofInt 0 : F))

/-- the boolean check implies the facts (given the one equation it can only test through `total_cmp` keys). -/
theorem constFacts_of_check {F P : Type} [Scalar F] [Scalar P] (h : constFactsB F P = true) (hz : (0 : F) = Scalar.ofInt 0) :
    ConstFacts F P := by
  simp only [constFactsB, Bool.and_eq_true, Bool.not_eq_true', decide_eq_true_eq] at h
  obtain ⟨⟨⟨⟨⟨⟨⟨⟨⟨⟨⟨⟨⟨⟨⟨⟨⟨⟨a1, a2⟩, a3⟩, a4⟩, a5⟩, a6⟩, b1⟩, b2⟩, b3⟩, c1⟩, c2⟩, c3⟩, d1⟩, d2⟩, e1⟩, e2⟩, f1⟩, f2⟩, _⟩ := h
  exact ⟨inLimit_of_check a1, inLimit_of_check a2, inLimit_of_check a3, inLimit_of_check a4, inLimit_of_check a5,
    inLimit_of_check a6, ⟨b1, b2, b3⟩, ⟨c1, c2, c3⟩, ⟨d1, d2⟩, ⟨e1, e2⟩, hz, inLimit_of_check f1, inLimit_of_check f2⟩

/- the check evaluates to `true` on the instances the driver runs (`f64` / `f32`) — run by the compiler when this file is
built; Lean's `Float` is opaque to the kernel, so this is evidence for the hypothesis `ConstFacts Float Float32`, not a proof. -/
#guard constFactsB Float Float32

example : constFactsB ZC ZC = true := by decide

/-! ### the hypotheses are satisfiable: toy codec, a concrete decoded file -/

/-- the constant facts, the codec laws and `LimitRep` all hold of the toy codec. -/
theorem decoded_hypotheses_satisfiable :
    ConstFacts ZC ZC ∧ CodecLaws ZC ZC.Rep ∧ IntPrintLaw ZC ∧ LimitRep ZC.Rep :=
  ⟨ZC.constFacts, ZC.laws, ZC.intPrintLaw, ZC.limitRep⟩

/-- a small hostile file: backslash path, comment, colon and `//` in a title, an unordered break, a rejected record,
out-of-clamp difficulty values, doubled quotes, a custom colour with inner blanks, a trailing comment and a re-definition. -/
def decodedSampleLines : List Str :=
  [str "osu file format v9", str "", str "[General]", str "AudioFilename: dir\\a b.mp3 // c", str "AudioLeadIn: -7",
   str "StackLeniency: 3", str "PreviewTime: 99999999999", str "[Metadata]", str "Title: Re:Zero // x",
   str "[Difficulty]", str "SliderMultiplier: 99", str "SliderTickRate: -4", str "[Events]", str "0,0,\"\"bg\\\\1.png\"\",0,0",
   str "2,100,50", str "[Colours]", str "Combo1: 1,2,3", str "foo bar : 4,5,6 // z", str "foo bar : 7,8,9"]

/-- the same lines as a file delivers them: trailing blanks and CR LF line ends. -/
def decodedSampleText : Str := unlines (decodedSampleLines.map (· ++ str " \r"))

def decodedSampleState : BeatmapState ZC ZC := frame beatmapDecoder decodedSampleLines

set_option maxRecDepth 8000 in
theorem decodedSample_lines : (textLines decodedSampleText).map trimEnd = decodedSampleLines := by
  have h1 : ∀ l ∈ decodedSampleLines.map (· ++ str " \r"), '\n' ∉ l := by decide
  have h2 : (decodedSampleLines.map (· ++ str " \r")).map trimEnd = decodedSampleLines := by decide
  exact (lines_of_unlines _ h1).trans h2

/-- the sample text decodes (through the reader and the framing driver) to `decodedSampleState`. -/
theorem decodedSample_decodes :
    decodeBytes (beatmapDecoder : LineDecoder (BeatmapState ZC ZC)) (utf8Encode decodedSampleText) = .ok decodedSampleState := by
  rw [RtFile.decodeBytes_utf8_text _ _ (by decide), decodedSample_lines]
  rfl

example : decodedSampleState.hitObjects.timingPoints.general.audioFile = str "dir/a b.mp3" ∧
    decodedSampleState.metadata.title = str "Re:Zero // x" ∧
    decodedSampleState.hitObjects.difficulty.difficulty.sliderMultiplier = ⟨3⟩ ∧
    decodedSampleState.hitObjects.difficulty.difficulty.sliderTickRate = ⟨0⟩ ∧
    decodedSampleState.hitObjects.events.backgroundFile = str "bg/1.png" ∧
    decodedSampleState.hitObjects.events.breaks.map (fun b => (b.startTime, b.endTime)) = [(⟨100⟩, ⟨100⟩)] ∧
    decodedSampleState.colors.customColors = [⟨str "foo bar", ⟨7, 8, 9, 255⟩⟩] ∧
    decodedSampleState.version = 9 := by decide

/-- the invariant on the sample (an instance of `decoded_inv`). -/
example : DecInv decodedSampleState := decoded_inv ZC.constFacts _ _ decodedSample_decodes

section
variable {F P : Type} [Scalar F] [Scalar P] [Cvt P F] [Trig F] [Trig P]

/-- the `Beatmap` a state without hit objects is finalised to. -/
def noObjectsMap (st : BeatmapState F P) : Beatmap F P :=
  ⟨st.version, (st.hitObjects.timingPoints.finish).1, st.editor, st.metadata, st.hitObjects.difficulty.difficulty,
   st.hitObjects.events, (st.hitObjects.timingPoints.finish).2, st.colors, []⟩

theorem finish_of_no_objects (st : BeatmapState F P) (h : st.hitObjects.core.hitObjects = []) :
    st.finish = .ok (noObjectsMap st) := by
  simp [BeatmapState.finish, HitObjectsState.finish, h, sortByStartTime, postProcessBreaks, finalizeObjects, bind,
    Except.bind, pure, Except.pure]
  rfl

end

def decodedSampleMap : Beatmap ZC ZC := noObjectsMap decodedSampleState

theorem decodedSample_finishes : decodedSampleState.finish = .ok decodedSampleMap :=
  finish_of_no_objects decodedSampleState (by decide)

/-- both residual hypotheses hold of the sample: the toy codec represents its floats, no file name contains `//`. -/
theorem decodedSample_floatsRep : FloatsRep ZC.Rep ZC.Rep decodedSampleMap :=
  floatsRep_of_limitRep ZC.limitRep ZC.limitRep _ (decoded_map_inv ZC.constFacts _ _ _ decodedSample_decodes decodedSample_finishes)

theorem decodedSample_noDoubleSlash : NoDoubleSlash decodedSampleMap := ⟨by decide, by decide⟩

/-- every hypothesis of `record_lines_accepted_decoded` holds of the sample. -/
example := record_lines_accepted_decoded ZC.constFacts ZC.laws ZC.laws ZC.intPrintLaw _ _ _ decodedSample_decodes
  decodedSample_finishes decodedSample_floatsRep SampleBank.normal

theorem decodedSample_timing_text : encodeTimingPoints decodedSampleMap = .ok (unlines [str "[TimingPoints]"]) := by
  have h1 : decodedSampleMap.hitObjects = [] := rfl
  have h2 : decodedSampleMap.controlPoints = {} := rfl
  unfold encodeTimingPoints collectSamples
  rw [h1, h2]
  simp [collectAll, addCollected, bind, Except.bind, pure, Except.pure, encodeGroups]
  rfl

theorem decodedSample_objects_text : encodeHitObjects decodedSampleMap = .ok (unlines [str "[HitObjects]"]) := by rfl

theorem decodedSample_encodes : ∃ t, encode decodedSampleMap = .ok t := by
  unfold encode
  rw [decodedSample_timing_text, decodedSample_objects_text]
  exact ⟨_, rfl⟩

/-- … and every hypothesis of the file-level theorems: the sample map, obtained by decoding, is encoded and read back. -/
example (t : Str) (he : encode decodedSampleMap = .ok t) :=
  record_blocks_accepted_decoded ZC.constFacts ZC.laws ZC.laws ZC.intPrintLaw _ _ _ decodedSample_decodes
    decodedSample_finishes decodedSample_floatsRep t [] [] he decodedSample_timing_text
    decodedSample_objects_text (fun _ h => absurd h List.not_mem_nil) (fun _ h => absurd h List.not_mem_nil)

example (t : Str) (he : encode decodedSampleMap = .ok t) :=
  record_blocks_accepted_and_recovered_decoded ZC.constFacts ZC.laws ZC.laws ZC.intPrintLaw _ _ _ decodedSample_decodes
    decodedSample_finishes decodedSample_floatsRep decodedSample_noDoubleSlash t [] [] he decodedSample_timing_text
    decodedSample_objects_text (fun _ h => absurd h List.not_mem_nil) (fun _ h => absurd h List.not_mem_nil)

end Rosu.C04
