/-
  Props/C02DecodedIeee.lean — `records_roundtrip_decoded` (Props/C02Decoded.lean) at the instances the driver runs,
  `F = Float` (`f64`), `P = Float32` (`f32`), with every LAW hypothesis discharged:
  `ConstFacts` (`C04.constFacts_float`), `CodecLaws` for both types and `IntPrintLaw` (Props/C02CodecIeee.lean: theorems of
  the model's `Display` / `FromStr` and of Lean's `Float.Model`), `LimitRep` / `FloatsRep` (`C04.limitRep_float`,
  `C04.decoded_floatsRep_float`: a decoded float is within the parse limit, hence no NaN, hence represented).
  What remains are premises about the run, not laws about numbers:
    * the bytes decode and finalise to `m`; `encode m` succeeds with text `t`;
    * neither file name of `m` contains `//` — finding F16, false of some decoded maps (`C04.f16_decoded_witness_float`), and the
      real code loses the name there;
    * the encoder's two list blocks are LF-free record lines (`RtFile.ListBlockShape`).
  The last section runs the round trip of a hostile 19-line file in the kernel with the real instances.
-/
import RosuModel.Props.C02Decoded
import RosuModel.Props.C02CodecIeee
import RosuModel.Props.C04Ieee
import RosuModel.Props.C04DecodedIeee
namespace Rosu.C02
open Rosu Encode EncodeLines Scalar DecodedInv
set_option linter.unusedSectionVars false

section
variable [Trig Float32]

/-- **records_roundtrip_decoded** for `f64` / `f32`, no law hypothesis: decode any bytes to a map `m`, encode it, decode the
text again. If neither file name of `m` contains `//` (F16) and the two list blocks are LF-terminated record lines: reading
succeeds, and whenever finalisation succeeds the re-decoded map has the same format version, general (preserved view),
editor, metadata (preserved view: non-positive ids come back as the defaults), difficulty, events and colours —
every `f64` / `f32` value bit for bit (equality of `Float` / `Float32` is equality of the IEEE datum, `-0 ≠ +0`). -/
theorem records_roundtrip_decoded_float (bytes : List UInt8) (st : BeatmapState Float Float32) (m : Beatmap Float Float32)
    (h : decodeBytes beatmapDecoder bytes = .ok st) (hf : st.finish = .ok m) (hds : NoDoubleSlash m)
    (t : Str) (T H : List Str) (he : encode m = .ok t)
    (hT : encodeTimingPoints m = .ok (unlines (str "[TimingPoints]" :: T)))
    (hH : encodeHitObjects m = .ok (unlines (str "[HitObjects]" :: H)))
    (sT : RtFile.ListBlockShape T) (sH : RtFile.ListBlockShape H) :
    ∃ st2 : BeatmapState Float Float32, decodeBytes beatmapDecoder (utf8Encode t) = .ok st2 ∧
      ∀ m2 : Beatmap Float Float32, st2.finish = .ok m2 →
        m2.formatVersion = m.formatVersion ∧
        m2.general = RtGeneral.preservedGeneral m.general (RtGeneral.sampleSetOf m.controlPoints) ∧
        m2.editor = m.editor ∧ m2.metadata = RtMetadata.preservedMetadata m.metadata ∧ m2.difficulty = m.difficulty ∧
        m2.events = m.events ∧ m2.colors = m.colors :=
  records_roundtrip_decoded_of_limitRep C04.constFacts_float codecLaws_float_ieee codecLaws_float32_ieee
    intPrintLaw_float_ieee C04.limitRep_float C04.limitRep_float32 bytes st m h hf hds t T H he hT hH sT sH

/-- the float side spelled out: the nine float fields of the record sections and every break time come back as the very
same IEEE values. -/
theorem record_floats_roundtrip_decoded_float (bytes : List UInt8) (st : BeatmapState Float Float32)
    (m : Beatmap Float Float32) (h : decodeBytes beatmapDecoder bytes = .ok st) (hf : st.finish = .ok m)
    (hds : NoDoubleSlash m) (t : Str) (T H : List Str) (he : encode m = .ok t)
    (hT : encodeTimingPoints m = .ok (unlines (str "[TimingPoints]" :: T)))
    (hH : encodeHitObjects m = .ok (unlines (str "[HitObjects]" :: H)))
    (sT : RtFile.ListBlockShape T) (sH : RtFile.ListBlockShape H) :
    ∃ st2 : BeatmapState Float Float32, decodeBytes beatmapDecoder (utf8Encode t) = .ok st2 ∧
      ∀ m2 : Beatmap Float Float32, st2.finish = .ok m2 →
        m2.editor.distanceSpacing = m.editor.distanceSpacing ∧ m2.editor.timelineZoom = m.editor.timelineZoom ∧
        m2.difficulty.hpDrainRate = m.difficulty.hpDrainRate ∧ m2.difficulty.circleSize = m.difficulty.circleSize ∧
        m2.difficulty.overallDifficulty = m.difficulty.overallDifficulty ∧
        m2.difficulty.approachRate = m.difficulty.approachRate ∧
        m2.difficulty.sliderMultiplier = m.difficulty.sliderMultiplier ∧
        m2.difficulty.sliderTickRate = m.difficulty.sliderTickRate ∧
        m2.events.breaks = m.events.breaks := by
  obtain ⟨st2, h2, hrt⟩ := records_roundtrip_decoded_float bytes st m h hf hds t T H he hT hH sT sH
  refine ⟨st2, h2, fun m2 hm2 => ?_⟩
  obtain ⟨_, _, e3, _, e5, e6, _⟩ := hrt m2 hm2
  rw [e3, e5, e6]
  exact ⟨rfl, rfl, rfl, rfl, rfl, rfl, rfl, rfl, rfl⟩

/-! ### non-vacuity on the real instances -/

/-- every premise holds of the sample decoded in Props/C04DecodedIeee.lean (kernel evaluation with `Float` / `Float32`). -/
example (t : Str) (he : encode C04.decodedSampleMapF = .ok t) :=
  records_roundtrip_decoded_float _ _ _ C04.decodedSampleF_decodes C04.decodedSampleF_finishes
    C04.decodedSampleF_noDoubleSlash t [] [] he C04.decodedSampleF_timing_text C04.decodedSampleF_objects_text
    (fun _ h => absurd h List.not_mem_nil) (fun _ h => absurd h List.not_mem_nil)

example : ∃ t, encode C04.decodedSampleMapF = .ok t := C04.decodedSampleF_encodes

/-- … so the conclusion holds of it: the sample text, decoded, encoded and decoded again, gives back the clamped slider
multiplier `3.6`, the tick rate `0.5`, the `f32` stack leniency `3` and the break `100 → 100` whenever it finalises. -/
theorem decodedSampleF_roundtrip :
    ∃ (t : Str) (st2 : BeatmapState Float Float32), encode C04.decodedSampleMapF = .ok t ∧
      decodeBytes beatmapDecoder (utf8Encode t) = .ok st2 ∧
      ∀ m2 : Beatmap Float Float32, st2.finish = .ok m2 →
        m2.difficulty.sliderMultiplier = 3.6 ∧ m2.difficulty.sliderTickRate = 0.5 ∧
        m2.events.breaks.map (fun b => (b.startTime, b.endTime)) = [(100, 100)] ∧
        m2.editor = C04.decodedSampleMapF.editor ∧ m2.colors = C04.decodedSampleMapF.colors := by
  obtain ⟨t, he⟩ := C04.decodedSampleF_encodes
  obtain ⟨st2, h2, hrt⟩ := records_roundtrip_decoded_float _ _ _ C04.decodedSampleF_decodes C04.decodedSampleF_finishes
    C04.decodedSampleF_noDoubleSlash t [] [] he C04.decodedSampleF_timing_text C04.decodedSampleF_objects_text
    (fun _ h => absurd h List.not_mem_nil) (fun _ h => absurd h List.not_mem_nil)
  refine ⟨t, st2, he, h2, fun m2 hm2 => ?_⟩
  obtain ⟨_, _, e3, _, e5, e6, e7⟩ := hrt m2 hm2
  rw [e3, e5, e6, e7]
  exact ⟨C04.decodedSampleF_values.2.2.2.2.2.1, C04.decodedSampleF_values.2.2.2.2.2.2.1,
    C04.decodedSampleF_values.2.2.2.2.2.2.2.2.1, rfl, rfl⟩

end

end Rosu.C02
