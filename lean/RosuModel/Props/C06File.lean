/-
  Props/C06File.lean — C06 at file level: for the full `Beatmap` decoder, erasing a line that its
  section's parser rejects does not change the decoded map.

  Built from: the framing fold of C05 (`feedAll`), the per-section "rejected ⇒ state unchanged"
  theorems (C11, C12, here for [General]), the hit-object observational equality of C06 and the fact
  that the finaliser never looks at the path scratch.
-/
import RosuModel.Model.Finalize
import RosuModel.Props.C06
import RosuModel.Props.C12
import RosuModel.Props.C05
namespace Rosu.C06
open Rosu Scalar

variable {F P : Type} [Scalar F] [Scalar P] [Cvt P F] [Trig F] [Trig P]

/-- `[General]`: a rejected record leaves the state untouched. -/
theorem general_reject_no_effect (st : GeneralState F P) (line : Str) (e : GeneralErr)
    (h : (parseGeneral st line).1 = .error e) : (parseGeneral st line).2 = st := by
  unfold parseGeneral withI32 at h ⊢
  dsimp only at h ⊢
  repeat' split at h
  all_goals first | (cases h; done) | skip
  all_goals (repeat' split) <;> first | rfl | (simp_all)

/-- did the parser of section `sec` accept the line? (sections without a parser accept everything) -/
def stepOk (sec : Section) (st : BeatmapState F P) (l : Str) : Bool :=
  match sec with
  | .general => match (st.hitObjects.timingPoints.parseGeneral l).1 with | .ok _ => true | .error _ => false
  | .editor => (parseEditor st.editor l).2
  | .metadata => (parseMetadata st.metadata l).2
  | .difficulty => (parseDifficulty st.hitObjects.difficulty l).2
  | .events => (parseEvents st.hitObjects.events l).2
  | .timingPoints => match (parseTimingPoints st.hitObjects.timingPoints l).1 with | .ok _ => true | .error _ => false
  | .colors => (parseColors st.colors l).2
  | .hitObjects => (parseHitObjectLine st.hitObjects.timingPoints.general.mode st.hitObjects.core l).2
  | _ => true

/-- observational equality of `BeatmapState`s: everything equal except the hit-object path scratch
`vertices` (see `ObsEq`). -/
def ObsEqB (s t : BeatmapState F P) : Prop :=
  s.version = t.version ∧ s.editor = t.editor ∧ s.metadata = t.metadata ∧ s.colors = t.colors ∧
  s.hitObjects.events = t.hitObjects.events ∧ s.hitObjects.timingPoints = t.hitObjects.timingPoints ∧
  s.hitObjects.difficulty = t.hitObjects.difficulty ∧ ObsEq s.hitObjects.core t.hitObjects.core

theorem ObsEqB.rfl' (s : BeatmapState F P) : ObsEqB s s := ⟨rfl, rfl, rfl, rfl, rfl, rfl, rfl, rfl, rfl, rfl⟩

/-- a rejected line leaves the whole `BeatmapState` observationally unchanged, in every section.
(`CleanScratch`: the control-point buffer is empty between lines — `clean_always`.) -/
theorem rejected_step_obs (sec : Section) (st : BeatmapState F P) (l : Str)
    (hclean : CleanScratch st.hitObjects.core) (hrej : stepOk sec st l = false) :
    ObsEqB (BeatmapState.step sec st l) st := by
  cases sec <;> simp only [stepOk] at hrej
  · -- general
    unfold BeatmapState.step HitObjectsState.step
    have : (st.hitObjects.timingPoints.parseGeneral l).2 = st.hitObjects.timingPoints := by
      unfold TimingPointsState.parseGeneral at hrej ⊢
      cases hg : parseGeneral st.hitObjects.timingPoints.general l with
      | mk r g =>
        cases r with
        | ok u => simp [hg] at hrej
        | error e =>
          have := general_reject_no_effect st.hitObjects.timingPoints.general l e (by rw [hg])
          rw [hg] at this
          simp only at this
          simp [this]
    simp only [this]
    exact ObsEqB.rfl' st
  · unfold BeatmapState.step
    simp only [C11.editor_reject_no_effect _ _ hrej]; exact ObsEqB.rfl' st
  · unfold BeatmapState.step
    simp only [C11.metadata_reject_no_effect _ _ hrej]; exact ObsEqB.rfl' st
  · unfold BeatmapState.step HitObjectsState.step
    simp only [C11.difficulty_reject_no_effect _ _ hrej]; exact ObsEqB.rfl' st
  · unfold BeatmapState.step HitObjectsState.step
    simp only [C11.events_reject_no_effect _ _ hrej]; exact ObsEqB.rfl' st
  · -- timing points
    unfold BeatmapState.step HitObjectsState.step
    have : (parseTimingPoints st.hitObjects.timingPoints l).2 = st.hitObjects.timingPoints := by
      cases hr : (parseTimingPoints st.hitObjects.timingPoints l).1 with
      | ok u => simp [hr] at hrej
      | error e => exact C12.rejected_line_no_trace _ _ e hr
    simp only [this]
    exact ObsEqB.rfl' st
  · unfold BeatmapState.step
    simp only [C11.colors_reject_no_effect _ _ hrej]; exact ObsEqB.rfl' st
  · -- hit objects
    unfold BeatmapState.step HitObjectsState.step
    have h := rejected_no_trace st.hitObjects.timingPoints.general.mode st.hitObjects.core l hclean hrej
    exact ⟨rfl, rfl, rfl, rfl, rfl, rfl, rfl, h.1, h.2.1, h.2.2⟩
  all_goals cases hrej

/-- every step respects observational equality. -/
theorem step_congr (sec : Section) (s t : BeatmapState F P) (l : Str) (h : ObsEqB s t) :
    ObsEqB (BeatmapState.step sec s l) (BeatmapState.step sec t l) := by
  obtain ⟨h1, h2, h3, h4, h5, h6, h7, h8⟩ := h
  cases sec <;> unfold BeatmapState.step HitObjectsState.step <;> dsimp only
  all_goals first
    | exact ⟨h1, h2, h3, h4, h5, h6, h7, h8⟩
    | (refine ⟨h1, ?_, h3, h4, h5, h6, h7, h8⟩; rw [h2])
    | (refine ⟨h1, h2, ?_, h4, h5, h6, h7, h8⟩; rw [h3])
    | (refine ⟨h1, h2, h3, ?_, h5, h6, h7, h8⟩; rw [h4])
    | (refine ⟨h1, h2, h3, h4, ?_, h6, h7, h8⟩; rw [h5])
    | (refine ⟨h1, h2, h3, h4, h5, ?_, h7, h8⟩; rw [h6])
    | (refine ⟨h1, h2, h3, h4, h5, h6, ?_, h8⟩; rw [h7])
    | (refine ⟨h1, h2, h3, h4, h5, h6, h7, ?_⟩; rw [h6]; exact (parse_congr _ _ _ l h8).1)

theorem feedAll_congr (ls : List Str) (sec : Option Section) (s t : BeatmapState F P) (h : ObsEqB s t) :
    (C05.feedAll beatmapDecoder (sec, s) ls).1 = (C05.feedAll beatmapDecoder (sec, t) ls).1 ∧
    ObsEqB (C05.feedAll beatmapDecoder (sec, s) ls).2 (C05.feedAll beatmapDecoder (sec, t) ls).2 := by
  induction ls generalizing sec s t with
  | nil => exact ⟨rfl, h⟩
  | cons l rest ih =>
    simp only [C05.feedAll_cons]
    have : (C05.feedStep beatmapDecoder (sec, s) l).1 = (C05.feedStep beatmapDecoder (sec, t) l).1 ∧
        ObsEqB (C05.feedStep beatmapDecoder (sec, s) l).2 (C05.feedStep beatmapDecoder (sec, t) l).2 := by
      unfold C05.feedStep
      cases Section.tryFromLine l with
      | some x => exact ⟨rfl, h⟩
      | none =>
        dsimp only
        split
        · exact ⟨rfl, h⟩
        · cases sec with
          | none => exact ⟨rfl, h⟩
          | some x => exact ⟨rfl, step_congr x s t l h⟩
    obtain ⟨e1, e2⟩ := this
    have := ih (C05.feedStep beatmapDecoder (sec, s) l).1 _ _ e2
    rw [show C05.feedStep beatmapDecoder (sec, s) l = ((C05.feedStep beatmapDecoder (sec, s) l).1, (C05.feedStep beatmapDecoder (sec, s) l).2) from rfl]
    rw [show C05.feedStep beatmapDecoder (sec, t) l = ((C05.feedStep beatmapDecoder (sec, t) l).1, (C05.feedStep beatmapDecoder (sec, t) l).2) from rfl]
    rw [← e1]
    exact this

/-- the hit-object buffer is clean in every state the fold reaches from a clean state. -/
theorem feedAll_clean (ls : List Str) (acc : Option Section × BeatmapState F P)
    (h : CleanScratch acc.2.hitObjects.core) :
    CleanScratch (C05.feedAll beatmapDecoder acc ls).2.hitObjects.core := by
  induction ls generalizing acc with
  | nil => exact h
  | cons l rest ih =>
    simp only [C05.feedAll_cons]
    apply ih
    unfold C05.feedStep
    cases Section.tryFromLine l with
    | some x => exact h
    | none =>
      dsimp only
      split
      · exact h
      · cases hs : acc.1 with
        | none => simp only [hs]; exact h
        | some sec =>
          simp only [hs]
          show CleanScratch (BeatmapState.step sec acc.2 l).hitObjects.core
          cases sec <;> unfold BeatmapState.step HitObjectsState.step <;> dsimp only
          all_goals first | exact h | exact parse_preserves_clean _ _ _ h

/-- the finaliser does not look at the path scratch. -/
theorem finish_congr (s t : BeatmapState F P) (h : ObsEqB s t) : s.finish = t.finish := by
  obtain ⟨h1, h2, h3, h4, h5, h6, h7, h8, _, _⟩ := h
  unfold BeatmapState.finish HitObjectsState.finish
  rw [h1, h2, h3, h4, h5, h6, h7, h8]

/-- the accumulator of the declarative framing fold after the lines `ls` (version slot included). -/
def reach (ls : List Str) : Option Section × BeatmapState F P :=
  match C05.dropBlank ls with
  | [] => (none, beatmapDecoder.create latestVersion)
  | x :: rest =>
    match C05.versionOf x with
    | some v => C05.feedAll beatmapDecoder (none, beatmapDecoder.create v) rest
    | none => C05.feedAll beatmapDecoder (none, beatmapDecoder.create latestVersion) (x :: rest)

theorem frame_eq_reach (ls : List Str) : frame (beatmapDecoder (F := F) (P := P)) ls = (reach ls).2 := by
  rw [C05.frame_eq_spec]
  unfold C05.spec reach C05.feed
  cases C05.dropBlank ls with
  | nil => rfl
  | cons x rest => dsimp only; cases C05.versionOf x <;> rfl

theorem reach_append (a c : List Str) (ha : ∃ x ∈ a, x.isEmpty = false) :
    reach (F := F) (P := P) (a ++ c) = C05.feedAll beatmapDecoder (reach a) c := by
  obtain ⟨x, a', h1, _, h3⟩ := C05.dropBlank_append_nonblank a c ha
  unfold reach
  rw [h1, h3]
  dsimp only
  cases C05.versionOf x with
  | some v => dsimp only; rw [C05.feedAll_append]
  | none => dsimp only; rw [← List.cons_append, C05.feedAll_append]

theorem reach_clean (a : List Str) : CleanScratch (reach (F := F) (P := P) a).2.hitObjects.core := by
  unfold reach
  cases C05.dropBlank a with
  | nil => rfl
  | cons x rest =>
    dsimp only
    cases C05.versionOf x with
    | some v => exact feedAll_clean rest _ rfl
    | none => exact feedAll_clean (x :: rest) _ rfl

/-- **C06 at file level.** Let `l` be a line that, where it stands in the file (after the lines `a`,
which contain the version slot), is handed to the parser of section `s` and rejected by it. Then the
decoded `Beatmap` is exactly the one decoded from the file without `l`, whatever follows. -/
theorem rejected_line_absent_file (a b : List Str) (l : Str) (s : Section)
    (ha : ∃ x ∈ a, x.isEmpty = false)
    (hsec : (reach (F := F) (P := P) a).1 = some s)
    (hrec : Section.tryFromLine l = none) (hns : shouldSkipLine l = false)
    (hrej : stepOk s (reach (F := F) (P := P) a).2 l = false) :
    (frame (beatmapDecoder (F := F) (P := P)) (a ++ l :: b)).finish = (frame beatmapDecoder (a ++ b)).finish := by
  rw [frame_eq_reach, frame_eq_reach, reach_append a (l :: b) ha, reach_append a b ha]
  apply finish_congr
  rw [C05.feedAll_cons]
  have hstep : C05.feedStep beatmapDecoder (reach (F := F) (P := P) a) l =
      (some s, BeatmapState.step s (reach (F := F) (P := P) a).2 l) := by
    unfold C05.feedStep
    simp only [hrec, hns, hsec]
    rfl
  rw [hstep]
  have hobs := rejected_step_obs s (reach (F := F) (P := P) a).2 l (reach_clean a) hrej
  have := (feedAll_congr b (some s) _ _ hobs).2
  rw [show reach (F := F) (P := P) a = ((reach a).1, (reach a).2) from rfl, hsec]
  exact this

end Rosu.C06
