/-
  Props/C04DecodedTimingEvents.lean — C04, the last residual of the timing block: `CollectedTimesInLimit` ("every time at
  which `collect_samples` takes a sample point is within the parse limit") reduced to hypotheses about the decoded OBJECTS,
  in ALL modes.

  1. STRUCTURE (every `Scalar`, no law). `collect_samples` takes from a slider (start `A`, `n = repeat_count + 1` spans,
     `dur = n · dist / velocity`, span duration `D = dur / n`, all as the code computes them) sample points at
       * the end `A + dur` (every mode), the start `A` (mania; the head event in osu! / catch),
       * in osu! / catch mode: the times of the slider EVENTS of kind head / repeat / tail — and of no other event (ticks and
         the legacy last tick do not contribute) —: `A`, `(A + k·D) + D` for `0 ≤ k`, `k + 2 ≤ n`, and the tail
         `A + n·D` (NOT the same expression as `A + dur`).
     `collectObject_slider_times` (from `C20.stream_shape`: a successful `sliderEventList` IS the eager stream `eventsOf`;
     `collect_mono`: more `next` calls do not change a finished stream). Hence `sliderTimes_of_nodeTimes`: the slider residual
     follows, for every scalar and in every mode, from `SliderNodeTimesInLimit` — end, tail and span ends `InLimit`.
  2. IEEE ORDER (doubles). With a span duration `0 ≤ D` the head is `≤` every repeat and `≤` the tail in the IEEE order
     (`C20.head_le_repeat_float`, `C20.head_le_tail_float` — survive rounding), and the head is the decoded start time, within
     the limit (`C14.decoded_stored`). So only the UPPER bound has to be asked of the tail and of the span ends:
     `SliderTailOk` / `SliderTailInLimit`, and `sliderTimes_osu_catch_float : SliderTailInLimit m → SliderTimesInLimit m`
     (all four modes in fact). "repeat `≤` tail" is NOT available unconditionally on doubles (`C20.repeat_le_tail_statement`
     is open, only `repeat_le_tail_partial` under a gap hypothesis), hence every span end is bounded separately — that is
     what one would check.
  3. ALL MODES, no `EndTimeLaws`: `collectedTimes_all_modes_float` — spinner / hold ends by `EndOk` (Props/C04DecodedObjectsIeee2.lean:
     the lower bound and NaN-freeness are theorems, `end_time_lower_float`), sliders by `SliderTailOk`; then
     `decoded_repTimingMap_ieee_ends`, `timing_lines_accepted_decoded_ieee_ends`: the `[TimingPoints]` block of a decoded
     `Beatmap<f64/f32>` is accepted as soon as every object's computed end time (and span ends) is within the limit
     (`ObjEndsInLimit`, finding F26's predicate).
  4. Non-vacuity and sharpness: an osu!-mode file with a two-span slider decoded by the kernel (`evMap`), and the same slider
     near the parse limit (`evOverMap`): its tail is beyond the limit, the hypothesis fails and so does the conclusion.
-/
import RosuModel.Props.C04DecodedTimingIeee
import RosuModel.Props.C04DecodedObjectsIeee2
import RosuModel.Props.C20IeeeFormsOrder
set_option linter.unusedSectionVars false
set_option linter.unusedSimpArgs false
set_option linter.unusedVariables false
namespace Rosu.C04
open Rosu Scalar Encode EncodeLines RtTiming DecodedObj SliderEvents

/-! ## 1. which events contribute, and their times (every `Scalar`) -/

section Stream
variable {F : Type} [Scalar F]

/-- a finished `collect` does not depend on the bound on the number of `next` calls. -/
theorem collect_mono (fuel : Nat) : ∀ (N : Nat) (it : Iter F) (evs : List (SliderEvent F)),
    collect fuel N it = some evs → ∀ N', N ≤ N' → collect fuel N' it = some evs
  | 0, _, _, h, _, _ => by simp [collect] at h
  | N + 1, it, evs, h, N', hN => by
    obtain ⟨M, rfl⟩ : ∃ M, N' = M + 1 := ⟨N' - 1, by omega⟩
    rw [C20.collect_succ] at h ⊢
    cases hn : it.next fuel with
    | none => simp only [hn] at h; cases h
    | some r =>
      obtain ⟨o, it'⟩ := r
      cases o with
      | none => simp only [hn] at h ⊢; exact h
      | some ev =>
        simp only [hn] at h ⊢
        cases hc : collect fuel N it' with
        | none => simp only [hc] at h; cases h
        | some evs' =>
          simp only [hc] at h
          rw [collect_mono fuel N it' evs' hc M (by omega)]
          exact h

theorem new_fields {start dur vel td total : F} {n : Int} {p : Params F}
    (hp : Params.new start dur vel td total n = some p) :
    p.startTime = start ∧ p.spanDuration = dur ∧ p.spanCount = n := by
  simp only [Params.new] at hp
  split at hp
  · cases hp; exact ⟨rfl, rfl, rfl⟩
  · cases hp

/-- **a successful `sliderEventList` is the eager stream** `eventsOf p ds` of the parameters `new` built (start, span
duration `duration / n`, `n` spans), for the tick distances `ds` of a span. -/
theorem sliderEventList_events (start vel td dist duration : F) (n : Int) (buf evs buf' : List (SliderEvent F))
    (hn : 1 ≤ n) (h : sliderEventList start vel td dist duration n buf = .ok (evs, buf')) :
    ∃ (p : Params F) (ds : List F), p.startTime = start ∧ p.spanDuration = duration / (Scalar.ofInt n : F) ∧
      p.spanCount = n ∧ evs = eventsOf p ds := by
  unfold sliderEventList runUse at h
  simp only [] at h
  cases hit : Iter.new start (duration / (Scalar.ofInt n : F)) vel td dist n buf with
  | none => simp only [hit] at h; cases h
  | some it =>
    simp only [hit] at h
    cases hacc : collectAcc eventsFuel collectBound it [] with
    | none => simp only [hacc] at h; cases h
    | some r =>
      obtain ⟨evs0, it'⟩ := r
      simp only [hacc, Except.ok.injEq, Prod.mk.injEq] at h
      obtain ⟨he, _⟩ := h
      subst he
      have hcol : collect eventsFuel collectBound it = some evs0 := by
        have := C20.collectAcc_eq_collect eventsFuel collectBound it []
        rw [hacc] at this
        cases hc : collect eventsFuel collectBound it with
        | none => rw [hc] at this; cases this
        | some e =>
          rw [hc] at this
          simp only [Option.map_some, List.reverse_nil, List.nil_append, Option.some.injEq] at this
          rw [this]
      have hp : Params.new start (duration / (Scalar.ofInt n : F)) vel td dist n = some it.toParams := by
        unfold Iter.new at hit
        cases hp : Params.new start (duration / (Scalar.ofInt n : F)) vel td dist n with
        | none => simp [hp] at hit
        | some p =>
          simp only [hp, Option.map_some, Option.some.injEq] at hit
          subst hit; rfl
      obtain ⟨f1, f2, f3⟩ := new_fields hp
      cases hds : spanTickDists it.toParams eventsFuel with
      | none =>
        have := C20.stream_fuel_exhausted _ _ _ _ _ _ buf eventsFuel collectBound it hit hn hds
        rw [this] at hcol; cases hcol
      | some ds =>
        refine ⟨it.toParams, ds, f1, f2, f3, ?_⟩
        have hbig := C20.stream_shape _ _ _ _ _ _ buf eventsFuel
          (max collectBound ((eventsOf it.toParams ds).length + 1)) it ds hit (by omega) hds (by omega)
        have := collect_mono eventsFuel collectBound it evs0 hcol
          (max collectBound ((eventsOf it.toParams ds).length + 1)) (Nat.le_max_left _ _)
        rw [hbig] at this
        exact (Option.some.inj this).symm

/-- **the events of kind head / repeat / tail of the stream**: the head, the tail, and the repeats ending the spans
`0 ≤ k < n − 1`. (Ticks have kind `tick`, the legacy last tick kind `lastTick`.) -/
theorem node_of_eventsOf (p : Params F) (ds : List F) (e : SliderEvent F) (he : e ∈ eventsOf p ds)
    (hk : e.kind = .head ∨ e.kind = .repeatPt ∨ e.kind = .tail) :
    e = headEvent p ∨ e = tailEvent p ∨ ∃ k : Int, 0 ≤ k ∧ k < p.spanCount - 1 ∧ e = repeatEvent p k := by
  rw [C20.eventsOf_eq_concat] at he
  rcases List.mem_cons.mp he with rfl | he
  · exact Or.inl rfl
  · rcases List.mem_append.mp he with he | he
    · obtain ⟨i, _, hs⟩ := List.mem_flatMap.mp he
      unfold spanEvents at hs
      rcases List.mem_append.mp hs with ht | hr
      · obtain ⟨d, _, rfl⟩ := List.mem_map.mp ht
        rcases hk with hk | hk | hk <;> cases hk
      · split at hr
        · rename_i hlt
          rw [List.mem_singleton] at hr
          exact Or.inr (Or.inr ⟨(i : Int), by omega, hlt, hr⟩)
        · cases hr
    · rcases List.mem_cons.mp he with rfl | he
      · rcases hk with hk | hk | hk <;> cases hk
      · rw [List.mem_singleton] at he
        exact Or.inr (Or.inl he)

end Stream

section Times
variable {F P : Type} [Scalar F] [Scalar P] [Cvt P F] [Trig F] [Trig P]

/-- the times at which `collect_samples` can take a point from a slider starting at `A`, of computed duration `dur`, with `n`
spans (span duration `D = dur / n`): the end `A + dur`, the start, the tail `A + n·D`, the span ends `(A + k·D) + D`. -/
def NodeTime (A dur : F) (n : Int) (t : F) : Prop :=
  t = A + dur ∨ t = A ∨ t = A + (Scalar.ofInt n : F) * (dur / (Scalar.ofInt n : F)) ∨
    ∃ k : Int, 0 ≤ k ∧ k + 2 ≤ n ∧ t = (A + (Scalar.ofInt k : F) * (dur / (Scalar.ofInt n : F))) + dur / (Scalar.ofInt n : F)

/-- a node event of a successful `sliderEventList` sits at a `NodeTime`. -/
theorem sliderEventList_node_time (start vel td dist duration : F) (n : Int) (buf evs buf' : List (SliderEvent F))
    (hn : 1 ≤ n) (h : sliderEventList start vel td dist duration n buf = .ok (evs, buf')) (e : SliderEvent F)
    (he : e ∈ evs) (hk : e.kind = .head ∨ e.kind = .repeatPt ∨ e.kind = .tail) : NodeTime start duration n e.time := by
  obtain ⟨p, ds, f1, f2, f3, rfl⟩ := sliderEventList_events start vel td dist duration n buf evs buf' hn h
  rcases node_of_eventsOf p ds e he hk with rfl | rfl | ⟨k, hk0, hk1, rfl⟩
  · exact Or.inr (Or.inl f1)
  · refine Or.inr (Or.inr (Or.inl ?_))
    show p.startTime + Scalar.ofInt p.spanCount * p.spanDuration = _
    rw [f1, f2, f3]
  · refine Or.inr (Or.inr (Or.inr ⟨k, hk0, by omega, ?_⟩))
    show (p.startTime + Scalar.ofInt k * p.spanDuration) + p.spanDuration = _
    rw [f1, f2]

/-- **every time at which `collect_samples` takes a point from a slider is a `NodeTime`** — any mode, any scalar. -/
theorem collectObject_slider_times (m : Beatmap F P) (h : HitObject F P) (s : HitObjectSlider F P)
    (hk : h.kind = .slider s) (hrc : 0 ≤ s.repeatCount) (b : List (SliderEvent F))
    (r : List (SamplePoint F) × List (SliderEvent F)) (hr : collectObject m h b = .ok r) :
    ∃ dist, curveDist s = .ok dist ∧ ∀ p ∈ r.1,
      NodeTime h.startTime ((Scalar.ofInt (s.repeatCount + 1) : F) * dist / s.velocity) (s.repeatCount + 1) p.time := by
  unfold collectObject at hr
  simp only [hk, bind, Except.bind] at hr
  split at hr
  · cases hr
  · rename_i dist hd
    refine ⟨dist, hd, ?_⟩
    have hn : 1 ≤ s.repeatCount + 1 := by omega
    have own : ∀ p ∈ collectSample h.samples
        (h.startTime + (Scalar.ofInt (s.repeatCount + 1) : F) * dist / s.velocity),
        NodeTime h.startTime ((Scalar.ofInt (s.repeatCount + 1) : F) * dist / s.velocity) (s.repeatCount + 1) p.time :=
      fun p hp => Or.inl (collectSample_mem hp).1
    cases hmode : m.general.mode <;> simp only [hmode, bind, Except.bind, pure, Except.pure] at hr
    · -- osu!
      split at hr
      · cases hr
      · rename_i v hv
        simp only [Except.ok.injEq] at hr
        subst hr
        intro p hp
        rcases List.mem_append.mp hp with hp | hp
        · exact own p hp
        · unfold osuSliderSamples at hv
          simp only [bind, Except.bind, pure, Except.pure] at hv
          split at hv
          · cases hv
          · rename_i w hw
            obtain ⟨evs, buf'⟩ := w
            simp only [Except.ok.injEq] at hv
            subst hv
            simp only [List.mem_flatMap] at hp
            obtain ⟨ev, hev, hp⟩ := hp
            have nt := sliderEventList_node_time _ _ _ _ _ _ _ evs buf' hn hw ev hev
            cases hkd : ev.kind <;> simp only [hkd] at hp
            · rw [(collectSample_mem hp).1]; exact nt (Or.inl hkd)
            · cases hp
            · rw [(collectSample_mem hp).1]; exact nt (Or.inr (Or.inl hkd))
            · cases hp
            · rw [(collectSample_mem hp).1]; exact nt (Or.inr (Or.inr hkd))
    · -- taiko
      simp only [Except.ok.injEq] at hr
      subst hr
      exact own
    · -- catch
      split at hr
      · cases hr
      · rename_i v hv
        simp only [Except.ok.injEq] at hr
        subst hr
        intro p hp
        rcases List.mem_append.mp hp with hp | hp
        · exact own p hp
        · unfold catchSliderSamples at hv
          simp only [bind, Except.bind, pure, Except.pure] at hv
          split at hv
          · cases hv
          · rename_i w hw
            obtain ⟨evs, buf'⟩ := w
            simp only [Except.ok.injEq] at hv
            subst hv
            simp only [List.mem_flatMap] at hp
            obtain ⟨⟨ev, i⟩, hev, hp⟩ := hp
            have hmem := List.fst_mem_of_mem_zipIdx hev
            obtain ⟨hev', hkind⟩ := List.mem_filter.mp hmem
            rw [(collectSample_mem hp).1]
            refine sliderEventList_node_time _ _ _ _ _ _ _ evs buf' hn hw ev hev' ?_
            cases hkd : ev.kind <;> simp only [hkd] at hkind
            · exact Or.inl rfl
            · cases hkind
            · exact Or.inr (Or.inl rfl)
            · cases hkind
            · exact Or.inr (Or.inr rfl)
    · -- mania
      simp only [Except.ok.injEq] at hr
      subst hr
      intro p hp
      rcases List.mem_append.mp hp with hp | hp
      · exact own p hp
      · exact Or.inr (Or.inl (collectSample_mem hp).1)

/-- the residual on the computed node times of the sliders, two-sided (every scalar): the end, the tail and every span end
the code computes are within the parse limit. -/
def SliderNodeTimesInLimit (m : Beatmap F P) : Prop :=
  ∀ h ∈ m.hitObjects, ∀ s, h.kind = .slider s → ∀ dist, curveDist s = .ok dist →
    ∀ t, NodeTime h.startTime ((Scalar.ofInt (s.repeatCount + 1) : F) * dist / s.velocity) (s.repeatCount + 1) t →
      t ≠ h.startTime → InLimit t

/-- **sliderTimes_of_nodeTimes** — every scalar, every mode, no law: for a decoded map the slider residual
`SliderTimesInLimit` follows from the node times (end, tail, span ends; the start is within the limit by the decoder). -/
theorem sliderTimes_of_nodeTimes (bs : List UInt8) (st : BeatmapState F P) (m : Beatmap F P)
    (h1 : decodeBytes beatmapDecoder bs = .ok st) (h2 : st.finish = .ok m) (hn : SliderNodeTimesInLimit m) :
    SliderTimesInLimit m := by
  intro h hh s hk b r hr p hp
  have hstart := (C14.decoded_stored bs st m h1 h2 h hh).1
  have hok := (decoded_objOk bs st m h1 h2 h hh).kind
  rw [hk] at hok
  obtain ⟨dist, hd, hall⟩ := collectObject_slider_times m h s hk hok.2.1.1 b r hr
  by_cases he : p.time = h.startTime
  · rw [he]; exact hstart
  · exact hn h hh s hk dist hd p.time (hall p hp) he

end Times

/-! ## 2. doubles: only the upper bound has to be asked of the tail and of the span ends -/

section Ieee

/-- a finite double not above the parse limit `2147483647`. (Against "`≤` limit and not NaN" this excludes `−∞` only; the
lower bound `−limit ≤ x` is NOT asked.) -/
def UpTo (x : Float) : Prop := x.isFinite = true ∧ Scalar.le x (maxParseValue : Float) = true

/-- between a time within the limit and the limit, in the IEEE order: within the limit. -/
theorem inLimit_of_head_le (A X : Float) (hA : InLimit A) (hle : Scalar.le A X = true)
    (hX : Scalar.le X (maxParseValue : Float) = true) : InLimit X := by
  have hn : Scalar.isNaN X = false := ((FMO.le_iff _ _).mp hX).1
  have nL : Scalar.isNaN (-(maxParseValue : Float)) = false := by decide +kernel
  have low : Scalar.le (-(maxParseValue : Float)) A = true := FMO.le_of_not_lt A _ hA.2.2 nL hA.1
  exact ⟨FMO.not_lt_of_le _ _ (FMO.le_trans _ _ _ low hle), FMO.not_lt_of_le _ _ hX, hn⟩

/-- **the checkable condition on one slider** (start `A`, computed duration `dur = n·dist/velocity`, `n` spans; everything as
the code computes it on doubles, `D = dur / n`):
* the end time `A + dur` is within the limit (the own sample of every mode — `SliderEndInLimit`);
* the span duration `D` is a number `≥ 0`;
* the tail time `A + n·D` is finite and `≤ limit`;
* every span end `(A + k·D) + D` with a repeat (`0 ≤ k`, `k + 2 ≤ n`) is finite and `≤ limit`.
No lower bound is asked of the tail / span ends: it follows from the IEEE order facts of C20. -/
structure SliderTailOk (A dur : Float) (n : Int) : Prop where
  endIn : InLimit (A + dur)
  span : Scalar.le (0 : Float) (dur / (Scalar.ofInt n : Float)) = true
  tail : UpTo (A + (Scalar.ofInt n : Float) * (dur / (Scalar.ofInt n : Float)))
  spans : ∀ k : Int, 0 ≤ k → k + 2 ≤ n →
    UpTo ((A + (Scalar.ofInt k : Float) * (dur / (Scalar.ofInt n : Float))) + dur / (Scalar.ofInt n : Float))

/-- the hypothesis with the upper bounds ALONE (end within the limit; tail and span ends `≤ limit`, hence numbers): without
the clause `0 ≤ D` and without finiteness (i.e. without excluding `−∞`). -/
def SliderTailUpper (A dur : Float) (n : Int) : Prop :=
  InLimit (A + dur) ∧
  Scalar.le (A + (Scalar.ofInt n : Float) * (dur / (Scalar.ofInt n : Float))) (maxParseValue : Float) = true ∧
  ∀ k : Int, 0 ≤ k → k + 2 ≤ n →
    Scalar.le ((A + (Scalar.ofInt k : Float) * (dur / (Scalar.ofInt n : Float))) + dur / (Scalar.ofInt n : Float))
      (maxParseValue : Float) = true

/-- the statement with the upper bounds alone — NOT proved here (`sliderTimes_osu_catch_float` is the part that is). Missing:
(a) `0 ≤ D` for decoded sliders: the velocity is positive and finite (`C01.decoded_velocity_range_float`), but the sign of the
curve length `dist` returned by `Curve.new` is not available as a theorem (a negative length makes `SliderEventsIter::new`
panic, so osu! / catch never get that far; taiko / mania would), and the sign has to be carried through the rounded
`n · dist / velocity / n`; (b) the exclusion of `−∞` for a tail / span end that is `≤ limit` (impossible with `0 ≤ D` and a
finite start, not proved). No counterexample is known. -/
def sliderTimes_upper_statement [Trig Float32] : Prop :=
  ∀ (bs : List UInt8) (st : BeatmapState Float Float32) (m : Beatmap Float Float32),
    decodeBytes beatmapDecoder bs = .ok st → st.finish = .ok m →
    (∀ h ∈ m.hitObjects, ∀ s, h.kind = .slider s → ∀ dist, curveDist s = .ok dist →
      SliderTailUpper h.startTime ((Scalar.ofInt (s.repeatCount + 1) : Float) * dist / s.velocity) (s.repeatCount + 1)) →
    SliderTimesInLimit m

theorem SliderTailOk.upper {A dur : Float} {n : Int} (h : SliderTailOk A dur n) : SliderTailUpper A dur n :=
  ⟨h.endIn, h.tail.2, fun k hk0 hk2 => (h.spans k hk0 hk2).2⟩

/-- **every event time of the slider's node events lies between the head and the limit**: under `SliderTailOk` and a start
within the limit, every `NodeTime` is within the limit (`C20.head_le_tail_float`, `C20.head_le_repeat_float`). -/
theorem nodeTime_inLimit_float (A dur : Float) (n : Int) (hA : InLimit A) (hn1 : 1 ≤ n) (hn : n < 2 ^ 31)
    (ok : SliderTailOk A dur n) (t : Float) (ht : NodeTime A dur n t) : InLimit t := by
  let p : Params Float := ⟨A, dur / (Scalar.ofInt n : Float), 0, 0, 0, n⟩
  rcases ht with rfl | rfl | rfl | ⟨k, hk0, hk2, rfl⟩
  · exact ok.endIn
  · exact hA
  · exact inLimit_of_head_le A _ hA (C20.head_le_tail_float p (by show 0 ≤ n; omega) hn ok.span ok.tail.1) ok.tail.2
  · have hu := ok.spans k hk0 hk2
    exact inLimit_of_head_le A _ hA (C20.head_le_repeat_float p k hk0 (by omega) ok.span hu.1) hu.2

/-- the order statement itself: head `≤` every node time `≤` limit (IEEE `<=`), for the node events of the stream. -/
theorem nodeTime_between_float (A dur : Float) (n : Int) (hA : InLimit A) (hn1 : 1 ≤ n) (hn : n < 2 ^ 31)
    (ok : SliderTailOk A dur n) :
    Scalar.le A (A + (Scalar.ofInt n : Float) * (dur / (Scalar.ofInt n : Float))) = true ∧
    ∀ k : Int, 0 ≤ k → k + 2 ≤ n →
      Scalar.le A ((A + (Scalar.ofInt k : Float) * (dur / (Scalar.ofInt n : Float))) + dur / (Scalar.ofInt n : Float)) = true := by
  let p : Params Float := ⟨A, dur / (Scalar.ofInt n : Float), 0, 0, 0, n⟩
  exact ⟨C20.head_le_tail_float p (by show 0 ≤ n; omega) hn ok.span ok.tail.1,
    fun k hk0 hk2 => C20.head_le_repeat_float p k hk0 (by omega) ok.span (ok.spans k hk0 hk2).1⟩

section
variable [Trig Float32]

/-- `SliderTailOk` of every slider of the map, for the length the curve code returns. -/
def SliderTailInLimit (m : Beatmap Float Float32) : Prop :=
  ∀ h ∈ m.hitObjects, ∀ s, h.kind = .slider s → ∀ dist, curveDist s = .ok dist →
    SliderTailOk h.startTime ((Scalar.ofInt (s.repeatCount + 1) : Float) * dist / s.velocity) (s.repeatCount + 1)

/-- **sliderTimes_osu_catch_float** — on doubles, in osu! and catch mode (and in taiko / mania, where less is needed:
`sliderTimes_taiko_mania`), the slider residual of a decoded map follows from `SliderTailInLimit`: end within the limit, span
duration `≥ 0`, tail and span ends finite and `≤ limit`. -/
theorem sliderTimes_osu_catch_float (bs : List UInt8) (st : BeatmapState Float Float32) (m : Beatmap Float Float32)
    (h1 : decodeBytes beatmapDecoder bs = .ok st) (h2 : st.finish = .ok m) (ht : SliderTailInLimit m) :
    SliderTimesInLimit m := by
  refine sliderTimes_of_nodeTimes bs st m h1 h2 ?_
  intro h hh s hk dist hd t hnt _
  have hstart := (C14.decoded_stored bs st m h1 h2 h hh).1
  have hok := (decoded_objOk bs st m h1 h2 h hh).kind
  rw [hk] at hok
  obtain ⟨_, ⟨hr0, hr1⟩, _⟩ := hok
  exact nodeTime_inLimit_float _ _ _ hstart (by omega) (by omega) (ht h hh s hk dist hd) t hnt

/-- **the checkable condition on one decoded object**: its computed end time — and, for a slider, the tail and the span
ends — does not exceed the parse limit (finding F26's predicate). Circles: nothing. -/
def ObjEndOk (h : HitObject Float Float32) : Prop :=
  match h.kind with
  | .circle _ => True
  | .spinner sp => EndOk h.startTime sp.duration
  | .hold ho => EndOk h.startTime ho.duration
  | .slider s => ∀ dist, curveDist s = .ok dist →
      SliderTailOk h.startTime ((Scalar.ofInt (s.repeatCount + 1) : Float) * dist / s.velocity) (s.repeatCount + 1)

def ObjEndsInLimit (m : Beatmap Float Float32) : Prop := ∀ h ∈ m.hitObjects, ObjEndOk h

theorem sliderTail_of_objEnds {m : Beatmap Float Float32} (he : ObjEndsInLimit m) : SliderTailInLimit m := by
  intro h hh s hk
  have := he h hh
  unfold ObjEndOk at this
  rw [hk] at this
  exact this

/-- **collectedTimes_all_modes_float** — NO `EndTimeLaws`, any mode: for a decoded `Beatmap<f64/f32>` every collected time is
within the parse limit as soon as every object's end is (`ObjEndsInLimit`): spinner / hold ends `start + duration` do not
exceed the limit (`EndOk`; their lower bound is a theorem, `end_time_lower_float`), sliders satisfy `SliderTailOk`. -/
theorem collectedTimes_all_modes_float (bs : List UInt8) (st : BeatmapState Float Float32) (m : Beatmap Float Float32)
    (h1 : decodeBytes beatmapDecoder bs = .ok st) (h2 : st.finish = .ok m) (he : ObjEndsInLimit m) :
    CollectedTimesInLimit m := by
  intro pts hp p hpm
  obtain ⟨o, ho, b, r, hr, hpr⟩ := collectAll_mem m _ _ pts hp p hpm
  obtain ⟨ht, hie⟩ := C14.decoded_numeric_ieee bs st m h1 h2 o ho
  have hend := he o ho
  unfold ObjEndOk at hend
  cases hkd : o.kind with
  | slider s =>
    exact sliderTimes_osu_catch_float bs st m h1 h2 (sliderTail_of_objEnds he) o ho s hkd b r hr p hpr
  | circle c =>
    unfold collectObject at hr
    simp only [hkd, pure, Except.pure, Except.ok.injEq] at hr
    subst hr
    rw [(collectSample_mem hpr).1]; exact ht
  | spinner sp =>
    rw [hkd] at hend hie
    unfold collectObject at hr
    simp only [hkd, pure, Except.pure, Except.ok.injEq] at hr
    subst hr
    obtain ⟨low, nn⟩ := end_time_lower_float o.startTime sp.duration ht hie.2.1 hie.2.2
    rw [(collectSample_mem hpr).1]; exact ⟨low, hend, nn⟩
  | hold ho' =>
    rw [hkd] at hend hie
    unfold collectObject at hr
    simp only [hkd, pure, Except.pure, Except.ok.injEq] at hr
    subst hr
    obtain ⟨low, nn⟩ := end_time_lower_float o.startTime ho'.duration ht hie.2.1 hie.2.2
    rcases List.mem_append.mp hpr with hpr | hpr
    · rw [(collectSample_mem hpr).1]; exact ⟨low, hend, nn⟩
    · rw [(collectSample_mem hpr).1]; exact ht

/-- **decoded_repTimingMap_ieee_ends** — `RtTiming.RepTimingMap` of every decoded `Beatmap<f64/f32>` whose objects end within
the limit (`ObjEndsInLimit`); no law hypothesis, no residual on collected times. -/
theorem decoded_repTimingMap_ieee_ends (bs : List UInt8) (st : BeatmapState Float Float32)
    (m : Beatmap Float Float32) (h1 : decodeBytes beatmapDecoder bs = .ok st) (h2 : st.finish = .ok m)
    (he : ObjEndsInLimit m) : RepTimingMap IeeeRep64 m :=
  decoded_repTimingMap_partial_ieee bs st m h1 h2 (collectedTimes_all_modes_float bs st m h1 h2 he)

/-- **timing_lines_accepted_decoded_ieee_ends** — C04 for the `[TimingPoints]` block on the IEEE instances, ALL modes: decode
any bytes to `m`; if every object's computed end time (sliders: end, tail and span ends; span duration `≥ 0`) is within the
limit, every line of the block `encode_timing_points` writes is accepted by `parse_timing_points` in any decoder state and
applied as exactly the values written. -/
theorem timing_lines_accepted_decoded_ieee_ends (bs : List UInt8)
    (st : BeatmapState Float Float32) (m : Beatmap Float Float32) (h1 : decodeBytes beatmapDecoder bs = .ok st)
    (h2 : st.finish = .ok m) (he : ObjEndsInLimit m) (t : Str) (h : encodeTimingPoints m = .ok t) :
    ∃ cp, collectSamples m = .ok cp ∧ t = unlines (str "[TimingPoints]" :: (mapEntries m cp).map Entry.line) ∧
      (∀ e ∈ mapEntries m cp, ∀ st : TimingPointsState Float Float32,
        parseTimingPoints st (trimEnd e.line) = (.ok (), applyTpLine st (e.read st.general.defaultSampleBank))) ∧
      ∀ st : TimingPointsState Float Float32,
        Accepts (fun s l => ((parseTimingPoints s l).2, (parseTimingPoints s l).1.isOk)) st
          (((mapEntries m cp).map Entry.line).map trimEnd) :=
  timing_lines_accepted_decoded_ieee bs st m h1 h2 (collectedTimes_all_modes_float bs st m h1 h2 he) t h

end

end Ieee

/-! ## 3. non-vacuity and sharpness: osu!-mode files with a slider, decoded and finalised by the kernel on doubles

(`Trig Float32` of Model/Cmds/Curve.lean; one object per file, as in Props/C04DecodedObjectsIeee2.lean.) -/

section Examples
set_option maxRecDepth 100000

def upToB (x : Float) : Bool := x.isFinite && Scalar.le x (maxParseValue : Float)

theorem upTo_of_check {x : Float} (h : upToB x = true) : UpTo x := by
  unfold upToB at h
  rw [Bool.and_eq_true] at h
  exact h

/-- `SliderTailOk` as a check (the span ends `k = 0 … n − 2`). -/
def sliderTailOkB (A dur : Float) (n : Int) : Bool :=
  inLimitB (A + dur) && Scalar.le (0 : Float) (dur / (Scalar.ofInt n : Float)) &&
    upToB (A + (Scalar.ofInt n : Float) * (dur / (Scalar.ofInt n : Float))) &&
    (List.range (n.toNat - 1)).all (fun k =>
      upToB ((A + (Scalar.ofInt (k : Int) : Float) * (dur / (Scalar.ofInt n : Float))) + dur / (Scalar.ofInt n : Float)))

theorem sliderTailOk_of_check {A dur : Float} {n : Int} (h : sliderTailOkB A dur n = true) : SliderTailOk A dur n := by
  unfold sliderTailOkB at h
  simp only [Bool.and_eq_true] at h
  obtain ⟨⟨⟨a1, a2⟩, a3⟩, a4⟩ := h
  refine ⟨inLimit_of_check a1, a2, upTo_of_check a3, fun k hk0 hk2 => ?_⟩
  have hm : k.toNat ∈ List.range (n.toNat - 1) := List.mem_range.mpr (by omega)
  have := List.all_eq_true.mp a4 k.toNat hm
  rw [Int.toNat_of_nonneg hk0] at this
  exact upTo_of_check this

/-- `SliderTailOk` on closed doubles: start `1000`, duration `714.2857142857142`, two spans (tail `1714.2857142857142`, span
end `1357.142857142857`). -/
example : SliderTailOk (1000 : Float) (Float.ofBits 0x4086524924924924) 2 := sliderTailOk_of_check (by decide +kernel)

/-- … and a start `647` ms before the limit: the tail clause fails. -/
example : ¬ SliderTailOk (2147483000 : Float) (Float.ofBits 0x4086524924924924) 2 := by
  intro h
  have : Scalar.le ((2147483000 : Float) + (Scalar.ofInt 2 : Float) * (Float.ofBits 0x4086524924924924 / (Scalar.ofInt 2 : Float)))
      (maxParseValue : Float) = false := by decide +kernel
  rw [h.tail.2] at this
  cases this

section
variable [Trig Float32]

/-- `ObjEndOk` as a check. -/
def objEndOkB (h : HitObject Float Float32) : Bool :=
  match h.kind with
  | .circle _ => true
  | .spinner sp => endOkB h.startTime sp.duration
  | .hold ho => endOkB h.startTime ho.duration
  | .slider s =>
    match curveDist s with
    | .ok dist => sliderTailOkB h.startTime ((Scalar.ofInt (s.repeatCount + 1) : Float) * dist / s.velocity) (s.repeatCount + 1)
    | .error _ => true

theorem objEndOk_of_check (h : HitObject Float Float32) (hb : objEndOkB h = true) : ObjEndOk h := by
  unfold objEndOkB at hb
  unfold ObjEndOk
  cases hk : h.kind with
  | circle c => trivial
  | spinner sp => rw [hk] at hb; exact endOk_of_check hb
  | hold ho => rw [hk] at hb; exact endOk_of_check hb
  | slider s =>
    rw [hk] at hb
    intro dist hd
    simp only [hd] at hb
    exact sliderTailOk_of_check hb

/-- the collected times of a map, as bit patterns. -/
def collectedBits (m : Beatmap Float Float32) : List UInt64 :=
  match collectAll m m.hitObjects [] with
  | .ok pts => pts.map (fun (p : SamplePoint Float) => p.time.toBits)
  | .error _ => []

def collectedInLimitB (m : Beatmap Float Float32) : Bool :=
  match collectAll m m.hitObjects [] with
  | .ok pts => pts.all (fun (p : SamplePoint Float) => inLimitB p.time)
  | .error _ => true

end

/-- an osu!-mode file (beat length `500`, slider multiplier `1.4`: velocity `0.28`) with one `[HitObjects]` line. -/
def evFileOf (l : String) : List UInt8 :=
  (str "osu file format v14\n\n[General]\nMode: 0\n\n[TimingPoints]\n0,500,4,2,0,100,1,0\n\n[HitObjects]\n" ++ str l ++
    str "\n").map (fun c => c.toNat.toUInt8)

/-- a linear slider of length `100` with one repeat (two spans), starting at `1000`: duration `2·100/0.28 = 714.2857…`. -/
def evLine : String := "100,100,1000,2,0,L|200:100,2,100"

/-- the same slider starting `647` ms before the parse limit `2147483647`. -/
def evOverLine : String := "100,100,2147483000,2,0,L|200:100,2,100"

/-- what the kernel computes for `evLine`: osu! mode, one object, `ObjEndOk` holds, and `collect_samples` takes four points:
the end `1714.2857142857142`, the head `1000`, the repeat `1357.142857142857`, the tail `1714.2857142857142`. -/
theorem ev_checked :
    (decodeFinish (evFileOf evLine)).map (fun m => (m.general.mode, m.hitObjects.length, m.hitObjects.all objEndOkB,
      collectedBits m)) =
    some (GameMode.osu, 1, true, [0x409AC92492492492, 0x408F400000000000, 0x4095349249249249, 0x409AC92492492492]) := by
  decide +kernel

/-- **the hypotheses of `collectedTimes_all_modes_float` / `timing_lines_accepted_decoded_ieee_ends` are satisfiable on a
decoded osu!-mode map with a slider**, and their conclusions for it. -/
theorem ev_accepted :
    ∃ (st : BeatmapState Float Float32) (m : Beatmap Float Float32),
      decodeBytes beatmapDecoder (evFileOf evLine) = .ok st ∧ st.finish = .ok m ∧ m.general.mode = .osu ∧
      m.hitObjects.length = 1 ∧ ObjEndsInLimit m ∧ SliderTailInLimit m ∧ SliderTimesInLimit m ∧ CollectedTimesInLimit m ∧
      RepTimingMap IeeeRep64 m ∧
      ∀ t, encodeTimingPoints m = .ok t →
        ∃ cp, collectSamples m = .ok cp ∧ t = unlines (str "[TimingPoints]" :: (mapEntries m cp).map Entry.line) ∧
          ∀ st : TimingPointsState Float Float32,
            Accepts (fun s l => ((parseTimingPoints s l).2, (parseTimingPoints s l).1.isOk)) st
              (((mapEntries m cp).map Entry.line).map trimEnd) := by
  have hc := ev_checked
  cases hm : decodeFinish (evFileOf evLine) with
  | none => rw [hm] at hc; cases hc
  | some m =>
    rw [hm] at hc
    simp only [Option.map_some, Option.some.injEq, Prod.mk.injEq] at hc
    obtain ⟨c1, c2, c3, _⟩ := hc
    obtain ⟨st, h1, h2⟩ := decodeFinish_spec hm
    have he : ObjEndsInLimit m := fun h hh => objEndOk_of_check h (List.all_eq_true.mp c3 h hh)
    refine ⟨st, m, h1, h2, c1, c2, he, sliderTail_of_objEnds he,
      sliderTimes_osu_catch_float _ st m h1 h2 (sliderTail_of_objEnds he),
      collectedTimes_all_modes_float _ st m h1 h2 he, decoded_repTimingMap_ieee_ends _ st m h1 h2 he, fun t ht => ?_⟩
    obtain ⟨cp, e1, e2, _, e4⟩ := timing_lines_accepted_decoded_ieee_ends _ st m h1 h2 he t ht
    exact ⟨cp, e1, e2, e4⟩

/-- what the kernel computes for `evOverLine`: osu! mode, one object, `ObjEndOk` FAILS; the four collected times are the end
`2147483714.2857141`, the head `2147483000`, the repeat `2147483357.142857`, the tail `2147483714.2857141` — end and tail
beyond the limit. -/
theorem evOver_checked :
    (decodeFinish (evFileOf evOverLine)).map (fun m => (m.general.mode, m.hitObjects.length, m.hitObjects.any objEndOkB,
      collectedBits m, collectedInLimitB m)) =
    some (GameMode.osu, 1, false,
      [0x41E0000008492492, 0x41DFFFFF5E000000, 0x41DFFFFFB7492492, 0x41E0000008492492], false) := by
  decide +kernel

/-- **the hypothesis is needed in osu! mode** (mirroring `over_not_collectedTimes` on doubles): the slider near the limit
decodes and finalises, its tail `2147483714.2857141` is beyond the parse limit, `ObjEndsInLimit` fails — and so does
`CollectedTimesInLimit`. -/
theorem evOver_not_collectedTimes :
    ∃ (st : BeatmapState Float Float32) (m : Beatmap Float Float32),
      decodeBytes beatmapDecoder (evFileOf evOverLine) = .ok st ∧ st.finish = .ok m ∧ m.general.mode = .osu ∧
      m.hitObjects.length = 1 ∧ ¬ CollectedTimesInLimit m ∧ ¬ ObjEndsInLimit m := by
  have hc := evOver_checked
  cases hm : decodeFinish (evFileOf evOverLine) with
  | none => rw [hm] at hc; cases hc
  | some m =>
    rw [hm] at hc
    simp only [Option.map_some, Option.some.injEq, Prod.mk.injEq] at hc
    obtain ⟨c1, c2, _, _, c5⟩ := hc
    obtain ⟨st, h1, h2⟩ := decodeFinish_spec hm
    have hnot : ¬ CollectedTimesInLimit m := by
      intro hct
      unfold collectedInLimitB at c5
      cases hca : collectAll m m.hitObjects [] with
      | error e => rw [hca] at c5; cases c5
      | ok pts =>
        rw [hca] at c5
        have hall : pts.all (fun (p : SamplePoint Float) => inLimitB p.time) = true := by
          apply List.all_eq_true.mpr
          intro p hp
          obtain ⟨a, b, c⟩ := hct pts hca p hp
          unfold inLimitB
          rw [a, b, c]; rfl
        simp only [] at c5
        rw [hall] at c5; cases c5
    exact ⟨st, m, h1, h2, c1, c2, hnot, fun he => hnot (collectedTimes_all_modes_float _ st m h1 h2 he)⟩

/-- the same file in catch mode (`juicestream_events`). -/
def evCatchFileOf (l : String) : List UInt8 :=
  (str "osu file format v14\n\n[General]\nMode: 2\n\n[TimingPoints]\n0,500,4,2,0,100,1,0\n\n[HitObjects]\n" ++ str l ++
    str "\n").map (fun c => c.toNat.toUInt8)

/-- catch mode, the same slider: the same four collected times (end, head, repeat, tail), `ObjEndOk` holds. -/
theorem evCatch_checked :
    (decodeFinish (evCatchFileOf evLine)).map (fun m => (m.general.mode, m.hitObjects.length, m.hitObjects.all objEndOkB,
      collectedBits m)) =
    some (GameMode.catch, 1, true, [0x409AC92492492492, 0x408F400000000000, 0x4095349249249249, 0x409AC92492492492]) := by
  decide +kernel

/-- the hypotheses are satisfiable on a decoded catch-mode map with a slider. -/
theorem evCatch_accepted :
    ∃ (st : BeatmapState Float Float32) (m : Beatmap Float Float32),
      decodeBytes beatmapDecoder (evCatchFileOf evLine) = .ok st ∧ st.finish = .ok m ∧ m.general.mode = .catch ∧
      m.hitObjects.length = 1 ∧ ObjEndsInLimit m ∧ CollectedTimesInLimit m ∧ RepTimingMap IeeeRep64 m := by
  have hc := evCatch_checked
  cases hm : decodeFinish (evCatchFileOf evLine) with
  | none => rw [hm] at hc; cases hc
  | some m =>
    rw [hm] at hc
    simp only [Option.map_some, Option.some.injEq, Prod.mk.injEq] at hc
    obtain ⟨c1, c2, c3, _⟩ := hc
    obtain ⟨st, h1, h2⟩ := decodeFinish_spec hm
    have he : ObjEndsInLimit m := fun h hh => objEndOk_of_check h (List.all_eq_true.mp c3 h hh)
    exact ⟨st, m, h1, h2, c1, c2, he, collectedTimes_all_modes_float _ st m h1 h2 he,
      decoded_repTimingMap_ieee_ends _ st m h1 h2 he⟩

end Examples

end Rosu.C04
