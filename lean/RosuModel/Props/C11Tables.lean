/-
  Props/C11Tables.lean — C11 "section = table" for the remaining record sections, and what follows
  from the tables (DESIGN 5.11 `section_eq_table`, `invalid_value_noop`, `frame`, `last_valid_wins`).

  * `editor_eq_table`, `difficulty_eq_table` — the parser *is* an explicit key ↦ conversion+setter table
    (same `tableRule` / `applyRule` as `metadata_eq_table` in Props/C11General.lean)
  * `colours_eq_table` — `[Colours]` is one rule (colour conversion first, then `Combo…` prefix / name),
    with `color_parse_spec` (three or four trimmed `u8` components, alpha always 255) and
    `setCustomColor_lookup` (override by name)
  * `events_eq_cases` — `[Events]`: record kind ↦ effect (background, video-as-background, break, sprite)
  * from each: invalid value ⇒ state unchanged, frame (a record changes at most its own field — with the
    one documented coupling OverallDifficulty → ApproachRate), and the last valid occurrence wins for
    *every* field of Editor, Difficulty, General and Metadata (one key-indexed theorem per section,
    each an instance of `last_valid_wins_generic`; ApproachRate has its own coupled statement).

  The parsers of these sections return `state × ok` (the model keeps no error kind for them; only
  `[General]` has one, see `general_eq_table`), so "invalid" is `ok = false`.
-/
import RosuModel.Props.C11General
namespace Rosu.C11
open Rosu Scalar

variable {F P : Type} [Scalar F] [Scalar P]

/-! ### generic consequences of a table -/

/-- a rule that rejects leaves the state alone. -/
theorem applyRule_reject {σ : Type} (r : RuleOutcome σ) (st : σ) :
    (applyRule r st).2 = false → (applyRule r st).1 = st := by
  cases r <;> simp [applyRule]

/-- **invalid_value_noop**, generic: key in the table, value does not convert ⇒ rejected, no effect. -/
theorem tableRule_invalid {σ : Type} (table : List (String × (Str → Option (σ → σ)))) (kv : Str × Str)
    (conv : Str → Option (σ → σ)) (hk : lookupKey kv.1 table = some conv) (hv : conv kv.2 = none) (st : σ) :
    applyRule (tableRule table kv) st = (st, false) := by
  unfold tableRule
  simp only [hk, hv, applyRule]

/-- **unknown_key_noop**, generic. -/
theorem tableRule_unknown {σ : Type} (table : List (String × (Str → Option (σ → σ)))) (kv : Str × Str)
    (hk : lookupKey kv.1 table = none) (st : σ) :
    applyRule (tableRule table kv) st = (st, true) := by
  unfold tableRule
  simp only [hk, applyRule]

/-- **frame**, generic: an observation `g` of the state survives a record if every table entry the
record's key text selects preserves it (on this state, for this value). -/
theorem tableRule_frame {σ V : Type} (table : List (String × (Str → Option (σ → σ)))) (g : σ → V)
    (kv : Str × Str) (st : σ)
    (h : ∀ e ∈ table, kv.1 = str e.1 → ∀ f, e.2 kv.2 = some f → g (f st) = g st) :
    g (applyRule (tableRule table kv) st).1 = g st := by
  unfold tableRule
  cases hl : lookupKey kv.1 table with
  | none => rfl
  | some conv =>
    obtain ⟨name, hmem, hname⟩ := lookupKey_mem _ _ _ hl
    dsimp only
    cases hc : conv kv.2 with
    | none => rfl
    | some f => exact h (name, conv) hmem hname f hc

/-- an accepted record of a known key applies that entry's setter. -/
theorem tableRule_update {σ : Type} (table : List (String × (Str → Option (σ → σ)))) (kv : Str × Str)
    (conv : Str → Option (σ → σ)) (f : σ → σ) (hk : lookupKey kv.1 table = some conv) (hv : conv kv.2 = some f)
    (st : σ) : applyRule (tableRule table kv) st = (f st, true) := by
  unfold tableRule
  simp only [hk, hv, applyRule]

/-- conversion "float": `parse_num` of an `f32`/`f64` — `FromStr` of the trimmed text, within ±(2³¹−1), not NaN. -/
def floatField {σ α : Type} [Scalar α] (set : α → σ → σ) : Str → Option (σ → σ) :=
  fun v => (floatParse v : Option α).map set

/-- the last valid value of a list of lines, if any (right-most line that carries one). -/
def lastSome {V : Type} (v : Str → Option V) : List Str → Option V
  | [] => none
  | l :: rest => match lastSome v rest with
    | some x => some x
    | none => v l

/-- `lastValid` is "the last valid value if there is one, else the initial value". -/
theorem lastValid_eq_lastSome {V : Type} (v : Str → Option V) (init : V) (ls : List Str) :
    lastValid v init ls = (lastSome v ls).getD init := by
  induction ls generalizing init with
  | nil => rfl
  | cons l rest ih =>
    simp only [lastValid, List.foldl_cons] at ih ⊢
    rw [ih]
    simp only [lastSome]
    cases lastSome v rest <;> rfl

/-! ### `[Editor]` -/

/-- the `Bookmarks` conversion: comma-separated items, each read by `i32::from_str` (no trimming, the
whole `i32` range); items that do not parse are skipped. Never fails. -/
def bookmarksOf (v : Str) : List Int := (splitOn ',' v).filterMap i32FromStr

/-- **bookmarks_skip_invalid**. -/
theorem bookmarks_skip_invalid (v : Str) (n : Int) :
    n ∈ bookmarksOf v ↔ ∃ item ∈ splitOn ',' v, i32FromStr item = some n := by
  simp [bookmarksOf, List.mem_filterMap]

example : bookmarksOf (str "x,5,2147483648,-7,+3, 4,-2147483648") = [5, -7, 3, -2147483648] := by decide

/-- **the `[Editor]` table**. -/
def editorTable : List (String × (Str → Option (Editor F → Editor F))) :=
  [ ("Bookmarks",       textField fun v e => { e with bookmarks := bookmarksOf v }),
    ("DistanceSpacing", floatField fun (x : F) e => { e with distanceSpacing := x }),
    ("BeatDivisor",     intField fun n e => { e with beatDivisor := n }),
    ("GridSize",        intField fun n e => { e with gridSize := n }),
    ("TimelineZoom",    floatField fun (x : F) e => { e with timelineZoom := x }) ]

def editorKeyText : EditorKey → Str
  | .bookmarks => str "Bookmarks" | .distanceSpacing => str "DistanceSpacing" | .beatDivisor => str "BeatDivisor"
  | .gridSize => str "GridSize" | .timelineZoom => str "TimelineZoom"

theorem editorKey_parse_text (key : EditorKey) : EditorKey.parse (editorKeyText key) = some key := by
  cases key <;> decide

theorem editorKey_parse_eq (k : Str) (key : EditorKey) : EditorKey.parse k = some key ↔ k = editorKeyText key := by
  constructor
  · intro h
    unfold EditorKey.parse at h
    iterate 5 (rcases ite_chain h with ⟨hc, rfl⟩ | ⟨-, h⟩; · exact eq_of_beq hc)
    cases h
  · intro h; subst h; exact editorKey_parse_text key

theorem editorKey_parse_none (k : Str) : EditorKey.parse k = none ↔ ∀ key : EditorKey, k ≠ editorKeyText key := by
  constructor
  · intro h key e
    rw [(editorKey_parse_eq k key).mpr e] at h; cases h
  · intro h
    cases hk : EditorKey.parse k with
    | none => rfl
    | some key => exact absurd ((editorKey_parse_eq k key).mp hk) (h key)

theorem editor_lookup_none (k : Str) (h : EditorKey.parse k = none) : lookupKey k (editorTable (F := F)) = none := by
  have hne := (editorKey_parse_none k).mp h
  unfold editorTable
  rw [lookupKey_cons_ne k _ _ _ (hne .bookmarks), lookupKey_cons_ne k _ _ _ (hne .distanceSpacing),
    lookupKey_cons_ne k _ _ _ (hne .beatDivisor), lookupKey_cons_ne k _ _ _ (hne .gridSize),
    lookupKey_cons_ne k _ _ _ (hne .timelineZoom)]
  rfl

/-- **section_eq_table** for `[Editor]`: comment cut off, split at the first colon, key looked up (exact
match), value converted as the table says (`Bookmarks` never fails; the two floats and the two integers
within ±(2³¹−1)), the entry's field set. -/
theorem editor_eq_table (st : Editor F) (line : Str) :
    parseEditor st line = applyRule (tableRule editorTable (kvSplit (trimComment line))) st := by
  unfold parseEditor tableRule
  generalize kvSplit (trimComment line) = kv
  obtain ⟨k, v⟩ := kv
  dsimp only
  cases hk : EditorKey.parse k with
  | none => rw [editor_lookup_none k hk]; rfl
  | some key =>
    have hkt := (editorKey_parse_eq k key).mp hk
    subst hkt
    cases key <;> simp only [editorKeyText, editorTable] <;>
      (repeat (first | rw [lookupKey_cons_eq] | rw [lookupKey_cons_ne _ _ _ _ (by decide)])) <;>
      simp only [textField, intField, floatField, bookmarksOf] <;>
      first
        | rfl
        | (cases i32Parse v <;> rfl)
        | (cases (floatParse v : Option F) <;> rfl)

/-- from the table: a known key whose value does not convert rejects the record without effect. -/
theorem editor_invalid_value_noop (st : Editor F) (line : Str) (conv : Str → Option (Editor F → Editor F))
    (hk : lookupKey (kvSplit (trimComment line)).1 editorTable = some conv)
    (hv : conv (kvSplit (trimComment line)).2 = none) :
    parseEditor st line = (st, false) := by
  rw [editor_eq_table]; exact tableRule_invalid _ _ conv hk hv st

/-- the value of a field of `Editor`, whichever type it has. -/
inductive EditorVal (F : Type)
  | list (l : List Int) | num (x : F) | int (n : Int)
  deriving DecidableEq

/-- the five fields of `Editor`, named by their keys. -/
def editorField : EditorKey → Editor F → EditorVal F
  | .bookmarks, e => .list e.bookmarks | .distanceSpacing, e => .num e.distanceSpacing
  | .beatDivisor, e => .int e.beatDivisor | .gridSize, e => .int e.gridSize | .timelineZoom, e => .num e.timelineZoom

/-- every entry of the table writes only the field it is named after. -/
theorem editorTable_frame : ∀ e ∈ editorTable (F := F), ∀ (v : Str) (f : Editor F → Editor F), e.2 v = some f →
    ∀ key : EditorKey, str e.1 ≠ editorKeyText key → ∀ m, editorField key (f m) = editorField key m := by
  intro e he
  simp only [editorTable, List.mem_cons, List.not_mem_nil, or_false] at he
  rcases he with rfl | rfl | rfl | rfl | rfl
  all_goals
    intro v f hf key hne m
    simp only [textField, intField, floatField, Option.some.injEq, Option.map_eq_some_iff] at hf
    first
      | (subst hf; cases key <;> first | rfl | exact absurd rfl hne)
      | (obtain ⟨x, -, rfl⟩ := hf; cases key <;> first | rfl | exact absurd rfl hne)

/-- **editor_frame**: an `[Editor]` record changes at most its own field. -/
theorem editor_frame (st : Editor F) (line : Str) (key : EditorKey)
    (hne : (kvSplit (trimComment line)).1 ≠ editorKeyText key) :
    editorField key (parseEditor st line).1 = editorField key st := by
  rw [editor_eq_table]
  apply tableRule_frame
  intro e he hk f hf
  exact editorTable_frame e he _ f hf key (by rw [← hk]; exact hne) st

/-- what an `[Editor]` line says about the field of `key`. -/
def editorValOf (key : EditorKey) (l : Str) : Option (EditorVal F) :=
  if (kvSplit (trimComment l)).1 == editorKeyText key then
    match key with
    | .bookmarks => some (.list (bookmarksOf (kvSplit (trimComment l)).2))
    | .distanceSpacing | .timelineZoom => (floatParse (kvSplit (trimComment l)).2 : Option F).map .num
    | .beatDivisor | .gridSize => (i32Parse (kvSplit (trimComment l)).2).map .int
  else none

theorem editor_field_step (key : EditorKey) (s : Editor F) (l : Str) :
    editorField key (parseEditor s l).1 = (editorValOf key l).getD (editorField key s) := by
  by_cases hk : (kvSplit (trimComment l)).1 = editorKeyText key
  · unfold parseEditor editorValOf
    generalize kvSplit (trimComment l) = kv at hk ⊢
    obtain ⟨k, v⟩ := kv
    dsimp only at hk ⊢
    subst hk
    simp only [editorKey_parse_text, beq_self_eq_true, if_true]
    cases key <;> dsimp only <;>
      first
        | rfl
        | (cases i32Parse v <;> rfl)
        | (cases (floatParse v : Option F) <;> rfl)
  · rw [editor_frame s l key hk]
    have : ((kvSplit (trimComment l)).1 == editorKeyText key) = false := by simpa using hk
    simp [editorValOf, this]

/-- **last valid wins, every field of `[Editor]`**: after any sequence of lines the field of `key` holds the
value of the last record of that key whose value converts (for `Bookmarks`: the last record), else its initial value. -/
theorem editor_last_valid_wins (key : EditorKey) (st : Editor F) (ls : List Str) :
    editorField key (runSection parseEditor st ls) = lastValid (editorValOf key) (editorField key st) ls :=
  last_valid_wins_generic parseEditor (editorField key) (editorValOf key) (editor_field_step key) st ls

example : lastValid (editorValOf (F := Z) .beatDivisor) (.int 4)
    [str "BeatDivisor: 8", str "BeatDivisor: x", str "GridSize: 2", str "BeatDivisor:16 // c", str "BeatDivisor: 1.5"] = .int 16 := by
  decide

/-! ### `[Difficulty]` -/

/-- setter of the `OverallDifficulty` entry: the approach rate follows until an `ApproachRate` record was accepted. -/
def setOverallDifficulty (x : P) (st : DifficultyState F P) : DifficultyState F P :=
  { st with difficulty :=
      if st.hasApproachRate then { st.difficulty with overallDifficulty := x }
      else { st.difficulty with overallDifficulty := x, approachRate := x } }

/-- setter of the `ApproachRate` entry: stores the value and remembers that one was accepted. -/
def setApproachRate (x : P) (st : DifficultyState F P) : DifficultyState F P :=
  { hasApproachRate := true, difficulty := { st.difficulty with approachRate := x } }

/-- **the `[Difficulty]` table**: six keys, all floats within ±(2³¹−1), not NaN; the two slider values are clamped. -/
def difficultyTable : List (String × (Str → Option (DifficultyState F P → DifficultyState F P))) :=
  [ ("HPDrainRate",       floatField fun (x : P) st => { st with difficulty := { st.difficulty with hpDrainRate := x } }),
    ("CircleSize",        floatField fun (x : P) st => { st with difficulty := { st.difficulty with circleSize := x } }),
    ("OverallDifficulty", floatField fun (x : P) st => setOverallDifficulty x st),
    ("ApproachRate",      floatField fun (x : P) st => setApproachRate x st),
    ("SliderMultiplier",  floatField fun (x : F) st =>
                            { st with difficulty := { st.difficulty with sliderMultiplier := clamp x 0.4 3.6 } }),
    ("SliderTickRate",    floatField fun (x : F) st =>
                            { st with difficulty := { st.difficulty with sliderTickRate := clamp x 0.5 8 } }) ]

def difficultyKeyText : DifficultyKey → Str
  | .hpDrainRate => str "HPDrainRate" | .circleSize => str "CircleSize" | .overallDifficulty => str "OverallDifficulty"
  | .approachRate => str "ApproachRate" | .sliderMultiplier => str "SliderMultiplier" | .sliderTickRate => str "SliderTickRate"

theorem difficultyKey_parse_text (key : DifficultyKey) : DifficultyKey.parse (difficultyKeyText key) = some key := by
  cases key <;> decide

theorem difficultyKey_parse_eq (k : Str) (key : DifficultyKey) :
    DifficultyKey.parse k = some key ↔ k = difficultyKeyText key := by
  constructor
  · intro h
    unfold DifficultyKey.parse at h
    iterate 6 (rcases ite_chain h with ⟨hc, rfl⟩ | ⟨-, h⟩; · exact eq_of_beq hc)
    cases h
  · intro h; subst h; exact difficultyKey_parse_text key

theorem difficultyKey_parse_none (k : Str) :
    DifficultyKey.parse k = none ↔ ∀ key : DifficultyKey, k ≠ difficultyKeyText key := by
  constructor
  · intro h key e
    rw [(difficultyKey_parse_eq k key).mpr e] at h; cases h
  · intro h
    cases hk : DifficultyKey.parse k with
    | none => rfl
    | some key => exact absurd ((difficultyKey_parse_eq k key).mp hk) (h key)

theorem difficultyKeyText_beq (a b : DifficultyKey) : (difficultyKeyText a == difficultyKeyText b) = decide (a = b) := by
  cases a <;> cases b <;> decide

theorem difficulty_lookup_none (k : Str) (h : DifficultyKey.parse k = none) :
    lookupKey k (difficultyTable (F := F) (P := P)) = none := by
  have hne := (difficultyKey_parse_none k).mp h
  unfold difficultyTable
  rw [lookupKey_cons_ne k _ _ _ (hne .hpDrainRate), lookupKey_cons_ne k _ _ _ (hne .circleSize),
    lookupKey_cons_ne k _ _ _ (hne .overallDifficulty), lookupKey_cons_ne k _ _ _ (hne .approachRate),
    lookupKey_cons_ne k _ _ _ (hne .sliderMultiplier), lookupKey_cons_ne k _ _ _ (hne .sliderTickRate)]
  rfl

/-- **section_eq_table** for `[Difficulty]`, the AR/OD coupling included (`setOverallDifficulty`, `setApproachRate`). -/
theorem difficulty_eq_table (st : DifficultyState F P) (line : Str) :
    parseDifficulty st line = applyRule (tableRule difficultyTable (kvSplit (trimComment line))) st := by
  unfold parseDifficulty tableRule
  generalize kvSplit (trimComment line) = kv
  obtain ⟨k, v⟩ := kv
  dsimp only
  cases hk : DifficultyKey.parse k with
  | none => rw [difficulty_lookup_none k hk]; rfl
  | some key =>
    have hkt := (difficultyKey_parse_eq k key).mp hk
    subst hkt
    cases key <;> simp only [difficultyKeyText, difficultyTable] <;>
      (repeat (first | rw [lookupKey_cons_eq] | rw [lookupKey_cons_ne _ _ _ _ (by decide)])) <;>
      simp only [floatField, setOverallDifficulty, setApproachRate] <;>
      first
        | (cases (floatParse v : Option P) <;> rfl)
        | (cases (floatParse v : Option F) <;> rfl)
        | (cases (floatParse v : Option P) <;> simp only [Option.map_none, Option.map_some, applyRule] <;>
            cases st.hasApproachRate <;> rfl)

/-- from the table: a known key whose value does not convert rejects the record without effect. -/
theorem difficulty_invalid_value_noop (st : DifficultyState F P) (line : Str)
    (conv : Str → Option (DifficultyState F P → DifficultyState F P))
    (hk : lookupKey (kvSplit (trimComment line)).1 difficultyTable = some conv)
    (hv : conv (kvSplit (trimComment line)).2 = none) :
    parseDifficulty st line = (st, false) := by
  rw [difficulty_eq_table]; exact tableRule_invalid _ _ conv hk hv st

/-- the six fields of `Difficulty`, named by their keys (`inl` = the four f32 values, `inr` = the two f64 values). -/
def difficultyField : DifficultyKey → DifficultyState F P → P ⊕ F
  | .hpDrainRate, s => .inl s.difficulty.hpDrainRate | .circleSize, s => .inl s.difficulty.circleSize
  | .overallDifficulty, s => .inl s.difficulty.overallDifficulty | .approachRate, s => .inl s.difficulty.approachRate
  | .sliderMultiplier, s => .inr s.difficulty.sliderMultiplier | .sliderTickRate, s => .inr s.difficulty.sliderTickRate

/-- every entry writes only the field it is named after — except `OverallDifficulty`, which also writes the
approach rate as long as no `ApproachRate` record was accepted. -/
theorem difficultyTable_frame : ∀ e ∈ difficultyTable (F := F) (P := P), ∀ (v : Str) (f : DifficultyState F P → DifficultyState F P),
    e.2 v = some f → ∀ key : DifficultyKey, str e.1 ≠ difficultyKeyText key → ∀ m,
    (key = .approachRate → e.1 = "OverallDifficulty" → m.hasApproachRate = true) →
    difficultyField key (f m) = difficultyField key m := by
  intro e he
  simp only [difficultyTable, List.mem_cons, List.not_mem_nil, or_false] at he
  rcases he with rfl | rfl | rfl | rfl | rfl | rfl
  all_goals
    intro v f hf key hne m hcoupling
    simp only [floatField, Option.map_eq_some_iff] at hf
    obtain ⟨x, -, rfl⟩ := hf
    cases key <;> first
      | rfl
      | exact absurd rfl hne
      | (simp only [setOverallDifficulty, difficultyField]; split <;> rfl)
      | (simp only [setOverallDifficulty, hcoupling rfl rfl, difficultyField, if_true])

/-- **difficulty_frame**: a `[Difficulty]` record changes at most its own field; the one exception is the
documented coupling — an `OverallDifficulty` record also sets the approach rate while no `ApproachRate`
record has been accepted. -/
theorem difficulty_frame (st : DifficultyState F P) (line : Str) (key : DifficultyKey)
    (hne : (kvSplit (trimComment line)).1 ≠ difficultyKeyText key)
    (hcoupling : key = .approachRate → (kvSplit (trimComment line)).1 = str "OverallDifficulty" → st.hasApproachRate = true) :
    difficultyField key (parseDifficulty st line).1 = difficultyField key st := by
  rw [difficulty_eq_table]
  apply tableRule_frame
  intro e he hk f hf
  refine difficultyTable_frame e he _ f hf key (by rw [← hk]; exact hne) st ?_
  intro h1 h2
  exact hcoupling h1 (by rw [hk, h2])

/-- the `hasApproachRate` mark is set by an accepted `ApproachRate` record and by nothing else. -/
theorem has_ar_step (st : DifficultyState F P) (line : Str) :
    (parseDifficulty st line).1.hasApproachRate =
      (st.hasApproachRate ||
        ((kvSplit (trimComment line)).1 == str "ApproachRate" &&
          (floatParse (kvSplit (trimComment line)).2 : Option P).isSome)) := by
  unfold parseDifficulty
  generalize kvSplit (trimComment line) = kv
  obtain ⟨k, v⟩ := kv
  dsimp only
  rw [show str "ApproachRate" = difficultyKeyText .approachRate from rfl]
  cases hk : DifficultyKey.parse k with
  | none =>
    have : (k == difficultyKeyText .approachRate) = false := by
      simpa using (difficultyKey_parse_none k).mp hk .approachRate
    simp [this]
  | some key =>
    have hkt := (difficultyKey_parse_eq k key).mp hk
    subst hkt
    cases key <;> simp only [difficultyKeyText_beq] <;>
      first
        | (cases (floatParse v : Option P) <;> simp <;> done)
        | (cases (floatParse v : Option F) <;> simp <;> done)

/-- what a `[Difficulty]` line says about the field of `key` (the slider values are stored clamped). -/
def difficultyValOf (key : DifficultyKey) (l : Str) : Option (P ⊕ F) :=
  if (kvSplit (trimComment l)).1 == difficultyKeyText key then
    match key with
    | .sliderMultiplier => (floatParse (kvSplit (trimComment l)).2 : Option F).map fun x => .inr (clamp x 0.4 3.6)
    | .sliderTickRate => (floatParse (kvSplit (trimComment l)).2 : Option F).map fun x => .inr (clamp x 0.5 8)
    | _ => (floatParse (kvSplit (trimComment l)).2 : Option P).map .inl
  else none

theorem difficulty_field_step (key : DifficultyKey) (hkey : key ≠ .approachRate) (s : DifficultyState F P) (l : Str) :
    difficultyField key (parseDifficulty s l).1 = (difficultyValOf key l).getD (difficultyField key s) := by
  by_cases hk : (kvSplit (trimComment l)).1 = difficultyKeyText key
  · unfold parseDifficulty difficultyValOf
    generalize kvSplit (trimComment l) = kv at hk ⊢
    obtain ⟨k, v⟩ := kv
    dsimp only at hk ⊢
    subst hk
    simp only [difficultyKey_parse_text, beq_self_eq_true, if_true]
    cases key <;> dsimp only <;>
      first
        | exact absurd rfl hkey
        | (cases (floatParse v : Option P) <;> rfl)
        | (cases (floatParse v : Option F) <;> rfl)
        | (cases (floatParse v : Option P) <;> simp only [Option.map_none, Option.map_some, Option.getD] <;>
            cases s.hasApproachRate <;> rfl)
  · rw [difficulty_frame s l key hk (fun h => absurd h hkey)]
    have : ((kvSplit (trimComment l)).1 == difficultyKeyText key) = false := by simpa using hk
    simp [difficultyValOf, this]

/-- **last valid wins, every uncoupled field of `[Difficulty]`** (HP, CS, OD, slider multiplier, slider tick rate). -/
theorem difficulty_last_valid_wins (key : DifficultyKey) (hkey : key ≠ .approachRate) (st : DifficultyState F P)
    (ls : List Str) :
    difficultyField key (runSection parseDifficulty st ls) = lastValid (difficultyValOf key) (difficultyField key st) ls :=
  last_valid_wins_generic parseDifficulty (difficultyField key) (difficultyValOf key) (difficulty_field_step key hkey) st ls

/-- what a line says about the approach rate / the overall difficulty. -/
def arOf (l : Str) : Option P :=
  if (kvSplit (trimComment l)).1 == str "ApproachRate" then floatParse (kvSplit (trimComment l)).2 else none
def odOf (l : Str) : Option P :=
  if (kvSplit (trimComment l)).1 == str "OverallDifficulty" then floatParse (kvSplit (trimComment l)).2 else none

theorem approach_rate_step (s : DifficultyState F P) (l : Str) :
    (parseDifficulty s l).1.difficulty.approachRate =
      ((arOf l : Option P)).getD (if s.hasApproachRate then s.difficulty.approachRate
        else ((odOf l : Option P)).getD s.difficulty.approachRate) := by
  unfold parseDifficulty arOf odOf
  generalize kvSplit (trimComment l) = kv
  obtain ⟨k, v⟩ := kv
  dsimp only
  rw [show str "ApproachRate" = difficultyKeyText .approachRate from rfl,
    show str "OverallDifficulty" = difficultyKeyText .overallDifficulty from rfl]
  cases hk : DifficultyKey.parse k with
  | none =>
    have h1 : (k == difficultyKeyText .approachRate) = false := by
      simpa using (difficultyKey_parse_none k).mp hk .approachRate
    have h2 : (k == difficultyKeyText .overallDifficulty) = false := by
      simpa using (difficultyKey_parse_none k).mp hk .overallDifficulty
    simp [h1, h2]
  | some key =>
    have hkt := (difficultyKey_parse_eq k key).mp hk
    subst hkt
    cases key <;> simp only [difficultyKeyText_beq] <;>
      first
        | (cases (floatParse v : Option P) <;> cases s.hasApproachRate <;> simp <;> done)
        | (cases (floatParse v : Option F) <;> cases s.hasApproachRate <;> simp <;> done)

theorem has_ar_step' (s : DifficultyState F P) (l : Str) :
    (parseDifficulty s l).1.hasApproachRate = (s.hasApproachRate || ((arOf l : Option P)).isSome) := by
  rw [has_ar_step]; unfold arOf
  cases (kvSplit (trimComment l)).1 == str "ApproachRate" <;> simp

/-- **last valid wins for the approach rate (the AR/OD coupling over whole line sequences)**: the approach
rate is the value of the last valid `ApproachRate` record if there is one; otherwise, if an `ApproachRate`
record had been accepted before, it is untouched; otherwise it is the value of the last valid
`OverallDifficulty` record (or the initial value). -/
theorem approach_rate_last_valid_wins (st : DifficultyState F P) (ls : List Str) :
    (runSection parseDifficulty st ls).difficulty.approachRate =
      ((lastSome arOf ls : Option P)).getD
        (if st.hasApproachRate then st.difficulty.approachRate
         else lastValid (odOf : Str → Option P) st.difficulty.approachRate ls) := by
  induction ls generalizing st with
  | nil => simp [runSection, lastSome, lastValid]
  | cons l rest ih =>
    have ih' := ih (parseDifficulty st l).1
    simp only [runSection, List.foldl_cons] at ih' ⊢
    rw [ih', approach_rate_step, has_ar_step']
    simp only [lastSome, lastValid, List.foldl_cons]
    cases lastSome (arOf : Str → Option P) rest with
    | some x => rfl
    | none =>
      cases (arOf l : Option P) with
      | some v => simp
      | none => cases st.hasApproachRate <;> simp

example : (runSection (parseDifficulty (F := Z) (P := Z)) DifficultyState.create
      [str "OverallDifficulty: 7", str "ApproachRate: 9", str "OverallDifficulty: 3", str "ApproachRate: x"]).difficulty.approachRate = ⟨9⟩
    ∧ (runSection (parseDifficulty (F := Z) (P := Z)) DifficultyState.create
      [str "OverallDifficulty: 7", str "ApproachRate: x", str "OverallDifficulty: 3"]).difficulty.approachRate = ⟨3⟩ := by
  decide

/-! ### `[Colours]` -/

/-- **the `[Colours]` rule**: the value is converted to a colour first (whatever the key is); a key that starts
with `Combo` appends a combo colour, any other key text names a custom colour (set, or overridden by name). -/
def coloursRule (kv : Str × Str) : RuleOutcome Colors :=
  match Color.parse kv.2 with
  | none => .invalid
  | some c =>
    if startsWith kv.1 (str "Combo") then .update fun st => { st with customComboColors := st.customComboColors ++ [c] }
    else .update fun st => { st with customColors := setCustomColor kv.1 c st.customColors }

/-- **section_eq_table** for `[Colours]`. -/
theorem colours_eq_table (st : Colors) (line : Str) :
    parseColors st line = applyRule (coloursRule (kvSplit (trimComment line))) st := by
  unfold parseColors coloursRule
  generalize kvSplit (trimComment line) = kv
  obtain ⟨k, v⟩ := kv
  dsimp only
  cases Color.parse v with
  | none => rfl
  | some c => by_cases h : startsWith k (str "Combo") = true <;> simp [h, applyRule]

/-- **component parsing**: a colour is three or four comma-separated fields, each trimmed; the first three are
`u8`s (`u8::from_str`: optional `+`, digits, ≤ 255), the fourth is not even looked at, and alpha is 255. -/
theorem color_parse_spec (s : Str) (c : Color) :
    Color.parse s = some c ↔
      ∃ r g b, ((splitOn ',' s).map trim = [r, g, b] ∨ ∃ a, (splitOn ',' s).map trim = [r, g, b, a]) ∧
        u8FromStr r = some c.r ∧ u8FromStr g = some c.g ∧ u8FromStr b = some c.b ∧ c.a = 255 := by
  unfold Color.parse
  generalize (splitOn ',' s).map trim = fs
  constructor
  · intro h
    split at h
    · rename_i r g b
      refine ⟨r, g, b, Or.inl rfl, ?_⟩
      split at h
      · rename_i hr hg hb; cases h; exact ⟨hr, hg, hb, rfl⟩
      · cases h
    · rename_i r g b a
      refine ⟨r, g, b, Or.inr ⟨a, rfl⟩, ?_⟩
      split at h
      · rename_i hr hg hb; cases h; exact ⟨hr, hg, hb, rfl⟩
      · cases h
    · cases h
  · rintro ⟨r, g, b, h | ⟨a, h⟩, hr, hg, hb, ha⟩ <;> subst h <;> obtain ⟨cr, cg, cb, ca⟩ := c <;>
      simp_all

theorem u8FromStr_le (s : Str) (n : Nat) (h : u8FromStr s = some n) : n ≤ 255 := by
  unfold u8FromStr at h
  (repeat' split at h) <;> first | (cases h; omega) | cases h

/-- every stored component is a `u8`. -/
theorem color_components_u8 (s : Str) (c : Color) (h : Color.parse s = some c) :
    c.r ≤ 255 ∧ c.g ≤ 255 ∧ c.b ≤ 255 ∧ c.a = 255 := by
  obtain ⟨r, g, b, -, hr, hg, hb, ha⟩ := (color_parse_spec s c).mp h
  exact ⟨u8FromStr_le _ _ hr, u8FromStr_le _ _ hg, u8FromStr_le _ _ hb, ha⟩

example : Color.parse (str " 1 ,+2, 3 ,x") = some ⟨1, 2, 3, 255⟩ ∧ Color.parse (str "1,2") = none
    ∧ Color.parse (str "1,2,-3") = none ∧ Color.parse (str "1,2,3,4,5") = none ∧ Color.parse (str "1.0,2,3") = none := by decide

/-- the colour stored under a name. -/
def customLookup (name : Str) (xs : List CustomColor) : Option Color :=
  (xs.find? fun x => x.name == name).map (·.color)

/-- **custom colours are overridden by name**: afterwards the name carries the new colour and every other
name what it carried before. -/
theorem setCustomColor_lookup (name n : Str) (c : Color) (xs : List CustomColor) :
    customLookup n (setCustomColor name c xs) = if n = name then some c else customLookup n xs := by
  induction xs with
  | nil =>
    by_cases h : n = name
    · subst h; simp [setCustomColor, customLookup]
    · have : ¬ name = n := fun e => h e.symm
      simp [setCustomColor, customLookup, h, this]
  | cons x rest ih =>
    unfold setCustomColor
    by_cases hx : x.name = name
    · subst hx
      by_cases h : n = x.name
      · subst h; simp [customLookup]
      · have : ¬ x.name = n := fun e => h e.symm
        simp [customLookup, h, this]
    · have hx' : (x.name == name) = false := by simpa using hx
      simp only [hx', Bool.false_eq_true, if_false]
      by_cases hn : x.name = n
      · have : ¬ n = name := by subst hn; exact hx
        simp [customLookup, hn, this]
      · have hn' : (x.name == n) = false := by simpa using hn
        have := ih
        unfold customLookup at this ⊢
        simp only [List.find?_cons, hn']
        exact this

/-- from the rule: a value that is not a colour rejects the record without effect, whatever the key. -/
theorem colours_invalid_value_noop (st : Colors) (line : Str)
    (hv : Color.parse (kvSplit (trimComment line)).2 = none) : parseColors st line = (st, false) := by
  rw [colours_eq_table]; unfold coloursRule; simp only [hv, applyRule]

/-- **colours_frame**: a `Combo…` record leaves the custom colours alone; a named record leaves the combo
colours and the colour of every other name alone, and sets its own. -/
theorem colours_frame (st : Colors) (line : Str) :
    (startsWith (kvSplit (trimComment line)).1 (str "Combo") = true →
      (parseColors st line).1.customColors = st.customColors) ∧
    (startsWith (kvSplit (trimComment line)).1 (str "Combo") = false →
      (parseColors st line).1.customComboColors = st.customComboColors ∧
      (∀ n, n ≠ (kvSplit (trimComment line)).1 →
        customLookup n (parseColors st line).1.customColors = customLookup n st.customColors) ∧
      ((parseColors st line).2 = true →
        customLookup (kvSplit (trimComment line)).1 (parseColors st line).1.customColors =
          Color.parse (kvSplit (trimComment line)).2)) := by
  rw [colours_eq_table]
  unfold coloursRule
  cases hc : Color.parse (kvSplit (trimComment line)).2 with
  | none => simp [applyRule]
  | some c =>
    constructor
    · intro h; simp [h, applyRule]
    · intro h
      simp only [h, Bool.false_eq_true, if_false, applyRule, setCustomColor_lookup, if_true, true_and, implies_true, and_true]
      intro n hn; simp [hn]

example : (runSection parseColors Colors.default
    [str "Combo1 : 1,2,3", str "SliderBorder: 4,5,6", str "Combo2: 9,9,9,0", str "SliderBorder: 7,8,9", str "Other: 256,0,0"])
    = { customComboColors := [⟨1, 2, 3, 255⟩, ⟨9, 9, 9, 255⟩], customColors := [⟨str "SliderBorder", ⟨7, 8, 9, 255⟩⟩] } := by decide

/-! ### `[Events]` -/

/-- what an `[Events]` line is, read off its comma-separated fields (comment cut off first). -/
inductive EventRecord (F : Type)
  | malformed                  -- fewer than three fields, unknown event type, or a break whose times do not convert
  | background (file : Str)    -- `0` / `Background`: third field, cleaned
  | video (file : Str)         -- `1` / `Video`: third field, cleaned
  | break_ (s e : F)           -- `2` / `Break`: second and third field as numbers
  | sprite (file : Option Str) -- `4` / `Sprite`: fourth field (if any), cleaned
  | ignored                    -- `3` `5` `6` / `Colour` `Sample` `Animation`
  deriving DecidableEq

def eventRecord (fields : List Str) : EventRecord F :=
  match fields with
  | ty :: s :: p :: rest =>
    match EventType.parse ty with
    | none => .malformed
    | some .background => .background (cleanFilename p)
    | some .video => .video (cleanFilename p)
    | some .break_ =>
      match (floatParse s : Option F), (floatParse p : Option F) with
      | some s, some e => .break_ s e
      | _, _ => .malformed
    | some .sprite => .sprite (rest.head?.map cleanFilename)
    | some _ => .ignored
  | _ => .malformed

/-- the effect of each record kind. A background always overwrites; a video whose (≥ 3 byte) name does not
end in a video extension is taken as background, any other video is skipped; a break is appended with its end
raised to its start; a sprite only fills an empty background (and is then rejected if it has no fourth field). -/
def applyEvent : EventRecord F → Events F → Events F × Bool
  | .malformed, st => (st, false)
  | .background f, st => ({ st with backgroundFile := f }, true)
  | .video f, st => (if hasVideoExtension f = some false then { st with backgroundFile := f } else st, true)
  | .break_ s e, st => ({ st with breaks := st.breaks ++ [{ startTime := s, endTime := Scalar.max s e }] }, true)
  | .sprite f, st =>
    if st.backgroundFile.isEmpty then
      match f with
      | some f => ({ st with backgroundFile := f }, true)
      | none => (st, false)
    else (st, true)
  | .ignored, st => (st, true)

/-- **events_eq_cases**: `[Events]` decodes record kind by record kind. -/
theorem events_eq_cases (st : Events F) (line : Str) :
    parseEvents st line = applyEvent (eventRecord (splitOn ',' (trimComment line))) st := by
  unfold parseEvents eventRecord
  generalize splitOn ',' (trimComment line) = fs
  rcases fs with _ | ⟨ty, _ | ⟨s, _ | ⟨p, rest⟩⟩⟩ <;> try rfl
  dsimp only
  cases EventType.parse ty with
  | none => rfl
  | some t =>
    cases t <;> dsimp only [applyEvent] <;> try rfl
    case video =>
      cases h : hasVideoExtension (cleanFilename p) with
      | none => simp
      | some b => cases b <;> simp
    case break_ => cases (floatParse s : Option F) <;> cases (floatParse p : Option F) <;> rfl
    case sprite => cases st.backgroundFile.isEmpty <;> cases rest <;> rfl

/-- the event-type field: the number or the name, exactly. -/
theorem event_type_values (s : Str) (t : EventType) :
    EventType.parse s = some t ↔
      (t = .background ∧ (s = str "0" ∨ s = str "Background")) ∨ (t = .video ∧ (s = str "1" ∨ s = str "Video")) ∨
      (t = .break_ ∧ (s = str "2" ∨ s = str "Break")) ∨ (t = .color ∧ (s = str "3" ∨ s = str "Colour")) ∨
      (t = .sprite ∧ (s = str "4" ∨ s = str "Sprite")) ∨ (t = .sample ∧ (s = str "5" ∨ s = str "Sample")) ∨
      (t = .animation ∧ (s = str "6" ∨ s = str "Animation")) := by
  constructor
  · intro h
    unfold EventType.parse at h
    rcases ite_chain h with ⟨hc, rfl⟩ | ⟨-, h⟩
    · exact Or.inl ⟨rfl, or_beq hc⟩
    rcases ite_chain h with ⟨hc, rfl⟩ | ⟨-, h⟩
    · exact Or.inr (Or.inl ⟨rfl, or_beq hc⟩)
    rcases ite_chain h with ⟨hc, rfl⟩ | ⟨-, h⟩
    · exact Or.inr (Or.inr (Or.inl ⟨rfl, or_beq hc⟩))
    rcases ite_chain h with ⟨hc, rfl⟩ | ⟨-, h⟩
    · exact Or.inr (Or.inr (Or.inr (Or.inl ⟨rfl, or_beq hc⟩)))
    rcases ite_chain h with ⟨hc, rfl⟩ | ⟨-, h⟩
    · exact Or.inr (Or.inr (Or.inr (Or.inr (Or.inl ⟨rfl, or_beq hc⟩))))
    rcases ite_chain h with ⟨hc, rfl⟩ | ⟨-, h⟩
    · exact Or.inr (Or.inr (Or.inr (Or.inr (Or.inr (Or.inl ⟨rfl, or_beq hc⟩)))))
    rcases ite_chain h with ⟨hc, rfl⟩ | ⟨-, h⟩
    · exact Or.inr (Or.inr (Or.inr (Or.inr (Or.inr (Or.inr ⟨rfl, or_beq hc⟩)))))
    cases h
  · rintro (⟨rfl, rfl | rfl⟩ | ⟨rfl, rfl | rfl⟩ | ⟨rfl, rfl | rfl⟩ | ⟨rfl, rfl | rfl⟩ | ⟨rfl, rfl | rfl⟩ |
      ⟨rfl, rfl | rfl⟩ | ⟨rfl, rfl | rfl⟩) <;> decide

/-- from the cases: a malformed record is rejected without effect. -/
theorem events_invalid_noop (st : Events F) (line : Str)
    (h : (eventRecord (splitOn ',' (trimComment line)) : EventRecord F) = .malformed) :
    parseEvents st line = (st, false) := by
  rw [events_eq_cases, h]; rfl

/-- **events_frame**: a break record never touches the background; a background / video / sprite record never
touches the breaks; every other record touches nothing. -/
theorem events_frame (st : Events F) (line : Str) :
    match (eventRecord (splitOn ',' (trimComment line)) : EventRecord F) with
    | .break_ _ _ => (parseEvents st line).1.backgroundFile = st.backgroundFile
    | .background _ | .video _ | .sprite _ => (parseEvents st line).1.breaks = st.breaks
    | .malformed | .ignored => (parseEvents st line).1 = st := by
  rw [events_eq_cases]
  cases (eventRecord (splitOn ',' (trimComment line)) : EventRecord F) with
  | malformed => rfl
  | background f => rfl
  | video f => simp only [applyEvent]; split <;> rfl
  | break_ s e => rfl
  | sprite f => simp only [applyEvent]; cases st.backgroundFile.isEmpty <;> cases f <;> rfl
  | ignored => rfl

/-- from the cases: what a break record does (and nothing else: the background is not an input). -/
theorem events_break_record (st : Events F) (line : Str) (s e : F)
    (h : (eventRecord (splitOn ',' (trimComment line)) : EventRecord F) = .break_ s e) :
    parseEvents st line = ({ st with breaks := st.breaks ++ [{ startTime := s, endTime := Scalar.max s e }] }, true) := by
  rw [events_eq_cases, h]; rfl

example : (eventRecord (F := Z) (splitOn ',' (trimComment (str "Video,0,\"v.MP4\"")))) = .video (str "v.MP4")
    ∧ hasVideoExtension (str "v.MP4") = some true
    ∧ (parseEvents (Events.default (F := Z)) (str "1,0,pic.png // c")).1.backgroundFile = str "pic.png"
    ∧ (parseEvents (Events.default (F := Z)) (str "Video,0,\"v.MP4\"")).1.backgroundFile = []
    ∧ (parseEvents (Events.default (F := Z)) (str "2,200,100")).1.breaks.map (fun b => (b.startTime, b.endTime)) = [(⟨200⟩, ⟨200⟩)]
    ∧ (parseEvents (Events.default (F := Z)) (str "4,0,0")).2 = false
    ∧ (parseEvents ({ backgroundFile := str "bg", breaks := [] } : Events Z) (str "4,0,0")) = ({ backgroundFile := str "bg", breaks := [] }, true) := by
  refine ⟨by decide, by decide, by decide, by decide, by decide, by decide, ?_⟩
  rfl

/-! ### last valid wins: every field of `[Metadata]` -/

/-- what a `[Metadata]` line says about the field of `key`. -/
def metadataValOf (key : MetadataKey) (l : Str) : Option (Str ⊕ Int) :=
  if (kvSplit l).1 == metadataKeyText key then
    match key with
    | .beatmapId | .beatmapSetId => (i32Parse (kvSplit l).2).map .inr
    | _ => some (.inl (kvSplit l).2)
  else none

theorem metadata_field_step (key : MetadataKey) (s : Metadata) (l : Str) :
    fieldOf key (parseMetadata s l).1 = (metadataValOf key l).getD (fieldOf key s) := by
  by_cases hk : (kvSplit l).1 = metadataKeyText key
  · unfold parseMetadata metadataValOf
    generalize kvSplit l = kv at hk ⊢
    obtain ⟨k, v⟩ := kv
    dsimp only at hk ⊢
    subst hk
    simp only [metadataKey_parse_text, beq_self_eq_true, if_true]
    cases key <;> dsimp only <;> first | rfl | (cases i32Parse v <;> rfl)
  · rw [metadata_frame s l key hk]
    have : ((kvSplit l).1 == metadataKeyText key) = false := by simpa using hk
    simp [metadataValOf, this]

/-- **last valid wins, every field of `[Metadata]`** (eight texts — every record is valid — and two integers). -/
theorem metadata_last_valid_wins (key : MetadataKey) (st : Metadata) (ls : List Str) :
    fieldOf key (runSection parseMetadata st ls) = lastValid (metadataValOf key) (fieldOf key st) ls :=
  last_valid_wins_generic parseMetadata (fieldOf key) (metadataValOf key) (metadata_field_step key) st ls

example : lastValid (metadataValOf .beatmapSetId) (.inr 0)
    [str "BeatmapSetID: 12", str "BeatmapID: 5", str "BeatmapSetID: 2147483648", str "BeatmapSetID : 34 // c"] = .inr 12 := by
  decide

/-! ### last valid wins: every field of `[General]` -/

theorem scalarParse_toOption {α : Type} [Scalar α] (s : Str) : (scalarParse s : Except NumErr α).toOption = floatParse s :=
  scalarParseWithLimits_toOption s maxParseValue

/-- the value of a field of `[General]`, whichever type it has. -/
inductive GeneralVal (F P : Type)
  | text (s : Str) | f64 (x : F) | int (n : Int) | bank (b : SampleBank) | f32 (x : P) | mode (m : GameMode)
  | flag (b : Bool) | countdown (c : CountdownType)
  deriving DecidableEq

/-- the fourteen fields of `[General]`, named by their keys. -/
def generalField : GeneralKey → GeneralState F P → GeneralVal F P
  | .audioFilename, g => .text g.audioFile | .audioLeadIn, g => .f64 g.audioLeadIn | .previewTime, g => .int g.previewTime
  | .sampleSet, g => .bank g.defaultSampleBank | .sampleVolume, g => .int g.defaultSampleVolume
  | .stackLeniency, g => .f32 g.stackLeniency | .mode, g => .mode g.mode
  | .letterboxInBreaks, g => .flag g.letterboxInBreaks | .specialStyle, g => .flag g.specialStyle
  | .widescreenStoryboard, g => .flag g.widescreenStoryboard | .epilepsyWarning, g => .flag g.epilepsyWarning
  | .samplesMatchPlaybackRate, g => .flag g.samplesMatchPlaybackRate | .countdown, g => .countdown g.countdown
  | .countdownOffset, g => .int g.countdownOffset

/-- **frame**, generic, for tables whose conversions report an error kind (`applyRuleE`). -/
theorem applyRuleE_frame {σ ε V : Type} (table : List (String × (Str → Except ε (σ → σ)))) (g : σ → V)
    (kv : Str × Str) (st : σ)
    (h : ∀ e ∈ table, kv.1 = str e.1 → ∀ f, e.2 kv.2 = .ok f → g (f st) = g st) :
    g (applyRuleE ((lookupKey kv.1 table).map (· kv.2)) st).2 = g st := by
  cases hl : lookupKey kv.1 table with
  | none => rfl
  | some conv =>
    obtain ⟨name, hmem, hname⟩ := lookupKey_mem _ _ _ hl
    simp only [Option.map_some]
    cases hc : conv kv.2 with
    | error e => rfl
    | ok f => exact h (name, conv) hmem hname f hc

/-- every entry of the `[General]` table writes only the field it is named after. -/
theorem generalTable_frame : ∀ e ∈ generalTable (F := F) (P := P), ∀ (v : Str) (f : GeneralState F P → GeneralState F P),
    e.2 v = .ok f → ∀ key : GeneralKey, str e.1 ≠ generalKeyText key → ∀ m, generalField key (f m) = generalField key m := by
  intro e he
  simp only [generalTable, List.mem_cons, List.not_mem_nil, or_false] at he
  rcases he with rfl | rfl | rfl | rfl | rfl | rfl | rfl | rfl | rfl | rfl | rfl | rfl | rfl | rfl
  all_goals
    intro v f hf key hne m
    simp only [gText, gInt, gFlag, gFloat, gEnum] at hf
    first
      | (cases hf; cases key <;> first | rfl | exact absurd rfl hne)
      | (split at hf <;> first
          | (cases hf; done)
          | (cases hf; cases key <;> first | rfl | exact absurd rfl hne))

/-- **general_frame**: a `[General]` record changes at most its own field. -/
theorem general_frame (st : GeneralState F P) (line : Str) (key : GeneralKey)
    (hne : (kvSplit (trimComment line)).1 ≠ generalKeyText key) :
    generalField key (parseGeneral st line).2 = generalField key st := by
  rw [general_eq_table]
  apply applyRuleE_frame generalTable (generalField key) (kvSplit (trimComment line)) st
  intro e he hk f hf
  exact generalTable_frame e he _ f hf key (by rw [← hk]; exact hne) st

/-- from the table: a known key whose value does not convert rejects the record with that conversion's
error and without effect. -/
theorem general_invalid_value_noop (st : GeneralState F P) (line : Str)
    (conv : Str → Except GeneralErr (GeneralState F P → GeneralState F P)) (err : GeneralErr)
    (hk : lookupKey (kvSplit (trimComment line)).1 generalTable = some conv)
    (hv : conv (kvSplit (trimComment line)).2 = .error err) :
    parseGeneral st line = (.error err, st) := by
  rw [general_eq_table, hk]
  simp only [Option.map_some, hv, applyRuleE]

/-- what a `[General]` line says about the field of `key`. -/
def generalValOf (key : GeneralKey) (l : Str) : Option (GeneralVal F P) :=
  if (kvSplit (trimComment l)).1 == generalKeyText key then
    match key with
    | .audioFilename => some (.text (toStandardizedPath (kvSplit (trimComment l)).2))
    | .audioLeadIn => (i32Parse (kvSplit (trimComment l)).2).map fun n => .f64 (Scalar.ofInt n)
    | .previewTime | .sampleVolume | .countdownOffset => (i32Parse (kvSplit (trimComment l)).2).map .int
    | .sampleSet => (SampleBank.parse (kvSplit (trimComment l)).2).map .bank
    | .stackLeniency => (floatParse (kvSplit (trimComment l)).2 : Option P).map .f32
    | .mode => (GameMode.parse (kvSplit (trimComment l)).2).map .mode
    | .letterboxInBreaks | .specialStyle | .widescreenStoryboard | .epilepsyWarning | .samplesMatchPlaybackRate =>
      (i32Parse (kvSplit (trimComment l)).2).map fun n => .flag (n == 1)
    | .countdown => (CountdownType.parse (kvSplit (trimComment l)).2).map .countdown
  else none

theorem general_field_step (key : GeneralKey) (s : GeneralState F P) (l : Str) :
    generalField key (generalStep s l).1 = (generalValOf key l).getD (generalField key s) := by
  unfold generalStep
  dsimp only
  by_cases hk : (kvSplit (trimComment l)).1 = generalKeyText key
  · unfold parseGeneral generalValOf
    generalize kvSplit (trimComment l) = kv at hk ⊢
    obtain ⟨k, v⟩ := kv
    dsimp only at hk ⊢
    subst hk
    simp only [generalKey_parse_text, beq_self_eq_true, if_true, ← i32ParseE_toOption, ← scalarParse_toOption]
    cases key <;> dsimp only [withI32] <;>
      first
        | rfl
        | (cases i32ParseE v <;> rfl)
        | (cases SampleBank.parse v <;> rfl)
        | (cases GameMode.parse v <;> rfl)
        | (cases CountdownType.parse v <;> rfl)
        | (cases (scalarParse v : Except NumErr P) <;> rfl)
  · rw [general_frame s l key hk]
    have : ((kvSplit (trimComment l)).1 == generalKeyText key) = false := by simpa using hk
    simp [generalValOf, this]

/-- **last valid wins, every field of `[General]`** (all fourteen keys; `Mode` and `PreviewTime` were the two
instances of Props/C11General.lean). -/
theorem general_last_valid_wins (key : GeneralKey) (st : GeneralState F P) (ls : List Str) :
    generalField key (runSection generalStep st ls) = lastValid (generalValOf key) (generalField key st) ls :=
  last_valid_wins_generic generalStep (generalField key) (generalValOf key) (general_field_step key) st ls

example : lastValid (generalValOf (F := Z) (P := Z) .epilepsyWarning) (.flag false)
    [str "EpilepsyWarning: 1", str "EpilepsyWarning: yes", str "Mode: 3", str "EpilepsyWarning:2147483648"] = .flag true
  ∧ lastValid (generalValOf (F := Z) (P := Z) .sampleSet) (.bank .none)
    [str "SampleSet: Soft", str "SampleSet: soft", str "SampleSet: 3 // c", str "SampleSet: 4"] = .bank .drum := by
  decide

end Rosu.C11
