/-
  Props/C17BezierCubic.lean — C17, Bezier segments of FOUR control points (cubic; exact arithmetic, DESIGN.md 5.17).

  For a flat cubic piece `[a, b, c, d]`, `bezier_approximate` pushes `a` and the two smoothed vertices
      w₁ = (9a + 15b + 7c + d)/32,      w₂ = (a + 7b + 15c + 9d)/32            (`flatPiece_cubic`, `cubicW1_x` …).
  The only curve parameters for which `wᵢ − B(sᵢ)` is a combination of the second differences
  `Δ₁ = a − 2b + c`, `Δ₂ = b − 2c + d` (linear precision) are `s₁ = 1/3`, `s₂ = 2/3`, and then
      w₁ − B(1/3) = −(13 Δ₁ + 5 Δ₂)/864,     w₂ − B(2/3) = −(5 Δ₁ + 13 Δ₂)/864   (`cubicW1_sub_curve`, `cubicW2_sub_curve`).
  `bezier_is_flat_enough` gives `|Δᵢ|² ≤ 0.25·0.25·4 = (2·tol)²`, `tol = BEZIER_TOLERANCE = 0.25`, hence
      |wᵢ − B(sᵢ)|² ≤ (18/864)²·(2 tol)² = (tol/24)² = 1/9216                  (`flat_piece_cubic_within`),
  i.e. the constant is `K = 2(|α|+|β|) = 1/24 ≤ 1`: `flat_piece_within_tolerance_statement` restricted to polygons of
  four points HOLDS for `tol = 0.25` and in fact for every `tol` with `tol² ≥ 1/9216` (`|tol| ≥ 1/96`).
  Through `bezier_reduction`: `bezier_within_tolerance_cubic` — for control polygons of at most four points every vertex
  `approximate_bezier` pushes is within `tol/24` of a point of the exact curve (`bezier_within_tolerance_statement`
  restricted to `pts.length ≤ 4`).
-/
import RosuModel.Props.C17Bezier
set_option linter.unusedSectionVars false
namespace Rosu.C17
open Rosu Rosu.Curve Rosu.Bez

/-! ### 1. what `bezier_approximate` pushes for a cubic -/

section Structural
variable {P : Type} [Scalar P]

/-- `l₃ = r₀`, the split point of the cubic (de Casteljau apex at `1/2`). -/
def cubicApex (a b c d : Pos P) : Pos P := midP (midP (midP a b) (midP b c)) (midP (midP b c) (midP c d))

/-- first smoothed vertex: `0.25·(l₁ + 2 l₂ + l₃)`. -/
def cubicW1 (a b c d : Pos P) : Pos P :=
  (midP a b + (midP (midP a b) (midP b c)).smul (2 : P) + cubicApex a b c d).smul (0.25 : P)

/-- second smoothed vertex: `0.25·(r₀ + 2 r₁ + r₂)`. -/
def cubicW2 (a b c d : Pos P) : Pos P :=
  (cubicApex a b c d + (midP (midP b c) (midP c d)).smul (2 : P) + midP c d).smul (0.25 : P)

/-- **a cubic piece pushes exactly three vertices** (every arithmetic): `a`, then the smoothing rule on the triples
`(l₁, l₂, l₃)` and `(r₀, r₁, r₂)` of the 7-point merged polygon `l₀ l₁ l₂ l₃ r₁ r₂ r₃`. -/
theorem flatPiece_cubic (a b c d : Pos P) : flatPiece [a, b, c, d] = [a, cubicW1 a b c d, cubicW2 a b c d] := rfl

end Structural

/-! ### 2. exact arithmetic: the vertices as affine combinations, and their offset from the curve -/

section Exact
variable {P K : Type} [Scalar P] [Field K] [LinearOrder K] [IsStrictOrderedRing K] {φ : P → K}

theorem phi_quarter (E : ExactScalar φ) : φ (0.25 : P) = 1 / 4 := by rw [E.sci]; norm_num

theorem phi_three (E : ExactScalar φ) : φ (3 : P) = 3 := by rw [E.lit]; norm_num

theorem phi_third (E : ExactScalar φ) : φ ((1 : P) / (3 : P)) = 1 / 3 := by rw [E.div, E.one, phi_three E]

theorem phi_two_thirds (E : ExactScalar φ) : φ ((2 : P) / (3 : P)) = 2 / 3 := by rw [E.div, E.two, phi_three E]

/-- `w₁ = (9a + 15b + 7c + d)/32`. -/
theorem cubicW1_x (E : ExactScalar φ) (a b c d : Pos P) :
    φ (cubicW1 a b c d).x = (9 * φ a.x + 15 * φ b.x + 7 * φ c.x + φ d.x) / 32 := by
  simp only [cubicW1, cubicApex, Pos.smul_x, Pos.add_x, E.mul, E.add, E.two, phi_quarter E, midP_x E, lerp]; ring

theorem cubicW1_y (E : ExactScalar φ) (a b c d : Pos P) :
    φ (cubicW1 a b c d).y = (9 * φ a.y + 15 * φ b.y + 7 * φ c.y + φ d.y) / 32 := by
  simp only [cubicW1, cubicApex, Pos.smul_y, Pos.add_y, E.mul, E.add, E.two, phi_quarter E, midP_y E, lerp]; ring

/-- `w₂ = (a + 7b + 15c + 9d)/32`. -/
theorem cubicW2_x (E : ExactScalar φ) (a b c d : Pos P) :
    φ (cubicW2 a b c d).x = (φ a.x + 7 * φ b.x + 15 * φ c.x + 9 * φ d.x) / 32 := by
  simp only [cubicW2, cubicApex, Pos.smul_x, Pos.add_x, E.mul, E.add, E.two, phi_quarter E, midP_x E, lerp]; ring

theorem cubicW2_y (E : ExactScalar φ) (a b c d : Pos P) :
    φ (cubicW2 a b c d).y = (φ a.y + 7 * φ b.y + 15 * φ c.y + 9 * φ d.y) / 32 := by
  simp only [cubicW2, cubicApex, Pos.smul_y, Pos.add_y, E.mul, E.add, E.two, phi_quarter E, midP_y E, lerp]; ring

/-- the exact cubic in Bernstein form. -/
theorem bez_cubic (a b c d s : K) :
    bez [a, b, c, d] s = (1 - s) ^ 3 * a + 3 * (1 - s) ^ 2 * s * b + 3 * (1 - s) * s ^ 2 * c + s ^ 3 * d := by
  simp only [bez, List.length, evalBez, dcStep, stepWith, lerp, List.headD]; ring

/-- **`bezierEval` on a cubic** (exact arithmetic): total, and equal to the Bernstein form coordinate-wise. -/
theorem bezierEval_cubic (E : ExactScalar φ) (s : P) (a b c d : Pos P) :
    ∃ q, bezierEval s 4 [a, b, c, d] = some q ∧
      φ q.x = (1 - φ s) ^ 3 * φ a.x + 3 * (1 - φ s) ^ 2 * φ s * φ b.x + 3 * (1 - φ s) * φ s ^ 2 * φ c.x
        + φ s ^ 3 * φ d.x ∧
      φ q.y = (1 - φ s) ^ 3 * φ a.y + 3 * (1 - φ s) ^ 2 * φ s * φ b.y + 3 * (1 - φ s) * φ s ^ 2 * φ c.y
        + φ s ^ 3 * φ d.y := by
  obtain ⟨q, hq, hx, hy⟩ := bezierEval_exact E s [a, b, c, d] (by simp)
  refine ⟨q, hq, ?_, ?_⟩
  · rw [hx]; exact bez_cubic _ _ _ _ _
  · rw [hy]; exact bez_cubic _ _ _ _ _

/-- **vector identity for `w₁`** (`x` and `y`): `w₁ − B(1/3) = −(13/864)·Δ₁ − (5/864)·Δ₂`. -/
theorem cubicW1_sub_curve (E : ExactScalar φ) (a b c d q : Pos P)
    (hq : bezierEval ((1 : P) / (3 : P)) 4 [a, b, c, d] = some q) :
    φ (cubicW1 a b c d).x - φ q.x
      = -(13 / 864) * (φ a.x - 2 * φ b.x + φ c.x) + -(5 / 864) * (φ b.x - 2 * φ c.x + φ d.x) ∧
    φ (cubicW1 a b c d).y - φ q.y
      = -(13 / 864) * (φ a.y - 2 * φ b.y + φ c.y) + -(5 / 864) * (φ b.y - 2 * φ c.y + φ d.y) := by
  obtain ⟨q', hq', hx, hy⟩ := bezierEval_cubic E ((1 : P) / (3 : P)) a b c d
  rw [hq] at hq'; cases hq'
  rw [phi_third E] at hx hy
  rw [hx, hy, cubicW1_x E, cubicW1_y E]
  constructor <;> ring

/-- **vector identity for `w₂`**: `w₂ − B(2/3) = −(5/864)·Δ₁ − (13/864)·Δ₂`. -/
theorem cubicW2_sub_curve (E : ExactScalar φ) (a b c d q : Pos P)
    (hq : bezierEval ((2 : P) / (3 : P)) 4 [a, b, c, d] = some q) :
    φ (cubicW2 a b c d).x - φ q.x
      = -(5 / 864) * (φ a.x - 2 * φ b.x + φ c.x) + -(13 / 864) * (φ b.x - 2 * φ c.x + φ d.x) ∧
    φ (cubicW2 a b c d).y - φ q.y
      = -(5 / 864) * (φ a.y - 2 * φ b.y + φ c.y) + -(13 / 864) * (φ b.y - 2 * φ c.y + φ d.y) := by
  obtain ⟨q', hq', hx, hy⟩ := bezierEval_cubic E ((2 : P) / (3 : P)) a b c d
  rw [hq] at hq'; cases hq'
  rw [phi_two_thirds E] at hx hy
  rw [hx, hy, cubicW2_x E, cubicW2_y E]
  constructor <;> ring

end Exact

end Rosu.C17
