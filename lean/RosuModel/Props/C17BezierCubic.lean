/-
  Props/C17BezierCubic.lean — C17, Bezier segments of FOUR control points (cubic; exact arithmetic, DESIGN.md 5.17).

  For a flat cubic piece `[a, b, c, d]`, `bezier_approximate` pushes `a` and the two smoothed vertices
      w₁ = (9a + 15b + 7c + d)/32,      w₂ = (a + 7b + 15c + 9d)/32            (`flatPiece_cubic`, `cubicW1_x` …).
  The only curve parameters for which `wᵢ − B(sᵢ)` is a combination of the second differences
  `Δ₁ = a − 2b + c`, `Δ₂ = b − 2c + d` (linear precision) are `s₁ = 1/3`, `s₂ = 2/3`, and then
      w₁ − B(1/3) = −(13 Δ₁ + 5 Δ₂)/864,     w₂ − B(2/3) = −(5 Δ₁ + 13 Δ₂)/864   (`cubicW1_sub_curve`, `cubicW2_sub_curve`).
  `bezier_is_flat_enough` gives `|Δᵢ|² ≤ 0.25·0.25·4 = (2·tol)²`, `tol = BEZIER_TOLERANCE = 0.25`, hence
      |wᵢ − B(sᵢ)|² ≤ (18/864)²·(2 tol)² = (tol/24)² = 1/9216                  (`flat_piece_cubic_within`),
  i.e. the constant is `K = 2(|α|+|β|) = 1/24 ≤ 1`: `flat_piece_within_tolerance_statement` restricted to polygons of
  four points HOLDS for `tol = 0.25` and in fact for every `tol` with `tol² ≥ 1/9216` (`|tol| ≥ 1/96`).
  Through `bezier_reduction`: `bezier_within_tolerance_cubic` — for control polygons of at most four points every vertex
  `approximate_bezier` pushes is within `tol/24` of a point of the exact curve (`bezier_within_tolerance_statement`
  restricted to `pts.length ≤ 4`).
-/
import RosuModel.Props.C17Bezier
set_option linter.unusedSectionVars false
namespace Rosu.C17
open Rosu Rosu.Curve Rosu.Bez

/-! ### 1. what `bezier_approximate` pushes for a cubic -/

section Structural
variable {P : Type} [Scalar P]

/-- `l₃ = r₀`, the split point of the cubic (de Casteljau apex at `1/2`). -/
def cubicApex (a b c d : Pos P) : Pos P := midP (midP (midP a b) (midP b c)) (midP (midP b c) (midP c d))

/-- first smoothed vertex: `0.25·(l₁ + 2 l₂ + l₃)`. -/
def cubicW1 (a b c d : Pos P) : Pos P :=
  (midP a b + (midP (midP a b) (midP b c)).smul (2 : P) + cubicApex a b c d).smul (0.25 : P)

/-- second smoothed vertex: `0.25·(r₀ + 2 r₁ + r₂)`. -/
def cubicW2 (a b c d : Pos P) : Pos P :=
  (cubicApex a b c d + (midP (midP b c) (midP c d)).smul (2 : P) + midP c d).smul (0.25 : P)

/-- **a cubic piece pushes exactly three vertices** (every arithmetic): `a`, then the smoothing rule on the triples
`(l₁, l₂, l₃)` and `(r₀, r₁, r₂)` of the 7-point merged polygon `l₀ l₁ l₂ l₃ r₁ r₂ r₃`. -/
theorem flatPiece_cubic (a b c d : Pos P) : flatPiece [a, b, c, d] = [a, cubicW1 a b c d, cubicW2 a b c d] := rfl

end Structural

/-! ### 2. exact arithmetic: the vertices as affine combinations, and their offset from the curve -/

section Exact
variable {P K : Type} [Scalar P] [Field K] [LinearOrder K] [IsStrictOrderedRing K] {φ : P → K}

theorem phi_quarter (E : ExactScalar φ) : φ (0.25 : P) = 1 / 4 := by rw [E.sci]; norm_num

theorem phi_three (E : ExactScalar φ) : φ (3 : P) = 3 := by rw [E.lit]; norm_num

theorem phi_third (E : ExactScalar φ) : φ ((1 : P) / (3 : P)) = 1 / 3 := by rw [E.div, E.one, phi_three E]

theorem phi_two_thirds (E : ExactScalar φ) : φ ((2 : P) / (3 : P)) = 2 / 3 := by rw [E.div, E.two, phi_three E]

/-- `w₁ = (9a + 15b + 7c + d)/32`. -/
theorem cubicW1_x (E : ExactScalar φ) (a b c d : Pos P) :
    φ (cubicW1 a b c d).x = (9 * φ a.x + 15 * φ b.x + 7 * φ c.x + φ d.x) / 32 := by
  simp only [cubicW1, cubicApex, Pos.smul_x, Pos.add_x, E.mul, E.add, E.two, phi_quarter E, midP_x E, lerp]; ring

theorem cubicW1_y (E : ExactScalar φ) (a b c d : Pos P) :
    φ (cubicW1 a b c d).y = (9 * φ a.y + 15 * φ b.y + 7 * φ c.y + φ d.y) / 32 := by
  simp only [cubicW1, cubicApex, Pos.smul_y, Pos.add_y, E.mul, E.add, E.two, phi_quarter E, midP_y E, lerp]; ring

/-- `w₂ = (a + 7b + 15c + 9d)/32`. -/
theorem cubicW2_x (E : ExactScalar φ) (a b c d : Pos P) :
    φ (cubicW2 a b c d).x = (φ a.x + 7 * φ b.x + 15 * φ c.x + 9 * φ d.x) / 32 := by
  simp only [cubicW2, cubicApex, Pos.smul_x, Pos.add_x, E.mul, E.add, E.two, phi_quarter E, midP_x E, lerp]; ring

theorem cubicW2_y (E : ExactScalar φ) (a b c d : Pos P) :
    φ (cubicW2 a b c d).y = (φ a.y + 7 * φ b.y + 15 * φ c.y + 9 * φ d.y) / 32 := by
  simp only [cubicW2, cubicApex, Pos.smul_y, Pos.add_y, E.mul, E.add, E.two, phi_quarter E, midP_y E, lerp]; ring

/-- the exact cubic in Bernstein form. -/
theorem bez_cubic (a b c d s : K) :
    bez [a, b, c, d] s = (1 - s) ^ 3 * a + 3 * (1 - s) ^ 2 * s * b + 3 * (1 - s) * s ^ 2 * c + s ^ 3 * d := by
  simp only [bez, List.length, evalBez, dcStep, stepWith, lerp, List.headD]; ring

/-- **`bezierEval` on a cubic** (exact arithmetic): total, and equal to the Bernstein form coordinate-wise. -/
theorem bezierEval_cubic (E : ExactScalar φ) (s : P) (a b c d : Pos P) :
    ∃ q, bezierEval s 4 [a, b, c, d] = some q ∧
      φ q.x = (1 - φ s) ^ 3 * φ a.x + 3 * (1 - φ s) ^ 2 * φ s * φ b.x + 3 * (1 - φ s) * φ s ^ 2 * φ c.x
        + φ s ^ 3 * φ d.x ∧
      φ q.y = (1 - φ s) ^ 3 * φ a.y + 3 * (1 - φ s) ^ 2 * φ s * φ b.y + 3 * (1 - φ s) * φ s ^ 2 * φ c.y
        + φ s ^ 3 * φ d.y := by
  obtain ⟨q, hq, hx, hy⟩ := bezierEval_exact E s [a, b, c, d] (by simp)
  refine ⟨q, hq, ?_, ?_⟩
  · rw [hx]; exact bez_cubic _ _ _ _ _
  · rw [hy]; exact bez_cubic _ _ _ _ _

/-- **vector identity for `w₁`** (`x` and `y`): `w₁ − B(1/3) = −(13/864)·Δ₁ − (5/864)·Δ₂`. -/
theorem cubicW1_sub_curve (E : ExactScalar φ) (a b c d q : Pos P)
    (hq : bezierEval ((1 : P) / (3 : P)) 4 [a, b, c, d] = some q) :
    φ (cubicW1 a b c d).x - φ q.x
      = -(13 / 864) * (φ a.x - 2 * φ b.x + φ c.x) + -(5 / 864) * (φ b.x - 2 * φ c.x + φ d.x) ∧
    φ (cubicW1 a b c d).y - φ q.y
      = -(13 / 864) * (φ a.y - 2 * φ b.y + φ c.y) + -(5 / 864) * (φ b.y - 2 * φ c.y + φ d.y) := by
  obtain ⟨q', hq', hx, hy⟩ := bezierEval_cubic E ((1 : P) / (3 : P)) a b c d
  rw [hq] at hq'; cases hq'
  rw [phi_third E] at hx hy
  rw [hx, hy, cubicW1_x E, cubicW1_y E]
  constructor <;> ring

/-- **vector identity for `w₂`**: `w₂ − B(2/3) = −(5/864)·Δ₁ − (13/864)·Δ₂`. -/
theorem cubicW2_sub_curve (E : ExactScalar φ) (a b c d q : Pos P)
    (hq : bezierEval ((2 : P) / (3 : P)) 4 [a, b, c, d] = some q) :
    φ (cubicW2 a b c d).x - φ q.x
      = -(5 / 864) * (φ a.x - 2 * φ b.x + φ c.x) + -(13 / 864) * (φ b.x - 2 * φ c.x + φ d.x) ∧
    φ (cubicW2 a b c d).y - φ q.y
      = -(5 / 864) * (φ a.y - 2 * φ b.y + φ c.y) + -(13 / 864) * (φ b.y - 2 * φ c.y + φ d.y) := by
  obtain ⟨q', hq', hx, hy⟩ := bezierEval_cubic E ((2 : P) / (3 : P)) a b c d
  rw [hq] at hq'; cases hq'
  rw [phi_two_thirds E] at hx hy
  rw [hx, hy, cubicW2_x E, cubicW2_y E]
  constructor <;> ring

/-! ### 3. the distance bound -/

/-- squared-norm triangle inequality for a combination of two plane vectors `u = (x₁,y₁)`, `v = (x₂,y₂)`:
`|αu + βv|² ≤ (|α| + |β|)²·M` whenever `|u|², |v|² ≤ M`. -/
theorem comb_sq_le (α β x₁ y₁ x₂ y₂ M : K) (h₁ : x₁ * x₁ + y₁ * y₁ ≤ M) (h₂ : x₂ * x₂ + y₂ * y₂ ≤ M) :
    (α * x₁ + β * x₂) * (α * x₁ + β * x₂) + (α * y₁ + β * y₂) * (α * y₁ + β * y₂)
      ≤ (|α| + |β|) * (|α| + |β|) * M := by
  have hS : 2 * (x₁ * x₂ + y₁ * y₂) ≤ (x₁ * x₁ + y₁ * y₁) + (x₂ * x₂ + y₂ * y₂) := by
    nlinarith [sq_nonneg (x₁ - x₂), sq_nonneg (y₁ - y₂)]
  have hS' : -(2 * (x₁ * x₂ + y₁ * y₂)) ≤ (x₁ * x₁ + y₁ * y₁) + (x₂ * x₂ + y₂ * y₂) := by
    nlinarith [sq_nonneg (x₁ + x₂), sq_nonneg (y₁ + y₂)]
  have hc : α * β * (2 * (x₁ * x₂ + y₁ * y₂)) ≤ |α| * |β| * ((x₁ * x₁ + y₁ * y₁) + (x₂ * x₂ + y₂ * y₂)) := by
    rw [← abs_mul]
    rcases le_total 0 (α * β) with h | h
    · rw [abs_of_nonneg h]; exact mul_le_mul_of_nonneg_left hS h
    · rw [abs_of_nonpos h]
      have := mul_le_mul_of_nonneg_left hS' (neg_nonneg.mpr h)
      linarith
  have hab : 0 ≤ |α| * |β| := mul_nonneg (abs_nonneg α) (abs_nonneg β)
  have k₁ := mul_le_mul_of_nonneg_left h₁ (mul_self_nonneg α)
  have k₂ := mul_le_mul_of_nonneg_left h₂ (mul_self_nonneg β)
  have k₃ := mul_le_mul_of_nonneg_left (add_le_add h₁ h₂) hab
  have e₁ := abs_mul_abs_self α
  have e₂ := abs_mul_abs_self β
  have e : (α * x₁ + β * x₂) * (α * x₁ + β * x₂) + (α * y₁ + β * y₂) * (α * y₁ + β * y₂)
      = α * α * (x₁ * x₁ + y₁ * y₁) + β * β * (x₂ * x₂ + y₂ * y₂) + α * β * (2 * (x₁ * x₂ + y₁ * y₂)) := by ring
  have e' : (|α| + |β|) * (|α| + |β|) * M = |α| * |α| * M + |β| * |β| * M + |α| * |β| * (M + M) := by ring
  rw [e, e', e₁, e₂]
  linarith

/-- **what `bezier_is_flat_enough` says of a cubic** (exact arithmetic): both second differences have squared length
at most `0.25·0.25·4 = 1/4 = (2·BEZIER_TOLERANCE)²`. -/
theorem flat_cubic_second_differences (E : ExactScalar φ) (a b c d : Pos P)
    (h : bezierIsFlatEnough [a, b, c, d] = true) :
    (φ a.x - 2 * φ b.x + φ c.x) * (φ a.x - 2 * φ b.x + φ c.x)
        + (φ a.y - 2 * φ b.y + φ c.y) * (φ a.y - 2 * φ b.y + φ c.y) ≤ 1 / 4 ∧
    (φ b.x - 2 * φ c.x + φ d.x) * (φ b.x - 2 * φ c.x + φ d.x)
        + (φ b.y - 2 * φ c.y + φ d.y) * (φ b.y - 2 * φ c.y + φ d.y) ≤ 1 / 4 := by
  have h4 : φ (4 : P) = 4 := by rw [E.lit]; norm_num
  simp only [bezierIsFlatEnough] at h
  split at h
  · cases h
  · rename_i h1
    split at h
    · cases h
    · rename_i h2
      rw [Bool.not_eq_true, E.lt_false_iff] at h1 h2
      simp only [Pos.lengthSquared, Pos.dot, Pos.add_x, Pos.add_y, Pos.sub_x, Pos.sub_y, Pos.smul_x, Pos.smul_y,
        E.add, E.mul, E.sub, E.two, h4, phi_quarter E] at h1 h2
      constructor
      · calc _ = (φ a.x - φ b.x * 2 + φ c.x) * (φ a.x - φ b.x * 2 + φ c.x)
              + (φ a.y - φ b.y * 2 + φ c.y) * (φ a.y - φ b.y * 2 + φ c.y) := by ring
          _ ≤ 1 / 4 * (1 / 4) * 4 := h1
          _ = 1 / 4 := by norm_num
      · calc _ = (φ b.x - φ c.x * 2 + φ d.x) * (φ b.x - φ c.x * 2 + φ d.x)
              + (φ b.y - φ c.y * 2 + φ d.y) * (φ b.y - φ c.y * 2 + φ d.y) := by ring
          _ ≤ 1 / 4 * (1 / 4) * 4 := h2
          _ = 1 / 4 := by norm_num

theorem phi_lengthSquared_sub (E : ExactScalar φ) (v q : Pos P) :
    φ (Pos.lengthSquared (v - q)) = (φ v.x - φ q.x) * (φ v.x - φ q.x) + (φ v.y - φ q.y) * (φ v.y - φ q.y) := by
  simp only [Pos.lengthSquared, Pos.dot, Pos.sub_x, Pos.sub_y, E.add, E.mul, E.sub]

/-- **the cubic estimate, sharpest form** (exact arithmetic): every vertex `bezier_approximate` pushes for a cubic
that passes `bezier_is_flat_enough` has a point `q = B(s)`, `s ∈ {0, 1/3, 2/3}`, of the piece's own curve with
`|v − q|² ≤ 1/9216 = (BEZIER_TOLERANCE / 24)²`. The constant is `K = 2(|α| + |β|) = 2·(13 + 5)/864 = 1/24`. -/
theorem flat_piece_cubic_within (E : ExactScalar φ) (a b c d : Pos P)
    (hflat : bezierIsFlatEnough [a, b, c, d] = true) : ∀ v ∈ flatPiece [a, b, c, d],
    ∃ s q, Scalar.le (0 : P) s = true ∧ Scalar.le s (1 : P) = true ∧ bezierEval s 4 [a, b, c, d] = some q ∧
      φ (Pos.lengthSquared (v - q)) ≤ 1 / 9216 := by
  obtain ⟨hd1, hd2⟩ := flat_cubic_second_differences E a b c d hflat
  have hK : (|(-(13 / 864) : K)| + |(-(5 / 864) : K)|) * (|(-(13 / 864) : K)| + |(-(5 / 864) : K)|) * (1 / 4)
      = 1 / 9216 := by
    rw [abs_neg, abs_neg, abs_of_pos (by norm_num : (0 : K) < 13 / 864), abs_of_pos (by norm_num : (0 : K) < 5 / 864)]
    norm_num
  have hK' : (|(-(5 / 864) : K)| + |(-(13 / 864) : K)|) * (|(-(5 / 864) : K)| + |(-(13 / 864) : K)|) * (1 / 4)
      = 1 / 9216 := by rw [add_comm, hK]
  intro v hv
  rw [flatPiece_cubic] at hv
  simp only [List.mem_cons, List.not_mem_nil, or_false] at hv
  rcases hv with e | e | e
  · subst e
    refine ⟨0, v, ?_, ?_, flatPiece_head_exact E v [b, c, d], ?_⟩
    · rw [E.le_iff]
    · rw [E.le_iff, E.zero, E.one]; exact zero_le_one
    · rw [phi_lengthSquared_sub E]; simp only [sub_self, mul_zero, add_zero]; norm_num
  · subst e
    obtain ⟨q, hq, _, _⟩ := bezierEval_cubic E ((1 : P) / (3 : P)) a b c d
    obtain ⟨ex, ey⟩ := cubicW1_sub_curve E a b c d q hq
    refine ⟨(1 : P) / (3 : P), q, ?_, ?_, hq, ?_⟩
    · rw [E.le_iff, E.zero, phi_third E]; norm_num
    · rw [E.le_iff, E.one, phi_third E]; norm_num
    · rw [phi_lengthSquared_sub E, ex, ey, ← hK]
      exact comb_sq_le _ _ _ _ _ _ _ hd1 hd2
  · subst e
    obtain ⟨q, hq, _, _⟩ := bezierEval_cubic E ((2 : P) / (3 : P)) a b c d
    obtain ⟨ex, ey⟩ := cubicW2_sub_curve E a b c d q hq
    refine ⟨(2 : P) / (3 : P), q, ?_, ?_, hq, ?_⟩
    · rw [E.le_iff, E.zero, phi_two_thirds E]; norm_num
    · rw [E.le_iff, E.one, phi_two_thirds E]; norm_num
    · rw [phi_lengthSquared_sub E, ex, ey, ← hK']
      exact comb_sq_le _ _ _ _ _ _ _ hd1 hd2

/-- `flat_piece_within_tolerance_statement` (Props/C17Bezier.lean) restricted to polygons of at most `n` points. -/
def flat_piece_within_tolerance_upto (P : Type) [Scalar P] (n : Nat) (tol : P) : Prop :=
  ∀ Q : List (Pos P), Q.length ≤ n → Q ≠ [] → bezierIsFlatEnough Q = true → ∀ v ∈ flatPiece Q,
    ∃ s q, Scalar.le (0 : P) s = true ∧ Scalar.le s (1 : P) = true ∧ bezierEval s Q.length Q = some q ∧
      Scalar.le (Pos.lengthSquared (v - q)) (tol * tol) = true

/-- `bezier_within_tolerance_statement` (Props/C17.lean) restricted to control polygons of at most `n` points. -/
def bezier_within_tolerance_upto (P : Type) [Scalar P] (n : Nat) (tol : P) : Prop :=
  ∀ (fuel : Nat) (pts out : List (Pos P)) (b b' : BezierBuffers P), pts.length ≤ n →
    approximateBezier fuel pts b = .ok (out, b') →
    ∀ v ∈ out, ∃ t q, Scalar.le (0 : P) t = true ∧ Scalar.le t (1 : P) = true ∧
      bezierEval t pts.length pts = some q ∧
      Scalar.le (Pos.lengthSquared (v - q)) (tol * tol) = true

/-- the unrestricted statements are the restricted ones for every `n`. -/
theorem flat_piece_statement_iff_upto (P : Type) [Scalar P] (tol : P) :
    flat_piece_within_tolerance_statement P tol ↔ ∀ n, flat_piece_within_tolerance_upto P n tol :=
  ⟨fun h _ Q _ hne hf => h Q hne hf, fun h Q hne hf => h Q.length Q (le_refl _) hne hf⟩

theorem bezier_statement_iff_upto (P : Type) [Scalar P] (tol : P) :
    bezier_within_tolerance_statement P tol ↔ ∀ n, bezier_within_tolerance_upto P n tol :=
  ⟨fun h _ fuel pts out b b' _ hap => h fuel pts out b b' hap,
   fun h fuel pts out b b' hap => h pts.length fuel pts out b b' (le_refl _) hap⟩

/-- **`flat_piece_within_tolerance_statement` holds for polygons of at most four points** (exact arithmetic), for every
tolerance with `tol² ≥ 1/9216` (`|tol| ≥ 1/96`), in particular `tol = BEZIER_TOLERANCE = 0.25`: the vertices of linear
and quadratic pieces lie on the curve, those of a cubic piece within `0.25/24`. -/
theorem flat_piece_within_tolerance_cubic (E : ExactScalar φ) (tol : P) (htol : 1 / 9216 ≤ φ tol * φ tol) :
    flat_piece_within_tolerance_upto P 4 tol := by
  intro Q hQ hne hflat w hw
  have h0 : Scalar.le (0 : P) (0 : P) = true := by rw [E.le_iff]
  have h01 : Scalar.le (0 : P) (1 : P) = true := by rw [E.le_iff, E.zero, E.one]; exact zero_le_one
  match Q, hQ, hne with
  | [a], _, _ =>
    have : w = a := by simpa [flatPiece, leftM, rightM, leftWith, rightWith, approxTriples] using hw
    subst this
    exact ⟨0, w, h0, h01, flatPiece_head_exact E w [], lengthSquared_self_le E w tol⟩
  | [a, b], _, _ =>
    have : w = a := by simpa [flatPiece, leftM, rightM, leftWith, rightWith, approxTriples] using hw
    subst this
    exact ⟨0, w, h0, h01, flatPiece_head_exact E w [b], lengthSquared_self_le E w tol⟩
  | [a, b, c], _, _ =>
    obtain ⟨m, hm, hev⟩ := flatPiece_quadratic E a b c
    rw [hm] at hw
    rcases List.mem_cons.mp hw with e | e
    · subst e
      exact ⟨0, w, h0, h01, flatPiece_head_exact E w [b, c], lengthSquared_self_le E w tol⟩
    · simp only [List.mem_singleton] at e
      subst e
      refine ⟨(1 : P) / (2 : P), w, ?_, ?_, hev, lengthSquared_self_le E w tol⟩
      · rw [E.le_iff, E.zero, phi_half E]; positivity
      · rw [E.le_iff, E.one, phi_half E]; norm_num
  | [a, b, c, d], _, _ =>
    obtain ⟨s, q, hs0, hs1, hq, hd⟩ := flat_piece_cubic_within E a b c d hflat w hw
    exact ⟨s, q, hs0, hs1, hq, by rw [E.le_iff, E.mul]; exact le_trans hd htol⟩
  | _ :: _ :: _ :: _ :: _ :: _, hQ, _ => simp only [List.length_cons] at hQ; omega

/-- the Rust constant `BEZIER_TOLERANCE = 0.25` is an admissible tolerance. -/
theorem quarter_admissible (E : ExactScalar φ) : (1 : K) / 9216 ≤ φ (0.25 : P) * φ (0.25 : P) := by
  rw [phi_quarter E]; norm_num

/-! ### 4. the whole segment -/

/-- **C17 for Bezier segments of at most four control points, sharpest form** (exact arithmetic): every vertex
`approximate_bezier` pushes has a point `q = B(t)`, `0 ≤ t ≤ 1`, of the EXACT curve of the segment with
`|v − q|² ≤ 1/9216 = (0.25/24)²` — any fuel on which the flattening succeeds, any scratch contents. -/
theorem bezier_cubic_within (E : ExactScalar φ) (fuel : Nat) (pts out : List (Pos P)) (b b' : BezierBuffers P)
    (h4 : pts.length ≤ 4) (hap : approximateBezier fuel pts b = .ok (out, b')) :
    ∀ v ∈ out, ∃ t q, Scalar.le (0 : P) t = true ∧ Scalar.le t (1 : P) = true ∧
      bezierEval t pts.length pts = some q ∧ φ (Pos.lengthSquared (v - q)) ≤ 1 / 9216 := by
  -- a `tol : P` with `φ tol * φ tol = 1/9216` need not be available as a literal; go through the relation directly
  refine bezier_reduction E (fun v q => φ (Pos.lengthSquared (v - q)) ≤ 1 / 9216) (fun v => ?_) pts.length
    (fun Q hQ hne hflat w hw => ?_) fuel pts out b b' rfl hap
  · rw [phi_lengthSquared_sub E]; simp only [sub_self, mul_zero, add_zero]; norm_num
  · have h96 : φ ((1 : P) / (96 : P)) * φ ((1 : P) / (96 : P)) = 1 / 9216 := by
      rw [E.div, E.one, E.lit]; norm_num
    obtain ⟨s, q, hs0, hs1, hq, hd⟩ :=
      flat_piece_within_tolerance_cubic E ((1 : P) / (96 : P)) (le_of_eq h96.symm) Q (by omega) hne hflat w hw
    rw [E.le_iff, E.mul, h96] at hd
    exact ⟨s, q, hs0, hs1, hq, hd⟩

/-- **`bezier_within_tolerance_statement` holds for control polygons of at most four points** (exact arithmetic), for
every tolerance with `tol² ≥ 1/9216`, in particular `tol = BEZIER_TOLERANCE = 0.25` (`bezier_within_tolerance_quarter`);
the actual distance is at most `0.25/24`. -/
theorem bezier_within_tolerance_cubic (E : ExactScalar φ) (tol : P) (htol : 1 / 9216 ≤ φ tol * φ tol) :
    bezier_within_tolerance_upto P 4 tol := by
  intro fuel pts out b b' h4 hap v hv
  obtain ⟨t, q, h0, h1, hq, hd⟩ := bezier_cubic_within E fuel pts out b b' h4 hap v hv
  exact ⟨t, q, h0, h1, hq, by rw [E.le_iff, E.mul]; exact le_trans hd htol⟩

theorem bezier_within_tolerance_quarter (E : ExactScalar φ) : bezier_within_tolerance_upto P 4 (0.25 : P) :=
  bezier_within_tolerance_cubic E _ (quarter_admissible E)

end Exact

/-! ### non-vacuity: the rational instance (`exactScalar_rat`), evaluated by the kernel -/

section NonVacuity
open Rosu.ToyRat

/-- a cubic that passes `bezier_is_flat_enough` (second differences `(0, −1/8)`), and one that does not. -/
def flatCubic : List (Pos Rat) := [⟨0, 0⟩, ⟨1 / 4, 1 / 8⟩, ⟨1 / 2, 1 / 8⟩, ⟨3 / 4, 0⟩]

example : bezierIsFlatEnough flatCubic = true ∧ bezierIsFlatEnough cubic = false := by decide +kernel

/-- the three vertices pushed for the flat cubic, the curve at `1/3`, `2/3`, and the squared offsets
`(11/128 − 1/12)² = (18/864 · 1/8)² = 1/147456 ≤ 1/9216`. -/
example : flatPiece flatCubic = [⟨0, 0⟩, ⟨1 / 4, 11 / 128⟩, ⟨1 / 2, 11 / 128⟩] := by decide +kernel
example : bezierEval (1 / 3 : Rat) 4 flatCubic = some ⟨1 / 4, 1 / 12⟩ := by decide +kernel
example : cubicW1 (⟨0, 0⟩ : Pos Rat) ⟨1 / 4, 1 / 8⟩ ⟨1 / 2, 1 / 8⟩ ⟨3 / 4, 0⟩ = ⟨1 / 4, 11 / 128⟩ := by
  decide +kernel

/-- the hypothesis of `flat_piece_cubic_within` is satisfiable, and the conclusion is not trivial (`v ≠ q`). -/
example : ∀ v ∈ flatPiece flatCubic, ∃ s q, Scalar.le (0 : Rat) s = true ∧ Scalar.le s (1 : Rat) = true ∧
    bezierEval s 4 flatCubic = some q ∧ Pos.lengthSquared (v - q) ≤ 1 / 9216 :=
  flat_piece_cubic_within exactScalar_rat _ _ _ _ (by decide +kernel)

/-- the bound is attained up to the choice of the curve point: parallel second differences of length `1/2` put `w₁` at
distance exactly `1/96` from `B(1/3)`. -/
def extremalCubic : List (Pos Rat) := [⟨0, 0⟩, ⟨1, -1 / 2⟩, ⟨2, -1 / 2⟩, ⟨3, 0⟩]
example : bezierIsFlatEnough extremalCubic = true := by decide +kernel
example : ∃ q, bezierEval (1 / 3 : Rat) 4 extremalCubic = some q ∧
    Pos.lengthSquared (cubicW1 (⟨0, 0⟩ : Pos Rat) ⟨1, -1 / 2⟩ ⟨2, -1 / 2⟩ ⟨3, 0⟩ - q) = 1 / 9216 := by
  decide +kernel

/-- `bezier_within_tolerance_cubic` applies to a run that succeeds on the (non-flat) cubic of Props/C17Bezier.lean. -/
example : ∃ out b', approximateBezier 50 cubic {} = .ok (out, b') ∧ 3 < out.length ∧
    ∀ v ∈ out, ∃ t q, Scalar.le (0 : Rat) t = true ∧ Scalar.le t (1 : Rat) = true ∧ bezierEval t 4 cubic = some q ∧
      Scalar.le (Pos.lengthSquared (v - q)) ((1 / 4 : Rat) * (1 / 4 : Rat)) = true := by
  have hok : (match approximateBezier 50 cubic ({} : BezierBuffers Rat) with
      | .ok r => decide (3 < r.1.length)
      | .error _ => false) = true := by decide +kernel
  cases hr : approximateBezier 50 cubic ({} : BezierBuffers Rat) with
  | error e => rw [hr] at hok; cases hok
  | ok r =>
    obtain ⟨out, b'⟩ := r
    rw [hr] at hok
    exact ⟨out, b', rfl, by simpa using hok,
      bezier_within_tolerance_cubic exactScalar_rat (1 / 4 : Rat) (by decide +kernel) 50 cubic out {} b' (by decide) hr⟩

/-- the statements for the Rust constant `0.25` (the literal of the `Scalar` class), on the rational instance. -/
def quarterRat : Rat := @OfScientific.ofScientific Rat Scalar.instOfScientific 25 true 2
example : quarterRat = 1 / 4 := by decide +kernel
example : bezier_within_tolerance_upto Rat 4 quarterRat := bezier_within_tolerance_quarter exactScalar_rat
example : flat_piece_within_tolerance_upto Rat 4 quarterRat :=
  flat_piece_within_tolerance_cubic exactScalar_rat _ (quarter_admissible exactScalar_rat)

end NonVacuity

end Rosu.C17
