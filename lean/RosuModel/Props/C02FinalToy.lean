/-
  Props/C02FinalToy.lean — non-vacuity of `roundtrip_objects_rep_core` / `roundtrip_objects_rep_scroll_partial` /
  `roundtrip_objects_rep_modes_partial` on the toy codec `ZC`.

  `C04.toyMap` itself (the map of `roundtrip_rep_partial`'s example) is NOT finalised: its slider stores velocity 1, while the
  finaliser's formula over the map's own control points gives `100·2 / (400 · (clamp(50, 10, 1000) / 100)) = 200 / 0 = 0` in
  the integer toy scalar (`toyMap_not_finalized`). `toyMapF` is `C04.toyMap` with that one field corrected; everything else —
  mania, two timing points, a difficulty point and two effect points agreeing at the slider start (velocity 2 = scroll speed 2
  at 1200), two breaks, circle / slider / spinner / hold — is the same, and every hypothesis of the theorems is evaluated in the
  kernel: `RepMap`, `TimelineHyps`, `Finalized`, `ScrollDrivesSv`, `clamp(1, 0.1, 10) = 1`, `encode toyMapF = .ok _`.
-/
import RosuModel.Props.C02FinalMania
set_option linter.unusedSectionVars false
set_option maxRecDepth 100000
namespace Rosu.C02
open Rosu Encode EncodeLines C11 RtTiming FileRt Scalar

/-- the velocity the finaliser computes for a slider starting at 1200 in the toy map. -/
theorem toy_velocity : velocityAt ZC C04.toyMap.general.mode C04.toyMap.difficulty.sliderMultiplier C04.toyMap.controlPoints
    (⟨1200⟩ : ZC) = ⟨0⟩ := by decide

/-- `C04.toyMap` is not finalised: the stored slider velocity (1) is not the finaliser's (0). -/
theorem toyMap_not_finalized : ¬ Finalized C04.toyMap := by
  intro hf
  have := hf.velocity ⟨⟨1200⟩, .slider C04.toySlider, RtObjects.sampleSamples⟩
    (by show _ ∈ C04.toyObjects; simp [C04.toyObjects]) C04.toySlider rfl
  rw [toy_velocity] at this
  revert this
  decide

def toySliderF : HitObjectSlider ZC ZC := { C04.toySlider with velocity := ⟨0⟩ }

def toyObjectsF : List (HitObject ZC ZC) :=
  [⟨⟨1000⟩, .circle RtObjects.sampleCircle, RtObjects.sampleSamples⟩,
   ⟨⟨1200⟩, .slider toySliderF, RtObjects.sampleSamples⟩,
   ⟨⟨1600⟩, .spinner RtObjects.sampleSpinner, RtObjects.sampleSamples⟩,
   ⟨⟨2400⟩, .hold RtObjects.sampleHold, RtObjects.sampleSamples⟩]

/-- `C04.toyMap` with the slider velocity the finaliser computes. -/
def toyMapF : Beatmap ZC ZC := { C04.sampleMap with hitObjects := toyObjectsF }

theorem toyF_curveDist : curveDist toySliderF = .ok (⟨140⟩ : ZC) := by rfl

/-- with velocity 0 the slider's duration is `140 / 0 = 0` in the toy scalar: its end sample is collected at 1200. -/
def toyCollectedListF : List (SamplePoint ZC) :=
  [⟨⟨1000⟩, .normal, 0, 0⟩, ⟨⟨1200⟩, .normal, 0, 0⟩, ⟨⟨1200⟩, .normal, 0, 0⟩, ⟨⟨2100⟩, .normal, 0, 0⟩, ⟨⟨2650⟩, .normal, 0, 0⟩, ⟨⟨2400⟩, .normal, 0, 0⟩]

theorem toyF_collectAll : collectAll toyMapF toyObjectsF [] = .ok toyCollectedListF := by
  simp only [collectAll, toyObjectsF, collectObject, toyF_curveDist, bind, Except.bind, pure, Except.pure,
    toyMapF, C04.sampleMap, RtGeneral.sample]
  rfl

theorem toyF_sorted : toyCollectedListF.mergeSort (fun a b => decide (Scalar.totalKey a.time ≤ Scalar.totalKey b.time)) =
    [⟨⟨1000⟩, .normal, 0, 0⟩, ⟨⟨1200⟩, .normal, 0, 0⟩, ⟨⟨1200⟩, .normal, 0, 0⟩, ⟨⟨2100⟩, .normal, 0, 0⟩, ⟨⟨2400⟩, .normal, 0, 0⟩, ⟨⟨2650⟩, .normal, 0, 0⟩] := by
  have tk : ∀ a : ZC, Scalar.totalKey a = a.v := fun _ => rfl
  simp [toyCollectedListF, List.mergeSort, List.MergeSort.Internal.splitInTwo, tk]

theorem toyF_collect : collectSamples toyMapF = .ok C04.sampleCollected := by
  unfold collectSamples
  rw [show toyMapF.hitObjects = toyObjectsF from rfl, toyF_collectAll]
  simp only [bind, Except.bind, pure, Except.pure, toyF_sorted]
  rfl

theorem toyMapF_records : RtFile.RepRecords ZC.Rep ZC.Rep toyMapF :=
  ⟨C04.sample_records_rep.version, C04.sample_records_rep.general, C04.sample_records_rep.editor,
   C04.sample_records_rep.metadata, C04.sample_records_rep.difficulty, C04.sample_records_rep.events,
   C04.sample_records_rep.colors⟩

theorem toyMapF_timing : RepTimingMap ZC.Rep toyMapF where
  sig := C04.sample_timing_rep.sig
  sv := C04.sample_timing_rep.sv
  timing := C04.sample_timing_rep.timing
  difficulty := C04.sample_timing_rep.difficulty
  effect := C04.sample_timing_rep.effect
  samples := by
    intro cp hc
    rw [toyF_collect] at hc
    cases hc
    decide

theorem toyMapF_objects : ∀ h ∈ toyMapF.hitObjects, SliderRt.RepObject ZC.Rep ZC.Rep toyMapF.general.mode h := by
  intro h hh
  have hh' : h ∈ toyObjectsF := hh
  simp only [toyObjectsF, List.mem_cons, List.not_mem_nil, or_false] at hh'
  rcases hh' with rfl | rfl | rfl | rfl
  · exact .circle _ rfl ⟨⟨by decide, by decide, rfl⟩, ⟨by decide, by decide, rfl⟩, ⟨by decide, by decide⟩, by decide,
      RtObjects.sampleSamples_rep _⟩
  · exact .slider _ ⟨140⟩ rfl ⟨⟨by decide, by decide, rfl⟩, ⟨by decide, by decide, rfl⟩, ⟨by decide, by decide⟩, by decide,
      by decide, by decide, ⟨by decide, by decide⟩, Or.inl rfl, RtObjects.sampleSamples_rep _⟩
  · exact .spinner _ rfl ⟨⟨by decide, by decide, rfl⟩, ⟨by decide, by decide, rfl⟩, ⟨by decide, by decide⟩,
      ⟨by decide, by decide⟩, by decide, RtObjects.sampleSamples_rep _⟩
  · exact .hold _ rfl ⟨⟨by decide, by decide, rfl⟩, ⟨by decide, by decide, rfl⟩, ⟨by decide, by decide⟩,
      ⟨by decide, by decide⟩, by decide, RtObjects.sampleSamples_rep _⟩

/-- **`toyMapF` satisfies `RepMap`.** -/
theorem toyMapF_rep : RepMap ZC.Rep ZC.Rep toyMapF := ⟨toyMapF_records, toyMapF_timing, toyMapF_objects⟩

theorem toyMapF_timeline_hyps : TimelineHyps toyMapF.general.mode toyMapF.controlPoints := sample_timeline_hyps

theorem toyMapF_timing_text : encodeTimingPoints toyMapF = .ok (unlines (str "[TimingPoints]" :: C04.toyTimingLines)) := by
  cases h : encodeTimingPoints toyMapF with
  | error e =>
    unfold encodeTimingPoints at h
    simp [toyF_collect, bind, Except.bind, pure, Except.pure] at h
  | ok t =>
    obtain ⟨cp, hc, ht⟩ := encodeTimingPoints_eq toyMapF t h
    rw [toyF_collect] at hc
    cases hc
    rw [ht]
    exact congrArg (fun x => Except.ok (unlines (str "[TimingPoints]" :: x))) C04.sample_lines

/-- the velocity is not written: the `[HitObjects]` block is that of `C04.toyMap`. -/
theorem toyMapF_objects_text : encodeHitObjects toyMapF = .ok (unlines (str "[HitObjects]" :: C04.toyObjectLines)) := by rfl

theorem toyMapF_encodes : ∃ t, encode toyMapF = .ok t := by
  unfold encode
  rw [toyMapF_timing_text, toyMapF_objects_text]
  exact ⟨_, rfl⟩

/-- **`toyMapF` is finalised.** -/
theorem toyMapF_finalized : Finalized toyMapF where
  chronological := by unfold Chronological; decide
  breaks := by rfl
  velocity := by
    intro h hh s hk
    have hh' : h ∈ toyObjectsF := hh
    simp only [toyObjectsF, List.mem_cons, List.not_mem_nil, or_false] at hh'
    rcases hh' with rfl | rfl | rfl | rfl
    · cases hk
    · cases hk; exact toy_velocity.symm
    · cases hk
    · cases hk
  forced := by
    refine ⟨fun _ => rfl, ?_⟩
    refine ⟨fun h => (by cases h), ?_⟩
    refine ⟨fun _ => rfl, ?_⟩
    exact ⟨fun _ => rfl, trivial⟩
  shaped := by
    intro h hh
    have hh' : h ∈ toyObjectsF := hh
    simp only [toyObjectsF, List.mem_cons, List.not_mem_nil, or_false] at hh'
    rcases hh' with rfl | rfl | rfl | rfl
    · exact fun hn => by cases hn
    · exact ⟨fun _ => rfl, rfl⟩
    · trivial
    · trivial

/-- at the slider start 1200 the slider velocity (2) is the clamped scroll speed (2). -/
theorem toyMapF_scroll : ScrollDrivesSv toyMapF := by
  intro h hh hs
  have hh' : h ∈ toyObjectsF := hh
  simp only [toyObjectsF, List.mem_cons, List.not_mem_nil, or_false] at hh'
  rcases hh' with rfl | rfl | rfl | rfl
  · cases hs
  · decide
  · cases hs
  · cases hs

theorem zc_clamp_one : clamp (1 : ZC) (0.1 : ZC) (10 : ZC) = 1 := by decide

/-- **non-vacuity**: every hypothesis of `roundtrip_objects_rep_modes_partial` (hence of `…_scroll_partial` and `…_core`)
holds of `toyMapF`, including `encode toyMapF = .ok t` for some `t`; so its conclusion does. -/
theorem toyMapF_roundtrip_objects :
    ∃ t, encode toyMapF = .ok t ∧
      ∃ st : BeatmapState ZC ZC, decodeBytes beatmapDecoder (utf8Encode t) = .ok st ∧
        ∀ m2 : Beatmap ZC ZC, st.finish = .ok m2 →
          m2.hitObjects.length = toyMapF.hitObjects.length ∧
          ∀ p ∈ List.zip toyMapF.hitObjects m2.hitObjects, ObjPreserved p.1 p.2 := by
  obtain ⟨t, ht⟩ := toyMapF_encodes
  exact ⟨t, ht, roundtrip_objects_rep_modes_partial ZC.mapLaws zc_epsLaws zc_groupLaws toyMapF toyMapF_rep
    toyMapF_timeline_hyps t ht toyMapF_finalized zc_clamp_one toyMapF_scroll⟩

example (t : Str) (h : encode toyMapF = .ok t) :=
  roundtrip_objects_rep_scroll_partial ZC.mapLaws zc_epsLaws zc_groupLaws toyMapF toyMapF_rep toyMapF_timeline_hyps t h
    toyMapF_finalized (Or.inr rfl) zc_clamp_one toyMapF_scroll

example (t : Str) (h : encode toyMapF = .ok t) :=
  roundtrip_objects_rep_core ZC.mapLaws zc_epsLaws zc_groupLaws toyMapF toyMapF_rep toyMapF_timeline_hyps t h
    toyMapF_finalized

end Rosu.C02
