/-
  Props/C14Split.lean — C14, the duplicate-splitting loop of `convert_points` (`splitLoop` in
  Model/HitObjectLine.lean) characterised declaratively, and the path clauses of the property text.

  The decision taken at index `e` compares `vertices[e].pos` with `vertices[e-1].pos`; positions are never
  modified and the comparison does not involve `start_idx`, so the set of split indices is a plain
  predicate on the vertex list (`isSplit`). What `start_idx = end_idx + 1` does is *drop* the vertex at
  every split index: the emitted control points are the vertices below `n − end_point_len` whose index
  is not a split index, and a vertex is (re)typed exactly when the next index is a split index
  (`splitLoop_spec`). Runs of three or more equal points therefore lose all but their first vertex.
-/
import RosuModel.Model.HitObjectLine
import RosuModel.Props.C14
import RosuModel.Lemmas.ToyScalar
namespace Rosu.C14
open Rosu Scalar

variable {P : Type} [Scalar P]

/-! ### the declarative description -/

/-- `vertices[e].pos == vertices[e-1].pos` (false outside the list). -/
def posEqAt (vs : List (PathControlPoint P)) (e : Nat) : Bool :=
  match vs[e]?, vs[e - 1]? with
  | some a, some b => Pos.eq a.pos b.pos
  | _, _ => false

/-- **the split indices** of a vertex list, for the segment's effective path type and
`limit = vertices.len() − end_point_len`: `1 ≤ e < limit`, the vertex repeats its predecessor, not
(Catmull and `e > 1`), and `e` is not the last index below `limit`. -/
def isSplit (pathType : PathType) (limit : Nat) (vs : List (PathControlPoint P)) (e : Nat) : Bool :=
  decide (1 ≤ e) && decide (e < limit) && posEqAt vs e &&
    !(pathType == PathType.catmull && decide (e > 1)) && !(e == limit - 1)

/-- what becomes of vertex `i`: dropped if `i` is a split index; otherwise emitted, carrying the path
type if the next index is a split index (it then closes one segment and opens the next). -/
def emitAt (pathType : PathType) (limit : Nat) (vs : List (PathControlPoint P)) (i : Nat) :
    Option (PathControlPoint P) :=
  if isSplit pathType limit vs i then none
  else match vs[i]? with
    | some v => some (if isSplit pathType limit vs (i + 1) then { v with pathType := some pathType } else v)
    | none => none

/-- the control points emitted for the vertices `lo, lo+1, …, lo+len−1`. -/
def emitRange (pathType : PathType) (limit : Nat) (vs : List (PathControlPoint P)) (lo len : Nat) :
    List (PathControlPoint P) :=
  (List.range' lo len).filterMap (emitAt pathType limit vs)

/-- the final `if end_idx > start_idx { curve_points.extend(..) }` applied to the loop's result. -/
def flush (r : List (PathControlPoint P) × List (PathControlPoint P) × Nat × Nat) : List (PathControlPoint P) :=
  if r.2.2.2 > r.2.2.1 then r.2.1 ++ (r.1.drop r.2.2.1).take (r.2.2.2 - r.2.2.1) else r.2.1

/-! ### basic facts -/

theorem emitRange_zero (pt : PathType) (limit : Nat) (vs : List (PathControlPoint P)) (lo : Nat) :
    emitRange pt limit vs lo 0 = [] := rfl

theorem emitRange_succ (pt : PathType) (limit : Nat) (vs : List (PathControlPoint P)) (lo len : Nat) :
    emitRange pt limit vs lo (len + 1) =
      (match emitAt pt limit vs lo with | some x => [x] | none => []) ++ emitRange pt limit vs (lo + 1) len := by
  unfold emitRange
  rw [List.range'_succ, List.filterMap_cons]
  cases emitAt pt limit vs lo <;> rfl

theorem emitRange_add (pt : PathType) (limit : Nat) (vs : List (PathControlPoint P)) (lo a b : Nat) :
    emitRange pt limit vs lo (a + b) = emitRange pt limit vs lo a ++ emitRange pt limit vs (lo + a) b := by
  unfold emitRange
  rw [← List.filterMap_append]
  congr 1
  have := @List.range'_append lo a b 1
  rw [Nat.one_mul] at this
  exact this.symm

theorem posEqAt_setPathTypeAt (vs : List (PathControlPoint P)) (k : Nat) (t : PathType) (e : Nat) :
    posEqAt (setPathTypeAt vs k t) e = posEqAt vs e := by
  unfold posEqAt setPathTypeAt
  simp only [List.getElem?_modify]
  cases vs[e]? <;> cases vs[e - 1]? <;> simp <;> (repeat' split) <;> rfl

/-- one iteration of the loop while `end_idx + 1 < limit`. -/
theorem splitLoop_step (pt : PathType) (limit fuel : Nat) (vs cps : List (PathControlPoint P)) (s e : Nat)
    (a b : PathControlPoint P) (h : e + 1 < limit) (ha : vs[e + 1]? = some a) (hb : vs[e]? = some b) :
    splitLoop pt limit (fuel + 1) vs cps s e =
      if (!Pos.eq a.pos b.pos) || (pt == PathType.catmull && decide (e + 1 > 1)) || (e + 1 == limit - 1) then
        splitLoop pt limit fuel vs cps s (e + 1)
      else
        splitLoop pt limit fuel (setPathTypeAt vs e pt)
          (cps ++ ((setPathTypeAt vs e pt).drop s).take (e + 1 - s)) (e + 2) (e + 1) := by
  rw [splitLoop]
  simp only [h, decide_true, Bool.not_true, Bool.false_eq_true, if_false, Nat.add_sub_cancel, ha, hb]
  cases Pos.eq a.pos b.pos <;> cases (pt == PathType.catmull && decide (e + 1 > 1)) <;>
    cases (e + 1 == limit - 1) <;> rfl

theorem splitLoop_exit (pt : PathType) (limit fuel : Nat) (vs cps : List (PathControlPoint P)) (s e : Nat)
    (h : ¬ e + 1 < limit) : splitLoop pt limit (fuel + 1) vs cps s e = (vs, cps, s, e + 1) := by
  rw [splitLoop]
  simp [h]

theorem isSplit_ge_limit (pt : PathType) (limit : Nat) (vs : List (PathControlPoint P)) (e : Nat) (h : limit ≤ e) :
    isSplit pt limit vs e = false := by
  unfold isSplit
  have : decide (e < limit) = false := by simp; omega
  simp [this]

/-- vertices that are not split indices and whose successors are not either are emitted unchanged. -/
theorem emitRange_plain (pt : PathType) (limit : Nat) (vs₀ vs : List (PathControlPoint P)) (lo len : Nat)
    (h : ∀ i, lo ≤ i → i < lo + len →
      isSplit pt limit vs₀ i = false ∧ isSplit pt limit vs₀ (i + 1) = false ∧ vs[i]? = vs₀[i]?)
    (hb : lo + len ≤ vs.length) :
    emitRange pt limit vs₀ lo len = (vs.drop lo).take len := by
  induction len generalizing lo with
  | zero => simp [emitRange_zero]
  | succ n ih =>
    rw [emitRange_succ]
    obtain ⟨h1, h2, h3⟩ := h lo (Nat.le_refl _) (by omega)
    have hlo : lo < vs.length := by omega
    rw [List.drop_eq_getElem_cons hlo, List.take_succ_cons]
    have : emitAt pt limit vs₀ lo = some vs[lo] := by
      unfold emitAt
      rw [h1, ← h3, List.getElem?_eq_getElem hlo]
      simp [h2]
    rw [this, ih (lo + 1) (fun i hi1 hi2 => h i (by omega) (by omega)) (by omega)]
    rfl

theorem slice_modify {α : Type} (l : List α) (f : α → α) (s e : Nat) (hs : s ≤ e) (he : e < l.length) :
    ((l.modify e f).drop s).take (e + 1 - s) = (l.drop s).take (e - s) ++ [f l[e]] := by
  apply List.ext_getElem?
  intro k
  by_cases hk : k < e - s
  · have h1 : k < e + 1 - s := by omega
    have h2 : ¬ e = s + k := by omega
    simp [List.getElem?_drop, List.getElem?_append, hk, h1, h2]
    omega
  · by_cases hk2 : k = e - s
    · have h1 : k < e + 1 - s := by omega
      have h2 : e = s + k := by omega
      have h3 : s + k < l.length := by omega
      have h4 : min (e - s) (l.length - s) = e - s := by omega
      subst hk2
      simp [List.getElem?_drop, h1, h4, ← h2]
      exact ⟨l[e], List.getElem?_eq_getElem he, rfl⟩
    · have h1 : ¬ k < e + 1 - s := by omega
      have h4 : min (e - s) (l.length - s) = e - s := by omega
      simp [List.getElem?_take, List.getElem?_append, h1, hk, h4]
      omega

/-- **the loop invariant.** `vs₀` is the vertex list the loop started with; `vs` is the current list
(`vs₀` with some types set below `s`), `cps` the current `curve_points`, `s = start_idx`, `e = end_idx`.
Everything below `s` has been dealt with; the pending vertices `s..e` are not split indices. Then the
loop followed by the final flush appends exactly the emitted form of the vertices `s..limit−1`. -/
theorem splitLoop_flush (pt : PathType) (limit : Nat) (vs₀ : List (PathControlPoint P)) (hlim : limit ≤ vs₀.length) :
    ∀ (fuel : Nat) (vs cps : List (PathControlPoint P)) (s e : Nat),
      vs.length = vs₀.length →
      (∀ i, posEqAt vs i = posEqAt vs₀ i) →
      (∀ i, s ≤ i → vs[i]? = vs₀[i]?) →
      (∀ i, s ≤ i → i ≤ e → isSplit pt limit vs₀ i = false) →
      s ≤ e + 1 → s < limit → e < limit → limit ≤ e + fuel →
      flush (splitLoop pt limit fuel vs cps s e) = cps ++ emitRange pt limit vs₀ s (limit - s) := by
  intro fuel
  induction fuel with
  | zero => intro vs cps s e _ _ _ _ _ _ he hf; omega
  | succ n ih =>
    intro vs cps s e hlen hpos hsame hpend hse hsl hel hfuel
    by_cases hnext : e + 1 < limit
    · -- another iteration
      have he1 : e + 1 < vs.length := by omega
      have he0 : e < vs.length := by omega
      have ha : vs[e + 1]? = some vs[e + 1] := List.getElem?_eq_getElem he1
      have hb : vs[e]? = some vs[e] := List.getElem?_eq_getElem he0
      rw [splitLoop_step pt limit n vs cps s e _ _ hnext ha hb]
      -- the same condition on the original list
      have hcond : isSplit pt limit vs₀ (e + 1) =
          !((!Pos.eq vs[e + 1].pos vs[e].pos) || (pt == PathType.catmull && decide (e + 1 > 1)) ||
            (e + 1 == limit - 1)) := by
        have hp := hpos (e + 1)
        unfold isSplit
        rw [← hp]
        unfold posEqAt
        simp only [Nat.add_sub_cancel, ha, hb, hnext, decide_true, Bool.and_true, Bool.true_and,
          show decide (1 ≤ e + 1) = true from by simp]
        cases Pos.eq vs[e + 1].pos vs[e].pos <;> cases (pt == PathType.catmull && decide (e + 1 > 1)) <;>
          cases (e + 1 == limit - 1) <;> rfl
      cases hc : ((!Pos.eq vs[e + 1].pos vs[e].pos) || (pt == PathType.catmull && decide (e + 1 > 1)) ||
            (e + 1 == limit - 1)) with
      | true =>
        -- `continue`: index `e+1` joins the pending vertices
        rw [hc] at hcond
        simp only [if_true]
        apply ih vs cps s (e + 1) hlen hpos hsame _ (by omega) hsl hnext (by omega)
        intro i hi1 hi2
        by_cases hie : i = e + 1
        · subst hie; simpa using hcond
        · exact hpend i hi1 (by omega)
      | false =>
        -- a split at `e+1`
        rw [hc] at hcond
        simp only [Bool.false_eq_true, if_false]
        have hsplit : isSplit pt limit vs₀ (e + 1) = true := by simpa using hcond
        have hne : e + 1 ≠ limit - 1 := by
          intro h
          have : (e + 1 == limit - 1) = true := by simp [h]
          simp [this] at hc
        have he2 : e + 2 < limit := by omega
        rw [ih (setPathTypeAt vs e pt) _ (e + 2) (e + 1)
          (by unfold setPathTypeAt; rw [List.length_modify]; exact hlen)
          (fun i => by rw [posEqAt_setPathTypeAt]; exact hpos i)
          (fun i hi => by
            unfold setPathTypeAt
            rw [List.getElem?_modify]
            have : ¬ e = i := by omega
            simp only [this, if_false]
            have := hsame i (by omega)
            rw [← this]; cases vs[i]? <;> rfl)
          (fun i hi1 hi2 => by omega) (by omega) he2 hnext (by omega)]
        rw [List.append_assoc]
        congr 1
        -- the vertices `s..e+1`
        have hcut : limit - s = (e + 2 - s) + (limit - (e + 2)) := by omega
        rw [hcut, emitRange_add]
        have : s + (e + 2 - s) = e + 2 := by omega
        rw [this]
        congr 1
        have hdrop : emitRange pt limit vs₀ (e + 1) 1 = [] := by
          rw [emitRange_succ, emitRange_zero]
          unfold emitAt; simp [hsplit]
        by_cases hs : s = e + 1
        · -- the split directly follows another one: the slice is empty
          subst hs
          have : e + 1 + 1 - (e + 1) = 1 := by omega
          simp only [Nat.sub_self, List.take_zero]
          rw [show e + 2 - (e + 1) = 1 from by omega, hdrop]
        · have hse' : s ≤ e := by omega
          have hcut2 : e + 2 - s = (e - s) + (1 + 1) := by omega
          rw [hcut2, emitRange_add, emitRange_add]
          have h1 : s + (e - s) = e := by omega
          rw [h1, hdrop, List.append_nil]
          unfold setPathTypeAt
          rw [slice_modify vs _ s e hse' he0]
          congr 1
          · symm
            apply emitRange_plain pt limit vs₀ vs s (e - s)
            · intro i hi1 hi2
              exact ⟨hpend i hi1 (by omega), hpend (i + 1) (by omega) (by omega), hsame i hi1⟩
            · omega
          · rw [emitRange_succ, emitRange_zero]
            unfold emitAt
            have h0 : isSplit pt limit vs₀ e = false := hpend e hse' (Nat.le_refl _)
            have hv : vs₀[e]? = some vs[e] := by rw [← hsame e hse']; exact hb
            simp [h0, hsplit, hv]
    · -- the loop ends with `end_idx = limit`
      rw [splitLoop_exit pt limit n vs cps s e hnext]
      have hel' : e + 1 = limit := by omega
      unfold flush
      simp only [hel']
      rw [if_pos hsl]
      congr 1
      symm
      apply emitRange_plain pt limit vs₀ vs s (limit - s)
      · intro i hi1 hi2
        refine ⟨hpend i hi1 (by omega), ?_, hsame i hi1⟩
        by_cases hi : i + 1 < limit
        · exact hpend (i + 1) (by omega) (by omega)
        · exact isSplit_ge_limit pt limit vs₀ (i + 1) (by omega)
      · omega

theorem isSplit_zero (pt : PathType) (limit : Nat) (vs : List (PathControlPoint P)) : isSplit pt limit vs 0 = false := by
  unfold isSplit; simp

/-- **splitLoop_spec**: the splitting loop of `convert_points` followed by the final flush appends to
`curve_points` exactly the vertices below `limit = vertices.len() − end_point_len` whose index is not a
split index, each carrying the path type iff the next index is a split index — i.e. the concatenation
of the segments cut at the split indices (the duplicate vertex at each cut dropped) with the
segment-boundary types set. (`1 ≤ limit`: the segment has at least one vertex of its own.) -/
theorem splitLoop_spec (pt : PathType) (limit : Nat) (vs cps : List (PathControlPoint P))
    (h1 : 1 ≤ limit) (hlim : limit ≤ vs.length) :
    flush (splitLoop pt limit (vs.length + 1) vs cps 0 0) = cps ++ emitRange pt limit vs 0 limit := by
  have := splitLoop_flush pt limit vs hlim (vs.length + 1) vs cps 0 0 rfl (fun _ => rfl) (fun _ _ => rfl)
    (fun i _ hi => by
      have : i = 0 := by omega
      subst this; exact isSplit_zero pt limit vs)
    (by omega) (by omega) (by omega) (by omega)
  simpa using this

/-! ### `convert_points` -/

/-- `self.vertices.first_mut()?.path_type = Some(path_type)`. -/
def typeFirst (pt : PathType) : List (PathControlPoint P) → List (PathControlPoint P)
  | [] => []
  | v0 :: rest => { v0 with pathType := some pt } :: rest

/-- the vertices `convert_points` collects: the origin for the first segment, the segment's own points,
the end point handed over from the next segment. -/
def segVertices (first : Bool) (own ev : List (PathControlPoint P)) : List (PathControlPoint P) :=
  (if first then [{ pos := Pos.zero, pathType := none }] else []) ++ own ++ ev

section
variable {F : Type} [Scalar F] [Cvt P F]

/-- the end point as `convert_points` reads it. -/
def readEnd (F : Type) [Scalar F] [Cvt P F] (endPoint : Option Str) (offset : Pos P) : Option (List (PathControlPoint P)) :=
  match endPoint with
  | none => some []
  | some e => (readPoint (F := F) e offset).map (fun v => [v])

theorem readEnd_length (endPoint : Option Str) (offset : Pos P) (ev : List (PathControlPoint P))
    (h : readEnd F endPoint offset = some ev) : ev.length = if endPoint.isSome then 1 else 0 := by
  unfold readEnd at h
  cases endPoint with
  | none => cases h; rfl
  | some e =>
    simp only at h
    cases hr : readPoint (F := F) e offset with
    | none => rw [hr] at h; cases h
    | some v => rw [hr] at h; cases h; rfl

theorem readPoints_length (offset : Pos P) (ps : List Str) (vs : List (PathControlPoint P))
    (h : readPoints F offset ps = some vs) : vs.length = ps.length := by
  induction ps generalizing vs with
  | nil => cases h; rfl
  | cons p rest ih =>
    unfold readPoints at h
    cases hp : readPoint (F := F) p offset with
    | none => rw [hp] at h; cases h
    | some v =>
      rw [hp] at h
      cases hr : readPoints F offset rest with
      | none => rw [hr] at h; cases h
      | some vs' => rw [hr] at h; cases h; simp [ih vs' hr]

/-- the body of `convert_points` after the reads, as a function of the collected vertices. -/
theorem convertPoints_unfold (st : PathScratch P) (head : Str) (tail : List Str) (endPoint : Option Str)
    (first : Bool) (offset : Pos P) (own ev : List (PathControlPoint P))
    (hown : readPoints F offset tail = some own) (hev : readEnd F endPoint offset = some ev) :
    convertPoints F st (head :: tail) endPoint first offset =
      (match segVertices first own ev with
       | [] => ({ st with vertices := segVertices first own ev }, false)
       | v0 :: vrest =>
         let pt := effectivePathType (PathType.newFromStr head) (segVertices first own ev)
         let vs := { v0 with pathType := some pt } :: vrest
         let r := splitLoop pt (vs.length - ev.length) (vs.length + 1) vs st.curvePoints 0 0
         ({ st with vertices := r.1, curvePoints := flush r }, true)) := by
  unfold convertPoints
  cases endPoint with
  | none =>
    unfold readEnd at hev
    cases hev
    simp only [hown, segVertices]
    generalize (if first = true then [({ pos := Pos.zero, pathType := none } : PathControlPoint P)] else []) ++ own ++ [] = R
    cases R <;> rfl
  | some e =>
    unfold readEnd at hev
    cases hr : readPoint (F := F) e offset with
    | none => simp [hr] at hev
    | some v =>
      simp only [hr, Option.map_some, Option.some.injEq] at hev
      subst hev
      simp only [hown, hr, Option.map_some, segVertices]
      generalize (if first = true then [({ pos := Pos.zero, pathType := none } : PathControlPoint P)] else []) ++ own ++ [v] = R
      cases R <;> rfl

/-- **convert_points, closed form.** When every point of the segment (and the end point, if one is
handed over) reads, and the segment has a vertex of its own (`first` or at least one point), the call
succeeds and extends `curve_points` by the emitted form of its vertices:
the path type is the effective one (perfect-curve downgrade on ALL vertices, end point included),
the first vertex carries it, and `emitRange` is applied to the vertices below `len − end_point_len`. -/
theorem convertPoints_spec (st : PathScratch P) (head : Str) (tail : List Str) (endPoint : Option Str)
    (first : Bool) (offset : Pos P) (own ev : List (PathControlPoint P))
    (hown : readPoints F offset tail = some own) (hev : readEnd F endPoint offset = some ev)
    (hne : first = true ∨ tail ≠ []) :
    let raw := segVertices first own ev
    let pt := effectivePathType (PathType.newFromStr head) raw
    (convertPoints F st (head :: tail) endPoint first offset).2 = true ∧
    (convertPoints F st (head :: tail) endPoint first offset).1.curvePoints =
      st.curvePoints ++ emitRange pt (raw.length - ev.length) (typeFirst pt raw) 0 (raw.length - ev.length) := by
  intro raw pt
  rw [convertPoints_unfold st head tail endPoint first offset own ev hown hev]
  have hownlen := readPoints_length offset tail own hown
  have hrawlen : (segVertices first own ev).length = (if first then 1 else 0) + own.length + ev.length := by
    unfold segVertices; cases first <;> simp <;> omega
  have hlim1 : 1 ≤ (segVertices first own ev).length - ev.length := by
    rcases hne with h | h
    · subst h; simp at hrawlen; omega
    · have : tail.length ≠ 0 := by intro e; exact h (List.eq_nil_of_length_eq_zero e)
      omega
  simp only [raw, pt]
  generalize segVertices first own ev = R at hlim1 ⊢
  cases R with
  | nil => simp at hlim1
  | cons v0 vrest =>
    dsimp only
    refine ⟨rfl, ?_⟩
    exact splitLoop_spec (effectivePathType (PathType.newFromStr head) (v0 :: vrest)) ((v0 :: vrest).length - ev.length)
      ({ v0 with pathType := some (effectivePathType (PathType.newFromStr head) (v0 :: vrest)) } :: vrest)
      st.curvePoints hlim1 (by simp only [List.length_cons] at hlim1 ⊢; omega)
/-! ### the clauses of the property text -/

omit [Scalar F] [Cvt P F] in
/-- the split predicate in words. -/
theorem isSplit_iff (pt : PathType) (limit : Nat) (vs : List (PathControlPoint P)) (e : Nat) :
    isSplit pt limit vs e = true ↔
      1 ≤ e ∧ e < limit ∧ posEqAt vs e = true ∧ ¬ (pt = PathType.catmull ∧ 1 < e) ∧ e ≠ limit - 1 := by
  unfold isSplit
  simp only [Bool.and_eq_true, decide_eq_true_eq, Bool.not_eq_true', Bool.and_eq_false_imp, beq_iff_eq,
    decide_eq_false_iff_not, beq_eq_false_iff_ne, ne_eq]
  constructor
  · rintro ⟨⟨⟨⟨h1, h2⟩, h3⟩, h4⟩, h5⟩
    exact ⟨h1, h2, h3, fun ⟨a, b⟩ => h4 a b, h5⟩
  · rintro ⟨h1, h2, h3, h4, h5⟩
    exact ⟨⟨⟨⟨h1, h2⟩, h3⟩, fun a b => h4 ⟨a, b⟩⟩, h5⟩

omit [Scalar F] [Cvt P F] in
/-- **duplicate_splits**: at a split index the repeated vertex is dropped … -/
theorem duplicate_dropped (pt : PathType) (limit : Nat) (vs : List (PathControlPoint P)) (e : Nat)
    (h : isSplit pt limit vs e = true) : emitAt pt limit vs e = none := by
  unfold emitAt; simp [h]

omit [Scalar F] [Cvt P F] in
/-- … and the vertex before it (when it is emitted at all, i.e. not itself a dropped duplicate) carries
the path type: it ends one segment and starts the next. -/
theorem duplicate_types_previous (pt : PathType) (limit : Nat) (vs : List (PathControlPoint P)) (e : Nat)
    (v : PathControlPoint P) (h : isSplit pt limit vs (e + 1) = true) (hprev : isSplit pt limit vs e = false)
    (hv : vs[e]? = some v) : emitAt pt limit vs e = some { v with pathType := some pt } := by
  unfold emitAt; simp [h, hprev, hv]

omit [Scalar F] [Cvt P F] in
/-- a vertex that neither is nor precedes a split index is emitted unchanged. -/
theorem no_split_unchanged (pt : PathType) (limit : Nat) (vs : List (PathControlPoint P)) (i : Nat)
    (v : PathControlPoint P) (h : isSplit pt limit vs i = false) (hnext : isSplit pt limit vs (i + 1) = false)
    (hv : vs[i]? = some v) : emitAt pt limit vs i = some v := by
  unfold emitAt; simp [h, hnext, hv]

omit [Scalar F] [Cvt P F] in
/-- **catmull_no_split_after_first**: in a Catmull segment only index 1 can split. -/
theorem catmull_no_split_after_first (limit : Nat) (vs : List (PathControlPoint P)) (e : Nat) (h : 1 < e) :
    isSplit PathType.catmull limit vs e = false := by
  cases hs : isSplit PathType.catmull limit vs e with
  | false => rfl
  | true => exact absurd ⟨rfl, h⟩ ((isSplit_iff _ _ _ _).mp hs).2.2.2.1

omit [Scalar F] [Cvt P F] in
/-- **no_split_at_segment_end**: the last vertex of the segment (the last one below the handed-over
end point) never splits. -/
theorem no_split_at_segment_end (pt : PathType) (limit : Nat) (vs : List (PathControlPoint P)) :
    isSplit pt limit vs (limit - 1) = false := by
  cases hs : isSplit pt limit vs (limit - 1) with
  | false => rfl
  | true => exact absurd rfl ((isSplit_iff _ _ _ _).mp hs).2.2.2.2

omit [Scalar F] [Cvt P F] in
/-- nothing at or beyond `limit` splits: the handed-over end point is never compared as `vertices[e]`. -/
theorem no_split_beyond_limit (pt : PathType) (limit : Nat) (vs : List (PathControlPoint P)) (e : Nat)
    (h : limit ≤ e) : isSplit pt limit vs e = false := isSplit_ge_limit pt limit vs e h

omit [Scalar F] [Cvt P F] in
theorem isSplit_congr (pt : PathType) (limit : Nat) (vs vs' : List (PathControlPoint P))
    (h : ∀ i, i < limit → vs[i]? = vs'[i]?) (e : Nat) : isSplit pt limit vs e = isSplit pt limit vs' e := by
  unfold isSplit
  by_cases he : e < limit
  · have : posEqAt vs e = posEqAt vs' e := by
      unfold posEqAt; rw [h e he, h (e - 1) (by omega)]
    rw [this]
  · have : decide (e < limit) = false := by simpa using he
    simp [this]

omit [Scalar F] [Cvt P F] in
/-- the emitted points are a function of the vertices below `limit` only. -/
theorem emitRange_congr (pt : PathType) (limit : Nat) (vs vs' : List (PathControlPoint P))
    (h : ∀ i, i < limit → vs[i]? = vs'[i]?) (lo len : Nat) (hb : lo + len ≤ limit) :
    emitRange pt limit vs lo len = emitRange pt limit vs' lo len := by
  induction len generalizing lo with
  | zero => rfl
  | succ n ih =>
    rw [emitRange_succ, emitRange_succ, ih (lo + 1) (by omega)]
    congr 1
    unfold emitAt
    rw [isSplit_congr pt limit vs vs' h lo, isSplit_congr pt limit vs vs' h (lo + 1), h lo (by omega)]

omit [Scalar P] [Scalar F] [Cvt P F] in
theorem typeFirst_append (pt : PathType) (a b : List (PathControlPoint P)) (ha : a ≠ []) :
    typeFirst pt (a ++ b) = typeFirst pt a ++ b := by
  cases a with
  | nil => exact absurd rfl ha
  | cons x xs => rfl

omit [Scalar P] [Scalar F] [Cvt P F] in
theorem typeFirst_length (pt : PathType) (a : List (PathControlPoint P)) : (typeFirst pt a).length = a.length := by
  cases a <;> rfl

/-- **first_point_origin_typed**: for the first segment of a path (`first = true`) the first control
point appended is the origin carrying the effective path type. -/
theorem first_point_origin_typed (st : PathScratch P) (head : Str) (tail : List Str) (endPoint : Option Str)
    (offset : Pos P) (own ev : List (PathControlPoint P))
    (hown : readPoints F offset tail = some own) (hev : readEnd F endPoint offset = some ev) :
    ∃ rest, (convertPoints F st (head :: tail) endPoint true offset).1.curvePoints =
      st.curvePoints ++
        { pos := Pos.zero, pathType := some (effectivePathType (PathType.newFromStr head) (segVertices true own ev)) } :: rest := by
  obtain ⟨_, h⟩ := convertPoints_spec (F := F) st head tail endPoint true offset own ev hown hev (Or.inl rfl)
  rw [h]
  have hlen : (segVertices true own ev).length - ev.length = own.length + 1 := by
    unfold segVertices; simp; omega
  rw [hlen, emitRange_succ]
  have h0 : emitAt (effectivePathType (PathType.newFromStr head) (segVertices true own ev)) (own.length + 1)
      (typeFirst (effectivePathType (PathType.newFromStr head) (segVertices true own ev)) (segVertices true own ev)) 0 =
      some { pos := Pos.zero, pathType := some (effectivePathType (PathType.newFromStr head) (segVertices true own ev)) } := by
    unfold emitAt
    rw [isSplit_zero]
    simp only [Bool.false_eq_true, if_false]
    have : (typeFirst (effectivePathType (PathType.newFromStr head) (segVertices true own ev)) (segVertices true own ev))[0]? =
        some { pos := Pos.zero, pathType := some (effectivePathType (PathType.newFromStr head) (segVertices true own ev)) } := by
      generalize effectivePathType (PathType.newFromStr head) (segVertices true own ev) = pt
      simp [segVertices, typeFirst]
    rw [this]
    dsimp only
    split <;> rfl
  rw [h0]
  exact ⟨_, rfl⟩

/-- **segment_end_point_shared**: the end point handed over from the next segment takes part in the
perfect-curve test (the effective path type is computed on ALL vertices, `v` included) but is never
emitted — the control points appended are a function of that path type and of the segment's own
vertices only. -/
theorem segment_end_point_shared (st : PathScratch P) (head : Str) (tail : List Str) (e : Str)
    (first : Bool) (offset : Pos P) (own : List (PathControlPoint P)) (v : PathControlPoint P)
    (hown : readPoints F offset tail = some own) (hv : readPoint (F := F) e offset = some v)
    (hne : first = true ∨ tail ≠ []) :
    let pt := effectivePathType (PathType.newFromStr head) (segVertices first own [v])
    let ownVs := segVertices first own []
    (convertPoints F st (head :: tail) (some e) first offset).1.curvePoints =
      st.curvePoints ++ emitRange pt ownVs.length (typeFirst pt ownVs) 0 ownVs.length := by
  intro pt ownVs
  have hev : readEnd F (some e) offset = some [v] := by unfold readEnd; simp [hv]
  obtain ⟨_, h⟩ := convertPoints_spec (F := F) st head tail (some e) first offset own [v] hown hev hne
  rw [h]
  have hsv : segVertices first own [v] = ownVs ++ [v] := by
    show segVertices first own [v] = segVertices first own [] ++ [v]
    unfold segVertices; simp
  have hownlen := readPoints_length (F := F) offset tail own hown
  have hne' : ownVs ≠ [] := by
    show segVertices first own [] ≠ []
    unfold segVertices
    rcases hne with h | h
    · subst h; simp
    · intro hnil
      have hl : own.length = 0 := by
        have := congrArg List.length hnil
        simp only [List.length_append, List.length_nil] at this
        omega
      exact h (List.eq_nil_of_length_eq_zero (by omega))
  have hlen : (segVertices first own [v]).length - [v].length = ownVs.length := by rw [hsv]; simp
  rw [hlen]
  congr 1
  apply emitRange_congr
  · intro i hi
    show (typeFirst pt (segVertices first own [v]))[i]? = _
    rw [hsv, typeFirst_append _ _ _ hne', List.getElem?_append_left (by rw [typeFirst_length]; exact hi)]
  · omega

end

/-! ### the segment loop of `convert_path_str`, without indices or fuel -/

section
variable {F : Type} [Scalar F] [Cvt P F]

/-- the segment loop written structurally: `seg` is the segment collected so far (type piece first),
`rest` the pieces not yet looked at. A piece starting with an ASCII letter closes the segment — its
end point is the piece after that letter, if any — and opens the next one; an empty piece is an error. -/
def convertFrom (F : Type) [Scalar F] [Cvt P F] (offset : Pos P) :
    PathScratch P → Bool → List Str → List Str → PathScratch P × Bool
  | st, first, seg, [] => convertPoints F st seg none first offset
  | st, first, seg, p :: rest =>
    match firstIsAsciiAlpha p with
    | none => (st, false)
    | some false => convertFrom F offset st first (seg ++ [p]) rest
    | some true =>
      match convertPoints F st seg rest.head? first offset with
      | (st', false) => (st', false)
      | (st', true) => convertFrom F offset st' false [p] rest

/-- what `convert_path_str`'s closure does with the state the loop leaves. -/
def finishLoop (F : Type) [Scalar F] [Cvt P F] (pieces : List Str) (offset : Pos P)
    (r : PathScratch P × Bool × Nat × Nat × Bool) : PathScratch P × Bool :=
  match r with
  | (st', false, _, _, _) => (st', false)
  | (st', true, startIdx, endIdx, first) =>
    if endIdx > startIdx then
      convertPoints F st' ((pieces.drop startIdx).take (endIdx - startIdx)) none first offset
    else (st', true)

omit [Scalar P] in
theorem take_succ_drop {α : Type} (l : List α) (s e : Nat) (hs : s ≤ e + 1) (he : e + 1 < l.length) :
    (l.drop s).take (e + 2 - s) = (l.drop s).take (e + 1 - s) ++ [l[e + 1]] := by
  have : e + 2 - s = (e + 1 - s) + 1 := by omega
  rw [this, List.take_add, List.drop_drop]
  congr 1
  have h2 : s + (e + 1 - s) = e + 1 := by omega
  rw [h2, List.drop_eq_getElem_cons he]
  rfl

/-- the index/fuel loop of the model is the structural loop. -/
theorem pathLoop_eq (pieces : List Str) (offset : Pos P) :
    ∀ (fuel : Nat) (st : PathScratch P) (s e : Nat) (first : Bool),
      s ≤ e → e < pieces.length → pieces.length ≤ e + fuel →
      finishLoop F pieces offset (pathLoop F pieces offset fuel st s e first) =
        convertFrom F offset st first ((pieces.drop s).take (e + 1 - s)) (pieces.drop (e + 1)) := by
  intro fuel
  induction fuel with
  | zero => intro st s e first _ he hf; omega
  | succ n ih =>
    intro st s e first hse he hf
    rw [pathLoop]
    by_cases hnext : e + 1 < pieces.length
    · have hp : pieces[e + 1]? = some pieces[e + 1] := List.getElem?_eq_getElem hnext
      have hdrop : pieces.drop (e + 1) = pieces[e + 1] :: pieces.drop (e + 2) := List.drop_eq_getElem_cons hnext
      simp only [hnext, decide_true, Bool.not_true, Bool.false_eq_true, if_false, hp]
      rw [hdrop, convertFrom]
      cases hfa : firstIsAsciiAlpha pieces[e + 1] with
      | none => rfl
      | some b =>
        cases b with
        | false =>
          dsimp only
          rw [ih st s (e + 1) first (by omega) hnext (by omega), take_succ_drop pieces s e (by omega) hnext]
        | true =>
          dsimp only
          have hhead : (pieces.drop (e + 2)).head? = pieces[e + 1 + 1]? := by
            rw [List.head?_drop]
          rw [hhead]
          cases hc : convertPoints F st ((pieces.drop s).take (e + 1 - s)) pieces[e + 1 + 1]? first offset with
          | mk st' ok =>
            cases ok with
            | false => rfl
            | true =>
              dsimp only
              rw [ih st' (e + 1) (e + 1) false (Nat.le_refl _) hnext (by omega)]
              have : (pieces.drop (e + 1)).take (e + 1 + 1 - (e + 1)) = [pieces[e + 1]] := by
                rw [hdrop, show e + 1 + 1 - (e + 1) = 1 from by omega]; rfl
              rw [this]
    · have hdrop : pieces.drop (e + 1) = [] := List.drop_eq_nil_of_le (by omega)
      simp only [hnext, decide_false, Bool.not_false, if_true]
      rw [hdrop, convertFrom]
      unfold finishLoop
      simp only
      rw [if_pos (by omega)]

/-- **convert_path_str's closure, structurally**: split at `|`; the first piece opens the first segment. -/
theorem convertSegments_eq (st : PathScratch P) (pointStr : Str) (offset : Pos P) (p0 : Str) (prest : List Str)
    (hp : splitOn '|' pointStr = p0 :: prest) :
    convertSegments F st pointStr offset = convertFrom F offset st true [p0] prest := by
  unfold convertSegments
  simp only [hp]
  have := pathLoop_eq (F := F) (p0 :: prest) offset ((p0 :: prest).length + 1) st 0 0 true (Nat.le_refl _)
    (by simp) (by omega)
  simp only [List.drop_zero, List.take_succ_cons, List.take_zero, List.drop_succ_cons, Nat.zero_add] at this
  rw [← this]
  unfold finishLoop
  rfl

/-- a piece that starts a new segment: its first character is an ASCII letter. -/
def isLetterPiece (p : Str) : Bool :=
  match firstIsAsciiAlpha p with
  | some true => true
  | _ => false

/-- **the segments of a path string**: the pieces after the first are cut before every letter piece;
each segment but the last is handed, as its end point, the piece that follows the next letter piece. -/
def cutSegments : List Str → List Str → List (List Str × Option Str)
  | seg, [] => [(seg, none)]
  | seg, p :: rest =>
    if isLetterPiece p then (seg, rest.head?) :: cutSegments [p] rest else cutSegments (seg ++ [p]) rest

/-- `convert_points` over the segments in order, stopping at the first failure; only the first segment
has `first = true`. -/
def runSegments (F : Type) [Scalar F] [Cvt P F] (offset : Pos P) :
    PathScratch P → Bool → List (List Str × Option Str) → PathScratch P × Bool
  | st, _, [] => (st, true)
  | st, first, (seg, ep) :: more =>
    match convertPoints F st seg ep first offset with
    | (st', false) => (st', false)
    | (st', true) => runSegments F offset st' false more

theorem convertFrom_eq_run (offset : Pos P) (rest : List Str) :
    ∀ (st : PathScratch P) (first : Bool) (seg : List Str), (∀ p ∈ rest, p ≠ []) →
      convertFrom F offset st first seg rest = runSegments F offset st first (cutSegments seg rest) := by
  induction rest with
  | nil =>
    intro st first seg _
    simp only [convertFrom, cutSegments, runSegments]
    cases convertPoints F st seg none first offset with
    | mk st' ok => cases ok <;> rfl
  | cons p rest ih =>
    intro st first seg hne
    have hp : p ≠ [] := hne p (by simp)
    have hrest : ∀ q ∈ rest, q ≠ [] := fun q hq => hne q (by simp [hq])
    rw [convertFrom, cutSegments]
    cases p with
    | nil => exact absurd rfl hp
    | cons c cs =>
      cases hb : (('a' ≤ c && c ≤ 'z') || ('A' ≤ c && c ≤ 'Z')) with
      | false =>
        have h1 : firstIsAsciiAlpha (c :: cs) = some false := by simp only [firstIsAsciiAlpha, hb]
        have h2 : isLetterPiece (c :: cs) = false := by simp only [isLetterPiece, h1]
        simp only [h1, h2, Bool.false_eq_true, if_false]
        exact ih st first _ hrest
      | true =>
        have h1 : firstIsAsciiAlpha (c :: cs) = some true := by simp only [firstIsAsciiAlpha, hb]
        have h2 : isLetterPiece (c :: cs) = true := by simp only [isLetterPiece, h1]
        simp only [h1, h2, if_true, runSegments]
        cases convertPoints F st seg rest.head? first offset with
        | mk st' ok =>
          cases ok with
          | false => rfl
          | true => exact ih st' false _ hrest

/-- an empty piece (two `|` in a row, or a trailing `|`) makes the whole conversion fail. -/
theorem convertFrom_empty_fails (offset : Pos P) (rest : List Str) :
    ∀ (st : PathScratch P) (first : Bool) (seg : List Str), [] ∈ rest →
      (convertFrom F offset st first seg rest).2 = false := by
  induction rest with
  | nil => intro st first seg h; simp at h
  | cons p rest ih =>
    intro st first seg hmem
    rw [convertFrom]
    cases p with
    | nil => rfl
    | cons c cs =>
      have hmem' : [] ∈ rest := by simpa using hmem
      cases hb : (('a' ≤ c && c ≤ 'z') || ('A' ≤ c && c ≤ 'Z')) with
      | false =>
        have h1 : firstIsAsciiAlpha (c :: cs) = some false := by simp only [firstIsAsciiAlpha, hb]
        simp only [h1]
        exact ih st first _ hmem'
      | true =>
        have h1 : firstIsAsciiAlpha (c :: cs) = some true := by simp only [firstIsAsciiAlpha, hb]
        simp only [h1]
        cases convertPoints F st seg rest.head? first offset with
        | mk st' ok =>
          cases ok with
          | false => rfl
          | true => exact ih st' false _ hmem'

/-- **convert_path_str, declaratively.** Split the point string at `|`. If a piece after the first is
empty the conversion fails. Otherwise the pieces are cut into segments before every piece that starts
with an ASCII letter (the first piece always opens the first segment, whatever it is), and
`convert_points` runs over the segments in order — `first` only for the first segment, end point = the
piece following the next segment's type piece — stopping at the first failure. On failure
`curve_points` is cleared. (Per segment, `convertPoints_spec` gives the control points appended.) -/
theorem convertPathStr_spec (st : PathScratch P) (pointStr : Str) (offset : Pos P) (p0 : Str) (prest : List Str)
    (hp : splitOn '|' pointStr = p0 :: prest) :
    ([] ∈ prest → (convertPathStr F st pointStr offset).2 = false ∧
        (convertPathStr F st pointStr offset).1.curvePoints = []) ∧
    ((∀ p ∈ prest, p ≠ []) →
      convertPathStr F st pointStr offset =
        match runSegments F offset st true (cutSegments [p0] prest) with
        | (st', true) => (st', true)
        | (st', false) => ({ st' with curvePoints := [] }, false)) := by
  unfold convertPathStr
  rw [convertSegments_eq (F := F) st pointStr offset p0 prest hp]
  constructor
  · intro hmem
    have := convertFrom_empty_fails (F := F) offset prest st true [p0] hmem
    cases hc : convertFrom F offset st true [p0] prest with
    | mk st' ok =>
      rw [hc] at this
      simp only at this
      subst this
      exact ⟨rfl, rfl⟩
  · intro hne
    rw [convertFrom_eq_run (F := F) offset prest st true [p0] hne]
    cases runSegments F offset st true (cutSegments [p0] prest) with
    | mk st' ok => cases ok <;> rfl

end

/-! ### non-vacuity and worked instances (integer toy scalar `Z`: positions are the integers themselves) -/

instance : Cvt Z Z := ⟨id, id⟩

/-- control point `(x, y)` with an optional type. -/
def zp (x y : Int) (t : Option PathType := none) : PathControlPoint Z := ⟨⟨⟨x⟩, ⟨y⟩⟩, t⟩

-- the hypotheses of `convertPoints_spec` hold for an ordinary segment
example : readPoints Z (⟨⟨0⟩, ⟨0⟩⟩ : Pos Z) [str "1:1", str "1:1", str "2:2", str "3:3"] = some [zp 1 1, zp 1 1, zp 2 2, zp 3 3]
    ∧ readEnd Z (some (str "5:5")) (⟨⟨0⟩, ⟨0⟩⟩ : Pos Z) = some [zp 5 5] := ⟨rfl, rfl⟩

-- `B|1:1|1:1|2:2|3:3`: index 2 repeats index 1 → the repeat is dropped, `(1,1)` is typed
example : (convertPoints Z ({} : PathScratch Z) [str "B", str "1:1", str "1:1", str "2:2", str "3:3"] none true ⟨⟨0⟩, ⟨0⟩⟩).1.curvePoints
    = [zp 0 0 (some PathType.bezier), zp 1 1 (some PathType.bezier), zp 2 2, zp 3 3] := rfl
example : isSplit PathType.bezier 5 [zp 0 0, zp 1 1, zp 1 1, zp 2 2, zp 3 3] 2 = true := rfl

-- three equal points in a row: indices 2 and 3 are both split indices, BOTH repeats are dropped
-- (the second split emits the empty slice `vertices[3..3]`)
example : (convertPoints Z ({} : PathScratch Z) [str "B", str "1:1", str "1:1", str "1:1", str "2:2", str "3:3"] none true ⟨⟨0⟩, ⟨0⟩⟩).1.curvePoints
    = [zp 0 0 (some PathType.bezier), zp 1 1 (some PathType.bezier), zp 2 2, zp 3 3] := rfl

-- Catmull: a repeat after index 1 does not split; a repeat AT index 1 (of the origin) does
example : (convertPoints Z ({} : PathScratch Z) [str "C", str "1:1", str "1:1", str "2:2", str "3:3"] none true ⟨⟨0⟩, ⟨0⟩⟩).1.curvePoints
    = [zp 0 0 (some PathType.catmull), zp 1 1, zp 1 1, zp 2 2, zp 3 3] := rfl
example : (convertPoints Z ({} : PathScratch Z) [str "C", str "0:0", str "2:2", str "3:3"] none true ⟨⟨0⟩, ⟨0⟩⟩).1.curvePoints
    = [zp 0 0 (some PathType.catmull), zp 2 2, zp 3 3] := rfl

-- a repeat at the segment's end does not split
example : (convertPoints Z ({} : PathScratch Z) [str "B", str "1:1", str "2:2", str "2:2"] none true ⟨⟨0⟩, ⟨0⟩⟩).1.curvePoints
    = [zp 0 0 (some PathType.bezier), zp 1 1, zp 2 2, zp 2 2] := rfl

-- the handed-over end point decides the perfect-curve test (4 vertices → Bezier, 3 → stays perfect) and is not emitted
example : (convertPoints Z ({} : PathScratch Z) [str "P", str "1:1", str "2:0"] (some (str "5:5")) true ⟨⟨0⟩, ⟨0⟩⟩).1.curvePoints
    = [zp 0 0 (some PathType.bezier), zp 1 1, zp 2 0] := rfl
example : (convertPoints Z ({} : PathScratch Z) [str "P", str "1:1", str "2:0"] none true ⟨⟨0⟩, ⟨0⟩⟩).1.curvePoints
    = [zp 0 0 (some PathType.perfect), zp 1 1, zp 2 0] := rfl

-- why `1 ≤ limit` is a hypothesis: a segment consisting of the type letter only, not first, with an end
-- point (`limit = 0`) would emit the end point through the final flush. `convert_path_str` cannot reach
-- this: two adjacent type letters make the earlier segment's end point a letter piece, which fails to read.
example : (convertPoints Z ({} : PathScratch Z) [str "L"] (some (str "5:5")) false ⟨⟨0⟩, ⟨0⟩⟩).1.curvePoints
    = [zp 5 5 (some PathType.linear)] := rfl

-- a whole path string: three segments, each handed the first point of the next one as its end point
example : cutSegments [str "B"] [str "1:1", str "2:2", str "L", str "3:3", str "P", str "4:4", str "9:0"] =
    [([str "B", str "1:1", str "2:2"], some (str "3:3")), ([str "L", str "3:3"], some (str "4:4")),
     ([str "P", str "4:4", str "9:0"], none)] := by decide
example : (convertPathStr Z ({} : PathScratch Z) (str "B|1:1|2:2|L|3:3|P|4:4|9:0") ⟨⟨0⟩, ⟨0⟩⟩).1.curvePoints
    = [zp 0 0 (some PathType.bezier), zp 1 1, zp 2 2, zp 3 3 (some PathType.linear), zp 4 4 (some PathType.bezier), zp 9 0] := rfl
-- an empty piece fails and clears `curve_points`
example : (convertPathStr Z ({ curvePoints := [zp 7 7] } : PathScratch Z) (str "B|1:1||2:2") ⟨⟨0⟩, ⟨0⟩⟩).2 = false
    ∧ (convertPathStr Z ({ curvePoints := [zp 7 7] } : PathScratch Z) (str "B|1:1||2:2") ⟨⟨0⟩, ⟨0⟩⟩).1.curvePoints = [] := ⟨rfl, rfl⟩

end Rosu.C14
