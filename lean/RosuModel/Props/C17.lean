/-
  Props/C17.lean — computed paths follow the exact curves (**partial**, DESIGN.md 5.17).
  Proved here: the structural facts (segment dispatch and fallbacks, linear identity, end points, joint
  de-duplication). Not proved: the Hausdorff bound of the adaptive Bezier flattening, the arc sagitta bound and
  the Catmull chord error (`bezier_within_tolerance_statement`); their evidence is the model/implementation
  correspondence plus the harness oracle that evaluates the exact curves independently.
-/
import RosuModel.Model.Curve
import RosuModel.Lemmas.Outcome
import RosuModel.Lemmas.ToyInt
import RosuModel.Lemmas.CatmullRing
namespace Rosu.C17
open Rosu Rosu.Curve

variable {P F : Type} [Scalar P] [Scalar F] [Cvt P F] [Trig F] [Trig P]

/-! ### dispatch -/

/-- a linear segment is its control points, verbatim. -/
theorem linear_identity (fuel : Nat) (mode : GameMode) (seg : List (Pos P)) (o : F) (b : BezierBuffers P) :
    calculateSubpath fuel mode seg .linear o b = .ok (seg, o, b) := rfl

/-- the Bezier route of `calculate_subpath`. -/
def viaBezier (fuel : Nat) (seg : List (Pos P)) (o : F) (b : BezierBuffers P) :
    Outcome (List (Pos P) × F × BezierBuffers P) := do
  let (out, bufs) ← approximateBezier fuel seg b
  pure (out, o, bufs)

/-- a B-spline segment is flattened as a Bezier curve. -/
theorem dispatch_bspline (fuel : Nat) (mode : GameMode) (seg : List (Pos P)) (o : F) (b : BezierBuffers P) :
    calculateSubpath fuel mode seg .bspline o b = viaBezier fuel seg o b := rfl

/-- a perfect-curve segment with a number of points other than three is flattened as a Bezier curve. -/
theorem dispatch_perfect_not_three (fuel : Nat) (mode : GameMode) (seg : List (Pos P)) (o : F)
    (b : BezierBuffers P) (h : seg.length ≠ 3) :
    calculateSubpath fuel mode seg .perfectCurve o b = viaBezier fuel seg o b := by
  unfold calculateSubpath viaBezier
  match seg, h with
  | [], _ => rfl
  | [_], _ => rfl
  | [_, _], _ => rfl
  | _ :: _ :: _ :: _ :: _, _ => rfl

/-- three points whose arc is refused fall back to the Bezier route; an accepted arc is pushed as is. -/
theorem dispatch_perfect_three (fuel : Nat) (mode : GameMode) (a b c : Pos P) (o : F) (bz : BezierBuffers P) :
    calculateSubpath fuel mode [a, b, c] .perfectCurve o bz =
      (do match (← approximateCircularArc (F := F) fuel a b c) with
          | some pts => pure (pts, o, bz)
          | none => viaBezier fuel [a, b, c] o bz) := by
  unfold calculateSubpath viaBezier
  rfl

/-- collinear (or nearly collinear: `|cross| <= f32::EPSILON`) points have no arc. -/
theorem arc_refused_collinear (fuel : Nat) (a b c : Pos P)
    (h : Scalar.le (Scalar.abs ((b.y - a.y) * (c.x - a.x) - (b.x - a.x) * (c.y - a.y))) (Scalar.eps : P) = true) :
    approximateCircularArc (F := F) fuel a b c = .ok none := by
  unfold approximateCircularArc circularArcProperties
  simp [h]

/-- an arc that would need 1000 or more sub-points is refused. -/
theorem arc_refused_large (fuel : Nat) (a b c : Pos P) (pr : ArcProps P F)
    (hp : circularArcProperties (F := F) fuel a b c = .ok (some pr)) (h : arcSubPoints pr ≥ 1000) :
    approximateCircularArc (F := F) fuel a b c = .ok none := by
  unfold approximateCircularArc
  rw [hp]
  simp [h]

/-- an accepted arc has between 2 and 999 points. -/
theorem arc_point_count (fuel : Nat) (a b c : Pos P) (pts : List (Pos P))
    (h : approximateCircularArc (F := F) fuel a b c = .ok (some pts)) : 2 ≤ pts.length ∧ pts.length < 1000 := by
  unfold approximateCircularArc at h
  cases hp : circularArcProperties (F := F) fuel a b c with
  | error e => rw [hp] at h; cases h
  | ok r =>
    rw [hp] at h
    cases r with
    | none => simp at h
    | some pr =>
      simp only [Outcome.ok_bind] at h
      split at h
      · simp at h
      · rename_i hlt
        have h2 : 2 ≤ arcSubPoints pr := by
          unfold arcSubPoints
          split
          · omega
          · simp only []
            split
            · omega
            · exact Nat.le_max_right _ _
        rw [usub_eq _ _ (by omega)] at h
        simp only [Outcome.ok_bind, Outcome.pure_eq_ok] at h
        cases h
        simp only [List.length_map, List.length_range]
        omega

/-! ### end points -/

/-- the Bezier flattening ends with the last control point (`path.push(points[p - 1])`). -/
theorem segment_ends_at_last (fuel : Nat) (pts out : List (Pos P)) (b b' : BezierBuffers P)
    (h : approximateBspline fuel pts b = .ok (out, b')) : out.getLast? = pts.getLast? ∧ pts ≠ [] := by
  unfold approximateBspline at h
  simp only [] at h
  cases hl : bsplineLoop pts.length fuel { stack := [pts], free := [], bufs := b } with
  | error e => rw [hl] at h; cases h
  | ok r =>
    rw [hl] at h
    simp only [Outcome.ok_bind] at h
    by_cases hp : 1 ≤ pts.length
    · rw [usub_eq _ _ hp, Outcome.ok_bind, getI_eq _ _ (by omega)] at h
      simp only [Outcome.ok_bind, Outcome.pure_eq_ok] at h
      cases h
      constructor
      · rw [List.getLast?_concat, List.getLast?_eq_getElem?, List.getElem?_eq_getElem (by omega)]
      · intro h0; subst h0; simp at hp
    · simp [usub, hp] at h

/-- every flat piece starts with the first control point of the curve it approximates
(`path.push(points[0])` in `bezier_approximate`). -/
theorem piece_starts_at_first (pts l r mid piece l' r' mid' : List (Pos P))
    (h : bezierApproximate pts l r mid = .ok (piece, l', r', mid')) : piece.head? = pts.head? := by
  unfold bezierApproximate at h
  cases hs : bezierSubdivide pts l r mid with
  | error e => rw [hs] at h; cases h
  | ok t =>
    obtain ⟨l1, r1, m1⟩ := t
    rw [hs] at h
    simp only [Outcome.ok_bind] at h
    cases pts with
    | nil => simp [getI] at h
    | cons p0 rest =>
      simp only [getI, List.getElem?_cons_zero, Outcome.pure_eq_ok, Outcome.ok_bind] at h
      cases h1 : sliceTo l1 (p0 :: rest).length with
      | error e => rw [h1] at h; cases h
      | ok ls =>
        rw [h1] at h
        simp only [Outcome.ok_bind] at h
        cases h2 : sliceFromTo r1 1 (p0 :: rest).length with
        | error e => rw [h2] at h; cases h
        | ok rs =>
          rw [h2] at h
          simp only [Outcome.ok_bind, Outcome.pure_eq_ok] at h
          cases h
          rfl

/-! ### joints -/

/-- **joint de-duplication**: when the first point a segment pushed equals (IEEE `==` on both coordinates)
the last point of the path so far, it is removed — `rotate_left(1)` + `pop()` on the new part is exactly
that — and otherwise nothing changes. A NaN coordinate never compares equal, so such a joint is kept twice. -/
theorem joint_dedup (pre : List (Pos P)) (last first : Pos P) (rest : List (Pos P)) :
    dedupJoint ((pre ++ [last]) ++ first :: rest) (pre ++ [last]).length =
      .ok (if Pos.eq last first then (pre ++ [last]) ++ rest else (pre ++ [last]) ++ first :: rest) := by
  unfold dedupJoint
  have hlen : (pre ++ [last]).length = pre.length + 1 := by simp
  have h1 : ((pre ++ [last]) ++ first :: rest)[(pre ++ [last]).length]? = some first := by
    rw [List.getElem?_append_right (Nat.le_refl _)]; simp
  have h2 : getI ((pre ++ [last]) ++ first :: rest) ((pre ++ [last]).length - 1) = .ok last := by
    apply getI_of_some
    rw [hlen, Nat.add_sub_cancel, List.append_assoc, List.getElem?_append_right (Nat.le_refl _)]; simp
  have h3 : (pre ++ [last]).length ≥ 1 := by omega
  simp only [h3, if_true, h1, h2, Outcome.ok_bind, Outcome.pure_eq_ok]
  cases Pos.eq last first
  · simp
  · simp only [if_true]
    congr 1
    rw [List.take_left' rfl, List.drop_left' rfl]
    simp only [rotateLeft1]
    rw [← List.append_assoc, List.dropLast_concat]

/-- the first segment (empty path so far) is never de-duplicated. -/
theorem joint_dedup_first (out : List (Pos P)) : dedupJoint out 0 = .ok out := by
  unfold dedupJoint
  cases out <;> simp

/-! ### Catmull points on the spline (exact rational arithmetic) -/

/-- **`catmull_points_on_spline`**: over exact (rational) arithmetic, `catmull_subpath(v1, v2, v3, v4)` emits for
`c = 0..49` the uniform Catmull-Rom polynomial (standard basis form `catmullRomStd`) at `t = c/50` and at
`t = (c+1)/50` — proved by `ring` in Lemmas/CatmullRing.lean. -/
theorem catmull_points_on_spline (v1 v2 v3 v4 : Pos Rat) :
    catmullSubpath v1 v2 v3 v4 =
      (List.range 50).flatMap fun (c : Nat) =>
        [catmullRomPt v1 v2 v3 v4 ((c : Rat) / 50), catmullRomPt v1 v2 v3 v4 (((c : Rat) + 1) / 50)] :=
  catmullSubpath_on_spline v1 v2 v3 v4

/-- the spline interpolates its inner control points: `t = 0` gives `v2`, `t = 1` gives `v3`. -/
theorem catmullRom_endpoints (v1 v2 v3 v4 : Rat) :
    catmullRomStd v1 v2 v3 v4 0 = v2 ∧ catmullRomStd v1 v2 v3 v4 1 = v3 := by
  unfold catmullRomStd
  constructor <;> ring

/-! ### fuel of the angle loop -/

/-- **one round of `while theta_end < theta_start { theta_end += 2π }` suffices** whenever
`theta_end + 2π` is not below `theta_start` — which holds for `atan2` results in `[-π, π]` (a law of the
arithmetic, not of this code): then any fuel `≥ 1` gives the same, non-`fuel` outcome. -/
theorem thetaLoop_fuel (n : Nat) (te ts : F) (h : Scalar.lt (te + (2 : F) * Trig.pi) ts = false) :
    thetaLoop (n + 1) te ts = .ok (if Scalar.lt te ts then te + (2 : F) * Trig.pi else te) := by
  unfold thetaLoop
  split
  · cases n <;> simp [thetaLoop, h]
  · rfl

/-! ### what is not proved -/

/-- De Casteljau evaluation of the Bezier curve with control points `pts` at parameter `t`. -/
def deCasteljauStep (t : P) : List (Pos P) → List (Pos P)
  | a :: b :: rest => (a.smul ((1 : P) - t) + b.smul t) :: deCasteljauStep t (b :: rest)
  | _ => []

def bezierEval (t : P) : Nat → List (Pos P) → Option (Pos P)
  | 0, pts => pts.head?
  | n + 1, pts => match pts with
    | [] => none
    | [a] => some a
    | _ => bezierEval t n (deCasteljauStep t pts)

/-- the tolerance statement of the property for Bezier segments (one direction): every pushed vertex is within
`tol` of some point of the exact curve. **Not proved** (real-analysis bound for the adaptive subdivision with the
final smoothing step); C17 is reported partial for this reason. -/
def bezier_within_tolerance_statement (P : Type) [Scalar P] (tol : P) : Prop :=
  ∀ (fuel : Nat) (pts out : List (Pos P)) (b b' : BezierBuffers P),
    approximateBezier fuel pts b = .ok (out, b') →
    ∀ v ∈ out, ∃ t q, Scalar.le (0 : P) t = true ∧ Scalar.le t (1 : P) = true ∧
      bezierEval t pts.length pts = some q ∧
      Scalar.le (Pos.lengthSquared (v - q)) (tol * tol) = true

/-! ### non-vacuity (toy arithmetic) -/
section NonVacuity
open Rosu.Toy

example : calculateSubpath (F := Int) 10 .osu [pt 0 0, pt 3 4] .linear 0 {} = .ok ([pt 0 0, pt 3 4], 0, {}) := rfl
example : Scalar.le (Scalar.abs (((pt 1 1).y - (pt 0 0).y) * ((pt 2 2).x - (pt 0 0).x) -
    ((pt 1 1).x - (pt 0 0).x) * ((pt 2 2).y - (pt 0 0).y))) (Scalar.eps : Int) = true := by decide
example : dedupJoint ([pt 0 0, pt 3 4] ++ [pt 3 4, pt 9 9]) 2 = .ok [pt 0 0, pt 3 4, pt 9 9] := rfl

end NonVacuity

end Rosu.C17
