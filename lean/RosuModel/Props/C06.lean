/-
  Props/C06.lean — a rejected line has no effect on the result.
  Record sections: the `…_reject_no_effect` theorems of Props/C11.lean (state returned unchanged).
  Hit objects: the only state a failing line can touch is the path scratch; `curve_points` is empty
  between lines and the scratch `vertices` is never read before it is overwritten.
-/
import RosuModel.Model.HitObjectLine
import RosuModel.Props.C11
import RosuModel.Props.C14
namespace Rosu.C06
open Rosu Scalar

variable {F P : Type} [Scalar F] [Scalar P] [Cvt P F]

/-- the record sections, collected (proved in Props/C11.lean). -/
theorem editor_reject_no_effect (st : Editor F) (line : Str) :
    (parseEditor st line).2 = false → (parseEditor st line).1 = st := C11.editor_reject_no_effect st line
theorem metadata_reject_no_effect (st : Metadata) (line : Str) :
    (parseMetadata st line).2 = false → (parseMetadata st line).1 = st := C11.metadata_reject_no_effect st line
theorem difficulty_reject_no_effect (st : DifficultyState F P) (line : Str) :
    (parseDifficulty st line).2 = false → (parseDifficulty st line).1 = st := C11.difficulty_reject_no_effect st line
theorem events_reject_no_effect (st : Events F) (line : Str) :
    (parseEvents st line).2 = false → (parseEvents st line).1 = st := C11.events_reject_no_effect st line
theorem colors_reject_no_effect (st : Colors) (line : Str) :
    (parseColors st line).2 = false → (parseColors st line).1 = st := C11.colors_reject_no_effect st line

/-! ### hit objects -/

/-- between lines the control-point buffer is empty. -/
def CleanScratch (st : HOCore F P) : Prop := st.curvePoints = []

theorem convertPathStr_fail_clean (sc : PathScratch P) (s : Str) (off : Pos P)
    (h : (convertPathStr F sc s off).2 = false) : (convertPathStr F sc s off).1.curvePoints = [] := by
  unfold convertPathStr at h ⊢
  split
  · rename_i heq; rw [heq] at h; cases h
  · rfl

theorem buildSlider_clean (mode : GameMode) (st : HOCore F P) (hd : Header F P) (h : st.curvePoints = []) :
    (buildSlider mode st hd).1.curvePoints = [] := by
  unfold buildSlider
  cases hp : (sliderPrelude hd : Option (SliderPrelude F)) with
  | none => exact h
  | some pre =>
    simp only []
    cases hc : convertPathStr F st.scratch pre.pointStr hd.pos with
    | mk sc ok =>
      cases ok with
      | false =>
        have := convertPathStr_fail_clean (F := F) st.scratch pre.pointStr hd.pos (by rw [hc])
        rw [hc] at this
        simpa [HOCore.withScratch] using this
      | true => simp [HOCore.withScratch]

/-- every line — accepted or rejected — leaves the control-point buffer empty again. -/
theorem parse_preserves_clean (mode : GameMode) (st : HOCore F P) (line : Str) (h : CleanScratch st) :
    CleanScratch (parseHitObjectLine mode st line).1 := by
  unfold CleanScratch at *
  unfold parseHitObjectLine
  cases (parseHeader line : Option (Header F P)) with
  | none => exact h
  | some hd =>
    simp only []
    cases classify (maskedType hd.ty0) with
    | none => exact h
    | some cls =>
      cases cls with
      | circle => simp only []; cases buildCircle st hd with
        | none => exact h
        | some kb => exact h
      | slider =>
        simp only []
        have hs := buildSlider_clean mode st hd h
        cases hb : buildSlider mode st hd with
        | mk st' r =>
          rw [hb] at hs
          cases r with
          | none => exact hs
          | some kb => exact hs
      | spinner => simp only []; cases buildSpinner hd with
        | none => exact h
        | some kb => exact h
      | hold => simp only []; cases buildHold hd with
        | none => exact h
        | some kb => exact h

/-- **rejected_no_trace** (hit objects): a rejected line leaves the objects, `last_object` and the
control-point buffer exactly as they were. -/
theorem rejected_no_trace (mode : GameMode) (st : HOCore F P) (line : Str) (h : CleanScratch st)
    (hrej : (parseHitObjectLine mode st line).2 = false) :
    (parseHitObjectLine mode st line).1.hitObjects = st.hitObjects ∧
    (parseHitObjectLine mode st line).1.lastObject = st.lastObject ∧
    (parseHitObjectLine mode st line).1.curvePoints = st.curvePoints := by
  have h1 := C14.rejected_keeps_objects mode st line hrej
  have h2 := parse_preserves_clean mode st line h
  unfold CleanScratch at h h2
  exact ⟨h1.1, h1.2, by rw [h2, h]⟩

/-- for every sequence of hit-object lines from the initial state the buffer is empty between lines, so
`rejected_no_trace` applies at every position of every file. -/
theorem clean_always (mode : GameMode) (ls : List Str) :
    CleanScratch (ls.foldl (fun s l => (parseHitObjectLine (F := F) (P := P) mode s l).1) {}) := by
  have : ∀ st : HOCore F P, CleanScratch st →
      CleanScratch (ls.foldl (fun s l => (parseHitObjectLine mode s l).1) st) := by
    induction ls with
    | nil => intro st h; exact h
    | cons l rest ih => intro st h; exact ih _ (parse_preserves_clean mode st l h)
  exact this {} rfl

/-- erasing a rejected line from a sequence of hit-object lines does not change the resulting
objects, `last_object` or buffer: the observable state after the whole sequence is identical. -/
theorem rejected_line_absent (mode : GameMode) (a : List Str) (l : Str)
    (hrej : (parseHitObjectLine (F := F) (P := P) mode
              (a.foldl (fun s x => (parseHitObjectLine mode s x).1) {}) l).2 = false) :
    let run := fun (ls : List Str) => ls.foldl (fun s x => (parseHitObjectLine (F := F) (P := P) mode s x).1) {}
    ∀ obs : HOCore F P → HOCore F P → Prop,
      (∀ s t, s.hitObjects = t.hitObjects → s.lastObject = t.lastObject → s.curvePoints = t.curvePoints → obs s t) →
      obs ((parseHitObjectLine mode (run a) l).1) (run a) := by
  intro run obs hobs
  have hc := clean_always (F := F) (P := P) mode a
  have := rejected_no_trace mode (run a) l hc hrej
  exact hobs _ _ this.1 this.2.1 this.2.2

end Rosu.C06
