/-
  Props/C06.lean — a rejected line has no effect on the result.
  Record sections: the `…_reject_no_effect` theorems of Props/C11.lean (state returned unchanged).
  Hit objects: the only state a failing line can touch is the path scratch; `curve_points` is empty
  between lines and the scratch `vertices` is never read before it is overwritten.
-/
import RosuModel.Model.HitObjectLine
import RosuModel.Props.C11
import RosuModel.Props.C14
namespace Rosu.C06
open Rosu Scalar

variable {F P : Type} [Scalar F] [Scalar P] [Cvt P F]

/-- the record sections, collected (proved in Props/C11.lean). -/
theorem editor_reject_no_effect (st : Editor F) (line : Str) :
    (parseEditor st line).2 = false → (parseEditor st line).1 = st := C11.editor_reject_no_effect st line
theorem metadata_reject_no_effect (st : Metadata) (line : Str) :
    (parseMetadata st line).2 = false → (parseMetadata st line).1 = st := C11.metadata_reject_no_effect st line
theorem difficulty_reject_no_effect (st : DifficultyState F P) (line : Str) :
    (parseDifficulty st line).2 = false → (parseDifficulty st line).1 = st := C11.difficulty_reject_no_effect st line
theorem events_reject_no_effect (st : Events F) (line : Str) :
    (parseEvents st line).2 = false → (parseEvents st line).1 = st := C11.events_reject_no_effect st line
theorem colors_reject_no_effect (st : Colors) (line : Str) :
    (parseColors st line).2 = false → (parseColors st line).1 = st := C11.colors_reject_no_effect st line

/-! ### hit objects -/

/-- between lines the control-point buffer is empty. -/
def CleanScratch (st : HOCore F P) : Prop := st.curvePoints = []

theorem convertPathStr_fail_clean (sc : PathScratch P) (s : Str) (off : Pos P)
    (h : (convertPathStr F sc s off).2 = false) : (convertPathStr F sc s off).1.curvePoints = [] := by
  unfold convertPathStr at h ⊢
  split
  · rename_i heq; rw [heq] at h; cases h
  · rfl

theorem buildSlider_clean (mode : GameMode) (st : HOCore F P) (hd : Header F P) (h : st.curvePoints = []) :
    (buildSlider mode st hd).1.curvePoints = [] := by
  unfold buildSlider
  cases hp : (sliderPrelude hd : Option (SliderPrelude F)) with
  | none => exact h
  | some pre =>
    simp only []
    cases hc : convertPathStr F st.scratch pre.pointStr hd.pos with
    | mk sc ok =>
      cases ok with
      | false =>
        have := convertPathStr_fail_clean (F := F) st.scratch pre.pointStr hd.pos (by rw [hc])
        rw [hc] at this
        simpa [HOCore.withScratch] using this
      | true => simp [HOCore.withScratch]

/-- every line — accepted or rejected — leaves the control-point buffer empty again. -/
theorem parse_preserves_clean (mode : GameMode) (st : HOCore F P) (line : Str) (h : CleanScratch st) :
    CleanScratch (parseHitObjectLine mode st line).1 := by
  unfold CleanScratch at *
  unfold parseHitObjectLine
  cases (parseHeader line : Option (Header F P)) with
  | none => exact h
  | some hd =>
    simp only []
    cases classify (maskedType hd.ty0) with
    | none => exact h
    | some cls =>
      cases cls with
      | circle => simp only []; cases buildCircle st hd with
        | none => exact h
        | some kb => exact h
      | slider =>
        simp only []
        have hs := buildSlider_clean mode st hd h
        cases hb : buildSlider mode st hd with
        | mk st' r =>
          rw [hb] at hs
          cases r with
          | none => exact hs
          | some kb => exact hs
      | spinner => simp only []; cases buildSpinner hd with
        | none => exact h
        | some kb => exact h
      | hold => simp only []; cases buildHold hd with
        | none => exact h
        | some kb => exact h

/-- **rejected_no_trace** (hit objects): a rejected line leaves the objects, `last_object` and the
control-point buffer exactly as they were. -/
theorem rejected_no_trace (mode : GameMode) (st : HOCore F P) (line : Str) (h : CleanScratch st)
    (hrej : (parseHitObjectLine mode st line).2 = false) :
    (parseHitObjectLine mode st line).1.hitObjects = st.hitObjects ∧
    (parseHitObjectLine mode st line).1.lastObject = st.lastObject ∧
    (parseHitObjectLine mode st line).1.curvePoints = st.curvePoints := by
  have h1 := C14.rejected_keeps_objects mode st line hrej
  have h2 := parse_preserves_clean mode st line h
  unfold CleanScratch at h h2
  exact ⟨h1.1, h1.2, by rw [h2, h]⟩

/-- for every sequence of hit-object lines from the initial state the buffer is empty between lines, so
`rejected_no_trace` applies at every position of every file. -/
theorem clean_always (mode : GameMode) (ls : List Str) :
    CleanScratch (ls.foldl (fun s l => (parseHitObjectLine (F := F) (P := P) mode s l).1) {}) := by
  have : ∀ st : HOCore F P, CleanScratch st →
      CleanScratch (ls.foldl (fun s l => (parseHitObjectLine mode s l).1) st) := by
    induction ls with
    | nil => intro st h; exact h
    | cons l rest ih => intro st h; exact ih _ (parse_preserves_clean mode st l h)
  exact this {} rfl

/-! ### the scratch `vertices` is never read before it is overwritten -/

theorem cp_congr (cp v1 v2 : List (PathControlPoint P)) (pts : List Str) (ep : Option Str) (first : Bool) (off : Pos P) :
    (convertPoints F ⟨cp, v1⟩ pts ep first off).2 = (convertPoints F ⟨cp, v2⟩ pts ep first off).2 ∧
    (convertPoints F ⟨cp, v1⟩ pts ep first off).1.curvePoints = (convertPoints F ⟨cp, v2⟩ pts ep first off).1.curvePoints := by
  unfold convertPoints
  cases pts with
  | nil => simp
  | cons head tail =>
    cases readPoints F off tail with
    | none => simp
    | some vs1 =>
      dsimp only
      repeat' split
      all_goals first | exact ⟨rfl, rfl⟩ | simp

theorem loop_congr (pieces : List Str) (off : Pos P) (fuel : Nat) :
    ∀ (cp v1 v2 : List (PathControlPoint P)) (a b : Nat) (c : Bool),
    (pathLoop F pieces off fuel ⟨cp, v1⟩ a b c).1.curvePoints = (pathLoop F pieces off fuel ⟨cp, v2⟩ a b c).1.curvePoints ∧
    (pathLoop F pieces off fuel ⟨cp, v1⟩ a b c).2 = (pathLoop F pieces off fuel ⟨cp, v2⟩ a b c).2 := by
  induction fuel with
  | zero => intro cp v1 v2 a b c; exact ⟨rfl, rfl⟩
  | succ n ih =>
    intro cp v1 v2 a b c
    simp only [pathLoop]
    split
    · exact ⟨rfl, rfl⟩
    · split
      · exact ⟨rfl, rfl⟩
      · split
        · exact ⟨rfl, rfl⟩
        · exact ih cp v1 v2 a (b+1) c
        · have hc := cp_congr (F := F) cp v1 v2 ((pieces.drop a).take (b + 1 - a)) pieces[b + 1 + 1]? c off
          cases h1 : convertPoints F ⟨cp, v1⟩ ((pieces.drop a).take (b + 1 - a)) pieces[b + 1 + 1]? c off with
          | mk s1 ok1 =>
            cases h2 : convertPoints F ⟨cp, v2⟩ ((pieces.drop a).take (b + 1 - a)) pieces[b + 1 + 1]? c off with
            | mk s2 ok2 =>
              rw [h1, h2] at hc
              simp only at hc
              obtain ⟨hok, hcp⟩ := hc
              subst hok
              cases ok1 with
              | false => exact ⟨hcp, rfl⟩
              | true =>
                obtain ⟨c1, w1⟩ := s1
                obtain ⟨c2, w2⟩ := s2
                simp only at hcp
                subst hcp
                exact ih c1 w1 w2 (b+1) (b+1) false

theorem pathStr_congr (cp v1 v2 : List (PathControlPoint P)) (s : Str) (off : Pos P) :
    (convertPathStr F ⟨cp, v1⟩ s off).1.curvePoints = (convertPathStr F ⟨cp, v2⟩ s off).1.curvePoints ∧
    (convertPathStr F ⟨cp, v1⟩ s off).2 = (convertPathStr F ⟨cp, v2⟩ s off).2 := by
  have hseg : (convertSegments F ⟨cp, v1⟩ s off).1.curvePoints = (convertSegments F ⟨cp, v2⟩ s off).1.curvePoints ∧
      (convertSegments F ⟨cp, v1⟩ s off).2 = (convertSegments F ⟨cp, v2⟩ s off).2 := by
    unfold convertSegments
    dsimp only
    have hl := loop_congr (F := F) (splitOn '|' s) off ((splitOn '|' s).length + 1) cp v1 v2 0 0 true
    cases h1 : pathLoop F (splitOn '|' s) off ((splitOn '|' s).length + 1) ⟨cp, v1⟩ 0 0 true with
    | mk s1 r1 =>
      cases h2 : pathLoop F (splitOn '|' s) off ((splitOn '|' s).length + 1) ⟨cp, v2⟩ 0 0 true with
      | mk s2 r2 =>
        rw [h1, h2] at hl
        simp only at hl
        obtain ⟨hcp, hr⟩ := hl
        subst hr
        obtain ⟨ok, a, b, c⟩ := r1
        obtain ⟨c1, w1⟩ := s1
        obtain ⟨c2, w2⟩ := s2
        simp only at hcp
        subst hcp
        cases ok with
        | false => exact ⟨rfl, rfl⟩
        | true =>
          dsimp only
          split
          · have := cp_congr (F := F) c1 w1 w2 ((List.drop a (splitOn '|' s)).take (b - a)) none c off
            exact ⟨this.2, this.1⟩
          · exact ⟨rfl, rfl⟩
  unfold convertPathStr
  cases h1 : convertSegments F ⟨cp, v1⟩ s off with
  | mk s1 ok1 =>
    cases h2 : convertSegments F ⟨cp, v2⟩ s off with
    | mk s2 ok2 =>
      rw [h1, h2] at hseg
      simp only at hseg
      obtain ⟨hcp, hok⟩ := hseg
      subst hok
      cases ok1 <;> simp [hcp]

/-- the observable part of the hit-object state: everything except the scratch `vertices`. -/
def ObsEq (s t : HOCore F P) : Prop :=
  s.hitObjects = t.hitObjects ∧ s.lastObject = t.lastObject ∧ s.curvePoints = t.curvePoints

theorem buildSlider_congr (mode : GameMode) (s t : HOCore F P) (hd : Header F P) (h : ObsEq s t) :
    ObsEq (buildSlider mode s hd).1 (buildSlider mode t hd).1 ∧ (buildSlider mode s hd).2 = (buildSlider mode t hd).2 := by
  obtain ⟨h1, h2, h3⟩ := h
  unfold buildSlider
  cases (sliderPrelude hd : Option (SliderPrelude F)) with
  | none => exact ⟨⟨h1, h2, h3⟩, rfl⟩
  | some pre =>
    dsimp only
    have hc := pathStr_congr (F := F) s.curvePoints s.vertices t.vertices pre.pointStr hd.pos
    have hs : s.scratch = ⟨s.curvePoints, s.vertices⟩ := rfl
    have ht : t.scratch = ⟨s.curvePoints, t.vertices⟩ := by simp [HOCore.scratch, h3]
    rw [hs, ht]
    cases e1 : convertPathStr F ⟨s.curvePoints, s.vertices⟩ pre.pointStr hd.pos with
    | mk sc1 ok1 =>
      cases e2 : convertPathStr F ⟨s.curvePoints, t.vertices⟩ pre.pointStr hd.pos with
      | mk sc2 ok2 =>
        rw [e1, e2] at hc
        simp only at hc
        obtain ⟨hcp, hok⟩ := hc
        subst hok
        have hfn : forcedNewCombo s hd.ty0 = forcedNewCombo t hd.ty0 := by
          simp [forcedNewCombo, lastWasSpinner, h2]
        cases ok1 with
        | false => exact ⟨⟨h1, h2, hcp⟩, rfl⟩
        | true =>
          refine ⟨⟨h1, h2, rfl⟩, ?_⟩
          simp [hcp, hfn]

/-- the parser never looks at the scratch `vertices`: states that agree on the observable part give
the same verdict and observably equal successor states. -/
theorem parse_congr (mode : GameMode) (s t : HOCore F P) (line : Str) (h : ObsEq s t) :
    ObsEq (parseHitObjectLine mode s line).1 (parseHitObjectLine mode t line).1 ∧
    (parseHitObjectLine mode s line).2 = (parseHitObjectLine mode t line).2 := by
  have h' := h
  obtain ⟨h1, h2, h3⟩ := h
  unfold parseHitObjectLine
  cases (parseHeader line : Option (Header F P)) with
  | none => exact ⟨h', rfl⟩
  | some hd =>
    dsimp only
    cases classify (maskedType hd.ty0) with
    | none => exact ⟨h', rfl⟩
    | some cls =>
      have hfn : forcedNewCombo s hd.ty0 = forcedNewCombo t hd.ty0 := by
        simp [forcedNewCombo, lastWasSpinner, h2]
      cases cls with
      | circle =>
        dsimp only
        have : buildCircle s hd = buildCircle t hd := by simp [buildCircle, hfn]
        rw [this]
        cases buildCircle t hd with
        | none => exact ⟨h', rfl⟩
        | some kb => exact ⟨⟨by simp [pushObject, h1], rfl, h3⟩, rfl⟩
      | slider =>
        dsimp only
        have hb := buildSlider_congr mode s t hd h'
        cases e1 : buildSlider mode s hd with
        | mk s1 r1 =>
          cases e2 : buildSlider mode t hd with
          | mk s2 r2 =>
            rw [e1, e2] at hb
            simp only at hb
            obtain ⟨⟨g1, g2, g3⟩, hr⟩ := hb
            subst hr
            cases r1 with
            | none => exact ⟨⟨g1, g2, g3⟩, rfl⟩
            | some kb => exact ⟨⟨by simp [pushObject, g1], rfl, g3⟩, rfl⟩
      | spinner =>
        dsimp only
        cases buildSpinner hd with
        | none => exact ⟨h', rfl⟩
        | some kb => exact ⟨⟨by simp [pushObject, h1], rfl, h3⟩, rfl⟩
      | hold =>
        dsimp only
        cases buildHold hd with
        | none => exact ⟨h', rfl⟩
        | some kb => exact ⟨⟨by simp [pushObject, h1], rfl, h3⟩, rfl⟩

/-- running a list of hit-object lines. -/
def runLines (mode : GameMode) (st : HOCore F P) (ls : List Str) : HOCore F P :=
  ls.foldl (fun s x => (parseHitObjectLine mode s x).1) st

theorem runLines_congr (mode : GameMode) (ls : List Str) (s t : HOCore F P) (h : ObsEq s t) :
    ObsEq (runLines mode s ls) (runLines mode t ls) := by
  induction ls generalizing s t with
  | nil => exact h
  | cons l rest ih => exact ih _ _ (parse_congr mode s t l h).1

/-- **rejected_line_absent** (hit objects): if the parser rejects line `l` in the context it is met
in, then the file with `l` erased yields observably the same hit-object state — same objects, same
`last_object`, same (empty) control-point buffer — whatever follows. -/
theorem rejected_line_absent (mode : GameMode) (a b : List Str) (l : Str)
    (hrej : (parseHitObjectLine (F := F) (P := P) mode (runLines mode {} a) l).2 = false) :
    ObsEq (runLines (F := F) (P := P) mode {} (a ++ l :: b)) (runLines mode {} (a ++ b)) := by
  have hc : CleanScratch (runLines (F := F) (P := P) mode {} a) := clean_always mode a
  have hn := rejected_no_trace mode _ l hc hrej
  unfold runLines at *
  rw [List.foldl_append, List.foldl_append, List.foldl_cons]
  exact runLines_congr mode b _ _ ⟨hn.1, hn.2.1, hn.2.2⟩

end Rosu.C06
