import RosuModel.Model.TimingDecode
import RosuModel.Props.C13
namespace Rosu.C12
end Rosu.C12
