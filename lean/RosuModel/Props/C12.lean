/-
  Props/C12.lean — timing-point lines resolve by the legacy precedence rules.
  Theorems only; the models are Model/TimingDecode.lean, Model/General.lean, Model/ControlPoints.lean.

  Law-free theorems hold for every `[Scalar F]` (so for the IEEE instance). Three facts about floats are
  needed and taken as explicit hypotheses where used:
  * `sameGroup t t = true` for the times of accepted lines (|t − t| < ε; true for finite IEEE values,
    and accepted times are finite: `parse_num` bounds them by ±(2³¹−1) and rejects NaN);
  * `ClampLaws lo hi` for the three clamp ranges (`lo ≤ hi`, `<` irreflexive on the two bounds);
  * `NaN < 0` is false.
-/
import RosuModel.Model.TimingDecode
import RosuModel.Props.C13
namespace Rosu.C12
open Rosu
set_option linter.unusedSectionVars false

variable {F P : Type} [Scalar F]

/-! ## 1. what one line says (`line_fields`) -/

/-- volume clamp `[0, 100]` (integer). -/
theorem clampVolume_range (v : Int) : 0 ≤ clampVolume v ∧ clampVolume v ≤ 100 := by
  unfold clampVolume
  split
  · omega
  · split <;> omega

/-- inversion of the field parser: an accepted raw line determines each local of
`parse_timing_points` from the corresponding field. -/
theorem parseTpRaw_ok {g : GeneralState F P} {a b : Str} {rest : List Str} {r : TpLine F}
    (h : parseTpRaw g (a :: b :: rest) = .ok r) :
    ∃ (time beatLen : F) (ts : TimeSignature) (ssn cn vn : Option Int) (flags : Bool × Bool),
      (scalarParse a : Except NumErr F) = .ok time ∧
      (parseBeatLen b : Except TpErr F) = .ok beatLen ∧
      parseTimeSignature rest[0]? = .ok ts ∧
      optI32 rest[1]? = .ok ssn ∧ optI32 rest[2]? = .ok cn ∧ optI32 rest[3]? = .ok vn ∧
      parseEffectFlags rest[5]? = .ok flags ∧
      r = { time := time, beatLen := beatLen,
            speedMultiplier := if Scalar.lt beatLen (0 : F) then (100 : F) / (-beatLen) else 1,
            timeSignature := ts,
            sampleSet :=
              if (ssn.bind SampleBank.ofInt).getD g.defaultSampleBank == SampleBank.none then SampleBank.normal
              else (ssn.bind SampleBank.ofInt).getD g.defaultSampleBank,
            customSampleBank := cn.getD 0,
            sampleVolume := vn.getD g.defaultSampleVolume,
            timingChange := (match rest[4]? with
              | none => true
              | some next => next.head? == some '1'),
            kiai := flags.1, omitFirstBarLine := flags.2 } := by
  unfold parseTpRaw at h
  cases h1 : (scalarParse a : Except NumErr F) with
  | error e => simp [h1] at h
  | ok time =>
  cases h2 : (parseBeatLen b : Except TpErr F) with
  | error e => simp [h1, h2] at h
  | ok beatLen =>
  cases h3 : parseTimeSignature rest[0]? with
  | error e => simp [h1, h2, h3] at h
  | ok ts =>
  cases h4 : optI32 rest[1]? with
  | error e => simp [h1, h2, h3, h4] at h
  | ok ssn =>
  cases h5 : optI32 rest[2]? with
  | error e => simp [h1, h2, h3, h4, h5] at h
  | ok cn =>
  cases h6 : optI32 rest[3]? with
  | error e => simp [h1, h2, h3, h4, h5, h6] at h
  | ok vn =>
  cases h7 : parseEffectFlags rest[5]? with
  | error e => simp [h1, h2, h3, h4, h5, h6, h7] at h
  | ok flags =>
  simp only [h1, h2, h3, h4, h5, h6, h7] at h
  exact ⟨time, beatLen, ts, ssn, cn, vn, flags, rfl, rfl, rfl, rfl, rfl, rfl, rfl, (Except.ok.inj h).symm⟩

/-- **line_fields** (defaults): a line that gives only time and beat length is a timing change in
4/4 with the section defaults (`None` sample set reads as `Normal`), custom bank 0, no kiai, no
omitted bar line. -/
theorem line_fields_defaults {g : GeneralState F P} {a b : Str} {r : TpLine F}
    (h : parseTpRaw g [a, b] = .ok r) :
    r.timeSignature = TimeSignature.simpleQuadruple ∧
    r.sampleSet = (if g.defaultSampleBank == SampleBank.none then SampleBank.normal else g.defaultSampleBank) ∧
    r.customSampleBank = 0 ∧ r.sampleVolume = g.defaultSampleVolume ∧
    r.timingChange = true ∧ r.kiai = false ∧ r.omitFirstBarLine = false := by
  obtain ⟨time, beatLen, ts, ssn, cn, vn, flags, _, _, h3, h4, h5, h6, h7, rfl⟩ := parseTpRaw_ok h
  simp [parseTimeSignature, optI32, parseEffectFlags] at h3 h4 h5 h6 h7
  subst h3 h4 h5 h6 h7
  simp

/-- **line_fields** (timing change): the seventh field decides by its first character only; when it is
absent the line is a timing change. -/
theorem line_fields_timing_change {g : GeneralState F P} {a b : Str} {rest : List Str} {r : TpLine F}
    (h : parseTpRaw g (a :: b :: rest) = .ok r) :
    (rest[4]? = none → r.timingChange = true) ∧
    (∀ next, rest[4]? = some next → r.timingChange = (next.head? == some '1')) := by
  obtain ⟨time, beatLen, ts, ssn, cn, vn, flags, _, _, _, _, _, _, _, rfl⟩ := parseTpRaw_ok h
  constructor
  · intro hn; simp [hn]
  · intro next hn; simp [hn]

/-- **line_fields** (sample set): the stored sample set is never `None` — `0`, an absent field with a
`None` section default, and an unknown number with such a default all read as `Normal`. -/
theorem line_fields_sample_set {g : GeneralState F P} {a b : Str} {rest : List Str} {r : TpLine F}
    (h : parseTpRaw g (a :: b :: rest) = .ok r) : r.sampleSet ≠ SampleBank.none := by
  obtain ⟨time, beatLen, ts, ssn, cn, vn, flags, _, _, _, _, _, _, _, rfl⟩ := parseTpRaw_ok h
  simp only
  split
  · decide
  · rename_i hne; intro heq; rw [heq] at hne; exact hne rfl

/-- **line_fields** (omitted trailing fields, one by one). -/
theorem line_fields_omitted {g : GeneralState F P} {a b : Str} {rest : List Str} {r : TpLine F}
    (h : parseTpRaw g (a :: b :: rest) = .ok r) :
    (rest[0]? = none → r.timeSignature = TimeSignature.simpleQuadruple) ∧
    (rest[2]? = none → r.customSampleBank = 0) ∧
    (rest[3]? = none → r.sampleVolume = g.defaultSampleVolume) ∧
    (rest[5]? = none → r.kiai = false ∧ r.omitFirstBarLine = false) := by
  obtain ⟨time, beatLen, ts, ssn, cn, vn, flags, _, _, h3, _, h5, h6, h7, rfl⟩ := parseTpRaw_ok h
  refine ⟨?_, ?_, ?_, ?_⟩
  · intro hn; rw [hn] at h3; simp [parseTimeSignature] at h3; simp [h3]
  · intro hn; rw [hn] at h5; simp [optI32] at h5; simp [← h5]
  · intro hn; rw [hn] at h6; simp [optI32] at h6; simp [← h6]
  · intro hn; rw [hn] at h7; simp [parseEffectFlags] at h7; simp [← h7]

/-- **line_fields** (volume): the sample point of any line has its volume within `[0, 100]`. -/
theorem line_fields_volume (l : TpLine F) :
    0 ≤ l.samplePoint.sampleVolume ∧ l.samplePoint.sampleVolume ≤ 100 :=
  clampVolume_range _

/-- fewer than two fields: `InvalidLine`. -/
theorem line_fields_too_short (g : GeneralState F P) (fs : List Str) (h : fs.length < 2) :
    (parseTpRaw g fs : Except TpErr (TpLine F)) = .error .invalidLine := by
  match fs, h with
  | [], _ => rfl
  | [_], _ => rfl

/-! ## 2. NaN beat lengths -/

/-- the one float law the NaN clause needs: a NaN is not `< 0`. -/
def NaNLaw (F : Type) [Scalar F] : Prop := ∀ x : F, Scalar.isNaN x = true → Scalar.lt x (0 : F) = false

/-- **nan_only_inherited**: a line whose fields all parse and whose beat length is NaN is accepted iff
it is not a timing change (a timing change fails with `TimingControlPointNaN`, before any mutation). -/
theorem nan_only_inherited {g : GeneralState F P} {line : Str} {r : TpLine F}
    (h : parseTpRaw g (splitOn ',' (trimComment line)) = .ok r) (hn : Scalar.isNaN r.beatLen = true) :
    (r.timingChange = false → parseTpFields g line = .ok r) ∧
    (r.timingChange = true → parseTpFields g line = .error .timingControlPointNaN) := by
  unfold parseTpFields
  rw [h]
  constructor <;> intro ht <;> simp [checkNaN, ht, hn]

/-- … and then tick generation is off and the slider velocity is what `clamp` makes of `1`. -/
theorem nan_inherited_point (law : NaNLaw F) {g : GeneralState F P} {fields : List Str} {r : TpLine F}
    (h : parseTpRaw g fields = .ok r) (hn : Scalar.isNaN r.beatLen = true) :
    r.difficultyPoint.generateTicks = false ∧
    r.difficultyPoint.sliderVelocity = Scalar.clamp (1 : F) (0.1 : F) (10 : F) ∧
    r.speedMultiplier = 1 := by
  match fields, h with
  | a :: b :: rest, h =>
    obtain ⟨time, beatLen, ts, ssn, cn, vn, flags, _, _, _, _, _, _, _, rfl⟩ := parseTpRaw_ok h
    have hlt : Scalar.lt beatLen (0 : F) = false := law _ hn
    simp only at hn
    simp [TpLine.difficultyPoint, DifficultyPoint.new, hn, hlt]

/-- a non-NaN line passes the NaN test whatever its kind. -/
theorem checkNaN_of_not_nan (l : TpLine F) (hn : Scalar.isNaN l.beatLen = false) : checkNaN l = .ok l := by
  simp [checkNaN, hn]

/-! ## 3. the pending group is the declarative group rule (`pending_eq_groups`) -/

section Groups
variable [Scalar P]

/-- what one accepted line does to the four pending slots. -/
def stepPending (mode : GameMode) (pd : Pending F) (l : TpLine F) : Pending F :=
  { timing := if l.timingChange then pushSlot pd.timing l.timingPoint true else pd.timing,
    difficulty := pushSlot pd.difficulty l.difficultyPoint l.timingChange,
    effect := pushSlot pd.effect (l.effectPoint mode) l.timingChange,
    sample := pushSlot pd.sample l.samplePoint l.timingChange }

theorem maybeFlush_same {st : TimingPointsState F P} {t : F} (h : sameGroup t st.pendingTime = true) :
    maybeFlush st t = st := by simp [maybeFlush, h]

theorem maybeFlush_diff {st : TimingPointsState F P} {t : F} (h : sameGroup t st.pendingTime = false) :
    maybeFlush st t = flushPendingPoints st := by simp [maybeFlush, h]

/-- `applyTpLine` never touches the `[General]` part. -/
theorem applyTpLine_general (st : TimingPointsState F P) (l : TpLine F) :
    (applyTpLine st l).general = st.general := by
  unfold applyTpLine addTimingCP addDifficultyCP addSampleCP addEffectCP maybeFlush flushPendingPoints
  simp only []
  repeat' split
  all_goals rfl

/-- one accepted line, as a step of the group machine: if the time moved (by `≥ ε`) the open group is
flushed first; then the line enters the open group. Needs only `|t − t| < ε` for the line's own time. -/
theorem applyTpLine_eq (st : TimingPointsState F P) (l : TpLine F)
    (hrefl : sameGroup l.time l.time = true) :
    applyTpLine st l =
      if sameGroup l.time st.pendingTime then
        { st with pending := stepPending st.general.mode st.pending l, pendingTime := l.time }
      else
        { st with controlPoints := flushInto st.controlPoints st.pending,
                  pending := stepPending st.general.mode Pending.empty l, pendingTime := l.time } := by
  cases hs : sameGroup l.time st.pendingTime <;> cases ht : l.timingChange <;>
    simp [applyTpLine, addTimingCP, addDifficultyCP, addSampleCP, addEffectCP, maybeFlush, hs, ht, hrefl,
      flushPendingPoints, stepPending, Pending.empty, pushSlot]

/-! ### the declarative side -/

/-- cut a list of accepted lines into groups: a line whose time is within `ε` of the *previous
accepted line* continues that line's group, any other line opens a new one. The first component is
the continuation of the group `prev` belongs to (empty when the first line does not continue it). -/
def groupsFrom (prev : F) : List (TpLine F) → List (TpLine F) × List (List (TpLine F))
  | [] => ([], [])
  | l :: rest =>
    let r := groupsFrom l.time rest
    if sameGroup l.time prev then (l :: r.1, r.2) else ([], (l :: r.1) :: r.2)

/-- the groups of a line sequence read from time `prev` on (the decoder starts with `prev = 0`). An empty
first group contributes nothing (`addGroup_nil`). -/
def groupsOf (prev : F) (ls : List (TpLine F)) : List (List (TpLine F)) :=
  (groupsFrom prev ls).1 :: (groupsFrom prev ls).2

/-- the last inherited (non-timing-change) line of a group. -/
def lastInherited (g : List (TpLine F)) : Option (TpLine F) :=
  (g.filter (fun l => !l.timingChange)).getLast?

/-- the first timing-change line of a group. -/
def firstTiming (g : List (TpLine F)) : Option (TpLine F) :=
  (g.filter (fun l => l.timingChange)).head?

/-- per kind (difficulty, effect, sample): the last inherited line wins over timing-change lines, the
first timing-change line wins among those. -/
def winner (g : List (TpLine F)) : Option (TpLine F) :=
  match lastInherited g with
  | some l => some l
  | none => firstTiming g

/-- the points a group contributes: a timing point from its first timing-change line (inherited lines
carry none), the other three kinds from its `winner`. -/
def resolve (mode : GameMode) (g : List (TpLine F)) : Pending F :=
  { timing := (firstTiming g).map (·.timingPoint),
    difficulty := (winner g).map (·.difficultyPoint),
    effect := (winner g).map (·.effectPoint mode),
    sample := (winner g).map (·.samplePoint) }

/-- a resolved group enters the collection through `add`, in the order timing, difficulty, effect,
sample (redundancy and replacement are `add`'s, see C13). -/
def addGroup (mode : GameMode) (cp : ControlPoints F) (g : List (TpLine F)) : ControlPoints F :=
  flushInto cp (resolve mode g)

theorem addGroup_nil (mode : GameMode) (cp : ControlPoints F) : addGroup mode cp [] = cp := rfl

/-! ### slots -/

/-- **push_front_keeps_first**: a timing-change line never displaces a pending point. -/
theorem push_front_keeps_first {α : Type} (q p : α) : pushSlot (some q) p true = some q := rfl

/-- … and fills an empty slot. -/
theorem push_front_fills_empty {α : Type} (p : α) : pushSlot none p true = some p := rfl

/-- **push_back_takes_last** / **inherited_overrides_timing**: an inherited line always displaces what is pending. -/
theorem push_back_takes_last {α : Type} (s : Option α) (p : α) : pushSlot s p false = some p := rfl

/-- a slot fed by every line of a group (difficulty, effect, sample). -/
theorem foldl_slot_all {α : Type} (f : TpLine F → α) (g : List (TpLine F)) (s0 : Option α) :
    g.foldl (fun s l => pushSlot s (f l) l.timingChange) s0 =
      match lastInherited g with
      | some l => some (f l)
      | none => (match s0 with
                 | some q => some q
                 | none => (firstTiming g).map f) := by
  induction g generalizing s0 with
  | nil => cases s0 <;> rfl
  | cons l rest ih =>
    rw [List.foldl_cons, ih]
    cases ht : l.timingChange
    · -- inherited line
      have hl : lastInherited (l :: rest) = some ((lastInherited rest).getD l) := by
        simp [lastInherited, List.filter_cons, ht, List.getLast?_cons]
      rw [hl]
      cases lastInherited rest <;> simp [pushSlot]
    · have hl : lastInherited (l :: rest) = lastInherited rest := by
        simp [lastInherited, List.filter_cons, ht]
      have hf : firstTiming (l :: rest) = some l := by
        simp [firstTiming, List.filter_cons, ht]
      rw [hl, hf]
      cases lastInherited rest <;> cases s0 <;> simp [pushSlot]

/-- the timing slot, fed by timing-change lines only. -/
theorem foldl_slot_timing {α : Type} (f : TpLine F → α) (g : List (TpLine F)) (s0 : Option α) :
    g.foldl (fun s l => if l.timingChange then pushSlot s (f l) true else s) s0 =
      match s0 with
      | some q => some q
      | none => (firstTiming g).map f := by
  induction g generalizing s0 with
  | nil => cases s0 <;> rfl
  | cons l rest ih =>
    rw [List.foldl_cons, ih]
    cases ht : l.timingChange
    · have hf : firstTiming (l :: rest) = firstTiming rest := by
        simp [firstTiming, List.filter_cons, ht]
      simp [hf]
    · have hf : firstTiming (l :: rest) = some l := by
        simp [firstTiming, List.filter_cons, ht]
      cases s0 <;> simp [pushSlot, hf]

theorem foldl_stepPending (mode : GameMode) (g : List (TpLine F)) (pd : Pending F) :
    g.foldl (stepPending mode) pd =
      { timing := g.foldl (fun s l => if l.timingChange then pushSlot s l.timingPoint true else s) pd.timing,
        difficulty := g.foldl (fun s l => pushSlot s l.difficultyPoint l.timingChange) pd.difficulty,
        effect := g.foldl (fun s l => pushSlot s (l.effectPoint mode) l.timingChange) pd.effect,
        sample := g.foldl (fun s l => pushSlot s l.samplePoint l.timingChange) pd.sample } := by
  induction g generalizing pd with
  | nil => rfl
  | cons l rest ih => rw [List.foldl_cons, ih]; rfl

/-- the pending slots after a whole group, started empty, are the group's `resolve`. -/
theorem group_pending_eq_resolve (mode : GameMode) (g : List (TpLine F)) :
    g.foldl (stepPending mode) Pending.empty = resolve mode g := by
  rw [foldl_stepPending]
  simp only [Pending.empty, foldl_slot_all, foldl_slot_timing, resolve, winner]
  cases lastInherited g <;> rfl

/-! ### refinement -/

/-- accepted lines, one after the other. -/
def runTpLines (st : TimingPointsState F P) (ls : List (TpLine F)) : TimingPointsState F P :=
  ls.foldl applyTpLine st

theorem runTpLines_general (st : TimingPointsState F P) (ls : List (TpLine F)) :
    (runTpLines st ls).general = st.general := by
  induction ls generalizing st with
  | nil => rfl
  | cons l rest ih => rw [runTpLines, List.foldl_cons, ← runTpLines, ih, applyTpLine_general]

/-- the state machine from an arbitrary state: the open group continues, later groups start empty. -/
theorem runTpLines_finish (st : TimingPointsState F P) (ls : List (TpLine F))
    (hrefl : ∀ l ∈ ls, sameGroup l.time l.time = true) :
    (runTpLines st ls).finish.2 =
      (groupsFrom st.pendingTime ls).2.foldl (addGroup st.general.mode)
        (flushInto st.controlPoints ((groupsFrom st.pendingTime ls).1.foldl (stepPending st.general.mode) st.pending)) := by
  induction ls generalizing st with
  | nil => rfl
  | cons l rest ih =>
    have hl := hrefl l (List.mem_cons_self ..)
    have hrest : ∀ l' ∈ rest, sameGroup l'.time l'.time = true :=
      fun l' h' => hrefl l' (List.mem_cons_of_mem _ h')
    rw [runTpLines, List.foldl_cons, ← runTpLines, ih _ hrest, applyTpLine_general, applyTpLine_eq st l hl,
      groupsFrom]
    cases hs : sameGroup l.time st.pendingTime
    · simp [addGroup, ← group_pending_eq_resolve]
    · simp

/-- the lines of a section, as texts: rejected lines change nothing. -/
def runStrs (st : TimingPointsState F P) (strs : List Str) : TimingPointsState F P :=
  strs.foldl (fun st s => (parseTimingPoints st s).2) st

/-- the accepted lines of a section (the `[General]` state only supplies defaults and is not changed by
timing-point lines). -/
def acceptedLines (g : GeneralState F P) (strs : List Str) : List (TpLine F) :=
  strs.filterMap (fun s => (parseTpFields g s).toOption)

theorem runStrs_eq_runTpLines (st : TimingPointsState F P) (strs : List Str) :
    runStrs st strs = runTpLines st (acceptedLines st.general strs) := by
  induction strs generalizing st with
  | nil => rfl
  | cons s rest ih =>
    rw [runStrs, List.foldl_cons, ← runStrs, ih]
    unfold parseTimingPoints
    cases h : parseTpFields st.general s with
    | error e => simp [acceptedLines, List.filterMap_cons, h, Except.toOption]
    | ok l => simp [acceptedLines, List.filterMap_cons, h, Except.toOption, runTpLines, applyTpLine_general]

omit [Scalar P] in
/-- **a rejected line leaves no trace** in the timing-point state (all `?` precede the first mutation). -/
theorem rejected_line_no_trace (st : TimingPointsState F P) (s : Str) (e : TpErr)
    (h : (parseTimingPoints st s).1 = .error e) : (parseTimingPoints st s).2 = st := by
  unfold parseTimingPoints at h ⊢
  cases hp : parseTpFields st.general s with
  | error e' => rfl
  | ok l => rw [hp] at h; cases h

/-- **pending_eq_groups**: decoding any sequence of lines from a state with no open group (a fresh state,
possibly after `[General]` lines) yields exactly the collection of the legacy model: the accepted lines
cut into groups, each group resolved per kind and added through `add`. -/
theorem pending_eq_groups (st0 : TimingPointsState F P) (h0 : st0.pending = Pending.empty) (strs : List Str)
    (hrefl : ∀ l ∈ acceptedLines st0.general strs, sameGroup l.time l.time = true) :
    (runStrs st0 strs).finish.2 =
      (groupsOf st0.pendingTime (acceptedLines st0.general strs)).foldl
        (addGroup st0.general.mode) st0.controlPoints := by
  rw [runStrs_eq_runTpLines, runTpLines_finish _ _ hrefl, h0, group_pending_eq_resolve, groupsOf,
    List.foldl_cons]
  rfl

end Groups

/-! ## 4. the collection is only ever changed through `add` (`flush_order`, `lists_strictly_sorted`, clamps) -/

section Invariant
variable [Scalar P]

/-- the `add` calls a flush makes, in order. -/
def pendingOps (pd : Pending F) : List (C13.Op F) :=
  (pd.timing.map C13.Op.timing).toList ++ (pd.difficulty.map C13.Op.difficulty).toList ++
  (pd.effect.map C13.Op.effect).toList ++ (pd.sample.map C13.Op.sample).toList

omit [Scalar P] in
/-- **flush_order**: a flush is the four public `add` calls timing, difficulty, effect, sample (those that
are pending), nothing else. -/
theorem flush_order (cp : ControlPoints F) (pd : Pending F) :
    flushInto cp pd = C13.applyOps cp (pendingOps pd) := by
  obtain ⟨t, d, e, s⟩ := pd
  cases t <;> cases d <;> cases e <;> cases s <;> rfl

/-- a predicate per kind of point. -/
structure PointPred (F : Type) where
  t : TimingPoint F → Prop
  d : DifficultyPoint F → Prop
  e : EffectPoint F → Prop
  s : SamplePoint F → Prop

/-- every stored point satisfies `Q`. -/
structure CpAll (Q : PointPred F) (cp : ControlPoints F) : Prop where
  t : ∀ p ∈ cp.timingPoints, Q.t p
  d : ∀ p ∈ cp.difficultyPoints, Q.d p
  e : ∀ p ∈ cp.effectPoints, Q.e p
  s : ∀ p ∈ cp.samplePoints, Q.s p

/-- every pending point satisfies `Q`. -/
structure PdAll (Q : PointPred F) (pd : Pending F) : Prop where
  t : ∀ p, pd.timing = some p → Q.t p
  d : ∀ p, pd.difficulty = some p → Q.d p
  e : ∀ p, pd.effect = some p → Q.e p
  s : ∀ p, pd.sample = some p → Q.s p

/-- the state invariant: sorted lists, and `Q` on everything stored or pending. -/
structure Inv (Q : PointPred F) (st : TimingPointsState F P) : Prop where
  sorted : C13.Sorted st.controlPoints
  cp : CpAll Q st.controlPoints
  pd : PdAll Q st.pending

/-- `Q` on the point an operation carries. -/
def OpAll (Q : PointPred F) : C13.Op F → Prop
  | .timing p => Q.t p
  | .difficulty p => Q.d p
  | .effect p => Q.e p
  | .sample p => Q.s p

omit [Scalar P] in
theorem cpAll_apply {Q : PointPred F} {cp : ControlPoints F} (h : CpAll Q cp) (op : C13.Op F)
    (hop : OpAll Q op) : CpAll Q (C13.apply cp op) := by
  cases op with
  | timing p =>
    refine ⟨?_, h.d, h.e, h.s⟩
    intro q hq
    rcases C13.mem_insertOrReplace hq with rfl | hq
    · exact hop
    · exact h.t q hq
  | difficulty p =>
    show CpAll Q (cp.addDifficulty p)
    unfold ControlPoints.addDifficulty
    split
    · exact h
    · refine ⟨h.t, ?_, h.e, h.s⟩
      intro q hq
      rcases C13.mem_insertOrReplace hq with rfl | hq
      · exact hop
      · exact h.d q hq
  | effect p =>
    show CpAll Q (cp.addEffect p)
    unfold ControlPoints.addEffect
    split
    · exact h
    · refine ⟨h.t, h.d, ?_, h.s⟩
      intro q hq
      rcases C13.mem_insertOrReplace hq with rfl | hq
      · exact hop
      · exact h.e q hq
  | sample p =>
    show CpAll Q (cp.addSample p)
    unfold ControlPoints.addSample
    split
    · exact h
    · refine ⟨h.t, h.d, h.e, ?_⟩
      intro q hq
      rcases C13.mem_insertOrReplace hq with rfl | hq
      · exact hop
      · exact h.s q hq

omit [Scalar P] in
theorem cpAll_applyOps {Q : PointPred F} {cp : ControlPoints F} (h : CpAll Q cp) (ops : List (C13.Op F))
    (hops : ∀ op ∈ ops, OpAll Q op) : CpAll Q (C13.applyOps cp ops) := by
  induction ops generalizing cp with
  | nil => exact h
  | cons op rest ih =>
    exact ih (cpAll_apply h op (hops op (List.mem_cons_self ..)))
      (fun o ho => hops o (List.mem_cons_of_mem _ ho))

omit [Scalar P] in
theorem cpAll_flushInto {Q : PointPred F} {cp : ControlPoints F} {pd : Pending F}
    (h : CpAll Q cp) (hp : PdAll Q pd) : CpAll Q (flushInto cp pd) := by
  rw [flush_order]
  apply cpAll_applyOps h
  intro op hop
  simp only [pendingOps, List.mem_append, Option.mem_toList, Option.map_eq_some_iff] at hop
  rcases hop with ((⟨p, hp', rfl⟩ | ⟨p, hp', rfl⟩) | ⟨p, hp', rfl⟩) | ⟨p, hp', rfl⟩
  · exact hp.t p hp'
  · exact hp.d p hp'
  · exact hp.e p hp'
  · exact hp.s p hp'

theorem pdAll_empty (Q : PointPred F) : PdAll Q (Pending.empty : Pending F) :=
  ⟨fun _ h => (by cases h), fun _ h => (by cases h), fun _ h => (by cases h), fun _ h => (by cases h)⟩

theorem pushSlot_cases {α : Type} (s : Option α) (p : α) (tc : Bool) :
    pushSlot s p tc = some p ∨ pushSlot s p tc = s := by
  cases tc <;> cases s <;> simp [pushSlot]

theorem inv_maybeFlush {Q : PointPred F} {st : TimingPointsState F P} (h : Inv Q st) (t : F) :
    Inv Q (maybeFlush st t) := by
  unfold maybeFlush
  split
  · exact h
  · refine ⟨?_, cpAll_flushInto h.cp h.pd, pdAll_empty Q⟩
    show C13.Sorted (flushInto st.controlPoints st.pending)
    rw [flush_order]; exact C13.applyOps_sorted h.sorted _

theorem inv_addTimingCP {Q : PointPred F} {st : TimingPointsState F P} (h : Inv Q st) (t : F)
    (p : TimingPoint F) (tc : Bool) (hp : Q.t p) : Inv Q (addTimingCP st t p tc) := by
  have h' := inv_maybeFlush h t
  refine ⟨h'.sorted, h'.cp, ⟨?_, h'.pd.d, h'.pd.e, h'.pd.s⟩⟩
  intro q hq
  rcases pushSlot_cases (maybeFlush st t).pending.timing p tc with hc | hc
  · have : some p = some q := by rw [← hc]; exact hq
    cases this; exact hp
  · exact h'.pd.t q (by rw [← hc]; exact hq)

theorem inv_addDifficultyCP {Q : PointPred F} {st : TimingPointsState F P} (h : Inv Q st) (t : F)
    (p : DifficultyPoint F) (tc : Bool) (hp : Q.d p) : Inv Q (addDifficultyCP st t p tc) := by
  have h' := inv_maybeFlush h t
  refine ⟨h'.sorted, h'.cp, ⟨h'.pd.t, ?_, h'.pd.e, h'.pd.s⟩⟩
  intro q hq
  rcases pushSlot_cases (maybeFlush st t).pending.difficulty p tc with hc | hc
  · have : some p = some q := by rw [← hc]; exact hq
    cases this; exact hp
  · exact h'.pd.d q (by rw [← hc]; exact hq)

theorem inv_addSampleCP {Q : PointPred F} {st : TimingPointsState F P} (h : Inv Q st) (t : F)
    (p : SamplePoint F) (tc : Bool) (hp : Q.s p) : Inv Q (addSampleCP st t p tc) := by
  have h' := inv_maybeFlush h t
  refine ⟨h'.sorted, h'.cp, ⟨h'.pd.t, h'.pd.d, h'.pd.e, ?_⟩⟩
  intro q hq
  rcases pushSlot_cases (maybeFlush st t).pending.sample p tc with hc | hc
  · have : some p = some q := by rw [← hc]; exact hq
    cases this; exact hp
  · exact h'.pd.s q (by rw [← hc]; exact hq)

theorem inv_addEffectCP {Q : PointPred F} {st : TimingPointsState F P} (h : Inv Q st) (t : F)
    (p : EffectPoint F) (tc : Bool) (hp : Q.e p) : Inv Q (addEffectCP st t p tc) := by
  have h' := inv_maybeFlush h t
  refine ⟨h'.sorted, h'.cp, ⟨h'.pd.t, h'.pd.d, ?_, h'.pd.s⟩⟩
  intro q hq
  rcases pushSlot_cases (maybeFlush st t).pending.effect p tc with hc | hc
  · have : some p = some q := by rw [← hc]; exact hq
    cases this; exact hp
  · exact h'.pd.e q (by rw [← hc]; exact hq)

theorem general_maybeFlush (st : TimingPointsState F P) (t : F) : (maybeFlush st t).general = st.general := by
  unfold maybeFlush; split <;> rfl

/-- the four points of a line satisfy `Q` (the timing point only matters for a timing change). -/
structure LineAll (Q : PointPred F) (mode : GameMode) (l : TpLine F) : Prop where
  t : l.timingChange = true → Q.t l.timingPoint
  d : Q.d l.difficultyPoint
  e : Q.e (l.effectPoint mode)
  s : Q.s l.samplePoint

theorem inv_applyTpLine {Q : PointPred F} {st : TimingPointsState F P} (h : Inv Q st) (l : TpLine F)
    (hl : LineAll Q st.general.mode l) : Inv Q (applyTpLine st l) := by
  unfold applyTpLine
  simp only
  have h1 : Inv Q (if l.timingChange = true then addTimingCP st l.time l.timingPoint l.timingChange else st) := by
    split
    · rename_i ht; exact inv_addTimingCP h _ _ _ (hl.t ht)
    · exact h
  have g1 : (if l.timingChange = true then addTimingCP st l.time l.timingPoint l.timingChange else st).general
      = st.general := by
    split
    · exact general_maybeFlush st _
    · rfl
  have h2 := inv_addDifficultyCP h1 l.time l.difficultyPoint l.timingChange hl.d
  have h3 := inv_addSampleCP h2 l.time l.samplePoint l.timingChange hl.s
  have g3 : (addSampleCP (addDifficultyCP (if l.timingChange = true then
      addTimingCP st l.time l.timingPoint l.timingChange else st) l.time l.difficultyPoint l.timingChange)
      l.time l.samplePoint l.timingChange).general = st.general := by
    show (maybeFlush _ _).general = _
    rw [general_maybeFlush]
    show (maybeFlush _ _).general = _
    rw [general_maybeFlush, g1]
  have h4 := inv_addEffectCP h3 l.time (l.effectPoint st.general.mode) l.timingChange hl.e
  rw [g3]
  exact ⟨h4.sorted, h4.cp, h4.pd⟩

theorem inv_runTpLines {Q : PointPred F} {st : TimingPointsState F P} (h : Inv Q st) (ls : List (TpLine F))
    (hl : ∀ l ∈ ls, LineAll Q st.general.mode l) : Inv Q (runTpLines st ls) := by
  induction ls generalizing st with
  | nil => exact h
  | cons l rest ih =>
    rw [runTpLines, List.foldl_cons, ← runTpLines]
    apply ih (inv_applyTpLine h l (hl l (List.mem_cons_self ..)))
    rw [applyTpLine_general]
    exact fun l' h' => hl l' (List.mem_cons_of_mem _ h')

theorem inv_finish {Q : PointPred F} {st : TimingPointsState F P} (h : Inv Q st) :
    C13.Sorted st.finish.2 ∧ CpAll Q st.finish.2 := by
  refine ⟨?_, cpAll_flushInto h.cp h.pd⟩
  show C13.Sorted (flushInto st.controlPoints st.pending)
  rw [flush_order]; exact C13.applyOps_sorted h.sorted _

theorem inv_create (Q : PointPred F) : Inv Q (TimingPointsState.create : TimingPointsState F P) :=
  ⟨C13.empty_sorted, ⟨fun _ h => (by cases h), fun _ h => (by cases h), fun _ h => (by cases h), fun _ h => (by cases h)⟩,
   pdAll_empty Q⟩

/-- `parse_general` does not touch the timing-point part of the state. -/
theorem inv_parseGeneral {Q : PointPred F} {st : TimingPointsState F P} (h : Inv Q st) (line : Str) :
    Inv Q (st.parseGeneral line).2 := by
  unfold TimingPointsState.parseGeneral
  split <;> exact ⟨h.sorted, h.cp, h.pd⟩

/-- **lists_strictly_sorted**: whatever lines are fed — `[General]` lines and timing-point lines in any
interleaving, accepted or rejected — all four lists of the result are strictly increasing in the
`total_cmp` key (C13: hence one point per key). -/
theorem lists_strictly_sorted (st : TimingPointsState F P) (h : C13.Sorted st.controlPoints) (strs : List Str) :
    C13.Sorted (runStrs st strs).finish.2 := by
  let Q : PointPred F := ⟨fun _ => True, fun _ => True, fun _ => True, fun _ => True⟩
  have hinv : Inv Q st := ⟨h, ⟨fun _ _ => trivial, fun _ _ => trivial, fun _ _ => trivial, fun _ _ => trivial⟩,
    ⟨fun _ _ => trivial, fun _ _ => trivial, fun _ _ => trivial, fun _ _ => trivial⟩⟩
  rw [runStrs_eq_runTpLines]
  exact (inv_finish (inv_runTpLines hinv _ (fun _ _ => ⟨fun _ => trivial, trivial, trivial, trivial⟩))).1

theorem lists_strictly_sorted_fresh (strs : List Str) :
    C13.Sorted (runStrs (TimingPointsState.create : TimingPointsState F P) strs).finish.2 :=
  lists_strictly_sorted _ C13.empty_sorted strs

omit [Scalar P] in
/-- a group enters the collection through the public `add` only — so C13's `add_*_eq` (a point
repeating the values active at its time is dropped), `replace_at_equal_time*` (a point at an
existing time replaces it) and `add_sorted` apply to every group verbatim. -/
theorem addGroup_eq_ops (mode : GameMode) (cp : ControlPoints F) (g : List (TpLine F)) :
    addGroup mode cp g = C13.applyOps cp (pendingOps (resolve mode g)) := flush_order _ _

/-! ### clamps -/

/-- what `clamp x lo hi` needs of `<` to land in the range: `lo ≤ hi`, and `<` irreflexive on the two
bounds. (True of IEEE `<` for the three literal ranges; not kernel-checkable, `Float` is opaque.) -/
structure ClampLaws (lo hi : F) : Prop where
  lo_le_hi : Scalar.lt hi lo = false
  irrefl_lo : Scalar.lt lo lo = false
  irrefl_hi : Scalar.lt hi hi = false

/-- `y` is not below `lo` and not above `hi` (for a non-NaN `y` under IEEE: `lo ≤ y ≤ hi`). -/
def Within (lo hi y : F) : Prop := Scalar.lt y lo = false ∧ Scalar.lt hi y = false

omit [Scalar P] in
/-- `f64::clamp` lands in the range and returns `x` or one of the bounds. -/
theorem clamp_within {lo hi : F} (law : ClampLaws lo hi) (x : F) :
    Within lo hi (Scalar.clamp x lo hi) ∧
    (Scalar.clamp x lo hi = x ∨ Scalar.clamp x lo hi = lo ∨ Scalar.clamp x lo hi = hi) := by
  unfold Scalar.clamp Within
  cases h1 : Scalar.lt x lo
  · cases h2 : Scalar.lt hi x
    · simp [h1, h2]
    · simp [h2, law.lo_le_hi, law.irrefl_hi]
  · simp [law.lo_le_hi, law.irrefl_lo]

/-- the three clamp ranges of the timing-point code. -/
structure TpClampLaws (F : Type) [Scalar F] : Prop where
  beat : ClampLaws (6 : F) (60000 : F)
  sv : ClampLaws (0.1 : F) (10 : F)
  scroll : ClampLaws (0.01 : F) (10 : F)

/-- beat length in `[6, 60000]`, slider velocity in `[0.1, 10]`, scroll speed in `[0.01, 10]` in taiko and
mania and exactly `1` elsewhere, volume in `[0, 100]`. -/
def clampPred (mode : GameMode) : PointPred F :=
  { t := fun p => Within (6 : F) (60000 : F) p.beatLen,
    d := fun p => Within (0.1 : F) (10 : F) p.sliderVelocity,
    e := fun p => if mode == GameMode.taiko || mode == GameMode.mania
                  then Within (0.01 : F) (10 : F) p.scrollSpeed else p.scrollSpeed = 1,
    s := fun p => 0 ≤ p.sampleVolume ∧ p.sampleVolume ≤ 100 }

omit [Scalar P] in
theorem line_clamped (laws : TpClampLaws F) (mode : GameMode) (l : TpLine F) :
    LineAll (clampPred mode) mode l := by
  refine ⟨fun _ => (clamp_within laws.beat _).1, (clamp_within laws.sv _).1, ?_, clampVolume_range _⟩
  show if mode == GameMode.taiko || mode == GameMode.mania
       then Within (0.01 : F) (10 : F) (l.effectPoint mode).scrollSpeed else (l.effectPoint mode).scrollSpeed = 1
  unfold TpLine.effectPoint
  split
  · exact (clamp_within laws.scroll _).1
  · rfl

/-- **clamps**: every point of the result respects its clamp, from any state that does (e.g. a fresh one,
possibly after `[General]` lines: `inv_create`, `inv_parseGeneral`). -/
theorem clamps (laws : TpClampLaws F) (st0 : TimingPointsState F P)
    (h0 : Inv (clampPred st0.general.mode) st0) (strs : List Str) :
    CpAll (clampPred st0.general.mode) (runStrs st0 strs).finish.2 := by
  rw [runStrs_eq_runTpLines]
  exact (inv_finish (inv_runTpLines h0 _ (fun l _ => line_clamped laws _ l))).2

/-- scroll speed stays `1` outside taiko / mania (needs no law). -/
theorem scroll_one_outside_taiko_mania (mode : GameMode) (l : TpLine F)
    (hm : (mode == GameMode.taiko || mode == GameMode.mania) = false) :
    (l.effectPoint mode).scrollSpeed = 1 := by
  simp [TpLine.effectPoint, hm, EffectPoint.new]

end Invariant

/-! ## 5. the laws are satisfiable, the hypotheses non-vacuous (toy instance `Z`, Lemmas/ToyScalar.lean) -/

section Examples

theorem z_sameGroup_refl (t : Z) : sameGroup t t = true := by
  show (!decide ((1 : Int) ≤ ((t.v - t.v).natAbs : Int))) = true
  simp

example : TpClampLaws Z := by
  refine ⟨⟨?_, ?_, ?_⟩, ⟨?_, ?_, ?_⟩, ⟨?_, ?_, ?_⟩⟩ <;> decide

example : NaNLaw Z := fun _ h => by cases h

def zline (t b : Int) (tc : Bool) (bank : SampleBank) : TpLine Z :=
  { time := ⟨t⟩, beatLen := ⟨b⟩, speedMultiplier := if b < 0 then ⟨100 / (-b)⟩ else ⟨1⟩,
    timeSignature := TimeSignature.simpleQuadruple, sampleSet := bank, customSampleBank := 0,
    sampleVolume := 100, timingChange := tc, kiai := false, omitFirstBarLine := false }

def exLines : List (TpLine Z) :=
  [zline 10 500 true .normal, zline 10 (-50) false .soft, zline 10 250 true .drum, zline 10 (-25) false .normal,
   zline 20 300 true .soft, zline 5 400 true .normal]

/-- three groups (times 10, 20, 5), the first with two timing-change and two inherited lines. -/
example : (groupsOf (0 : Z) exLines).map (·.length) = [0, 4, 1, 1] := by decide

/-- in the first group the *first* timing-change line gives the timing point (beat length 500, not 250)
and the *last* inherited line gives the others (slider velocity 100/25 = 4); the result is sorted by time
although the group at 5 came last. -/
example :
    let cp := (runTpLines (TimingPointsState.create : TimingPointsState Z Z) exLines).finish.2
    cp.timingPoints.map (fun p => (p.time.v, p.beatLen.v)) = [(5, 400), (10, 500), (20, 300)] ∧
    cp.difficultyPoints.map (fun p => (p.time.v, p.sliderVelocity.v)) = [(10, 4), (20, 1)] := by
  decide

example : ∀ l ∈ exLines, sameGroup l.time l.time = true := fun l _ => z_sameGroup_refl _

end Examples

end Rosu.C12
