/-
  Props/C11Full.lean — the module audited for C11: Props/C11Tables.lean (and what it imports) together with
  Props/C11Ieee.lean (the IEEE / real-analysis instantiations). All in namespace Rosu.C11.
-/
import RosuModel.Props.C11Tables
import RosuModel.Props.C11Ieee
