/-
  Props/C17Catmull.lean — C17, **Catmull-Rom clause: the chord-error bound** in exact real arithmetic (`P = F = ℝ`, the
  instance of Lemmas/RealScalar.lean). DESIGN.md 5.17 listed it as not proved ("catmull chord error", oracle bound
  `max|B''|/(8·50²)` per span).

  `approximate_catmull` / `catmull_subpath` (CATMULL_DETAIL = 50) sample the cubic of each span at `c/50` and `(c+1)/50`,
  `c = 0..49`, and the emitted points are joined by straight segments.

  * `catmull_output_get`: over ℝ the call emits `100 (n − 1)` vertices; vertex `100 j + 2c` is `q_j(c/50)`, vertex
    `100 j + 2c + 1` is `q_j((c+1)/50)`, `q_j = catmullSpanExact pts j` the exact cubic of span `j` (control points
    `catmullCtl pts j`, Props/C17CatmullChord.lean); `catmullSpanExact_joint`: `q_j(1) = q_{j+1}(0)`.
  * **`catmull_within_bound_real`**: with the Euclidean distance (the model's own `Pos::distance`; `√`, not squared), for
    every span `j`: every `q_j(t)`, `t ∈ [0,1]`, is within `catmullSpanBound pts j = (1/50)²/8 · sup_{[0,1]} ‖q_j''‖` of a
    point of a chord of the emitted polyline, and every point of every chord `out[k] out[k+1]` of the emitted polyline is
    within `catmullSpanBound pts (k/100)` of a point of the exact curve of span `k/100` (same parameter in both directions).
    The bound is sharp for the same-parameter distance (`catmull_chord_error_sharp`).
  * non-vacuity: `squarePts = (0,0), (100,0), (100,100), (0,100)`: all three span bounds are `< 0.02` px
    (`squarePts_bounds`; the middle span: `catmullBound_example`, `≈ 0.0158`), and the headline applied end to end.

  Not covered: the osu!-mode simplification `catmullSimplify` applied afterwards by `calculate_subpath` (it removes
  vertices, which changes the polyline); IEEE arithmetic (rounding of the evaluation of the cubic).
-/
import RosuModel.Props.C17CatmullChord
set_option linter.unusedSectionVars false
set_option linter.unusedVariables false
namespace Rosu.C17
open Rosu Rosu.Curve Rosu.RealInst Rosu.ArcSagitta

-- numerals below are Mathlib's real numerals
attribute [-instance] Scalar.instOfNat Scalar.instOfScientific

/-! ### indexing a concatenation of blocks of constant length -/

theorem getElem?_flatMap_const {α β : Type} (f : α → List β) (m : Nat) (hf : ∀ a, (f a).length = m) :
    ∀ (L : List α) (j r : Nat), r < m → (L.flatMap f)[m * j + r]? = (L[j]?).bind fun a => (f a)[r]?
  | [], j, r, _ => by simp
  | a :: L, 0, r, hr => by
    rw [List.flatMap_cons, Nat.mul_zero, Nat.zero_add, List.getElem?_append_left (by rw [hf]; exact hr)]
    rfl
  | a :: L, j + 1, r, hr => by
    rw [List.flatMap_cons, List.getElem?_append_right (by rw [hf, Nat.mul_succ]; omega), hf,
      show m * (j + 1) + r - m = m * j + r by rw [Nat.mul_succ]; omega,
      getElem?_flatMap_const f m hf L j r hr]
    rfl

theorem length_flatMap_const {α β : Type} (f : α → List β) (m : Nat) (hf : ∀ a, (f a).length = m) :
    ∀ L : List α, (L.flatMap f).length = m * L.length
  | [] => by simp
  | a :: L => by
    rw [List.flatMap_cons, List.length_append, hf, length_flatMap_const f m hf L, List.length_cons, Nat.mul_succ]
    omega

/-! ### the emitted points of a whole Catmull segment -/

/-- the exact curve of span `j` of a Catmull segment with control points `pts` (control points as the code picks them:
`catmullCtl`). -/
noncomputable def catmullSpanExact (pts : List (Pos ℝ)) (j : Nat) (t : ℝ) : Pos ℝ :=
  catmullExactPos (catmullCtl pts j).1 (catmullCtl pts j).2.1 (catmullCtl pts j).2.2.1 (catmullCtl pts j).2.2.2 t

/-- the bound `h²/8 · M` of span `j`. -/
noncomputable def catmullSpanBound (pts : List (Pos ℝ)) (j : Nat) : ℝ :=
  catmullBound (catmullCtl pts j).1 (catmullCtl pts j).2.1 (catmullCtl pts j).2.2.1 (catmullCtl pts j).2.2.2

theorem catmullSpanPts_real (pts : List (Pos ℝ)) (j : Nat) :
    catmullSpanPts pts j = (List.range 50).flatMap fun (c : Nat) =>
      [catmullSpanExact pts j ((c : ℝ) / 50), catmullSpanExact pts j (((c : ℝ) + 1) / 50)] := by
  unfold catmullSpanPts catmullSpanExact
  exact catmull_points_on_spline_real _ _ _ _

theorem catmullSpanPts_length (pts : List (Pos ℝ)) (j : Nat) : (catmullSpanPts pts j).length = 100 := by
  rw [catmullSpanPts_real, length_flatMap_const _ 2 (fun _ => rfl)]; simp

/-- the two points emitted for the step `c` of span `j`. -/
theorem catmullSpanPts_get (pts : List (Pos ℝ)) (j c : Nat) (hc : c < 50) :
    (catmullSpanPts pts j)[2 * c]? = some (catmullSpanExact pts j ((c : ℝ) / 50)) ∧
    (catmullSpanPts pts j)[2 * c + 1]? = some (catmullSpanExact pts j (((c : ℝ) + 1) / 50)) := by
  rw [catmullSpanPts_real]
  constructor
  · have := getElem?_flatMap_const (fun (c : Nat) =>
      [catmullSpanExact pts j ((c : ℝ) / 50), catmullSpanExact pts j (((c : ℝ) + 1) / 50)]) 2 (fun _ => rfl)
      (List.range 50) c 0 (by omega)
    rw [Nat.add_zero] at this
    rw [this, List.getElem?_range hc]; rfl
  · have := getElem?_flatMap_const (fun (c : Nat) =>
      [catmullSpanExact pts j ((c : ℝ) / 50), catmullSpanExact pts j (((c : ℝ) + 1) / 50)]) 2 (fun _ => rfl)
      (List.range 50) c 1 (by omega)
    rw [this, List.getElem?_range hc]; rfl

/-- **the emitted points of the whole segment** (over ℝ): `approximate_catmull` emits `100 (n − 1)` points; the points
`100 j + 2c` and `100 j + 2c + 1` are the exact curve of span `j` at `c/50` and `(c+1)/50`. -/
theorem catmull_output_get (pts out : List (Pos ℝ)) (h2 : 2 ≤ pts.length) (h : approximateCatmull pts = .ok out) :
    out.length = 100 * (pts.length - 1) ∧
    ∀ j c, j + 1 < pts.length → c < 50 →
      out[100 * j + 2 * c]? = some (catmullSpanExact pts j ((c : ℝ) / 50)) ∧
      out[100 * j + (2 * c + 1)]? = some (catmullSpanExact pts j (((c : ℝ) + 1) / 50)) := by
  rw [approximate_catmull_spans pts h2] at h
  cases h
  refine ⟨by rw [length_flatMap_const _ 100 (catmullSpanPts_length pts)]; simp, ?_⟩
  intro j c hj hc
  have hjr : (List.range (pts.length - 1))[j]? = some j := List.getElem?_range (by omega)
  rw [getElem?_flatMap_const _ 100 (catmullSpanPts_length pts) _ j (2 * c) (by omega),
    getElem?_flatMap_const _ 100 (catmullSpanPts_length pts) _ j (2 * c + 1) (by omega), hjr]
  exact catmullSpanPts_get pts j c hc

/-- consecutive spans share their joint: the curve of span `j` ends where the curve of span `j + 1` starts (at
`points[j + 1]`). -/
theorem catmullSpanExact_joint (pts : List (Pos ℝ)) (j : Nat) :
    catmullSpanExact pts j 1 = catmullSpanExact pts (j + 1) 0 := by
  have h1 := catmullExact_one (catmullCtl pts j).1 (catmullCtl pts j).2.1 (catmullCtl pts j).2.2.1
    (catmullCtl pts j).2.2.2
  have h0 := catmullExact_zero (catmullCtl pts (j + 1)).1 (catmullCtl pts (j + 1)).2.1 (catmullCtl pts (j + 1)).2.2.1
    (catmullCtl pts (j + 1)).2.2.2
  have e : (catmullCtl pts j).2.2.1 = (catmullCtl pts (j + 1)).2.1 := rfl
  rw [e, ← h0, ← toPair_catmullExactPos, ← toPair_catmullExactPos] at h1
  unfold catmullSpanExact
  have hx := congrArg Prod.fst h1
  have hy := congrArg Prod.snd h1
  simp only [toPair] at hx hy
  exact Pos.ext' hx hy

/-! ### the headline -/

theorem segAt_self (p : Pos ℝ) (l : ℝ) : segAt p p l = p := by
  unfold segAt
  apply Pos.ext' <;> simp only <;> ring

theorem distance_self (p : Pos ℝ) : Pos.distance ℝ p p = 0 := by
  rw [distance_eq_eDist]; unfold eDist sqDist; simp

/-- one chord of one span, with the model's own `Pos::distance`. -/
theorem catmull_chord_within_pos (pts : List (Pos ℝ)) (j c : Nat) (hc : c < 50) (l : ℝ) (hl0 : 0 ≤ l) (hl1 : l ≤ 1) :
    Pos.distance ℝ (catmullSpanExact pts j (((c : ℝ) + l) / 50))
        (segAt (catmullSpanExact pts j ((c : ℝ) / 50)) (catmullSpanExact pts j (((c : ℝ) + 1) / 50)) l) ≤
      catmullSpanBound pts j := by
  rw [distance_eq_eDist, toPair_segAt]
  exact catmull_chord_within _ _ _ _ c hc l hl0 hl1

/-- **`catmull_within_bound_real`** — C17, Catmull-Rom clause, exact real arithmetic (`P = F = ℝ`, Lemmas/RealScalar.lean).
For a Catmull segment with `n ≥ 2` control points `approximate_catmull` emits `100 (n − 1)` vertices `out`. Distances are
**Euclidean**, the model's own `Pos::distance` (`√((Δx)² + (Δy)²)`, `distance_eq_eDist`); the bound of span `j` is
`catmullSpanBound pts j = h²/8 · M_j`, `h = 1/50`, `M_j = sup_{[0,1]} ‖q_j''‖` (`catmullM`, `catmullAcc_le_M`,
`catmullM_attained`; `M_j ≤ ‖2v1 − 5v2 + 4v3 − v4‖ + 3‖−v1 + 3v2 − 3v3 + v4‖`: `catmullM_le_coeff`).

* **exact curve → path**: every point `q_j(t)`, `t ∈ [0,1]`, of the exact curve of every span `j` is within the bound
  of span `j` of a point of a chord `out[k] out[k+1]` of the emitted polyline (a chord of the same span, `k / 100 = j`);
* **path → exact curve**: every point of every chord `out[k] out[k+1]` of the emitted polyline (including the degenerate
  chords between the twice-emitted points and across the joints of spans) is within the bound of span `k / 100` of a point
  `q_{k/100}(t)`, `t ∈ [0,1]`, of the exact curve of that span.

In both directions the two points have the same parameter (`t = (c + l)/50` on chord `c` with weight `l`). -/
theorem catmull_within_bound_real (pts out : List (Pos ℝ)) (h2 : 2 ≤ pts.length)
    (h : approximateCatmull pts = .ok out) :
    out.length = 100 * (pts.length - 1) ∧
    (∀ j, j + 1 < pts.length → ∀ t, 0 ≤ t → t ≤ 1 →
      ∃ (k : Nat) (hk : k + 1 < out.length), k / 100 = j ∧ ∃ l, 0 ≤ l ∧ l ≤ 1 ∧
        Pos.distance ℝ (catmullSpanExact pts j t) (segAt (out[k]'(by omega)) (out[k + 1]'hk) l) ≤
          catmullSpanBound pts j) ∧
    (∀ (k : Nat) (hk : k + 1 < out.length), k / 100 + 1 < pts.length ∧ ∀ l, 0 ≤ l → l ≤ 1 →
      ∃ t, 0 ≤ t ∧ t ≤ 1 ∧
        Pos.distance ℝ (catmullSpanExact pts (k / 100) t) (segAt (out[k]'(by omega)) (out[k + 1]'hk) l) ≤
          catmullSpanBound pts (k / 100)) := by
  obtain ⟨hlen, hget⟩ := catmull_output_get pts out h2 h
  refine ⟨hlen, ?_, ?_⟩
  · -- exact curve → path
    intro j hj t ht0 ht1
    have hw0 : 0 ≤ 50 * t := by positivity
    let c : Nat := min ⌊50 * t⌋₊ 49
    have hc : c < 50 := by
      have : c ≤ 49 := min_le_right _ _
      omega
    have hct : (c : ℝ) ≤ 50 * t := by
      have hmin : c ≤ ⌊50 * t⌋₊ := min_le_left _ _
      exact le_trans (Nat.cast_le.mpr hmin) (Nat.floor_le hw0)
    have htc : 50 * t ≤ (c : ℝ) + 1 := by
      rcases le_total ⌊50 * t⌋₊ 49 with hc' | hc'
      · have : c = ⌊50 * t⌋₊ := min_eq_left hc'
        rw [this]; exact le_of_lt (Nat.lt_floor_add_one _)
      · have : c = 49 := min_eq_right hc'
        rw [this]; push_cast; linarith
    obtain ⟨g0, g1⟩ := hget j c hj hc
    have hk : 100 * j + 2 * c + 1 < out.length := by rw [hlen]; omega
    refine ⟨100 * j + 2 * c, hk, by omega, 50 * t - c, by linarith, by linarith, ?_⟩
    have e0 : out[100 * j + 2 * c]'(by omega) = catmullSpanExact pts j ((c : ℝ) / 50) :=
      (List.getElem_eq_iff (by omega)).2 g0
    have e1 : out[100 * j + 2 * c + 1]'hk = catmullSpanExact pts j (((c : ℝ) + 1) / 50) :=
      (List.getElem_eq_iff hk).2 g1
    rw [e0, e1]
    have := catmull_chord_within_pos pts j c hc (50 * t - c) (by linarith) (by linarith)
    rwa [show ((c : ℝ) + (50 * t - c)) / 50 = t by ring] at this
  · -- path → exact curve
    intro k hk
    have hj : k / 100 + 1 < pts.length := by rw [hlen] at hk; omega
    refine ⟨hj, ?_⟩
    intro l hl0 hl1
    have hkdecomp : k = 100 * (k / 100) + k % 100 := (Nat.div_add_mod k 100).symm
    have hr : k % 100 < 100 := Nat.mod_lt _ (by norm_num)
    rcases Nat.even_or_odd' (k % 100) with ⟨c, hc | hc⟩
    · -- a proper chord: `k = 100 j + 2c`
      have hc50 : c < 50 := by omega
      obtain ⟨g0, g1⟩ := hget (k / 100) c hj hc50
      have hk0 : 100 * (k / 100) + 2 * c = k := by omega
      have hk1 : 100 * (k / 100) + (2 * c + 1) = k + 1 := by omega
      rw [hk0] at g0
      rw [hk1] at g1
      have e0 : out[k]'(by omega) = catmullSpanExact pts (k / 100) ((c : ℝ) / 50) :=
        (List.getElem_eq_iff (by omega)).2 g0
      have e1 : out[k + 1]'hk = catmullSpanExact pts (k / 100) (((c : ℝ) + 1) / 50) :=
        (List.getElem_eq_iff hk).2 g1
      have hc' : (c : ℝ) + 1 ≤ 50 := by
        have : ((c + 1 : ℕ) : ℝ) ≤ ((50 : ℕ) : ℝ) := Nat.cast_le.mpr hc50
        push_cast at this; linarith
      have hc0 : (0 : ℝ) ≤ c := Nat.cast_nonneg c
      refine ⟨((c : ℝ) + l) / 50, by positivity, by rw [div_le_one (by norm_num)]; linarith, ?_⟩
      rw [e0, e1]
      exact catmull_chord_within_pos pts (k / 100) c hc50 l hl0 hl1
    · -- a degenerate chord: `k = 100 j + 2c + 1`, both ends are `q_j((c+1)/50)`
      have hc50 : c < 50 := by omega
      obtain ⟨_, g0⟩ := hget (k / 100) c hj hc50
      have hk0 : 100 * (k / 100) + (2 * c + 1) = k := by omega
      rw [hk0] at g0
      have e0 : out[k]'(by omega) = catmullSpanExact pts (k / 100) (((c : ℝ) + 1) / 50) :=
        (List.getElem_eq_iff (by omega)).2 g0
      have e1 : out[k + 1]'hk = catmullSpanExact pts (k / 100) (((c : ℝ) + 1) / 50) := by
        rcases Nat.lt_or_ge c 49 with h49 | h49
        · obtain ⟨g1, _⟩ := hget (k / 100) (c + 1) hj (by omega)
          have hk1 : 100 * (k / 100) + 2 * (c + 1) = k + 1 := by omega
          rw [hk1] at g1
          rw [(List.getElem_eq_iff hk).2 g1]
          push_cast; rfl
        · have hc49 : c = 49 := by omega
          have hj2 : k / 100 + 1 + 1 < pts.length := by rw [hlen] at hk; omega
          obtain ⟨g1, _⟩ := hget (k / 100 + 1) 0 hj2 (by norm_num)
          have hk1 : 100 * (k / 100 + 1) + 2 * 0 = k + 1 := by omega
          rw [hk1] at g1
          rw [(List.getElem_eq_iff hk).2 g1, hc49]
          have := catmullSpanExact_joint pts (k / 100)
          rw [show (((49 : ℕ) : ℝ) + 1) / 50 = 1 by norm_num, this]
          congr 1; norm_num
      have hc' : (c : ℝ) + 1 ≤ 50 := by
        have : ((c + 1 : ℕ) : ℝ) ≤ ((50 : ℕ) : ℝ) := Nat.cast_le.mpr hc50
        push_cast at this; linarith
      have hc0 : (0 : ℝ) ≤ c := Nat.cast_nonneg c
      refine ⟨((c : ℝ) + 1) / 50, by positivity, by rw [div_le_one (by norm_num)]; linarith, ?_⟩
      rw [e0, e1, segAt_self, distance_self]
      unfold catmullSpanBound
      exact catmullBound_nonneg _ _ _ _

/-! ### non-vacuity: a square -/

/-- the bound of the concrete span `(0,0), (100,0), (100,100), (0,100)` is below a tenth of a pixel (it is `≈ 0.0158`). -/
theorem catmullBound_example_lt_tenth :
    catmullBound ⟨0, 0⟩ ⟨100, 0⟩ ⟨100, 100⟩ ⟨0, 100⟩ < 1 / 10 :=
  lt_trans catmullBound_example.1 (by norm_num)

/-- the hypotheses of `catmull_chord_within` are satisfiable: chord `7`, its middle. -/
example : eDist (catmullExact ⟨0, 0⟩ ⟨100, 0⟩ ⟨100, 100⟩ ⟨0, 100⟩ (((7 : ℕ) + 1 / 2) / 50))
    (segPt (catmullExact ⟨0, 0⟩ ⟨100, 0⟩ ⟨100, 100⟩ ⟨0, 100⟩ (((7 : ℕ) : ℝ) / 50))
      (catmullExact ⟨0, 0⟩ ⟨100, 0⟩ ⟨100, 100⟩ ⟨0, 100⟩ ((((7 : ℕ) : ℝ) + 1) / 50)) (1 / 2)) < 1 / 10 :=
  lt_of_le_of_lt (catmull_chord_within _ _ _ _ 7 (by norm_num) (1 / 2) (by norm_num) (by norm_num))
    catmullBound_example_lt_tenth

/-- the control points of the non-vacuity example: a square. -/
noncomputable def squarePts : List (Pos ℝ) := [⟨0, 0⟩, ⟨100, 0⟩, ⟨100, 100⟩, ⟨0, 100⟩]

theorem squarePts_ctl :
    catmullCtl squarePts 0 = (⟨0, 0⟩, ⟨0, 0⟩, ⟨100, 0⟩, ⟨100, 100⟩) ∧
    catmullCtl squarePts 1 = (⟨0, 0⟩, ⟨100, 0⟩, ⟨100, 100⟩, ⟨0, 100⟩) ∧
    catmullCtl squarePts 2 = (⟨100, 0⟩, ⟨100, 100⟩, ⟨0, 100⟩, ⟨-100, 100⟩) := by
  refine ⟨rfl, rfl, ?_⟩
  show ((⟨100, 0⟩ : Pos ℝ), (⟨100, 100⟩ : Pos ℝ), (⟨0, 100⟩ : Pos ℝ), extrapolate (⟨0, 100⟩ : Pos ℝ) ⟨100, 100⟩) = _
  have : extrapolate (⟨0, 100⟩ : Pos ℝ) ⟨100, 100⟩ = ⟨-100, 100⟩ := by
    show (⟨(0 : ℝ) * ((2 : ℕ) : ℝ) - 100, (100 : ℝ) * ((2 : ℕ) : ℝ) - 100⟩ : Pos ℝ) = _
    apply Pos.ext' <;> norm_num
  rw [this]

theorem squarePts_bounds : ∀ j, j + 1 < squarePts.length → catmullSpanBound squarePts j < 2 / 100 := by
  intro j hj
  have hj' : j = 0 ∨ j = 1 ∨ j = 2 := by
    have : squarePts.length = 4 := rfl
    omega
  obtain ⟨c0, c1, c2⟩ := squarePts_ctl
  rcases hj' with rfl | rfl | rfl
  · unfold catmullSpanBound
    rw [c0, catmullBound_eq, div_lt_iff₀ (by norm_num)]
    unfold catmullM
    apply max_lt
    · unfold eNorm catmullAcc catmullAccCoord
      rw [Real.sqrt_lt' (by norm_num)]; norm_num
    · unfold eNorm catmullAcc catmullAccCoord
      rw [Real.sqrt_lt' (by norm_num)]; norm_num
  · unfold catmullSpanBound
    rw [c1]
    exact lt_trans catmullBound_example.1 (by norm_num)
  · unfold catmullSpanBound
    rw [c2, catmullBound_eq, div_lt_iff₀ (by norm_num)]
    unfold catmullM
    apply max_lt
    · unfold eNorm catmullAcc catmullAccCoord
      rw [Real.sqrt_lt' (by norm_num)]; norm_num
    · unfold eNorm catmullAcc catmullAccCoord
      rw [Real.sqrt_lt' (by norm_num)]; norm_num

/-- the hypotheses of `catmull_within_bound_real` are satisfiable, end to end: the square is accepted, `300` vertices are
emitted, and every point of the exact curve of the middle span (`(100,0) → (100,100)`) is less than `0.02` px from the
emitted polyline. -/
example : ∃ out, approximateCatmull squarePts = .ok out ∧ out.length = 300 ∧
    ∀ t, 0 ≤ t → t ≤ 1 → ∃ (k : Nat) (hk : k + 1 < out.length), ∃ l, 0 ≤ l ∧ l ≤ 1 ∧
      Pos.distance ℝ (catmullSpanExact squarePts 1 t) (segAt (out[k]'(by omega)) (out[k + 1]'hk) l) < 2 / 100 := by
  have h2 : 2 ≤ squarePts.length := by show 2 ≤ 4; norm_num
  refine ⟨_, approximate_catmull_spans squarePts h2, ?_, ?_⟩
  · exact (catmull_within_bound_real squarePts _ h2 (approximate_catmull_spans squarePts h2)).1
  · intro t ht0 ht1
    obtain ⟨k, hk, _, l, hl0, hl1, hd⟩ :=
      (catmull_within_bound_real squarePts _ h2 (approximate_catmull_spans squarePts h2)).2.1 1
        (by show 2 < 4; norm_num) t ht0 ht1
    exact ⟨k, hk, l, hl0, hl1, lt_of_le_of_lt hd (squarePts_bounds 1 (by show 2 < 4; norm_num))⟩

end Rosu.C17
