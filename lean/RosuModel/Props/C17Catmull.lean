import RosuModel.Props.C17ArcTol
import RosuModel.Lemmas.Outcome
set_option linter.unusedSectionVars false
set_option linter.unusedVariables false
namespace Rosu.C17
open Rosu Rosu.Curve Rosu.RealInst Rosu.ArcSagitta

/-! ### which control points each span uses (structural, every arithmetic) -/

section Structural
variable {P : Type} [Scalar P]

/-- the four control points `approximate_catmull` hands to `catmull_subpath` for span `j` (the piece from `points[j]` to
`points[j+1]`, `j + 1 < points.len()`): `v1 = points[j-1]` (`points[0]` for the first span: `v1 = v2`), `v2 = points[j]`,
`v3 = points[j+1]`, `v4 = points[j+2]`, or `v3 * 2.0 - v2` behind the last control point. -/
def catmullCtl (pts : List (Pos P)) (j : Nat) : Pos P × Pos P × Pos P × Pos P :=
  let v2 := pts[j]?.getD Pos.zero
  let v3 := pts[j + 1]?.getD Pos.zero
  (pts[j - 1]?.getD Pos.zero, v2, v3, match pts[j + 2]? with | some v => v | none => extrapolate v3 v2)

/-- the 100 points emitted for span `j`. -/
def catmullSpanPts (pts : List (Pos P)) (j : Nat) : List (Pos P) :=
  catmullSubpath (catmullCtl pts j).1 (catmullCtl pts j).2.1 (catmullCtl pts j).2.2.1 (catmullCtl pts j).2.2.2

theorem catmullRest_flatMap (pts : List (Pos P)) : ∀ L : List (Nat × (Pos P × Pos P)),
    catmullRest pts L = L.flatMap fun e =>
      catmullSubpath e.2.1 e.2.2
        (match pts[e.1]? with | some v => v | none => extrapolate e.2.2 e.2.1)
        (match pts[e.1 + 1]? with
          | some v => v
          | none => extrapolate (match pts[e.1]? with | some v => v | none => extrapolate e.2.2 e.2.1) e.2.2)
  | [] => rfl
  | (i, (v1, v2)) :: rest => by
    rw [catmullRest, List.flatMap_cons, catmullRest_flatMap pts rest]
    rfl

theorem catmull_zip_eq (pts : List (Pos P)) :
    (List.range' 2 (pts.length - 2)).zip (pts.zip (pts.drop 1)) =
      (List.range (pts.length - 2)).map fun k =>
        (k + 2, (pts[k]?.getD Pos.zero, pts[k + 1]?.getD Pos.zero)) := by
  apply List.ext_getElem?
  intro k
  by_cases hk : k < pts.length - 2
  · have h1 : (List.range' 2 (pts.length - 2))[k]? = some (2 + k) := by
      rw [List.getElem?_range' hk]; simp
    have h2 : (pts.zip (pts.drop 1))[k]? = some (pts[k]'(by omega), pts[k + 1]'(by omega)) := by
      rw [List.getElem?_zip_eq_some]
      refine ⟨List.getElem?_eq_getElem (by omega), ?_⟩
      rw [List.getElem?_drop, Nat.add_comm 1 k]
      exact List.getElem?_eq_getElem (by omega)
    have h3 : ((List.range' 2 (pts.length - 2)).zip (pts.zip (pts.drop 1)))[k]? =
        some (2 + k, (pts[k]'(by omega), pts[k + 1]'(by omega))) := by
      rw [List.getElem?_zip_eq_some]; exact ⟨h1, h2⟩
    rw [h3, List.getElem?_map, List.getElem?_range hk]
    simp only [Option.map_some, List.getElem?_eq_getElem (show k < pts.length by omega),
      List.getElem?_eq_getElem (show k + 1 < pts.length by omega), Option.getD_some, Nat.add_comm 2 k]
  · have hl : ((List.range' 2 (pts.length - 2)).zip (pts.zip (pts.drop 1))).length ≤ k := by
      simp only [List.length_zip, List.length_range', List.length_drop]; omega
    rw [List.getElem?_eq_none hl, List.getElem?_eq_none (by simp; omega)]

/-- **`approximate_catmull_spans`** (structural, every arithmetic): for two or more control points `approximate_catmull`
succeeds and emits, span after span (`j = 0 … len − 2`), `catmull_subpath` of the control points `catmullCtl pts j`. -/
theorem approximate_catmull_spans (pts : List (Pos P)) (h2 : 2 ≤ pts.length) :
    approximateCatmull pts = .ok ((List.range (pts.length - 1)).flatMap (catmullSpanPts pts)) := by
  unfold approximateCatmull
  rw [if_neg (by omega), usub_eq _ _ (by omega), Outcome.ok_bind, getI_eq pts 0 (by omega), Outcome.ok_bind]
  simp only [Outcome.pure_eq_ok]
  congr 1
  have hr : pts.length - 1 = (pts.length - 2) + 1 := by omega
  rw [hr, List.range_succ_eq_map, List.flatMap_cons, List.flatMap_map, catmull_zip_eq, catmullRest_flatMap,
    List.flatMap_map]
  have e0 : pts[0]? = some (pts[0]'(by omega)) := List.getElem?_eq_getElem (by omega)
  have e1 : pts[1]? = some (pts[1]'(by omega)) := List.getElem?_eq_getElem (by omega)
  congr 1
  · simp only [catmullSpanPts, catmullCtl, e0, e1, Option.getD_some, Nat.zero_sub, Nat.zero_add]
    rfl
  · apply List.flatMap_congr
    intro k hk
    rw [List.mem_range] at hk
    have ek : pts[k + 2]? = some (pts[k + 2]'(by omega)) := List.getElem?_eq_getElem (by omega)
    simp only [catmullSpanPts, catmullCtl, ek, Nat.succ_eq_add_one, Nat.add_sub_cancel, Option.getD_some,
      show k + 1 + 1 = k + 2 from rfl, show k + 1 + 2 = k + 2 + 1 from rfl]

end Structural

end Rosu.C17
