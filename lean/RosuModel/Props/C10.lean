/-
  Props/C10.lean — text encoding is transparent.
  Theorems only; model in Model/Utf.lean, Model/Reader.lean; helper lemmas in Lemmas/{LinesSpec,UtfSpec}.lean.
-/
import RosuModel.Lemmas.UtfSpec
namespace Rosu.C10
open Rosu

variable {σ : Type}

def utf8Bom : List UInt8 := [0xEF, 0xBB, 0xBF]
def utf16leBom : List UInt8 := [0xFF, 0xFE]
def utf16beBom : List UInt8 := [0xFE, 0xFF]

/-- the lines `read_line` yields on an in-memory byte stream (no BOM handling), and the error
ending the reading. -/
def linesOf (enc : Encoding) (bs : List UInt8) : List Str × Option IoKind := readAll enc (Sched.ofBytes bs)

theorem linesOf_eq (enc : Encoding) (bs : List UInt8) : linesOf enc bs = linesSpec enc none bs := by
  unfold linesOf
  rw [readAll_eq_spec]
  unfold Sched.ofBytes
  cases bs <;> simp [Sched.pre, Sched.firstFail]

/-! ### BOM handling of `from_bytes` -/

theorem fromBom_utf8 (x : List UInt8) : Encoding.fromBom (0xEF :: 0xBB :: 0xBF :: x) = (.utf8, 3) := rfl

theorem fromBom_le (x : List UInt8) : Encoding.fromBom (0xFF :: 0xFE :: x) = (.utf16le, 2) := by
  cases x <;> rfl

theorem fromBom_be (x : List UInt8) : Encoding.fromBom (0xFE :: 0xFF :: x) = (.utf16be, 2) := by
  cases x <;> rfl

theorem fromBom_none_utf8 (bs : List UInt8) (h : (Encoding.fromBom bs).2 = 0) : (Encoding.fromBom bs).1 = .utf8 := by
  unfold Encoding.fromBom at h ⊢
  split <;> simp_all

/-- `from_bytes` on at least three bytes: sniff, skip the BOM, read the lines, frame them. -/
theorem decodeBytes_ge3 (D : LineDecoder σ) (bs : List UInt8) (h : 3 ≤ bs.length) :
    decodeBytes D bs =
      match linesOf (Encoding.fromBom bs).1 (bs.drop (Encoding.fromBom bs).2) with
      | (_, some k) => .error k
      | (ls, none) => .ok (frame D ls) := by
  have hne : bs.isEmpty = false := by cases bs <;> simp_all
  have hb : bomOk (Sched.ofBytes bs) = true := by
    unfold Sched.ofBytes
    simp only [hne, Bool.false_eq_true, if_false, bomOk]
    have : bs.length ≠ 0 := by omega
    simp [this, h]
  unfold decodeBytes
  rw [decodeSched_spec D _ hb]
  have hp : Sched.pre (Sched.ofBytes bs) = bs := by unfold Sched.ofBytes; simp [hne, Sched.pre]
  have hf : Sched.firstFail (Sched.ofBytes bs) = none := by unfold Sched.ofBytes; simp [hne, Sched.firstFail]
  rw [hp, hf, linesOf_eq]
  unfold decodeSpec bomSpec
  simp only [hne, Bool.false_eq_true, if_false]
  rfl

theorem decodeBytes_nil (D : LineDecoder σ) : decodeBytes D [] = .ok (frame D []) := by
  rfl

/-! ### files too short to carry anything -/

theorem short_files_lose_content (D : LineDecoder σ) (bs : List UInt8) (h1 : 0 < bs.length) (h2 : bs.length < 3) :
    decodeBytes D bs = decodeBytes D [] := by
  have hne : bs.isEmpty = false := by cases bs <;> simp_all
  have h0 : bs.length ≠ 0 := by omega
  have h3 : ¬ bs.length ≥ 3 := by omega
  simp [decodeBytes, Sched.ofBytes, decodeSched, hne, readBom, h0, h3]

theorem beq_false_of_length_ne (a b : Str) (h : a.length ≠ b.length) : (a == b) = false := by
  cases hab : a == b with
  | false => rfl
  | true => have : a = b := by simpa using hab
            subst this; exact absurd rfl h

theorem ofName_short (n : Str) (h : n.length < 5) : Section.ofName n = none := by
  unfold Section.ofName
  have e : ∀ m : Str, 5 ≤ m.length → (n == m) = false := fun m hm => beq_false_of_length_ne n m (by omega)
  repeat' split
  all_goals first | rfl | (rename_i hh; rw [e _ (by decide)] at hh; cases hh)

theorem stripSuffixChar_length (c : Char) (s r : Str) (h : stripSuffixChar c s = some r) : r.length + 1 = s.length := by
  induction s generalizing r with
  | nil => simp [stripSuffixChar] at h
  | cons x xs ih =>
    cases xs with
    | nil =>
      simp only [stripSuffixChar] at h
      split at h
      · cases h; rfl
      · cases h
    | cons y ys =>
      simp only [stripSuffixChar] at h
      cases hs : stripSuffixChar c (y :: ys) with
      | none => simp [hs] at h
      | some r' =>
        simp [hs] at h
        subst h
        have := ih r' hs
        simp at this ⊢
        omega

theorem tryFromLine_short (l : Str) (h : l.length < 7) : Section.tryFromLine l = none := by
  unfold Section.tryFromLine
  cases l with
  | nil => rfl
  | cons c rest =>
    simp only []
    split
    · cases hs : stripSuffixChar ']' rest with
      | none => rfl
      | some name =>
        simp only []
        have := stripSuffixChar_length _ _ _ hs
        exact ofName_short name (by simp at h; omega)
    · rfl

theorem startsWith_short (l p : Str) (h : l.length < p.length) : startsWith l p = false := by
  induction l generalizing p with
  | nil => cases p <;> simp_all [startsWith]
  | cons c cs ih =>
    cases p with
    | nil => simp at h
    | cons q qs => simp [startsWith, ih qs (by simp at h; omega)]

theorem tryVersion_short (l : Str) (h : l.length < 7) : tryVersionFromLine l = if l.isEmpty then .cont else .bad := by
  unfold tryVersionFromLine
  rw [startsWith_short l versionPrefix (by have : versionPrefix.length = 17 := by decide
                                           omega)]
  simp

theorem findFirstSection_short (ls : List Str) (h : ∀ l ∈ ls, l.length < 7) : (findFirstSection ls).1 = none := by
  induction ls with
  | nil => rfl
  | cons l rest ih =>
    simp only [findFirstSection, tryFromLine_short l (h l (by simp))]
    exact ih (fun x hx => h x (by simp [hx]))

/-- a file all of whose lines are shorter than the shortest header carries nothing. -/
theorem frame_short (D : LineDecoder σ) (ls : List Str) (h : ∀ l ∈ ls, l.length < 7) :
    frame D ls = D.create latestVersion := by
  unfold frame
  have pv : ∀ ls : List Str, (∀ l ∈ ls, l.length < 7) →
      (parseVersion ls).1 = none ∧ (∀ l ∈ (parseVersion ls).2.2.2, l.length < 7) ∧ (parseVersion ls).2.2.1.length < 7 := by
    intro ls
    induction ls with
    | nil => intro _; simp [parseVersion]
    | cons l rest ih =>
      intro hh
      simp only [parseVersion, tryVersion_short l (hh l (by simp))]
      by_cases he : l.isEmpty = true
      · simp only [he, if_true]
        exact ih (fun x hx => hh x (by simp [hx]))
      · simp only [he, Bool.false_eq_true, if_false]
        exact ⟨trivial, fun x hx => hh x (by simp [hx]), hh l (by simp)⟩
  obtain ⟨p1, p2, p3⟩ := pv ls h
  cases hp : parseVersion ls with
  | mk v r1 =>
    obtain ⟨u, curr, rest⟩ := r1
    rw [hp] at p1 p2 p3
    simp only at p1 p2 p3
    subst p1
    simp only [Option.getD]
    have ff := findFirstSection_short rest p2
    unfold parseFirstSection
    cases u with
    | false =>
      simp only [Bool.false_eq_true, if_false]
      cases hf : findFirstSection rest with
      | mk o r => rw [hf] at ff; simp only at ff; subst ff; rfl
    | true =>
      simp only [if_true, tryFromLine_short curr p3]
      cases hf : findFirstSection rest with
      | mk o r => rw [hf] at ff; simp only at ff; subst ff; rfl

theorem linesBy_piece_length {α : Type} (p : α → Bool) (xs : List α) : ∀ l ∈ linesBy p xs, l.length ≤ xs.length := by
  induction xs with
  | nil => simp [linesBy]
  | cons a as ih =>
    intro l hl
    simp only [linesBy] at hl
    split at hl
    · simp only [List.mem_cons] at hl
      cases hl with
      | inl h => subst h; simp
      | inr h => have := ih l h; simp; omega
    · cases hL : linesBy p as with
      | nil => rw [hL] at hl; simp [consHead] at hl; subst hl; simp
      | cons l0 ls =>
        rw [hL] at hl ih
        simp only [consHead, List.mem_cons] at hl
        cases hl with
        | inl h => subst h; have := ih l0 (by simp); simp; omega
        | inr h => have := ih l (by simp [h]); simp; omega

theorem utf8LossyFuel_length (fuel : Nat) (bs : List UInt8) : (utf8LossyFuel fuel bs).length ≤ fuel := by
  induction fuel generalizing bs with
  | zero => simp [utf8LossyFuel]
  | succ n ih =>
    cases bs with
    | nil => simp [utf8LossyFuel]
    | cons b0 rest =>
      simp only [utf8LossyFuel]
      repeat' split
      all_goals simp only [List.length_cons, List.length_nil]
      all_goals first | omega | (apply Nat.succ_le_succ; exact ih _)

theorem trimEnd_length (s : Str) : (trimEnd s).length ≤ s.length := by
  induction s with
  | nil => simp [trimEnd]
  | cons c cs ih =>
    simp only [trimEnd]
    cases h : trimEnd cs with
    | nil => simp only []; split <;> simp
    | cons x xs => rw [h] at ih; simp at ih ⊢; omega

/-- no line is longer (in characters) than the file is (in bytes). -/
theorem utf8_line_length (bs : List UInt8) : ∀ l ∈ (linesOf .utf8 bs).1, l.length ≤ bs.length := by
  rw [linesOf_eq, linesSpec_rawLines .utf8 rfl]
  intro l hl
  simp only [List.mem_map] at hl
  obtain ⟨raw, hr, rfl⟩ := hl
  have h1 := linesBy_piece_length isLFb bs raw hr
  have h2 := utf8LossyFuel_length raw.length raw
  have h3 := trimEnd_length (utf8Lossy raw)
  simp only [currLine, Encoding.decode]
  unfold utf8Lossy at h3 ⊢
  omega

/-! ### (a) the UTF-8 BOM -/

/-- files of at least three bytes (or none); shorter ones: `utf8_bom_transparent_short`. -/
theorem utf8_bom_transparent_ge3 (D : LineDecoder σ) (bs : List UInt8)
    (hb : (Encoding.fromBom bs).2 = 0) (hl : 3 ≤ bs.length ∨ bs = []) :
    decodeBytes D (utf8Bom ++ bs) = decodeBytes D bs := by
  have e : decodeBytes D (utf8Bom ++ bs) =
      match linesOf .utf8 bs with
      | (_, some k) => .error k
      | (ls, none) => .ok (frame D ls) := by
    rw [decodeBytes_ge3 D _ (by simp [utf8Bom])]
    simp only [utf8Bom, List.cons_append, List.nil_append, fromBom_utf8, List.drop_succ_cons, List.drop_zero]
  rw [e]
  cases hl with
  | inl h3 =>
    rw [decodeBytes_ge3 D bs h3, hb, fromBom_none_utf8 bs hb, List.drop_zero]
  | inr h0 =>
    subst h0
    rw [decodeBytes_nil, linesOf_eq, linesSpec_nil]

/-- a file of one or two bytes: with a BOM in front its one or two characters reach the framing,
which finds neither version nor header in them; without, the BOM sniffing consumes them. Same outcome. -/
theorem utf8_bom_transparent_short (D : LineDecoder σ) (bs : List UInt8) (h2 : bs.length < 3) :
    decodeBytes D (utf8Bom ++ bs) = decodeBytes D bs := by
  have e : decodeBytes D (utf8Bom ++ bs) =
      match linesOf .utf8 bs with
      | (_, some k) => .error k
      | (ls, none) => .ok (frame D ls) := by
    rw [decodeBytes_ge3 D _ (by simp [utf8Bom])]
    simp only [utf8Bom, List.cons_append, List.nil_append, fromBom_utf8, List.drop_succ_cons, List.drop_zero] <;> rfl
  have hs : ∀ l ∈ (linesOf .utf8 bs).1, l.length < 7 := fun l hl => by
    have := utf8_line_length bs l hl; omega
  have hn : (linesOf .utf8 bs).2 = none := by rw [linesOf_eq, linesSpec_rawLines .utf8 rfl]
  rw [e]
  cases hl : linesOf .utf8 bs with
  | mk ls eo =>
    rw [hl] at hs hn
    simp only at hs hn
    subst hn
    simp only []
    rw [frame_short D ls hs]
    by_cases h0 : bs = []
    · subst h0; rw [decodeBytes_nil, frame_short D [] (by simp)]
    · rw [short_files_lose_content D bs (by cases bs <;> simp_all) h2, decodeBytes_nil, frame_short D [] (by simp)]

/-- **A UTF-8 BOM in front of a file changes nothing** — every file that does not itself start
with a byte-order mark (a second BOM is content). -/
theorem utf8_bom_transparent (D : LineDecoder σ) (bs : List UInt8) (hb : (Encoding.fromBom bs).2 = 0) :
    decodeBytes D (utf8Bom ++ bs) = decodeBytes D bs := by
  by_cases h3 : 3 ≤ bs.length
  · exact utf8_bom_transparent_ge3 D bs hb (Or.inl h3)
  · exact utf8_bom_transparent_short D bs (by omega)

example : (Encoding.fromBom [0x5B, 0x47, 0x5D, 0x0A]).2 = 0 ∧ 3 ≤ [0x5B, 0x47, 0x5D, (0x0A : UInt8)].length := by decide

/-! ### (b) UTF-16 -/

/-- no UTF-16 code unit of the text other than U+000A contains the byte 0x0A
(U+010A `Ċ`, U+0A00–U+0AFF, U+4E0A `上`, a low surrogate U+DC0A … are excluded). -/
def noStrayLF (t : Str) : Bool := (utf16Units t).all okUnit

theorem currLine_utf8 (l : Str) : currLine .utf8 (utf8Encode l) = trimEnd l := by
  simp [currLine, Encoding.decode, utf8Lossy_utf8Encode]

theorem currLine_utf16 (le : Bool) (l : Str) :
    currLine (if le then .utf16le else .utf16be) ((utf16Units l).flatMap (unitBytes le)) = trimEnd l := by
  cases le <;>
    simp [currLine, Encoding.decode, u16s_unitBytes _ _ (utf16Units_lt l), decodeUtf16_utf16Units]

/-- the text-level reading of a file: cut after every U+000A, trim the end of each line. -/
def textSpec (t : Str) : List Str × Option IoKind := ((textLines t).map trimEnd, none)

/-- UTF-8: the reader yields exactly the text's lines, for every text. -/
theorem utf8_lines (t : Str) : linesOf .utf8 (utf8Encode t) = textSpec t := by
  rw [linesOf_eq, linesSpec_rawLines _ rfl, rawLines_utf8Encode, List.map_map]
  unfold textSpec
  congr 1
  apply List.map_congr_left
  intro l _
  exact currLine_utf8 l

/-- UTF-16BE: the same lines, for texts without a stray 0x0A byte. -/
theorem utf16be_lines_partial (t : Str) (h : noStrayLF t = true) :
    linesOf .utf16be (encodeUtf16 false t) = textSpec t := by
  unfold encodeUtf16
  rw [linesOf_eq, linesSpec_rawLines _ rfl, rawLines_units _ h, linesBy_utf16Units, List.map_map, List.map_map]
  unfold textSpec
  congr 1
  apply List.map_congr_left
  intro l _
  exact currLine_utf16 false l

/-- UTF-16LE: the same lines and no `UnexpectedEof`, for texts without a stray 0x0A byte. -/
theorem utf16le_lines_partial (t : Str) (h : noStrayLF t = true) :
    linesOf .utf16le (encodeUtf16 true t) = textSpec t := by
  unfold encodeUtf16
  obtain ⟨hr, hd⟩ := rawLinesLE_units _ h
  obtain ⟨e2, e1⟩ := linesSpec_rawLinesLE ((utf16Units t).flatMap (unitBytes true))
  rw [linesOf_eq]
  rw [hd] at e2
  have e1' := e1 hd
  rw [hr, linesBy_utf16Units, List.map_map, List.map_map] at e1'
  unfold textSpec
  apply Prod.ext
  · rw [e1']
    apply List.map_congr_left
    intro l _
    exact currLine_utf16 true l
  · simpa using e2

/-- **C10, proved part (lines).** For every text none of whose UTF-16 code units other than U+000A
contains the byte 0x0A, the reader yields the same lines in UTF-8, UTF-16LE and UTF-16BE. -/
theorem utf16_lines_transparent_partial (t : Str) (h : noStrayLF t = true) :
    linesOf .utf16le (encodeUtf16 true t) = linesOf .utf8 (utf8Encode t) ∧
    linesOf .utf16be (encodeUtf16 false t) = linesOf .utf8 (utf8Encode t) := by
  rw [utf16le_lines_partial t h, utf16be_lines_partial t h, utf8_lines]
  exact ⟨rfl, rfl⟩

/-- **C10, proved part (`from_bytes`).** Same hypothesis; the UTF-8 form has at least three bytes
and does not start with U+FEFF (which *is* the BOM). The four encodings decode identically. -/
theorem utf16_transparent_partial (D : LineDecoder σ) (t : Str) (h : noStrayLF t = true)
    (h3 : 3 ≤ (utf8Encode t).length) (hb : (Encoding.fromBom (utf8Encode t)).2 = 0) :
    decodeBytes D (utf16leBom ++ encodeUtf16 true t) = decodeBytes D (utf8Encode t) ∧
    decodeBytes D (utf16beBom ++ encodeUtf16 false t) = decodeBytes D (utf8Encode t) ∧
    decodeBytes D (utf8Bom ++ utf8Encode t) = decodeBytes D (utf8Encode t) := by
  have hne : t ≠ [] := by intro e; subst e; simp [utf8Encode] at h3
  have hlen : ∀ le, 2 ≤ (encodeUtf16 le t).length := by
    intro le
    cases t with
    | nil => exact absurd rfl hne
    | cons c cs =>
      unfold encodeUtf16 utf16Units
      simp only [List.flatMap_cons, List.flatMap_append, List.length_append]
      have : 2 ≤ ((charUnits c).flatMap (unitBytes le)).length := by
        unfold charUnits
        split <;> cases le <;> simp [unitBytes]
      omega
  have r8 : decodeBytes D (utf8Encode t) =
      match textSpec t with
      | (_, some k) => .error k
      | (ls, none) => .ok (frame D ls) := by
    rw [decodeBytes_ge3 D _ h3, hb, fromBom_none_utf8 _ hb, List.drop_zero, utf8_lines]
  refine ⟨?_, ?_, utf8_bom_transparent_ge3 D _ hb (Or.inl h3)⟩
  · rw [r8, decodeBytes_ge3 D _ (by have := hlen true; simp [utf16leBom]; omega)]
    simp only [utf16leBom, List.cons_append, List.nil_append, fromBom_le, List.drop_succ_cons, List.drop_zero]
    rw [utf16le_lines_partial t h]
  · rw [r8, decodeBytes_ge3 D _ (by have := hlen false; simp [utf16beBom]; omega)]
    simp only [utf16beBom, List.cons_append, List.nil_append, fromBom_be, List.drop_succ_cons, List.drop_zero]
    rw [utf16be_lines_partial t h]

/-- non-vacuity: CJK, an astral character, U+2028 and U+3000 are fine. -/
example : noStrayLF (str "[General]\nTitle: 日本 😀 x　") = true ∧
    3 ≤ (utf8Encode (str "[General]\nTitle: 日本 😀 x　")).length ∧
    (Encoding.fromBom (utf8Encode (str "[General]\nTitle: 日本 😀 x　"))).2 = 0 := by decide

/-- the property as stated: every text. -/
def utf16_transparent_statement : Prop :=
  ∀ (σ : Type) (D : LineDecoder σ) (t : Str),
    decodeBytes D (utf16leBom ++ encodeUtf16 true t) = decodeBytes D (utf8Encode t) ∧
    decodeBytes D (utf16beBom ++ encodeUtf16 false t) = decodeBytes D (utf8Encode t)

def nCalls (r : Except IoKind Rec) : Nat :=
  match r with
  | .ok st => st.calls.length
  | .error _ => 0

/-- `[General]⏎aĊb` with U+010A. -/
def witnessText : Str := str "[General]\naĊb"

theorem witness_outcomes :
    nCalls (decodeBytes recorder (utf8Encode witnessText)) = 1 ∧
    nCalls (decodeBytes recorder (utf16leBom ++ encodeUtf16 true witnessText)) = 2 ∧
    nCalls (decodeBytes recorder (utf16beBom ++ encodeUtf16 false witnessText)) = 2 := by
  decide

/-- **The full statement is false of the code (finding F5)**: the line search looks for the
*byte* 0x0A, so U+010A cuts its line in two in both UTF-16 byte orders. -/
theorem utf16_transparent_false : ¬ utf16_transparent_statement := by
  intro h
  have e := (h Rec recorder witnessText).1
  have := witness_outcomes
  rw [e] at this
  omega

/-- and **finding F6**: the bytes `FF FE 0A` (a UTF-16LE file cut after the low byte of its last
line feed) make the decoder itself fail, with no reader fault anywhere. -/
theorem utf16le_dangling_lf_errors (D : LineDecoder σ) :
    decodeBytes D [0xFF, 0xFE, 0x0A] = .error .unexpectedEof := by
  rfl

/-! ### (c) invalid bytes stay on their line -/

/-- **What follows a line feed is read independently of what precedes it** (UTF-8 and UTF-16BE):
invalid bytes in `a` cannot affect the lines of `b`. -/
theorem lossy_line_local (enc : Encoding) (henc : (enc == Encoding.utf16le) = false) (a b : List UInt8) :
    linesOf enc (a ++ 0x0A :: b) =
      ((linesOf enc (a ++ [0x0A])).1 ++ (linesOf enc b).1, none) := by
  simp only [linesOf_eq, linesSpec_rawLines enc henc]
  unfold rawLines
  rw [linesBy_append_lf isLFb a 0x0A b rfl, List.map_append]

/-- the line the invalid bytes are on is the lossy conversion of exactly its own bytes. -/
theorem lossy_first_line (a b : List UInt8) (ha : ∀ x ∈ a, isLFb x = false) :
    (linesOf .utf8 (a ++ 0x0A :: b)).1 = trimEnd (utf8Lossy (a ++ [0x0A])) :: (linesOf .utf8 b).1 := by
  rw [lossy_line_local .utf8 rfl]
  simp only [linesOf_eq, linesSpec_rawLines .utf8 rfl]
  have : rawLines (a ++ [0x0A]) = [a ++ [0x0A]] := by
    unfold rawLines
    cases a with
    | nil => rfl
    | cons x xs =>
      rw [linesBy_append_nonLF isLFb (x :: xs) [0x0A] ha (by simp)]
      rfl
  simp [this, currLine, Encoding.decode]

/-! ### (d) the lossy decoders -/

/-- **valid UTF-8 decodes to itself**, for every text (all `Char`s are Unicode scalar values). -/
theorem utf8_valid_roundtrip (s : Str) : utf8Lossy (utf8Encode s) = s := utf8Lossy_utf8Encode s

/-- and so does valid UTF-16 in either byte order. -/
theorem utf16_valid_roundtrip (le : Bool) (s : Str) :
    decodeUtf16 (u16s le (encodeUtf16 le s)) = s := by
  unfold encodeUtf16
  rw [u16s_unitBytes _ _ (utf16Units_lt s), decodeUtf16_utf16Units]

/-- an ASCII byte is passed through, whatever follows. -/
theorem ascii_passthrough (b : UInt8) (rest : List UInt8) (h : b < 0x80) :
    utf8Lossy (b :: rest) = Char.ofNat b.toNat :: utf8Lossy rest := by
  simp [utf8Lossy, utf8LossyFuel, h]

/-- a byte that cannot start a sequence (0x80–0xC1, 0xF5–0xFF) is replaced by U+FFFD, alone. -/
theorem invalid_lead_replaced (b : UInt8) (rest : List UInt8)
    (h : (0x80 ≤ b ∧ b ≤ 0xC1) ∨ 0xF5 ≤ b) :
    utf8Lossy (b :: rest) = replacement :: utf8Lossy rest := by
  have h1 : ¬ b < 0x80 := by
    simp only [UInt8.lt_iff_toNat_lt, UInt8.le_iff_toNat_le, UInt8.toNat_ofNat] at h ⊢; omega
  have h2 : (0xC2 ≤ b && b ≤ 0xDF) = false := by
    simp only [Bool.and_eq_false_iff, decide_eq_false_iff_not, UInt8.le_iff_toNat_le, UInt8.toNat_ofNat] at h ⊢; omega
  have h3 : (0xE0 ≤ b && b ≤ 0xEF) = false := by
    simp only [Bool.and_eq_false_iff, decide_eq_false_iff_not, UInt8.le_iff_toNat_le, UInt8.toNat_ofNat] at h ⊢; omega
  have h4 : (0xF0 ≤ b && b ≤ 0xF4) = false := by
    simp only [Bool.and_eq_false_iff, decide_eq_false_iff_not, UInt8.le_iff_toNat_le, UInt8.toNat_ofNat] at h ⊢; omega
  simp [utf8Lossy, utf8LossyFuel, h1, h2, h3, h4]

/-- maximal-subpart replacement on the cases `String::from_utf8_lossy` documents: a truncated
sequence is one U+FFFD, an overlong or surrogate encoding one U+FFFD per byte, and decoding
resumes at the first byte that was not part of the invalid prefix. -/
theorem lossy_examples :
    utf8Lossy [0x20, 0xD1, 0x2C, 0x31] = [' ', replacement, ',', '1'] ∧
    utf8Lossy [0xE2, 0x82] = [replacement] ∧
    utf8Lossy [0xF0, 0x9F, 0x98, 0x41] = [replacement, 'A'] ∧
    utf8Lossy [0xC0, 0x80] = [replacement, replacement] ∧
    utf8Lossy [0xED, 0xA0, 0x80] = [replacement, replacement, replacement] ∧
    utf8Lossy [0xF4, 0x90, 0x80, 0x80] = [replacement, replacement, replacement, replacement] ∧
    utf8Lossy [0xE2, 0x82, 0xAC] = [Char.ofNat 0x20AC] := by
  decide

/-- **an unpaired low surrogate is replaced by U+FFFD**, alone. -/
theorem surrogate_replaced_low (u : Nat) (rest : List Nat) (h : isLow u = true) :
    decodeUtf16 (u :: rest) = replacement :: decodeUtf16 rest := by
  have : isHigh u = false := by
    simp only [isHigh, isLow, Bool.and_eq_true, decide_eq_true_eq, Bool.and_eq_false_iff,
      decide_eq_false_iff_not] at h ⊢; omega
  cases rest <;> simp [decodeUtf16, h, this]

/-- **a high surrogate not followed by a low one is replaced by U+FFFD**, and the unit after it
is decoded on its own. -/
theorem surrogate_replaced_high (u : Nat) (rest : List Nat) (h : isHigh u = true)
    (hn : ∀ u2 r, rest = u2 :: r → isLow u2 = false) :
    decodeUtf16 (u :: rest) = replacement :: decodeUtf16 rest := by
  have hl : isLow u = false := by
    simp only [isHigh, isLow, Bool.and_eq_true, decide_eq_true_eq, Bool.and_eq_false_iff,
      decide_eq_false_iff_not] at h ⊢; omega
  cases rest with
  | nil => simp [decodeUtf16, h]
  | cons u2 r => simp [decodeUtf16, h, hl, hn u2 r rfl]

/-- **unpaired surrogates are replaced by U+FFFD** (both kinds), one replacement per unit, and the
following unit is decoded on its own. -/
theorem surrogate_replaced (u : Nat) (rest : List Nat)
    (h : isLow u = true ∨ (isHigh u = true ∧ ∀ u2 r, rest = u2 :: r → isLow u2 = false)) :
    decodeUtf16 (u :: rest) = replacement :: decodeUtf16 rest := by
  cases h with
  | inl hl => exact surrogate_replaced_low u rest hl
  | inr hh => exact surrogate_replaced_high u rest hh.1 hh.2

/-- a well-formed pair is one astral character. -/
theorem surrogate_pair_decoded (u u2 : Nat) (rest : List Nat) (h : isHigh u = true) (h2 : isLow u2 = true) :
    decodeUtf16 (u :: u2 :: rest) =
      Char.ofNat (0x10000 + (u - 0xD800) * 1024 + (u2 - 0xDC00)) :: decodeUtf16 rest := by
  have hl : isLow u = false := by
    simp only [isHigh, isLow, Bool.and_eq_true, decide_eq_true_eq, Bool.and_eq_false_iff,
      decide_eq_false_iff_not] at h ⊢; omega
  rw [decodeUtf16_cons_pair u u2 rest h hl h2, Nat.shiftLeft_eq]

example : isLow 0xDC00 = true ∧ isHigh 0xD83D = true ∧ isLow 0x0041 = false := by decide

/-- **the odd trailing byte of a UTF-16 buffer is dropped.** -/
theorem odd_tail_dropped (le : Bool) (bs : List UInt8) (b : UInt8) (h : bs.length % 2 = 0) :
    u16s le (bs ++ [b]) = u16s le bs := by
  suffices hs : ∀ n, ∀ bs : List UInt8, bs.length = 2 * n → u16s le (bs ++ [b]) = u16s le bs from
    hs (bs.length / 2) bs (by omega)
  intro n
  induction n with
  | zero =>
    intro bs hl
    have : bs = [] := List.eq_nil_of_length_eq_zero (by omega)
    subst this; simp [u16s]
  | succ n ih =>
    intro bs hl
    match bs, hl with
    | x :: y :: r, hl =>
      simp only [List.cons_append, u16s]
      rw [ih r (by simp at hl; omega)]

example : u16s true [0x41, 0x00, 0x0A] = [0x41] := by decide

end Rosu.C10
