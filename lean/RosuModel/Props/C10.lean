/-
  Props/C10.lean — text encoding is transparent.
  Theorems only; model in Model/Utf.lean, Model/Reader.lean; helper lemmas in Lemmas/{LinesSpec,UtfSpec}.lean.
-/
import RosuModel.Lemmas.UtfSpec
namespace Rosu.C10
open Rosu

variable {σ : Type}

def utf8Bom : List UInt8 := [0xEF, 0xBB, 0xBF]
def utf16leBom : List UInt8 := [0xFF, 0xFE]
def utf16beBom : List UInt8 := [0xFE, 0xFF]

/-- the lines `read_line` yields on an in-memory byte stream (no BOM handling), and the error
ending the reading. -/
def linesOf (enc : Encoding) (bs : List UInt8) : List Str × Option IoKind := readAll enc (Sched.ofBytes bs)

theorem linesOf_eq (enc : Encoding) (bs : List UInt8) : linesOf enc bs = linesSpec enc none bs := by
  unfold linesOf
  rw [readAll_eq_spec]
  unfold Sched.ofBytes
  cases bs <;> simp [Sched.pre, Sched.firstFail]

/-! ### BOM handling of `from_bytes` -/

theorem fromBom_utf8 (x : List UInt8) : Encoding.fromBom (0xEF :: 0xBB :: 0xBF :: x) = (.utf8, 3) := rfl

theorem fromBom_le (x : List UInt8) : Encoding.fromBom (0xFF :: 0xFE :: x) = (.utf16le, 2) := by
  cases x <;> rfl

theorem fromBom_be (x : List UInt8) : Encoding.fromBom (0xFE :: 0xFF :: x) = (.utf16be, 2) := by
  cases x <;> rfl

theorem fromBom_none_utf8 (bs : List UInt8) (h : (Encoding.fromBom bs).2 = 0) : (Encoding.fromBom bs).1 = .utf8 := by
  unfold Encoding.fromBom at h ⊢
  split <;> simp_all

theorem bomSpec_none (bs : List UInt8) :
    bomSpec bs none = (.ok (Encoding.fromBom bs).1, bs.drop (Encoding.fromBom bs).2) := by
  unfold bomSpec; split <;> rfl

/-- `from_bytes`, every input: sniff, skip the BOM, read the lines, frame them. -/
theorem decodeBytes_eq (D : LineDecoder σ) (bs : List UInt8) :
    decodeBytes D bs =
      match linesOf (Encoding.fromBom bs).1 (bs.drop (Encoding.fromBom bs).2) with
      | (_, some k) => .error k
      | (ls, none) => .ok (frame D ls) := by
  unfold decodeBytes
  rw [decodeSched_spec]
  have hp : Sched.pre (Sched.ofBytes bs) = bs := by unfold Sched.ofBytes; cases bs <;> simp [Sched.pre]
  have hf : Sched.firstFail (Sched.ofBytes bs) = none := by
    unfold Sched.ofBytes; cases bs <;> simp [Sched.firstFail]
  rw [hp, hf, linesOf_eq]
  unfold decodeSpec
  rw [bomSpec_none]
  rfl

def nCalls (r : Except IoKind Rec) : Nat :=
  match r with
  | .ok st => st.calls.length
  | .error _ => 0

/-! ### (a) the UTF-8 BOM -/

/-- **A UTF-8 BOM in front of a file changes nothing** — every file, of any length, that does not
itself start with a byte-order mark (a second BOM is content). -/
theorem utf8_bom_transparent (D : LineDecoder σ) (bs : List UInt8) (hb : (Encoding.fromBom bs).2 = 0) :
    decodeBytes D (utf8Bom ++ bs) = decodeBytes D bs := by
  rw [decodeBytes_eq, decodeBytes_eq D bs, hb, fromBom_none_utf8 bs hb]
  simp only [utf8Bom, List.cons_append, List.nil_append, fromBom_utf8, List.drop_succ_cons, List.drop_zero]

example : (Encoding.fromBom [0x5B, 0x47, (0x5D : UInt8)]).2 = 0 ∧ (Encoding.fromBom [(0x41 : UInt8)]).2 = 0 := by decide

/-! ### (b) UTF-16 -/

theorem currLine_utf8 (l : Str) : currLine .utf8 (utf8Encode l) = trimEnd l := by
  simp [currLine, Encoding.decode, utf8Lossy_utf8Encode]

theorem currLine_utf16 (le : Bool) (l : Str) :
    currLine (enc16 le) ((utf16Units l).flatMap (unitBytes le)) = trimEnd l := by
  cases le <;>
    simp [enc16, currLine, Encoding.decode, u16s_unitBytes _ _ (utf16Units_lt l), decodeUtf16_utf16Units]

/-- the text-level reading of a file: cut after every U+000A, trim the end of each line. -/
def textSpec (t : Str) : List Str × Option IoKind := ((textLines t).map trimEnd, none)

/-- UTF-8: the reader yields exactly the text's lines, for every text. -/
theorem utf8_lines (t : Str) : linesOf .utf8 (utf8Encode t) = textSpec t := by
  rw [linesOf_eq, linesSpec_rawLines, rawLines_utf8Encode, List.map_map]
  unfold textSpec
  congr 1
  apply List.map_congr_left
  intro l _
  exact currLine_utf8 l

/-- **UTF-16, either byte order: the reader yields exactly the text's lines, for every text** —
whatever bytes its code units contain (U+010A, U+0A0A, U+4E0A, surrogates `xx0A` …): the
`read_line` loop ends a line only at a code unit that *is* U+000A. -/
theorem utf16_lines (le : Bool) (t : Str) : linesOf (enc16 le) (encodeUtf16 le t) = textSpec t := by
  unfold encodeUtf16
  rw [linesOf_eq, linesSpec_units le _ (utf16Units_lt t), linesBy_utf16Units, List.map_map]
  unfold textSpec
  congr 1
  apply List.map_congr_left
  intro l _
  exact currLine_utf16 le l

/-- **C10 (lines).** The same text yields the same lines in UTF-8, UTF-16LE and UTF-16BE. -/
theorem utf16_lines_transparent (t : Str) :
    linesOf .utf16le (encodeUtf16 true t) = linesOf .utf8 (utf8Encode t) ∧
    linesOf .utf16be (encodeUtf16 false t) = linesOf .utf8 (utf8Encode t) := by
  rw [utf8_lines]
  exact ⟨utf16_lines true t, utf16_lines false t⟩

theorem fromBom_head (b0 : UInt8) (rest : List UInt8) (h1 : b0 ≠ 0xEF) (h2 : b0 ≠ 0xFF) (h3 : b0 ≠ 0xFE) :
    (Encoding.fromBom (b0 :: rest)).2 = 0 := by
  unfold Encoding.fromBom
  split <;> simp_all

theorem fromBom_ef (b1 b2 : UInt8) (rest : List UInt8) (h : ¬ (b1 = 0xBB ∧ b2 = 0xBF)) :
    (Encoding.fromBom (0xEF :: b1 :: b2 :: rest)).2 = 0 := by
  unfold Encoding.fromBom
  split <;> simp_all

theorem ofNat_ne (n m : Nat) (hn : n < 256) (hm : m < 256) (h : n ≠ m) : UInt8.ofNat n ≠ UInt8.ofNat m := by
  intro e
  have := congrArg UInt8.toNat e
  simp only [UInt8.toNat_ofNat'] at this
  omega

/-- the UTF-8 form of a text starts with a byte-order mark only if the text starts with U+FEFF. -/
theorem fromBom_utf8Encode (t : Str) (h : t.head? ≠ some (Char.ofNat 0xFEFF)) :
    (Encoding.fromBom (utf8Encode t)).2 = 0 := by
  cases t with
  | nil => rfl
  | cons c cs =>
    have hc : c.toNat ≠ 0xFEFF := by
      intro e
      apply h
      simp only [List.head?_cons, Option.some.injEq]
      rw [← Char.ofNat_toNat c, e]
    have hv := char_valid c
    unfold utf8Encode
    simp only [List.flatMap_cons]
    by_cases a : c.toNat ≤ 127
    · rw [u8_enc1 c a]
      exact fromBom_head _ _ (ofNat_ne _ 0xEF (by omega) (by omega) (by omega))
        (ofNat_ne _ 0xFF (by omega) (by omega) (by omega)) (ofNat_ne _ 0xFE (by omega) (by omega) (by omega))
    · by_cases b : c.toNat ≤ 2047
      · rw [u8_enc2 c (by omega) b]
        exact fromBom_head _ _ (ofNat_ne _ 0xEF (by omega) (by omega) (by omega))
          (ofNat_ne _ 0xFF (by omega) (by omega) (by omega)) (ofNat_ne _ 0xFE (by omega) (by omega) (by omega))
      · by_cases d : c.toNat ≤ 65535
        · rw [u8_enc3 c (by omega) d]
          by_cases e : c.toNat / 4096 % 16 = 15
          · have : UInt8.ofNat (c.toNat / 4096 % 16 + 224) = 0xEF := by rw [e]; rfl
            simp only [List.cons_append, List.nil_append, this]
            apply fromBom_ef
            intro ⟨h1, h2⟩
            have g1 := congrArg UInt8.toNat h1
            have g2 := congrArg UInt8.toNat h2
            simp only [UInt8.toNat_ofNat', UInt8.toNat_ofNat] at g1 g2
            omega
          · exact fromBom_head _ _ (ofNat_ne _ 0xEF (by omega) (by omega) (by omega))
              (ofNat_ne _ 0xFF (by omega) (by omega) (by omega)) (ofNat_ne _ 0xFE (by omega) (by omega) (by omega))
        · rw [u8_enc4 c (by omega)]
          exact fromBom_head _ _ (ofNat_ne _ 0xEF (by omega) (by omega) (by omega))
            (ofNat_ne _ 0xFF (by omega) (by omega) (by omega)) (ofNat_ne _ 0xFE (by omega) (by omega) (by omega))
/-- **C10 (`from_bytes`).** Every text whose UTF-8 form does not start with a byte-order mark
(i.e. the text does not start with U+FEFF, which in UTF-8 *is* the BOM — `fromBom_utf8Encode`)
decodes identically from UTF-8, UTF-8 with BOM, UTF-16LE with BOM and UTF-16BE with BOM. -/
theorem utf16_transparent_of_noBom (D : LineDecoder σ) (t : Str) (hb : (Encoding.fromBom (utf8Encode t)).2 = 0) :
    decodeBytes D (utf16leBom ++ encodeUtf16 true t) = decodeBytes D (utf8Encode t) ∧
    decodeBytes D (utf16beBom ++ encodeUtf16 false t) = decodeBytes D (utf8Encode t) ∧
    decodeBytes D (utf8Bom ++ utf8Encode t) = decodeBytes D (utf8Encode t) := by
  have r8 : decodeBytes D (utf8Encode t) =
      match textSpec t with
      | (_, some k) => .error k
      | (ls, none) => .ok (frame D ls) := by
    rw [decodeBytes_eq, hb, fromBom_none_utf8 _ hb, List.drop_zero, utf8_lines]
  refine ⟨?_, ?_, utf8_bom_transparent D _ hb⟩
  · rw [r8, decodeBytes_eq]
    simp only [utf16leBom, List.cons_append, List.nil_append, fromBom_le, List.drop_succ_cons, List.drop_zero]
    rw [show Encoding.utf16le = enc16 true from rfl, utf16_lines true t]
  · rw [r8, decodeBytes_eq]
    simp only [utf16beBom, List.cons_append, List.nil_append, fromBom_be, List.drop_succ_cons, List.drop_zero]
    rw [show Encoding.utf16be = enc16 false from rfl, utf16_lines false t]

example : (Encoding.fromBom (utf8Encode (str "[General]\nTitle: aĊb 上 ਊ 𐐊"))).2 = 0 := by decide

/-- **C10.** Every text that does not start with U+FEFF decodes identically from UTF-8, UTF-8 with
BOM, UTF-16LE with BOM and UTF-16BE with BOM. -/
theorem utf16_transparent (D : LineDecoder σ) (t : Str) (h : t.head? ≠ some (Char.ofNat 0xFEFF)) :
    decodeBytes D (utf16leBom ++ encodeUtf16 true t) = decodeBytes D (utf8Encode t) ∧
    decodeBytes D (utf16beBom ++ encodeUtf16 false t) = decodeBytes D (utf8Encode t) ∧
    decodeBytes D (utf8Bom ++ utf8Encode t) = decodeBytes D (utf8Encode t) :=
  utf16_transparent_of_noBom D t (fromBom_utf8Encode t h)

example : (str "[General]\nTitle: aĊb 上 ਊ 𐐊").head? ≠ some (Char.ofNat 0xFEFF) := by decide

/-- the hypothesis is the format's own ambiguity, not a defect: in UTF-8 a leading U+FEFF *is* the
byte-order mark and is stripped, after a UTF-16 BOM it is content. -/
example :
    nCalls (decodeBytes recorder (utf8Encode (Char.ofNat 0xFEFF :: str "[General]\nA"))) = 1 ∧
    nCalls (decodeBytes recorder (utf16leBom ++ encodeUtf16 true (Char.ofNat 0xFEFF :: str "[General]\nA"))) = 0 := by
  decide

/-- the texts that used to be cut at a stray 0x0A byte (former finding F5) are one line in every
encoding: U+010A, U+0A0A, U+4E0A, the surrogate pair of U+1040A (low surrogate DC0A). -/
example :
    nCalls (decodeBytes recorder (utf8Encode (str "[General]\naĊb"))) = 1 ∧
    nCalls (decodeBytes recorder (utf16leBom ++ encodeUtf16 true (str "[General]\naĊb"))) = 1 ∧
    nCalls (decodeBytes recorder (utf16beBom ++ encodeUtf16 false (str "[General]\naĊb"))) = 1 ∧
    nCalls (decodeBytes recorder (utf16leBom ++ encodeUtf16 true (str "[General]\nਊ上𐐊x"))) = 1 ∧
    nCalls (decodeBytes recorder (utf16beBom ++ encodeUtf16 false (str "[General]\nਊ上𐐊x"))) = 1 := by
  decide

/-- U+0A41 followed by a line feed, UTF-16LE bytes `41 0A 0A 00`: the first 0x0A sits at an odd
index and is skipped, the second ends the line; and `0A 41 00 0A` in UTF-16BE likewise. -/
example :
    (linesOf .utf16le [0x41, 0x0A, 0x0A, 0x00, 0x42, 0x00]).1 = [[Char.ofNat 0x0A41], ['B']] ∧
    (linesOf .utf16be [0x0A, 0x41, 0x00, 0x0A, 0x00, 0x42]).1 = [[Char.ofNat 0x0A41], ['B']] := by
  decide

/-- `FF FE 0A` — a UTF-16LE file cut after the low byte of its last line feed (former finding F6):
end of input after that byte is end of data. -/
example : nCalls (decodeBytes recorder [0xFF, 0xFE, 0x0A]) = 0 ∧
    (linesOf .utf16le [0x0A]) = ([[]], none) := by
  decide

/-! ### (c) invalid bytes stay on their line -/

/-- **What follows a line feed is read independently of what precedes it** (UTF-8):
invalid bytes in `a` cannot affect the lines of `b`. -/
theorem lossy_line_local (a b : List UInt8) :
    linesOf .utf8 (a ++ 0x0A :: b) =
      ((linesOf .utf8 (a ++ [0x0A])).1 ++ (linesOf .utf8 b).1, none) := by
  simp only [linesOf_eq, linesSpec_rawLines]
  unfold rawLines
  rw [linesBy_append_lf isLFb a 0x0A b rfl, List.map_append]

/-- the line the invalid bytes are on is the lossy conversion of exactly its own bytes. -/
theorem lossy_first_line (a b : List UInt8) (ha : ∀ x ∈ a, isLFb x = false) :
    (linesOf .utf8 (a ++ 0x0A :: b)).1 = trimEnd (utf8Lossy (a ++ [0x0A])) :: (linesOf .utf8 b).1 := by
  rw [lossy_line_local]
  simp only [linesOf_eq, linesSpec_rawLines]
  have : rawLines (a ++ [0x0A]) = [a ++ [0x0A]] := by
    unfold rawLines
    cases a with
    | nil => rfl
    | cons x xs =>
      rw [linesBy_append_nonLF isLFb (x :: xs) [0x0A] ha (by simp)]
      rfl
  simp [this, currLine, Encoding.decode]

/-! ### (d) the lossy decoders -/

/-- **valid UTF-8 decodes to itself**, for every text (all `Char`s are Unicode scalar values). -/
theorem utf8_valid_roundtrip (s : Str) : utf8Lossy (utf8Encode s) = s := utf8Lossy_utf8Encode s

/-- and so does valid UTF-16 in either byte order. -/
theorem utf16_valid_roundtrip (le : Bool) (s : Str) :
    decodeUtf16 (u16s le (encodeUtf16 le s)) = s := by
  unfold encodeUtf16
  rw [u16s_unitBytes _ _ (utf16Units_lt s), decodeUtf16_utf16Units]

/-- an ASCII byte is passed through, whatever follows. -/
theorem ascii_passthrough (b : UInt8) (rest : List UInt8) (h : b < 0x80) :
    utf8Lossy (b :: rest) = Char.ofNat b.toNat :: utf8Lossy rest := by
  simp [utf8Lossy, utf8LossyFuel, h]

/-- a byte that cannot start a sequence (0x80–0xC1, 0xF5–0xFF) is replaced by U+FFFD, alone. -/
theorem invalid_lead_replaced (b : UInt8) (rest : List UInt8)
    (h : (0x80 ≤ b ∧ b ≤ 0xC1) ∨ 0xF5 ≤ b) :
    utf8Lossy (b :: rest) = replacement :: utf8Lossy rest := by
  have h1 : ¬ b < 0x80 := by
    simp only [UInt8.lt_iff_toNat_lt, UInt8.le_iff_toNat_le, UInt8.toNat_ofNat] at h ⊢; omega
  have h2 : (0xC2 ≤ b && b ≤ 0xDF) = false := by
    simp only [Bool.and_eq_false_iff, decide_eq_false_iff_not, UInt8.le_iff_toNat_le, UInt8.toNat_ofNat] at h ⊢; omega
  have h3 : (0xE0 ≤ b && b ≤ 0xEF) = false := by
    simp only [Bool.and_eq_false_iff, decide_eq_false_iff_not, UInt8.le_iff_toNat_le, UInt8.toNat_ofNat] at h ⊢; omega
  have h4 : (0xF0 ≤ b && b ≤ 0xF4) = false := by
    simp only [Bool.and_eq_false_iff, decide_eq_false_iff_not, UInt8.le_iff_toNat_le, UInt8.toNat_ofNat] at h ⊢; omega
  simp [utf8Lossy, utf8LossyFuel, h1, h2, h3, h4]

/-- maximal-subpart replacement on the cases `String::from_utf8_lossy` documents: a truncated
sequence is one U+FFFD, an overlong or surrogate encoding one U+FFFD per byte, and decoding
resumes at the first byte that was not part of the invalid prefix. -/
theorem lossy_examples :
    utf8Lossy [0x20, 0xD1, 0x2C, 0x31] = [' ', replacement, ',', '1'] ∧
    utf8Lossy [0xE2, 0x82] = [replacement] ∧
    utf8Lossy [0xF0, 0x9F, 0x98, 0x41] = [replacement, 'A'] ∧
    utf8Lossy [0xC0, 0x80] = [replacement, replacement] ∧
    utf8Lossy [0xED, 0xA0, 0x80] = [replacement, replacement, replacement] ∧
    utf8Lossy [0xF4, 0x90, 0x80, 0x80] = [replacement, replacement, replacement, replacement] ∧
    utf8Lossy [0xE2, 0x82, 0xAC] = [Char.ofNat 0x20AC] := by
  decide

/-- **an unpaired low surrogate is replaced by U+FFFD**, alone. -/
theorem surrogate_replaced_low (u : Nat) (rest : List Nat) (h : isLow u = true) :
    decodeUtf16 (u :: rest) = replacement :: decodeUtf16 rest := by
  have : isHigh u = false := by
    simp only [isHigh, isLow, Bool.and_eq_true, decide_eq_true_eq, Bool.and_eq_false_iff,
      decide_eq_false_iff_not] at h ⊢; omega
  cases rest <;> simp [decodeUtf16, h, this]

/-- **a high surrogate not followed by a low one is replaced by U+FFFD**, and the unit after it
is decoded on its own. -/
theorem surrogate_replaced_high (u : Nat) (rest : List Nat) (h : isHigh u = true)
    (hn : ∀ u2 r, rest = u2 :: r → isLow u2 = false) :
    decodeUtf16 (u :: rest) = replacement :: decodeUtf16 rest := by
  have hl : isLow u = false := by
    simp only [isHigh, isLow, Bool.and_eq_true, decide_eq_true_eq, Bool.and_eq_false_iff,
      decide_eq_false_iff_not] at h ⊢; omega
  cases rest with
  | nil => simp [decodeUtf16, h]
  | cons u2 r => simp [decodeUtf16, h, hl, hn u2 r rfl]

/-- **unpaired surrogates are replaced by U+FFFD** (both kinds), one replacement per unit, and the
following unit is decoded on its own. -/
theorem surrogate_replaced (u : Nat) (rest : List Nat)
    (h : isLow u = true ∨ (isHigh u = true ∧ ∀ u2 r, rest = u2 :: r → isLow u2 = false)) :
    decodeUtf16 (u :: rest) = replacement :: decodeUtf16 rest := by
  cases h with
  | inl hl => exact surrogate_replaced_low u rest hl
  | inr hh => exact surrogate_replaced_high u rest hh.1 hh.2

/-- a well-formed pair is one astral character. -/
theorem surrogate_pair_decoded (u u2 : Nat) (rest : List Nat) (h : isHigh u = true) (h2 : isLow u2 = true) :
    decodeUtf16 (u :: u2 :: rest) =
      Char.ofNat (0x10000 + (u - 0xD800) * 1024 + (u2 - 0xDC00)) :: decodeUtf16 rest := by
  have hl : isLow u = false := by
    simp only [isHigh, isLow, Bool.and_eq_true, decide_eq_true_eq, Bool.and_eq_false_iff,
      decide_eq_false_iff_not] at h ⊢; omega
  rw [decodeUtf16_cons_pair u u2 rest h hl h2, Nat.shiftLeft_eq]

example : isLow 0xDC00 = true ∧ isHigh 0xD83D = true ∧ isLow 0x0041 = false := by decide

/-- **the odd trailing byte of a UTF-16 buffer is dropped.** -/
theorem odd_tail_dropped (le : Bool) (bs : List UInt8) (b : UInt8) (h : bs.length % 2 = 0) :
    u16s le (bs ++ [b]) = u16s le bs := by
  suffices hs : ∀ n, ∀ bs : List UInt8, bs.length = 2 * n → u16s le (bs ++ [b]) = u16s le bs from
    hs (bs.length / 2) bs (by omega)
  intro n
  induction n with
  | zero =>
    intro bs hl
    have : bs = [] := List.eq_nil_of_length_eq_zero (by omega)
    subst this; simp [u16s]
  | succ n ih =>
    intro bs hl
    match bs, hl with
    | x :: y :: r, hl =>
      simp only [List.cons_append, u16s]
      rw [ih r (by simp at hl; omega)]

example : u16s true [0x41, 0x00, 0x0A] = [0x41] := by decide

end Rosu.C10
