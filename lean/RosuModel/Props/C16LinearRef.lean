/-
  Props/C16LinearRef.lean — C16: the harness's independent REFERENCE for the unadjusted path of all-linear control points
  (`ref_linear_natural` in the Rust test harness) is exactly what the MODEL's `calculate_path` computes.

      fn ref_linear_natural(pts: &[PathControlPoint]) -> Vec<Pos> {
          let mut out = Vec::new(); let mut start = 0;
          for i in 0..pts.len() {
              if pts[i].path_type.is_none() && i + 1 < pts.len() { continue; }
              let seg = &pts[start..=i];
              if seg.len() == 1 { out.push(seg[0].pos); }
              else { let skip = out.last().map_or(false, |l| *l == seg[0].pos);
                     out.extend(seg.iter().skip(usize::from(skip)).map(|p| p.pos)); }
              start = i;
          }
          out }

  * `refLinearNaturalBy eq` — structurally recursive transcription, parametrised by the position equality (`refGo`: state
    `out` and the positions `seg` of `pts[start..i]`; `refEmit` = the `else` part of the body). `refLinearNatural` uses the
    model's `Pos.eq` (component-wise `Scalar.eq`: IEEE `==`, so `−0 = +0`, `NaN ≠ NaN`) — the equality `dedupJoint` uses; a
    `[BEq (Pos P)]` reading is `refLinearNaturalBy (· == ·)`. `refLinearNaturalIdx` is the literal index-based transcription
    (state `(out, start)`, fold over `0..len`), `refLinearNaturalIdx_eq`: the two are the same function.
  * **`calculatePath_linear_eq_ref`** (every arithmetic, mode, fuel, buffers): `AllLinear points` and
    `calculatePath … = .ok (b, opt)` ⟹ `b.path = refLinearNatural points ∧ opt = 0`.
  * about the reference: **`ref_eq_positions`** (if no typed, non-last control point has a position that differs from
    itself — no NaN joint — the path is the list of ALL positions), `ref_single_segment`, `ref_single_segment_nan`,
    `ref_typed_last_no_extra` / `ref_last_type_irrelevant` (unconditional; seeded defect C16-o), `ref_length_le`.
    On the model: `calculatePath_linear_positions`, `calculatePath_typed_last_no_extra`.
  * FALSE without the no-NaN hypothesis: `|path| ≤ |points|` (`ref_length_le_false`, toy NaN scalar;
    `calculatePath_nan_joint_float32`: the model on `Float32`, `(NaN,0) L, (1,0)` → 3 vertices): a joint whose position has a
    NaN coordinate is not recognised as a repetition and stays twice in the path.
-/
import RosuModel.Props.C19DecodedLinear
import RosuModel.Lemmas.ToyInt
import RosuModel.Lemmas.ToyNaN
namespace Rosu.C16
open Rosu Rosu.Curve
open Rosu.C19 (AllLinear)

section Ref
variable {P : Type}

/-- what one non-skipped round of the loop appends: `seg` = positions of `pts[start..=i]`; a one-point segment is pushed,
otherwise the first point is skipped when it equals the last emitted vertex. -/
def refEmit (eq : Pos P → Pos P → Bool) (out seg : List (Pos P)) : List (Pos P) :=
  match seg with
  | [v] => out ++ [v]
  | _ =>
    let skip := match out.getLast?, seg.head? with
      | some l, some f => eq l f
      | _, _ => false
    out ++ (if skip then seg.drop 1 else seg)

/-- the loop of `ref_linear_natural`, by recursion on the control points still to visit: `out`, and the positions `seg` of
`pts[start..i]` (the running segment WITHOUT the current point). `!rest.isEmpty` is `i + 1 < pts.len()`; after a round that
is not skipped `start = i`, i.e. the running segment is `[p.pos]`. -/
def refGo (eq : Pos P → Pos P → Bool) :
    List (Pos P) → List (Pos P) → List (PathControlPoint P) → List (Pos P)
  | out, _, [] => out
  | out, seg, p :: rest =>
    if p.pathType.isNone && !rest.isEmpty then refGo eq out (seg ++ [p.pos]) rest
    else refGo eq (refEmit eq out (seg ++ [p.pos])) [p.pos] rest

/-- `ref_linear_natural` with the equality of positions as a parameter. -/
def refLinearNaturalBy (eq : Pos P → Pos P → Bool) (pts : List (PathControlPoint P)) : List (Pos P) :=
  refGo eq [] [] pts

/-- `ref_linear_natural` with the model's (= Rust's derived `PartialEq`) equality of positions. -/
def refLinearNatural [Scalar P] (pts : List (PathControlPoint P)) : List (Pos P) :=
  refLinearNaturalBy Pos.eq pts
theorem refEmit_one (eq : Pos P → Pos P → Bool) (out : List (Pos P)) (v : Pos P) :
    refEmit eq out [v] = out ++ [v] := rfl

theorem refEmit_many (eq : Pos P → Pos P → Bool) (out seg : List (Pos P)) (h : ∀ v, seg ≠ [v]) :
    refEmit eq out seg = out ++
      (if (match out.getLast?, seg.head? with
          | some l, some f => eq l f
          | _, _ => false) then seg.drop 1 else seg) := by
  unfold refEmit
  split
  · rename_i v; exact absurd rfl (h v)
  · rfl

end Ref

/-! ## corollaries about the reference itself -/

section RefFacts
variable {P : Type}

/-- loop invariant of the reference once something was emitted: the running segment starts with the last emitted vertex,
and that vertex equals itself. -/
def Joint (eq : Pos P → Pos P → Bool) (out seg : List (Pos P)) : Prop :=
  out = [] ∨ ∃ f t, seg = f :: t ∧ out.getLast? = some f ∧ eq f f = true

theorem refEmit_joint (eq : Pos P → Pos P → Bool) (out seg : List (Pos P)) (v : Pos P) (hj : Joint eq out seg) :
    refEmit eq out (seg ++ [v]) = out ++ (if out = [] then seg else seg.drop 1) ++ [v] := by
  rcases hj with rfl | ⟨f, t, rfl, hlast, hrefl⟩
  · cases seg with
    | nil => rfl
    | cons a t =>
      rw [refEmit_many _ _ _ (by intro w hw; cases t <;> simp at hw)]
      simp
  · have hne : out ≠ [] := by intro h; rw [h] at hlast; cases hlast
    rw [refEmit_many _ _ _ (by intro w hw; cases t <;> simp at hw), hlast]
    simp [hrefl, hne]

theorem refGo_eq_positions (eq : Pos P → Pos P → Bool) :
    ∀ (rest : List (PathControlPoint P)) (p : PathControlPoint P) (out seg : List (Pos P)),
      Joint eq out seg →
      (∀ cp ∈ (p :: rest).dropLast, cp.pathType ≠ none → eq cp.pos cp.pos = true) →
      refGo eq out seg (p :: rest) =
        out ++ (if out = [] then seg else seg.drop 1) ++ (p :: rest).map (·.pos) := by
  intro rest
  induction rest with
  | nil =>
    intro p out seg hj _
    rw [refGo]
    simp only [List.isEmpty_nil, Bool.not_true, Bool.and_false, Bool.false_eq_true, if_false, refGo]
    exact refEmit_joint eq out seg p.pos hj
  | cons q r ih =>
    intro p out seg hj hrefl
    have hrefl' : ∀ cp ∈ (q :: r).dropLast, cp.pathType ≠ none → eq cp.pos cp.pos = true := by
      intro cp hcp; exact hrefl cp (by rw [List.dropLast_cons_cons]; exact List.mem_cons_of_mem _ hcp)
    rw [refGo]
    cases hp : p.pathType with
    | none =>
      simp only [Option.isNone_none, List.isEmpty_cons, Bool.not_false, Bool.and_self, if_true]
      have hj' : Joint eq out (seg ++ [p.pos]) := by
        rcases hj with h | ⟨f, t, rfl, h1, h2⟩
        · exact Or.inl h
        · exact Or.inr ⟨f, t ++ [p.pos], rfl, h1, h2⟩
      rw [ih q out (seg ++ [p.pos]) hj' hrefl']
      rcases hj with rfl | ⟨f, t, rfl, h1, _⟩
      · simp
      · have hne : out ≠ [] := by intro h; rw [h] at h1; cases h1
        simp [hne]
    | some ty =>
      simp only [Option.isNone_some, Bool.false_and, Bool.false_eq_true, if_false]
      have hpp : eq p.pos p.pos = true :=
        hrefl p (by rw [List.dropLast_cons_cons]; exact List.mem_cons_self) (by rw [hp]; exact Option.some_ne_none _)
      rw [refEmit_joint eq out seg p.pos hj]
      have hj' : Joint eq (out ++ (if out = [] then seg else seg.drop 1) ++ [p.pos]) [p.pos] :=
        Or.inr ⟨p.pos, [], rfl, by simp, hpp⟩
      rw [ih q _ [p.pos] hj' hrefl']
      simp

/-- **`ref_eq_positions`**: when every control point that carries a path type and is not the last one has a position that
equals itself (no NaN coordinate), the reference path is simply the list of ALL control-point positions: each joint is
removed exactly once. -/
theorem ref_eq_positions (eq : Pos P → Pos P → Bool) (pts : List (PathControlPoint P))
    (hrefl : ∀ cp ∈ pts.dropLast, cp.pathType ≠ none → eq cp.pos cp.pos = true) :
    refLinearNaturalBy eq pts = pts.map (·.pos) := by
  cases pts with
  | nil => rfl
  | cons p rest =>
    unfold refLinearNaturalBy
    rw [refGo_eq_positions eq rest p [] [] (Or.inl rfl) hrefl]
    simp

/-- **`ref_single_segment`**: one segment (only the first control point may carry a path type): the path is the list of
positions. When the first point is typed (and is not the only one) its position must equal itself — otherwise it is emitted
twice (`ref_single_segment_nan`). -/
theorem ref_single_segment (eq : Pos P → Pos P → Bool) (p0 : PathControlPoint P) (rest : List (PathControlPoint P))
    (hrest : ∀ cp ∈ rest, cp.pathType = none)
    (hrefl : p0.pathType ≠ none → rest ≠ [] → eq p0.pos p0.pos = true) :
    refLinearNaturalBy eq (p0 :: rest) = (p0 :: rest).map (·.pos) := by
  apply ref_eq_positions
  intro cp hcp hty
  cases rest with
  | nil => simp at hcp
  | cons q r =>
    rcases List.mem_cons.mp (List.mem_of_mem_dropLast hcp) with rfl | h
    · exact hrefl hty (by simp)
    · exact absurd (hrest cp h) hty

theorem refGo_untyped (eq : Pos P → Pos P → Bool) :
    ∀ (rest : List (PathControlPoint P)) (q : PathControlPoint P) (out seg : List (Pos P)),
      (∀ cp ∈ q :: rest, cp.pathType = none) →
      refGo eq out seg (q :: rest) = refEmit eq out (seg ++ (q :: rest).map (·.pos)) := by
  intro rest
  induction rest with
  | nil => intro q out seg _; simp [refGo]
  | cons r rs ih =>
    intro q out seg h
    rw [refGo, h q List.mem_cons_self]
    simp only [Option.isNone_none, List.isEmpty_cons, Bool.not_false, Bool.and_self, if_true]
    rw [ih r out _ (fun cp hcp => h cp (List.mem_cons_of_mem _ hcp))]
    simp

/-- the other half: a typed first point whose position does NOT equal itself (a NaN coordinate) is emitted twice. -/
theorem ref_single_segment_nan (eq : Pos P → Pos P → Bool) (p0 q : PathControlPoint P) (rest : List (PathControlPoint P))
    (hrest : ∀ cp ∈ q :: rest, cp.pathType = none) (hty : p0.pathType ≠ none) (hnan : eq p0.pos p0.pos = false) :
    refLinearNaturalBy eq (p0 :: q :: rest) = p0.pos :: (p0 :: q :: rest).map (·.pos) := by
  unfold refLinearNaturalBy
  rw [refGo]
  cases hp : p0.pathType with
  | none => exact absurd hp hty
  | some ty =>
    simp only [Option.isNone_some, Bool.false_and, Bool.false_eq_true, if_false, List.nil_append]
    rw [refGo_untyped eq rest q _ _ hrest, refEmit_one, refEmit_many _ _ _ (by intro w hw; simp at hw)]
    simp [hnan]

theorem refGo_last_type_irrelevant (eq : Pos P → Pos P → Bool) (p : Pos P) (o o' : Option PathType) :
    ∀ (pts : List (PathControlPoint P)) (out seg : List (Pos P)),
      refGo eq out seg (pts ++ [⟨p, o⟩]) = refGo eq out seg (pts ++ [⟨p, o'⟩]) := by
  intro pts
  induction pts with
  | nil => intro out seg; simp [refGo]
  | cons q r ih =>
    intro out seg
    simp only [List.cons_append]
    rw [refGo, refGo]
    have he : ∀ x : PathControlPoint P, (r ++ [x]).isEmpty = false := by intro x; cases r <;> rfl
    simp only [he, Bool.not_false, Bool.and_true]
    split
    · exact ih _ _
    · exact ih _ _

theorem ref_last_type_irrelevant (eq : Pos P → Pos P → Bool) (pts : List (PathControlPoint P)) (p : Pos P)
    (o o' : Option PathType) :
    refLinearNaturalBy eq (pts ++ [⟨p, o⟩]) = refLinearNaturalBy eq (pts ++ [⟨p, o'⟩]) :=
  refGo_last_type_irrelevant eq p o o' pts [] []

/-- **`ref_typed_last_no_extra`** (seeded defect C16-o): the path type of the LAST control point is never looked at — in
particular a path type on the last control point adds no vertex. Unconditional (also for `pts = []`). -/
theorem ref_typed_last_no_extra (eq : Pos P → Pos P → Bool) (pts : List (PathControlPoint P)) (p : Pos P)
    (t : PathType) :
    refLinearNaturalBy eq (pts ++ [⟨p, some t⟩]) = refLinearNaturalBy eq (pts ++ [⟨p, none⟩]) :=
  ref_last_type_irrelevant eq pts p _ _

/-- **`ref_length_le`** (in fact equality) under the no-NaN hypothesis of `ref_eq_positions`. -/
theorem ref_length_le (eq : Pos P → Pos P → Bool) (pts : List (PathControlPoint P))
    (hrefl : ∀ cp ∈ pts.dropLast, cp.pathType ≠ none → eq cp.pos cp.pos = true) :
    (refLinearNaturalBy eq pts).length ≤ pts.length := by
  rw [ref_eq_positions eq pts hrefl, List.length_map]

end RefFacts

section Generic
variable {P F : Type} [Scalar P] [Scalar F] [Cvt P F] [Trig F] [Trig P]

omit [Trig P] in
/-- `dedupJoint` in closed form on `path ++ seg` (it never panics there). -/
theorem dedupJoint_append (path seg : List (Pos P)) :
    dedupJoint (path ++ seg) path.length = .ok (path ++
      (if (match path.getLast?, seg.head? with
          | some l, some f => Pos.eq l f
          | _, _ => false) then seg.drop 1 else seg)) := by
  rcases List.eq_nil_or_concat path with rfl | ⟨init, l, rfl⟩
  · simp [dedupJoint]
  · cases seg with
    | nil => simp [dedupJoint]
    | cons f t =>
      simp [dedupJoint, getI, rotateLeft1]
      have ht : List.take (init.length + 1) (init ++ l :: f :: t) = init ++ [l] := by
        rw [show init ++ l :: f :: t = (init ++ [l]) ++ (f :: t) by simp]
        exact List.take_left' (by simp)
      split
      · rw [ht]; simp
      · rfl

theorem seg_succ {α : Type} (verts : List α) (s k : Nat) (v : α) (hs : s ≤ k) (hv : verts[k]? = some v) :
    (verts.drop s).take (k + 1 - s) = (verts.drop s).take (k - s) ++ [v] := by
  have : k + 1 - s = (k - s) + 1 := by omega
  rw [this, List.take_add_one, List.getElem?_drop, show s + (k - s) = k by omega, hv]
  rfl


/-- one round of the model's segment loop at index `|pre|` = one round of the reference. -/
theorem segBody_ref (fuel : Nat) (mode : GameMode) (points : List (PathControlPoint P)) (hl : AllLinear points)
    (pre rest : List (PathControlPoint P)) (p : PathControlPoint P) (st st1 : SegState P F)
    (hpts : points = pre ++ p :: rest) (hs : st.start ≤ pre.length)
    (h : segBody fuel mode points (points.map (·.pos)) st pre.length = .ok st1) :
    ((p.pathType.isNone && !rest.isEmpty) = true → st1 = st) ∧
    ((p.pathType.isNone && !rest.isEmpty) = false →
      st1.path = refEmit Pos.eq st.path
        ((((points.map (·.pos)).drop st.start).take (pre.length - st.start)) ++ [p.pos]) ∧
      st1.start = pre.length) := by
  have hget : getI points pre.length = .ok p := getI_of_some _ _ _ (by rw [hpts]; simp)
  have hdec : decide (pre.length < points.length - 1) = !rest.isEmpty := by
    rw [hpts]; cases rest <;> simp
  have hvk : (points.map (·.pos))[pre.length]? = some p.pos := by rw [hpts]; simp
  have hseg := seg_succ (points.map (·.pos)) st.start pre.length p.pos hs hvk
  have hslice : sliceIncl (points.map (·.pos)) st.start pre.length =
      .ok ((((points.map (·.pos)).drop st.start).take (pre.length - st.start)) ++ [p.pos]) := by
    unfold sliceIncl
    have hlen : pre.length + 1 ≤ (points.map (·.pos)).length := by rw [hpts]; simp
    rw [if_pos ⟨by omega, hlen⟩, hseg]; rfl
  unfold segBody at h
  rw [hget] at h
  simp only [Outcome.ok_bind, hdec] at h
  cases hc : (p.pathType.isNone && !rest.isEmpty)
  · rw [hc] at h
    simp only [Bool.false_eq_true, if_false, hslice, Outcome.ok_bind] at h
    refine ⟨fun h' => (by cases h'), fun _ => ?_⟩
    generalize ((((points.map (·.pos)).drop st.start).take (pre.length - st.start)) ++ [p.pos]) = seg at h ⊢
    split at h
    · cases h
    · cases h; exact ⟨rfl, rfl⟩
    · rename_i hne1 hne2
      cases hsp : getI points st.start with
      | error e => rw [hsp] at h; cases h
      | ok sp =>
        rw [hsp] at h
        simp only [Outcome.ok_bind] at h
        have hkind : (match sp.pathType with | none => SplineType.linear | some t => t.kind) = SplineType.linear := by
          have hmem : sp ∈ points := List.mem_of_getElem? ((getI_ok_iff _ _ _).mp hsp)
          cases hp : sp.pathType with
          | none => rfl
          | some t => exact hl sp hmem t hp
        refine (?_ : ∀ k : SplineType, k = SplineType.linear →
          (do
            let __x ← calculateSubpath fuel mode seg k st.optLen st.bezier
            let path ← dedupJoint (st.path ++ __x.1) st.path.length
            pure { path := path, optLen := __x.2.1, bezier := __x.2.2, start := pre.length } :
              Outcome (SegState P F)) = Except.ok st1 → _) _ hkind h
        intro k hk h
        subst hk
        simp only [calculateSubpath, Outcome.pure_eq_ok, Outcome.ok_bind, dedupJoint_append] at h
        cases h
        exact ⟨(refEmit_many _ _ _ hne2).symm, rfl⟩
  · rw [hc] at h
    simp only [if_true, Outcome.pure_eq_ok, Except.ok.injEq] at h
    exact ⟨fun _ => h.symm, fun h' => (by cases h')⟩

/-- the model's loop from index `|pre|` on = the reference's recursion on the remaining control points. -/
theorem segFold_ref (fuel : Nat) (mode : GameMode) (points : List (PathControlPoint P)) (hl : AllLinear points) :
    ∀ (suf pre : List (PathControlPoint P)) (st st' : SegState P F),
      points = pre ++ suf → st.start ≤ pre.length →
      (List.range' pre.length suf.length).foldlM (segBody fuel mode points (points.map (·.pos))) st = .ok st' →
      st'.path = refGo Pos.eq st.path
        (((points.map (·.pos)).drop st.start).take (pre.length - st.start)) suf := by
  intro suf
  induction suf with
  | nil =>
    intro pre st st' _ _ h
    simp only [List.length_nil, List.range'_zero, List.foldlM_nil, Outcome.pure_eq_ok, Except.ok.injEq] at h
    subst h; rfl
  | cons p rest ih =>
    intro pre st st' hpts hs h
    rw [List.length_cons, List.range'_succ, List.foldlM_cons] at h
    obtain ⟨st1, h1, h2⟩ := Outcome.bind_eq_ok h
    obtain ⟨hskip, hflush⟩ := segBody_ref fuel mode points hl pre rest p st st1 hpts hs h1
    have hpts' : points = (pre ++ [p]) ++ rest := by rw [hpts]; simp
    have hlen' : (pre ++ [p]).length = pre.length + 1 := by simp
    have hvk : (points.map (·.pos))[pre.length]? = some p.pos := by rw [hpts]; simp
    rw [← hlen'] at h2
    cases hc : (p.pathType.isNone && !rest.isEmpty)
    · obtain ⟨hp, hstart⟩ := hflush hc
      have := ih (pre ++ [p]) st1 st' hpts' (by rw [hlen', hstart]; omega) h2
      rw [this, hlen', hstart, hp, seg_succ _ _ _ _ (Nat.le_refl _) hvk]
      simp only [Nat.sub_self, List.take_zero, List.nil_append]
      rw [refGo, hc]
      simp only [Bool.false_eq_true, if_false]
    · have hst := hskip hc
      subst hst
      have := ih (pre ++ [p]) st1 st' hpts' (by rw [hlen']; omega) h2
      rw [this, hlen', seg_succ _ _ _ _ hs hvk]
      rw [refGo.eq_2, hc]
      simp only [if_true]

/-- **`calculatePath_linear_eq_ref`**: for control points whose path types are all linear (or absent) the model's
`calculate_path` — every arithmetic, mode, fuel, scratch buffers — returns exactly the harness reference, and
`optimized_len = 0.0`. -/
theorem calculatePath_linear_eq_ref (fuel : Nat) (mode : GameMode) (points : List (PathControlPoint P))
    (bufs b : CurveBuffers P F) (opt : F) (hl : AllLinear points)
    (h : calculatePath fuel mode points bufs = .ok (b, opt)) :
    b.path = refLinearNatural points ∧ opt = (0 : F) := by
  refine ⟨?_, (C19.linear_path_vertices fuel mode points bufs b opt hl h).2.2⟩
  unfold calculatePath at h
  split at h
  · rename_i he
    cases h
    cases points with
    | nil => rfl
    | cons _ _ => simp at he
  · simp only [] at h
    obtain ⟨st, hfold, h⟩ := Outcome.bind_eq_ok h
    cases h
    rw [List.range_eq_range'] at hfold
    have := segFold_ref fuel mode points hl points [] _ st (by simp) (Nat.le_refl _) hfold
    simpa [refLinearNatural, refLinearNaturalBy] using this

/-- without NaN joints the path of all-linear control points is the list of ALL control-point positions. -/
theorem calculatePath_linear_positions (fuel : Nat) (mode : GameMode) (points : List (PathControlPoint P))
    (bufs b : CurveBuffers P F) (opt : F) (hl : AllLinear points)
    (hrefl : ∀ cp ∈ points.dropLast, cp.pathType ≠ none → Pos.eq cp.pos cp.pos = true)
    (h : calculatePath fuel mode points bufs = .ok (b, opt)) :
    b.path = points.map (·.pos) ∧ b.path.length = points.length := by
  have := (calculatePath_linear_eq_ref fuel mode points bufs b opt hl h).1
  rw [this, refLinearNatural, ref_eq_positions _ _ hrefl, List.length_map]
  exact ⟨rfl, rfl⟩

/-- seeded defect C16-o on the model: a (linear) path type on the LAST control point changes nothing in the path. -/
theorem calculatePath_typed_last_no_extra (fuel fuel' : Nat) (mode mode' : GameMode)
    (pts : List (PathControlPoint P)) (p : Pos P) (t : PathType)
    (bufs bufs' b b' : CurveBuffers P F) (opt opt' : F) (hl : AllLinear (pts ++ [⟨p, some t⟩]))
    (h : calculatePath fuel mode (pts ++ [⟨p, some t⟩]) bufs = .ok (b, opt))
    (h' : calculatePath fuel' mode' (pts ++ [⟨p, none⟩]) bufs' = .ok (b', opt')) :
    b.path = b'.path := by
  have hl' : AllLinear (pts ++ [(⟨p, none⟩ : PathControlPoint P)]) := by
    intro cp hcp ty hty
    rcases List.mem_append.mp hcp with hm | hm
    · exact hl cp (List.mem_append_left _ hm) ty hty
    · rw [List.mem_singleton.mp hm] at hty; cases hty
  rw [(calculatePath_linear_eq_ref fuel mode _ bufs b opt hl h).1,
    (calculatePath_linear_eq_ref fuel' mode' _ bufs' b' opt' hl' h').1]
  exact ref_typed_last_no_extra _ pts p t

end Generic
/-! ## the index-based, literal transcription (`start` instead of the running segment) agrees -/

section Idx
variable {P : Type}

/-- body of `for i in 0..pts.len()` of `ref_linear_natural`, state `(out, start)`. -/
def refIdxStep (eq : Pos P → Pos P → Bool) (pts : List (PathControlPoint P)) (st : List (Pos P) × Nat) (i : Nat) :
    List (Pos P) × Nat :=
  match pts[i]? with
  | none => st
  | some pt =>
    if pt.pathType.isNone && decide (i + 1 < pts.length) then st
    else (refEmit eq st.1 (((pts.drop st.2).take (i + 1 - st.2)).map (·.pos)), i)

def refLinearNaturalIdx (eq : Pos P → Pos P → Bool) (pts : List (PathControlPoint P)) : List (Pos P) :=
  ((List.range pts.length).foldl (refIdxStep eq pts) ([], 0)).1

theorem refIdx_fold (eq : Pos P → Pos P → Bool) (pts : List (PathControlPoint P)) :
    ∀ (suf pre : List (PathControlPoint P)) (st : List (Pos P) × Nat),
      pts = pre ++ suf → st.2 ≤ pre.length →
      ((List.range' pre.length suf.length).foldl (refIdxStep eq pts) st).1 =
        refGo eq st.1 (((pts.drop st.2).take (pre.length - st.2)).map (·.pos)) suf := by
  intro suf
  induction suf with
  | nil => intro pre st _ _; rfl
  | cons p rest ih =>
    intro pre st hpts hs
    rw [List.length_cons, List.range'_succ, List.foldl_cons]
    have hpts' : pts = (pre ++ [p]) ++ rest := by rw [hpts]; simp
    have hlen' : (pre ++ [p]).length = pre.length + 1 := by simp
    have hk : pts[pre.length]? = some p := by rw [hpts]; simp
    have hdec : decide (pre.length + 1 < pts.length) = !rest.isEmpty := by
      rw [hpts]; cases rest <;> simp
    have hstep : refIdxStep eq pts st pre.length =
        if p.pathType.isNone && !rest.isEmpty then st
        else (refEmit eq st.1 (((pts.drop st.2).take (pre.length - st.2)).map (·.pos) ++ [p.pos]), pre.length) := by
      unfold refIdxStep
      rw [hk]
      simp only [hdec, seg_succ pts st.2 pre.length p hs hk, List.map_append, List.map_cons, List.map_nil]
    rw [hstep, ← hlen', refGo]
    cases hc : (p.pathType.isNone && !rest.isEmpty)
    · simp only [Bool.false_eq_true, if_false]
      rw [ih (pre ++ [p]) _ hpts' (by rw [hlen']; exact Nat.le_succ _), hlen']
      simp only [seg_succ pts pre.length pre.length p (Nat.le_refl _) hk, Nat.sub_self, List.take_zero,
        List.nil_append, List.map_cons, List.map_nil]
    · simp only [if_true]
      rw [ih (pre ++ [p]) st hpts' (by rw [hlen']; omega), hlen', seg_succ pts st.2 pre.length p hs hk]
      simp only [List.map_append, List.map_cons, List.map_nil]

/-- the index-based transcription and the structurally recursive one are the same function. -/
theorem refLinearNaturalIdx_eq (eq : Pos P → Pos P → Bool) (pts : List (PathControlPoint P)) :
    refLinearNaturalIdx eq pts = refLinearNaturalBy eq pts := by
  unfold refLinearNaturalIdx refLinearNaturalBy
  rw [List.range_eq_range']
  have := refIdx_fold eq pts pts [] ([], 0) (by simp) (Nat.le_refl _)
  simpa using this

end Idx

/-! ## kernel-evaluated examples (toy `Int` arithmetic, Lemmas/ToyInt.lean; NaN: Lemmas/ToyNaN.lean and `Float32`) -/

section Examples
open Rosu.Toy

@[instance_reducible] def refPosDecEqInt : DecidableEq (Pos Int) := fun a b =>
  decidable_of_iff (a.x = b.x ∧ a.y = b.y) (by cases a; cases b; simp only [Pos.mk.injEq])
attribute [local instance] refPosDecEqInt

def tyL : Option PathType := some PathType.linear

theorem allLinear_of_forall {P : Type} [Scalar P] [Trig P] (pts : List (PathControlPoint P))
    (h : ∀ cp ∈ pts, cp.pathType = none ∨ cp.pathType = some PathType.linear) : AllLinear pts := by
  intro cp hcp t ht
  rcases h cp hcp with h | h
  · rw [h] at ht; cases ht
  · rw [h] at ht; cases ht; rfl

/-- `L (0,0), (100,0) L` → 2 vertices (the type on the last point adds nothing). -/
example : refLinearNatural [cp 0 0 tyL, cp 100 0 tyL] = [pt 0 0, pt 100 0] := by decide
/-- `(0,0) L, (50,0), (50,0) L, (50,80)`: the joint `(50,0)` (control point 2) appears once, not twice — the path is the
four control-point positions (control point 1 has the same position and is kept). -/
example : refLinearNatural [cp 0 0 tyL, cp 50 0, cp 50 0 tyL, cp 50 80] = [pt 0 0, pt 50 0, pt 50 0, pt 50 80] := by decide
/-- first point typed → it is not duplicated. -/
example : refLinearNatural [cp 0 0 tyL, cp 100 0] = [pt 0 0, pt 100 0] := by decide
/-- first point untyped. -/
example : refLinearNatural [cp 0 0, cp 100 0, cp 100 50 tyL, cp 0 50] = [pt 0 0, pt 100 0, pt 100 50, pt 0 50] := by decide
example : refLinearNatural ([] : List (PathControlPoint Int)) = [] := by decide
example : refLinearNatural [cp 7 8 tyL] = [pt 7 8] := by decide

/-- the model on the same inputs (osu! mode, fuel 10, fresh buffers): same paths. -/
example : ((calculatePath (F := Int) 10 GameMode.osu [cp 0 0 tyL, cp 100 0 tyL] {}).toOption.map (·.1.path)) =
    some [pt 0 0, pt 100 0] := by decide
example : ((calculatePath (F := Int) 10 GameMode.osu [cp 0 0 tyL, cp 50 0, cp 50 0 tyL, cp 50 80] {}).toOption.map
    (·.1.path)) = some [pt 0 0, pt 50 0, pt 50 0, pt 50 80] := by decide
example : ((calculatePath (F := Int) 10 GameMode.osu [cp 0 0 tyL, cp 100 0] {}).toOption.map (·.1.path)) =
    some [pt 0 0, pt 100 0] := by decide

/-- non-vacuity of `calculatePath_linear_eq_ref` / `calculatePath_linear_positions`: the hypotheses hold on
`(0,0) L, (50,0), (50,0) L, (50,80)`, and the call succeeds. -/
example : ∃ b opt, calculatePath (F := Int) 10 GameMode.osu [cp 0 0 tyL, cp 50 0, cp 50 0 tyL, cp 50 80] {} = .ok (b, opt) ∧
    AllLinear [cp 0 0 tyL, cp 50 0, cp 50 0 tyL, cp 50 80] ∧
    (∀ c ∈ [cp 0 0 tyL, cp 50 0, cp 50 0 tyL, cp 50 80].dropLast, c.pathType ≠ none → Pos.eq c.pos c.pos = true) ∧
    b.path = [pt 0 0, pt 50 0, pt 50 0, pt 50 80] := by
  have hl : AllLinear [cp 0 0 tyL, cp 50 0, cp 50 0 tyL, cp 50 80] :=
    allLinear_of_forall _ (by decide)
  cases h : calculatePath (F := Int) 10 GameMode.osu [cp 0 0 tyL, cp 50 0, cp 50 0 tyL, cp 50 80] {} with
  | error e =>
    have : (calculatePath (F := Int) 10 GameMode.osu [cp 0 0 tyL, cp 50 0, cp 50 0 tyL, cp 50 80] {}).toOption.isSome = true := by
      decide
    rw [h] at this; cases this
  | ok r =>
    obtain ⟨b, opt⟩ := r
    have hrefl : ∀ c ∈ [cp 0 0 tyL, cp 50 0, cp 50 0 tyL, cp 50 80].dropLast, c.pathType ≠ none →
        Pos.eq c.pos c.pos = true := by decide
    exact ⟨b, opt, rfl, hl, hrefl, (calculatePath_linear_positions 10 GameMode.osu _ {} b opt hl hrefl h).1⟩

/-! ### `ref_length_le` is FALSE without the no-NaN hypothesis -/

def refZpt (x : ZN) (y : ZN) : Pos ZN := ⟨x, y⟩

/-- a typed first point with a NaN coordinate is emitted twice: 2 control points, 3 path vertices. -/
example : (refLinearNatural [⟨refZpt ZN.nan (ZN.num 0), tyL⟩, ⟨refZpt (ZN.num 1) (ZN.num 0), none⟩]).length = 3 := by decide
/-- a typed interior joint with a NaN coordinate is emitted twice: 3 control points, 4 path vertices. -/
example : (refLinearNatural [⟨refZpt (ZN.num 0) (ZN.num 0), none⟩, ⟨refZpt ZN.nan (ZN.num 0), tyL⟩,
    ⟨refZpt (ZN.num 1) (ZN.num 0), none⟩]).length = 4 := by decide

/-- so the bound `|path| ≤ |points|` does not hold for every equality: -/
theorem ref_length_le_false : ¬ ∀ (pts : List (PathControlPoint ZN)), (refLinearNatural pts).length ≤ pts.length := by
  intro h
  exact absurd (h [⟨refZpt ZN.nan (ZN.num 0), tyL⟩, ⟨refZpt (ZN.num 1) (ZN.num 0), none⟩]) (by decide)

attribute [local instance] C16.trigStub32

def refNan32 : Float32 := Float32.ofBits 0x7fc00000

/-- the same on the driver's `Float32`/`Float` instance, on the MODEL: `calculate_path` on `(NaN,0) L, (1,0)` returns a
path of 3 vertices for 2 control points. -/
theorem calculatePath_nan_joint_float32 :
    ((calculatePath (F := Float) 10 GameMode.osu
      [(⟨⟨refNan32, 0⟩, tyL⟩ : PathControlPoint Float32), ⟨⟨1, 0⟩, none⟩] {}).toOption.map (·.1.path.length)) = some 3 := by
  decide +kernel

end Examples

end Rosu.C16
