import RosuModel.Props.C19DecodedLinear
import RosuModel.Lemmas.ToyInt
import RosuModel.Lemmas.ToyNaN
namespace Rosu.C16
open Rosu Rosu.Curve
open Rosu.C19 (AllLinear)

section Ref
variable {P : Type}

def refEmit (eq : Pos P → Pos P → Bool) (out seg : List (Pos P)) : List (Pos P) :=
  match seg with
  | [v] => out ++ [v]
  | _ =>
    let skip := match out.getLast?, seg.head? with
      | some l, some f => eq l f
      | _, _ => false
    out ++ (if skip then seg.drop 1 else seg)

def refGo (eq : Pos P → Pos P → Bool) :
    List (Pos P) → List (Pos P) → List (PathControlPoint P) → List (Pos P)
  | out, _, [] => out
  | out, seg, p :: rest =>
    if p.pathType.isNone && !rest.isEmpty then refGo eq out (seg ++ [p.pos]) rest
    else refGo eq (refEmit eq out (seg ++ [p.pos])) [p.pos] rest

def refLinearNaturalBy (eq : Pos P → Pos P → Bool) (pts : List (PathControlPoint P)) : List (Pos P) :=
  refGo eq [] [] pts

def refLinearNatural [Scalar P] (pts : List (PathControlPoint P)) : List (Pos P) :=
  refLinearNaturalBy Pos.eq pts
end Ref

section Generic
variable {P F : Type} [Scalar P] [Scalar F] [Cvt P F] [Trig F] [Trig P]

theorem dedupJoint_append (path seg : List (Pos P)) :
    dedupJoint (path ++ seg) path.length = .ok (path ++
      (if (match path.getLast?, seg.head? with
          | some l, some f => Pos.eq l f
          | _, _ => false) then seg.drop 1 else seg)) := by
  rcases List.eq_nil_or_concat path with rfl | ⟨init, l, rfl⟩
  · simp [dedupJoint]
  · cases seg with
    | nil => simp [dedupJoint]
    | cons f t =>
      simp [dedupJoint, getI, rotateLeft1]
      have ht : List.take (init.length + 1) (init ++ l :: f :: t) = init ++ [l] := by
        rw [show init ++ l :: f :: t = (init ++ [l]) ++ (f :: t) by simp]
        exact List.take_left' (by simp)
      split
      · rw [ht]; simp
      · rfl

theorem seg_succ {α : Type} (verts : List α) (s k : Nat) (v : α) (hs : s ≤ k) (hv : verts[k]? = some v) :
    (verts.drop s).take (k + 1 - s) = (verts.drop s).take (k - s) ++ [v] := by
  have : k + 1 - s = (k - s) + 1 := by omega
  rw [this, List.take_add_one, List.getElem?_drop, show s + (k - s) = k by omega, hv]
  rfl

theorem refEmit_one (eq : Pos P → Pos P → Bool) (out : List (Pos P)) (v : Pos P) :
    refEmit eq out [v] = out ++ [v] := rfl

theorem refEmit_many (eq : Pos P → Pos P → Bool) (out seg : List (Pos P)) (h : ∀ v, seg ≠ [v]) :
    refEmit eq out seg = out ++
      (if (match out.getLast?, seg.head? with
          | some l, some f => eq l f
          | _, _ => false) then seg.drop 1 else seg) := by
  unfold refEmit
  split
  · rename_i v; exact absurd rfl (h v)
  · rfl

theorem segBody_ref (fuel : Nat) (mode : GameMode) (points : List (PathControlPoint P)) (hl : AllLinear points)
    (pre rest : List (PathControlPoint P)) (p : PathControlPoint P) (st st1 : SegState P F)
    (hpts : points = pre ++ p :: rest) (hs : st.start ≤ pre.length)
    (h : segBody fuel mode points (points.map (·.pos)) st pre.length = .ok st1) :
    ((p.pathType.isNone && !rest.isEmpty) = true → st1 = st) ∧
    ((p.pathType.isNone && !rest.isEmpty) = false →
      st1.path = refEmit Pos.eq st.path
        ((((points.map (·.pos)).drop st.start).take (pre.length - st.start)) ++ [p.pos]) ∧
      st1.start = pre.length) := by
  have hget : getI points pre.length = .ok p := getI_of_some _ _ _ (by rw [hpts]; simp)
  have hdec : decide (pre.length < points.length - 1) = !rest.isEmpty := by
    rw [hpts]; cases rest <;> simp
  have hvk : (points.map (·.pos))[pre.length]? = some p.pos := by rw [hpts]; simp
  have hseg := seg_succ (points.map (·.pos)) st.start pre.length p.pos hs hvk
  have hslice : sliceIncl (points.map (·.pos)) st.start pre.length =
      .ok ((((points.map (·.pos)).drop st.start).take (pre.length - st.start)) ++ [p.pos]) := by
    unfold sliceIncl
    have hlen : pre.length + 1 ≤ (points.map (·.pos)).length := by rw [hpts]; simp
    rw [if_pos ⟨by omega, hlen⟩, hseg]; rfl
  unfold segBody at h
  rw [hget] at h
  simp only [Outcome.ok_bind, hdec] at h
  cases hc : (p.pathType.isNone && !rest.isEmpty)
  · rw [hc] at h
    simp only [Bool.false_eq_true, if_false, hslice, Outcome.ok_bind] at h
    refine ⟨fun h' => (by cases h'), fun _ => ?_⟩
    generalize ((((points.map (·.pos)).drop st.start).take (pre.length - st.start)) ++ [p.pos]) = seg at h ⊢
    split at h
    · cases h
    · cases h; exact ⟨rfl, rfl⟩
    · rename_i hne1 hne2
      cases hsp : getI points st.start with
      | error e => rw [hsp] at h; cases h
      | ok sp =>
        rw [hsp] at h
        simp only [Outcome.ok_bind] at h
        have hkind : (match sp.pathType with | none => SplineType.linear | some t => t.kind) = SplineType.linear := by
          have hmem : sp ∈ points := List.mem_of_getElem? ((getI_ok_iff _ _ _).mp hsp)
          cases hp : sp.pathType with
          | none => rfl
          | some t => exact hl sp hmem t hp
        refine (?_ : ∀ k : SplineType, k = SplineType.linear →
          (do
            let __x ← calculateSubpath fuel mode seg k st.optLen st.bezier
            let path ← dedupJoint (st.path ++ __x.1) st.path.length
            pure { path := path, optLen := __x.2.1, bezier := __x.2.2, start := pre.length } :
              Outcome (SegState P F)) = Except.ok st1 → _) _ hkind h
        intro k hk h
        subst hk
        simp only [calculateSubpath, Outcome.pure_eq_ok, Outcome.ok_bind, dedupJoint_append] at h
        cases h
        exact ⟨(refEmit_many _ _ _ hne2).symm, rfl⟩
  · rw [hc] at h
    simp only [if_true, Outcome.pure_eq_ok, Except.ok.injEq] at h
    exact ⟨fun _ => h.symm, fun h' => (by cases h')⟩

theorem segFold_ref (fuel : Nat) (mode : GameMode) (points : List (PathControlPoint P)) (hl : AllLinear points) :
    ∀ (suf pre : List (PathControlPoint P)) (st st' : SegState P F),
      points = pre ++ suf → st.start ≤ pre.length →
      (List.range' pre.length suf.length).foldlM (segBody fuel mode points (points.map (·.pos))) st = .ok st' →
      st'.path = refGo Pos.eq st.path
        (((points.map (·.pos)).drop st.start).take (pre.length - st.start)) suf := by
  intro suf
  induction suf with
  | nil =>
    intro pre st st' _ _ h
    simp only [List.length_nil, List.range'_zero, List.foldlM_nil, Outcome.pure_eq_ok, Except.ok.injEq] at h
    subst h; rfl
  | cons p rest ih =>
    intro pre st st' hpts hs h
    rw [List.length_cons, List.range'_succ, List.foldlM_cons] at h
    obtain ⟨st1, h1, h2⟩ := Outcome.bind_eq_ok h
    obtain ⟨hskip, hflush⟩ := segBody_ref fuel mode points hl pre rest p st st1 hpts hs h1
    have hpts' : points = (pre ++ [p]) ++ rest := by rw [hpts]; simp
    have hlen' : (pre ++ [p]).length = pre.length + 1 := by simp
    have hvk : (points.map (·.pos))[pre.length]? = some p.pos := by rw [hpts]; simp
    rw [← hlen'] at h2
    cases hc : (p.pathType.isNone && !rest.isEmpty)
    · obtain ⟨hp, hstart⟩ := hflush hc
      have := ih (pre ++ [p]) st1 st' hpts' (by rw [hlen', hstart]; omega) h2
      rw [this, hlen', hstart, hp, seg_succ _ _ _ _ (Nat.le_refl _) hvk]
      simp only [Nat.sub_self, List.take_zero, List.nil_append]
      rw [refGo, hc]
      simp only [Bool.false_eq_true, if_false]
    · have hst := hskip hc
      subst hst
      have := ih (pre ++ [p]) st1 st' hpts' (by rw [hlen']; omega) h2
      rw [this, hlen', seg_succ _ _ _ _ hs hvk]
      rw [refGo.eq_2, hc]
      simp only [if_true]

/-- **`calculatePath_linear_eq_ref`** -/
theorem calculatePath_linear_eq_ref (fuel : Nat) (mode : GameMode) (points : List (PathControlPoint P))
    (bufs b : CurveBuffers P F) (opt : F) (hl : AllLinear points)
    (h : calculatePath fuel mode points bufs = .ok (b, opt)) :
    b.path = refLinearNatural points ∧ opt = (0 : F) := by
  refine ⟨?_, (C19.linear_path_vertices fuel mode points bufs b opt hl h).2.2⟩
  unfold calculatePath at h
  split at h
  · rename_i he
    cases h
    cases points with
    | nil => rfl
    | cons _ _ => simp at he
  · simp only [] at h
    obtain ⟨st, hfold, h⟩ := Outcome.bind_eq_ok h
    cases h
    rw [List.range_eq_range'] at hfold
    have := segFold_ref fuel mode points hl points [] _ st (by simp) (Nat.le_refl _) hfold
    simpa [refLinearNatural, refLinearNaturalBy] using this

end Generic
end Rosu.C16
