/-
  Props/C19Curve.lean — C19 ∘ C16: the chord hypothesis of `position_lipschitz` is supplied by C16's lemmas for every
  curve built without a requested length.

  * `natLens_chord` (exact arithmetic, `optimized_len ≥ 0`): in the natural cumulative lengths every booked segment
    length is at least the chord — equal for every segment but the first, which also carries `optimized_len`.
  * `natural_curve_lipschitz_real`: over the reals, for every curve `Curve::new(mode, points, None, bufs)` builds
    (any mode, control points, fuel, buffers) whose lengths strictly increase by more than `EPSILON`, `position_at` is
    1-Lipschitz in arc length with the model's own Euclidean `Pos::distance`. (`optimized_len ≥ 0` is
    `calculatePath_optLen_nonneg`; alignment and the leading `0.0` are C16's structural theorems.)
  Not covered: curves with a requested length (the re-projected last segment needs `end_point_distance` and a
  non-zero-length segment), zero-length segments (then `StrictSorted` fails), IEEE.
-/
import RosuModel.Props.C19Lipschitz
import RosuModel.Props.C16Surplus
set_option linter.unusedSectionVars false
set_option linter.unusedVariables false
namespace Rosu.C19
open Rosu Rosu.Curve Rosu.C16

variable {P F K : Type} [Scalar P] [Scalar F] [Cvt P F] [Field K] [LinearOrder K] [IsStrictOrderedRing K]
variable {φ : P → K} {ψ : F → K}

/-- **booked length ≥ chord** for the natural lengths (exact arithmetic, `optimized_len ≥ 0`). -/
theorem natLens_chord (E : ExactArith φ ψ) (opt : F) (hopt : 0 ≤ ψ opt) (path : List (Pos P)) :
    ∀ i p p' x y, path[i]? = some p → path[i + 1]? = some p' → (natLens opt path)[i]? = some x →
      (natLens opt path)[i + 1]? = some y → Scalar.le (Cvt.up (Pos.distance F p' p)) (y - x) = true := by
  intro i p p' x y hp hp' hx hy
  cases i with
  | zero =>
    match path, hp, hp' with
    | a :: b :: t, hp, hp' =>
      simp only [List.getElem?_cons_zero, List.getElem?_cons_succ, Option.some.injEq] at hp hp'
      subst hp hp'
      unfold natLens at hx hy
      rw [cumLens_cons2] at hy
      simp only [List.getElem?_cons_zero, List.getElem?_cons_succ, Option.some.injEq] at hx hy
      subst hx hy
      rw [E.f.le_iff, E.f.sub, E.f.add, E.f.zero]
      unfold Pos.distance
      linarith
  | succ i =>
    have := natLens_step opt path (i + 1) p p' x (by omega) hp hp' hx
    rw [hy] at this
    cases this
    rw [E.f.le_iff, E.f.sub, E.f.add]
    unfold Pos.distance
    linarith

section Real
open Rosu.RealInst
variable [Trig ℝ]

/-- **`position_at` is 1-Lipschitz on every naturally built curve** (reals; the model's own `Pos::distance`). -/
theorem natural_curve_lipschitz_real (fuel : Nat) (mode : GameMode) (pts : List (PathControlPoint ℝ))
    (bufs bufs' : CurveBuffers ℝ ℝ) (c : Curve ℝ ℝ)
    (h : Curve.new fuel mode pts none bufs = .ok (c, bufs')) (hne : c.path ≠ [])
    (hs : StrictSorted c.lengths) (hdeg : NonDegenerate c.lengths)
    (q r : ℝ) (a b : Pos ℝ) (hq : Scalar.le 0 q = true) (hqr : Scalar.le q r = true) (hr : Scalar.le r 1 = true)
    (ha : positionAt c.path c.lengths q = .ok a) (hb : positionAt c.path c.lengths r = .ok b) :
    Scalar.le (Cvt.up (Pos.distance ℝ b a) : ℝ) ((r - q) * Curve.dist c.lengths) = true := by
  obtain ⟨b1, opt, hp, hl⟩ := new_is_calculateLength fuel mode pts none bufs bufs' c h
  have hopt := calculatePath_optLen_nonneg exactArith_real sqrtLaws_real fuel mode pts bufs b1 opt hp
  rw [dist_natural_when_none] at hl
  simp only [Except.ok.injEq, Prod.mk.injEq] at hl
  obtain ⟨hpath, hlens⟩ := hl
  have hne' : b1.path ≠ [] := by rw [hpath]; exact hne
  apply position_lipschitz_real c.path c.lengths q r a b
  · rw [← hpath, ← hlens, natLens_length opt b1.path hne']
  · rw [← hlens]; rfl
  · exact hs
  · exact hdeg
  · rw [← hpath, ← hlens]
    exact natLens_chord exactArith_real opt hopt b1.path
  · exact hq
  · exact hqr
  · exact hr
  · exact ha
  · exact hb

end Real

end Rosu.C19
