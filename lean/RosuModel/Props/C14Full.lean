/-
  Props/C14Full.lean — the module audited for C14: Props/C14Grammar.lean (and what it imports) together with
  Props/C14Ieee.lean (the IEEE / real-analysis instantiations). All in namespace Rosu.C14.
-/
import RosuModel.Props.C14Grammar
import RosuModel.Props.C14Ieee
import RosuModel.Props.C14IeeePos
