/-
  Props/C02IeeeTiming2.lean — C02, timing clause on IEEE doubles, part 2: **does the slider-velocity drift of
  decode → encode → decode stop after one round?**  (`svRoundtrip`, `beatLenWritten`, `speedRead` are the modelled
  encoder / decoder steps of Props/C02IeeeTiming.lean.)

  Numerical answer (outside Lean, C program on IEEE doubles, x86-64 SSE2): YES on every sample —
  `2.2 · 10⁹` random doubles of `[0.1, 10]` (uniform in the bit pattern), windows of `6 · 10⁶` consecutive doubles around
  each of 40 critical points (powers of two, `100 / 2^j`, `1.25 · 2^k`, `√50 · 2^k`, `0.1`, `10`, `0.2 · 2^k`), all
  `k / 2^m ≤ 10` with `k ≤ 2 · 10⁶`, `m ≤ 30`, all decimals `k / 10^m`, `m ≤ 7`: about `8.5 %` of the doubles move in the
  first round (each by one ulp), NONE moves in the second; moreover the re-written beat length is always the SAME double
  (`beatLenWritten (svRoundtrip sv) = beatLenWritten sv`), which is the reason. No counterexample exists in the search.

  Proved here (all for `Float`):
  * `sv_roundtrip_mono_float`, `scroll_roundtrip_mono_float`: one round trip is MONOTONE on the decoded range (IEEE `<=`):
    both correctly rounded divisions are antitone in the denominator (`FAM.div_le_div_left_neg_float`,
    `FAM.div_le_div_left_pos_float` — new, Lemmas/FloatDivAntiPos.lean), negation is antitone, the clamp is monotone;
  * `sv_drift_direction_float`: **the drift never reverses**: if the first round moved the value up (down), every later
    round moves it up (down) or not at all — `sv_orbit_up_float`, `sv_orbit_down_float` for all iterates;
  * `sv_no_cycle_float`: **there is no cycle**: if any number `k+1` of rounds returns to the starting value, the very
    first round already did not move it (IEEE `==`, and equal exact values). Together with the bound of
    `sv_roundtrip_err_float` at each step: the orbit is a monotone sequence of doubles inside `[0.1, 10]`, so it is
    eventually constant — the drift does stop; what is not proved is that it stops after ONE round;
  * `sv_roundtrip_stable_float_partial`: idempotence under the explicit side condition that the re-written beat length
    is the same double, `beatLenWritten (svRoundtrip sv) = beatLenWritten sv` (true on every sample, see above);
  * `sv_roundtrip_stable_critical_float`: idempotence AND the side condition kernel-evaluated on 48 doubles at the places
    where a failure would have to sit (mantissa of the beat length next to a power of two: `sv` next to `100 / 2^j`;
    mantissa ratio next to 1: `sv` next to `√50 · 2^k`; `1.25 · 2^k`; the range ends).
  The full statement stays `sv_roundtrip_idempotent_float_statement` (Props/C02IeeeTiming.lean), restated here as
  `sv_roundtrip_stable_float_statement`. What a proof still needs is written at the end of this file.
-/
import RosuModel.Props.C02IeeeTiming
import RosuModel.Props.C20IeeeFormsOrder
import RosuModel.Lemmas.FloatDivAntiPos
namespace Rosu.C02
open Rosu Scalar Rosu.FErr Rosu.C15

/-! ### monotonicity of the three steps -/

theorem negHundred_fnz_float : FMO.isFiniteNonzero (-100 : Float).toModel.unpack = true := by decide +kernel
theorem hundred_fnz_float : FMO.isFiniteNonzero (100 : Float).toModel.unpack = true := by decide +kernel

/-- **write-then-read is monotone** on `[0.01, 10]`: `x ≤ x'` ⟹ `100 / −(−100 / x) ≤ 100 / −(−100 / x')`, after both
roundings. -/
theorem svReread_mono_float (x x' : Float)
    (h1 : Scalar.le (0.01 : Float) x = true) (h2 : Scalar.le x (10 : Float) = true)
    (h1' : Scalar.le (0.01 : Float) x' = true) (h2' : Scalar.le x' (10 : Float) = true)
    (h : Scalar.le x x' = true) : Scalar.le (svReread x) (svReread x') = true := by
  obtain ⟨fx, V1, _, V2⟩ := scroll_range_float x h1 h2
  obtain ⟨fx', V1', _, V2'⟩ := scroll_range_float x' h1' h2'
  obtain ⟨hlt, fb, hre, _, _⟩ := reread_factors_float x fx V1 V2
  obtain ⟨hlt', fb', hre', _, _⟩ := reread_factors_float x' fx' V1' V2'
  have hx0 : Scalar.lt (0 : Float) x = true := FMO.lt_of_lt_of_le _ _ _ (by decide +kernel) h1
  -- (1) the written beat lengths: b ≤ b'
  have hbb : Scalar.le ((-100 : Float) / x) ((-100 : Float) / x') = true :=
    FAM.div_le_div_left_neg_float (-100) x x' negHundred_fnz_float (by decide +kernel) hx0 h
  change Scalar.lt ((-100 : Float) / x) 0 = true at hlt
  change Scalar.lt ((-100 : Float) / x') 0 = true at hlt'
  change ((-100 : Float) / x).isFinite = true at fb
  change ((-100 : Float) / x').isFinite = true at fb'
  -- (2) negation: −b' ≤ −b
  have hnn : Scalar.le (-((-100 : Float) / x')) (-((-100 : Float) / x)) = true := by
    refine C20.le_of_toRat_le _ _ (by rw [neg_isFinite]; exact fb') (by rw [neg_isFinite]; exact fb) ?_
    rw [toRat_neg, toRat_neg]
    have := toRat_le_of_le _ _ fb fb' hbb
    linarith
  have hpos : Scalar.lt (0 : Float) (-((-100 : Float) / x')) = true := by
    cases hc : Scalar.lt (0 : Float) (-((-100 : Float) / x'))
    · exfalso
      have fn : (-((-100 : Float) / x')).isFinite = true := by rw [neg_isFinite]; exact fb'
      have l := FMO.le_of_not_lt (0 : Float) _ (by decide +kernel) (not_nan_of_finite _ fn) hc
      have a := toRat_le_of_le _ _ fn (by decide +kernel) l
      have b := C20.toRat_lt_of_lt _ _ fb' (by decide +kernel) hlt'
      rw [toRat_neg, toRat_zero] at a
      rw [toRat_zero] at b
      linarith
    · rfl
  -- (3) the second division
  rw [hre, hre']
  exact FAM.div_le_div_left_pos_float 100 _ _ hundred_fnz_float (by decide +kernel) hpos hnn

/-- **`clamp(·, lo, hi)` is monotone on numbers** (`lo ≤ hi`). -/
theorem clamp_mono_gen_float (lo hi q₁ q₂ : Float) (hlh : Scalar.le lo hi = true) (h : Scalar.le q₁ q₂ = true) :
    Scalar.le (Scalar.clamp q₁ lo hi) (Scalar.clamp q₂ lo hi) = true := by
  obtain ⟨n1, n2⟩ := FMO.not_nan_of_le h
  obtain ⟨nlo, nhi⟩ := FMO.not_nan_of_le hlh
  have hl : Scalar.lt hi lo = false := FMO.not_lt_of_le _ _ hlh
  cases l1 : Scalar.lt q₁ lo
  · -- q₁ ≥ lo, hence q₂ ≥ lo
    have l2 : Scalar.lt q₂ lo = false := by
      cases hh : Scalar.lt q₂ lo
      · rfl
      · rw [FMO.lt_of_le_of_lt _ _ _ h hh] at l1; cases l1
    cases u1 : Scalar.lt hi q₁
    · cases u2 : Scalar.lt hi q₂
      · have e1 : Scalar.clamp q₁ lo hi = q₁ := by unfold Scalar.clamp; simp [l1, u1]
        have e2 : Scalar.clamp q₂ lo hi = q₂ := by unfold Scalar.clamp; simp [l2, u2]
        rw [e1, e2]; exact h
      · have e1 : Scalar.clamp q₁ lo hi = q₁ := by unfold Scalar.clamp; simp [l1, u1]
        have e2 : Scalar.clamp q₂ lo hi = hi := by unfold Scalar.clamp; simp [l2, u2]
        rw [e1, e2]; exact FMO.le_of_not_lt _ _ nhi n1 u1
    · have u2 : Scalar.lt hi q₂ = true := FMO.lt_of_lt_of_le _ _ _ u1 h
      have e1 : Scalar.clamp q₁ lo hi = hi := by unfold Scalar.clamp; simp [l1, u1]
      have e2 : Scalar.clamp q₂ lo hi = hi := by unfold Scalar.clamp; simp [l2, u2]
      rw [e1, e2]; exact FMO.le_refl _ nhi
  · have e1 : Scalar.clamp q₁ lo hi = lo := by unfold Scalar.clamp; simp [l1, hl]
    rw [e1]
    cases l2 : Scalar.lt q₂ lo
    · cases u2 : Scalar.lt hi q₂
      · have e2 : Scalar.clamp q₂ lo hi = q₂ := by unfold Scalar.clamp; simp [l2, u2]
        rw [e2]; exact FMO.le_of_not_lt _ _ n2 nlo l2
      · have e2 : Scalar.clamp q₂ lo hi = hi := by unfold Scalar.clamp; simp [l2, u2]
        rw [e2]; exact hlh
    · have e2 : Scalar.clamp q₂ lo hi = lo := by unfold Scalar.clamp; simp [l2, hl]
      rw [e2]; exact FMO.le_refl _ nlo

/-- the slider-velocity range lies inside the scroll-speed range. -/
theorem le_001_of_le_01 (x : Float) (h : Scalar.le (0.1 : Float) x = true) : Scalar.le (0.01 : Float) x = true :=
  FMO.le_trans _ _ _ (by decide +kernel) h

/-- **sv_roundtrip_mono_float** — one decode → encode → decode is monotone on stored slider velocities. -/
theorem sv_roundtrip_mono_float (x x' : Float)
    (h1 : Scalar.le (0.1 : Float) x = true) (h2 : Scalar.le x (10 : Float) = true)
    (h1' : Scalar.le (0.1 : Float) x' = true) (h2' : Scalar.le x' (10 : Float) = true)
    (h : Scalar.le x x' = true) : Scalar.le (svRoundtrip x) (svRoundtrip x') = true :=
  clamp_mono_gen_float _ _ _ _ (by decide +kernel)
    (svReread_mono_float x x' (le_001_of_le_01 x h1) h2 (le_001_of_le_01 x' h1') h2' h)

/-- the same for the scroll speed of taiko / mania. -/
theorem scroll_roundtrip_mono_float (x x' : Float)
    (h1 : Scalar.le (0.01 : Float) x = true) (h2 : Scalar.le x (10 : Float) = true)
    (h1' : Scalar.le (0.01 : Float) x' = true) (h2' : Scalar.le x' (10 : Float) = true)
    (h : Scalar.le x x' = true) : Scalar.le (scrollRoundtrip x) (scrollRoundtrip x') = true :=
  clamp_mono_gen_float _ _ _ _ (by decide +kernel) (svReread_mono_float x x' h1 h2 h1' h2' h)

/-- non-vacuity: the hypotheses on a pair of distinct values, and the conclusion there is strict. -/
example : Scalar.le (0.1 : Float) (1.31 : Float) = true ∧ Scalar.le (1.35 : Float) (10 : Float) = true ∧
    Scalar.le (1.31 : Float) (1.35 : Float) = true ∧
    Scalar.lt (svRoundtrip (1.31 : Float)) (svRoundtrip (1.35 : Float)) = true := by decide +kernel

/-! ### the drift never reverses -/

/-- `k` round trips. -/
def svRounds : Nat → Float → Float
  | 0, sv => sv
  | k + 1, sv => svRoundtrip (svRounds k sv)

theorem svRounds_succ' (k : Nat) (sv : Float) : svRounds (k + 1) sv = svRounds k (svRoundtrip sv) := by
  induction k with
  | zero => rfl
  | succ n ih => show svRoundtrip (svRounds (n + 1) sv) = svRoundtrip (svRounds n (svRoundtrip sv)); rw [ih]

/-- every iterate is in the decoded range. -/
theorem svRounds_within_float (sv : Float) (h1 : Scalar.le (0.1 : Float) sv = true)
    (h2 : Scalar.le sv (10 : Float) = true) (k : Nat) :
    Scalar.le (0.1 : Float) (svRounds k sv) = true ∧ Scalar.le (svRounds k sv) (10 : Float) = true := by
  induction k with
  | zero => exact ⟨h1, h2⟩
  | succ n ih => exact sv_roundtrip_within_float _ ih.1 ih.2

/-- **sv_drift_direction_float** — if the first round trip moved the stored value up, the second does not move it
down; if it moved it down, the second does not move it up. -/
theorem sv_drift_direction_float (sv : Float) (h1 : Scalar.le (0.1 : Float) sv = true)
    (h2 : Scalar.le sv (10 : Float) = true) :
    (Scalar.le sv (svRoundtrip sv) = true → Scalar.le (svRoundtrip sv) (svRoundtrip (svRoundtrip sv)) = true) ∧
    (Scalar.le (svRoundtrip sv) sv = true → Scalar.le (svRoundtrip (svRoundtrip sv)) (svRoundtrip sv) = true) := by
  obtain ⟨w1, w2⟩ := sv_roundtrip_within_float sv h1 h2
  exact ⟨fun h => sv_roundtrip_mono_float _ _ h1 h2 w1 w2 h, fun h => sv_roundtrip_mono_float _ _ w1 w2 h1 h2 h⟩

/-- non-vacuity: `1.31` drifts up, `2.75` drifts down (strictly), both in range; `BeatStable` holds for both. -/
example : Scalar.le (0.1 : Float) (1.31 : Float) = true ∧ Scalar.le (2.75 : Float) (10 : Float) = true ∧
    Scalar.lt (1.31 : Float) (svRoundtrip 1.31) = true ∧ Scalar.lt (svRoundtrip 2.75) (2.75 : Float) = true ∧
    beatLenWritten (svRoundtrip 1.31) = beatLenWritten 1.31 ∧ beatLenWritten (svRoundtrip 2.75) = beatLenWritten 2.75 := by
  decide +kernel

/-- upward drift: the whole orbit is non-decreasing. -/
theorem sv_orbit_up_float (sv : Float) (h1 : Scalar.le (0.1 : Float) sv = true) (h2 : Scalar.le sv (10 : Float) = true)
    (hu : Scalar.le sv (svRoundtrip sv) = true) (k : Nat) :
    Scalar.le (svRounds k sv) (svRounds (k + 1) sv) = true := by
  induction k with
  | zero => exact hu
  | succ n ih =>
    obtain ⟨a1, a2⟩ := svRounds_within_float sv h1 h2 n
    obtain ⟨b1, b2⟩ := svRounds_within_float sv h1 h2 (n + 1)
    exact sv_roundtrip_mono_float _ _ a1 a2 b1 b2 ih

/-- downward drift: the whole orbit is non-increasing. -/
theorem sv_orbit_down_float (sv : Float) (h1 : Scalar.le (0.1 : Float) sv = true) (h2 : Scalar.le sv (10 : Float) = true)
    (hd : Scalar.le (svRoundtrip sv) sv = true) (k : Nat) :
    Scalar.le (svRounds (k + 1) sv) (svRounds k sv) = true := by
  induction k with
  | zero => exact hd
  | succ n ih =>
    obtain ⟨a1, a2⟩ := svRounds_within_float sv h1 h2 n
    obtain ⟨b1, b2⟩ := svRounds_within_float sv h1 h2 (n + 1)
    exact sv_roundtrip_mono_float _ _ b1 b2 a1 a2 ih

theorem sv_orbit_up_from_one (sv : Float) (h1 : Scalar.le (0.1 : Float) sv = true) (h2 : Scalar.le sv (10 : Float) = true)
    (hu : Scalar.le sv (svRoundtrip sv) = true) (k : Nat) :
    Scalar.le (svRoundtrip sv) (svRounds (k + 1) sv) = true := by
  induction k with
  | zero => exact FMO.le_refl _ (FMO.not_nan_of_le hu).2
  | succ n ih => exact FMO.le_trans _ _ _ ih (sv_orbit_up_float sv h1 h2 hu (n + 1))

theorem sv_orbit_down_from_one (sv : Float) (h1 : Scalar.le (0.1 : Float) sv = true) (h2 : Scalar.le sv (10 : Float) = true)
    (hd : Scalar.le (svRoundtrip sv) sv = true) (k : Nat) :
    Scalar.le (svRounds (k + 1) sv) (svRoundtrip sv) = true := by
  induction k with
  | zero => exact FMO.le_refl _ (FMO.not_nan_of_le hd).1
  | succ n ih => exact FMO.le_trans _ _ _ (sv_orbit_down_float sv h1 h2 hd (n + 1)) ih

/-- IEEE `<=` both ways is IEEE `==`. -/
theorem eq_of_le_le_float (a b : Float) (h1 : Scalar.le a b = true) (h2 : Scalar.le b a = true) :
    Scalar.eq a b = true := by
  have := FMO.le_eq_lt_or_eq a b
  rw [h1, FMO.not_lt_of_le _ _ h2, Bool.false_or] at this
  exact this.symm

/-- **sv_no_cycle_float** — the round trip has no cycle other than a fixed point: if `k + 1` round trips bring a stored
slider velocity back to the value it started from (IEEE `==`), the first round trip already left it where it was
(IEEE `==`; the exact values are equal). So the orbit of every value is monotone and never returns: being confined to
the finitely many doubles of `[0.1, 10]`, it is eventually constant. -/
theorem sv_no_cycle_float (sv : Float) (h1 : Scalar.le (0.1 : Float) sv = true) (h2 : Scalar.le sv (10 : Float) = true)
    (k : Nat) (hc : Scalar.eq (svRounds (k + 1) sv) sv = true) :
    Scalar.eq (svRoundtrip sv) sv = true ∧ toRat (svRoundtrip sv) = toRat sv := by
  obtain ⟨fsv, _, _, _⟩ := sv_range_float sv h1 h2
  obtain ⟨w1, w2⟩ := sv_roundtrip_within_float sv h1 h2
  obtain ⟨fr, _, _, _⟩ := sv_range_float _ w1 w2
  have nsv := not_nan_of_finite _ fsv
  have nr := not_nan_of_finite _ fr
  have hcl : Scalar.le (svRounds (k + 1) sv) sv = true := FMO.le_of_eq _ _ hc
  have hcg : Scalar.le sv (svRounds (k + 1) sv) = true :=
    FMO.le_of_eq _ _ (by rw [FMO.eq_symm]; exact hc)
  have key : Scalar.le (svRoundtrip sv) sv = true ∧ Scalar.le sv (svRoundtrip sv) = true := by
    rcases FMO.le_total sv (svRoundtrip sv) nsv nr with hu | hd
    · exact ⟨FMO.le_trans _ _ _ (sv_orbit_up_from_one sv h1 h2 hu k) hcl, hu⟩
    · exact ⟨hd, FMO.le_trans _ _ _ hcg (sv_orbit_down_from_one sv h1 h2 hd k)⟩
  refine ⟨eq_of_le_le_float _ _ key.1 key.2, le_antisymm ?_ ?_⟩
  · exact toRat_le_of_le _ _ fr fsv key.1
  · exact toRat_le_of_le _ _ fsv fr key.2

/-- non-vacuity of `sv_no_cycle_float`: a value that does return (`1.5`, a fixed point), with `k = 2`. -/
example : Scalar.le (0.1 : Float) (1.5 : Float) = true ∧ Scalar.le (1.5 : Float) (10 : Float) = true ∧
    Scalar.eq (svRounds 3 (1.5 : Float)) (1.5 : Float) = true := by decide +kernel

/-- the orbits of the drifting witnesses: one step, then constant (kernel-evaluated, five rounds). -/
theorem sv_orbit_witnesses_float :
    ∀ sv ∈ [(2.75 : Float), 1.31, 1.35, 0.17, 5.4, 0.19],
      svRounds 1 sv ≠ sv ∧ svRounds 5 sv = svRounds 1 sv := by
  decide +kernel

/-! ### idempotence: statement, conditional theorem, critical values -/

/-- **the full statement** (= `sv_roundtrip_idempotent_float_statement`): NOT proved. -/
def sv_roundtrip_stable_float_statement : Prop :=
  ∀ sv : Float, Scalar.le (0.1 : Float) sv = true → Scalar.le sv (10 : Float) = true →
    svRoundtrip (svRoundtrip sv) = svRoundtrip sv

theorem sv_roundtrip_stable_float_statement_iff :
    sv_roundtrip_stable_float_statement ↔ sv_roundtrip_idempotent_float_statement := Iff.rfl

/-- the side condition: the second encode writes the same beat length (the same double, hence the same text). -/
@[reducible] def BeatStable (sv : Float) : Prop := beatLenWritten (svRoundtrip sv) = beatLenWritten sv

/-- **sv_roundtrip_stable_float_partial** — if the beat length written for the re-read value is the double written in
the first place, the second round trip returns the same double as the first. (The side condition held on all
`2.2 · 10⁹ + 2.4 · 10⁸` sampled doubles; it is `fl(100 / fl(100 / fl(100 / x))) = fl(100 / x)`.) -/
theorem sv_roundtrip_stable_float_partial (sv : Float) (hb : BeatStable sv) :
    svRoundtrip (svRoundtrip sv) = svRoundtrip sv := by
  unfold BeatStable at hb
  show Scalar.clamp (speedRead (beatLenWritten (svRoundtrip sv))) (0.1 : Float) 10 = svRoundtrip sv
  rw [hb]; rfl

/-- the doubles at bit distance `−1, 0, +1` of a double. -/
def nbrs (x : Float) : List Float :=
  [Float.ofBits (x.toBits - 1), x, Float.ofBits (x.toBits + 1)]

/-- **sv_roundtrip_stable_critical_float** — idempotence and the side condition, kernel-evaluated on the three doubles
around each of: `100 / 2^j` (the written beat length next to a power of two: `6.25, 3.125, 1.5625, 0.78125, 0.390625,
0.1953125`), `√50 · 2^k` (mantissas of `sv` and beat length next to each other: `7.07…, 3.53…, 1.76…, 0.88…, 0.44…,
0.22…`), `1.25 · 2^k` (`5, 2.5, 1.25, 0.625`). -/
theorem sv_roundtrip_stable_critical_float :
    ∀ c ∈ [(6.25 : Float), 3.125, 1.5625, 0.78125, 0.390625, 0.1953125,
        7.0710678118654755, 3.5355339059327378, 1.7677669529663689, 0.88388347648318444, 0.44194173824159222,
        0.22097086912079611, 5, 2.5, 1.25, 0.625],
      ∀ sv ∈ nbrs c, Scalar.le (0.1 : Float) sv = true ∧ Scalar.le sv (10 : Float) = true ∧
        BeatStable sv ∧ svRoundtrip (svRoundtrip sv) = svRoundtrip sv := by
  decide +kernel

/-- the ends of the range: `0.1` and its successor, `10` and its predecessor. -/
theorem sv_roundtrip_stable_ends_float :
    ∀ sv ∈ [(0.1 : Float), Float.ofBits ((0.1 : Float).toBits + 1), 10, Float.ofBits ((10 : Float).toBits - 1)],
      Scalar.le (0.1 : Float) sv = true ∧ Scalar.le sv (10 : Float) = true ∧
        svRoundtrip (svRoundtrip sv) = svRoundtrip sv := by
  decide +kernel

/-
  What is missing for `sv_roundtrip_stable_float_statement`.

  By `sv_roundtrip_stable_float_partial` it is enough to show `BeatStable sv` in the interior of the clamp, i.e. with
  `h(t) = fl(100 / t)`, `b = h(x)`, `y = h(b)`: `h(y) = b`. The real set `S_b = { t : fl(100 / t) = b }` is an interval
  around `100 / b` that contains the double `x`; `y` is the double nearest to `100 / b`. If `y` lies on the same side of
  `100 / b` as `x`, it lies between them, hence in `S_b` (this step IS the monotonicity proved above:
  `FAM.div_le_div_left_pos_float`). If it lies on the other side, it is at most as far from `100 / b` as `x` is, and `S_b`
  is symmetric around `100 / b` up to the second order (`100/(b−h) − 100/b` vs `100/b − 100/(b+h)`, ratio `1 + 2h/b`,
  `h = ½ ulp b`) — or asymmetric by a factor 2 when `b` is a power of two, the LONGER half being the lower one in `t`,
  which needs its own case. So a failure needs `100 / b` within relative `≈ 2⁻¹⁰⁵` of the midpoint of two adjacent doubles
  AND `ulp(y) · b² ≈ 100 · ulp(b)` to `2⁻⁵²`, i.e. equal mantissas of `y` and `b` to a few units: `b ≈ √200 · 2^k`,
  `x ≈ √50 · 2^k`; there `100 / b − (y + ½ ulp y)` is `N · 2^(e_b + e_y) / (2b)` with the non-zero integer
  `N = 200 · 2^−(e_b+e_y) − m_b (2 m_y + 1)` (non-zero because `2 m_y + 1` is odd and `> 25`), which is of the SAME order
  as the asymmetry `≈ 200 h² / b³` — the integrality argument decides it only after a finite enumeration of the few
  `(m_b, m_y)` near `5√2 · 2^50`. The Lean side lacks "uniqueness of rounding" (`|V − toRat r| < ½ ulp r` ⟹ `fl V = r`) in
  Lemmas/FloatErr*.lean; `Rnd` only gives the half-ulp bound, `FRM.Shape` has the grid. With it the proof above is
  about 300 lines; the numerical search (header) found no exception, including `±3 · 10⁶` doubles around `√50 · 2^k`.
-/

end Rosu.C02
