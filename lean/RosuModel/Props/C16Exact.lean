/-
  Props/C16Exact.lean — C16, the exact-arithmetic part stated **once**, for every scalar satisfying the ordered-field
  law structure `ExactArith` (Lemmas/ExactArith.lean), and about `calculateLength` itself (the function the driver
  runs), not about per-theorem law lists instantiated on different toy types.

  * `monoLaws_of_exact`, `sumLaws_of_exact`, `rayLaws_of_exact`, `ordLaws_of_exact`: the four ad-hoc law structures of
    Props/C16.lean all follow from `ExactArith`; hence `lengths_monotone`, `catmull_simplify_preserves_length`,
    `end_point_on_ray`, `cut_param_range` hold for every exact scalar — in particular on `Rat` (`exactArith_rat`) and on
    `ℝ` (`exactArith_real`), the same instance for all of them.
  * `calculateLength_lengths_monotone`: the cumulative lengths **returned by `calculate_length`** never decrease, in all
    five outcomes (natural, near, equal-tail, collapsed, cut/extension), for `optimized_len ≥ 0`.
  * `calculateLength_end_on_ray`: in the cut/extension outcome the returned path is the first `k` natural points
    followed by `p_k + (p_{k+1} − p_k)·t`, `t = (L − len_k)/|p_{k+1} − p_k|`, and `0 < L − len_k`.
  * `end_point_distance` (+ `SqrtLaws`): that end point is at distance exactly `L − len_k` from `p_k`
    (squared form), when the segment is not of zero length (F11 is the zero-length case).
-/
import RosuModel.Props.C16
import RosuModel.Lemmas.ExactArith
import RosuModel.Lemmas.RealScalar
set_option linter.unusedSectionVars false
set_option linter.unusedVariables false
namespace Rosu.C16
open Rosu Rosu.Curve

variable {P F K : Type} [Scalar P] [Scalar F] [Cvt P F] [Field K] [LinearOrder K] [IsStrictOrderedRing K]
variable {φ : P → K} {ψ : F → K}

/-! ### the per-theorem law lists are consequences of `ExactArith` -/

theorem monoLaws_of_exact (E : ExactArith φ ψ) : MonoLaws P F where
  len_nonneg v := by
    rw [E.f.le_iff, E.f.zero, E.up]
    exact E.length_nonneg v
  le_add a x h := by
    rw [E.f.le_iff, E.f.zero] at h
    rw [E.f.le_iff, E.f.add]
    linarith

theorem sumLaws_of_exact (E : ExactArith φ ψ) : SumLaws P F where
  add_assoc a b c := by apply E.f.inj; simp only [E.f.add]; ring
  add_comm a b := by apply E.f.inj; simp only [E.f.add]; ring
  add_zero a := by apply E.f.inj; simp only [E.f.add, E.f.zero]; ring
  sub_add_cancel a b := by apply E.f.inj; simp only [E.f.add, E.f.sub]; ring
  dist_symm a b := by
    unfold Pos.length
    have : (a - b).x * (a - b).x + (a - b).y * (a - b).y = (b - a).x * (b - a).x + (b - a).y * (b - a).y := by
      apply E.p.inj
      simp only [Pos.sub_x, Pos.sub_y, E.p.add, E.p.mul, E.p.sub]
      ring
    rw [this]

theorem rayLaws_of_exact (E : ExactScalar φ) : RayLaws P where
  mul_assoc a b c := by apply E.inj; simp only [E.mul]; ring
  recip_mul a s := by apply E.inj; rw [E.mul, E.recip, E.div]; ring

theorem ordLaws_of_exact (E : ExactScalar ψ) : OrdLaws F where
  sub_pos a b h := by
    rw [E.lt_iff] at h
    rw [E.lt_iff, E.zero, E.sub]; linarith
  sub_le a b s h := by
    rw [E.le_iff, E.add] at h
    rw [E.le_iff, E.sub]; linarith

/-! ### `Mono` by indices (structural) -/

theorem mono_iff (l : List F) :
    Mono l ↔ ∀ i a b, l[i]? = some a → l[i + 1]? = some b → Scalar.le a b = true := by
  induction l with
  | nil => simp [Mono]
  | cons x t ih =>
    cases t with
    | nil => simp [Mono]
    | cons y t' =>
      simp only [Mono]
      rw [ih]
      constructor
      · rintro ⟨h0, hr⟩ i a b ha hb
        cases i with
        | zero =>
          simp only [List.getElem?_cons_zero, List.getElem?_cons_succ, Option.some.injEq] at ha hb
          subst ha hb; exact h0
        | succ i => exact hr i a b (by simpa using ha) (by simpa using hb)
      · intro h
        exact ⟨h 0 x y rfl rfl, fun i a b ha hb => h (i + 1) a b (by simpa using ha) (by simpa using hb)⟩

theorem Mono.take {l : List F} (h : Mono l) (k : Nat) : Mono (l.take k) := by
  rw [mono_iff] at h ⊢
  intro i a b ha hb
  rw [List.getElem?_take] at ha hb
  split at ha
  · split at hb
    · exact h i a b ha hb
    · cases hb
  · cases ha

theorem Mono.dropLast {l : List F} (h : Mono l) : Mono l.dropLast := by
  rw [List.dropLast_eq_take]; exact h.take _

theorem Mono.snoc {l : List F} (h : Mono l) (x : F)
    (hx : ∀ a, l.getLast? = some a → Scalar.le a x = true) : Mono (l ++ [x]) := by
  rw [mono_iff] at h ⊢
  intro i a b ha hb
  rcases Nat.lt_or_ge (i + 1) l.length with hlt | hge
  · rw [List.getElem?_append_left (by omega)] at ha
    rw [List.getElem?_append_left hlt] at hb
    exact h i a b ha hb
  · have hb' : (l ++ [x])[i + 1]? = some b := hb
    rcases Nat.lt_or_ge l.length (i + 1) with hgt | hle
    · rw [List.getElem?_eq_none (by simp; omega)] at hb'; cases hb'
    · have hil : i + 1 = l.length := by omega
      rw [List.getElem?_append_left (by omega)] at ha
      rw [List.getElem?_append_right (by omega), hil] at hb'
      simp only [Nat.sub_self, List.getElem?_cons_zero, Option.some.injEq] at hb'
      subst hb'
      apply hx a
      rw [List.getLast?_eq_getElem?, ← ha]
      congr 1; omega

/-! ### the lengths `calculate_length` returns never decrease -/

/-- the natural lengths `0.0 :: running sums` never decrease when `optimized_len ≥ 0`. -/
theorem natLens_mono (E : ExactArith φ ψ) (opt : F) (path : List (Pos P)) (hopt : 0 ≤ ψ opt) :
    Mono (natLens opt path) := by
  unfold natLens
  match path with
  | [] => trivial
  | [_] => trivial
  | a :: b :: t =>
    rw [cumLens_cons2]
    refine ⟨?_, lengths_monotone (monoLaws_of_exact E) _ (b :: t)⟩
    rw [E.f.le_iff, E.f.zero, E.f.add, E.up]
    have := E.length_nonneg (F := F) (b - a)
    linarith

theorem le_refl_exact (E : ExactScalar ψ) (a : F) : Scalar.le a a = true := by
  rw [E.le_iff]

/-- **`calculateLength_lengths_monotone`** (exact arithmetic): whatever is requested, the cumulative lengths
`calculate_length` leaves in the buffers never decrease — all five outcomes of the function. -/
theorem calculateLength_lengths_monotone (E : ExactArith φ ψ) (path : List (Pos P)) (e : Option F) (opt : F)
    (hopt : 0 ≤ ψ opt) (p' : List (Pos P)) (ls : List F)
    (h : calculateLength path e opt = .ok (p', ls)) : Mono ls := by
  have hnat := natLens_mono E opt path hopt
  cases e with
  | none => cases h; exact hnat
  | some L =>
    rw [calculateLength_some] at h
    split at h
    · cases h; exact hnat
    split at h
    · -- equal tail: `calculated_len` pushed once more
      cases h
      apply hnat.snoc
      intro a ha
      rename_i _ heq
      have h2 : 2 ≤ path.length := by
        unfold equalTail at heq
        match path with
        | [] => simp [lastTwoEqual] at heq
        | [_] => simp [lastTwoEqual] at heq
        | _ :: _ :: _ => simp
      have hne : (cumLens opt path).1 ≠ [] := by
        intro h0
        have := cumLens_length opt path
        rw [h0] at this; simp at this; omega
      unfold natLens at ha
      rw [List.getLast?_cons_of_ne_nil hne, cumLens_getLast opt path h2] at ha
      cases ha
      exact le_refl_exact E.f _
    split at h
    · cases h; exact hnat
    split at h
    · cases h; trivial
    · -- cut or extension: kept lengths, then `L`, which is above the last kept one
      rename_i _ _ _ hk
      cases h
      apply (hnat.dropLast.take _).snoc
      intro a ha
      obtain ⟨⟨x, hx, hlt⟩, _⟩ := lastValid_spec (natLens opt path).dropLast L (by
        show 0 < cutIdx opt path L; omega)
      have hle := lastValid_le (natLens opt path).dropLast L
      have hcut : lastValid (natLens opt path).dropLast L = cutIdx opt path L := rfl
      rw [hcut] at hx hle
      rw [List.getLast?_eq_getElem?, List.length_take, Nat.min_eq_left hle,
        List.getElem?_take_of_lt (by omega), hx] at ha
      cases ha
      rw [E.f.lt_iff] at hlt
      rw [E.f.le_iff]
      exact le_of_lt hlt

/-! ### the re-projected end point -/

/-- **`calculateLength_end_on_ray`** (exact arithmetic): in the cut / extension outcome of `calculate_length` the
returned path is the first `k` natural points followed by `p_k + (p_{k+1} − p_k)·t` with the single parameter
`t = (L − len_k)/|p_{k+1} − p_k|`, the returned lengths are the first `k` natural ones followed by `L`, and
`len_k < L`. -/
theorem calculateLength_end_on_ray (E : ExactArith φ ψ) (path : List (Pos P)) (L opt : F)
    (hn : 2 ≤ path.length) (hfar : near opt path L = false) (hexc : equalTail opt path L = false)
    (hk : cutIdx opt path L ≠ 0) :
    let k := cutIdx opt path L
    let pp := path.getD (k - 1) Pos.zero
    let pe := path.getD k Pos.zero
    let lp := (natLens opt path).dropLast.getD (k - 1) 0
    calculateLength path (some L) opt =
      .ok (path.take k ++ [pp + (pe - pp).smul (Cvt.down (L - lp) / Pos.length F (pe - pp))],
           (natLens opt path).dropLast.take k ++ [L]) ∧ Scalar.lt lp L = true := by
  intro k pp pe lp
  constructor
  · rw [cut_shape path L opt hn hfar hexc hk, end_point_on_ray (rayLaws_of_exact E.p)]
  · obtain ⟨⟨x, hx, hlt⟩, _⟩ := lastValid_spec (natLens opt path).dropLast L (by
      show 0 < cutIdx opt path L; omega)
    have : lp = x := by
      show (natLens opt path).dropLast.getD (cutIdx opt path L - 1) 0 = x
      rw [List.getD_eq_getElem?_getD]
      have hcut : lastValid (natLens opt path).dropLast L = cutIdx opt path L := rfl
      rw [hcut] at hx
      rw [hx]; rfl
    rw [this]; exact hlt

/-- **`end_point_distance`** (exact arithmetic + `sqrt` is a square root): a point
`p + (e − p)·(s/|e − p|)` is at squared distance `s²` from `p` when `e ≠ p` in length — the new end point of a cut or
extension is exactly `L − len_k` away from `p_k`. For `|e − p| = 0` the code divides by zero (F11). -/
theorem end_point_distance (E : ExactArith φ ψ) (S : SqrtLaws ψ) (p e : Pos P) (s : F)
    (hne : φ (Pos.length F (e - p)) ≠ 0) :
    Pos.lengthSquared ((p + (e - p).smul (Cvt.down s / Pos.length F (e - p))) - p) = Cvt.down s * Cvt.down s := by
  have hlen : φ (Pos.length F (e - p)) * φ (Pos.length F (e - p)) =
      φ (e - p).x * φ (e - p).x + φ (e - p).y * φ (e - p).y := by
    unfold Pos.length
    rw [E.down, S.mul_self_sqrt, E.up, E.p.add, E.p.mul, E.p.mul]
    rw [E.up, E.p.add, E.p.mul, E.p.mul]
    nlinarith [mul_self_nonneg (φ (e - p).x), mul_self_nonneg (φ (e - p).y)]
  apply E.p.inj
  unfold Pos.lengthSquared Pos.dot
  simp only [Pos.sub_x, Pos.sub_y, Pos.add_x, Pos.add_y, Pos.smul_x, Pos.smul_y, E.p.add, E.p.sub, E.p.mul,
    E.p.div, E.down]
  simp only [Pos.sub_x, Pos.sub_y, E.p.sub] at hlen
  generalize φ (Pos.length F (e - p)) = len at hne hlen
  field_simp
  linear_combination (ψ s * ψ s) * (-hlen)

/-! ### one instance for all of them -/

section Instances
open Rosu.ToyRat Rosu.RealInst

/-- every exact-arithmetic hypothesis of C16 holds on `Rat` … -/
example : MonoLaws Rat Rat ∧ SumLaws Rat Rat ∧ RayLaws Rat ∧ OrdLaws Rat :=
  ⟨monoLaws_of_exact exactArith_rat, sumLaws_of_exact exactArith_rat, rayLaws_of_exact exactScalar_rat,
   ordLaws_of_exact exactScalar_rat⟩

/-- … and over the reals, where also `sqrt` is the square root. -/
example : MonoLaws ℝ ℝ ∧ SumLaws ℝ ℝ ∧ RayLaws ℝ ∧ OrdLaws ℝ ∧ SqrtLaws (id : ℝ → ℝ) :=
  ⟨monoLaws_of_exact exactArith_real, sumLaws_of_exact exactArith_real, rayLaws_of_exact exactScalar_real,
   ordLaws_of_exact exactScalar_real, sqrtLaws_real⟩

/-- a concrete cut over `Rat` (toy `sqrt = id`, so "lengths" are squared): path `(0,0),(1,0),(1,2)`, natural lengths
`0, 1, 5`; `L = 3` cuts inside the second segment; the returned lengths `0, 1, 3` never decrease. -/
example : ∃ p' ls, calculateLength [(⟨0, 0⟩ : Pos Rat), ⟨1, 0⟩, ⟨1, 2⟩] (some (3 : Rat)) 0 = .ok (p', ls) ∧
    Mono ls := by
  obtain ⟨r, hr⟩ := calculateLength_total [(⟨0, 0⟩ : Pos Rat), ⟨1, 0⟩, ⟨1, 2⟩] (some (3 : Rat)) 0
  exact ⟨r.1, r.2, hr, calculateLength_lengths_monotone exactArith_rat _ _ _ (le_refl _) _ _ hr⟩

theorem toy_cut_hyps : near (0 : Rat) [(⟨0, 0⟩ : Pos Rat), ⟨1, 0⟩, ⟨1, 2⟩] 3 = false ∧
    equalTail (0 : Rat) [(⟨0, 0⟩ : Pos Rat), ⟨1, 0⟩, ⟨1, 2⟩] 3 = false ∧
    cutIdx (0 : Rat) [(⟨0, 0⟩ : Pos Rat), ⟨1, 0⟩, ⟨1, 2⟩] 3 = 2 := by decide +kernel

end Instances

end Rosu.C16
