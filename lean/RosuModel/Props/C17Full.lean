/-
  Props/C17Full.lean — the module audited for C17: Props/C17ArcEnd.lean (and what it imports) together with
  Props/C17ArcTol.lean (the IEEE / real-analysis instantiations). All in namespace Rosu.C17.
-/
import RosuModel.Props.C17ArcEnd
import RosuModel.Props.C17ArcTol
import RosuModel.Props.C17Bezier
