/-
  Props/C17Full.lean — the module audited for C17: Props/C17ArcEnd.lean (and what it imports) together with
  Props/C17ArcTol.lean (the IEEE / real-analysis instantiations), Props/C17Bezier.lean, Props/C17BezierCubic.lean (the
  tolerance statement for segments of at most four control points, constant 1/24), Props/C17BezierQuartic.lean (at most five
  control points, constant 1/8), Props/C17BezierQuintic.lean (at most six control points, constant 7/40), Props/C17BezierSextic.lean (at most seven, constant 5/24), Props/C17BezierSeptic.lean (at most
  eight, constant 17/56), Props/C17BezierOctic.lean (at most nine, constant 3/8), Props/C17BezierNonic.lean
  (at most ten, constant 31/72), Props/C17BezierDecic.lean (at most eleven, constant 19/40; `comb_step`),
  Props/C17BezierDeg11.lean (at most twelve, constant 49/88) and Props/C17Catmull.lean (the
  Catmull-Rom chord-error bound over ℝ, `catmull_within_bound_real`). All in namespace Rosu.C17.
-/
import RosuModel.Props.C17ArcEnd
import RosuModel.Props.C17ArcTol
import RosuModel.Props.C17Bezier
import RosuModel.Props.C17BezierCubic
import RosuModel.Props.C17BezierQuartic
import RosuModel.Props.C17BezierQuintic
import RosuModel.Props.C17BezierSextic
import RosuModel.Props.C17BezierSeptic
import RosuModel.Props.C17BezierOctic
import RosuModel.Props.C17BezierNonic
import RosuModel.Props.C17BezierDecic
import RosuModel.Props.C17BezierDeg11
import RosuModel.Props.C17Catmull
