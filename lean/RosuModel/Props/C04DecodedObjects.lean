/-
  Props/C04DecodedObjects.lean — C04 / C02 / C03: the hit objects of DECODED maps are representable
  (`SliderRt.RepObject`), as far as that is true; every byte string, every `Scalar`.

  What `parse_hit_objects` + the finaliser guarantee (no law): the numeric form `C14.StoredObj` (Props/C14IeeePos.lean) and
  `DecodedObj.ObjOk` (Lemmas/DecodedObjInv.lean, invariant `DecodedObj.ObjInv` of the decoder state: kept by every
  `[HitObjects]` line, accepted or rejected, by every other parser, by the framing driver for every byte string, and
  transported through sort / break processing / velocity / sample defaults). From these, each clause of `RepCircle` /
  `RepSpinner` / `RepHold` / `RepSlider` follows under NAMED residual hypotheses only:

  codec laws (`ObjLaws`; toy instance `ZC.objLaws`):
    * `time`     — `LimitRep RF`: every `f64` within the parse limit is representable (as in Props/C04Decoded.lean);
    * `coordF`   — every `f64` within ±131072 is representable; `zeroF` — `0` is, and is within ±131072;
    * `trunc`    — `x as i32 as f32` of an `f32` within ±131072 is representable, within ±131072 and a fixed point of
                   `as i32 as f32` (for IEEE: `C14.position_truncated_float32`);
    * `spinnerX/Y`, `holdY` — the constants `512/2`, `384/2`, `192` are such coordinates.
  arithmetic laws (`DurLaws`; toy instance `ZC.durLaws`; exact arithmetic — NOT established for IEEE doubles):
    * spinner: `start + max(end − start, 0)` is representable and within the limit, and gives the same duration back;
    * hold:    `start + (max(start, end) − start)` likewise.
  findings:
    * F21 — `FileNameResidual.trimmed`: the custom sample file name of the object is end-trimmed;
    * F20 — `decoded_sliders_representable_partial`: a slider without requested length has a computed distance that is
      representable and within ±131072;
    * F17 — part of `PathShapeOk` (below).
  neither law nor finding (artefacts of the `Rep*` predicates, reported as such):
    * `FileNameResidual.noBar` — `RepSampleFile` (shared with sliders) forbids `|` in the file name of a circle / spinner /
      hold as well, although their lines would be accepted with it;
    * `PathShapeOk` — the TYPE / SHAPE half of `SliderRt.RepPath` (first control point at the origin and typed, well-formed
      type letters, perfect-curve shape, `ChainOK`: where the repeated-point shapes of F17 and consecutive Catmull segments
      are excluded). It is not derived from the parser here; the NUMERIC half of `RepPath` (every control point
      `RepPoint`) is, under `CtrlLaws`.
  F18 (per-node sample file names) does not enter: no clause of `RepSlider` speaks about node samples.

  Theorems: `decoded_circles_representable`, `decoded_spinners_representable`, `decoded_holds_representable`,
  `decoded_sliders_representable_partial`, `decoded_objects_representable_partial`, `hitobjects_block_accepted_decoded`,
  `encoded_file_accepted_decoded_partial`. Full statement kept as `decoded_objects_representable_statement` (a `def`;
  false as stated: F17, F20, F21).
-/
import RosuModel.Lemmas.DecodedObjInv
import RosuModel.Props.C14IeeePos
import RosuModel.Props.C04File
import RosuModel.Props.C04Decoded
set_option linter.unusedSectionVars false
namespace Rosu.C04
open Rosu Scalar RtObjects SliderRt DecodedObj EncodeLines Encode

section
variable {F P : Type} [Scalar F] [Scalar P] [Cvt P F] {RF : F → Prop} {RP : P → Prop}

/-! ### the named residual hypotheses -/

/-- **codec-side laws** about the numbers a hit-object line carries. -/
structure ObjLaws (F P : Type) [Scalar F] [Scalar P] (RF : F → Prop) (RP : P → Prop) : Prop where
  time : DecodedInv.LimitRep RF
  coordF : ∀ x : F, InCoord x → RF x
  zeroF : RF (0 : F) ∧ InCoord (0 : F)
  trunc : ∀ xv : P, InCoord xv → RepCoord RP (Scalar.ofInt (Scalar.toI32 xv) : P)
  spinnerX : RepCoord RP ((512 : P) / 2)
  spinnerY : RepCoord RP ((384 : P) / 2)
  holdY : RepCoord RP (192 : P)

/-- **arithmetic laws** for the end time `start + duration` the encoder writes for spinners and holds (exact arithmetic;
not established for IEEE doubles). -/
structure DurLaws (F : Type) [Scalar F] (RF : F → Prop) : Prop where
  spinnerStop : ∀ t d : F, InLimit t → InLimit d →
    RF (t + Scalar.max (d - t) 0) ∧ InLimit (t + Scalar.max (d - t) 0)
  spinnerBack : ∀ t d : F, InLimit t → InLimit d →
    Scalar.max ((t + Scalar.max (d - t) 0) - t) 0 = Scalar.max (d - t) 0
  holdStop : ∀ t e : F, InLimit t → InLimit e →
    RF (t + (Scalar.max t e - t)) ∧ InLimit (t + (Scalar.max t e - t))
  holdBack : ∀ t e : F, InLimit t → InLimit e →
    Scalar.max t (t + (Scalar.max t e - t)) - t = Scalar.max t e - t

/-- **laws for control-point coordinates**: `x as i32 as f32` of a parsed `f64` within ±131072 is a representable
integral coordinate; for such coordinates `a + (b − a) = b` and `a + 0 = a`, `a − a = 0` (exact in `f32`: integers of
magnitude ≤ 2¹⁸). -/
structure CtrlLaws (F P : Type) [Scalar F] [Scalar P] (RP : P → Prop) : Prop where
  truncF : ∀ x : F, InCoord x → RepCoord RP (Scalar.ofInt (Scalar.toI32 x) : P)
  addSub : ∀ a b : P, RepCoord RP a → RepCoord RP b → a + (b - a) = b
  addZero : ∀ a : P, RepCoord RP a → a + 0 = a ∧ a - a = 0

/-- the residual on an object's custom sample file name (the last field of its line). -/
structure FileNameResidual (samples : List HitSampleInfo) : Prop where
  /-- finding **F21**: the name is not cut by the reader's end-trim. -/
  trimmed : trimEnd (fileNameOf samples) = fileNameOf samples
  /-- artefact of `RepSampleFile`: no `|` (needed for slider lines only). -/
  noBar : '|' ∉ fileNameOf samples

/-- the type / shape half of `SliderRt.RepPath` (contains the exclusion of finding **F17**). -/
def PathShapeOk : List (PathControlPoint P) → Prop
  | [] => False
  | p0 :: rest =>
    p0.pos = Pos.zero ∧
    (match p0.pathType with
     | none => False
     | some t0 => WfType t0 ∧ PShape t0 p0.pos rest ∧ ChainOK t0 p0 rest)

/-! ### samples -/

theorem fileNameOf_cases (l : List HitSampleInfo) :
    fileNameOf l = [] ∨ ∃ s ∈ l, s.name = .file (fileNameOf l) := by
  unfold fileNameOf
  cases hfind : l.find? (fun s : HitSampleInfo => match s.name with | .file f => !f.isEmpty | _ => false) with
  | none => exact Or.inl rfl
  | some s =>
    have hm : s ∈ l := List.mem_of_find?_eq_some hfind
    cases hn : s.name with
    | default n => left; simp [hn]
    | file f => right; exact ⟨s, hm, by simp [hn]⟩

theorem fileNameOf_noFile (l : List HitSampleInfo) (h : NoFile l) : fileNameOf l = [] := by
  rcases fileNameOf_cases l with h0 | ⟨s, hs, hn⟩
  · exact h0
  · exact absurd hn (h s hs _)

/-- **`RepSamples` from the parser's guarantees and the file-name residual**, in every mode. -/
theorem repSamples_of_ok (l : List HitSampleInfo) (mode : GameMode) (h : SamplesOk l) (hres : FileNameResidual l) :
    RepSamples l mode := by
  have h100 : -i32Max ≤ (100 : Int) ∧ (100 : Int) ≤ i32Max := by decide
  have h0 : -i32Max ≤ (0 : Int) ∧ (0 : Int) ≤ i32Max := by decide
  refine ⟨?_, ?_, ?_⟩
  · unfold customOf
    split
    · exact h0
    · split
      · rename_i s hs
        exact (h s (List.mem_of_find?_eq_some hs)).custom
      · exact h0
  · unfold volumeOf
    split
    · exact h0
    · split
      · rename_i s hs
        have hv := (h s (List.mem_of_mem_head? hs)).volume
        have : (0 : Int) ≤ i32Max := by decide
        exact ⟨by omega, hv.2⟩
      · exact h100
  · rcases fileNameOf_cases l with e | ⟨s, hs, hn⟩
    · rw [e]; exact ⟨by simp, by simp, by simp, by simp, rfl, rfl⟩
    · have hf := (h s hs).file _ hn
      exact ⟨hf.noColon, hf.noComma, hf.noLf, hres.noBar, hf.noDS, hres.trimmed⟩

theorem fileNameResidual_noFile (l : List HitSampleInfo) (h : NoFile l) : FileNameResidual l := by
  have e := fileNameOf_noFile l h
  exact ⟨by rw [e]; rfl, by rw [e]; simp⟩

/-! ### numbers -/

theorem repCoord_of_coordP (L : ObjLaws F P RF RP) {p : P} (h : C14.CoordP p) : RepCoord RP p := by
  obtain ⟨xv, hx, rfl⟩ := h
  exact L.trunc xv hx

/-- a stored requested length is representable and within ±131072. -/
theorem lenParsed_rep (L : ObjLaws F P RF RP) {e : Option F} (h : LenParsed e) {d : F} (hd : e = some d) :
    RF d ∧ InCoord d := by
  obtain ⟨l, hl, rfl⟩ := h d hd
  unfold Scalar.max
  split
  · exact L.zeroF
  · split
    · exact L.zeroF
    · exact ⟨L.coordF l hl, hl⟩

/-- the numeric half of `RepPath`: every control point of a parsed slider is a `RepPoint`. -/
theorem repPoint_of_ctrlPos (LC : CtrlLaws F P RP) (start : Pos P)
    (hx : RepCoord RP start.x) (hy : RepCoord RP start.y) (q : PathControlPoint P) (h : C14.CtrlPos F start q.pos) :
    RepPoint RP start q := by
  rcases h with h | ⟨x, y, hxi, hyi, h⟩
  · have ex : q.pos.x = 0 := by rw [h]; rfl
    have ey : q.pos.y = 0 := by rw [h]; rfl
    obtain ⟨a1, a2⟩ := LC.addZero start.x hx
    obtain ⟨b1, b2⟩ := LC.addZero start.y hy
    exact ⟨by rw [ex, a1]; exact hx, by rw [ey, b1]; exact hy, by rw [ex, a1, a2], by rw [ey, b1, b2]⟩
  · have ex : q.pos.x = (Scalar.ofInt (Scalar.toI32 x) : P) - start.x := by rw [h]; rfl
    have ey : q.pos.y = (Scalar.ofInt (Scalar.toI32 y) : P) - start.y := by rw [h]; rfl
    have a := LC.addSub start.x _ hx (LC.truncF x hxi)
    have b := LC.addSub start.y _ hy (LC.truncF y hyi)
    exact ⟨by rw [ex, a]; exact LC.truncF x hxi, by rw [ey, b]; exact LC.truncF y hyi, by rw [ex, a], by rw [ey, b]⟩

theorem repPath_of_shape (LC : CtrlLaws F P RP) (start : Pos P)
    (hx : RepCoord RP start.x) (hy : RepCoord RP start.y) (cps : List (PathControlPoint P))
    (hs : PathShapeOk cps) (hc : ∀ cp ∈ cps, C14.CtrlPos F start cp.pos) : RepPath RP start cps := by
  cases cps with
  | nil => exact hs
  | cons p0 rest =>
    exact ⟨hs.1, hs.2, fun q hq => repPoint_of_ctrlPos LC start hx hy q (hc q (List.mem_cons_of_mem _ hq))⟩

end

/-! ### decoded maps -/

section Decoded
variable {F P : Type} [Scalar F] [Scalar P] [Cvt P F] [Trig F] [Trig P] {RF : F → Prop} {RP : P → Prop}

/-- **decoded_circles_representable** — every circle of every decoded map (any bytes) is `RepCircle`, under the codec
laws `ObjLaws` and the file-name residual (F21 + the `|` artefact). -/
theorem decoded_circles_representable (L : ObjLaws F P RF RP) (bs : List UInt8) (st : BeatmapState F P) (m : Beatmap F P)
    (h1 : decodeBytes beatmapDecoder bs = .ok st) (h2 : st.finish = .ok m) (mode : GameMode) :
    ∀ h ∈ m.hitObjects, ∀ c, h.kind = .circle c → FileNameResidual h.samples → RepCircle RF RP mode h c := by
  intro h hh c hk hres
  obtain ⟨ht, hst⟩ := C14.decoded_stored bs st m h1 h2 h hh
  have hok := decoded_objOk bs st m h1 h2 h hh
  rw [hk] at hst
  have hko := hok.kind
  rw [hk] at hko
  exact ⟨repCoord_of_coordP L hst.1, repCoord_of_coordP L hst.2, ⟨L.time _ ht, ht⟩, hko,
    repSamples_of_ok _ _ hok.samples hres⟩

/-- **decoded_spinners_representable** — every spinner of every decoded map is `RepSpinner`, under `ObjLaws`, the
arithmetic laws `DurLaws` (end time `start + duration`) and the file-name residual. -/
theorem decoded_spinners_representable (L : ObjLaws F P RF RP) (D : DurLaws F RF) (bs : List UInt8) (st : BeatmapState F P)
    (m : Beatmap F P) (h1 : decodeBytes beatmapDecoder bs = .ok st) (h2 : st.finish = .ok m) (mode : GameMode) :
    ∀ h ∈ m.hitObjects, ∀ sp, h.kind = .spinner sp → FileNameResidual h.samples → RepSpinner RF RP mode h sp := by
  intro h hh sp hk hres
  obtain ⟨ht, hst⟩ := C14.decoded_stored bs st m h1 h2 h hh
  have hok := decoded_objOk bs st m h1 h2 h hh
  rw [hk] at hst
  obtain ⟨hpos, d, hd, hdur⟩ := hst
  have hpx : sp.pos.x = (512 : P) / 2 := by rw [hpos]
  have hpy : sp.pos.y = (384 : P) / 2 := by rw [hpos]
  refine ⟨by rw [hpx]; exact L.spinnerX, by rw [hpy]; exact L.spinnerY, ⟨L.time _ ht, ht⟩, ?_, ?_,
    repSamples_of_ok _ _ hok.samples hres⟩
  · rw [hdur]; exact D.spinnerStop _ _ ht hd
  · rw [hdur]; exact D.spinnerBack _ _ ht hd

/-- **decoded_holds_representable** — every hold note of every decoded map is `RepHold`, under `ObjLaws`, `DurLaws` and
the file-name residual. -/
theorem decoded_holds_representable (L : ObjLaws F P RF RP) (D : DurLaws F RF) (bs : List UInt8) (st : BeatmapState F P)
    (m : Beatmap F P) (h1 : decodeBytes beatmapDecoder bs = .ok st) (h2 : st.finish = .ok m) (mode : GameMode) :
    ∀ h ∈ m.hitObjects, ∀ ho, h.kind = .hold ho → FileNameResidual h.samples → RepHold RF RP mode h ho := by
  intro h hh ho hk hres
  obtain ⟨ht, hst⟩ := C14.decoded_stored bs st m h1 h2 h hh
  have hok := decoded_objOk bs st m h1 h2 h hh
  rw [hk] at hst
  obtain ⟨hx, e, he, hdur⟩ := hst
  refine ⟨repCoord_of_coordP L hx, L.holdY, ⟨L.time _ ht, ht⟩, ?_, ?_, repSamples_of_ok _ _ hok.samples hres⟩
  · rw [hdur]; exact D.holdStop _ _ ht he
  · rw [hdur]; exact D.holdBack _ _ ht he

/-- the residual of a decoded slider: the type / shape half of `RepPath` (F17 inside), and — when no length was
requested — a computed distance that is representable and within the decoder's limit on the length field (F20). -/
structure SliderResidual (RF : F → Prop) (s : HitObjectSlider F P) : Prop where
  shape : PathShapeOk s.path.controlPoints
  computed : s.path.expectedDist = none → ∃ dist, curveDist s = .ok dist ∧ RF dist ∧ InCoord dist

/-- **decoded_sliders_representable_partial** — every slider of every decoded map whose path has the shape `PathShapeOk`
(F17 excluded there) and whose computed distance, when no length was requested, is within the parse limit (F20) is
`RepSlider` for the length the encoder writes. Proved from the parser: integral in-range position, start time, combo
offset, repeat count, requested length representable and within ±131072, every control point `RepPoint`, object samples
(no custom file: the bank field is read with `banks_only`, so neither F21 nor `|` can occur). Partial because
`PathShapeOk` is assumed, not derived from `convert_path_str`. -/
theorem decoded_sliders_representable_partial (L : ObjLaws F P RF RP) (LC : CtrlLaws F P RP) (bs : List UInt8)
    (st : BeatmapState F P) (m : Beatmap F P) (h1 : decodeBytes beatmapDecoder bs = .ok st) (h2 : st.finish = .ok m)
    (mode : GameMode) :
    ∀ h ∈ m.hitObjects, ∀ s, h.kind = .slider s → SliderResidual RF s → ∃ dist, RepSlider RF RP mode h s dist := by
  intro h hh s hk hres
  obtain ⟨ht, hst⟩ := C14.decoded_stored bs st m h1 h2 h hh
  have hok := decoded_objOk bs st m h1 h2 h hh
  rw [hk] at hst
  obtain ⟨hx, hy, _, hcp⟩ := hst
  have hko := hok.kind
  rw [hk] at hko
  obtain ⟨hco, hrep, hlen, hnf⟩ := hko
  have hX := repCoord_of_coordP L hx
  have hY := repCoord_of_coordP L hy
  have hpath := repPath_of_shape LC s.pos hX hY _ hres.shape hcp
  have hsm := repSamples_of_ok _ mode hok.samples (fileNameResidual_noFile _ hnf)
  cases he : s.path.expectedDist with
  | some d =>
    exact ⟨d, hX, hY, ⟨L.time _ ht, ht⟩, hco, hpath, hrep, lenParsed_rep L hlen he, Or.inl he, hsm⟩
  | none =>
    obtain ⟨dist, hc, hr⟩ := hres.computed he
    exact ⟨dist, hX, hY, ⟨L.time _ ht, ht⟩, hco, hpath, hrep, hr, Or.inr ⟨he, hc⟩, hsm⟩

/-- the residual of one decoded object, by kind. -/
def ObjResidual (RF : F → Prop) (h : HitObject F P) : Prop :=
  match h.kind with
  | .slider s => SliderResidual RF s
  | _ => FileNameResidual h.samples

/-- **decoded_objects_representable_partial** — `SliderRt.RepObject` for every object of a decoded map satisfying its
residual. -/
theorem decoded_objects_representable_partial (L : ObjLaws F P RF RP) (D : DurLaws F RF) (LC : CtrlLaws F P RP)
    (bs : List UInt8) (st : BeatmapState F P) (m : Beatmap F P) (h1 : decodeBytes beatmapDecoder bs = .ok st)
    (h2 : st.finish = .ok m) (mode : GameMode) :
    ∀ h ∈ m.hitObjects, ObjResidual RF h → RepObject RF RP mode h := by
  intro h hh hres
  unfold ObjResidual at hres
  cases hk : h.kind with
  | circle c =>
    rw [hk] at hres
    exact .circle c hk (decoded_circles_representable L bs st m h1 h2 mode h hh c hk hres)
  | slider s =>
    rw [hk] at hres
    obtain ⟨dist, hr⟩ := decoded_sliders_representable_partial L LC bs st m h1 h2 mode h hh s hk hres
    exact .slider s dist hk hr
  | spinner sp =>
    rw [hk] at hres
    exact .spinner sp hk (decoded_spinners_representable L D bs st m h1 h2 mode h hh sp hk hres)
  | hold ho =>
    rw [hk] at hres
    exact .hold ho hk (decoded_holds_representable L D bs st m h1 h2 mode h hh ho hk hres)

/-- the full statement (no residual on the objects) — FALSE of the model: F17, F20, F21 (DESIGN 6.1). -/
def decoded_objects_representable_statement (F P : Type) [Scalar F] [Scalar P] [Cvt P F] [Trig F] [Trig P]
    (RF : F → Prop) (RP : P → Prop) : Prop :=
  ∀ (bs : List UInt8) (st : BeatmapState F P) (m : Beatmap F P), decodeBytes beatmapDecoder bs = .ok st →
    st.finish = .ok m → ∀ h ∈ m.hitObjects, RepObject RF RP m.general.mode h

/-- **hitobjects_block_accepted_decoded** — `C04.hitobjects_block_accepted` with its `RepObject` hypothesis discharged
for decoded maps: decode any bytes to `m`; if every object satisfies its residual, `encode_hit_objects m` succeeds, the
block is `[HitObjects]` followed by one LF-free record line per object, and `parse_hit_objects` accepts every one of these
lines (end-trimmed) in any decoder state. -/
theorem hitobjects_block_accepted_decoded (LF : CodecLaws F RF) (LP : CodecLaws P RP) (LCo : SliderRt.CoordLaws F P RP)
    (L : ObjLaws F P RF RP) (D : DurLaws F RF) (LC : CtrlLaws F P RP)
    (bs : List UInt8) (st : BeatmapState F P) (m : Beatmap F P) (h1 : decodeBytes beatmapDecoder bs = .ok st)
    (h2 : st.finish = .ok m) (hres : ∀ h ∈ m.hitObjects, ObjResidual RF h) :
    ∃ H : List Str, encodeHitObjects m = .ok (unlines (str "[HitObjects]" :: H)) ∧ RtFile.ListBlockShape H ∧
      H.length = m.hitObjects.length ∧
      ∀ st' : HOCore F P, Accepts (parseHitObjectLine m.general.mode) st' (H.map trimEnd) :=
  hitobjects_block_accepted LF LP LCo m
    (fun h hh => decoded_objects_representable_partial L D LC bs st m h1 h2 m.general.mode h hh (hres h hh))

/-- **decoded_repMap_partial** — `RepMap` of a decoded map: the record sections from the `Decoded` invariant
(`ConstFacts`, `LimitRep`, F16 `NoDoubleSlash`), the objects from their residuals, and — still a hypothesis — the timing
block's `RepTimingMap`. -/
theorem decoded_repMap_partial (C : DecodedInv.ConstFacts F P)
    (LRP : DecodedInv.LimitRep RP) (L : ObjLaws F P RF RP) (D : DurLaws F RF) (LC : CtrlLaws F P RP)
    (bs : List UInt8) (st : BeatmapState F P) (m : Beatmap F P) (h1 : decodeBytes beatmapDecoder bs = .ok st)
    (h2 : st.finish = .ok m) (hds : DecodedInv.NoDoubleSlash m) (htim : RtTiming.RepTimingMap RF m)
    (hres : ∀ h ∈ m.hitObjects, ObjResidual RF h) : RepMap RF RP m :=
  ⟨decoded_records_representable_of_limitRep C L.time LRP bs st m h1 h2 hds, htim,
    fun h hh => decoded_objects_representable_partial L D LC bs st m h1 h2 m.general.mode h hh (hres h hh)⟩

open C11 RtTiming FileRt in
/-- **encoded_file_accepted_decoded_partial** — the file-level C04 statement (`encoded_file_accepted`) for decoded maps:
decode any bytes to `m`, encode it to `t`; under the codec laws, the object residuals, F16 and `RepTimingMap` (still a
hypothesis), `t` is the version line plus the eight blocks, every decoder reading it back makes exactly the calls
`recordCalls m T H`, every call is accepted by the `Beatmap` decoder, and the counts come back. -/
theorem encoded_file_accepted_decoded_partial (ML : MapLaws F P RF RP) (C : DecodedInv.ConstFacts F P)
    (LRP : DecodedInv.LimitRep RP) (L : ObjLaws F P RF RP) (D : DurLaws F RF) (LC : CtrlLaws F P RP)
    (bs : List UInt8) (st : BeatmapState F P) (m : Beatmap F P) (h1 : decodeBytes beatmapDecoder bs = .ok st)
    (h2 : st.finish = .ok m) (hds : DecodedInv.NoDoubleSlash m) (htim : RtTiming.RepTimingMap RF m)
    (hres : ∀ h ∈ m.hitObjects, ObjResidual RF h) (t : Str) (h : encode m = .ok t) :
    ∃ (cp : ControlPoints F) (T H : List Str),
      collectSamples m = .ok cp ∧ T = (mapEntries m cp).map Entry.line ∧
      encodeTimingPoints m = .ok (unlines (str "[TimingPoints]" :: T)) ∧
      encodeHitObjects m = .ok (unlines (str "[HitObjects]" :: H)) ∧
      RtFile.ListBlockShape T ∧ RtFile.ListBlockShape H ∧ H.length = m.hitObjects.length ∧
      t = unlines (RtFile.fileLines m.formatVersion (RtGeneral.generalLines m.general (RtGeneral.sampleSetOf m.controlPoints))
        (RtEditor.editorLines m.editor) (RtMetadata.metadataLines m.metadata) (RtDifficulty.difficultyLines m.difficulty)
        (RtEvents.eventLines m.events) T (RtColours.colourLines m.colors) H) ∧
      (∀ (σ : Type) (Dc : LineDecoder σ),
        decodeBytes Dc (utf8Encode t) = .ok (runCalls Dc (Dc.create m.formatVersion) (recordCalls m T H))) ∧
      decodeBytes recorder (utf8Encode t) = .ok { version := m.formatVersion, calls := (recordCalls m T H).reverse } ∧
      CallsAccepted (BeatmapState.create m.formatVersion : BeatmapState F P) (recordCalls m T H) ∧
      ∃ st' : BeatmapState F P, decodeBytes beatmapDecoder (utf8Encode t) = .ok st' ∧
        st'.hitObjects.core.hitObjects.length = m.hitObjects.length ∧
        st'.hitObjects.events.breaks.length = m.events.breaks.length ∧
        st'.colors.customComboColors.length = m.colors.customComboColors.length ∧
        st'.colors.customColors.length = m.colors.customColors.length ∧
        st'.hitObjects.timingPoints = C12.runStrs { (TimingPointsState.create : TimingPointsState F P) with
          general := RtGeneral.preservedGeneral m.general (RtGeneral.sampleSetOf m.controlPoints) } (T.map trimEnd) ∧
        (T.map trimEnd).length = (mapEntries m cp).length :=
  encoded_file_accepted ML m (decoded_repMap_partial C LRP L D LC bs st m h1 h2 hds htim hres) t h

end Decoded

end Rosu.C04
