/-
  Props/C15ShiftOn.lean — C15, shift invariance of the finalisers RELATIVE TO A DOMAIN `S` of times (Props/C15Shift.lean re-derived
  under `ShiftLawsOn S k`, Lemmas/ShiftLawsOn.lean; instantiated on IEEE doubles in Props/C15IeeeShift.lean).

  `StateIn S st`: every time the finaliser reads from, or forms by integer arithmetic from, the unfinalised state lies in `S` —
  object starts, for circles `start + 5`, for spinners / holds the stored duration, `start + duration` and `start + duration + 5`
  (`ObjIn`), break ends, control-point and pending-group times. (`S` is not assumed closed under `+`: these memberships are the
  closure facts, stated where they are used.)

  * `sort_shift_on`, `skipBreaks_shift_on`, `postProcessBreaks_shift_on`, `finalizeObject_shift_on` (circle / spinner / hold: in
    full), `finalizeObject_shift_on_erased` (slider: start, velocity — timing / difficulty lookups at the integer start —, curve,
    buffers, error; NOT the samples resolved at `start + i·duration/spans + 5`, `start + duration + 5`, which are not in `S`).
  * **`finish_rel_on` / `finish_shift_on`** (no sliders): `(shiftState k st).finish = st.finish.map (shiftHitObjects k)`.
  * **`finish_rel_on_erased` / `finish_shift_on_erased`** (sliders allowed): the same after `eraseHO` (slider `nodeSamples` and
    `samples` forgotten on both sides). The erased clause is false of IEEE doubles: `slider_samples_shift_false`.
-/
import RosuModel.Props.C15Shift
import RosuModel.Lemmas.ShiftLawsOn
namespace Rosu.C15
open Rosu Scalar
set_option linter.unusedSectionVars false

variable {F P : Type} [Scalar F] [Scalar P] {S : F → Prop} {k : F}

/-- the times the finaliser forms from one object lie in `S`: its start; for a circle `start + 5`; for a spinner / hold the
stored duration, `start + duration` and `start + duration + 5`. (A slider's duration is computed by the finaliser from its
curve and velocity and is not an integer in general: nothing is asked of it.) -/
def ObjIn (S : F → Prop) (h : HitObject F P) : Prop :=
  S h.startTime ∧
  match h.kind with
  | .circle _ => S (h.startTime + (5 : F))
  | .spinner s => S s.duration ∧ S (h.startTime + s.duration) ∧ S (h.startTime + s.duration + (5 : F))
  | .hold s => S s.duration ∧ S (h.startTime + s.duration) ∧ S (h.startTime + s.duration + (5 : F))
  | .slider _ => True

def isSlider (h : HitObject F P) : Bool :=
  match h.kind with
  | .slider _ => true
  | _ => false

/-- forget what the finaliser resolves for a slider from its (non-integer) node and end times: the node samples and the
object's own samples. Everything else (start, position, path, repeat count, velocity, new-combo flag) is kept. -/
def eraseSliderSamples (h : HitObject F P) : HitObject F P :=
  match h.kind with
  | .slider s => { h with kind := .slider { s with nodeSamples := [] }, samples := [] }
  | _ => h

/-- every time stored in the unfinalised state (and every integer-derived time, `ObjIn`) lies in `S`. -/
def StateIn (S : F → Prop) (st : HitObjectsState F P) : Prop :=
  (∀ h ∈ st.core.hitObjects, ObjIn S h) ∧ (∀ b ∈ st.events.breaks, S b.endTime) ∧
  CPIn S st.timingPoints.controlPoints ∧ PendingIn S st.timingPoints.pending

theorem objIn_orNewCombo (h : HitObject F P) (force : Bool) (hin : ObjIn S h) :
    ObjIn S ({ h with kind := h.kind.orNewCombo force } : HitObject F P) := by
  obtain ⟨h1, h2⟩ := hin
  refine ⟨h1, ?_⟩
  cases hk : h.kind <;> rw [hk] at h2 <;> exact h2

theorem isSlider_orNewCombo (h : HitObject F P) (force : Bool) :
    isSlider ({ h with kind := h.kind.orNewCombo force } : HitObject F P) = isSlider h := by
  unfold isSlider
  cases h.kind <;> rfl

/-! ### sort, breaks -/

variable [Cvt P F]

theorem sort_shift_on (L : ShiftLawsOn S k) (hs : List (HitObject F P)) (hin : ∀ h ∈ hs, S h.startTime) :
    sortByStartTime (hs.map (shObj k)) = (sortByStartTime hs).map (shObj k) := by
  unfold sortByStartTime
  refine (List.map_mergeSort (f := shObj k) ?_).symm
  intro a ha b hb
  exact decide_eq_decide.mpr (L.key_le a.startTime b.startTime (hin a ha) (hin b hb)).symm

theorem skipBreaks_shift_on (L : ShiftLawsOn S k) (bs : List (BreakPeriod F)) (hbs : ∀ b ∈ bs, S b.endTime) (t : F) (ht : S t)
    (fuel cur : Nat) (force : Bool) :
    skipBreaks (bs.map (shBreak k)) (t + k) fuel cur force = skipBreaks bs t fuel cur force := by
  induction fuel generalizing cur force with
  | zero => rfl
  | succ n ih =>
    simp only [skipBreaks, List.getElem?_map]
    cases hb : bs[cur]? with
    | none => rfl
    | some b => simp only [Option.map, shBreak, L.lt_shift b.endTime t (hbs b (List.mem_of_getElem? hb)) ht, ih]

theorem postProcessBreaks_shift_on (L : ShiftLawsOn S k) (bs : List (BreakPeriod F)) (hbs : ∀ b ∈ bs, S b.endTime)
    (hs : List (HitObject F P)) (hin : ∀ h ∈ hs, S h.startTime) (cur : Nat) :
    postProcessBreaks (bs.map (shBreak k)) (hs.map (shObj k)) cur = (postProcessBreaks bs hs cur).map (shObj k) := by
  induction hs generalizing cur with
  | nil => rfl
  | cons h rest ih =>
    simp only [List.map, postProcessBreaks, List.length_map]
    have hs : skipBreaks (bs.map (shBreak k)) (shObj k h).startTime (bs.length + 1) cur false =
        skipBreaks bs h.startTime (bs.length + 1) cur false :=
      skipBreaks_shift_on L bs hbs h.startTime (hin h (List.mem_cons_self ..)) _ _ _
    rw [hs, ih (fun x hx => hin x (List.mem_cons_of_mem _ hx))]
    rfl

theorem postProcessBreaks_forall (Q : HitObject F P → Prop) (hQ : ∀ h force, Q h → Q { h with kind := h.kind.orNewCombo force })
    (bs : List (BreakPeriod F)) (hs : List (HitObject F P)) (hin : ∀ h ∈ hs, Q h) (cur : Nat) :
    ∀ h ∈ postProcessBreaks bs hs cur, Q h := by
  induction hs generalizing cur with
  | nil => intro h hh; cases hh
  | cons x rest ih =>
    intro h hh
    simp only [postProcessBreaks, List.mem_cons] at hh
    rcases hh with hh | hh
    · rw [hh]; exact hQ _ _ (hin x (List.mem_cons_self ..))
    · exact ih (fun y hy => hin y (List.mem_cons_of_mem _ hy)) _ h hh

theorem sort_forall (Q : HitObject F P → Prop) (hs : List (HitObject F P)) (hin : ∀ h ∈ hs, Q h) :
    ∀ h ∈ sortByStartTime hs, Q h := by
  intro h hh
  unfold sortByStartTime at hh
  exact hin h (List.mem_mergeSort.mp hh)


/-! ### sample points, the per-object loop -/

/-- the sample point active at `t + k` in the shifted collection resolves samples like the one active at `t`. -/
theorem samplePointAt_apply_shift_on (L : ShiftLawsOn S k) (cp : ControlPoints F) (hcp : CPIn S cp) (t : F) (ht : S t) :
    (((shCP k cp).samplePointAt (t + k)).getD SamplePoint.default).apply =
      ((cp.samplePointAt t).getD SamplePoint.default).apply := by
  rw [samplePointAt_shift_on L cp hcp t ht, getD_apply_shSP]

/-- the end-of-object lookup: `(a + k) + 5` in the shifted collection vs `a + 5`. -/
theorem endLookup_shift_on (L : ShiftLawsOn S k) (cp : ControlPoints F) (hcp : CPIn S cp) (a : F) (ha : S a)
    (ha5 : S (a + (5 : F))) :
    (((shCP k cp).samplePointAt (a + k + controlPointLeniency)).getD SamplePoint.default).apply =
      ((cp.samplePointAt (a + controlPointLeniency)).getD SamplePoint.default).apply := by
  have e : a + k + controlPointLeniency = a + controlPointLeniency + k := L.add_right_comm a _ ha L.five_mem
  rw [e]
  exact samplePointAt_apply_shift_on L cp hcp _ ha5

variable [Trig F] [Trig P]

/-- one iteration of the finaliser loop, object that is not a slider: exactly as under the unrestricted laws. -/
theorem finalizeObject_shift_on (L : ShiftLawsOn S k) (mode : GameMode) (sm : F) (cp : ControlPoints F) (hcp : CPIn S cp)
    (h : HitObject F P) (hin : ObjIn S h) (hns : isSlider h = false) (bufs : CurveBuffers P F) :
    finalizeObject mode sm (shCP k cp) (shObj k h) bufs =
      (finalizeObject mode sm cp h bufs).map (fun r => (shObj k r.1, r.2)) := by
  obtain ⟨h1, h2⟩ := hin
  unfold finalizeObject
  cases hk : h.kind with
  | circle c =>
    rw [hk] at h2
    simp only [shObj, hk, endLookup_shift_on L cp hcp h.startTime h1 h2]
    rfl
  | spinner c =>
    rw [hk] at h2
    obtain ⟨d1, d2, d3⟩ := h2
    simp only [shObj, hk, L.add_right_comm h.startTime c.duration h1 d1, endLookup_shift_on L cp hcp _ d2 d3]
    rfl
  | hold c =>
    rw [hk] at h2
    obtain ⟨d1, d2, d3⟩ := h2
    simp only [shObj, hk, L.add_right_comm h.startTime c.duration h1 d1, endLookup_shift_on L cp hcp _ d2 d3]
    rfl
  | slider s =>
    unfold isSlider at hns
    rw [hk] at hns
    cases hns

/-- one iteration of the finaliser loop on a slider: the same velocity (timing / difficulty point lookups at the start
time), the same curve, buffers and error; the object `k` later. The node samples and the object's samples, which are
resolved at the non-integer times `start + i·duration/spans + 5`, `start + duration + 5`, are not compared. -/
theorem finalizeObject_shift_on_erased (L : ShiftLawsOn S k) (mode : GameMode) (sm : F) (cp : ControlPoints F) (hcp : CPIn S cp)
    (h : HitObject F P) (hin : ObjIn S h) (bufs : CurveBuffers P F) :
    (finalizeObject mode sm (shCP k cp) (shObj k h) bufs).map (fun r => (eraseSliderSamples r.1, r.2)) =
      (finalizeObject mode sm cp h bufs).map (fun r => (eraseSliderSamples (shObj k r.1), r.2)) := by
  cases hsl : isSlider h with
  | false =>
    rw [finalizeObject_shift_on L mode sm cp hcp h hin hsl]
    cases finalizeObject mode sm cp h bufs <;> rfl
  | true =>
    obtain ⟨h1, _⟩ := hin
    unfold finalizeObject
    cases hk : h.kind with
    | circle c => unfold isSlider at hsl; rw [hk] at hsl; cases hsl
    | spinner c => unfold isSlider at hsl; rw [hk] at hsl; cases hsl
    | hold c => unfold isSlider at hsl; rw [hk] at hsl; cases hsl
    | slider s =>
      simp only [shObj, hk, timingPointAt_shift_on L cp hcp _ h1, difficultyPointAt_shift_on L cp hcp _ h1, Option.map_map]
      have e1 : ((fun x : TimingPoint F => x.beatLen) ∘ shTP k) = (fun x => x.beatLen) := rfl
      have e2 : ((fun x : DifficultyPoint F => x.sliderVelocity) ∘ shDP k) = (fun x => x.sliderVelocity) := rfl
      rw [e1, e2]
      cases hc : Curve.new curveFuel s.path.mode s.path.controlPoints s.path.expectedDist bufs with
      | error e => rfl
      | ok r =>
        obtain ⟨curve, b2⟩ := r
        rfl


theorem finalizeObjects_shift_on (L : ShiftLawsOn S k) (mode : GameMode) (sm : F) (cp : ControlPoints F) (hcp : CPIn S cp)
    (hs : List (HitObject F P)) (hin : ∀ h ∈ hs, ObjIn S h) (hns : ∀ h ∈ hs, isSlider h = false) (bufs : CurveBuffers P F) :
    finalizeObjects mode sm (shCP k cp) (hs.map (shObj k)) bufs =
      (finalizeObjects mode sm cp hs bufs).map (List.map (shObj k)) := by
  induction hs generalizing bufs with
  | nil => rfl
  | cons h rest ih =>
    simp only [List.map, finalizeObjects, bind, Except.bind]
    rw [finalizeObject_shift_on L mode sm cp hcp h (hin h (List.mem_cons_self ..)) (hns h (List.mem_cons_self ..))]
    cases finalizeObject mode sm cp h bufs with
    | error e => rfl
    | ok r =>
      obtain ⟨h', b'⟩ := r
      simp only [Except.map]
      rw [ih (fun x hx => hin x (List.mem_cons_of_mem _ hx)) (fun x hx => hns x (List.mem_cons_of_mem _ hx))]
      cases finalizeObjects mode sm cp rest b' with
      | error e => rfl
      | ok rest' => rfl

theorem finalizeObjects_shift_on_erased (L : ShiftLawsOn S k) (mode : GameMode) (sm : F) (cp : ControlPoints F) (hcp : CPIn S cp)
    (hs : List (HitObject F P)) (hin : ∀ h ∈ hs, ObjIn S h) (bufs : CurveBuffers P F) :
    (finalizeObjects mode sm (shCP k cp) (hs.map (shObj k)) bufs).map (List.map eraseSliderSamples) =
      (finalizeObjects mode sm cp hs bufs).map (List.map (fun h => eraseSliderSamples (shObj k h))) := by
  induction hs generalizing bufs with
  | nil => rfl
  | cons h rest ih =>
    have e := finalizeObject_shift_on_erased L mode sm cp hcp h (hin h (List.mem_cons_self ..)) bufs
    have ih' := fun b => ih (fun x hx => hin x (List.mem_cons_of_mem _ hx)) b
    simp only [List.map, finalizeObjects, bind, Except.bind]
    revert e
    cases finalizeObject mode sm (shCP k cp) (shObj k h) bufs with
    | error e1 =>
      cases finalizeObject mode sm cp h bufs with
      | error e2 => intro e; simp only [Except.map, Except.error.injEq] at e ⊢; exact e
      | ok r => intro e; simp only [Except.map] at e; cases e
    | ok r1 =>
      cases finalizeObject mode sm cp h bufs with
      | error e2 => intro e; simp only [Except.map] at e; cases e
      | ok r =>
        obtain ⟨h1, b1⟩ := r1
        obtain ⟨h', b'⟩ := r
        intro e
        simp only [Except.map, Except.ok.injEq, Prod.mk.injEq] at e
        obtain ⟨eh, eb⟩ := e
        subst eb
        simp only []
        have ihb := ih' b1
        revert ihb
        cases finalizeObjects mode sm (shCP k cp) (List.map (shObj k) rest) b1 with
        | error e1 =>
          cases finalizeObjects mode sm cp rest b1 with
          | error e2 => intro e; simp only [Except.map, Except.error.injEq] at e ⊢; exact e
          | ok r => intro e; simp only [Except.map] at e; cases e
        | ok l1 =>
          cases finalizeObjects mode sm cp rest b1 with
          | error e2 => intro e; simp only [Except.map] at e; cases e
          | ok l2 =>
            intro e
            simp only [Except.map, Except.ok.injEq] at e
            simp only [Except.map, pure, Except.pure, List.map, eh, e]

/-! ### the finalisers -/

omit [Cvt P F] [Trig F] [Trig P] in
theorem tp_finish_rel_on (L : ShiftLawsOn S k) (st st' : TimingPointsState F P) (h : TpRel k st st')
    (hcp : CPIn S st.controlPoints) (hpd : PendingIn S st.pending) :
    st'.finish = (st.finish.1, shCP k st.finish.2) ∧ CPIn S st.finish.2 := by
  obtain ⟨hg, hc, hp, _⟩ := h
  obtain ⟨f1, f2⟩ := flushInto_shift_on L st.controlPoints hcp st.pending hpd
  refine ⟨?_, f2⟩
  unfold TimingPointsState.finish flushPendingPoints
  simp only [hg, hc, hp, f1]

/-- the decoded `HitObjects` with the slider samples forgotten. -/
def eraseHO (ho : HitObjects F P) : HitObjects F P :=
  { ho with hitObjects := ho.hitObjects.map eraseSliderSamples }

/-- **shift invariance of `From<HitObjectsState> for HitObjects` on the domain `S`, no sliders**: for two unfinalised states
whose stored times differ by `k`, all of them (and the derived end / lookup times, `ObjIn`) in `S`, the results differ by
`k` in every object, break and control-point time and in nothing else. -/
theorem finish_rel_on (L : ShiftLawsOn S k) (st st' : HitObjectsState F P) (h : StateRel k st st') (hin : StateIn S st)
    (hns : ∀ o ∈ st.core.hitObjects, isSlider o = false) :
    st'.finish = (st.finish).map (shiftHitObjects k) := by
  obtain ⟨⟨_, _, _, ho⟩, he, htp, hd⟩ := h
  obtain ⟨i1, i2, i3, i4⟩ := hin
  obtain ⟨t1, t2⟩ := tp_finish_rel_on L _ _ htp i3 i4
  have q1 : ∀ o ∈ postProcessBreaks st.events.breaks (sortByStartTime st.core.hitObjects) 0, ObjIn S o :=
    postProcessBreaks_forall (ObjIn S) objIn_orNewCombo _ _ (sort_forall _ _ i1) 0
  have q2 : ∀ o ∈ postProcessBreaks st.events.breaks (sortByStartTime st.core.hitObjects) 0, isSlider o = false :=
    postProcessBreaks_forall (fun o => isSlider o = false) (fun o f ho => by rw [isSlider_orNewCombo]; exact ho) _ _
      (sort_forall _ _ hns) 0
  unfold HitObjectsState.finish
  simp only [t1, ho, he, hd, shEvents, sort_shift_on L _ (fun o ho => (i1 o ho).1),
    postProcessBreaks_shift_on L _ i2 _ (sort_forall _ _ (fun o ho => (i1 o ho).1)),
    finalizeObjects_shift_on L _ _ _ t2 _ q1 q2, bind, Except.bind]
  cases finalizeObjects st.timingPoints.finish.1.mode st.difficulty.difficulty.sliderMultiplier
      st.timingPoints.finish.2 (postProcessBreaks st.events.breaks (sortByStartTime st.core.hitObjects) 0)
      emptyBuffers with
  | error e => rfl
  | ok objs => rfl

/-- **shift invariance on the domain `S`, sliders included**: the same statement with the samples the finaliser resolves for a
slider (node samples, object samples) left out of the comparison — order, new-combo flags after breaks, slider velocity, curve
errors, every non-slider object in full, breaks and control points are as in `finish_rel_on`. That the left-out clause is not
a theorem of IEEE doubles is `Rosu.C15.slider_samples_shift_false` (Props/C15IeeeShift.lean). -/
theorem finish_rel_on_erased (L : ShiftLawsOn S k) (st st' : HitObjectsState F P) (h : StateRel k st st') (hin : StateIn S st) :
    (st'.finish).map eraseHO = (st.finish).map (fun ho => eraseHO (shiftHitObjects k ho)) := by
  obtain ⟨⟨_, _, _, ho⟩, he, htp, hd⟩ := h
  obtain ⟨i1, i2, i3, i4⟩ := hin
  obtain ⟨t1, t2⟩ := tp_finish_rel_on L _ _ htp i3 i4
  have q1 : ∀ o ∈ postProcessBreaks st.events.breaks (sortByStartTime st.core.hitObjects) 0, ObjIn S o :=
    postProcessBreaks_forall (ObjIn S) objIn_orNewCombo _ _ (sort_forall _ _ i1) 0
  have e := finalizeObjects_shift_on_erased L st.timingPoints.finish.1.mode st.difficulty.difficulty.sliderMultiplier
    _ t2 _ q1 emptyBuffers
  unfold HitObjectsState.finish
  simp only [t1, ho, he, hd, shEvents, sort_shift_on L _ (fun o ho => (i1 o ho).1),
    postProcessBreaks_shift_on L _ i2 _ (sort_forall _ _ (fun o ho => (i1 o ho).1)), bind, Except.bind]
  revert e
  cases finalizeObjects st.timingPoints.finish.1.mode st.difficulty.difficulty.sliderMultiplier
      (shCP k st.timingPoints.finish.2)
      (List.map (shObj k) (postProcessBreaks st.events.breaks (sortByStartTime st.core.hitObjects) 0)) emptyBuffers with
  | error e1 =>
    cases finalizeObjects st.timingPoints.finish.1.mode st.difficulty.difficulty.sliderMultiplier
      st.timingPoints.finish.2 (postProcessBreaks st.events.breaks (sortByStartTime st.core.hitObjects) 0) emptyBuffers with
    | error e2 => intro e; simp only [Except.map, Except.error.injEq] at e ⊢; exact e
    | ok r => intro e; simp only [Except.map] at e; cases e
  | ok l1 =>
    cases finalizeObjects st.timingPoints.finish.1.mode st.difficulty.difficulty.sliderMultiplier
      st.timingPoints.finish.2 (postProcessBreaks st.events.breaks (sortByStartTime st.core.hitObjects) 0) emptyBuffers with
    | error e2 => intro e; simp only [Except.map] at e; cases e
    | ok l2 =>
      intro e
      simp only [Except.map, Except.ok.injEq] at e
      simp only [Except.map, pure, Except.pure, eraseHO, shiftHitObjects, shEvents, e, List.map_map]
      rfl

theorem finish_shift_on (L : ShiftLawsOn S k) (st : HitObjectsState F P) (hin : StateIn S st)
    (hns : ∀ o ∈ st.core.hitObjects, isSlider o = false) :
    (shiftState k st).finish = (st.finish).map (shiftHitObjects k) :=
  finish_rel_on L st _ (stateRel_shift k st) hin hns

theorem finish_shift_on_erased (L : ShiftLawsOn S k) (st : HitObjectsState F P) (hin : StateIn S st) :
    ((shiftState k st).finish).map eraseHO = (st.finish).map (fun ho => eraseHO (shiftHitObjects k ho)) :=
  finish_rel_on_erased L st _ (stateRel_shift k st) hin

end Rosu.C15
