/-
  Props/C02FinalScroll.lean — C02 gap "(d)": `ScrollDrivesSv` holds of every DECODED taiko / mania map whose accepted
  `[TimingPoints]` lines are chronological and were all parsed in the map's final mode.

  One `[TimingPoints]` line carries ONE speed multiplier; `parse_timing_points` stores `clamp(·, 0.1, 10)` of it in a
  `DifficultyPoint` and — in taiko / mania — `clamp(·, 0.01, 10)` of it in an `EffectPoint`, in the same pending group. The
  two collections suppress redundant points independently (`kiai` / `generate_ticks` differ), so the two LISTS are unrelated;
  the two TIMELINES are not:

  * `ScrollInv` — invariant of the timing-point state machine: at every key `k`, the slider velocity of the difficulty point
    in effect (default 1) is `clamp(scroll speed in effect (default 1), 0.1, 10)`; the pending difficulty and effect slots
    are both empty or hold a pair from the same line (so related in the same way, at the key of the open group); every stored
    key lies before the open group.
  * `scrollInv_applyTpLine` — one accepted line keeps it, PROVIDED the line does not go back in time (`hord`) and the mode is
    taiko / mania. Exact arithmetic (`EpsLaws`: the redundancy tests are equalities; `GroupLaws`: the grouping test is
    equality of times) and the two closed clamp facts `ScrollClampLaws` (`clamp(1, 0.1, 10) = 1`,
    `clamp(clamp(x, 0.01, 10), 0.1, 10) = clamp(x, 0.1, 10)`: `0.01 ≤ 0.1 ≤ 10` in a linear order; instances `scrollClampLaws_zc`, and
    every exact scalar: `scrollClampLaws_of_exact` in Props/C02FinalScrollExact.lean).
  * **The invariant is FALSE for out-of-order lines** — `unordered_scroll_counterexample` (kernel-evaluated on the toy scalar,
    from the two TEXT lines `10,-100,4,1,0,100,0,1` and `5,-50,4,1,0,100,0,0` in mania): the kiai line at 10 stores an effect
    point only (its velocity 1 repeats the default), the line at 5 then inserts a difficulty point (velocity 2, in effect
    from 5 on, also at 10) and an effect point (scroll 2, in effect on [5, 10) only): at time 10 the slider velocity is 2 and
    the scroll speed 1. So the timeline statement without the chronological hypothesis is refuted
    (`scroll_timeline_unordered_false`); by `scroll_hypothesis_exact` a slider starting at 10 in such a map is exactly where
    the re-decoded `difficulty_point_at` answers differently (2 before, clamp(1) = 1 after) — the reason the property's
    domain asks for chronological timing lines.
  * the hypotheses on the FILE are stated on a ghost log: `tpLogDecoder` is `timingPointsDecoder` paired with the list of the
    accepted `[TimingPoints]` lines, each with the mode in force when it was applied (`tpLog_fst`: the first component is the
    real decoder, C07). `LogGood md log`: every entry was applied in mode `md` (finding F15: a `Mode:` record may follow
    `[TimingPoints]` lines — then the earlier lines stored scroll speed 1) and each line's time either equals the previous
    accepted line's time or has a strictly larger `total_cmp` key.
  * `decoded_scroll_timeline` — file level, every byte string: at EVERY time `u` the decoded map's
    `difficulty_point_at(u).slider_velocity` is `clamp(effect_point_at(u).scroll_speed, 0.1, 10)`; `decoded_scrollDrivesSv`
    is its restriction to slider start times, and `roundtrip_objects_decoded_scroll_partial` removes `hscroll` (and
    `Finalized`) from `roundtrip_objects_rep_scroll_partial` for decoded maps.
-/
import RosuModel.Props.C02FinalMania
import RosuModel.Props.C02FinalDecoded
import RosuModel.Props.C02FinalToy
import RosuModel.Props.C07
set_option linter.unusedSectionVars false
set_option maxRecDepth 100000
namespace Rosu.C02
open Rosu Encode EncodeLines C11 RtTiming Scalar FileRt SliderRt

section
variable {F P : Type} [Scalar F] [Scalar P]

/-! ### the laws -/

/-- the two closed facts about the clamps of `DifficultyPoint::new` / `parse_timing_points` (true in every linear order
with `0.01 ≤ 0.1 ≤ 1 ≤ 10`). -/
structure ScrollClampLaws (F : Type) [Scalar F] : Prop where
  one : clamp (1 : F) (0.1 : F) (10 : F) = 1
  nest : ∀ x : F, clamp (clamp x (0.01 : F) (10 : F)) (0.1 : F) (10 : F) = clamp x (0.1 : F) (10 : F)

/-! ### the invariant -/

/-- the pending difficulty / effect slots: both empty, or a pair with `slider_velocity = clamp(scroll_speed, 0.1, 10)` at
the key `pk` of the open group. -/
def PendOK (pk : Int) (pd : Pending F) : Prop :=
  (pd.difficulty = none ∧ pd.effect = none) ∨
  ∃ d e, pd.difficulty = some d ∧ pd.effect = some e ∧
    d.sliderVelocity = clamp e.scrollSpeed (0.1 : F) (10 : F) ∧ d.key = pk ∧ e.key = pk

structure ScrollInv (st : TimingPointsState F P) : Prop where
  timeline : ∀ k, dsvK st.controlPoints.difficultyPoints k =
    clamp (scrollK st.controlPoints.effectPoints k) (0.1 : F) (10 : F)
  pend : PendOK (totalKey st.pendingTime) st.pending
  keysD : ∀ p ∈ st.controlPoints.difficultyPoints, p.key < totalKey st.pendingTime
  keysE : ∀ p ∈ st.controlPoints.effectPoints, p.key < totalKey st.pendingTime

theorem scrollInv_create (C : ScrollClampLaws F) : ScrollInv (TimingPointsState.create : TimingPointsState F P) where
  timeline := by
    intro k
    have h1 : dsvK (TimingPointsState.create : TimingPointsState F P).controlPoints.difficultyPoints k = 1 := rfl
    have h2 : scrollK (TimingPointsState.create : TimingPointsState F P).controlPoints.effectPoints k = 1 := rfl
    rw [h1, h2, C.one]
  pend := Or.inl ⟨rfl, rfl⟩
  keysD := fun _ h => by cases h
  keysE := fun _ h => by cases h

/-- the pair a line contributes. -/
theorem line_pair (C : ScrollClampLaws F) (mode : GameMode) (hmode : mode = .taiko ∨ mode = .mania) (l : TpLine F) :
    l.difficultyPoint.sliderVelocity = clamp (l.effectPoint mode).scrollSpeed (0.1 : F) (10 : F) ∧
    l.difficultyPoint.key = totalKey l.time ∧ (l.effectPoint mode).key = totalKey l.time := by
  obtain ⟨e1, _, e3⟩ := effectPoint_fields mode l
  refine ⟨?_, rfl, ?_⟩
  · rw [e3]
    rcases hmode with rfl | rfl
    · exact (C.nest _).symm
    · exact (C.nest _).symm
  · show totalKey (l.effectPoint mode).time = _
    rw [e1]

omit [Scalar F] in
theorem pushSlot_none {α : Type} (p : α) (tc : Bool) : pushSlot none p tc = some p := by cases tc <;> rfl

theorem pendOK_step (C : ScrollClampLaws F) (mode : GameMode) (hmode : mode = .taiko ∨ mode = .mania) (pk : Int)
    (pd : Pending F) (l : TpLine F) (hk : totalKey l.time = pk) (h : PendOK pk pd) :
    PendOK pk (C12.stepPending mode pd l) := by
  obtain ⟨p1, p2, p3⟩ := line_pair C mode hmode l
  rcases h with ⟨hd, he⟩ | ⟨d, e, hd, he, h1, h2, h3⟩
  · right
    refine ⟨l.difficultyPoint, l.effectPoint mode, ?_, ?_, p1, p2.trans hk, p3.trans hk⟩
    · show pushSlot pd.difficulty _ _ = _
      rw [hd, pushSlot_none]
    · show pushSlot pd.effect _ _ = _
      rw [he, pushSlot_none]
  · right
    cases htc : l.timingChange with
    | false =>
      refine ⟨l.difficultyPoint, l.effectPoint mode, ?_, ?_, p1, p2.trans hk, p3.trans hk⟩
      · show pushSlot pd.difficulty _ l.timingChange = _
        rw [htc]; rfl
      · show pushSlot pd.effect _ l.timingChange = _
        rw [htc]; rfl
    | true =>
      refine ⟨d, e, ?_, ?_, h1, h2, h3⟩
      · show pushSlot pd.difficulty _ l.timingChange = _
        rw [htc, hd]; rfl
      · show pushSlot pd.effect _ l.timingChange = _
        rw [htc, he]; rfl

/-- **a flush keeps the timeline relation** and stores no key beyond the open group's. -/
theorem scrollInv_flush (E : EpsLaws F) (st : TimingPointsState F P) (hI : ScrollInv st) :
    (∀ k, dsvK (flushInto st.controlPoints st.pending).difficultyPoints k =
      clamp (scrollK (flushInto st.controlPoints st.pending).effectPoints k) (0.1 : F) (10 : F)) ∧
    (∀ p ∈ (flushInto st.controlPoints st.pending).difficultyPoints, p.key ≤ totalKey st.pendingTime) ∧
    (∀ p ∈ (flushInto st.controlPoints st.pending).effectPoints, p.key ≤ totalKey st.pendingTime) := by
  obtain ⟨_, l2, l3⟩ := flushInto_lists st.controlPoints st.pending
  rw [l2, l3]
  rcases hI.pend with ⟨hd, he⟩ | ⟨d, e, hd, he, h1, h2, h3⟩
  · rw [hd, he]
    simp only [optAdd]
    exact ⟨hI.timeline, fun p hp => Int.le_of_lt (hI.keysD p hp), fun p hp => Int.le_of_lt (hI.keysE p hp)⟩
  · rw [hd, he]
    simp only [optAdd]
    have kd : ∀ y ∈ st.controlPoints.difficultyPoints, DifficultyPoint.key y < DifficultyPoint.key d := by
      intro y hy; rw [h2]; exact hI.keysD y hy
    have ke : ∀ y ∈ st.controlPoints.effectPoints, EffectPoint.key y < EffectPoint.key e := by
      intro y hy; rw [h3]; exact hI.keysE y hy
    refine ⟨fun k => ?_, ?_, ?_⟩
    · unfold dsvK scrollK
      rw [add_beyond_value _ _ _ (dRed_sv E) _ _ kd, add_beyond_value _ _ _ (eRed_scroll E) _ _ ke, h2, h3]
      by_cases hk : k < totalKey st.pendingTime
      · simp only [hk, if_true]; exact hI.timeline k
      · simp only [hk, if_false]; exact h1
    · intro p hp
      rcases addChecked_keys _ _ _ _ p hp with hp | rfl
      · exact Int.le_of_lt (hI.keysD p hp)
      · rw [h2]; exact Int.le_refl _
    · intro p hp
      rcases addChecked_keys _ _ _ _ p hp with hp | rfl
      · exact Int.le_of_lt (hI.keysE p hp)
      · rw [h3]; exact Int.le_refl _

/-- "nothing has been stored or is pending": the state before the first accepted line. -/
def Untouched (st : TimingPointsState F P) : Prop :=
  st.controlPoints.difficultyPoints = [] ∧ st.controlPoints.effectPoints = [] ∧ st.pending = Pending.empty

/-- **one accepted line keeps the invariant** (taiko / mania; the line does not go back in time: it is the first one, or it
is at the time of the open group, or its key is beyond the open group's). -/
theorem scrollInv_applyTpLine (E : EpsLaws F) (G : GroupLaws F) (C : ScrollClampLaws F) (st : TimingPointsState F P)
    (l : TpLine F) (hmode : st.general.mode = .taiko ∨ st.general.mode = .mania) (hI : ScrollInv st)
    (hord : Untouched st ∨ totalKey st.pendingTime < totalKey l.time ∨ l.time = st.pendingTime) :
    ScrollInv (applyTpLine st l) := by
  rw [C12.applyTpLine_eq st l (G.same_refl _)]
  cases hs : sameGroup l.time st.pendingTime with
  | true =>
    have e : l.time = st.pendingTime := G.same_eq _ _ hs
    simp only [if_true]
    exact ⟨hI.timeline, pendOK_step C _ hmode _ _ l rfl (by rw [e]; exact hI.pend),
      fun p hp => by rw [e]; exact hI.keysD p hp, fun p hp => by rw [e]; exact hI.keysE p hp⟩
  | false =>
    simp only [Bool.false_eq_true, if_false]
    have hp : PendOK (totalKey l.time) (C12.stepPending st.general.mode Pending.empty l) :=
      pendOK_step C _ hmode _ _ l rfl (Or.inl ⟨rfl, rfl⟩)
    rcases hord with ⟨u1, u2, u3⟩ | hlt | heq
    · have hcp : flushInto st.controlPoints st.pending = st.controlPoints := by rw [u3]; rfl
      refine ⟨?_, hp, ?_, ?_⟩
      · show ∀ k, dsvK (flushInto st.controlPoints st.pending).difficultyPoints k = _
        rw [hcp]; exact hI.timeline
      · show ∀ p ∈ (flushInto st.controlPoints st.pending).difficultyPoints, _
        rw [hcp, u1]; intro p hp; cases hp
      · show ∀ p ∈ (flushInto st.controlPoints st.pending).effectPoints, _
        rw [hcp, u2]; intro p hp; cases hp
    · obtain ⟨f1, f2, f3⟩ := scrollInv_flush E st hI
      exact ⟨f1, hp, fun p hp => Int.lt_of_le_of_lt (f2 p hp) hlt, fun p hp => Int.lt_of_le_of_lt (f3 p hp) hlt⟩
    · rw [← heq, G.same_refl] at hs
      cases hs

/-- `parse_general` keeps it (it touches the `[General]` part only). -/
theorem scrollInv_parseGeneral (st : TimingPointsState F P) (line : Str) (hI : ScrollInv st) :
    ScrollInv (st.parseGeneral line).2 := by
  unfold TimingPointsState.parseGeneral
  split <;> exact ⟨hI.timeline, hI.pend, hI.keysD, hI.keysE⟩

/-- **at the end** (`From<TimingPointsState>`: one more flush) the relation holds of the finished collection. -/
theorem scrollInv_finish (E : EpsLaws F) (st : TimingPointsState F P) (hI : ScrollInv st) :
    ∀ k, dsvK st.finish.2.difficultyPoints k = clamp (scrollK st.finish.2.effectPoints k) (0.1 : F) (10 : F) :=
  (scrollInv_flush E st hI).1

/-- the relation, read with the lookups `difficulty_point_at` / `effect_point_at` at a time. -/
theorem timeline_at (cp : ControlPoints F)
    (h : ∀ k, dsvK cp.difficultyPoints k = clamp (scrollK cp.effectPoints k) (0.1 : F) (10 : F)) (u : F) :
    ((cp.difficultyPointAt u).map (·.sliderVelocity)).getD (1 : F) =
      clamp (((cp.effectPointAt u).map (·.scrollSpeed)).getD (1 : F)) (0.1 : F) (10 : F) := by
  have h1 : ((cp.difficultyPointAt u).map (·.sliderVelocity)).getD (1 : F) = dsvK cp.difficultyPoints (totalKey u) :=
    svFor_eq_svK GameMode.osu cp u
  have h2 : ((cp.effectPointAt u).map (·.scrollSpeed)).getD (1 : F) = scrollK cp.effectPoints (totalKey u) :=
    svFor_eq_svK GameMode.mania cp u
  rw [h1, h2, h (totalKey u)]

/-! ### the ghost log -/

/-- times in file order, never going back: each one equals its predecessor or has a strictly larger `total_cmp` key. -/
def TimesChron : List F → Prop
  | [] => True
  | [_] => True
  | a :: b :: rest => (totalKey a < totalKey b ∨ b = a) ∧ TimesChron (b :: rest)

theorem timesChron_snoc (ts : List F) (t : F) (h : TimesChron (ts ++ [t])) :
    TimesChron ts ∧ ∀ a, ts.getLast? = some a → totalKey a < totalKey t ∨ t = a := by
  induction ts with
  | nil => exact ⟨trivial, fun a ha => by cases ha⟩
  | cons x xs ih =>
    cases xs with
    | nil =>
      refine ⟨trivial, fun a ha => ?_⟩
      simp only [List.getLast?_singleton, Option.some.injEq] at ha
      subst ha
      exact h.1
    | cons y ys =>
      obtain ⟨h1, h2⟩ := h
      obtain ⟨i1, i2⟩ := ih h2
      refine ⟨⟨h1, i1⟩, fun a ha => i2 a ?_⟩
      rw [List.getLast?_cons_cons] at ha
      exact ha

/-- the hypotheses on a file's accepted `[TimingPoints]` lines: all applied in mode `md`, chronological. -/
def LogGood (md : GameMode) (log : List (GameMode × TpLine F)) : Prop :=
  (∀ p ∈ log, p.1 = md) ∧ TimesChron (log.map (fun p => p.2.time))

theorem logGood_snoc (md : GameMode) (log : List (GameMode × TpLine F)) (x : GameMode × TpLine F)
    (h : LogGood md (log ++ [x])) :
    LogGood md log ∧ x.1 = md ∧ ∀ a, log.getLast? = some a → totalKey a.2.time < totalKey x.2.time ∨ x.2.time = a.2.time := by
  obtain ⟨h1, h2⟩ := h
  rw [List.map_append, List.map_cons, List.map_nil] at h2
  obtain ⟨c1, c2⟩ := timesChron_snoc _ _ h2
  refine ⟨⟨fun p hp => h1 p (by simp [hp]), c1⟩, h1 x (by simp), fun a ha => c2 a.2.time ?_⟩
  rw [List.getLast?_map, ha]
  rfl

instance timesChronDec [DecidableEq F] : (ts : List F) → Decidable (TimesChron ts)
  | [] => isTrue trivial
  | [_] => isTrue trivial
  | _ :: b :: rest => @instDecidableAnd _ _ _ (timesChronDec (b :: rest))

instance logGoodDec [DecidableEq F] (md : GameMode) (log : List (GameMode × TpLine F)) : Decidable (LogGood md log) := by
  unfold LogGood; infer_instance

/-- the log step: an accepted `[TimingPoints]` line is appended with the mode it is applied in. -/
def logStep (sec : Section) (st : TimingPointsState F P) (log : List (GameMode × TpLine F)) (line : Str) :
    List (GameMode × TpLine F) :=
  match sec with
  | .timingPoints =>
    (match parseTpFields st.general line with
     | .ok l => log ++ [(st.general.mode, l)]
     | .error _ => log)
  | _ => log

/-- `timingPointsDecoder` with the ghost log. -/
def tpLogDecoder : LineDecoder (TimingPointsState F P × List (GameMode × TpLine F)) where
  create := fun v => (timingPointsDecoder.create v, [])
  step := fun sec x line => (timingPointsDecoder.step sec x.1 line, logStep sec x.1 x.2 line)

/-- the accepted `[TimingPoints]` lines of a list of lines, with their modes. -/
def tpLog (F P : Type) [Scalar F] [Scalar P] (ls : List Str) : List (GameMode × TpLine F) :=
  (frame (tpLogDecoder (F := F) (P := P)) ls).2

/-- the ghost does not disturb the decoder. -/
theorem tpLog_fst (ls : List Str) :
    (frame (tpLogDecoder (F := F) (P := P)) ls).1 = frame timingPointsDecoder ls :=
  C07.frame_proj tpLogDecoder timingPointsDecoder (·.1) (fun _ => rfl) (fun _ _ _ => rfl) ls

/-- the state is linked to the log: before the first accepted line nothing is stored; afterwards the open group is at the
last accepted line's time. -/
def Linked (st : TimingPointsState F P) (log : List (GameMode × TpLine F)) : Prop :=
  match log.getLast? with
  | none => Untouched st
  | some a => st.pendingTime = a.2.time

def LogInv (md : GameMode) (x : TimingPointsState F P × List (GameMode × TpLine F)) : Prop :=
  LogGood md x.2 → ScrollInv x.1 ∧ Linked x.1 x.2

theorem applyTpLine_pendingTime (st : TimingPointsState F P) (l : TpLine F) : (applyTpLine st l).pendingTime = l.time := rfl

theorem logInv_step (E : EpsLaws F) (G : GroupLaws F) (C : ScrollClampLaws F) (md : GameMode)
    (hmd : md = .taiko ∨ md = .mania) (sec : Section) (x : TimingPointsState F P × List (GameMode × TpLine F))
    (line : Str) (h : LogInv md x) : LogInv md (tpLogDecoder.step sec x line) := by
  obtain ⟨st, log⟩ := x
  have keep : ∀ st' : TimingPointsState F P, st'.controlPoints = st.controlPoints → st'.pending = st.pending →
      st'.pendingTime = st.pendingTime → LogInv md (st', log) := by
    intro st' e1 e2 e3 hg
    obtain ⟨hI, hl⟩ := h hg
    refine ⟨⟨by rw [e1]; exact hI.timeline, by rw [e2, e3]; exact hI.pend, by rw [e1, e3]; exact hI.keysD,
      by rw [e1, e3]; exact hI.keysE⟩, ?_⟩
    unfold Linked at hl ⊢
    cases hlast : log.getLast? with
    | none => rw [hlast] at hl; simp only [] at hl ⊢; unfold Untouched at hl ⊢; rw [e1, e2]; exact hl
    | some a => rw [hlast] at hl; simp only [] at hl ⊢; rw [e3]; exact hl
  cases sec with
  | timingPoints =>
    show LogInv md ((parseTimingPoints st line).2, logStep .timingPoints st log line)
    unfold parseTimingPoints logStep
    cases hp : parseTpFields st.general line with
    | error e => exact keep st rfl rfl rfl
    | ok l =>
      simp only []
      intro hg
      obtain ⟨hg0, hm, hch⟩ := logGood_snoc md log _ hg
      obtain ⟨hI, hl⟩ := h hg0
      simp only [] at hm hch
      refine ⟨scrollInv_applyTpLine E G C st l (by rw [hm]; exact hmd) hI ?_, ?_⟩
      · unfold Linked at hl
        cases hlast : log.getLast? with
        | none => rw [hlast] at hl; exact Or.inl hl
        | some a =>
          rw [hlast] at hl
          simp only [] at hl
          rw [hl]
          exact Or.inr (hch a hlast)
      · unfold Linked
        rw [List.getLast?_append, List.getLast?_singleton]
        rfl
  | general =>
    show LogInv md ((st.parseGeneral line).2, log)
    apply keep <;> (unfold TimingPointsState.parseGeneral; split <;> rfl)
  | editor => exact keep st rfl rfl rfl
  | metadata => exact keep st rfl rfl rfl
  | difficulty => exact keep st rfl rfl rfl
  | events => exact keep st rfl rfl rfl
  | colors => exact keep st rfl rfl rfl
  | hitObjects => exact keep st rfl rfl rfl
  | variables => exact keep st rfl rfl rfl
  | catchTheBeat => exact keep st rfl rfl rfl
  | mania => exact keep st rfl rfl rfl

/-- **through the framing driver**: for every list of lines. -/
theorem logInv_frame (E : EpsLaws F) (G : GroupLaws F) (C : ScrollClampLaws F) (md : GameMode)
    (hmd : md = .taiko ∨ md = .mania) (ls : List Str) : LogInv md (frame (tpLogDecoder (F := F) (P := P)) ls) :=
  DecodedInv.frame_invariant_lines (tpLogDecoder : LineDecoder (TimingPointsState F P × List (GameMode × TpLine F)))
    (LogInv md) (fun _ => True)
    (fun _ _ _ => ⟨scrollInv_create C, ⟨rfl, rfl, rfl⟩⟩)
    (fun s st l _ hst => logInv_step E G C md hmd s st l hst) ls (fun _ _ => True.intro)

/-- **lines level**: the timing-point state after any list of lines whose log is good, finished. -/
theorem framed_scroll_timeline (E : EpsLaws F) (G : GroupLaws F) (C : ScrollClampLaws F) (md : GameMode)
    (hmd : md = .taiko ∨ md = .mania) (ls : List Str) (hg : LogGood md (tpLog F P ls)) (u : F) :
    (((frame (timingPointsDecoder (F := F) (P := P)) ls).finish.2.difficultyPointAt u).map (·.sliderVelocity)).getD (1 : F) =
      clamp ((((frame (timingPointsDecoder (F := F) (P := P)) ls).finish.2.effectPointAt u).map (·.scrollSpeed)).getD (1 : F))
        (0.1 : F) (10 : F) := by
  have h := (logInv_frame (P := P) E G C md hmd ls hg).1
  rw [tpLog_fst] at h
  exact timeline_at _ (scrollInv_finish E _ h) u

end

/-! ### file level -/

section
variable {F P : Type} [Scalar F] [Scalar P] [Cvt P F] [Trig F] [Trig P] {RF : F → Prop} {RP : P → Prop}

/-- the lines the reader delivers for a byte string (BOM sniffed and skipped). -/
def fileLines (bs : List UInt8) : List Str :=
  (C10.linesOf (Encoding.fromBom bs).1 (bs.drop (Encoding.fromBom bs).2)).1

theorem decodeBytes_fileLines {σ : Type} (D : LineDecoder σ) (bs : List UInt8) (st : σ) (h : decodeBytes D bs = .ok st) :
    st = frame D (fileLines bs) := by
  rw [C10.decodeBytes_eq] at h
  unfold fileLines
  cases hl : C10.linesOf (Encoding.fromBom bs).1 (bs.drop (Encoding.fromBom bs).2) with
  | mk ls e =>
    rw [hl] at h
    cases e with
    | some k => simp at h
    | none =>
      simp only [Except.ok.injEq] at h
      exact h.symm

/-- for UTF-8 text: the text's own lines, end-trimmed (C10). -/
theorem fileLines_utf8_text (t : Str) (h : t.head? ≠ some (Char.ofNat 0xFEFF)) :
    fileLines (utf8Encode t) = (textLines t).map trimEnd := by
  have hb := C10.fromBom_utf8Encode t h
  unfold fileLines
  rw [hb, C10.fromBom_none_utf8 _ hb, List.drop_zero, C10.utf8_lines]
  rfl

/-- the accepted `[TimingPoints]` lines of a file, each with the mode in force when it was applied. -/
def tpLogBytes (F P : Type) [Scalar F] [Scalar P] (bs : List UInt8) : List (GameMode × TpLine F) := tpLog F P (fileLines bs)

/-- `From<BeatmapState> for Beatmap` takes `general` from the timing-point state. -/
theorem finish_general (st : BeatmapState F P) (b : Beatmap F P) (h : st.finish = .ok b) :
    b.general = st.hitObjects.timingPoints.general := by
  unfold BeatmapState.finish at h
  cases hho : st.hitObjects.finish with
  | error e => simp [hho, bind, Except.bind] at h
  | ok ho =>
    simp only [hho, bind, Except.bind, pure, Except.pure] at h
    injection h with h
    subst h
    unfold HitObjectsState.finish at hho
    simp only [bind, Except.bind, pure, Except.pure] at hho
    split at hho
    · cases hho
    · injection hho with hho
      subst hho
      rfl

/-- a state without pushed hit objects finishes. -/
theorem finish_no_objects (st : BeatmapState F P) (h : st.hitObjects.core.hitObjects = []) : ∃ m, st.finish = .ok m := by
  unfold BeatmapState.finish HitObjectsState.finish
  rw [h]
  simp [sortByStartTime, postProcessBreaks, finalizeObjects, bind, Except.bind, pure, Except.pure]

/-- **decoded_scroll_timeline** — decode any bytes to a taiko / mania map; if the accepted `[TimingPoints]` lines were all
applied in the map's mode and never go back in time, then at EVERY time the slider velocity in effect is the clamp of the
scroll speed in effect. Exact arithmetic (`EpsLaws`, `GroupLaws`) + `ScrollClampLaws`. -/
theorem decoded_scroll_timeline (E : EpsLaws F) (G : GroupLaws F) (C : ScrollClampLaws F) (bs : List UInt8)
    (st : BeatmapState F P) (m : Beatmap F P) (h1 : decodeBytes beatmapDecoder bs = .ok st) (h2 : st.finish = .ok m)
    (hmode : m.general.mode = .taiko ∨ m.general.mode = .mania) (hg : LogGood m.general.mode (tpLogBytes F P bs)) (u : F) :
    ((m.controlPoints.difficultyPointAt u).map (·.sliderVelocity)).getD (1 : F) =
      clamp (((m.controlPoints.effectPointAt u).map (·.scrollSpeed)).getD (1 : F)) (0.1 : F) (10 : F) := by
  have hst := decodeBytes_fileLines beatmapDecoder bs st h1
  have htp : st.hitObjects.timingPoints = frame timingPointsDecoder (fileLines bs) := by
    rw [hst, C07.hitObjects_agree, C07.timingPoints_agree]
  rw [finish_controlPoints st m h2, htp]
  exact framed_scroll_timeline E G C m.general.mode hmode (fileLines bs) hg u

/-- **decoded_scrollDrivesSv** — `ScrollDrivesSv` of every decoded taiko / mania map (hypotheses as above). -/
theorem decoded_scrollDrivesSv (E : EpsLaws F) (G : GroupLaws F) (C : ScrollClampLaws F) (bs : List UInt8)
    (st : BeatmapState F P) (m : Beatmap F P) (h1 : decodeBytes beatmapDecoder bs = .ok st) (h2 : st.finish = .ok m)
    (hmode : m.general.mode = .taiko ∨ m.general.mode = .mania) (hg : LogGood m.general.mode (tpLogBytes F P bs)) :
    ScrollDrivesSv m :=
  fun x _ _ => decoded_scroll_timeline E G C bs st m h1 h2 hmode hg x.startTime

/-- **roundtrip_objects_decoded_scroll_partial** (taiko / mania) — `roundtrip_objects_rep_scroll_partial` for a DECODED map:
`ScrollDrivesSv` and `Finalized` are no longer assumed but derived (`decoded_scrollDrivesSv`, `decoded_finalized`) from the
domain of the property: the `[HitObjects]` lines pushed chronological objects, the accepted `[TimingPoints]` lines are
chronological and were applied in the map's mode. Still assumed: `RepMap` (false of decoded maps in general: F17 F18 F20),
exact arithmetic for the timing part. -/
theorem roundtrip_objects_decoded_scroll_partial (L : MapLaws F P RF RP) (E : EpsLaws F) (G : GroupLaws F)
    (C : ScrollClampLaws F) (bs : List UInt8) (st0 : BeatmapState F P) (m : Beatmap F P)
    (h0 : decodeBytes beatmapDecoder bs = .ok st0) (hfin0 : st0.finish = .ok m)
    (hchron : Chronological st0.hitObjects.core.hitObjects)
    (hmode : m.general.mode = .taiko ∨ m.general.mode = .mania) (hg : LogGood m.general.mode (tpLogBytes F P bs))
    (hm : RepMap RF RP m) (hth : TimelineHyps m.general.mode m.controlPoints) (t : Str) (h : encode m = .ok t) :
    ∃ st : BeatmapState F P, decodeBytes beatmapDecoder (utf8Encode t) = .ok st ∧
      ∀ m2 : Beatmap F P, st.finish = .ok m2 →
        m2.hitObjects.length = m.hitObjects.length ∧
        ∀ p ∈ List.zip m.hitObjects m2.hitObjects, ObjPreserved p.1 p.2 :=
  roundtrip_objects_rep_scroll_partial L E G m hm hth t h (decoded_finalized bs st0 m h0 hfin0 hchron) hmode C.one
    (decoded_scrollDrivesSv E G C bs st0 m h0 hfin0 hmode hg)

end

/-- the statement WITHOUT the chronological hypothesis on the timing lines — FALSE, see `scroll_timeline_unordered_false`. -/
def scroll_timeline_unordered_statement : Prop :=
  ∀ (F P : Type) [Scalar F] [Scalar P], EpsLaws F → GroupLaws F → ScrollClampLaws F →
    ∀ (st0 : TimingPointsState F P), st0.pending = Pending.empty → st0.controlPoints = ControlPoints.empty →
      (st0.general.mode = .taiko ∨ st0.general.mode = .mania) →
      ∀ (strs : List Str) (u : F),
        (((C12.runStrs st0 strs).finish.2.difficultyPointAt u).map (·.sliderVelocity)).getD (1 : F) =
          clamp ((((C12.runStrs st0 strs).finish.2.effectPointAt u).map (·.scrollSpeed)).getD (1 : F)) (0.1 : F) (10 : F)

/-- the full clause for decoded maps, NOT a theorem of this development: without exact arithmetic. (With IEEE doubles two
scroll speeds closer than `EPSILON` are merged by one list and — when kiai differs — not by the other.) -/
def decoded_scrollDrivesSv_statement : Prop :=
  ∀ (F P : Type) [Scalar F] [Scalar P] [Cvt P F] [Trig F] [Trig P] (bs : List UInt8) (st : BeatmapState F P) (m : Beatmap F P),
    decodeBytes beatmapDecoder bs = .ok st → st.finish = .ok m → (m.general.mode = .taiko ∨ m.general.mode = .mania) →
    LogGood m.general.mode (tpLogBytes F P bs) → ScrollDrivesSv m

/-! ### the toy scalar: laws, the counterexample for out-of-order lines, non-vacuity -/

theorem zc_clamp (x lo hi : ZC) : clamp x lo hi = ⟨if hi.v < (if x.v < lo.v then lo.v else x.v) then hi.v else
    (if x.v < lo.v then lo.v else x.v)⟩ := by
  show (if decide (hi.v < (if decide (x.v < lo.v) then lo else x).v) then hi else (if decide (x.v < lo.v) then lo else x)) = _
  by_cases h1 : x.v < lo.v <;> by_cases h2 : hi.v < lo.v <;> by_cases h3 : hi.v < x.v <;> simp [h1, h2, h3]

theorem scrollClampLaws_zc : ScrollClampLaws ZC where
  one := by decide
  nest := by
    intro x
    have a : ((0.01 : ZC)).v = 0 := by decide
    have b : ((0.1 : ZC)).v = 0 := by decide
    have c : ((10 : ZC)).v = 10 := by decide
    rw [zc_clamp, zc_clamp, zc_clamp]
    simp only [a, b, c]
    congr 1
    repeat' split
    all_goals omega

/-- a fresh mania state. -/
def maniaState : TimingPointsState ZC ZC :=
  { (TimingPointsState.create : TimingPointsState ZC ZC) with
    general := { (GeneralState.default : GeneralState ZC ZC) with mode := .mania } }

/-- two accepted lines, the second EARLIER than the first: an inherited kiai line at 10 (multiplier 1), an inherited line at 5
(multiplier 2). -/
def unorderedLines : List Str := [str "10,-100,4,1,0,100,0,1", str "5,-50,4,1,0,100,0,0"]

/-- **the invariant fails for out-of-order lines**: at time 10 the slider velocity in effect is 2 (the difficulty point
stored at 5; the line at 10 stored none, its velocity 1 repeated the default) while the scroll speed in effect is 1 (the
effect point at 10, stored for its kiai flag). -/
theorem unordered_scroll_counterexample :
    (C12.runStrs maniaState unorderedLines).finish.2.difficultyPoints = [⟨⟨5⟩, ⟨2⟩, true⟩] ∧
    (C12.runStrs maniaState unorderedLines).finish.2.effectPoints = [⟨⟨5⟩, false, ⟨2⟩⟩, ⟨⟨10⟩, true, ⟨1⟩⟩] ∧
    (((C12.runStrs maniaState unorderedLines).finish.2.difficultyPointAt ⟨10⟩).map (·.sliderVelocity)).getD (1 : ZC) = ⟨2⟩ ∧
    clamp ((((C12.runStrs maniaState unorderedLines).finish.2.effectPointAt ⟨10⟩).map (·.scrollSpeed)).getD (1 : ZC))
      (0.1 : ZC) (10 : ZC) = ⟨1⟩ := by
  decide

theorem scroll_timeline_unordered_false : ¬ scroll_timeline_unordered_statement := by
  intro h
  have := h ZC ZC zc_epsLaws zc_groupLaws scrollClampLaws_zc maniaState rfl rfl (Or.inr rfl) unorderedLines ⟨10⟩
  rw [unordered_scroll_counterexample.2.2.1, unordered_scroll_counterexample.2.2.2] at this
  revert this
  decide

end Rosu.C02
