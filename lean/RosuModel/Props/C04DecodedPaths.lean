/-
  Props/C04DecodedPaths.lean — C04 / C02: the TYPE / SHAPE half of `SliderRt.RepPath` (`PathShapeOk`,
  Props/C04DecodedObjects.lean) for the sliders of DECODED maps, derived from `convert_path_str`.

  What `convert_path_str` guarantees of the control points it stores (from a state with an empty path buffer — the only
  states the decoder reaches, `C14.leftover_stays_empty`): the first control point is the origin and typed; every typed
  point has a well-formed type; a perfect-curve point heads exactly three non-collinear points; and every clause of
  `SliderRt.ChainOK` EXCEPT the two that the predicate `F17Free` states (Lemmas/DecodedPathInv.lean, `F17Chain`):
    * an untyped point that repeats its TYPED predecessor's position is the last point or directly precedes a typed point
      (finding F17, index-0 variant: `C|0:0|0:0|3:3` at 0,0 is stored as `[o(C), o, p]`);
    * a typed point with the same type as the segment before it, not a perfect curve and followed by an untyped point —
      one the encoder writes implicitly, by repeating the point — does not repeat its predecessor's position (finding F17:
      `B|1:1|B|1:1|3:3` is stored as `[o(B), q, q(B), p]`) and is not Catmull (consecutive Catmull segments cannot be
      written: excluded by the property text).
  `F17Free` is decidable and NECESSARY for `PathShapeOk` (`pathShapeOk_f17Free`), so for decoded sliders
  `PathShapeOk ↔ F17Free` (`decoded_path_shape_iff`): the residual `SliderResidual.shape` is exactly this predicate.

  Laws (`PathLaws`; toy instance `ZC.pathLaws`): on the positions a path string can produce (`C14.CtrlPos` of a head position
  with truncated coordinates) `==` is equality, reflexive, and a triple with a repeated point is collinear for `is_linear`
  (none holds of every `Scalar`: NaN, −0); a piece that starts with an ASCII letter does not read as a number within
  ±131072 (Rust reads `inf`, `nan`, `infinity` as floats — they fail the limit test). For the IEEE instances all of them
  are theorems: Props/C04DecodedPathsIeee.lean (`pathLaws_ieee`).

  Theorems: `decoded_path_shape` (one line, any mode / state with empty buffer / line), `pathState_decoded` (framing
  driver), `decoded_map_path_shape`, `decoded_path_shape_iff` (finished map),
  `f17_needed` (kernel-evaluated lines whose stored control points violate `PathShapeOk`), `f17_file_needed` (a decoded
  file), `f17_map_needed` (its finished map, if the finaliser succeeds), `f17Free_of_noRepeat` (a readable sufficient condition),
  `decoded_sliders_representable`, `decoded_objects_representable_f17`, `hitobjects_block_accepted_decoded_f17`,
  `encoded_file_accepted_decoded_f17_partial`.
-/
import RosuModel.Lemmas.DecodedPathInv
import RosuModel.Props.C04DecodedObjects
import RosuModel.Props.C04DecodedObjectsToy
set_option linter.unusedSectionVars false
namespace Rosu.C04
open Rosu Scalar RtObjects SliderRt DecodedObj EncodeLines Encode DecodedPath C14 C14.HoSpec DecodedSliders DecodedInv

section
variable {F P : Type} [Scalar F] [Scalar P] [Cvt P F]

/-! ### the exception, and the laws -/

/-- **the control-point lists free of finding F17** (and of consecutive Catmull segments): `F17Chain` from the first
control point on — the clauses of `ChainOK` the decoder does not guarantee. -/
def F17Free : List (PathControlPoint P) → Prop
  | [] => True
  | p0 :: rest =>
    match p0.pathType with
    | none => True
    | some t0 => F17Chain t0 p0 rest

instance decF17Free : ∀ cps : List (PathControlPoint P), Decidable (F17Free cps)
  | [] => isTrue trivial
  | p0 :: rest =>
    match h0 : p0.pathType with
    | none => isTrue (by unfold F17Free; simp only [h0])
    | some t0 => decidable_of_iff (F17Chain t0 p0 rest) (by unfold F17Free; simp only [h0])

/-- `F17Free` is necessary for `PathShapeOk`. -/
theorem pathShapeOk_f17Free (cps : List (PathControlPoint P)) (h : PathShapeOk cps) : F17Free cps := by
  cases cps with
  | nil => trivial
  | cons p0 rest =>
    simp only [PathShapeOk] at h
    simp only [F17Free]
    cases h0 : p0.pathType with
    | none => trivial
    | some t0 =>
      simp only [h0] at h ⊢
      exact chainOK_f17 rest t0 p0 h.2.2.2

/-- a readable sufficient condition for `F17Free`: no control point after the first repeats its predecessor's position
(as `==` sees it) and none is typed Catmull. -/
def NoRepeat : PathControlPoint P → List (PathControlPoint P) → Prop
  | _, [] => True
  | a, b :: rest => Pos.eq b.pos a.pos = false ∧ b.pathType ≠ some PathType.catmull ∧ NoRepeat b rest

omit [Scalar F] [Cvt P F] in
theorem f17Chain_of_noRepeat (rest : List (PathControlPoint P)) :
    ∀ (T : PathType) (a : PathControlPoint P), NoRepeat a rest → F17Chain T a rest := by
  induction rest with
  | nil => intro T a _; trivial
  | cons b rest ih =>
    intro T a h
    obtain ⟨h1, h2, h3⟩ := h
    rw [F17Chain]
    cases hb : b.pathType with
    | none =>
      simp only
      exact ⟨fun he => (by rw [h1] at he; cases he), ih T b h3⟩
    | some t =>
      simp only
      exact ⟨fun _ => ⟨fun e => h2 (by rw [hb, e]), h1⟩, ih t b h3⟩

omit [Scalar F] [Cvt P F] in
theorem f17Free_of_noRepeat (p0 : PathControlPoint P) (rest : List (PathControlPoint P)) (h : NoRepeat p0 rest) :
    F17Free (p0 :: rest) := by
  simp only [F17Free]
  split
  · trivial
  · exact f17Chain_of_noRepeat rest _ p0 h

/-- **laws on path positions and path pieces** (see the file header). -/
structure PathLaws (F P : Type) [Scalar F] [Scalar P] : Prop where
  eq : ∀ start : Pos P, CoordP start.x → CoordP start.y → EqLaws (CtrlPos F start)
  letter : ∀ s : Str, isLetterPiece s = true → (number s (Scalar.ofInt 131072) : Option F) = none

/-! ### one path string -/

omit [Scalar F] [Cvt P F] in
theorem splitOn_letter (sep : Char) (s : Str) (hs : isLetterPiece s = true) (hsep : isLetterPiece [sep] = false) :
    ∃ p0 rest, splitOn sep s = p0 :: rest ∧ isLetterPiece p0 = true := by
  cases s with
  | nil => simp [isLetterPiece, firstIsAsciiAlpha] at hs
  | cons c cs =>
    rw [splitOn]
    split
    · rename_i hc
      have : c = sep := by simpa using hc
      subst this
      simp only [isLetterPiece, firstIsAsciiAlpha] at hs hsep
      rw [hsep] at hs; cases hs
    · split
      · exact ⟨[c], [], rfl, by simpa [isLetterPiece, firstIsAsciiAlpha] using hs⟩
      · rename_i p ps _
        exact ⟨c :: p, ps, rfl, by simpa [isLetterPiece, firstIsAsciiAlpha] using hs⟩

omit [Cvt P F] in
/-- a piece starting with an ASCII letter is not a point. -/
theorem point_letter (PL : PathLaws F P) (start : Pos P) (s : Str) (hs : isLetterPiece s = true) :
    point F start s = none := by
  obtain ⟨p0, rest, hsp, hp0⟩ := splitOn_letter ':' s hs (by decide)
  unfold point
  simp only [hsp, List.getElem?_cons_zero, Option.bind_some, PL.letter p0 hp0]

theorem point_ctrlPos (start : Pos P) (s : Str) (v : PathControlPoint P) (h : point F start s = some v) :
    CtrlPos F start v.pos := by
  rw [← point_eq] at h
  exact readPoint_pos s start v h

/-- **the control points of an accepted path string read into an empty buffer** have the shape `PathShapeOk`, given
`F17Free`. -/
theorem convertPathStr_shape (PL : PathLaws F P) (sc : PathScratch P) (s : Str) (start : Pos P)
    (hx : CoordP start.x) (hy : CoordP start.y) (hc : sc.curvePoints = [])
    (hok : (convertPathStr F sc s start).2 = true) :
    F17Free (convertPathStr F sc s start).1.curvePoints → PathShapeOk (convertPathStr F sc s start).1.curvePoints := by
  obtain ⟨h1, h2⟩ := path_eq (F := F) sc s start
  rw [hc] at h1 h2
  rw [h1] at hok
  cases hp : path F [] start s with
  | none => rw [hp] at hok; cases hok
  | some cps =>
    rw [hp] at h2
    simp only [Option.getD_some] at h2
    rw [h2]
    obtain ⟨p0, rest, t0, e1, e2, e3, e4, e5, e6⟩ := path_shape (F := F) (PL.eq start hx hy) start (Or.inl rfl)
      (point_ctrlPos start) (point_letter PL start) s cps hp
    subst e1
    intro hf
    unfold F17Free at hf
    unfold PathShapeOk
    simp only [e3] at hf ⊢
    exact ⟨e2, e4, e5, e6 hf⟩

/-! ### one line -/

/-- what every pushed slider satisfies: the shape half of `RepPath`, up to finding F17. -/
def PathOk (s : HitObjectSlider F P) : Prop :=
  F17Free s.path.controlPoints → PathShapeOk s.path.controlPoints

theorem buildSlider_pathOk (PL : PathLaws F P) (mode : GameMode) (st st' : HOCore F P) (hd : Header F P)
    (k : HitObjectKind F P) (b : SampleBankInfo) (hx : CoordP hd.pos.x) (hy : CoordP hd.pos.y)
    (hc : st.curvePoints = []) (h : buildSlider mode st hd = (st', some (k, b))) :
    ∀ s, k = .slider s → PathOk s := by
  unfold buildSlider at h
  split at h
  · cases h
  · rename_i pre hpre
    have hs := convertPathStr_shape (F := F) PL st.scratch pre.pointStr hd.pos hx hy hc
    split at h
    · cases h
    · rename_i sc heq
      rw [heq] at hs
      cases h
      intro s hk
      cases hk
      exact hs rfl

/-- **one `[HitObjects]` line**, accepted or not, any mode, from any state with an empty path buffer: the buffer is
empty again, and the object list is unchanged or extended by one object which, if it is a slider, satisfies `PathOk`. -/
theorem parseHitObjectLine_pathOk (PL : PathLaws F P) (mode : GameMode) (st : HOCore F P) (line : Str)
    (hc : st.curvePoints = []) :
    (parseHitObjectLine mode st line).1.curvePoints = [] ∧
    ((parseHitObjectLine mode st line).1.hitObjects = st.hitObjects ∨
      ∃ o, (parseHitObjectLine mode st line).1.hitObjects = st.hitObjects ++ [o] ∧ ∀ s, o.kind = .slider s → PathOk s) := by
  unfold parseHitObjectLine
  split
  · exact ⟨hc, Or.inl rfl⟩
  · rename_i hd hhd
    obtain ⟨hx, hy, _⟩ := header_stored line hd hhd
    split
    · exact ⟨hc, Or.inl rfl⟩
    · split
      · exact ⟨hc, Or.inl rfl⟩
      · rename_i k b hb
        refine ⟨hc, Or.inr ⟨_, rfl, ?_⟩⟩
        intro s hk
        have := buildCircle_class st hd k b hb
        simp only [] at hk
        rw [hk] at this
        cases this
    · have hs := buildSlider_scratch mode st hd hc
      have hf := buildSlider_frame mode st hd
      split
      · rename_i st' heq
        rw [heq] at hs hf
        exact ⟨hs, Or.inl hf.1⟩
      · rename_i st' k b heq
        rw [heq] at hs hf
        refine ⟨hs, Or.inr ⟨{ startTime := hd.startTime, kind := k, samples := b.convertSoundType hd.soundType }, ?_,
          buildSlider_pathOk PL mode st st' hd k b hx hy hc heq⟩⟩
        show st'.hitObjects ++ [_] = _
        simp only [] at hf
        rw [hf.1]
    · split
      · exact ⟨hc, Or.inl rfl⟩
      · rename_i k b hb
        refine ⟨hc, Or.inr ⟨_, rfl, ?_⟩⟩
        intro s hk
        have := buildSpinner_class hd k b hb
        simp only [] at hk
        rw [hk] at this
        cases this
    · split
      · exact ⟨hc, Or.inl rfl⟩
      · rename_i k b hb
        refine ⟨hc, Or.inr ⟨_, rfl, ?_⟩⟩
        intro s hk
        have := buildHold_class hd k b hb
        simp only [] at hk
        rw [hk] at this
        cases this

/-- **decoded_path_shape** — for every slider pushed by `parse_hit_objects` (any mode, any line, any state whose path
buffer is empty — the states the decoder reaches), the stored control-point list satisfies every clause of `PathShapeOk`
given `F17Free`; and `F17Free` is necessary, so the two are equivalent. -/
theorem decoded_path_shape (PL : PathLaws F P) (mode : GameMode) (st : HOCore F P) (line : Str)
    (hc : st.curvePoints = []) (o : HitObject F P)
    (hpush : (parseHitObjectLine mode st line).1.hitObjects = st.hitObjects ++ [o])
    (s : HitObjectSlider F P) (hk : o.kind = .slider s) :
    PathShapeOk s.path.controlPoints ↔ F17Free s.path.controlPoints := by
  refine ⟨pathShapeOk_f17Free _, ?_⟩
  rcases (parseHitObjectLine_pathOk PL mode st line hc).2 with h | ⟨o', h, ho'⟩
  · rw [hpush] at h
    have := congrArg List.length h
    simp at this
  · rw [hpush] at h
    have : o = o' := by simpa using h
    subst this
    exact ho' s hk

/-! ### through the framing driver -/

/-- the decoder-state invariant: empty path buffer between lines, every pushed slider `PathOk`. -/
def PathState (st : BeatmapState F P) : Prop :=
  st.hitObjects.core.curvePoints = [] ∧ SliderInv PathOk st.hitObjects.core.hitObjects

theorem pathState_create (v : Int) : PathState (BeatmapState.create v : BeatmapState F P) :=
  ⟨rfl, sliderInv_nil _⟩

theorem pathState_step (PL : PathLaws F P) (sec : Section) (st : BeatmapState F P) (l : Str) (h : PathState st) :
    PathState (BeatmapState.step sec st l) := by
  unfold PathState at h ⊢
  have key : (st.hitObjects.step sec l).core.curvePoints = [] ∧ SliderInv PathOk (st.hitObjects.step sec l).core.hitObjects := by
    rcases hoStep_core sec st.hitObjects l with e | e
    · rw [e]; exact h
    · rw [e]
      obtain ⟨h1, h2⟩ := parseHitObjectLine_pathOk PL st.hitObjects.timingPoints.general.mode st.hitObjects.core l h.1
      refine ⟨h1, ?_⟩
      rcases h2 with h2 | ⟨o, h2, ho⟩
      · rw [h2]; exact h.2
      · rw [h2]; exact sliderInv_snoc _ _ _ h.2 ho
  cases sec <;> first | exact key | exact h

/-- **every decoded byte string leaves the decoder with `PathOk` sliders only.** -/
theorem pathState_decoded (PL : PathLaws F P) (bs : List UInt8) (st : BeatmapState F P)
    (h : decodeBytes beatmapDecoder bs = .ok st) : PathState st := by
  obtain ⟨ls, rfl, _⟩ := DecodedInv.decodeBytes_lines _ bs st h
  exact DecodedInv.frame_invariant_lines (beatmapDecoder : LineDecoder (BeatmapState F P)) PathState (fun _ => True)
    (fun v _ => pathState_create v) (fun s st l _ hst => pathState_step PL s st l hst) ls (fun _ _ => True.intro)

end

/-! ### through the finaliser -/

section Decoded
variable {F P : Type} [Scalar F] [Scalar P] [Cvt P F] [Trig F] [Trig P] {RF : F → Prop} {RP : P → Prop}

/-- **decoded_map_path_shape** — every slider of every decoded map (any bytes) whose control points are `F17Free` has the
shape `PathShapeOk`: sorting, break processing and the finaliser do not touch control points. -/
theorem decoded_map_path_shape (PL : PathLaws F P) (bs : List UInt8) (st : BeatmapState F P) (m : Beatmap F P)
    (h1 : decodeBytes beatmapDecoder bs = .ok st) (h2 : st.finish = .ok m) :
    ∀ h ∈ m.hitObjects, ∀ s, h.kind = .slider s → F17Free s.path.controlPoints → PathShapeOk s.path.controlPoints := by
  intro h hh s hk
  obtain ⟨h0, hh0, s0, hk0, hp⟩ := decoded_slider_origin st m h2 h hh s hk
  rw [hp]
  exact (pathState_decoded PL bs st h1).2 h0 hh0 s0 hk0

/-- **decoded_path_shape_iff** — for the sliders of decoded maps the residual `SliderResidual.shape` IS the predicate of
finding F17. -/
theorem decoded_path_shape_iff (PL : PathLaws F P) (bs : List UInt8) (st : BeatmapState F P) (m : Beatmap F P)
    (h1 : decodeBytes beatmapDecoder bs = .ok st) (h2 : st.finish = .ok m) :
    ∀ h ∈ m.hitObjects, ∀ s, h.kind = .slider s → (PathShapeOk s.path.controlPoints ↔ F17Free s.path.controlPoints) :=
  fun h hh s hk => ⟨pathShapeOk_f17Free _, decoded_map_path_shape PL bs st m h1 h2 h hh s hk⟩

/-! ### the corollaries, with the shape assumption replaced -/

/-- the residual of a decoded slider: finding F17 (`F17Free`: no repeated point at a segment start, no consecutive
Catmull segments) and — when no length was requested — finding F20. -/
structure SliderResidualF17 (RF : F → Prop) (s : HitObjectSlider F P) : Prop where
  f17 : F17Free s.path.controlPoints
  computed : s.path.expectedDist = none → ∃ dist, curveDist s = .ok dist ∧ RF dist ∧ InCoord dist

/-- **decoded_sliders_representable** — every slider of every decoded map whose control points are `F17Free` and whose
computed distance, when no length was requested, is within the parse limit (F20) is `RepSlider` for the length the
encoder writes. -/
theorem decoded_sliders_representable (L : ObjLaws F P RF RP) (LC : CtrlLaws F P RP) (PL : PathLaws F P)
    (bs : List UInt8) (st : BeatmapState F P) (m : Beatmap F P) (h1 : decodeBytes beatmapDecoder bs = .ok st)
    (h2 : st.finish = .ok m) (mode : GameMode) :
    ∀ h ∈ m.hitObjects, ∀ s, h.kind = .slider s → SliderResidualF17 RF s → ∃ dist, RepSlider RF RP mode h s dist :=
  fun h hh s hk hres => decoded_sliders_representable_partial L LC bs st m h1 h2 mode h hh s hk
    ⟨decoded_map_path_shape PL bs st m h1 h2 h hh s hk hres.f17, hres.computed⟩

/-- the residual of one decoded object, by kind. -/
def ObjResidualF17 (RF : F → Prop) (h : HitObject F P) : Prop :=
  match h.kind with
  | .slider s => SliderResidualF17 RF s
  | _ => FileNameResidual h.samples

theorem objResidual_of_f17 (PL : PathLaws F P) (bs : List UInt8) (st : BeatmapState F P) (m : Beatmap F P)
    (h1 : decodeBytes beatmapDecoder bs = .ok st) (h2 : st.finish = .ok m) :
    ∀ h ∈ m.hitObjects, ObjResidualF17 RF h → ObjResidual RF h := by
  intro h hh hres
  unfold ObjResidualF17 at hres
  unfold ObjResidual
  cases hk : h.kind with
  | slider s =>
    rw [hk] at hres
    exact ⟨decoded_map_path_shape PL bs st m h1 h2 h hh s hk hres.f17, hres.computed⟩
  | circle c => rw [hk] at hres; exact hres
  | spinner c => rw [hk] at hres; exact hres
  | hold c => rw [hk] at hres; exact hres

/-- **decoded_objects_representable_f17** — `SliderRt.RepObject` for every object of a decoded map satisfying its
residual (sliders: F17, F20; others: F21 and the `|` artefact). -/
theorem decoded_objects_representable_f17 (L : ObjLaws F P RF RP) (D : DurLaws F RF) (LC : CtrlLaws F P RP)
    (PL : PathLaws F P) (bs : List UInt8) (st : BeatmapState F P) (m : Beatmap F P)
    (h1 : decodeBytes beatmapDecoder bs = .ok st) (h2 : st.finish = .ok m) (mode : GameMode) :
    ∀ h ∈ m.hitObjects, ObjResidualF17 RF h → RepObject RF RP mode h :=
  fun h hh hres => decoded_objects_representable_partial L D LC bs st m h1 h2 mode h hh
    (objResidual_of_f17 PL bs st m h1 h2 h hh hres)

/-- **hitobjects_block_accepted_decoded_f17** — `hitobjects_block_accepted_decoded` with the shape assumption replaced by
`F17Free`. -/
theorem hitobjects_block_accepted_decoded_f17 (LF : CodecLaws F RF) (LP : CodecLaws P RP) (LCo : SliderRt.CoordLaws F P RP)
    (L : ObjLaws F P RF RP) (D : DurLaws F RF) (LC : CtrlLaws F P RP) (PL : PathLaws F P)
    (bs : List UInt8) (st : BeatmapState F P) (m : Beatmap F P) (h1 : decodeBytes beatmapDecoder bs = .ok st)
    (h2 : st.finish = .ok m) (hres : ∀ h ∈ m.hitObjects, ObjResidualF17 RF h) :
    ∃ H : List Str, encodeHitObjects m = .ok (unlines (str "[HitObjects]" :: H)) ∧ RtFile.ListBlockShape H ∧
      H.length = m.hitObjects.length ∧
      ∀ st' : HOCore F P, Accepts (parseHitObjectLine m.general.mode) st' (H.map trimEnd) :=
  hitobjects_block_accepted_decoded LF LP LCo L D LC bs st m h1 h2
    (fun h hh => objResidual_of_f17 PL bs st m h1 h2 h hh (hres h hh))

open C11 RtTiming FileRt in
/-- **encoded_file_accepted_decoded_f17_partial** — `encoded_file_accepted_decoded_partial` with the shape assumption
replaced by `F17Free`. Still partial: `RepTimingMap` and F16 remain hypotheses, as there. -/
theorem encoded_file_accepted_decoded_f17_partial (ML : MapLaws F P RF RP) (C : DecodedInv.ConstFacts F P)
    (LRP : DecodedInv.LimitRep RP) (L : ObjLaws F P RF RP) (D : DurLaws F RF) (LC : CtrlLaws F P RP) (PL : PathLaws F P)
    (bs : List UInt8) (st : BeatmapState F P) (m : Beatmap F P) (h1 : decodeBytes beatmapDecoder bs = .ok st)
    (h2 : st.finish = .ok m) (hds : DecodedInv.NoDoubleSlash m) (htim : RtTiming.RepTimingMap RF m)
    (hres : ∀ h ∈ m.hitObjects, ObjResidualF17 RF h) (t : Str) (h : encode m = .ok t) :
    ∃ (cp : ControlPoints F) (T H : List Str),
      collectSamples m = .ok cp ∧ T = (mapEntries m cp).map Entry.line ∧
      encodeTimingPoints m = .ok (unlines (str "[TimingPoints]" :: T)) ∧
      encodeHitObjects m = .ok (unlines (str "[HitObjects]" :: H)) ∧
      RtFile.ListBlockShape T ∧ RtFile.ListBlockShape H ∧ H.length = m.hitObjects.length ∧
      t = unlines (RtFile.fileLines m.formatVersion (RtGeneral.generalLines m.general (RtGeneral.sampleSetOf m.controlPoints))
        (RtEditor.editorLines m.editor) (RtMetadata.metadataLines m.metadata) (RtDifficulty.difficultyLines m.difficulty)
        (RtEvents.eventLines m.events) T (RtColours.colourLines m.colors) H) ∧
      (∀ (σ : Type) (Dc : LineDecoder σ),
        decodeBytes Dc (utf8Encode t) = .ok (runCalls Dc (Dc.create m.formatVersion) (recordCalls m T H))) ∧
      decodeBytes recorder (utf8Encode t) = .ok { version := m.formatVersion, calls := (recordCalls m T H).reverse } ∧
      CallsAccepted (BeatmapState.create m.formatVersion : BeatmapState F P) (recordCalls m T H) ∧
      ∃ st' : BeatmapState F P, decodeBytes beatmapDecoder (utf8Encode t) = .ok st' ∧
        st'.hitObjects.core.hitObjects.length = m.hitObjects.length ∧
        st'.hitObjects.events.breaks.length = m.events.breaks.length ∧
        st'.colors.customComboColors.length = m.colors.customComboColors.length ∧
        st'.colors.customColors.length = m.colors.customColors.length ∧
        st'.hitObjects.timingPoints = C12.runStrs { (TimingPointsState.create : TimingPointsState F P) with
          general := RtGeneral.preservedGeneral m.general (RtGeneral.sampleSetOf m.controlPoints) } (T.map trimEnd) ∧
        (T.map trimEnd).length = (mapEntries m cp).length :=
  encoded_file_accepted_decoded_partial ML C LRP L D LC bs st m h1 h2 hds htim
    (fun h hh => objResidual_of_f17 PL bs st m h1 h2 h hh (hres h hh)) t h

end Decoded

/-! ### the full statements (no exception) are FALSE of the model -/

section Statements
variable (F P : Type) [Scalar F] [Scalar P] [Cvt P F] [Trig F] [Trig P]

/-- the full statement at the decoder state: every pushed slider has the shape `PathShapeOk` — FALSE (F17). -/
def decoded_state_path_shape_statement : Prop :=
  ∀ (bs : List UInt8) (st : BeatmapState F P), decodeBytes beatmapDecoder bs = .ok st →
    SliderInv (fun s => PathShapeOk s.path.controlPoints) st.hitObjects.core.hitObjects

/-- the full statement for finished maps — FALSE whenever the witness file finishes (`f17_map_needed`). -/
def decoded_path_shape_statement : Prop :=
  ∀ (bs : List UInt8) (st : BeatmapState F P) (m : Beatmap F P), decodeBytes beatmapDecoder bs = .ok st →
    st.finish = .ok m → ∀ h ∈ m.hitObjects, ∀ s, h.kind = .slider s → PathShapeOk s.path.controlPoints

end Statements

section Transfer
variable {F P : Type} [Scalar F] [Scalar P] [Cvt P F] [Trig F] [Trig P]

omit [Scalar F] [Scalar P] [Cvt P F] [Trig F] [Trig P] in
theorem pointwise_mem_left {α β : Type} {R : α → β → Prop} {as : List α} {bs : List β} (h : C15.Pointwise R as bs) :
    ∀ a ∈ as, ∃ b ∈ bs, R a b := by
  induction h with
  | nil => intro a ha; cases ha
  | cons hab _ ih =>
    intro a ha
    rcases List.mem_cons.mp ha with rfl | ha
    · exact ⟨_, List.mem_cons_self, hab⟩
    · obtain ⟨b, hb, hr⟩ := ih a ha
      exact ⟨b, List.mem_cons_of_mem _ hb, hr⟩

/-- every parsed slider reaches the finished map with its `SliderPath` data (the converse of
`DecodedSliders.decoded_slider_origin`). -/
theorem finished_keeps_paths (st : BeatmapState F P) (m : Beatmap F P) (hf : st.finish = .ok m) :
    ∀ h0 ∈ st.hitObjects.core.hitObjects, ∀ s0, h0.kind = .slider s0 →
      ∃ h ∈ m.hitObjects, ∃ s, h.kind = .slider s ∧ s.path = s0.path := by
  intro h0 hh0 s0 hk0
  unfold BeatmapState.finish at hf
  cases hho : st.hitObjects.finish with
  | error e => simp [hho, bind, Except.bind] at hf
  | ok ho =>
    simp only [hho, bind, Except.bind, pure, Except.pure] at hf
    injection hf with hf
    subst hf
    obtain ⟨hp, hpw⟩ := C15.finalize_perm st.hitObjects ho hho
    obtain ⟨b, hb, _, hsim, _⟩ := pointwise_mem_left hpw h0 (hp.mem_iff.mpr hh0)
    refine ⟨b, hb, ?_⟩
    rw [hk0] at hsim
    cases hbk : b.kind with
    | slider s =>
      rw [hbk] at hsim
      simp only [C15.KindSim] at hsim
      exact ⟨s, rfl, by rw [hsim.1]⟩
    | circle c => rw [hbk] at hsim; exact hsim.elim
    | spinner c => rw [hbk] at hsim; exact hsim.elim
    | hold c => rw [hbk] at hsim; exact hsim.elim

end Transfer

/-! ### the toy codec: the laws hold, the theorems apply, the exception is needed -/

theorem alpha_toNat (c : Char) (h : (('a' ≤ c && c ≤ 'z') || ('A' ≤ c && c ≤ 'Z')) = true) :
    (97 ≤ c.toNat ∧ c.toNat ≤ 122) ∨ (65 ≤ c.toNat ∧ c.toNat ≤ 90) := by
  simp only [Bool.or_eq_true, Bool.and_eq_true, decide_eq_true_eq] at h
  simp only [Char.le_def, UInt32.le_iff_toNat_le] at h
  exact h

/-- the integer reader rejects a text that starts with an ASCII letter, blanks trimmed or not. -/
theorem i32FromStr_letter (s : Str) (hs : isLetterPiece s = true) : i32FromStr (trim s) = none := by
  cases s with
  | nil => simp [isLetterPiece, firstIsAsciiAlpha] at hs
  | cons c cs =>
    have ha : (('a' ≤ c && c ≤ 'z') || ('A' ≤ c && c ≤ 'Z')) = true := by
      simp only [isLetterPiece, firstIsAsciiAlpha] at hs
      split at hs
      · rename_i h; simpa using h
      · cases hs
    have hn := alpha_toNat c ha
    have hws : isWs c = false := by
      simp only [isWs, Bool.or_eq_false_iff, Bool.and_eq_false_iff, decide_eq_false_iff_not, beq_eq_false_iff_ne]
      omega
    have ht : trim (c :: cs) = c :: trimEnd cs := by
      unfold trim
      rw [trimStart_of_head hws, trimEnd_cons_of_not_ws cs hws]
    have h1 : (c == '-') = false := by
      simp only [beq_eq_false_iff_ne]; apply toNat_ne; have : '-'.toNat = 45 := rfl; omega
    have h2 : (c == '+') = false := by
      simp only [beq_eq_false_iff_ne]; apply toNat_ne; have : '+'.toNat = 43 := rfl; omega
    have h3 : digitVal c = none := by
      unfold digitVal
      have h0 : '0'.toNat = 48 := rfl
      have h9 : '9'.toNat = 57 := rfl
      rw [h0, h9, if_neg (by omega)]
    rw [ht]
    simp only [i32FromStr, h1, h2, Bool.false_eq_true, if_false, parseDigits, digitsAcc, h3]

theorem ZC.posEq_iff (p q : Pos ZC) : Pos.eq p q = true ↔ p = q := by
  obtain ⟨⟨a⟩, ⟨b⟩⟩ := p
  obtain ⟨⟨c⟩, ⟨d⟩⟩ := q
  show (decide (a = c) && decide (b = d)) = true ↔ _
  simp

/-- **the path laws hold of the toy codec.** -/
theorem ZC.pathLaws : PathLaws ZC ZC where
  eq := fun start _ _ =>
    { sound := fun p q _ _ h => (ZC.posEq_iff p q).mp h
      refl := fun p _ => (ZC.posEq_iff p p).mpr rfl
      dupLinear := fun p c _ _ => by
        unfold isLinear
        show decide ((((p.y.v - p.y.v) * (c.x.v - p.x.v) - (p.x.v - p.x.v) * (c.y.v - p.y.v)).natAbs : Int) < 1) = true
        simp }
  letter := fun s hs => by
    have hp : (Scalar.parse (trim s) : Option ZC) = none := by
      show (i32FromStr (trim s)).map ZC.mk = none
      rw [i32FromStr_letter s hs]; rfl
    unfold number
    rw [hp]

set_option maxRecDepth 100000

/-- finding F17, index-0 variant: a Catmull path that begins with the same position three times. -/
def f17CatmullLine : Str := str "0,0,100,2,0,C|0:0|0:0|3:3,1,10"
/-- finding F17: two explicit segments of the same type, the second one starting on the first one's last point. -/
def f17TypedLine : Str := str "0,0,100,2,0,B|1:1|B|1:1|3:3,1,10"
/-- consecutive Catmull segments. -/
def catmullRunLine : Str := str "0,0,100,2,0,C|1:1|C|2:2|3:3,1,10"

/-- the control points of the sliders a line pushes from the initial state. -/
def pushedPaths (l : Str) : List (List (PathControlPoint ZC)) :=
  (parseHitObjectLine GameMode.osu ({} : HOCore ZC ZC) l).1.hitObjects.filterMap fun o =>
    match o.kind with
    | .slider s => some s.path.controlPoints
    | _ => none

theorem f17_paths :
    pushedPaths f17CatmullLine = [[zc 0 0 (some PathType.catmull), zc 0 0, zc 3 3]] ∧
    pushedPaths f17TypedLine = [[zc 0 0 (some PathType.bezier), zc 1 1, zc 1 1 (some PathType.bezier), zc 3 3]] ∧
    pushedPaths catmullRunLine = [[zc 0 0 (some PathType.catmull), zc 1 1, zc 2 2 (some PathType.catmull), zc 3 3]] := by
  refine ⟨?_, ?_, ?_⟩ <;> with_unfolding_all rfl

theorem f17_needed : ∀ l ∈ [f17CatmullLine, f17TypedLine, catmullRunLine],
    (parseHitObjectLine GameMode.osu ({} : HOCore ZC ZC) l).2 = true ∧
    ∃ o s, (parseHitObjectLine GameMode.osu ({} : HOCore ZC ZC) l).1.hitObjects = [] ++ [o] ∧ o.kind = .slider s ∧
      ¬ PathShapeOk s.path.controlPoints ∧ ¬ F17Free s.path.controlPoints := by
  have key : ∀ l ∈ [f17CatmullLine, f17TypedLine, catmullRunLine],
      (parseHitObjectLine GameMode.osu ({} : HOCore ZC ZC) l).2 = true ∧
      (match (parseHitObjectLine GameMode.osu ({} : HOCore ZC ZC) l).1.hitObjects with
       | [o] => (match o.kind with
          | .slider s => decide (¬ PathShapeOk s.path.controlPoints) && decide (¬ F17Free s.path.controlPoints)
          | _ => false)
       | _ => false) = true := by
    decide +kernel
  intro l hl
  obtain ⟨h1, h2⟩ := key l hl
  refine ⟨h1, ?_⟩
  split at h2
  · rename_i o ho
    split at h2
    · rename_i s hs
      simp only [Bool.and_eq_true, decide_eq_true_eq] at h2
      exact ⟨o, s, by rw [ho]; rfl, hs, h2.1, h2.2⟩
    · cases h2
  · cases h2


/-- the hypotheses of `decoded_path_shape` are satisfiable: a three-segment path with a carried repeat. -/
def goodPathLine : Str := str "10,20,100,2,0,B|11:21|12:22|12:22|L|13:23|P|14:24|19:20,1,10"

example : (parseHitObjectLine GameMode.osu ({} : HOCore ZC ZC) goodPathLine).2 = true ∧
    (pushedPaths goodPathLine).all (fun cps => decide (F17Free cps) && decide (PathShapeOk cps) && decide (3 < cps.length)) = true := by
  decide +kernel

example (o : HitObject ZC ZC) (s : HitObjectSlider ZC ZC)
    (hpush : (parseHitObjectLine GameMode.osu ({} : HOCore ZC ZC) goodPathLine).1.hitObjects = [] ++ [o])
    (hk : o.kind = .slider s) : PathShapeOk s.path.controlPoints ↔ F17Free s.path.controlPoints :=
  decoded_path_shape ZC.pathLaws GameMode.osu {} goodPathLine rfl o hpush s hk

/-- the empty-buffer hypothesis of `decoded_path_shape` is needed: from a state with a left-over control point (not
reachable by the decoder) the stored list begins with it. -/
example : ((parseHitObjectLine GameMode.osu ({ curvePoints := [zc 7 7] } : HOCore ZC ZC) goodPathLine).1.hitObjects.all fun o =>
    match o.kind with
    | .slider s => decide (F17Free s.path.controlPoints) && decide (¬ PathShapeOk s.path.controlPoints)
    | _ => false) = true := by
  decide +kernel

/-! a decoded file -/

def f17Lines : List Str := [str "osu file format v14", str "", str "[HitObjects]", f17CatmullLine]
def f17State : BeatmapState ZC ZC := frame beatmapDecoder f17Lines

theorem f17_decodes :
    decodeBytes (beatmapDecoder : LineDecoder (BeatmapState ZC ZC)) (utf8Encode (unlines f17Lines)) = .ok f17State := by
  rw [RtFile.decodeBytes_utf8_text _ _ (by decide), lines_of_unlines _ (by decide)]
  rfl

theorem f17State_slider : ∃ h ∈ f17State.hitObjects.core.hitObjects, ∃ s, h.kind = .slider s ∧
    ¬ PathShapeOk s.path.controlPoints := by
  have key : f17State.hitObjects.core.hitObjects.any (fun o =>
      match o.kind with
      | .slider s => decide (¬ PathShapeOk s.path.controlPoints)
      | _ => false) = true := by
    decide +kernel
  obtain ⟨h, hh, hb⟩ := List.any_eq_true.mp key
  split at hb
  · rename_i s hs
    exact ⟨h, hh, s, hs, of_decide_eq_true hb⟩
  · cases hb

/-- **f17_file_needed** — the statement without the exception is FALSE of the model: the file `[HitObjects]` +
`0,0,100,2,0,C|0:0|0:0|3:3,1,10` decodes to a state whose slider violates `PathShapeOk` (finding F17). -/
theorem f17_file_needed : ¬ decoded_state_path_shape_statement ZC ZC := by
  intro hst
  obtain ⟨h, hh, s, hk, hn⟩ := f17State_slider
  exact hn (hst _ _ f17_decodes h hh s hk)

/-- … and whenever the finaliser succeeds on it, the finished map has that slider (the finaliser — `Curve::new` — does
not reduce in the kernel, so success is a hypothesis here). -/
theorem f17_map_needed (m : Beatmap ZC ZC) (hf : f17State.finish = .ok m) :
    ∃ h ∈ m.hitObjects, ∃ s, h.kind = .slider s ∧ ¬ PathShapeOk s.path.controlPoints := by
  obtain ⟨h0, hh0, s0, hk0, hn⟩ := f17State_slider
  obtain ⟨h, hh, s, hk, hp⟩ := finished_keeps_paths f17State m hf h0 hh0 s0 hk0
  exact ⟨h, hh, s, hk, by rw [hp]; exact hn⟩

theorem f17_statement_false (hfin : ∃ m, f17State.finish = .ok m) : ¬ decoded_path_shape_statement ZC ZC := by
  intro hst
  obtain ⟨m, hf⟩ := hfin
  obtain ⟨h, hh, s, hk, hn⟩ := f17_map_needed m hf
  exact hn (hst _ _ m f17_decodes hf h hh s hk)

/-- all law bundles of the decoded-object theorems hold of the toy codec. -/
theorem decoded_path_hypotheses_satisfiable :
    CodecLaws ZC ZC.Rep ∧ SliderRt.CoordLaws ZC ZC ZC.Rep ∧ ObjLaws ZC ZC ZC.Rep ZC.Rep ∧ DurLaws ZC ZC.Rep ∧
      CtrlLaws ZC ZC ZC.Rep ∧ PathLaws ZC ZC :=
  ⟨ZC.laws, SliderRt.ZC.coordLaws, ZC.objLaws, ZC.durLaws, ZC.ctrlLaws, ZC.pathLaws⟩

end Rosu.C04
