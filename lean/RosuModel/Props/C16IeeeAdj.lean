/-
  Props/C16IeeeAdj.lean — C16 for the driver's arithmetic (`F = Float`, `P = Float32`): the cumulative lengths that
  `calculate_length` **returns** (after the cut / the extension / the equal-tail push), and `Curve::new`.

  Props/C16.lean has the structure of `calculate_length` for every `Scalar` (`calculateLength_some`: five outcomes);
  Props/C16Exact.lean proves that the returned lengths never decrease only in exact arithmetic (`ExactArith`);
  Props/C16IeeeLen.lean proves it for IEEE doubles for the *natural* lengths `natLens`. Here the returned lengths:

  * structural (every `Scalar`): `mono_get`/`mono_take`/`mono_dropLast`/`mono_snoc` (the `Mono` calculus without Mathlib),
    `cut_last_lt` (the cut keeps an entry `< L` last: the reverse scan of `lastValid` tests `*l < expected`, strictly),
    **`calculateLength_dist`** (the distance of the result as a function of the outcome),
    `calculatePath_optLen_zero` (`optimized_len` stays `0.0` unless mode = osu! and a control point starts a Catmull
    segment);
  * for every `IeeeOrd` scalar (the order theory of Lemmas/FloatModelCompare.lean): `mono_le_dist`, and
    **`calculateLength_good_of_natural`**: if the natural lengths never decrease and are `≥ 0`, so are the returned ones,
    in all five outcomes and for **every** requested length (NaN, `±∞`, negative included);
  * for `Float`/`Float32`: **`calculateLength_lengths_monotone_float`** (Mono, head `0.0`, all entries `≥ 0`, numbers,
    `≤ dist`), **`calculateLength_dist_float`** (the C16 headline: `dist = L` bit for bit unless single point / near /
    equal tail), `near_spec_float`, `near_false_of_infinite`, **`calculateLength_finite_float`** (a finite request gives
    finite lengths even when the natural ones overflow to `+∞`), `natural_finite_iff_float`,
    **`new_lengths_monotone_float`** (`Curve::new`, no osu!-mode Catmull segment), `new_lengths_monotone_float_surplus`
    (any surplus `≥ 0`), with non-vacuity `example`s evaluated by the kernel (`decide +kernel`), and the witnesses
    `surplus_negative_float` (the osu! Catmull surplus is negative on a 3-point sub-path) and
    `surplus_negative_decreases` (then the lengths decrease): the hypothesis `0 ≤ optimized_len` cannot be dropped.
    Props/C16IeeeAdjWitness.lean kernel-checks a complete `Curve::new` run with decreasing lengths.
  Not done: an explicit coordinate bound (e.g. `|x|, |y| ≤ 2^20`, at most `2^20` points) that excludes `+∞` among the
  *natural* lengths (no requested length); it needs monotonicity of the whole `f32` distance pipeline (`-`, `*`, `+`,
  `sqrt`, both conversions), of which `sqrt` and the conversions are not available as order lemmas yet.

  Result of the comparison analysis: in no outcome can the list decrease in IEEE arithmetic (finite coordinates,
  `0 ≤ optimized_len`): the cut index is one past the last entry `x` with `x < L` (IEEE `<`, false on NaN), so the
  last kept entry satisfies `x ≤ L`; the equal-tail push repeats `calculated_len`, which is a number, so `≤` holds by
  reflexivity; `[0.0]` and the natural lists are covered by C16IeeeLen.
-/
import RosuModel.Props.C16IeeeLen
import RosuModel.Lemmas.FloatModelCompare
import RosuModel.Lemmas.FloatExactOps
import RosuModel.Lemmas.BezierEnds
namespace Rosu.C16
open Rosu Rosu.Curve

/-! ### the `Mono` calculus (structural, core Lean only) -/

section Structural
variable {P F : Type} [Scalar P] [Scalar F] [Cvt P F]

/-- `Mono` by indices. -/
theorem mono_get (l : List F) :
    Mono l ↔ ∀ i a b, l[i]? = some a → l[i + 1]? = some b → Scalar.le a b = true := by
  induction l with
  | nil => simp [Mono]
  | cons x t ih =>
    cases t with
    | nil => simp [Mono]
    | cons y t' =>
      simp only [Mono]
      rw [ih]
      constructor
      · rintro ⟨h0, hr⟩ i a b ha hb
        cases i with
        | zero =>
          simp only [List.getElem?_cons_zero, List.getElem?_cons_succ, Option.some.injEq] at ha hb
          subst ha hb; exact h0
        | succ i => exact hr i a b (by simpa using ha) (by simpa using hb)
      · intro h
        exact ⟨h 0 x y rfl rfl, fun i a b ha hb => h (i + 1) a b (by simpa using ha) (by simpa using hb)⟩

theorem mono_take {l : List F} (h : Mono l) (k : Nat) : Mono (l.take k) := by
  rw [mono_get] at h ⊢
  intro i a b ha hb
  rw [List.getElem?_take] at ha hb
  split at ha
  · split at hb
    · exact h i a b ha hb
    · cases hb
  · cases ha

theorem mono_dropLast {l : List F} (h : Mono l) : Mono l.dropLast := by
  rw [List.dropLast_eq_take]; exact mono_take h _

theorem mono_snoc {l : List F} (h : Mono l) (x : F)
    (hx : ∀ a, l.getLast? = some a → Scalar.le a x = true) : Mono (l ++ [x]) := by
  rw [mono_get] at h ⊢
  intro i a b ha hb
  rcases Nat.lt_or_ge (i + 1) l.length with hlt | hge
  · rw [List.getElem?_append_left (by omega)] at ha
    rw [List.getElem?_append_left hlt] at hb
    exact h i a b ha hb
  · have hb' : (l ++ [x])[i + 1]? = some b := hb
    rcases Nat.lt_or_ge l.length (i + 1) with hgt | hle
    · rw [List.getElem?_eq_none (by simp; omega)] at hb'; cases hb'
    · have hil : i + 1 = l.length := by omega
      rw [List.getElem?_append_left (by omega)] at ha
      rw [List.getElem?_append_right (by omega), hil] at hb'
      simp only [Nat.sub_self, List.getElem?_cons_zero, Option.some.injEq] at hb'
      subst hb'
      apply hx a
      rw [List.getLast?_eq_getElem?, ← ha]
      congr 1; omega

theorem mem_of_dropLast {α : Type} {l : List α} {a : α} (h : a ∈ l.dropLast) : a ∈ l := by
  rw [List.dropLast_eq_take] at h; exact List.mem_of_mem_take h

theorem mono_tail {x : F} {l : List F} (h : Mono (x :: l)) : Mono l := by
  cases l with
  | nil => trivial
  | cons y t => exact h.2

/-- the natural lengths of a path with at least two points end with `calculated_len`. -/
theorem natLens_getLast (opt : F) (path : List (Pos P)) (h : 2 ≤ path.length) :
    (natLens opt path).getLast? = some (natTotal opt path) := by
  have hne : (cumLens opt path).1 ≠ [] := by
    intro h0
    have := cumLens_length opt path
    rw [h0] at this; simp at this; omega
  unfold natLens natTotal
  rw [List.getLast?_cons_of_ne_nil hne, cumLens_getLast opt path h]

theorem natTotal_mem (opt : F) (path : List (Pos P)) (h : 2 ≤ path.length) :
    natTotal opt path ∈ natLens opt path :=
  List.mem_of_getLast? (natLens_getLast opt path h)

theorem two_le_of_equalTail (opt : F) (path : List (Pos P)) (L : F) (h : equalTail opt path L = true) :
    2 ≤ path.length := by
  unfold equalTail at h
  match path with
  | [] => simp [lastTwoEqual] at h
  | [_] => simp [lastTwoEqual] at h
  | _ :: _ :: _ => simp

/-- **the cut keeps an entry strictly below `L` last**: `lastValid` scans from the back for `*l < expected`
(IEEE `<`), so the last of the `cutIdx` kept natural lengths is `< L`. -/
theorem cut_last_lt (opt : F) (path : List (Pos P)) (L : F) (hk : cutIdx opt path L ≠ 0) :
    ∃ x, ((natLens opt path).dropLast.take (cutIdx opt path L)).getLast? = some x ∧
      x ∈ natLens opt path ∧ Scalar.lt x L = true := by
  obtain ⟨⟨x, hx, hlt⟩, _⟩ := lastValid_spec (natLens opt path).dropLast L (by
    show 0 < cutIdx opt path L; omega)
  have hle := lastValid_le (natLens opt path).dropLast L
  have hcut : lastValid (natLens opt path).dropLast L = cutIdx opt path L := rfl
  rw [hcut] at hx hle
  refine ⟨x, ?_, ?_, hlt⟩
  · rw [List.getLast?_eq_getElem?, List.length_take, Nat.min_eq_left hle,
      List.getElem?_take_of_lt (by omega), hx]
  · exact mem_of_dropLast (List.mem_of_getElem? hx)

/-- **the distance `calculate_length` leaves, outcome by outcome** (every arithmetic): `0.0` for at most one path
point and for the collapsed curve, `calculated_len` for the near and the equal-tail outcomes, the requested length
itself — the very value, bit for bit — otherwise. -/
theorem calculateLength_dist (path : List (Pos P)) (L opt : F) (p' : List (Pos P)) (ls : List F)
    (h : calculateLength path (some L) opt = .ok (p', ls)) :
    dist ls =
      if path.length ≤ 1 then (0 : F)
      else if near opt path L || equalTail opt path L then natTotal opt path
      else if cutIdx opt path L = 0 then (0 : F) else L := by
  by_cases h1 : path.length ≤ 1
  · rw [single_point_keeps path L opt h1] at h
    cases h
    simp [dist, h1]
  rw [if_neg h1]
  have h2 : 2 ≤ path.length := by omega
  rw [calculateLength_some] at h
  by_cases hn : near opt path L = true
  · rw [if_pos hn] at h; cases h
    simp [hn, natural_dist path opt h2]
  rw [if_neg hn] at h
  by_cases he : equalTail opt path L = true
  · rw [if_pos he] at h; cases h
    simp [he, dist]
  rw [if_neg he, if_neg h1] at h
  have hne : (near opt path L || equalTail opt path L) = false := by
    simp only [Bool.not_eq_true] at hn he; simp [hn, he]
  rw [hne]
  by_cases hk : cutIdx opt path L = 0
  · rw [if_pos hk] at h; cases h; simp [dist, hk]
  · rw [if_neg hk] at h; cases h; simp [dist, hk]

end Structural

/-! ### the order theory of an IEEE scalar is enough -/

section Ieee
variable {P F : Type} [Scalar P] [Scalar F] [Cvt P F] [FMO.IeeeOrd F]

/-- in a never-decreasing list of numbers every entry is `≤` the last one (`dist`). -/
theorem mono_le_dist (l : List F) (hm : Mono l) (hn : ∀ v ∈ l, Scalar.isNaN v = false) :
    ∀ v ∈ l, Scalar.le v (dist l) = true := by
  induction l with
  | nil => intro v hv; cases hv
  | cons x t ih =>
    cases t with
    | nil =>
      intro v hv
      simp only [List.mem_singleton] at hv; subst hv
      exact FMO.le_refl v (hn v (by simp))
    | cons y t' =>
      have hd : dist (x :: y :: t') = dist (y :: t') := by
        unfold dist; rw [List.getLast?_cons_cons]
      intro v hv
      rw [hd]
      have ih' := ih hm.2 (fun v hv => hn v (List.mem_cons_of_mem _ hv))
      rcases List.mem_cons.mp hv with rfl | hv'
      · exact FMO.le_trans v y _ hm.1 (ih' y (by simp))
      · exact ih' v hv'

/-- a list of lengths as the property wants it: consecutive entries never decrease and every entry is `≥ 0`
(in particular a number). -/
def Good (l : List F) : Prop := Mono l ∧ ∀ v ∈ l, Scalar.le (0 : F) v = true

theorem Good.not_nan {l : List F} (h : Good l) : ∀ v ∈ l, Scalar.isNaN v = false :=
  fun v hv => (FMO.not_nan_of_le (h.2 v hv)).2

theorem Good.le_dist {l : List F} (h : Good l) : ∀ v ∈ l, Scalar.le v (dist l) = true :=
  mono_le_dist l h.1 h.not_nan

/-- **all five outcomes, every requested length**: if the natural lengths never decrease and are `≥ 0`
(and `0 ≤ 0`, i.e. `0` is a number of the arithmetic), so are the lengths `calculate_length` returns. No hypothesis on
`L`: a NaN is "near" (`|c − NaN| ≥ ε` is false), and when nothing is `< L` the curve collapses to `[0.0]`. -/
theorem calculateLength_good_of_natural (path : List (Pos P)) (e : Option F) (opt : F)
    (hnat : Good (natLens opt path)) (p' : List (Pos P)) (ls : List F)
    (h : calculateLength path e opt = .ok (p', ls)) : Good ls := by
  have h00 : Scalar.le (0 : F) (0 : F) = true := hnat.2 0 (by simp [natLens])
  cases e with
  | none => cases h; exact hnat
  | some L =>
    rw [calculateLength_some] at h
    split at h
    · cases h; exact hnat
    split at h
    · -- equal tail: `calculated_len` pushed once more
      rename_i _ heq
      cases h
      have h2 := two_le_of_equalTail opt path L heq
      have hmem := natTotal_mem opt path h2
      constructor
      · apply mono_snoc hnat.1
        intro a ha
        rw [natLens_getLast opt path h2] at ha
        cases ha
        exact FMO.le_refl _ (hnat.not_nan _ hmem)
      · intro v hv
        rcases List.mem_append.mp hv with hv | hv
        · exact hnat.2 v hv
        · simp only [List.mem_singleton] at hv; subst hv; exact hnat.2 _ hmem
    split at h
    · cases h; exact hnat
    split at h
    · cases h
      exact ⟨trivial, fun v hv => by simp only [List.mem_singleton] at hv; subst hv; exact h00⟩
    · -- cut or extension: the kept lengths, then `L`, which is above the last kept one
      rename_i _ _ _ hk
      cases h
      obtain ⟨x, hlast, hxmem, hlt⟩ := cut_last_lt opt path L hk
      have hxL : Scalar.le x L = true := FMO.le_of_lt x L hlt
      constructor
      · apply mono_snoc (mono_take (mono_dropLast hnat.1) _)
        intro a ha
        rw [hlast] at ha; cases ha
        exact hxL
      · intro v hv
        rcases List.mem_append.mp hv with hv | hv
        · exact hnat.2 v (mem_of_dropLast (List.mem_of_mem_take hv))
        · simp only [List.mem_singleton] at hv; subst hv
          exact FMO.le_trans 0 x v (hnat.2 x hxmem) hxL

end Ieee

/-! ### `optimized_len` is `0.0` unless an osu!-mode Catmull segment is simplified (structural) -/

section OptLen
variable {P F : Type} [Scalar P] [Scalar F] [Cvt P F] [Trig F] [Trig P]

/-- no Catmull simplification can run: the mode is not osu!, or no control point carries the Catmull path type
(the type of a segment is the path type of its first control point). -/
def NoOsuCatmull (mode : GameMode) (pts : List (PathControlPoint P)) : Prop :=
  mode ≠ .osu ∨ ∀ pt ∈ pts, ∀ t, pt.pathType = some t → t.kind ≠ .catmull

theorem calculateSubpath_optLen_eq (fuel : Nat) (mode : GameMode)
    (seg out : List (Pos P)) (kind : SplineType) (o o' : F) (bz bz' : BezierBuffers P)
    (hk : mode ≠ .osu ∨ kind ≠ .catmull)
    (h : calculateSubpath fuel mode seg kind o bz = .ok (out, o', bz')) : o' = o := by
  unfold calculateSubpath at h
  cases kind with
  | linear =>
    simp only [Outcome.pure_eq_ok, Except.ok.injEq, Prod.mk.injEq] at h
    obtain ⟨_, rfl, _⟩ := h; rfl
  | bspline =>
    simp only [] at h
    obtain ⟨r, _, h⟩ := Outcome.bind_eq_ok h
    simp only [Outcome.pure_eq_ok, Except.ok.injEq, Prod.mk.injEq] at h
    obtain ⟨_, rfl, _⟩ := h; rfl
  | catmull =>
    simp only [] at h
    obtain ⟨sub, _, h⟩ := Outcome.bind_eq_ok h
    split at h
    · simp only [Outcome.pure_eq_ok, Except.ok.injEq, Prod.mk.injEq] at h
      obtain ⟨_, rfl, _⟩ := h; rfl
    · rename_i hm
      rcases hk with hk | hk
      · exact absurd hk hm
      · exact absurd rfl hk
  | perfectCurve =>
    have hbez : ∀ {r : List (Pos P) × F × BezierBuffers P},
        (do let x ← approximateBezier fuel seg bz; pure (x.1, o, x.2) : Outcome _) = .ok r → r.2.1 = o := by
      intro r hr
      obtain ⟨x, _, hr⟩ := Outcome.bind_eq_ok hr
      simp only [Outcome.pure_eq_ok, Except.ok.injEq] at hr
      subst hr; rfl
    simp only [] at h
    split at h
    · obtain ⟨arc, _, h⟩ := Outcome.bind_eq_ok h
      cases arc with
      | some pts =>
        simp only [Outcome.pure_eq_ok, Except.ok.injEq, Prod.mk.injEq] at h
        obtain ⟨_, rfl, _⟩ := h; rfl
      | none => exact hbez h
    · simp only [Outcome.pure_eq_ok, Outcome.ok_bind] at h
      exact hbez h

theorem segBody_optLen_eq (fuel : Nat) (mode : GameMode)
    (points : List (PathControlPoint P)) (vertices : List (Pos P)) (st st' : SegState P F) (i : Nat)
    (hno : NoOsuCatmull mode points)
    (h : segBody fuel mode points vertices st i = .ok st') : st'.optLen = st.optLen := by
  unfold segBody at h
  obtain ⟨pt, _, h⟩ := Outcome.bind_eq_ok h
  split at h
  · simp only [Outcome.pure_eq_ok, Except.ok.injEq] at h
    subst h; rfl
  · obtain ⟨seg, _, h⟩ := Outcome.bind_eq_ok h
    match seg with
    | [] => cases h
    | [v] =>
      simp only [Outcome.pure_eq_ok, Except.ok.injEq] at h
      subst h; rfl
    | v :: w :: rest =>
      simp only [] at h
      obtain ⟨sp, hsp, h⟩ := Outcome.bind_eq_ok h
      obtain ⟨r, hsub, h⟩ := Outcome.bind_eq_ok h
      obtain ⟨out, o, bz⟩ := r
      simp only [] at h
      obtain ⟨path, _, h⟩ := Outcome.bind_eq_ok h
      simp only [Outcome.pure_eq_ok, Except.ok.injEq] at h
      subst h
      refine calculateSubpath_optLen_eq fuel mode _ _ _ _ _ _ _ ?_ hsub
      rcases hno with hm | hc
      · exact Or.inl hm
      · right
        have hmem : sp ∈ points := List.mem_of_getElem? ((getI_ok_iff _ _ _).mp hsp)
        cases hpt : sp.pathType with
        | none => simp
        | some t => simpa using hc sp hmem t hpt

theorem segFold_optLen_eq (fuel : Nat) (mode : GameMode)
    (points : List (PathControlPoint P)) (vertices : List (Pos P)) (hno : NoOsuCatmull mode points) :
    ∀ (idx : List Nat) (st st' : SegState P F),
      idx.foldlM (segBody fuel mode points vertices) st = .ok st' → st'.optLen = st.optLen := by
  intro idx
  induction idx with
  | nil =>
    intro st st' h
    simp only [List.foldlM_nil, Outcome.pure_eq_ok, Except.ok.injEq] at h
    subst h; rfl
  | cons i idx ih =>
    intro st st' h
    rw [List.foldlM_cons] at h
    obtain ⟨st1, h1, h⟩ := Outcome.bind_eq_ok h
    rw [ih st1 st' h, segBody_optLen_eq fuel mode points vertices st st1 i hno h1]

/-- **`calculate_path` hands `calculate_length` the surplus `optimized_len = 0.0`** (every arithmetic) unless the mode
is osu! and some control point starts a Catmull segment. -/
theorem calculatePath_optLen_zero (fuel : Nat) (mode : GameMode)
    (points : List (PathControlPoint P)) (bufs b1 : CurveBuffers P F) (opt : F)
    (hno : NoOsuCatmull mode points)
    (h : calculatePath fuel mode points bufs = .ok (b1, opt)) : opt = 0 := by
  unfold calculatePath at h
  split at h
  · simp only [Outcome.pure_eq_ok, Except.ok.injEq, Prod.mk.injEq] at h
    exact h.2.symm
  · simp only [] at h
    obtain ⟨st, hfold, h⟩ := Outcome.bind_eq_ok h
    simp only [Outcome.pure_eq_ok, Except.ok.injEq, Prod.mk.injEq] at h
    obtain ⟨_, rfl⟩ := h
    exact segFold_optLen_eq fuel mode points _ hno _ _ _ hfold

end OptLen

/-! ### `Float` lengths from `Float32` points -/

section FloatSec

theorem zero_le_zero_float : Scalar.le (0 : Float) (0 : Float) = true := by decide +kernel
theorem zero_finite_float : (0 : Float).toModel.unpack.isFinite = true := by decide +kernel

/-- finite coordinates and a surplus `≥ 0`: the natural lengths never decrease and are `≥ 0` (C16IeeeLen). -/
theorem natLens_good_float (opt : Float) (path : List (Pos Float32)) (hopt : Scalar.le (0 : Float) opt = true)
    (hfin : ∀ p ∈ path, FinitePos p) : Good (natLens opt path) := by
  refine ⟨natLens_monotone_float_finite opt path hopt hfin, ?_⟩
  intro v hv
  unfold natLens at hv
  rcases List.mem_cons.mp hv with rfl | hv
  · exact zero_le_zero_float
  · exact (lengths_monotone_float_finite opt path hopt hfin).2.1 v (List.mem_cons_of_mem _ hv)

/-- `calculated_len ≥ 0`. -/
theorem natTotal_nonneg_float (opt : Float) (path : List (Pos Float32)) (hopt : Scalar.le (0 : Float) opt = true)
    (hfin : ∀ p ∈ path, FinitePos p) : Scalar.le (0 : Float) (natTotal opt path) = true := by
  by_cases h2 : 2 ≤ path.length
  · exact (natLens_good_float opt path hopt hfin).2 _ (natTotal_mem opt path h2)
  · match path, h2 with
    | [], _ => exact hopt
    | [_], _ => exact hopt
    | _ :: _ :: _, h2 => exact absurd (by simp) h2

/-- **`calculateLength_lengths_monotone` for the driver's arithmetic**: for a path with finite `f32` coordinates, a
surplus `0 ≤ optimized_len`, and **any** requested length (none, a number of either sign, `±∞`, NaN), the cumulative
lengths `calculate_length` returns never decrease (IEEE `<=`, exactly — no `1e-5` tolerance is needed), start with
`0.0`, are all `≥ 0` — in particular numbers — and are all `≤ dist`. -/
theorem calculateLength_lengths_monotone_float (path : List (Pos Float32)) (e : Option Float) (opt : Float)
    (hopt : Scalar.le (0 : Float) opt = true) (hfin : ∀ p ∈ path, FinitePos p)
    (p' : List (Pos Float32)) (ls : List Float) (h : calculateLength path e opt = .ok (p', ls)) :
    Mono ls ∧ ls.head? = some (0 : Float) ∧ (∀ v ∈ ls, Scalar.le (0 : Float) v = true) ∧
      (∀ v ∈ ls, Float.isNaN v = false) ∧ (∀ v ∈ ls, Scalar.le v (dist ls) = true) := by
  have hg := calculateLength_good_of_natural path e opt (natLens_good_float opt path hopt hfin) p' ls h
  exact ⟨hg.1, lengths_head_zero path e opt p' ls h, hg.2, hg.not_nan, hg.le_dist⟩

/-! #### the distance -/

/-- a value `≥ 0` is finite or `+∞`. -/
theorem nonneg_finite_or_inf (x : Float) (h : Scalar.le (0 : Float) x = true) :
    x.toModel.unpack.isFinite = true ∨ x.toModel.unpack = .infinity .positive := by
  have hn : FB.NN x.toModel.unpack := (FB.le_zero_float x).mp h
  rcases hx : x.toModel.unpack with s | _ | s | ⟨s, m, e, hm⟩
  · rw [hx] at hn
    cases s
    · exact absurd hn (by decide)
    · exact Or.inr rfl
  · rw [hx] at hn; exact absurd hn (by decide)
  · exact Or.inl rfl
  · exact Or.inl rfl

/-- between `0` and a finite value everything is finite. -/
theorem finite_of_le_finite (x hi : Float) (h0 : Scalar.le (0 : Float) x = true) (h1 : Scalar.le x hi = true)
    (hhi : hi.toModel.unpack.isFinite = true) : x.toModel.unpack.isFinite = true :=
  FMO.finite_of_bounds_float 0 hi x zero_finite_float hhi (FMO.not_nan_of_le h0).2
    (FMO.not_lt_of_le 0 x h0) (FMO.not_lt_of_le x hi h1)

/-- `+∞` is never "near" a finite requested length: `|∞ − L| = ∞ ≥ ε`. -/
theorem near_false_of_infinite (opt : Float) (path : List (Pos Float32)) (L : Float)
    (hinf : (natTotal opt path).toModel.unpack = .infinity .positive)
    (hL : L.toModel.unpack.isFinite = true) : near opt path L = false := by
  have hs : Float.Model.UnpackedFloat.sub Float.Model.Format.binary64 (.infinity .positive) L.toModel.unpack =
      .infinity .positive := by
    rcases hl : L.toModel.unpack with s | _ | s | ⟨s, m, e, hm⟩
    · rw [hl] at hL; cases hL
    · rw [hl] at hL; cases hL
    · cases s <;> rfl
    · cases s <;> rfl
  have hsub : (natTotal opt path - L).toModel.unpack = .infinity .positive := by
    show FMR.repack Float.Model.Format.binary64
      (Float.Model.UnpackedFloat.sub Float.Model.Format.binary64 (natTotal opt path).toModel.unpack
        L.toModel.unpack) = _
    rw [hinf, hs]
    exact FM.unpack_pack_infinity _
  have habs : (Scalar.abs (natTotal opt path - L) : Float).toModel.unpack = .infinity .positive := by
    show FMR.repack Float.Model.Format.binary64 (natTotal opt path - L).toModel.unpack.abs = _
    rw [hsub]
    exact FM.unpack_pack_infinity _
  unfold near Scalar.ge
  rw [FMO.le_float, habs]
  decide +kernel

/-- what "near" means for a finite requested length: the natural length is finite and `|calculated_len − L| < ε`
(`f64::EPSILON`, IEEE `<`). (For `L = +∞ = calculated_len` the difference is a NaN and the request is "near" too.) -/
theorem near_spec_float (opt : Float) (path : List (Pos Float32)) (L : Float)
    (hT : Scalar.le (0 : Float) (natTotal opt path) = true) (hL : L.toModel.unpack.isFinite = true)
    (hn : near opt path L = true) :
    (natTotal opt path).toModel.unpack.isFinite = true ∧
      Scalar.lt (Scalar.abs (natTotal opt path - L)) (Scalar.eps : Float) = true := by
  have hf : (natTotal opt path).toModel.unpack.isFinite = true := by
    rcases nonneg_finite_or_inf _ hT with hf | hinf
    · exact hf
    · rw [near_false_of_infinite opt path L hinf hL] at hn; cases hn
  refine ⟨hf, ?_⟩
  have hd : Scalar.isNaN (natTotal opt path - L) = false := by
    show (FMR.repack Float.Model.Format.binary64
      (Float.Model.UnpackedFloat.sub Float.Model.Format.binary64 (natTotal opt path).toModel.unpack
        L.toModel.unpack)).isNaN = false
    rw [FB.repack_isNaN]
    exact FB.sub_finite_not_nan _ _ _ hf hL
  have ha : Scalar.isNaN (Scalar.abs (natTotal opt path - L)) = false := by
    rw [FMO.isNaN_abs_float]; exact hd
  apply FMO.lt_of_not_le _ _ ha (by decide +kernel)
  unfold near Scalar.ge at hn
  simpa using hn

/-- **`calculateLength_dist_float`, the C16 headline for IEEE doubles**: finite `f32` coordinates, a surplus
`0 ≤ optimized_len`, a requested length `0 < L` (hence a number; `+∞` allowed). The distance of the result is the
requested length **bit for bit**, unless the path has at most one point (`0.0`), or `L` is within `f64::EPSILON` of the
natural length `calculated_len` (then the natural length is kept: `|dist − L| < ε` for a finite `L`), or the path ends
in two equal points while being shorter than `L` (then the natural length is kept, `dist < L`); every entry is a number
with `0 ≤ entry ≤ dist`. If `L` is finite every entry is finite: `calculateLength_finite_float`. -/
theorem calculateLength_dist_float (path : List (Pos Float32)) (L opt : Float)
    (hopt : Scalar.le (0 : Float) opt = true) (hfin : ∀ p ∈ path, FinitePos p)
    (hL : Scalar.lt (0 : Float) L = true)
    (p' : List (Pos Float32)) (ls : List Float) (h : calculateLength path (some L) opt = .ok (p', ls)) :
    (dist ls = if path.length ≤ 1 then (0 : Float)
              else if near opt path L || equalTail opt path L then natTotal opt path else L) ∧
    (near opt path L = true → L.toModel.unpack.isFinite = true →
      (natTotal opt path).toModel.unpack.isFinite = true ∧
        Scalar.lt (Scalar.abs (natTotal opt path - L)) (Scalar.eps : Float) = true) ∧
    (equalTail opt path L = true → Scalar.lt (natTotal opt path) L = true) ∧
    (∀ v ∈ ls, Float.isNaN v = false ∧ Scalar.le (0 : Float) v = true ∧ Scalar.le v (dist ls) = true) := by
  obtain ⟨_, _, hnn, hnan, hle⟩ := calculateLength_lengths_monotone_float path (some L) opt hopt hfin p' ls h
  refine ⟨?_, ?_, ?_, fun v hv => ⟨hnan v hv, hnn v hv, hle v hv⟩⟩
  · rw [calculateLength_dist path L opt p' ls h]
    by_cases h1 : path.length ≤ 1
    · simp [h1]
    · have hk := cutIdx_pos_of_pos path L opt (by omega) hL
      simp [h1, hk]
  · intro hn hLf
    exact near_spec_float opt path L (natTotal_nonneg_float opt path hopt hfin) hLf hn
  · intro he
    unfold equalTail at he
    simp only [Bool.and_eq_true] at he
    exact he.2

/-- **the returned lengths stay finite whenever a finite length is requested** (any sign): finite `f32` coordinates may
overflow the natural lengths to `+∞` (`x*x` overflows in `f32` for `|x| > 1.85e19`), but then `L` is neither near nor
above-with-equal-tail, and the cut keeps only entries `< L`. -/
theorem calculateLength_finite_float (path : List (Pos Float32)) (L opt : Float)
    (hopt : Scalar.le (0 : Float) opt = true) (hfin : ∀ p ∈ path, FinitePos p)
    (hL : L.toModel.unpack.isFinite = true)
    (p' : List (Pos Float32)) (ls : List Float) (h : calculateLength path (some L) opt = .ok (p', ls)) :
    ∀ v ∈ ls, v.toModel.unpack.isFinite = true := by
  have hnat := natLens_good_float opt path hopt hfin
  obtain ⟨_, _, hnn, _, hle⟩ := calculateLength_lengths_monotone_float path (some L) opt hopt hfin p' ls h
  have hd : (dist ls).toModel.unpack.isFinite = true := by
    rw [calculateLength_dist path L opt p' ls h]
    by_cases h1 : path.length ≤ 1
    · rw [if_pos h1]; exact zero_finite_float
    rw [if_neg h1]
    have h2 : 2 ≤ path.length := by omega
    have hT : Scalar.le (0 : Float) (natTotal opt path) = true := hnat.2 _ (natTotal_mem opt path h2)
    by_cases hn : near opt path L = true
    · simp only [hn, Bool.true_or, if_true]
      rcases nonneg_finite_or_inf _ hT with hf | hinf
      · exact hf
      · rw [near_false_of_infinite opt path L hinf hL] at hn; cases hn
    by_cases he : equalTail opt path L = true
    · simp only [he, Bool.or_true, if_true]
      have hlt : Scalar.lt (natTotal opt path) L = true := by
        unfold equalTail at he
        simp only [Bool.and_eq_true] at he
        exact he.2
      exact finite_of_le_finite _ L hT (FMO.le_of_lt _ _ hlt) hL
    simp only [Bool.not_eq_true] at hn he
    simp only [hn, he, Bool.or_self, Bool.false_eq_true, if_false]
    split
    · exact zero_finite_float
    · exact hL
  intro v hv
  exact finite_of_le_finite v (dist ls) (hnn v hv) (hle v hv) hd

/-- without a requested length the entries are all finite exactly when the natural total is. -/
theorem natural_finite_iff_float (path : List (Pos Float32)) (opt : Float)
    (hopt : Scalar.le (0 : Float) opt = true) (hfin : ∀ p ∈ path, FinitePos p) (h2 : 2 ≤ path.length) :
    (∀ v ∈ natLens opt path, v.toModel.unpack.isFinite = true) ↔
      (natTotal opt path).toModel.unpack.isFinite = true := by
  have hnat := natLens_good_float opt path hopt hfin
  constructor
  · intro hall; exact hall _ (natTotal_mem opt path h2)
  · intro hT v hv
    have := hnat.le_dist v hv
    rw [natural_dist path opt h2] at this
    exact finite_of_le_finite v _ (hnat.2 v hv) this hT

/-! #### `Curve::new` -/

section New
variable [Trig Float32]

/-- **`new_lengths_monotone` for the driver's arithmetic, any surplus `≥ 0`**: if the path `calculate_path` computed
has finite coordinates and the surplus it hands over is `≥ 0`, the constructed curve's cumulative lengths never
decrease, start at `0.0`, are numbers in `[0, dist]`. -/
theorem new_lengths_monotone_float_surplus (fuel : Nat) (mode : GameMode) (pts : List (PathControlPoint Float32))
    (e : Option Float) (b b' : CurveBuffers Float32 Float) (c : Curve Float32 Float)
    (h : Curve.new fuel mode pts e b = .ok (c, b'))
    (hout : ∀ b1 opt, calculatePath fuel mode pts b = .ok (b1, opt) →
      Scalar.le (0 : Float) opt = true ∧ ∀ p ∈ b1.path, FinitePos p) :
    Mono c.lengths ∧ c.lengths.head? = some (0 : Float) ∧ (∀ v ∈ c.lengths, Scalar.le (0 : Float) v = true) ∧
      (∀ v ∈ c.lengths, Float.isNaN v = false) ∧ (∀ v ∈ c.lengths, Scalar.le v (dist c.lengths) = true) := by
  obtain ⟨b1, opt, hp, hl⟩ := new_is_calculateLength fuel mode pts e b b' c h
  obtain ⟨ho, hf⟩ := hout b1 opt hp
  exact calculateLength_lengths_monotone_float b1.path e opt ho hf c.path c.lengths hl

/-- **`new_lengths_monotone_float`**: every curve `Curve::new` builds in a mode other than osu!, or from control points
none of which is of Catmull type — so that `optimized_len = 0.0` (`calculatePath_optLen_zero`) — and whose computed
path has finite coordinates, has cumulative lengths that never decrease (IEEE `<=`), start at `0.0`, are numbers in
`[0, dist]`; `dist` is the natural length `calculated_len` seeded with `0.0` or the requested length as in
`calculateLength_dist_float`; for a finite requested length all entries are finite. -/
theorem new_lengths_monotone_float (fuel : Nat) (mode : GameMode) (pts : List (PathControlPoint Float32))
    (e : Option Float) (b b' : CurveBuffers Float32 Float) (c : Curve Float32 Float)
    (h : Curve.new fuel mode pts e b = .ok (c, b'))
    (hno : NoOsuCatmull mode pts)
    (hout : ∀ b1 opt, calculatePath fuel mode pts b = .ok (b1, opt) → ∀ p ∈ b1.path, FinitePos p) :
    (Mono c.lengths ∧ c.lengths.head? = some (0 : Float) ∧ (∀ v ∈ c.lengths, Scalar.le (0 : Float) v = true) ∧
      (∀ v ∈ c.lengths, Float.isNaN v = false) ∧ (∀ v ∈ c.lengths, Scalar.le v (dist c.lengths) = true)) ∧
    ∃ b1, calculatePath fuel mode pts b = .ok (b1, (0 : Float)) ∧
      calculateLength b1.path e (0 : Float) = .ok (c.path, c.lengths) ∧
      (∀ L, e = some L → Scalar.lt (0 : Float) L = true →
        dist c.lengths = if b1.path.length ≤ 1 then (0 : Float)
          else if near (0 : Float) b1.path L || equalTail (0 : Float) b1.path L then natTotal (0 : Float) b1.path
          else L) ∧
      (∀ L, e = some L → L.toModel.unpack.isFinite = true → ∀ v ∈ c.lengths, v.toModel.unpack.isFinite = true) := by
  obtain ⟨b1, opt, hp, hl⟩ := new_is_calculateLength fuel mode pts e b b' c h
  have h0 : opt = 0 := calculatePath_optLen_zero fuel mode pts b b1 opt hno hp
  subst h0
  have hf := hout b1 0 hp
  refine ⟨calculateLength_lengths_monotone_float b1.path e 0 zero_le_zero_float hf c.path c.lengths hl,
    b1, hp, hl, ?_, ?_⟩
  · intro L he hL
    subst he
    exact (calculateLength_dist_float b1.path L 0 zero_le_zero_float hf hL c.path c.lengths hl).1
  · intro L he hL
    subst he
    exact calculateLength_finite_float b1.path L 0 zero_le_zero_float hf hL c.path c.lengths hl

end New

/-! ### non-vacuity and sharpness (closed `Float32`/`Float` instances evaluated by the kernel) -/

section NonVacuity

/-- `(0,0), (3,4), (6,8)` in `f32`: natural lengths `0, 5, 10`. -/
def demo32 : List (Pos Float32) := [⟨0, 0⟩, ⟨3, 4⟩, ⟨6, 8⟩]
/-- the same path ending in two equal points: natural lengths `0, 5, 5`. -/
def demoTail32 : List (Pos Float32) := [⟨0, 0⟩, ⟨3, 4⟩, ⟨3, 4⟩]
/-- finite coordinates whose first segment overflows in `f32`: natural lengths `0, +∞, +∞`. -/
def demoHuge32 : List (Pos Float32) := [⟨0, 0⟩, ⟨2e19, 0⟩, ⟨1, 1⟩]

/-- what `calculate_length` returns, as bit patterns. -/
def lensBits (path : List (Pos Float32)) (e : Option Float) (opt : Float) : Option (List UInt64) :=
  (calculateLength path e opt).toOption.map fun r => r.2.map Float.toBits

/-- the hypotheses of the theorems above on the demo paths. -/
example : (∀ p ∈ demo32, FinitePos p) ∧ (∀ p ∈ demoTail32, FinitePos p) ∧ (∀ p ∈ demoHuge32, FinitePos p) ∧
    Scalar.le (0 : Float) (0 : Float) = true ∧ Scalar.lt (0 : Float) (7 : Float) = true ∧
    (7 : Float).toModel.unpack.isFinite = true := by decide +kernel

/-- the five outcomes are all reached in IEEE arithmetic: cut at `L = 7` (`[0, 5, 7]`), extension to `L = 20`
(`[0, 5, 20]`), near (`L = 10`, natural), equal tail (`[0, 5, 5, 5]`), single point, collapse (`L = −5`: `[0]`). -/
example : lensBits demo32 (some 7) 0 = some (([0, 5, 7] : List Float).map Float.toBits) ∧
    lensBits demo32 (some 20) 0 = some (([0, 5, 20] : List Float).map Float.toBits) ∧
    lensBits demo32 (some 10) 0 = some (([0, 5, 10] : List Float).map Float.toBits) ∧
    lensBits demoTail32 (some 20) 0 = some (([0, 5, 5, 5] : List Float).map Float.toBits) ∧
    lensBits [⟨1, 2⟩] (some 20) 0 = some (([0] : List Float).map Float.toBits) ∧
    lensBits demo32 (some (-5)) 0 = some (([0] : List Float).map Float.toBits) := by decide +kernel

example : near (0 : Float) demo32 7 = false ∧ equalTail (0 : Float) demo32 7 = false ∧ cutIdx (0 : Float) demo32 7 = 2 ∧
    near (0 : Float) demo32 20 = false ∧ equalTail (0 : Float) demo32 20 = false ∧ cutIdx (0 : Float) demo32 20 = 2 ∧
    near (0 : Float) demo32 10 = true ∧
    near (0 : Float) demoTail32 20 = false ∧ equalTail (0 : Float) demoTail32 20 = true ∧
    near (0 : Float) demo32 (-5) = false ∧ equalTail (0 : Float) demo32 (-5) = false ∧
      cutIdx (0 : Float) demo32 (-5) = 0 := by decide +kernel

/-- a NaN request is "near" (natural lengths are kept); `+∞` is honoured (`[0, 5, +∞]`). -/
example : lensBits demo32 (some (Float.ofBits 0x7FF8000000000000)) 0 = some (([0, 5, 10] : List Float).map Float.toBits) ∧
    lensBits demo32 (some (Float.ofBits 0x7FF0000000000000)) 0 = some [0, 0x4014000000000000, 0x7FF0000000000000] := by
  decide +kernel

/-- overflow: without a request the natural lengths of `demoHuge32` are `0, +∞, +∞`; a finite request `L = 7` cuts
them to `[0, 7]` (`calculateLength_finite_float`), and `L = +∞` is "near" (`∞ − ∞` is a NaN). -/
example : lensBits demoHuge32 none 0 = some [0, 0x7FF0000000000000, 0x7FF0000000000000] ∧
    lensBits demoHuge32 (some 7) 0 = some (([0, 7] : List Float).map Float.toBits) ∧
    near (0 : Float) demoHuge32 (Float.ofBits 0x7FF0000000000000) = true := by decide +kernel

/-- the theorems applied: the cut at `L = 7` of `demo32`. -/
example : ∃ p' ls, calculateLength demo32 (some (7 : Float)) 0 = .ok (p', ls) ∧ Mono ls ∧ dist ls = 7 ∧
    ∀ v ∈ ls, v.toModel.unpack.isFinite = true := by
  obtain ⟨r, hr⟩ := calculateLength_total demo32 (some (7 : Float)) 0
  have hfin : ∀ p ∈ demo32, FinitePos p := by decide +kernel
  have hd := (calculateLength_dist_float demo32 7 0 zero_le_zero_float hfin (by decide +kernel) r.1 r.2 hr).1
  have hc : near (0 : Float) demo32 7 = false ∧ equalTail (0 : Float) demo32 7 = false := by decide +kernel
  refine ⟨r.1, r.2, hr,
    (calculateLength_lengths_monotone_float demo32 _ 0 zero_le_zero_float hfin r.1 r.2 hr).1, ?_,
    calculateLength_finite_float demo32 7 0 zero_le_zero_float hfin (by decide +kernel) r.1 r.2 hr⟩
  rw [hd, hc.1, hc.2]
  simp [demo32]

/-- `new_lengths_monotone_float` applies: three linear control points in osu! mode, `L = 7`. -/
def demoCps : List (PathControlPoint Float32) :=
  [⟨⟨0, 0⟩, some PathType.linear⟩, ⟨⟨3, 4⟩, none⟩, ⟨⟨6, 8⟩, none⟩]

example : NoOsuCatmull GameMode.osu demoCps := by
  right
  intro pt hpt t ht
  simp only [demoCps, List.mem_cons, List.not_mem_nil, or_false] at hpt
  rcases hpt with rfl | rfl | rfl
  · cases ht; decide
  · cases ht
  · cases ht

/-- a stand-in for the `f32` libm functions (the driver's instance lives in Model/Cmds/Curve.lean; linear segments
never call them). -/
@[instance_reducible] def trigStub32 : Trig Float32 := ⟨id, id, id, fun a _ => a, 0⟩
attribute [local instance] trigStub32

example :
    (∀ b1 opt, calculatePath 10 GameMode.osu demoCps ({} : CurveBuffers Float32 Float) = .ok (b1, opt) →
      ∀ p ∈ b1.path, FinitePos p) ∧
    (Curve.new 10 GameMode.osu demoCps (some (7 : Float)) ({} : CurveBuffers Float32 Float)).toOption.map
      (fun r => r.1.lengths.map Float.toBits) = some (([0, 5, 7] : List Float).map Float.toBits) := by
  constructor
  · intro b1 opt h
    have key : ((calculatePath 10 GameMode.osu demoCps ({} : CurveBuffers Float32 Float)).toOption.map
        fun r => decide (∀ p ∈ r.1.path, FinitePos p)) = some true := by decide +kernel
    rw [h] at key
    simpa [Except.toOption] using key
  · decide +kernel

/-! #### sharpness: the hypothesis `0 ≤ optimized_len` -/

/-- **the osu!-mode Catmull surplus can be negative in IEEE arithmetic**: on the sub-path `(0,0), (1,1), (4,4)` the
simplification keeps the two end points and books `(|ab| + |bc|) − |ac| = −2^-23` (each distance rounded to `f32`:
`√2 + √18 < √32` after rounding), although the triangle inequality makes the exact value `≥ 0`
(`catmullSimplify_surplus_nonneg` in Props/C16Surplus.lean). -/
theorem surplus_negative_float :
    Scalar.lt (catmullSimplify ([⟨0, 0⟩, ⟨1, 1⟩, ⟨4, 4⟩] : List (Pos Float32)) (0 : Float)).2 (0 : Float) = true ∧
    (catmullSimplify ([⟨0, 0⟩, ⟨1, 1⟩, ⟨4, 4⟩] : List (Pos Float32)) (0 : Float)).2.toBits = 0xBE80000000000000 := by
  decide +kernel

/-- **with a negative surplus the returned lengths do decrease**: `optimized_len = −0x1.6p-25 ≈ −4.1e-8` (the value
`calculate_path` computes for the control points `(0,0) L, (0,0) C, (3,1)` in osu! mode, see
Props/C16IeeeAdjWitness.lean) and the path `(0,0), (0,0), (3,1)` give the lengths `0, −4.1e-8, 3.1622…`:
`0 ≤ −4.1e-8` is false. So `0 ≤ optimized_len` cannot be dropped from `calculateLength_lengths_monotone_float`, and
"never decrease" holds for such curves only up to a tolerance (the `1e-5` of the property text). -/
theorem surplus_negative_decreases :
    (∀ p ∈ ([⟨0, 0⟩, ⟨0, 0⟩, ⟨3, 1⟩] : List (Pos Float32)), FinitePos p) ∧
    lensBits [⟨0, 0⟩, ⟨0, 0⟩, ⟨3, 1⟩] none (Float.ofBits 0xBE66000000000000) =
      some [0, 0xBE66000000000000, 0x40094C583A800000] ∧
    ¬ Mono (natLens (Float.ofBits 0xBE66000000000000) ([⟨0, 0⟩, ⟨0, 0⟩, ⟨3, 1⟩] : List (Pos Float32))) := by
  refine ⟨by decide +kernel, by decide +kernel, ?_⟩
  intro h
  exact absurd h.1 (by decide +kernel)

end NonVacuity

end FloatSec

end Rosu.C16
