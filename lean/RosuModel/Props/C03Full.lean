/-
  Props/C03Full.lean — the module audited for C03: Props/C03Decoded.lean (and what it imports) together with
  Props/C03DecodedIeee.lean (the decoded-map theorems at Float / Float32). All in namespace Rosu.C03.
-/
import RosuModel.Props.C03Decoded
import RosuModel.Props.C03DecodedIeee
