/-
  Props/C04Ieee.lean — `ConstFacts Float Float32` (Lemmas/DecodedInvSections.lean: the closed facts about the float constants
  the decoder writes itself — defaults `1`, `1.4`, `5`, `0.7`, clamp bounds `0.4 3.6 0.5 8` are within the parse limit, ordered,
  and `0 = 0 as f64`) **proved in the kernel** for the driver's instances. Props/C04Decoded.lean could only `#guard` it ("a test,
  NOT a proof": `Float` was believed opaque); in Lean 4.33 the literals evaluate (`decide +kernel`). So the `Decoded` invariant
  theorems of C04 / C03 hold of the running decoder with no hypothesis about numbers.
-/
import RosuModel.Props.C04Decoded
import RosuModel.Props.C03Decoded
namespace Rosu.C04
open Rosu Encode EncodeLines C05 Scalar DecodedInv

/-- the boolean check of Props/C04Decoded.lean, now evaluated by the kernel instead of the compiler. -/
theorem constFactsB_float : constFactsB Float Float32 = true := by decide +kernel

/-- `0.0 = 0_i32 as f64` as `Float`s (same bit pattern). -/
theorem zero_eq_ofInt_float : (0 : Float) = Scalar.ofInt 0 := by decide +kernel

/-- **`ConstFacts Float Float32`**. -/
theorem constFacts_float : ConstFacts Float Float32 := constFacts_of_check constFactsB_float zero_eq_ofInt_float

/-- **parser_calls_keep_decoded_inv** for the driver's instance. -/
theorem parser_calls_keep_decoded_inv_float [Cvt Float32 Float] :
    (∀ v : Int, -i32Max ≤ v ∧ v ≤ i32Max → DecInv (BeatmapState.create v : BeatmapState Float Float32)) ∧
    (∀ (s : Section) (st : BeatmapState Float Float32) (l : Str), '\n' ∉ l → DecInv st → DecInv (BeatmapState.step s st l)) :=
  parser_calls_keep_decoded_inv constFacts_float

/-- **decoded_inv** for the driver's instance: every successfully decoded byte string leaves the `Beatmap` decoder in a state
satisfying the `Decoded` invariant — no hypothesis. -/
theorem decoded_inv_float (bytes : List UInt8) (st : BeatmapState Float Float32)
    (h : decodeBytes beatmapDecoder bytes = .ok st) : DecInv st :=
  decoded_inv constFacts_float bytes st h

/-- **decoded_map_inv** for the driver's instance. -/
theorem decoded_map_inv_float [Trig Float32] (bytes : List UInt8) (st : BeatmapState Float Float32)
    (m : Beatmap Float Float32) (h : decodeBytes beatmapDecoder bytes = .ok st) (hf : st.finish = .ok m) : DecInvMap m :=
  decoded_map_inv constFacts_float bytes st m h hf

/-- **decoded_records_representable** for the driver's instance (what remains is the codec side: `FloatsRep`). -/
theorem decoded_records_representable_float [Trig Float32] {RF : Float → Prop} {RP : Float32 → Prop}
    (bytes : List UInt8) (st : BeatmapState Float Float32) (m : Beatmap Float Float32)
    (h : decodeBytes beatmapDecoder bytes = .ok st) (hf : st.finish = .ok m)
    (hr : FloatsRep RF RP m) (hds : NoDoubleSlash m) : RtFile.RepRecords RF RP m :=
  decoded_records_representable constFacts_float bytes st m h hf hr hds

end Rosu.C04
