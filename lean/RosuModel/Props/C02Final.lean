/-
  Props/C02Final.lean — C02, the composition step "(a)" that Props/C02File.lean left open: after decode → encode → decode
  the MAP-LEVEL PROCESSING of the re-decoded hit objects gives back the original map's hit objects (preserved view
  `ObjPreserved` of Props/C02File.lean: count, start times, kinds, positions, combo flags and offsets, slider control points,
  repeat counts, velocities, spinner / hold durations, number of node sample lists; sample defaults are outside the view).

  * `Finalized m` — what a map that went through `From<HitObjectsState> for HitObjects` looks like: objects in
    chronological (`total_cmp`) order; `post_process_breaks` with the map's own breaks is a fixed point on them; every slider's
    velocity is `velocityAt` (the finaliser's formula) from the map's OWN control points; and the three facts every line
    decoder output has, in list order: the first object and every object directly after a spinner, if a circle or slider, has
    `new_combo`; a circle / slider without `new_combo` has combo offset 0; a slider has `repeat_count + 2` node sample lists.
    (The last three are what `parse_hit_objects` establishes; they are needed: the encoder writes the flags it finds and the
    decoder recomputes them, see `ObjBack`.)
  * `breaks_back` — forcing new combos on the pushed objects (which carry `forced || new_combo`) gives exactly the map's flags.
  * `roundtrip_objects_rep_core` — `roundtrip_rep_partial` continued through `sortByStartTime`, `postProcessBreaks`,
    `finalizeObjects`: for `RepMap` + `Finalized` maps, under exactly the hypotheses of `roundtrip_rep_partial`, in EVERY mode:
    the re-decoded map has as many objects, and object by object the preserved view is the map's — PROVIDED the re-decoded
    collection answers `difficulty_point_at(start)` like the map's at the slider start times (that is all the velocity reads
    besides the timing points, `finalize_reads_timeline_only`).
  * `roundtrip_objects_rep_partial` — osu! / catch: that proviso is the timeline equality of `roundtrip_rep_partial`; no
    hypothesis beyond `Finalized m` and the mode is added. In taiko / mania the encoder writes the SCROLL SPEED into the
    velocity field, so the re-decoded difficulty points are `clamp(scroll speed, 0.1, 10)`, not the map's difficulty points:
    see Props/C02FinalMania.lean.
-/
import RosuModel.Props.C02File
import RosuModel.Props.C02FinalParts
set_option linter.unusedSectionVars false
namespace Rosu.C02
open Rosu Encode EncodeLines C11 RtTiming Scalar FileRt SliderRt

section
variable {F P : Type} [Scalar F] [Scalar P] [Cvt P F] [Trig F] [Trig P] {RF : F → Prop} {RP : P → Prop}

/-! ### the predicate -/

/-- the `new_combo` flag of a circle / slider (`true` for the kinds the decoder's forcing rule does not touch). -/
def lineNewCombo (k : HitObjectKind F P) : Bool :=
  match k with
  | .circle c => c.newCombo
  | .slider s => s.newCombo
  | _ => true

/-- the decoder's forcing rule, along a list: the first object (when `forced`) and every object directly after a spinner, if
it is a circle or a slider, has `new_combo`. -/
def ForcedCombos : Bool → List (HitObject F P) → Prop
  | _, [] => True
  | forced, h :: hs => (forced = true → lineNewCombo h.kind = true) ∧ ForcedCombos (isSpinnerKind h.kind) hs

/-- what `parse_hit_objects` guarantees of one object: combo offset 0 without `new_combo`, `repeat_count + 2` node lists. -/
def LineShaped (h : HitObject F P) : Prop :=
  match h.kind with
  | .circle c => c.newCombo = false → c.comboOffset = 0
  | .slider s => (s.newCombo = false → s.comboOffset = 0) ∧ s.nodeSamples.length = nodeCount s
  | _ => True

/-- **a finalised map** (see the head of this file). -/
structure Finalized (m : Beatmap F P) : Prop where
  chronological : Chronological m.hitObjects
  breaks : postProcessBreaks m.events.breaks m.hitObjects 0 = m.hitObjects
  velocity : ∀ h ∈ m.hitObjects, ∀ s, h.kind = .slider s →
    s.velocity = velocityAt P m.general.mode m.difficulty.sliderMultiplier m.controlPoints h.startTime
  forced : ForcedCombos true m.hitObjects
  shaped : ∀ h ∈ m.hitObjects, LineShaped h

/-! ### lists related position by position -/

def AllPairs {α β : Type} (R : α → β → Prop) : List α → List β → Prop
  | [], [] => True
  | a :: as, b :: bs => R a b ∧ AllPairs R as bs
  | _, _ => False

theorem objsBack_times (mode : GameMode) : ∀ (forced : Bool) (hs os : List (HitObject F P)),
    ObjsBack mode forced hs os → os.map (·.startTime) = hs.map (·.startTime)
  | _, [], [], _ => rfl
  | _, [], _ :: _, h => h.elim
  | _, _ :: _, [], h => h.elim
  | _, h :: hs, o :: os, hb => by
    simp only [List.map_cons]
    rw [objsBack_times mode _ hs os hb.2, hb.1.1]

/-! ### breaks -/

omit [Scalar F] [Scalar P] [Cvt P F] [Trig F] [Trig P] in
theorem bool_absorb (forced nc f : Bool) (h1 : (nc || f) = nc) (h2 : forced = true → nc = true) :
    ((forced || nc) || f) = nc := by
  cases forced <;> cases nc <;> cases f <;> simp_all

/-- one object: the pushed object carries `forced || new_combo`; after or-ing the break flag `f` — which the map's own
object absorbs — it carries the map's `new_combo`. -/
theorem objBack_orNewCombo (mode : GameMode) (forced f : Bool) (h o : HitObject F P) (hb : ObjBack mode forced h o)
    (hfix : h.kind.orNewCombo f = h.kind) (hforced : forced = true → lineNewCombo h.kind = true) :
    ObjBack mode false h { o with kind := o.kind.orNewCombo f } := by
  obtain ⟨h1, h2⟩ := hb
  refine ⟨h1, ?_⟩
  cases hk : h.kind with
  | circle c =>
    rw [hk] at h2 hfix hforced
    simp only [] at h2 ⊢
    refine ⟨?_, h2.2⟩
    rw [h2.1]
    simp only [HitObjectKind.orNewCombo, HitObjectKind.circle.injEq] at hfix ⊢
    have e : (c.newCombo || f) = c.newCombo := by
      have := congrArg HitObjectCircle.newCombo hfix
      exact this
    rw [bool_absorb forced c.newCombo f e hforced]
    rfl
  | slider s =>
    rw [hk] at h2 hfix hforced
    simp only [] at h2 ⊢
    obtain ⟨dist, hd, h3, h4⟩ := h2
    refine ⟨dist, hd, ?_, h4⟩
    rw [h3]
    simp only [HitObjectKind.orNewCombo, HitObjectKind.slider.injEq] at hfix ⊢
    have e : (s.newCombo || f) = s.newCombo := by
      have := congrArg HitObjectSlider.newCombo hfix
      exact this
    rw [bool_absorb forced s.newCombo f e hforced]
    rfl
  | spinner sp =>
    rw [hk] at h2 hfix
    simp only [] at h2 ⊢
    refine ⟨?_, h2.2⟩
    rw [h2.1]
    simp only [HitObjectKind.orNewCombo, HitObjectKind.spinner.injEq] at hfix ⊢
    have e : (sp.newCombo || f) = sp.newCombo := by
      have := congrArg HitObjectSpinner.newCombo hfix
      exact this
    rw [e]
  | hold ho =>
    rw [hk] at h2
    simp only [] at h2 ⊢
    refine ⟨?_, h2.2⟩
    rw [h2.1]
    rfl

theorem postProcessBreaks_cons (breaks : List (BreakPeriod F)) (h : HitObject F P) (rest : List (HitObject F P))
    (cur : Nat) :
    postProcessBreaks breaks (h :: rest) cur =
      { h with kind := h.kind.orNewCombo (skipBreaks breaks h.startTime (breaks.length + 1) cur false).2 } ::
        postProcessBreaks breaks rest (skipBreaks breaks h.startTime (breaks.length + 1) cur false).1 := rfl

/-- **breaks_back** — `post_process_breaks` on the pushed objects: if the written objects are a fixed point of it (they
carry their break flags) and obey the decoder's forcing rule, the pushed objects — related by `ObjsBack`, i.e. carrying
`forced || new_combo` — become, flag for flag, the written ones (`ObjBack … false`: no forcing left over). -/
theorem breaks_back (mode : GameMode) (breaks : List (BreakPeriod F)) :
    ∀ (forced : Bool) (hs os : List (HitObject F P)) (cur : Nat), ObjsBack mode forced hs os →
      postProcessBreaks breaks hs cur = hs → ForcedCombos forced hs →
      AllPairs (ObjBack mode false) hs (postProcessBreaks breaks os cur)
  | _, [], [], _, _, _, _ => trivial
  | _, [], _ :: _, _, h, _, _ => h.elim
  | _, _ :: _, [], _, h, _, _ => h.elim
  | forced, h :: hs, o :: os, cur, hb, hfix, hfc => by
    rw [postProcessBreaks_cons] at hfix ⊢
    injection hfix with e1 e2
    have hkind : h.kind.orNewCombo (skipBreaks breaks h.startTime (breaks.length + 1) cur false).2 = h.kind :=
      congrArg HitObject.kind e1
    rw [show skipBreaks breaks o.startTime (breaks.length + 1) cur false =
      skipBreaks breaks h.startTime (breaks.length + 1) cur false from by rw [hb.1.1]]
    exact ⟨objBack_orNewCombo mode forced _ h o hb.1 hkind hfc.1,
      breaks_back mode breaks _ hs os _ hb.2 e2 hfc.2⟩

/-! ### one object through the finaliser, against the written one -/

omit [Scalar F] [Scalar P] [Cvt P F] [Trig F] [Trig P] in
theorem stripKind_circle (k : HitObjectKind F P) (c : HitObjectCircle P) (h : stripKind k = .circle c) : k = .circle c := by
  cases k <;> simp_all [stripKind]

omit [Scalar F] [Scalar P] [Cvt P F] [Trig F] [Trig P] in
theorem stripKind_spinner (k : HitObjectKind F P) (c : HitObjectSpinner F P) (h : stripKind k = .spinner c) : k = .spinner c := by
  cases k <;> simp_all [stripKind]

omit [Scalar F] [Scalar P] [Cvt P F] [Trig F] [Trig P] in
theorem stripKind_hold (k : HitObjectKind F P) (c : HitObjectHold F P) (h : stripKind k = .hold c) : k = .hold c := by
  cases k <;> simp_all [stripKind]

omit [Scalar F] [Scalar P] [Cvt P F] [Trig F] [Trig P] in
theorem stripKind_slider (k : HitObjectKind F P) (x : HitObjectSlider F P) (h : stripKind k = .slider x) :
    ∃ s2, k = .slider s2 ∧ { s2 with nodeSamples := s2.nodeSamples.map (fun _ => []) } = x := by
  cases k with
  | slider s2 => exact ⟨s2, rfl, by simpa [stripKind] using h⟩
  | circle c => simp [stripKind] at h
  | spinner c => simp [stripKind] at h
  | hold c => simp [stripKind] at h

theorem decodedNodes_length (s : HitObjectSlider F P) (samples : List HitSampleInfo) :
    (decodedNodes s samples).length = nodeCount s := by
  simp [decodedNodes]

/-- **one object**: `o'` is what the format carries of `h` with `h`'s own flags (`ObjBack … false`), `k` is `o'` through the
finaliser with control points `cp2` (`objView k = velView … o'`); if `h` has the line decoder's shape and its slider velocity
is the finaliser's formula over `cp2` at its start time, then `k` is `h` on the preserved view. -/
theorem obj_preserved (mode : GameMode) (sm : F) (cp2 : ControlPoints F) (h o' k : HitObject F P)
    (hb : ObjBack mode false h o') (hv : objView k = velView mode sm cp2 o') (hs : LineShaped h)
    (hvel : ∀ s, h.kind = .slider s → s.velocity = velocityAt P mode sm cp2 h.startTime) : ObjPreserved h k := by
  obtain ⟨h1, h2⟩ := hb
  unfold objView velView at hv
  injection hv with hv1 hv2
  unfold ObjPreserved
  refine ⟨hv1.trans h1, ?_⟩
  unfold LineShaped at hs
  cases hk : h.kind with
  | circle c =>
    rw [hk] at h2 hs
    simp only [] at h2 hs
    rw [h2.1] at hv2
    simp only [] at hv2
    rw [stripKind_circle _ _ hv2]
    simp only [Bool.false_or, true_and]
    cases hnc : c.newCombo with
    | true => simp
    | false => simp [hs hnc]
  | slider s =>
    rw [hk] at h2 hs
    simp only [] at h2 hs
    obtain ⟨dist, _, h3, _⟩ := h2
    rw [h3] at hv2
    simp only [] at hv2
    obtain ⟨s2, e1, e2⟩ := stripKind_slider _ _ hv2
    rw [e1]
    simp only []
    have hpos := congrArg HitObjectSlider.pos e2
    have hnc := congrArg HitObjectSlider.newCombo e2
    have hco := congrArg HitObjectSlider.comboOffset e2
    have hpath := congrArg (fun x => x.path.controlPoints) e2
    have hrc := congrArg HitObjectSlider.repeatCount e2
    have hvl := congrArg HitObjectSlider.velocity e2
    have hns := congrArg (fun x => x.nodeSamples.length) e2
    simp only [Bool.false_or, List.length_map, decodedNodes_length] at hpos hnc hco hpath hrc hvl hns
    refine ⟨hpos, hnc, ?_, hpath, hrc, ?_, ?_⟩
    · rw [hco]
      cases hnc' : s.newCombo with
      | true => simp
      | false => simp [hs.1 hnc']
    · rw [hvl, h1, ← hvel s hk]
    · rw [hns, hs.2]
  | spinner sp =>
    rw [hk] at h2
    simp only [] at h2
    rw [h2.1] at hv2
    simp only [] at hv2
    rw [stripKind_spinner _ _ hv2]
    simp only [and_self]
  | hold ho =>
    rw [hk] at h2
    simp only [] at h2
    rw [h2.1] at hv2
    simp only [] at hv2
    rw [stripKind_hold _ _ hv2]
    simp only [and_self]

/-- the list version. -/
theorem objs_preserved (mode : GameMode) (sm : F) (cp2 : ControlPoints F) :
    ∀ (hs os' ks : List (HitObject F P)), AllPairs (ObjBack mode false) hs os' →
      ks.map objView = os'.map (velView mode sm cp2) → (∀ h ∈ hs, LineShaped h) →
      (∀ h ∈ hs, ∀ s, h.kind = .slider s → s.velocity = velocityAt P mode sm cp2 h.startTime) →
      ks.length = hs.length ∧ ∀ p ∈ List.zip hs ks, ObjPreserved p.1 p.2
  | [], [], [], _, _, _, _ => ⟨rfl, fun p hp => by cases hp⟩
  | [], [], _ :: _, _, h, _, _ => by simp at h
  | [], _ :: _, _, h, _, _, _ => h.elim
  | _ :: _, [], _, h, _, _, _ => h.elim
  | _ :: _, _ :: _, [], _, h, _, _ => by simp at h
  | h :: hs, o :: os', k :: ks, hp, hv, hsh, hvel => by
    simp only [List.map_cons, List.cons.injEq] at hv
    obtain ⟨r1, r2⟩ := objs_preserved mode sm cp2 hs os' ks hp.2 hv.2 (fun x hx => hsh x (by simp [hx]))
      (fun x hx => hvel x (by simp [hx]))
    refine ⟨by simp [r1], fun p hp' => ?_⟩
    simp only [List.zip_cons_cons, List.mem_cons] at hp'
    rcases hp' with rfl | hp'
    · exact obj_preserved mode sm cp2 h o k hp.1 hv.1 (hsh h (by simp)) (hvel h (by simp))
    · exact r2 p hp'

/-! ### the composition -/

theorem timingPointAt_congr (cp cp' : ControlPoints F) (e : cp'.timingPoints = cp.timingPoints) (t : F) :
    cp'.timingPointAt t = cp.timingPointAt t := by
  unfold ControlPoints.timingPointAt
  rw [e]

/-- the `difficulty_point_at` answers of two collections agree at the start time of every slider of `hs`. -/
def SameSvAtSliders (cp cp' : ControlPoints F) (hs : List (HitObject F P)) : Prop :=
  ∀ h ∈ hs, isSlider h = true →
    ((cp'.difficultyPointAt h.startTime).map (·.sliderVelocity)).getD (1 : F) =
      ((cp.difficultyPointAt h.startTime).map (·.sliderVelocity)).getD (1 : F)

/-- **roundtrip_objects_rep_core** — every mode; hypotheses: those of `roundtrip_rep_partial` and `Finalized m`. The one
decode of `encode m` succeeds, and whenever finalisation succeeds and the re-decoded collection answers
`difficulty_point_at` like the map's at the slider start times, the re-decoded map has the map's hit objects on the
preserved view. -/
theorem roundtrip_objects_rep_core (L : MapLaws F P RF RP) (E : EpsLaws F) (G : GroupLaws F) (m : Beatmap F P)
    (hm : RepMap RF RP m) (hth : TimelineHyps m.general.mode m.controlPoints) (t : Str) (h : encode m = .ok t)
    (hf : Finalized m) :
    ∃ st : BeatmapState F P, decodeBytes beatmapDecoder (utf8Encode t) = .ok st ∧
      ∀ m2 : Beatmap F P, st.finish = .ok m2 →
        SameSvAtSliders m.controlPoints m2.controlPoints m.hitObjects →
        m2.hitObjects.length = m.hitObjects.length ∧
        ∀ p ∈ List.zip m.hitObjects m2.hitObjects, ObjPreserved p.1 p.2 := by
  obtain ⟨st, h1, _, hback, _, _, h6⟩ := roundtrip_rep_partial L E G m hm hth t h
  refine ⟨st, h1, fun m2 h2 hsv => ?_⟩
  obtain ⟨_, htp, _, hfin⟩ := h6 m2 h2
  -- the sort moves nothing
  have htimes := objsBack_times m.general.mode true _ _ hback
  rw [sort_chronological_id _ (chronological_of_times _ _ htimes hf.chronological)] at hfin
  -- the forced new combos
  have hbr := breaks_back m.general.mode m.events.breaks true _ _ 0 hback hf.breaks hf.forced
  -- the finaliser
  have hview := finalizeObjects_view _ _ _ _ _ _ hfin
  refine objs_preserved m.general.mode m.difficulty.sliderMultiplier m2.controlPoints _ _ _ hbr hview hf.shaped ?_
  intro x hx s hk
  rw [hf.velocity x hx s hk]
  symm
  apply velocityAt_congr
  refine ⟨by rw [timingPointAt_congr _ _ htp], hsv x hx (by simp [isSlider, hk])⟩

/-- **roundtrip_objects_rep_partial** (osu! / catch; exact arithmetic for the timing part, as `roundtrip_rep_partial`) — for a
map that satisfies `RepMap` and is finalised, under exactly the hypotheses of `roundtrip_rep_partial`: reading `encode m`
back succeeds, and whenever finalisation succeeds the re-decoded map has as many hit objects as `m` and, position by
position, the same start time, kind, position, `new_combo`, combo offset, slider control points, repeat count, VELOCITY,
number of node sample lists, spinner / hold duration. "Partial": `Finalized` + `RepMap` are assumed of `m` (a decoded map is
finalised — `decoded_finalized` — but need not satisfy `RepMap`), the timing part is exact arithmetic, and taiko / mania need
the scroll-speed hypothesis of Props/C02FinalMania.lean. -/
theorem roundtrip_objects_rep_partial (L : MapLaws F P RF RP) (E : EpsLaws F) (G : GroupLaws F) (m : Beatmap F P)
    (hm : RepMap RF RP m) (hth : TimelineHyps m.general.mode m.controlPoints) (t : Str) (h : encode m = .ok t)
    (hf : Finalized m) (hmode : m.general.mode = .osu ∨ m.general.mode = .catch) :
    ∃ st : BeatmapState F P, decodeBytes beatmapDecoder (utf8Encode t) = .ok st ∧
      ∀ m2 : Beatmap F P, st.finish = .ok m2 →
        m2.hitObjects.length = m.hitObjects.length ∧
        ∀ p ∈ List.zip m.hitObjects m2.hitObjects, ObjPreserved p.1 p.2 := by
  obtain ⟨st, h1, _, _, _, _, h6⟩ := roundtrip_rep_partial L E G m hm hth t h
  obtain ⟨st', h1', hcore⟩ := roundtrip_objects_rep_core L E G m hm hth t h hf
  have e : st' = st := by rw [h1] at h1'; injection h1' with e; exact e.symm
  subst e
  refine ⟨st', h1, fun m2 h2 => hcore m2 h2 ?_⟩
  obtain ⟨_, _, htl, _⟩ := h6 m2 h2
  intro x _ _
  have := (htl x.startTime).1
  rcases hmode with hmo | hmo <;> rw [hmo] at this <;> exact this

end

end Rosu.C02
