/-
  Props/C04Slider.lean — C04 for slider lines, and hit-object line acceptance over all four kinds.

  * `slider_line_accepted`: the line `encode_hit_objects` writes for a representable slider (`SliderRt.RepSlider`:
    integral position, a control-point list in the decidable class `SliderRt.RepPath`, 0..8999 repeats, a written length
    within ±131072, …) is LF-terminated and LF-free, is a record line (neither a header nor skipped), and
    `parse_hit_objects` accepts it in whatever decoder state and yields a slider: the state grows by exactly one slider.
  * `hitobject_lines_accepted`: the same statement over circles, sliders, spinners and hold notes
    (`hitobject_lines_accepted_partial` of Props/C04.lean is kept; this theorem contains it).
  Findings named by the hypotheses: **F20** — `RepSlider.distRep` (written length within ±131072) is forced by the decoder's
  limit on the length field and is violated by the real encoder for a slider without a length whose computed curve is
  longer than 131072 (the line it writes is rejected); **F17** — outside `RepPath` (a repeated point at a segment start
  does not make the line rejected, it changes the control points read back: C02).
  * `hitobjects_block_accepted`: for a map all of whose objects are representable (`SliderRt.RepObject`), the whole
    `[HitObjects]` block is its header followed by one LF-terminated record line per object (`RtFile.ListBlockShape`, the
    shape `record_blocks_accepted_and_recovered` assumes), and `parse_hit_objects` accepts every line when the block is
    run from any decoder state.
  Still only a statement: that every object of a *decoded* map is representable (outside the findings), timing-point
  lines, and hence `list_block_lines_accepted_statement` of Props/C04.lean.
-/
import RosuModel.Props.C04
import RosuModel.Lemmas.SliderEx
import RosuModel.Lemmas.HitObjectBlock
set_option linter.unusedSectionVars false
namespace Rosu.C04
open Rosu Encode EncodeLines C11

section
variable {F P : Type} [Scalar F] [Scalar P] [Cvt P F] [Trig F] [Trig P] {RF : F → Prop} {RP : P → Prop}

/-- **slider_line_accepted**: under the codec laws, for a representable slider (written length `dist`: the expected
length, or the computed curve's length when there is none): the encoder's line is LF-free, a record line, and accepted
by `parse_hit_objects` in any decoder state, which pushes exactly one object, a slider (`same_record_kind`), and
remembers the slider type. -/
theorem slider_line_accepted (LF : CodecLaws F RF) (LP : CodecLaws P RP) (LC : SliderRt.CoordLaws F P RP) (mode : GameMode)
    (h : HitObject F P) (s : HitObjectSlider F P) (dist : F) (hk : h.kind = .slider s)
    (hr : SliderRt.RepSlider RF RP mode h s dist) (st : HOCore F P) :
    ∃ l k vs samples, encodeObject mode h = .ok (l ++ EncodeLines.nl) ∧ '\n' ∉ l ∧ RecordLine (trimEnd l) ∧
      parseHitObjectLine mode st (trimEnd l) = (SliderRt.sliderPushed st vs h.startTime (.slider k) samples, true) := by
  obtain ⟨h1, h2, h3, vs, h4⟩ := SliderRt.slider_line_roundtrip LF LP LC mode h s dist hk hr st
  exact ⟨_, _, vs, _, h1, h2, h3, h4⟩

/-- the path string of that line: made of number characters, `:`, `|` and the type letters `B C P L` only, starting
with a type letter — so the field contains no `,`, no line feed, no `//`. -/
theorem slider_path_text_clean (LP : CodecLaws P RP) (LC : SliderRt.CoordLaws F P RP) (pos : Pos P)
    (cps : List (PathControlPoint P)) (h : SliderRt.RepPath RP pos cps) :
    (∀ c ∈ SliderRt.pathText pos cps, SliderRt.PathChar c ∨ c = '|') ∧
    ∃ c r, SliderRt.pathText pos cps = c :: r ∧ (c = 'B' ∨ c = 'C' ∨ c = 'P' ∨ c = 'L') :=
  ⟨(SliderRt.path_roundtrip (F := F) LP LC pos cps h {}).2.1, (SliderRt.path_roundtrip (F := F) LP LC pos cps h {}).2.2.1⟩

/-- **hitobject_lines_accepted** — all four kinds. Under the codec laws, the line `encode_hit_objects` writes for a
representable circle, slider, spinner or hold note is LF-terminated and LF-free, is a record line, and is accepted by
`parse_hit_objects` in whatever state; the state grows by exactly one object of the same kind. -/
theorem hitobject_lines_accepted (LF : CodecLaws F RF) (LP : CodecLaws P RP) (LC : SliderRt.CoordLaws F P RP)
    (mode : GameMode) (h : HitObject F P) (st : HOCore F P) :
    (∀ c, h.kind = .circle c → RtObjects.RepCircle RF RP mode h c →
      ∃ l k, encodeObject mode h = .ok (l ++ EncodeLines.nl) ∧ '\n' ∉ l ∧ RecordLine (trimEnd l) ∧
        parseHitObjectLine mode st (trimEnd l) = (RtObjects.pushed st 1 h.startTime (.circle k) (RtObjects.decodedSamples h.samples mode), true)) ∧
    (∀ s dist, h.kind = .slider s → SliderRt.RepSlider RF RP mode h s dist →
      ∃ l k vs samples, encodeObject mode h = .ok (l ++ EncodeLines.nl) ∧ '\n' ∉ l ∧ RecordLine (trimEnd l) ∧
        parseHitObjectLine mode st (trimEnd l) = (SliderRt.sliderPushed st vs h.startTime (.slider k) samples, true)) ∧
    (∀ sp, h.kind = .spinner sp → RtObjects.RepSpinner RF RP mode h sp →
      ∃ l k, encodeObject mode h = .ok (l ++ EncodeLines.nl) ∧ '\n' ∉ l ∧ RecordLine (trimEnd l) ∧
        parseHitObjectLine mode st (trimEnd l) = (RtObjects.pushed st 8 h.startTime (.spinner k) (RtObjects.decodedSamples h.samples mode), true)) ∧
    (∀ ho, h.kind = .hold ho → RtObjects.RepHold RF RP mode h ho →
      ∃ l k, encodeObject mode h = .ok (l ++ EncodeLines.nl) ∧ '\n' ∉ l ∧ RecordLine (trimEnd l) ∧
        parseHitObjectLine mode st (trimEnd l) = (RtObjects.pushed st 128 h.startTime (.hold k) (RtObjects.decodedSamples h.samples mode), true)) := by
  obtain ⟨hc, hsp, hho⟩ := hitobject_lines_accepted_partial LF LP mode h st
  exact ⟨hc, fun s dist hk hr => slider_line_accepted LF LP LC mode h s dist hk hr st, hsp, hho⟩

/-- **hitobjects_block_accepted** — the `[HitObjects]` block as a whole, for a map whose objects are all representable:
`encode_hit_objects` succeeds, the block is `[HitObjects]` followed by one LF-free record line per object (so it has
the shape `ListBlockShape` that `record_blocks_accepted_and_recovered` assumes of it), and running `parse_hit_objects`
over the end-trimmed lines from any decoder state accepts every one of them. -/
theorem hitobjects_block_accepted (LF : CodecLaws F RF) (LP : CodecLaws P RP) (LC : SliderRt.CoordLaws F P RP) (m : Beatmap F P)
    (hm : ∀ h ∈ m.hitObjects, SliderRt.RepObject RF RP m.general.mode h) :
    ∃ H : List Str, encodeHitObjects m = .ok (unlines (str "[HitObjects]" :: H)) ∧ RtFile.ListBlockShape H ∧
      H.length = m.hitObjects.length ∧
      ∀ st : HOCore F P, Accepts (parseHitObjectLine m.general.mode) st (H.map trimEnd) := by
  obtain ⟨H, h1, h2, h3, h4⟩ := SliderRt.block_lines LF LP LC m.general.mode m.hitObjects hm
  refine ⟨H, ?_, h3, h2, fun st => (h4 st).1⟩
  unfold encodeHitObjects
  simp only [h1, bind, Except.bind, pure, Except.pure, unlines_cons]
  rfl

/-- an accepted slider line leaves the decoder's path buffer `curve_points` empty, whatever it held before: the next
slider line starts from a clean buffer. -/
theorem slider_line_leaves_clean_buffer (st : HOCore F P) (vs : List (PathControlPoint P)) (t : F) (k : HitObjectKind F P)
    (samples : List HitSampleInfo) : (SliderRt.sliderPushed st vs t k samples).curvePoints = [] ∧
    (SliderRt.sliderPushed st vs t k samples).hitObjects = st.hitObjects ++ [⟨t, k, samples⟩] ∧
    (SliderRt.sliderPushed st vs t k samples).lastObject = some 2 := ⟨rfl, rfl, rfl⟩

/-- non-vacuity (toy codec): the slider line
`100,100,1000,38,2,B|150:150|200:100|200:100|250:150|L|300:100|350:150|350:150|P|400:100|450:160|500:100,2,420,2|0|0,2:3|3:0|0:0,2:3:0:0:`. -/
example (st : HOCore ZC ZC) := (hitobject_lines_accepted ZC.laws ZC.laws SliderRt.ZC.coordLaws GameMode.osu SliderRt.exSliderObj st).2.1
  SliderRt.exSlider ⟨420⟩ rfl SliderRt.exSlider_rep

end

end Rosu.C04
