/-
  Props/C15Ieee.lean — the order hypothesis of `first_after_break_new_combo` (Props/C15Map.lean): "on the set `N`,
  `x ≤ y < z → x < z`" (`hle_lt`), and of `pairwise_of_consecutive`: "`¬ >` is transitive on `N`" (`hle_trans`). Both hold
  of IEEE `<` with `N` := the non-NaN values, for the driver's `Float` (Lemmas/FloatModelOrder.lean) — and parsed break /
  object times are never NaN (`C11.floatParse_not_nan`). So for IEEE doubles the only hypothesis left is the one the
  property really needs: the breaks are listed in non-decreasing end-time order (finding F14 without it).
-/
import RosuModel.Props.C15Map
import RosuModel.Lemmas.FloatModelCompare
namespace Rosu.C15
open Rosu

/-- the numbers: the set on which IEEE `<` is a strict total order (up to `+0 == −0`). -/
def NotNaN {α : Type} [Scalar α] (x : α) : Prop := Scalar.isNaN x = false

section Generic
variable {α : Type} [Scalar α] [FMO.IeeeOrd α]

/-- `hle_lt` of `first_after_break_new_combo` on the numbers. -/
theorem le_lt_ieee (x y z : α) (hx : NotNaN x) (_ : NotNaN y) (_ : NotNaN z)
    (h1 : Scalar.lt y x = false) (h2 : Scalar.lt y z = true) : Scalar.lt x z = true :=
  FMO.lt_of_not_lt_of_lt x y z hx h1 h2

/-- `hle_trans` of `pairwise_of_consecutive` on the numbers. -/
theorem le_trans_ieee (x y z : α) (hx : NotNaN x) (hy : NotNaN y) (hz : NotNaN z)
    (h1 : Scalar.lt y x = false) (h2 : Scalar.lt z y = false) : Scalar.lt z x = false :=
  FMO.not_lt_trans x y z hx hy hz h1 h2

end Generic

/-- **first_after_break_new_combo** for IEEE doubles (`N` := not NaN, the order fact discharged). -/
theorem first_after_break_new_combo_float
    (breaks : List (BreakPeriod Float)) (hs : List (HitObject Float Float32))
    (hNb : ∀ b ∈ breaks, Scalar.isNaN b.endTime = false) (hNh : ∀ x ∈ hs, Scalar.isNaN x.startTime = false)
    (hsorted : breaks.Pairwise (fun b₁ b₂ => Scalar.lt b₂.endTime b₁.endTime = false))
    (b : BreakPeriod Float) (hb : b ∈ breaks) (i : Nat) (h : HitObject Float Float32) (hi : hs[i]? = some h)
    (hafter : Scalar.lt b.endTime h.startTime = true)
    (hfirst : ∀ k h', k < i → hs[k]? = some h' → Scalar.lt b.endTime h'.startTime = false)
    (hnh : isHold h.kind = false) :
    ∃ h', (postProcessBreaks breaks hs 0)[i]? = some h' ∧ kindNewCombo h'.kind = true ∧
      h'.startTime = h.startTime ∧ h'.samples = h.samples :=
  first_after_break_new_combo NotNaN le_lt_ieee breaks hs hNb hNh hsorted b hb i h hi hafter hfirst hnh

/-- "non-decreasing end times" stated for consecutive breaks gives the pairwise form, for IEEE doubles. -/
theorem pairwise_of_consecutive_float (breaks : List (BreakPeriod Float))
    (hNb : ∀ b ∈ breaks, Scalar.isNaN b.endTime = false)
    (hcons : ∀ i b₁ b₂, breaks[i]? = some b₁ → breaks[i + 1]? = some b₂ → Scalar.lt b₂.endTime b₁.endTime = false) :
    breaks.Pairwise (fun b₁ b₂ => Scalar.lt b₂.endTime b₁.endTime = false) :=
  pairwise_of_consecutive NotNaN le_trans_ieee breaks hNb hcons

/-- … in the natural reading `b₁.end <= b₂.end` of "non-decreasing" (IEEE `<=` on numbers is `¬ >`). -/
theorem pairwise_of_consecutive_le_float (breaks : List (BreakPeriod Float))
    (hcons : ∀ i b₁ b₂, breaks[i]? = some b₁ → breaks[i + 1]? = some b₂ → Scalar.le b₁.endTime b₂.endTime = true) :
    breaks.Pairwise (fun b₁ b₂ => Scalar.lt b₂.endTime b₁.endTime = false) := by
  match breaks, hcons with
  | [], _ => exact List.Pairwise.nil
  | [a], _ => exact List.Pairwise.cons (fun _ h => by cases h) List.Pairwise.nil
  | a :: b :: rest, hcons =>
    refine pairwise_of_consecutive_float _ ?_ (fun i b₁ b₂ h1 h2 => FMO.not_lt_of_le _ _ (hcons i b₁ b₂ h1 h2))
    -- with two or more breaks every end time is one side of a true `<=`, hence a number
    intro c hc
    obtain ⟨m, hm, hcm⟩ := List.getElem_of_mem hc
    by_cases hlast : m + 1 < (a :: b :: rest).length
    · have := hcons m c ((a :: b :: rest)[m + 1]'hlast)
        (by rw [List.getElem?_eq_getElem hm, hcm]) (List.getElem?_eq_getElem hlast)
      exact (FMO.not_nan_of_le this).1
    · obtain ⟨k, rfl⟩ : ∃ k, m = k + 1 := ⟨m - 1, by simp only [List.length_cons] at hm hlast; omega⟩
      have hk : k < (a :: b :: rest).length := by omega
      have := hcons k ((a :: b :: rest)[k]'hk) c (List.getElem?_eq_getElem hk)
        (by rw [List.getElem?_eq_getElem hm, hcm])
      exact (FMO.not_nan_of_le this).2

/-- **first_after_break_new_combo, on the decoded map**, for IEEE doubles. -/
theorem first_after_break_new_combo_decoded_float [Trig Float32]
    (st : HitObjectsState Float Float32) (ho : HitObjects Float Float32) (hfin : st.finish = .ok ho)
    (hNb : ∀ b ∈ st.events.breaks, Scalar.isNaN b.endTime = false)
    (hNh : ∀ x ∈ st.core.hitObjects, Scalar.isNaN x.startTime = false)
    (hsorted : st.events.breaks.Pairwise (fun b₁ b₂ => Scalar.lt b₂.endTime b₁.endTime = false))
    (b : BreakPeriod Float) (hb : b ∈ st.events.breaks) (i : Nat) (h : HitObject Float Float32)
    (hi : (sortByStartTime st.core.hitObjects)[i]? = some h)
    (hafter : Scalar.lt b.endTime h.startTime = true)
    (hfirst : ∀ k h', k < i → (sortByStartTime st.core.hitObjects)[k]? = some h' →
      Scalar.lt b.endTime h'.startTime = false)
    (hnh : isHold h.kind = false) :
    ∃ h', ho.hitObjects[i]? = some h' ∧ kindNewCombo h'.kind = true ∧ h'.startTime = h.startTime :=
  first_after_break_new_combo_decoded NotNaN le_lt_ieee st ho hfin hNb hNh hsorted b hb i h hi hafter hfirst hnh

/-! ### non-vacuity: actual doubles (two breaks in order, objects before / between) -/

def fCircle (t : Float) : HitObject Float Float32 :=
  { startTime := t, kind := .circle { pos := ⟨0, 0⟩, newCombo := false, comboOffset := 0 }, samples := [] }
def fBreak (s e : Float) : BreakPeriod Float := { startTime := s, endTime := e }

example : ∃ h', (postProcessBreaks [fBreak 100 200.5, fBreak 300 400] [fCircle 50, fCircle 250.25, fCircle 260] 0)[1]?
      = some h' ∧ kindNewCombo h'.kind = true ∧ h'.startTime = (fCircle 250.25).startTime ∧
        h'.samples = (fCircle 250.25).samples :=
  first_after_break_new_combo_float _ _
    (by intro b hb; simp at hb; rcases hb with rfl | rfl <;> decide +kernel)
    (by intro x hx; simp at hx; rcases hx with rfl | rfl | rfl <;> decide +kernel)
    (pairwise_of_consecutive_le_float _ (by
      intro i b₁ b₂ h1 h2
      cases i with
      | zero => simp at h1 h2; subst h1 h2; decide +kernel
      | succ i => cases i <;> simp at h1 h2))
    (fBreak 100 200.5) (by simp) 1 (fCircle 250.25) rfl (by decide +kernel)
    (by intro k h' hk hk'
        have : k = 0 := by omega
        subst this; simp at hk'; subst hk'; decide +kernel)
    rfl

end Rosu.C15
