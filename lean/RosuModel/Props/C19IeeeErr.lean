/-
  Props/C19IeeeErr.lean — C19 / C16 on IEEE floats: ERROR BOUNDS for the positions along a curve and for the booked
  polyline lengths, on top of the rounding-error layer Lemmas/FloatErr*.lean (`+ − × ÷`, `sqrt`, `f32 ↔ f64`).

  Rust (`curve.rs`): `interpolate_vertices` returns `p0 + (p1 − p0) * (w as f32)` with `w = (d − d0) / (d1 − d0)` in `f64`;
  `calculate_length` books, per segment, `f64::from((next − curr).length())` and keeps an `f64` running sum.

  (3) * `weight_chain`, `interp_chain` (over ℚ): the SEVEN roundings of one coordinate — `d ⊖ d0`, `d1 ⊖ d0`, `⊘` (f64),
        `as f32`, `x1 ⊖ x0`, `⊗`, `⊕` (f32);
      * `interp_coord_err_float32`, **`interpolate_err_float32`**: for `d0 ≤ d ≤ d1` (IEEE order) and end points bounded by
        `2¹⁹`, each coordinate of the returned position is within `interpBound = 7·2⁻²⁴·2¹⁹ + 2⁻²⁰ < 0.21876` px of
        `x0 + w (x1 − x0)`, `w = (d − d0)/(d1 − d0) ∈ [0, 1]` the EXACT rational weight of the stored doubles (`C = 7`: one
        half-ulp of `|x0 + …| ≤ 2¹⁹`, and `(1 + 1 + 1)` half-ulps of `|x1 − x0| ≤ 2²⁰` for the weight, the difference and
        the product);
      * **`interpolate_on_segment_float32`**: hence within `1/4` px per coordinate of a point of the segment `[p0, p1]`.
  (1) * **`segment_length_err_float32`**: the booked `f64` length `ell` of a segment with exact squared length
        `E = Δx² + Δy² ≥ 2⁻¹⁰⁰` satisfies `E (1 − 3·2⁻²²) ≤ ell² ≤ E (1 + 3·2⁻²²)` (`c = 3`; nine roundings, the relative
        error of `ell` itself is `≈ 1.5·2⁻²²`). The floor on `E` is necessary: squares below `2⁻¹⁴⁹` underflow in `f32`
        (`segment_length_underflow_example`: a segment of length `2⁻⁷⁵` is booked with length `0`).
  (2) * `runsum_chain`, **`natural_length_err_float`**: the natural total (running `f64` sum of `n` booked lengths `ℓᵢ ≥ 0` from a
        start `c ≥ 0`) satisfies `|total − (c + Σ ℓᵢ)| ≤ ((1 + 2⁻⁵³)ⁿ − 1)(c + Σ ℓᵢ)`, `≤ 2n·2⁻⁵³ (c + Σ ℓᵢ)` for `n ≤ 2⁵³`
        (`natural_length_err_float_linear`), where the `ℓᵢ` are the rationals of (1).
  (4) * **`position_lipschitz_segment_float32`**: two distances inside the SAME segment give positions that differ, per
        coordinate, by at most `|w − w'|·|x1 − x0| + 2·interpBound`; `position_arc_segment_float32`: hence by at most
        `|d − d'| (1 + κ) + 2·interpBound` when the chord is at most `(1 + κ)` times the booked length;
        `chord_le_booked_float`: that hypothesis holds with `κ = 2⁻²⁰` for a naturally booked segment (from (1) and the one
        rounding of `len_k ⊕ ell`, for `len_k ≤ 2²⁷ ℓ`).
  Kernel-evaluated non-vacuity on the demo segment `(100, 200) → (107, 224)` of Props/C16IeeeCut.lean.
-/
import RosuModel.Props.C19
import RosuModel.Props.C16IeeeCut2
import RosuModel.Props.C16IeeeLen
namespace Rosu.C19
open Rosu Rosu.Curve Rosu.FErr

/-! ## (3) the position `interpolate_vertices` returns -/

/-! ### over ℚ -/

/-- **the weight**, four roundings: `n = fl64(d − d0)`, `m = fl64(d1 − d0)`, `q = fl64(n / m)` (correctly rounded, gradual
underflow included), `wf = fl32(q)`. For `d0 ≤ d ≤ d1`, `d0 < d1` the `f32` weight is within `2⁻²⁴ + 2⁻⁵⁰` of the exact
`w = (d − d0)/(d1 − d0) ∈ [0, 1]`. -/
theorem weight_chain (D D0 D1 n m q wf ε1 ε2 : ℚ)
    (h0 : D0 ≤ D) (h1 : D ≤ D1) (h01 : D0 < D1)
    (hn : n = (D - D0) * (1 + ε1)) (he1 : |ε1| ≤ (2 : ℚ) ^ (-53 : Int))
    (hm : m = (D1 - D0) * (1 + ε2)) (he2 : |ε2| ≤ (2 : ℚ) ^ (-53 : Int))
    (hq : |q - n / m| ≤ (2 : ℚ) ^ (-53 : Int) * |n / m| + (2 : ℚ) ^ (-1075 : Int))
    (hwf : |wf - q| ≤ (2 : ℚ) ^ (-24 : Int) * |q| + (2 : ℚ) ^ (-150 : Int)) :
    (0 ≤ (D - D0) / (D1 - D0) ∧ (D - D0) / (D1 - D0) ≤ 1) ∧
    |wf - (D - D0) / (D1 - D0)| ≤ (2 : ℚ) ^ (-24 : Int) + (2 : ℚ) ^ (-50 : Int) := by
  have hpos : 0 < D1 - D0 := by linarith
  have hw0 : 0 ≤ (D - D0) / (D1 - D0) := div_nonneg (by linarith) hpos.le
  have hw1 : (D - D0) / (D1 - D0) ≤ 1 := by rw [div_le_one hpos]; linarith
  refine ⟨⟨hw0, hw1⟩, ?_⟩
  have hu : 1000000 * (2 : ℚ) ^ (-53 : Int) ≤ 1 := by norm_num
  have hu0 : (0 : ℚ) < (2 : ℚ) ^ (-53 : Int) := two_zpow_pos _
  obtain ⟨a1, a2⟩ := abs_le.mp he1
  obtain ⟨b1, b2⟩ := abs_le.mp he2
  have hε2 : (1 + ε2) ≠ 0 := ne_of_gt (by linarith)
  have hr : n / m * (1 + ε2) = (D - D0) / (D1 - D0) * (1 + ε1) := by
    rw [hn, hm]; field_simp
  generalize (D - D0) / (D1 - D0) = w at *
  generalize n / m = r at *
  -- the quotient of the two rounded differences
  have hrw : |r - w| ≤ 3 * (2 : ℚ) ^ (-53 : Int) := by
    have e : (r - w) * (1 + ε2) = w * (ε1 - ε2) := by rw [sub_mul, hr]; ring
    have h2 : |r - w| * (1 + ε2) ≤ 2 * (2 : ℚ) ^ (-53 : Int) := by
      have : |r - w| * (1 + ε2) = |(r - w) * (1 + ε2)| := by
        rw [abs_mul, abs_of_pos (by linarith : (0 : ℚ) < 1 + ε2)]
      rw [this, e, abs_mul, abs_of_nonneg hw0]
      have : |ε1 - ε2| ≤ 2 * (2 : ℚ) ^ (-53 : Int) := by
        rw [abs_le]; constructor <;> linarith
      calc w * |ε1 - ε2| ≤ 1 * (2 * (2 : ℚ) ^ (-53 : Int)) := mul_le_mul hw1 this (abs_nonneg _) (by norm_num)
        _ = _ := one_mul _
    have h3 : |r - w| * (3 / 4) ≤ |r - w| * (1 + ε2) := mul_le_mul_of_nonneg_left (by linarith) (abs_nonneg _)
    linarith
  have hrabs : |r| ≤ 2 := by
    have : |r| ≤ |w| + |r - w| := by
      have := abs_add_le w (r - w); rwa [add_sub_cancel] at this
    rw [abs_of_nonneg hw0] at this; linarith
  have hqw : |q - w| ≤ 5 * (2 : ℚ) ^ (-53 : Int) + (2 : ℚ) ^ (-1075 : Int) := by
    have t : |q - w| ≤ |q - r| + |r - w| := abs_sub_le _ _ _
    have t2 : (2 : ℚ) ^ (-53 : Int) * |r| ≤ (2 : ℚ) ^ (-53 : Int) * 2 := mul_le_mul_of_nonneg_left hrabs hu0.le
    linarith
  have g1 : (2 : ℚ) ^ (-1075 : Int) ≤ (2 : ℚ) ^ (-53 : Int) := zpow_le_zpow_right₀ (by norm_num) (by norm_num)
  have g2 : (2 : ℚ) ^ (-1075 : Int) ≤ (2 : ℚ) ^ (-150 : Int) := zpow_le_zpow_right₀ (by norm_num) (by norm_num)
  have hqabs : |q| ≤ 1 + 6 * (2 : ℚ) ^ (-53 : Int) := by
    have : |q| ≤ |w| + |q - w| := by
      have := abs_add_le w (q - w); rwa [add_sub_cancel] at this
    rw [abs_of_nonneg hw0] at this; linarith
  have t : |wf - w| ≤ |wf - q| + |q - w| := abs_sub_le _ _ _
  have t2 : (2 : ℚ) ^ (-24 : Int) * |q| ≤ (2 : ℚ) ^ (-24 : Int) * (1 + 6 * (2 : ℚ) ^ (-53 : Int)) :=
    mul_le_mul_of_nonneg_left hqabs (two_zpow_pos _).le
  have c : (2 : ℚ) ^ (-24 : Int) * (1 + 6 * (2 : ℚ) ^ (-53 : Int)) + (2 : ℚ) ^ (-150 : Int) +
      (5 * (2 : ℚ) ^ (-53 : Int) + (2 : ℚ) ^ (-150 : Int)) ≤ (2 : ℚ) ^ (-24 : Int) + (2 : ℚ) ^ (-50 : Int) := by
    norm_num
  linarith

/-- **one coordinate**, three more roundings in `f32`: `dx = fl(x1 − x0)`, `pv = fl(dx · wf)` (absolute underflow unit `η`),
`e = fl(x0 + pv)`, for a weight `wf` within `κ` of an exact `w ∈ [0, 1]`, `|x0|, |x1| ≤ A`, unit roundoff `v`. -/
theorem interp_chain (x0 x1 w wf dx pv e δ1 δ3 A κ v η : ℚ)
    (hv0 : 0 ≤ v) (hκ : 0 ≤ κ)
    (hw0 : 0 ≤ w) (hw1 : w ≤ 1) (hwf : |wf - w| ≤ κ)
    (hdx : dx = (x1 - x0) * (1 + δ1)) (h1 : |δ1| ≤ v)
    (hpv : |pv - dx * wf| ≤ v * |dx * wf| + η)
    (he : e = (x0 + pv) * (1 + δ3)) (h3 : |δ3| ≤ v)
    (hA0 : |x0| ≤ A) (hA1 : |x1| ≤ A) :
    |e - (x0 + w * (x1 - x0))| ≤
      v * A + (1 + v) * (2 * A * ((1 + v) * κ + v + v * (1 + v) * (1 + κ)) + η) := by
  have hA : 0 ≤ A := le_trans (abs_nonneg _) hA0
  have hG : |x1 - x0| ≤ 2 * A := by have := abs_sub x1 x0; linarith
  have hG0 : 0 ≤ |x1 - x0| := abs_nonneg _
  have hd1 : |1 + δ1| ≤ 1 + v := by
    have := abs_add_le 1 δ1; rw [abs_one] at this; linarith
  -- k1
  have k1 : |dx * wf - (x1 - x0) * w| ≤ |x1 - x0| * ((1 + v) * κ + v) := by
    have e1 : dx * wf - (x1 - x0) * w = (x1 - x0) * ((1 + δ1) * (wf - w) + δ1 * w) := by rw [hdx]; ring
    rw [e1, abs_mul]
    refine mul_le_mul_of_nonneg_left ?_ hG0
    have t1 : |(1 + δ1) * (wf - w)| ≤ (1 + v) * κ := by
      rw [abs_mul]; exact mul_le_mul hd1 hwf (abs_nonneg _) (by linarith)
    have t2 : |δ1 * w| ≤ v := by
      rw [abs_mul, abs_of_nonneg hw0]
      calc |δ1| * w ≤ v * 1 := mul_le_mul h1 hw1 hw0 hv0
        _ = v := mul_one _
    linarith [abs_add_le ((1 + δ1) * (wf - w)) (δ1 * w)]
  -- k2
  have hwfabs : |wf| ≤ 1 + κ := by
    have : |wf| ≤ |w| + |wf - w| := by
      have := abs_add_le w (wf - w); rwa [add_sub_cancel] at this
    rw [abs_of_nonneg hw0] at this; linarith
  have k2 : |dx * wf| ≤ |x1 - x0| * ((1 + v) * (1 + κ)) := by
    rw [hdx, abs_mul, abs_mul, mul_assoc]
    exact mul_le_mul_of_nonneg_left (mul_le_mul hd1 hwfabs (abs_nonneg _) (by linarith)) hG0
  -- k3
  have hK0 : 0 ≤ (1 + v) * κ + v + v * (1 + v) * (1 + κ) := by positivity
  have k3 : |pv - (x1 - x0) * w| ≤ 2 * A * ((1 + v) * κ + v + v * (1 + v) * (1 + κ)) + η := by
    have t : |pv - (x1 - x0) * w| ≤ |pv - dx * wf| + |dx * wf - (x1 - x0) * w| := abs_sub_le _ _ _
    have t2 : v * |dx * wf| ≤ v * (|x1 - x0| * ((1 + v) * (1 + κ))) := mul_le_mul_of_nonneg_left k2 hv0
    have t3 : |x1 - x0| * ((1 + v) * κ + v + v * (1 + v) * (1 + κ)) ≤
        2 * A * ((1 + v) * κ + v + v * (1 + v) * (1 + κ)) := mul_le_mul_of_nonneg_right hG hK0
    have e3 : |x1 - x0| * ((1 + v) * κ + v + v * (1 + v) * (1 + κ)) =
        v * (|x1 - x0| * ((1 + v) * (1 + κ))) + |x1 - x0| * ((1 + v) * κ + v) := by ring
    linarith
  -- k4: the exact point is a convex combination
  have k4 : |x0 + (x1 - x0) * w| ≤ A := by
    have e4 : x0 + (x1 - x0) * w = (1 - w) * x0 + w * x1 := by ring
    rw [e4]
    have t1 : |(1 - w) * x0| ≤ (1 - w) * A := by
      rw [abs_mul, abs_of_nonneg (by linarith : (0 : ℚ) ≤ 1 - w)]
      exact mul_le_mul_of_nonneg_left hA0 (by linarith)
    have t2 : |w * x1| ≤ w * A := by
      rw [abs_mul, abs_of_nonneg hw0]; exact mul_le_mul_of_nonneg_left hA1 hw0
    have := abs_add_le ((1 - w) * x0) (w * x1)
    nlinarith
  generalize 2 * A * ((1 + v) * κ + v + v * (1 + v) * (1 + κ)) + η = Ev at *
  have k5 : |x0 + pv| ≤ A + Ev := by
    have e5 : x0 + pv = (x0 + (x1 - x0) * w) + (pv - (x1 - x0) * w) := by ring
    rw [e5]; linarith [abs_add_le (x0 + (x1 - x0) * w) (pv - (x1 - x0) * w)]
  have e6 : e - (x0 + w * (x1 - x0)) = (x0 + pv) * δ3 + (pv - (x1 - x0) * w) := by rw [he]; ring
  have t6 : |(x0 + pv) * δ3| ≤ (A + Ev) * v := by
    rw [abs_mul]; exact mul_le_mul k5 h3 (abs_nonneg _) (le_trans (abs_nonneg _) k5)
  rw [e6]
  have := abs_add_le ((x0 + pv) * δ3) (pv - (x1 - x0) * w)
  nlinarith

/-! ### one coordinate, `f32` / `f64` -/

/-- one coordinate of `p0 + (p1 − p0) * (w as f32)`, `w = (d − d0) / (d1 − d0)` in `f64`, exactly as the code associates it. -/
def coordInterp (x0 x1 : Float32) (d d0 d1 : Float) : Float32 :=
  x0 + (x1 - x0) * (Cvt.down ((d - d0) / (d1 - d0)) : Float32)

/-- the bound of the interpolation: `7 · 2⁻²⁴ · 2¹⁹ + 2⁻²⁰ = 7/32 + 2⁻²⁰` px. -/
def interpBound : ℚ := 7 * (2 : ℚ) ^ (-24 : Int) * 524288 + (2 : ℚ) ^ (-20 : Int)

theorem interpBound_lt : interpBound < 0.21876 := by unfold interpBound; norm_num

theorem interpBound_lt_quarter : interpBound < 1 / 4 := by unfold interpBound; norm_num

/-- **the rounding error of one coordinate of `interpolate_vertices`** (seven roundings: `d ⊖ d0`, `d1 ⊖ d0`, `⊘` in `f64`,
`as f32`, `x1 ⊖ x0`, `⊗`, `⊕` in `f32`). Hypotheses: the result, the `f64` weight and the `f64` denominator are finite (no
overflow; every other intermediate is then finite), `d0 ≤ d ≤ d1` in the IEEE order, coordinates bounded by `2¹⁹`.
Then `d0 < d1` on values, the exact weight `w = (d − d0)/(d1 − d0)` of the stored doubles lies in `[0, 1]`, and the computed
coordinate is within `interpBound` of `x0 + w (x1 − x0)`. -/
theorem interp_coord_err_float32 (x0 x1 : Float32) (d d0 d1 : Float)
    (hfin : (coordInterp x0 x1 d d0 d1).isFinite = true)
    (hw : ((d - d0) / (d1 - d0)).isFinite = true) (hm : (d1 - d0).isFinite = true)
    (h0 : Scalar.le d0 d = true) (h1 : Scalar.le d d1 = true)
    (hx0 : |toRat32 x0| ≤ 524288) (hx1 : |toRat32 x1| ≤ 524288) :
    toRat d0 < toRat d1 ∧
    (0 ≤ (toRat d - toRat d0) / (toRat d1 - toRat d0) ∧ (toRat d - toRat d0) / (toRat d1 - toRat d0) ≤ 1) ∧
    |toRat32 (coordInterp x0 x1 d d0 d1) -
      (toRat32 x0 + (toRat d - toRat d0) / (toRat d1 - toRat d0) * (toRat32 x1 - toRat32 x0))| ≤ interpBound := by
  unfold coordInterp at hfin ⊢
  obtain ⟨fx0, fpv⟩ := finite_of_add_finite32 _ _ hfin
  obtain ⟨fdx, fwf⟩ := finite_of_mul_finite32 _ _ fpv
  obtain ⟨fx1, _⟩ := finite_of_sub_finite32 _ _ fdx
  have fn := finite_of_div_finite _ _ hw
  obtain ⟨fd, fd0⟩ := finite_of_sub_finite _ _ fn
  obtain ⟨fd1, _⟩ := finite_of_sub_finite _ _ hm
  obtain ⟨ε1, he1, hn⟩ := sub_err_float d d0 fd fd0 fn
  obtain ⟨ε2, he2, hmm⟩ := sub_err_float d1 d0 fd1 fd0 hm
  have hq := (div_rnd_float _ _ fn hm hw).abs_add
  have hwf := (down_rnd _ hw fwf).abs_add
  obtain ⟨δ1, hd1, hdx⟩ := sub_err_float32 x1 x0 fx1 fx0 fdx
  have hpv := mul_err_abs_float32 _ _ fdx fwf fpv
  obtain ⟨δ3, hd3, he⟩ := add_err_float32 _ _ fx0 fpv hfin
  have hne := div_finite_divisor_ne_zero _ _ fn hm hw
  have l0 := toRat_le_of_le _ _ fd0 fd h0
  have l1 := toRat_le_of_le _ _ fd fd1 h1
  have l01 : toRat d0 < toRat d1 := by
    refine lt_of_le_of_ne (le_trans l0 l1) (fun h => hne ?_)
    rw [hmm, h, sub_self, zero_mul]
  obtain ⟨⟨hw0, hw1⟩, hκ⟩ := weight_chain _ _ _ _ _ _ _ ε1 ε2 l0 l1 l01 hn he1 hmm he2 hq hwf
  refine ⟨l01, ⟨hw0, hw1⟩, ?_⟩
  have := interp_chain _ _ _ _ _ _ _ δ1 δ3 524288 _ _ _ (two_zpow_pos (-24 : Int)).le
    (by positivity) hw0 hw1 hκ hdx hd1 hpv he hd3 hx0 hx1
  refine le_trans this ?_
  unfold interpBound
  norm_num

/-! ### the position -/

theorem interp_x (p0 p1 : Pos Float32) (d d0 d1 : Float) :
    (p0 + (p1 - p0).smul (Cvt.down ((d - d0) / (d1 - d0)))).x = coordInterp p0.x p1.x d d0 d1 := rfl

theorem interp_y (p0 p1 : Pos Float32) (d d0 d1 : Float) :
    (p0 + (p1 - p0).smul (Cvt.down ((d - d0) / (d1 - d0)))).y = coordInterp p0.y p1.y d d0 d1 := rfl

/-- the position `interpolate_vertices` computes inside segment `i` (`interpolate_formula`, Props/C19.lean). -/
def interpPos (p0 p1 : Pos Float32) (d d0 d1 : Float) : Pos Float32 :=
  p0 + (p1 - p0).smul (Cvt.down ((d - d0) / (d1 - d0)))

/-- **C19 on IEEE floats: the rounding error of `interpolate_vertices`.** Segment `i ≥ 1` of a curve with end points
`p0 = path[i−1]`, `p1 = path[i]` bounded by `2¹⁹` and cumulative lengths `d0 = lengths[i−1]`, `d1 = lengths[i]` more than
`EPSILON` apart; `d0 ≤ d ≤ d1` (IEEE order: what `idx_of_dist` establishes); no overflow (`d1 ⊖ d0`, the `f64` weight and
the result coordinates are finite). Then `interpolate_vertices path lengths i d` is a position `p` with, per coordinate,
`|p.x − (x0 + w (x1 − x0))| ≤ interpBound = 7/32 + 2⁻²⁰` (`< 0.21876` px) for the SAME exact weight
`w = (d − d0)/(d1 − d0) ∈ [0, 1]` (a rational function of the stored doubles). -/
theorem interpolate_err_float32 (path : List (Pos Float32)) (lengths : List Float) (i : Nat) (d : Float)
    (p0 p1 : Pos Float32) (d0 d1 : Float)
    (hi : i ≠ 0) (hp1 : path[i]? = some p1) (hp0 : path[i - 1]? = some p0)
    (hd0 : lengths[i - 1]? = some d0) (hd1 : lengths[i]? = some d1)
    (hdeg : Scalar.le (Scalar.abs (d0 - d1)) (Scalar.eps : Float) = false)
    (hfx : (interpPos p0 p1 d d0 d1).x.isFinite = true) (hfy : (interpPos p0 p1 d d0 d1).y.isFinite = true)
    (hw : ((d - d0) / (d1 - d0)).isFinite = true) (hm : (d1 - d0).isFinite = true)
    (h0 : Scalar.le d0 d = true) (h1 : Scalar.le d d1 = true)
    (hb0 : C16.Bounded19 p0) (hb1 : C16.Bounded19 p1) :
    interpolateVertices path lengths i d = .ok (interpPos p0 p1 d d0 d1) ∧
    (0 ≤ (toRat d - toRat d0) / (toRat d1 - toRat d0) ∧ (toRat d - toRat d0) / (toRat d1 - toRat d0) ≤ 1) ∧
    |toRat32 (interpPos p0 p1 d d0 d1).x -
      (toRat32 p0.x + (toRat d - toRat d0) / (toRat d1 - toRat d0) * (toRat32 p1.x - toRat32 p0.x))| ≤ interpBound ∧
    |toRat32 (interpPos p0 p1 d d0 d1).y -
      (toRat32 p0.y + (toRat d - toRat d0) / (toRat d1 - toRat d0) * (toRat32 p1.y - toRat32 p0.y))| ≤ interpBound := by
  refine ⟨interpolate_formula path lengths i d p0 p1 d0 d1 hi hp1 hp0 hd0 hd1 hdeg, ?_⟩
  unfold interpPos at hfx hfy ⊢
  rw [interp_x] at hfx ⊢
  rw [interp_y] at hfy ⊢
  obtain ⟨_, hr, hx⟩ := interp_coord_err_float32 _ _ d d0 d1 hfx hw hm h0 h1 hb0.1 hb1.1
  obtain ⟨_, _, hy⟩ := interp_coord_err_float32 _ _ d d0 d1 hfy hw hm h0 h1 hb0.2 hb1.2
  exact ⟨hr, hx, hy⟩

/-- **the interpolated position is within `1/4` px, per coordinate, of a point of the segment `[p0, p1]`** (so within
`√2/4 < 0.36` px of the segment): same hypotheses as `interpolate_err_float32`. -/
theorem interpolate_on_segment_float32 (path : List (Pos Float32)) (lengths : List Float) (i : Nat) (d : Float)
    (p0 p1 : Pos Float32) (d0 d1 : Float)
    (hi : i ≠ 0) (hp1 : path[i]? = some p1) (hp0 : path[i - 1]? = some p0)
    (hd0 : lengths[i - 1]? = some d0) (hd1 : lengths[i]? = some d1)
    (hdeg : Scalar.le (Scalar.abs (d0 - d1)) (Scalar.eps : Float) = false)
    (hfx : (interpPos p0 p1 d d0 d1).x.isFinite = true) (hfy : (interpPos p0 p1 d d0 d1).y.isFinite = true)
    (hw : ((d - d0) / (d1 - d0)).isFinite = true) (hm : (d1 - d0).isFinite = true)
    (h0 : Scalar.le d0 d = true) (h1 : Scalar.le d d1 = true)
    (hb0 : C16.Bounded19 p0) (hb1 : C16.Bounded19 p1) :
    ∃ (p : Pos Float32) (w : ℚ), interpolateVertices path lengths i d = .ok p ∧ 0 ≤ w ∧ w ≤ 1 ∧
      |toRat32 p.x - (toRat32 p0.x + w * (toRat32 p1.x - toRat32 p0.x))| < 1 / 4 ∧
      |toRat32 p.y - (toRat32 p0.y + w * (toRat32 p1.y - toRat32 p0.y))| < 1 / 4 := by
  obtain ⟨he, ⟨hw0, hw1⟩, hx, hy⟩ := interpolate_err_float32 path lengths i d p0 p1 d0 d1 hi hp1 hp0 hd0 hd1 hdeg
    hfx hfy hw hm h0 h1 hb0 hb1
  exact ⟨_, _, he, hw0, hw1, lt_of_le_of_lt hx interpBound_lt_quarter, lt_of_le_of_lt hy interpBound_lt_quarter⟩

/-! ## (4) the arc-length clause inside one segment -/

/-- one coordinate: two distances `d`, `d'` in the same segment. -/
theorem lipschitz_coord_float32 (x0 x1 : Float32) (d d' d0 d1 : Float)
    (hfin : (coordInterp x0 x1 d d0 d1).isFinite = true) (hfin' : (coordInterp x0 x1 d' d0 d1).isFinite = true)
    (hw : ((d - d0) / (d1 - d0)).isFinite = true) (hw' : ((d' - d0) / (d1 - d0)).isFinite = true)
    (hm : (d1 - d0).isFinite = true)
    (h0 : Scalar.le d0 d = true) (h1 : Scalar.le d d1 = true)
    (h0' : Scalar.le d0 d' = true) (h1' : Scalar.le d' d1 = true)
    (hx0 : |toRat32 x0| ≤ 524288) (hx1 : |toRat32 x1| ≤ 524288) :
    toRat d0 < toRat d1 ∧
    |toRat32 (coordInterp x0 x1 d d0 d1) - toRat32 (coordInterp x0 x1 d' d0 d1)| ≤
      |toRat d - toRat d'| / (toRat d1 - toRat d0) * |toRat32 x1 - toRat32 x0| + 2 * interpBound := by
  obtain ⟨l01, _, ha⟩ := interp_coord_err_float32 x0 x1 d d0 d1 hfin hw hm h0 h1 hx0 hx1
  obtain ⟨_, _, hb⟩ := interp_coord_err_float32 x0 x1 d' d0 d1 hfin' hw' hm h0' h1' hx0 hx1
  refine ⟨l01, ?_⟩
  have hpos : 0 < toRat d1 - toRat d0 := by linarith
  have e : (toRat32 x0 + (toRat d - toRat d0) / (toRat d1 - toRat d0) * (toRat32 x1 - toRat32 x0)) -
      (toRat32 x0 + (toRat d' - toRat d0) / (toRat d1 - toRat d0) * (toRat32 x1 - toRat32 x0)) =
      (toRat d - toRat d') / (toRat d1 - toRat d0) * (toRat32 x1 - toRat32 x0) := by
    field_simp; ring
  have e2 : |(toRat d - toRat d') / (toRat d1 - toRat d0) * (toRat32 x1 - toRat32 x0)| =
      |toRat d - toRat d'| / (toRat d1 - toRat d0) * |toRat32 x1 - toRat32 x0| := by
    rw [abs_mul, abs_div, abs_of_pos hpos]
  generalize toRat32 (coordInterp x0 x1 d d0 d1) = e1 at *
  generalize toRat32 (coordInterp x0 x1 d' d0 d1) = e1' at *
  generalize (toRat32 x0 + (toRat d - toRat d0) / (toRat d1 - toRat d0) * (toRat32 x1 - toRat32 x0)) = X at *
  generalize (toRat32 x0 + (toRat d' - toRat d0) / (toRat d1 - toRat d0) * (toRat32 x1 - toRat32 x0)) = X' at *
  rw [← e2, ← e]
  have t : e1 - e1' = (e1 - X) + (X - X') + (X' - e1') := by ring
  rw [t]
  have t1 := abs_add_le ((e1 - X) + (X - X')) (X' - e1')
  have t2 := abs_add_le (e1 - X) (X - X')
  have t3 : |X' - e1'| = |e1' - X'| := abs_sub_comm _ _
  linarith

/-- **C19 on IEEE floats, the arc-length clause inside ONE segment**: for two distances `d`, `d'` with
`d0 ≤ d, d' ≤ d1` (IEEE order) in the same segment `[p0, p1]` (bounded by `2¹⁹`, no overflow), the two positions
`interpolate_vertices` computes differ, per coordinate, by at most `|w − w'|·|x1 − x0| + 2·interpBound`, where
`w − w' = (d − d')/(d1 − d0)` is the exact difference of the weights: the exact-arithmetic Lipschitz bound plus the additive
rounding slack `2·interpBound = 7/16 + 2⁻¹⁹ < 0.4376` px (independent of `|d − d'|`: it does not vanish for `d' → d`;
two different doubles `d ≠ d'` may well give positions that differ although `|d − d'|` is far below an ulp of the
coordinates, and the bound is what is left of "the position never moves farther than the arc length"). -/
theorem position_lipschitz_segment_float32 (p0 p1 : Pos Float32) (d d' d0 d1 : Float)
    (hfx : (interpPos p0 p1 d d0 d1).x.isFinite = true) (hfy : (interpPos p0 p1 d d0 d1).y.isFinite = true)
    (hfx' : (interpPos p0 p1 d' d0 d1).x.isFinite = true) (hfy' : (interpPos p0 p1 d' d0 d1).y.isFinite = true)
    (hw : ((d - d0) / (d1 - d0)).isFinite = true) (hw' : ((d' - d0) / (d1 - d0)).isFinite = true)
    (hm : (d1 - d0).isFinite = true)
    (h0 : Scalar.le d0 d = true) (h1 : Scalar.le d d1 = true)
    (h0' : Scalar.le d0 d' = true) (h1' : Scalar.le d' d1 = true)
    (hb0 : C16.Bounded19 p0) (hb1 : C16.Bounded19 p1) :
    |toRat32 (interpPos p0 p1 d d0 d1).x - toRat32 (interpPos p0 p1 d' d0 d1).x| ≤
      |toRat d - toRat d'| / (toRat d1 - toRat d0) * |toRat32 p1.x - toRat32 p0.x| + 2 * interpBound ∧
    |toRat32 (interpPos p0 p1 d d0 d1).y - toRat32 (interpPos p0 p1 d' d0 d1).y| ≤
      |toRat d - toRat d'| / (toRat d1 - toRat d0) * |toRat32 p1.y - toRat32 p0.y| + 2 * interpBound := by
  unfold interpPos at *
  rw [interp_x] at hfx hfx' ⊢
  rw [interp_y] at hfy hfy' ⊢
  rw [interp_x]; rw [interp_y]
  exact ⟨(lipschitz_coord_float32 _ _ d d' d0 d1 hfx hfx' hw hw' hm h0 h1 h0' h1' hb0.1 hb1.1).2,
    (lipschitz_coord_float32 _ _ d d' d0 d1 hfy hfy' hw hw' hm h0 h1 h0' h1' hb0.2 hb1.2).2⟩

/-- **in arc-length form**: if the chord of the segment is at most `(1 + κ)` times its booked length in each coordinate
(`|x1 − x0|, |y1 − y0| ≤ (d1 − d0)(1 + κ)`: `κ ≈ 2⁻²¹` for the natural lengths, see `segment_length_err_float32` and
`natural_length_err_float`; exact arithmetic has `κ = 0`, `C19.ChordBound`), the two positions differ per coordinate by at
most `|d − d'| (1 + κ) + 2·interpBound` — the distance travelled along the curve, up to the relative slack `κ` of the booking
and the additive slack of the interpolation. -/
theorem position_arc_segment_float32 (p0 p1 : Pos Float32) (d d' d0 d1 : Float) (κ : ℚ)
    (hfx : (interpPos p0 p1 d d0 d1).x.isFinite = true) (hfy : (interpPos p0 p1 d d0 d1).y.isFinite = true)
    (hfx' : (interpPos p0 p1 d' d0 d1).x.isFinite = true) (hfy' : (interpPos p0 p1 d' d0 d1).y.isFinite = true)
    (hw : ((d - d0) / (d1 - d0)).isFinite = true) (hw' : ((d' - d0) / (d1 - d0)).isFinite = true)
    (hm : (d1 - d0).isFinite = true)
    (h0 : Scalar.le d0 d = true) (h1 : Scalar.le d d1 = true)
    (h0' : Scalar.le d0 d' = true) (h1' : Scalar.le d' d1 = true)
    (hb0 : C16.Bounded19 p0) (hb1 : C16.Bounded19 p1)
    (hcx : |toRat32 p1.x - toRat32 p0.x| ≤ (toRat d1 - toRat d0) * (1 + κ))
    (hcy : |toRat32 p1.y - toRat32 p0.y| ≤ (toRat d1 - toRat d0) * (1 + κ)) :
    |toRat32 (interpPos p0 p1 d d0 d1).x - toRat32 (interpPos p0 p1 d' d0 d1).x| ≤
      |toRat d - toRat d'| * (1 + κ) + 2 * interpBound ∧
    |toRat32 (interpPos p0 p1 d d0 d1).y - toRat32 (interpPos p0 p1 d' d0 d1).y| ≤
      |toRat d - toRat d'| * (1 + κ) + 2 * interpBound := by
  obtain ⟨hx, hy⟩ := position_lipschitz_segment_float32 p0 p1 d d' d0 d1 hfx hfy hfx' hfy' hw hw' hm h0 h1 h0' h1' hb0 hb1
  have l01 : toRat d0 < toRat d1 := by
    unfold interpPos at hfx; rw [interp_x] at hfx
    exact (interp_coord_err_float32 _ _ d d0 d1 hfx hw hm h0 h1 hb0.1 hb1.1).1
  have hpos : 0 < toRat d1 - toRat d0 := by linarith
  have key : ∀ c : ℚ, c ≤ (toRat d1 - toRat d0) * (1 + κ) → 0 ≤ c →
      |toRat d - toRat d'| / (toRat d1 - toRat d0) * c ≤ |toRat d - toRat d'| * (1 + κ) := by
    intro c hc _
    have h := mul_le_mul_of_nonneg_left hc (div_nonneg (abs_nonneg (toRat d - toRat d')) hpos.le)
    have e : |toRat d - toRat d'| / (toRat d1 - toRat d0) * ((toRat d1 - toRat d0) * (1 + κ)) =
        |toRat d - toRat d'| * (1 + κ) := by field_simp
    rw [e] at h; exact h
  exact ⟨le_trans hx (by linarith [key _ hcx (abs_nonneg _)]), le_trans hy (by linarith [key _ hcy (abs_nonneg _)])⟩

/-! ## (1) one booked segment length -/

theorem not_nan_of_finite32 (x : Float32) (h : x.isFinite = true) : Scalar.isNaN x = false := by
  have h' : x.toModel.unpack.isFinite = true := h
  show x.toModel.unpack.isNaN = false
  cases hx : x.toModel.unpack <;> rw [hx] at h' <;> first | rfl | cases h'

/-- **the `f32` sum of squares**, five roundings over ℚ (`u = 2⁻²⁴`, underflow unit `2⁻¹⁵⁰` for the two squares):
`dx = fl(X)`, `dy = fl(Y)`, `sx = fl(dx²)`, `sy = fl(dy²)`, `s = fl(sx + sy)`. For `E = X² + Y² ≥ 2⁻¹⁰⁰`:
`E (1 − 5u) ≤ s ≤ E (1 + 5u)` (`(1 + u)⁴` and the underflow of the smaller square). -/
theorem sumsq_chain (X Y dx dy sx sy s δ1 δ2 δ3 : ℚ)
    (hdx : dx = X * (1 + δ1)) (h1 : |δ1| ≤ (2 : ℚ) ^ (-24 : Int))
    (hdy : dy = Y * (1 + δ2)) (h2 : |δ2| ≤ (2 : ℚ) ^ (-24 : Int))
    (hsx : |sx - dx * dx| ≤ (2 : ℚ) ^ (-24 : Int) * |dx * dx| + (2 : ℚ) ^ (-150 : Int))
    (hsy : |sy - dy * dy| ≤ (2 : ℚ) ^ (-24 : Int) * |dy * dy| + (2 : ℚ) ^ (-150 : Int))
    (hs : s = (sx + sy) * (1 + δ3)) (h3 : |δ3| ≤ (2 : ℚ) ^ (-24 : Int))
    (hE : (2 : ℚ) ^ (-100 : Int) ≤ X * X + Y * Y) :
    (X * X + Y * Y) * (1 - 5 * (2 : ℚ) ^ (-24 : Int)) ≤ s ∧ s ≤ (X * X + Y * Y) * (1 + 5 * (2 : ℚ) ^ (-24 : Int)) := by
  have hu0 : (0 : ℚ) < (2 : ℚ) ^ (-24 : Int) := two_zpow_pos _
  have hu1 : 1000000 * (2 : ℚ) ^ (-24 : Int) ≤ 1 := by norm_num
  have hηE : 4 * (2 : ℚ) ^ (-150 : Int) ≤ (X * X + Y * Y) * ((2 : ℚ) ^ (-24 : Int) * (2 : ℚ) ^ (-24 : Int)) := by
    have : 4 * (2 : ℚ) ^ (-150 : Int) = (2 : ℚ) ^ (-100 : Int) * ((2 : ℚ) ^ (-24 : Int) * (2 : ℚ) ^ (-24 : Int)) := by norm_num
    rw [this]; exact mul_le_mul_of_nonneg_right hE (by positivity)
  have c1 : ((1 + (2 : ℚ) ^ (-24 : Int)) ^ 3 + (2 : ℚ) ^ (-24 : Int) * (2 : ℚ) ^ (-24 : Int) / 2) * (1 + (2 : ℚ) ^ (-24 : Int)) ≤
      1 + 5 * (2 : ℚ) ^ (-24 : Int) := by norm_num
  have c2 : 1 - 5 * (2 : ℚ) ^ (-24 : Int) ≤
      ((1 - (2 : ℚ) ^ (-24 : Int)) ^ 3 - (2 : ℚ) ^ (-24 : Int) * (2 : ℚ) ^ (-24 : Int) / 2) * (1 - (2 : ℚ) ^ (-24 : Int)) := by
    norm_num
  have c3 : 0 ≤ (1 - (2 : ℚ) ^ (-24 : Int)) ^ 3 - (2 : ℚ) ^ (-24 : Int) * (2 : ℚ) ^ (-24 : Int) / 2 := by norm_num
  have hη0 : (0 : ℚ) < (2 : ℚ) ^ (-150 : Int) := two_zpow_pos _
  generalize (2 : ℚ) ^ (-24 : Int) = u at *
  generalize (2 : ℚ) ^ (-150 : Int) = η at *
  have hu' : u ≤ 1 / 1000000 := by linarith
  -- one square
  have sq : ∀ (Z dz sz δ : ℚ), dz = Z * (1 + δ) → |δ| ≤ u → |sz - dz * dz| ≤ u * |dz * dz| + η →
      Z * Z * (1 - u) ^ 3 - η ≤ sz ∧ sz ≤ Z * Z * (1 + u) ^ 3 + η := by
    intro Z dz sz δ hdz hδ hsz
    obtain ⟨d1, d2⟩ := abs_le.mp hδ
    have hZ : 0 ≤ Z * Z := mul_self_nonneg Z
    have e : dz * dz = Z * Z * (1 + δ) ^ 2 := by rw [hdz]; ring
    have p1 : (1 + δ) ^ 2 ≤ (1 + u) ^ 2 := pow_le_pow_left₀ (by linarith) (by linarith) 2
    have p2 : (1 - u) ^ 2 ≤ (1 + δ) ^ 2 := pow_le_pow_left₀ (by linarith) (by linarith) 2
    have q1 : dz * dz ≤ Z * Z * (1 + u) ^ 2 := by rw [e]; exact mul_le_mul_of_nonneg_left p1 hZ
    have q2 : Z * Z * (1 - u) ^ 2 ≤ dz * dz := by rw [e]; exact mul_le_mul_of_nonneg_left p2 hZ
    rw [abs_mul_self] at hsz
    obtain ⟨r1, r2⟩ := abs_le.mp hsz
    have m1 : dz * dz * (1 + u) ≤ Z * Z * (1 + u) ^ 2 * (1 + u) := mul_le_mul_of_nonneg_right q1 (by linarith)
    have m2 : Z * Z * (1 - u) ^ 2 * (1 - u) ≤ dz * dz * (1 - u) := mul_le_mul_of_nonneg_right q2 (by linarith)
    constructor
    · have : Z * Z * (1 - u) ^ 3 = Z * Z * (1 - u) ^ 2 * (1 - u) := by ring
      rw [this]; linarith
    · have : Z * Z * (1 + u) ^ 3 = Z * Z * (1 + u) ^ 2 * (1 + u) := by ring
      rw [this]; linarith
  obtain ⟨x1, x2⟩ := sq X dx sx δ1 hdx h1 hsx
  obtain ⟨y1, y2⟩ := sq Y dy sy δ2 hdy h2 hsy
  have hE0 : 0 ≤ X * X + Y * Y := add_nonneg (mul_self_nonneg X) (mul_self_nonneg Y)
  generalize X * X = A at *
  generalize Y * Y = B at *
  obtain ⟨d1, d2⟩ := abs_le.mp h3
  have S1 : (A + B) * ((1 - u) ^ 3 - u * u / 2) ≤ sx + sy := by
    have : (A + B) * ((1 - u) ^ 3 - u * u / 2) = A * (1 - u) ^ 3 + B * (1 - u) ^ 3 - (A + B) * (u * u) / 2 := by ring
    rw [this]; linarith
  have S2 : sx + sy ≤ (A + B) * ((1 + u) ^ 3 + u * u / 2) := by
    have : (A + B) * ((1 + u) ^ 3 + u * u / 2) = A * (1 + u) ^ 3 + B * (1 + u) ^ 3 + (A + B) * (u * u) / 2 := by ring
    rw [this]; linarith
  have S0 : 0 ≤ sx + sy := le_trans (mul_nonneg hE0 c3) S1
  rw [hs]
  constructor
  · calc (A + B) * (1 - 5 * u) ≤ (A + B) * (((1 - u) ^ 3 - u * u / 2) * (1 - u)) := mul_le_mul_of_nonneg_left c2 hE0
      _ = (A + B) * ((1 - u) ^ 3 - u * u / 2) * (1 - u) := by ring
      _ ≤ (sx + sy) * (1 - u) := mul_le_mul_of_nonneg_right S1 (by linarith)
      _ ≤ (sx + sy) * (1 + δ3) := mul_le_mul_of_nonneg_left (by linarith) S0
  · calc (sx + sy) * (1 + δ3) ≤ (sx + sy) * (1 + u) := mul_le_mul_of_nonneg_left (by linarith) S0
      _ ≤ (A + B) * ((1 + u) ^ 3 + u * u / 2) * (1 + u) := mul_le_mul_of_nonneg_right S2 (by linarith)
      _ = (A + B) * (((1 + u) ^ 3 + u * u / 2) * (1 + u)) := by ring
      _ ≤ (A + B) * (1 + 5 * u) := mul_le_mul_of_nonneg_left c1 hE0

/-- **C16 / C19 on IEEE floats: the length the code books for one segment.** `a`, `b` two `f32` points, `ell` the `f64`
`f64::from((b − a).length())` that `calculate_length` adds to its running sum; nine roundings: `⊖`, `⊖`, `⊗`, `⊗`, `⊕` in `f32`,
`f64::from` (exact), `sqrt` in `f64`, `as f32`, `f64::from` (exact). Hypotheses: no overflow (the `f32` sum of squares, the
`f64` root and the `f32` length are finite — automatic for points bounded by `2¹⁹`, whose sum of squares is below `2⁴¹`), and
the exact squared length `E = Δx² + Δy²` is at least `2⁻¹⁰⁰` (the segment is not shorter than `2⁻⁵⁰` px). Then
`toRat ell = ℓ ≥ 0` is the value of the `f32` length and `E (1 − 3·2⁻²²) ≤ ℓ² ≤ E (1 + 3·2⁻²²)`: the booked length is the
exact length up to a relative error `< 1.5·2⁻²² + 2⁻⁴⁰`. The subtraction is exact when both coordinates are integers
below `2²⁴` (or within a factor two of each other, Sterbenz) but nothing is gained in the constant: the two squarings, the
sum and the final `as f32` remain. The floor on `E` cannot be dropped: `segment_length_underflow_example`. -/
theorem segment_length_err_float32 (a b : Pos Float32)
    (hs : ((b - a).x * (b - a).x + (b - a).y * (b - a).y).isFinite = true)
    (hy : (Scalar.sqrt (Cvt.up ((b - a).x * (b - a).x + (b - a).y * (b - a).y) : Float) : Float).isFinite = true)
    (hl : (Pos.length Float (b - a)).isFinite = true)
    (hE : (2 : ℚ) ^ (-100 : Int) ≤ (toRat32 b.x - toRat32 a.x) ^ 2 + (toRat32 b.y - toRat32 a.y) ^ 2) :
    toRat (Cvt.up (Pos.length Float (b - a)) : Float) = toRat32 (Pos.length Float (b - a)) ∧
    0 ≤ toRat32 (Pos.length Float (b - a)) ∧
    ((toRat32 b.x - toRat32 a.x) ^ 2 + (toRat32 b.y - toRat32 a.y) ^ 2) * (1 - 3 * (2 : ℚ) ^ (-22 : Int)) ≤
      toRat32 (Pos.length Float (b - a)) ^ 2 ∧
    toRat32 (Pos.length Float (b - a)) ^ 2 ≤
      ((toRat32 b.x - toRat32 a.x) ^ 2 + (toRat32 b.y - toRat32 a.y) ^ 2) * (1 + 3 * (2 : ℚ) ^ (-22 : Int)) := by
  refine ⟨toRat_up _ hl, ?_⟩
  have ex : (b - a).x = b.x - a.x := rfl
  have ey : (b - a).y = b.y - a.y := rfl
  obtain ⟨fsx, fsy⟩ := finite_of_add_finite32 _ _ hs
  obtain ⟨fdx, _⟩ := finite_of_mul_finite32 _ _ fsx
  obtain ⟨fdy, _⟩ := finite_of_mul_finite32 _ _ fsy
  have fdx' : (b.x - a.x).isFinite = true := fdx
  have fdy' : (b.y - a.y).isFinite = true := fdy
  obtain ⟨fbx, fax⟩ := finite_of_sub_finite32 _ _ fdx'
  obtain ⟨fby, fay⟩ := finite_of_sub_finite32 _ _ fdy'
  obtain ⟨δ1, h1, hdx⟩ := sub_err_float32 b.x a.x fbx fax fdx'
  obtain ⟨δ2, h2, hdy⟩ := sub_err_float32 b.y a.y fby fay fdy'
  have hsx := mul_err_abs_float32 _ _ fdx fdx fsx
  have hsy := mul_err_abs_float32 _ _ fdy fdy fsy
  obtain ⟨δ3, h3, hs'⟩ := add_err_float32 _ _ fsx fsy hs
  rw [pow_two, pow_two] at hE ⊢
  rw [ex] at hsx; rw [ey] at hsy
  obtain ⟨lo, hi⟩ := sumsq_chain _ _ _ _ _ _ _ δ1 δ2 δ3 hdx h1 hdy h2 hsx hsy hs' h3 hE
  have hs0 : Scalar.le (0 : Float32) ((b - a).x * (b - a).x + (b - a).y * (b - a).y) = true :=
    C16.sumsq_nonneg (b - a) (not_nan_of_finite32 _ fdx) (not_nan_of_finite32 _ fdy)
  have hE0 : 0 ≤ (toRat32 b.x - toRat32 a.x) * (toRat32 b.x - toRat32 a.x) +
      (toRat32 b.y - toRat32 a.y) * (toRat32 b.y - toRat32 a.y) :=
    add_nonneg (mul_self_nonneg _) (mul_self_nonneg _)
  have hn : (2 : ℚ) ^ (-250 : Int) ≤ toRat32 ((b - a).x * (b - a).x + (b - a).y * (b - a).y) := by
    refine le_trans ?_ lo
    have c : (0 : ℚ) ≤ 1 - 5 * (2 : ℚ) ^ (-24 : Int) := by norm_num
    have c' : (2 : ℚ) ^ (-250 : Int) ≤ (2 : ℚ) ^ (-100 : Int) * (1 - 5 * (2 : ℚ) ^ (-24 : Int)) := by norm_num
    exact le_trans c' (mul_le_mul_of_nonneg_right hE c)
  obtain ⟨hl0, hlo, hhi⟩ := C16.sqrt_len_err _ hs hs0 hy hl hn
  rw [← C16.length_eq] at hl0 hlo hhi
  refine ⟨hl0, ?_, ?_⟩
  · have c : (1 - 3 * (2 : ℚ) ^ (-22 : Int)) * (1 + (2 : ℚ) ^ (-22 : Int)) ≤ 1 - 5 * (2 : ℚ) ^ (-24 : Int) := by norm_num
    have c0 : (0 : ℚ) < 1 + (2 : ℚ) ^ (-22 : Int) := by norm_num
    have := mul_le_mul_of_nonneg_left c hE0
    refine le_of_mul_le_mul_right ?_ c0
    calc _ = ((toRat32 b.x - toRat32 a.x) * (toRat32 b.x - toRat32 a.x) +
          (toRat32 b.y - toRat32 a.y) * (toRat32 b.y - toRat32 a.y)) *
          ((1 - 3 * (2 : ℚ) ^ (-22 : Int)) * (1 + (2 : ℚ) ^ (-22 : Int))) := by ring
      _ ≤ _ := this
      _ ≤ _ := lo
      _ ≤ _ := hhi
  · have c : 1 + 5 * (2 : ℚ) ^ (-24 : Int) ≤ (1 + 3 * (2 : ℚ) ^ (-22 : Int)) * (1 - (2 : ℚ) ^ (-22 : Int)) := by norm_num
    have c0 : (0 : ℚ) < 1 - (2 : ℚ) ^ (-22 : Int) := by norm_num
    have := mul_le_mul_of_nonneg_left c hE0
    refine le_of_mul_le_mul_right ?_ c0
    calc _ ≤ _ := hlo
      _ ≤ _ := hi
      _ ≤ _ := this
      _ = _ := by ring

/-! ## (2) the natural total length -/

/-- the `f32` segment lengths `(next − curr).length()` of a path (`C16.segLens` before `f64::from`). -/
def segLens32 : List (Pos Float32) → List Float32
  | [] => []
  | [_] => []
  | a :: b :: t => Pos.length Float (b - a) :: segLens32 (b :: t)

/-- the exact sum of the values of a list of `f32`s. -/
def sumQ (l : List Float32) : ℚ := (l.map toRat32).sum

theorem mem_segLens32 {ℓ : Float32} {path : List (Pos Float32)} (h : ℓ ∈ segLens32 path) :
    ∃ a b, a ∈ path ∧ b ∈ path ∧ ℓ = Pos.length Float (b - a) := by
  induction path with
  | nil => cases h
  | cons a t ih =>
    cases t with
    | nil => cases h
    | cons b t' =>
      have h' : ℓ ∈ Pos.length Float (b - a) :: segLens32 (b :: t') := h
      rcases List.mem_cons.mp h' with rfl | h''
      · exact ⟨a, b, by simp, by simp, rfl⟩
      · obtain ⟨a', b', ha', hb', hs⟩ := ih h''
        exact ⟨a', b', List.mem_cons_of_mem _ ha', List.mem_cons_of_mem _ hb', hs⟩

/-- a finite `f32` segment length has a non-negative value, and `f64::from` keeps it. -/
theorem seglen_nonneg (v : Pos Float32) (h : (Pos.length Float v).isFinite = true) :
    0 ≤ toRat32 (Pos.length Float v) := by
  have hf := up_finite _ h
  rw [← toRat_up _ h]
  rcases C16.len_nonneg_float v with h0 | hn
  · exact toRat_nonneg _ h0 hf
  · rw [not_nan_of_finite _ hf] at hn; cases hn

/-- one step of the running sum over ℚ: `P − 1` bounds the relative error so far, `P (1 + u) − 1` after one more rounded
addition of a non-negative term. -/
theorem runsum_step (T G S δ u P : ℚ) (hG : 0 ≤ G) (hS : 0 ≤ S) (hu : 0 ≤ u) (hP : 1 ≤ P) (hδ : |δ| ≤ u)
    (ih : |T - (G * (1 + δ) + S)| ≤ (P - 1) * (G * (1 + δ) + S)) :
    |T - (G + S)| ≤ (P * (1 + u) - 1) * (G + S) := by
  obtain ⟨d1, d2⟩ := abs_le.mp hδ
  obtain ⟨i1, i2⟩ := abs_le.mp ih
  have a1 := mul_nonneg (mul_nonneg (sub_nonneg.mpr hP) hG) (sub_nonneg.mpr d2)
  have a2 := mul_nonneg (mul_nonneg (le_trans zero_le_one hP) hu) hS
  have a3 := mul_nonneg hG (sub_nonneg.mpr d2)
  have a4 : 0 ≤ G * (δ + u) := mul_nonneg hG (by linarith)
  have a5 := mul_nonneg (mul_nonneg (sub_nonneg.mpr hP) hG) (by linarith : (0 : ℚ) ≤ δ + u)
  have a6 := mul_nonneg (mul_nonneg (sub_nonneg.mpr hP) hG) hu
  have a7 := mul_nonneg (sub_nonneg.mpr hP) hS
  rw [abs_le]
  constructor <;> nlinarith

theorem cumLens_two (c : Float) (a b : Pos Float32) (t : List (Pos Float32)) :
    (cumLens c (a :: b :: t)).2 = (cumLens (c + Cvt.up (Pos.length Float (b - a))) (b :: t)).2 := rfl

/-- a finite total has a finite start (every partial sum is then finite). -/
theorem cumLens_start_finite (path : List (Pos Float32)) :
    ∀ c : Float, (cumLens c path).2.isFinite = true → c.isFinite = true := by
  induction path with
  | nil => intro c h; exact h
  | cons a t ih =>
    cases t with
    | nil => intro c h; exact h
    | cons b t' =>
      intro c h
      rw [cumLens_two] at h
      exact (finite_of_add_finite _ _ (ih _ h)).1

theorem sumQ_nonneg (l : List Float32) (h : ∀ ℓ ∈ l, 0 ≤ toRat32 ℓ) : 0 ≤ sumQ l := by
  unfold sumQ
  induction l with
  | nil => simp
  | cons x t ih =>
    rw [List.map_cons, List.sum_cons]
    exact add_nonneg (h x (by simp)) (ih fun ℓ hℓ => h ℓ (List.mem_cons_of_mem _ hℓ))

/-- **C16 on IEEE floats: "without a requested length the distance is the polyline's own length", up to explicit
rounding.** `(cumLens c path).2` is the natural total `calculate_length` reaches (`c` = `optimized_len ≥ 0`, `0` unless the
osu!-Catmull simplification removed points), a left-to-right `f64` running sum of the `n = path.length − 1` booked lengths
`ℓᵢ` (`segLens32 path`, finite `f32`s, each the exact chord up to `segment_length_err_float32`). If the total is finite,
`|total − (c + Σ ℓᵢ)| ≤ ((1 + 2⁻⁵³)ⁿ − 1) (c + Σ ℓᵢ)` — only the `n` additions round, `f64::from` is exact. -/
theorem natural_length_err_float (path : List (Pos Float32)) :
    ∀ c : Float, (cumLens c path).2.isFinite = true → (∀ ℓ ∈ segLens32 path, ℓ.isFinite = true) → 0 ≤ toRat c →
    |toRat (cumLens c path).2 - (toRat c + sumQ (segLens32 path))| ≤
      ((1 + (2 : ℚ) ^ (-53 : Int)) ^ (path.length - 1) - 1) * (toRat c + sumQ (segLens32 path)) := by
  induction path with
  | nil => intro c _ _ _; simp [cumLens, segLens32, sumQ]
  | cons a t ih =>
    cases t with
    | nil => intro c _ _ _; simp [cumLens, segLens32, sumQ]
    | cons b t' =>
      intro c hfin hseg hc
      rw [cumLens_two] at hfin ⊢
      have hℓ : (Pos.length Float (b - a)).isFinite = true := hseg _ (by simp [segLens32])
      have hseg' : ∀ ℓ ∈ segLens32 (b :: t'), ℓ.isFinite = true := fun ℓ h => hseg ℓ (by simp [segLens32, h])
      have fc' := cumLens_start_finite _ _ hfin
      obtain ⟨fc, fu⟩ := finite_of_add_finite _ _ fc'
      obtain ⟨δ, hδ, hv⟩ := add_err_float c _ fc fu fc'
      rw [toRat_up _ hℓ] at hv
      have hℓ0 := seglen_nonneg _ hℓ
      have hG : 0 ≤ toRat c + toRat32 (Pos.length Float (b - a)) := by linarith
      have hc' : 0 ≤ toRat (c + Cvt.up (Pos.length Float (b - a))) := by
        rw [hv]
        have u1 : (2 : ℚ) ^ (-53 : Int) ≤ 1 := by norm_num
        exact mul_nonneg hG (by linarith [(abs_le.mp hδ).1])
      have hS : 0 ≤ sumQ (segLens32 (b :: t')) :=
        sumQ_nonneg _ fun ℓ h => by
          obtain ⟨a', b', _, _, rfl⟩ := mem_segLens32 h
          exact seglen_nonneg _ (hseg' _ h)
      have := ih _ hfin hseg' hc'
      rw [hv] at this
      have hP : (1 : ℚ) ≤ (1 + (2 : ℚ) ^ (-53 : Int)) ^ ((b :: t').length - 1) :=
        one_le_pow₀ (by linarith [u53_pos])
      have step := runsum_step _ _ _ δ _ _ hG hS u53_pos.le hP hδ this
      have e1 : sumQ (segLens32 (a :: b :: t')) = toRat32 (Pos.length Float (b - a)) + sumQ (segLens32 (b :: t')) := by
        simp [segLens32, sumQ]
      have e2 : (a :: b :: t').length - 1 = ((b :: t').length - 1) + 1 := by simp
      rw [e1, e2, pow_succ, ← add_assoc]
      exact step

/-- the same with a linear constant: `n = path.length − 1 ≤ 2⁵³` segments ⟹ relative error `≤ 2n · 2⁻⁵³`. -/
theorem natural_length_err_float_linear (path : List (Pos Float32)) (c : Float)
    (hfin : (cumLens c path).2.isFinite = true) (hseg : ∀ ℓ ∈ segLens32 path, ℓ.isFinite = true) (hc : 0 ≤ toRat c)
    (hn : ((path.length - 1 : Nat) : ℚ) * (2 : ℚ) ^ (-53 : Int) ≤ 1) :
    |toRat (cumLens c path).2 - (toRat c + sumQ (segLens32 path))| ≤
      2 * ((path.length - 1 : Nat) : ℚ) * (2 : ℚ) ^ (-53 : Int) * (toRat c + sumQ (segLens32 path)) := by
  refine le_trans (natural_length_err_float path c hfin hseg hc) ?_
  have hS : 0 ≤ toRat c + sumQ (segLens32 path) :=
    add_nonneg hc (sumQ_nonneg _ fun ℓ h => by
      obtain ⟨a', b', _, _, rfl⟩ := mem_segLens32 h
      exact seglen_nonneg _ (hseg _ h))
  have := one_add_pow_le _ u53_pos.le (path.length - 1) hn
  exact mul_le_mul_of_nonneg_right (by linarith) hS

/-! ## the chord hypothesis of `position_arc_segment_float32` for naturally booked segments -/

/-- over ℚ: `X² ≤ E`, `E (1 − 3·2⁻²²) ≤ ℓ²`, `ℓ ≥ 0` ⟹ `|X| ≤ ℓ (1 + 2⁻²¹)`. -/
theorem chord_le_len_q (X E ℓ : ℚ) (hX : X ^ 2 ≤ E) (hℓ : 0 ≤ ℓ)
    (h : E * (1 - 3 * (2 : ℚ) ^ (-22 : Int)) ≤ ℓ ^ 2) : |X| ≤ ℓ * (1 + (2 : ℚ) ^ (-21 : Int)) := by
  by_contra hc
  rw [not_le] at hc
  have h0 : 0 ≤ ℓ * (1 + (2 : ℚ) ^ (-21 : Int)) := mul_nonneg hℓ (by norm_num)
  have h1 : (ℓ * (1 + (2 : ℚ) ^ (-21 : Int))) ^ 2 < |X| ^ 2 := pow_lt_pow_left₀ hc h0 (by norm_num)
  rw [sq_abs] at h1
  have c : (1 : ℚ) ≤ (1 + (2 : ℚ) ^ (-21 : Int)) ^ 2 * (1 - 3 * (2 : ℚ) ^ (-22 : Int)) := by norm_num
  have c0 : (0 : ℚ) < 1 - 3 * (2 : ℚ) ^ (-22 : Int) := by norm_num
  have h2 : X ^ 2 * (1 - 3 * (2 : ℚ) ^ (-22 : Int)) ≤ ℓ ^ 2 := le_trans (mul_le_mul_of_nonneg_right hX c0.le) h
  have h3 : (ℓ * (1 + (2 : ℚ) ^ (-21 : Int))) ^ 2 * (1 - 3 * (2 : ℚ) ^ (-22 : Int)) <
      X ^ 2 * (1 - 3 * (2 : ℚ) ^ (-22 : Int)) := mul_lt_mul_of_pos_right h1 c0
  have h4 : ℓ ^ 2 * 1 ≤ ℓ ^ 2 * ((1 + (2 : ℚ) ^ (-21 : Int)) ^ 2 * (1 - 3 * (2 : ℚ) ^ (-22 : Int))) :=
    mul_le_mul_of_nonneg_left c (sq_nonneg ℓ)
  have e : (ℓ * (1 + (2 : ℚ) ^ (-21 : Int))) ^ 2 * (1 - 3 * (2 : ℚ) ^ (-22 : Int)) =
      ℓ ^ 2 * ((1 + (2 : ℚ) ^ (-21 : Int)) ^ 2 * (1 - 3 * (2 : ℚ) ^ (-22 : Int))) := by ring
  rw [e] at h3
  linarith

/-- **booked length vs. chord on IEEE floats** (the IEEE counterpart of `C19.natLens_chord`: in exact arithmetic the
booked length IS at least the chord): segment `a → b` as in `segment_length_err_float32`, booked on top of the length so far
`lk` (`0 ≤ lk ≤ 2²⁷ ℓ`, finite sum): each coordinate of the chord is at most `(1 + 2⁻²⁰)` times the difference
`(lk ⊕ ell) − lk` of the two stored cumulative lengths — the hypothesis of `position_arc_segment_float32` with `κ = 2⁻²⁰`. -/
theorem chord_le_booked_float (a b : Pos Float32) (lk : Float)
    (hs : ((b - a).x * (b - a).x + (b - a).y * (b - a).y).isFinite = true)
    (hy : (Scalar.sqrt (Cvt.up ((b - a).x * (b - a).x + (b - a).y * (b - a).y) : Float) : Float).isFinite = true)
    (hl : (Pos.length Float (b - a)).isFinite = true)
    (hE : (2 : ℚ) ^ (-100 : Int) ≤ (toRat32 b.x - toRat32 a.x) ^ 2 + (toRat32 b.y - toRat32 a.y) ^ 2)
    (hfs : (lk + (Cvt.up (Pos.length Float (b - a)) : Float)).isFinite = true)
    (hl0 : 0 ≤ toRat lk) (hlℓ : toRat lk ≤ 134217728 * toRat32 (Pos.length Float (b - a))) :
    |toRat32 b.x - toRat32 a.x| ≤
      (toRat (lk + (Cvt.up (Pos.length Float (b - a)) : Float)) - toRat lk) * (1 + (2 : ℚ) ^ (-20 : Int)) ∧
    |toRat32 b.y - toRat32 a.y| ≤
      (toRat (lk + (Cvt.up (Pos.length Float (b - a)) : Float)) - toRat lk) * (1 + (2 : ℚ) ^ (-20 : Int)) := by
  obtain ⟨hup, hℓ0, hlo, _⟩ := segment_length_err_float32 a b hs hy hl hE
  obtain ⟨fl, fu⟩ := finite_of_add_finite _ _ hfs
  obtain ⟨δ, hδ, hv⟩ := add_err_float lk _ fl fu hfs
  rw [hup] at hv
  rw [hv]
  generalize toRat32 (Pos.length Float (b - a)) = ℓ at *
  generalize toRat lk = L at *
  obtain ⟨d1, d2⟩ := abs_le.mp hδ
  have hu0 : (0 : ℚ) < (2 : ℚ) ^ (-53 : Int) := two_zpow_pos _
  -- the difference of the stored lengths is at least `ℓ (1 − 2⁻⁵³ (2²⁷ + 1))`
  have hD : ℓ * (1 - (2 : ℚ) ^ (-53 : Int) * 134217729) ≤ (L + ℓ) * (1 + δ) - L := by
    have t1 : -(2 : ℚ) ^ (-53 : Int) * (L + ℓ) ≤ δ * (L + ℓ) := mul_le_mul_of_nonneg_right d1 (by linarith)
    have t2 : (2 : ℚ) ^ (-53 : Int) * (L + ℓ) ≤ (2 : ℚ) ^ (-53 : Int) * (134217729 * ℓ) :=
      mul_le_mul_of_nonneg_left (by linarith) hu0.le
    nlinarith
  have c : 1 + (2 : ℚ) ^ (-21 : Int) ≤ (1 - (2 : ℚ) ^ (-53 : Int) * 134217729) * (1 + (2 : ℚ) ^ (-20 : Int)) := by norm_num
  have hfinal : ℓ * (1 + (2 : ℚ) ^ (-21 : Int)) ≤ ((L + ℓ) * (1 + δ) - L) * (1 + (2 : ℚ) ^ (-20 : Int)) := by
    calc ℓ * (1 + (2 : ℚ) ^ (-21 : Int)) ≤ ℓ * ((1 - (2 : ℚ) ^ (-53 : Int) * 134217729) * (1 + (2 : ℚ) ^ (-20 : Int))) :=
          mul_le_mul_of_nonneg_left c hℓ0
      _ = ℓ * (1 - (2 : ℚ) ^ (-53 : Int) * 134217729) * (1 + (2 : ℚ) ^ (-20 : Int)) := by ring
      _ ≤ _ := mul_le_mul_of_nonneg_right hD (by norm_num)
  exact ⟨le_trans (chord_le_len_q _ _ _ (by nlinarith [sq_nonneg (toRat32 b.y - toRat32 a.y)]) hℓ0 hlo) hfinal,
    le_trans (chord_le_len_q _ _ _ (by nlinarith [sq_nonneg (toRat32 b.x - toRat32 a.x)]) hℓ0 hlo) hfinal⟩

/-! ## non-vacuity: the demo segment `(100, 200) → (107, 224)` of Props/C16IeeeCut.lean, evaluated by the kernel -/

section Examples
open Rosu.C16

theorem demo_b0 : Bounded19 demoPP :=
  ⟨by show |toRat32 (Float32.ofBits 0x42C80000)| ≤ _; rw [demo_100]; norm_num,
   by show |toRat32 (Float32.ofBits 0x43480000)| ≤ _; rw [demo_200]; norm_num⟩

theorem demo_b1 : Bounded19 demoPE :=
  ⟨by show |toRat32 (Float32.ofBits 0x42D60000)| ≤ _; rw [demo_107]; norm_num,
   by show |toRat32 (Float32.ofBits 0x43600000)| ≤ _; rw [demo_224]; norm_num⟩

theorem toRat_25 : toRat (25 : Float) = 25 := by
  have h : (25 : Float).toModel.unpack = .finite .positive 7036874417766400 (-48) (by decide) := by
    have : (25 : Float) = Float.ofBits 0x4039000000000000 := by decide +kernel
    rw [this, FM.float_unpack_ofBits _ (by decide)]; rfl
  rw [toRat_of_unpack h]; norm_num [sgnQ]

theorem toRat_10 : toRat (10 : Float) = 10 := by
  have h : (10 : Float).toModel.unpack = .finite .positive 5629499534213120 (-49) (by decide) := by
    have : (10 : Float) = Float.ofBits 0x4024000000000000 := by decide +kernel
    rw [this, FM.float_unpack_ofBits _ (by decide)]; rfl
  rw [toRat_of_unpack h]; norm_num [sgnQ]

theorem demo_interp_bits : (interpPos demoPP demoPE (10 : Float) 0 25).x = Float32.ofBits 0x42CD999A ∧
    (interpPos demoPP demoPE (10 : Float) 0 25).y = Float32.ofBits 0x4351999A := by decide +kernel

/-- **every hypothesis of `interpolate_err_float32` holds on the demo** (curve `[(100,200), (107,224)]`, lengths `[0, 25]`,
`d = 10`: `w = 10/25`), checked by the kernel; so the computed position is within `interpBound` of `(102.8, 209.6)`. -/
example : interpolateVertices [demoPP, demoPE] [(0 : Float), 25] 1 10 = .ok (interpPos demoPP demoPE 10 0 25) ∧
    |toRat32 (interpPos demoPP demoPE (10 : Float) 0 25).x - (100 + 10 / 25 * (107 - 100))| ≤ interpBound ∧
    |toRat32 (interpPos demoPP demoPE (10 : Float) 0 25).y - (200 + 10 / 25 * (224 - 200))| ≤ interpBound := by
  obtain ⟨bx, bY⟩ := demo_interp_bits
  have h := interpolate_err_float32 [demoPP, demoPE] [(0 : Float), 25] 1 10 demoPP demoPE 0 25 (by decide) rfl rfl rfl rfl
    (by decide +kernel) (by rw [bx]; decide +kernel) (by rw [bY]; decide +kernel) (by decide +kernel) (by decide +kernel)
    (by decide +kernel) (by decide +kernel) demo_b0 demo_b1
  have a1 : toRat32 demoPP.x = 100 := demo_100
  have a2 : toRat32 demoPP.y = 200 := demo_200
  have a3 : toRat32 demoPE.x = 107 := demo_107
  have a4 : toRat32 demoPE.y = 224 := demo_224
  rw [a1, a2, a3, a4, toRat_10, toRat_25, toRat_zero] at h
  norm_num at h ⊢
  exact ⟨h.1, h.2.1, h.2.2⟩

/-- … and of `interpolate_on_segment_float32`. -/
example : ∃ (p : Pos Float32) (w : ℚ), interpolateVertices [demoPP, demoPE] [(0 : Float), 25] 1 10 = .ok p ∧ 0 ≤ w ∧ w ≤ 1 ∧
    |toRat32 p.x - (toRat32 demoPP.x + w * (toRat32 demoPE.x - toRat32 demoPP.x))| < 1 / 4 ∧
    |toRat32 p.y - (toRat32 demoPP.y + w * (toRat32 demoPE.y - toRat32 demoPP.y))| < 1 / 4 := by
  obtain ⟨bx, bY⟩ := demo_interp_bits
  exact interpolate_on_segment_float32 [demoPP, demoPE] [(0 : Float), 25] 1 10 demoPP demoPE 0 25 (by decide) rfl rfl rfl rfl
    (by decide +kernel) (by rw [bx]; decide +kernel) (by rw [bY]; decide +kernel) (by decide +kernel) (by decide +kernel)
    (by decide +kernel) (by decide +kernel) demo_b0 demo_b1

/-- **the bound is not vacuous**: the computed position is `(102.8 + 2⁻¹⁷·0.4, 209.6 + 2⁻¹⁶·0.4)`; the errors
`1/327680`, `1/163840` are non-zero (the bound `7/32` is reached only near `|x| = 2¹⁹`), and the point is off the line
through the segment. -/
example :
    toRat32 (interpPos demoPP demoPE (10 : Float) 0 25).x - (100 + 10 / 25 * (107 - 100)) = 1 / 327680 ∧
    toRat32 (interpPos demoPP demoPE (10 : Float) 0 25).y - (200 + 10 / 25 * (224 - 200)) = 1 / 163840 ∧
    (224 - 200) * (toRat32 (interpPos demoPP demoPE (10 : Float) 0 25).x - 100) ≠
      (107 - 100) * (toRat32 (interpPos demoPP demoPE (10 : Float) 0 25).y - 200) := by
  obtain ⟨bx, bY⟩ := demo_interp_bits
  rw [bx, bY, demo_ex, demo_ey]
  norm_num

/-- the hypotheses of `position_lipschitz_segment_float32` hold on the demo for `d = 10`, `d' = 17.5`. -/
example :
    |toRat32 (interpPos demoPP demoPE (10 : Float) 0 25).x - toRat32 (interpPos demoPP demoPE (17.5 : Float) 0 25).x| ≤
      |toRat (10 : Float) - toRat (17.5 : Float)| / (toRat (25 : Float) - toRat (0 : Float)) *
        |toRat32 demoPE.x - toRat32 demoPP.x| + 2 * interpBound ∧
    |toRat32 (interpPos demoPP demoPE (10 : Float) 0 25).y - toRat32 (interpPos demoPP demoPE (17.5 : Float) 0 25).y| ≤
      |toRat (10 : Float) - toRat (17.5 : Float)| / (toRat (25 : Float) - toRat (0 : Float)) *
        |toRat32 demoPE.y - toRat32 demoPP.y| + 2 * interpBound := by
  obtain ⟨bx, bY⟩ := demo_interp_bits
  have cx : (interpPos demoPP demoPE (17.5 : Float) 0 25).x = Float32.ofBits 1121045709 := by decide +kernel
  have cy : (interpPos demoPP demoPE (17.5 : Float) 0 25).y = Float32.ofBits 1129893069 := by decide +kernel
  exact position_lipschitz_segment_float32 demoPP demoPE 10 17.5 0 25
    (by rw [bx]; decide +kernel) (by rw [bY]; decide +kernel) (by rw [cx]; decide +kernel) (by rw [cy]; decide +kernel)
    (by decide +kernel) (by decide +kernel) (by decide +kernel) (by decide +kernel) (by decide +kernel)
    (by decide +kernel) (by decide +kernel) demo_b0 demo_b1

/-- **the hypotheses of `segment_length_err_float32` hold on the demo segment** (`Δ = (7, 24)`, `E = 625`), so the booked
length `ℓ` satisfies `625 (1 − 3·2⁻²²) ≤ ℓ² ≤ 625 (1 + 3·2⁻²²)` (it is `25`). -/
example : 625 * (1 - 3 * (2 : ℚ) ^ (-22 : Int)) ≤ toRat32 (Pos.length Float (demoPE - demoPP)) ^ 2 ∧
    toRat32 (Pos.length Float (demoPE - demoPP)) ^ 2 ≤ 625 * (1 + 3 * (2 : ℚ) ^ (-22 : Int)) := by
  have a1 : toRat32 demoPP.x = 100 := demo_100
  have a2 : toRat32 demoPP.y = 200 := demo_200
  have a3 : toRat32 demoPE.x = 107 := demo_107
  have a4 : toRat32 demoPE.y = 224 := demo_224
  have h := segment_length_err_float32 demoPP demoPE (by decide +kernel) (by decide +kernel) (by decide +kernel)
    (by rw [a1, a2, a3, a4]; norm_num)
  rw [a1, a2, a3, a4] at h
  norm_num at h ⊢
  exact ⟨h.2.2.1, h.2.2.2⟩

/-- **the floor on `E` in `segment_length_err_float32` is necessary**: the segment from `(0, 0)` to `(2⁻⁷⁵, 0)` has the exact
squared length `2⁻¹⁵⁰ > 0`, but `x·x` underflows in `f32` (a tie with the smallest subnormal, rounded to even) and the code
books the length `+0`: the relative bound fails, only an absolute one (`≤ 2⁻⁷⁵`) survives. -/
theorem segment_length_underflow_example :
    (Pos.length Float ((⟨Float32.ofBits 0x1A000000, 0⟩ : Pos Float32) - (⟨0, 0⟩ : Pos Float32))).toBits = 0 ∧
    toRat32 (Float32.ofBits 0x1A000000) = (2 : ℚ) ^ (-75 : Int) ∧
    ¬ (((2 : ℚ) ^ (-75 : Int)) ^ 2 * (1 - 3 * (2 : ℚ) ^ (-22 : Int)) ≤ (0 : ℚ) ^ 2) := by
  refine ⟨by decide +kernel, ?_, by norm_num⟩
  rw [toRat32_bits (s := .positive) (m := 8388608) (e := -98) (hm := by decide) (by decide) rfl]; norm_num [sgnQ]

theorem demo_segLens32 : segLens32 [demoPP, demoPE, demoPP] = [Float32.ofBits 0x41C80000, Float32.ofBits 0x41C80000] := by
  decide +kernel

/-- **`natural_length_err_float` on the closed path `(100,200) → (107,224) → (100,200)`**: the hypotheses are checked by the
kernel; `Σ ℓᵢ = 50`, and the booked total is within `4·2⁻⁵³·50` of it (it is exactly `50`). -/
example : |toRat (cumLens (0 : Float) [demoPP, demoPE, demoPP]).2 - 50| ≤ 4 * (2 : ℚ) ^ (-53 : Int) * 50 := by
  have h := natural_length_err_float_linear [demoPP, demoPE, demoPP] 0 (by decide +kernel)
    (by
      rw [demo_segLens32]
      intro ℓ hℓ
      simp only [List.mem_cons, List.not_mem_nil, or_false, or_self] at hℓ
      subst hℓ; decide +kernel)
    (by rw [toRat_zero]) (by norm_num)
  rw [demo_segLens32, toRat_zero] at h
  simp only [sumQ, List.map_cons, List.map_nil, List.sum_cons, List.sum_nil, demo_25] at h
  norm_num at h ⊢
  exact h

/-- the total of that path, evaluated: `50`. -/
example : (cumLens (0 : Float) [demoPP, demoPE, demoPP]).2 = 50 := by decide +kernel

/-- the hypotheses of `chord_le_booked_float` hold on the demo segment booked after a length of `100`. -/
example : |toRat32 demoPE.x - toRat32 demoPP.x| ≤
      (toRat ((100 : Float) + (Cvt.up (Pos.length Float (demoPE - demoPP)) : Float)) - toRat (100 : Float)) *
        (1 + (2 : ℚ) ^ (-20 : Int)) ∧
    |toRat32 demoPE.y - toRat32 demoPP.y| ≤
      (toRat ((100 : Float) + (Cvt.up (Pos.length Float (demoPE - demoPP)) : Float)) - toRat (100 : Float)) *
        (1 + (2 : ℚ) ^ (-20 : Int)) := by
  have a1 : toRat32 demoPP.x = 100 := demo_100
  have a2 : toRat32 demoPP.y = 200 := demo_200
  have a3 : toRat32 demoPE.x = 107 := demo_107
  have a4 : toRat32 demoPE.y = 224 := demo_224
  have bl := demo_bits.2.2.1
  exact chord_le_booked_float demoPP demoPE 100 (by decide +kernel) (by decide +kernel) (by decide +kernel)
    (by rw [a1, a2, a3, a4]; norm_num) (by decide +kernel) (by rw [toRat_100]; norm_num)
    (by rw [toRat_100, bl, demo_25]; norm_num)

end Examples

end Rosu.C19
