/-
  Props/C16Surplus.lean — C16 `surplus_nonneg`, and with it monotone lengths for every constructed curve.

  In exact arithmetic with a genuine square root (`ExactArith`, `SqrtLaws`) the model's own `Pos::distance` satisfies the
  triangle inequality (`distance_triangle`: Cauchy–Schwarz in an ordered field), hence the length the osu!-mode Catmull
  simplification removes between two kept points is at least their straight distance, `optimized_len` only grows
  (`simplifyLoop_surplus`, `catmullSimplify_surplus_nonneg`), `calculate_path` hands `calculate_length` an
  `optimized_len ≥ 0` (`calculatePath_optLen_nonneg`), and the cumulative lengths of **every** curve `Curve::new`
  builds never decrease (`new_lengths_monotone`) — any mode, control points, requested length, fuel, buffers.
  The hypotheses are satisfiable over the reals (Lemmas/RealScalar.lean); IEEE floats are not claimed (there the surplus
  was observed negative by ~5e-7).
-/
import RosuModel.Props.C16Exact
import RosuModel.Lemmas.BezierEnds
set_option linter.unusedSectionVars false
set_option linter.unusedVariables false
namespace Rosu.C16
open Rosu Rosu.Curve

variable {P F K : Type} [Scalar P] [Scalar F] [Cvt P F] [Field K] [LinearOrder K] [IsStrictOrderedRing K]
variable {φ : P → K} {ψ : F → K}

/-! ### the model's distance is a metric -/

/-- `f64::from(distance(a, b))` seen in the field. -/
def distK (ψ : F → K) (a b : Pos P) : K := ψ (Cvt.up (Pos.distance F a b))

theorem distK_nonneg (E : ExactArith φ ψ) (a b : Pos P) : 0 ≤ distK (P := P) ψ a b := by
  unfold distK Pos.distance
  rw [E.up]
  exact E.length_nonneg _

theorem distK_sq (E : ExactArith φ ψ) (S : SqrtLaws ψ) (a b : Pos P) :
    distK (P := P) ψ a b * distK (P := P) ψ a b =
      (φ a.x - φ b.x) * (φ a.x - φ b.x) + (φ a.y - φ b.y) * (φ a.y - φ b.y) := by
  unfold distK Pos.distance Pos.length
  rw [E.up, E.down, S.mul_self_sqrt, E.up]
  · simp only [Pos.sub_x, Pos.sub_y, E.p.add, E.p.mul, E.p.sub]
  · rw [E.up, E.p.add, E.p.mul, E.p.mul]
    nlinarith [mul_self_nonneg (φ (a - b).x), mul_self_nonneg (φ (a - b).y)]

theorem distK_self (E : ExactArith φ ψ) (S : SqrtLaws ψ) (a : Pos P) : distK (P := P) ψ a a = 0 := by
  have h := distK_sq E S a a
  simp only [sub_self, mul_zero, add_zero] at h
  exact mul_self_eq_zero.mp h

/-- a pure ordered-field fact: non-negative roots of sums of two squares satisfy the triangle inequality. -/
theorem root_triangle (s1 s2 s3 ux uy wx wy : K) (h1 : 0 ≤ s1) (h2 : 0 ≤ s2) (h3 : 0 ≤ s3)
    (e1 : s1 * s1 = ux * ux + uy * uy) (e2 : s2 * s2 = wx * wx + wy * wy)
    (e3 : s3 * s3 = (ux + wx) * (ux + wx) + (uy + wy) * (uy + wy)) : s3 ≤ s1 + s2 := by
  by_contra hlt
  have hlt : s1 + s2 < s3 := not_le.mp hlt
  have hsq : (s1 + s2) * (s1 + s2) < s3 * s3 := by nlinarith
  have hdot : s1 * s2 < ux * wx + uy * wy := by nlinarith
  have hpos : 0 ≤ s1 * s2 := mul_nonneg h1 h2
  have hdsq : (s1 * s2) * (s1 * s2) < (ux * wx + uy * wy) * (ux * wx + uy * wy) := by nlinarith
  have hcs : (ux * wx + uy * wy) * (ux * wx + uy * wy) ≤ (ux * ux + uy * uy) * (wx * wx + wy * wy) := by
    nlinarith [mul_self_nonneg (ux * wy - uy * wx)]
  have : (s1 * s2) * (s1 * s2) = (ux * ux + uy * uy) * (wx * wx + wy * wy) := by
    rw [← e1, ← e2]; ring
  linarith

/-- **`distance_triangle`** (exact arithmetic, `sqrt` a square root): the model's `Pos::distance` satisfies the
triangle inequality. -/
theorem distance_triangle (E : ExactArith φ ψ) (S : SqrtLaws ψ) (a b c : Pos P) :
    distK (P := P) ψ a c ≤ distK (P := P) ψ a b + distK (P := P) ψ b c := by
  apply root_triangle _ _ _ (φ a.x - φ b.x) (φ a.y - φ b.y) (φ b.x - φ c.x) (φ b.y - φ c.y)
    (distK_nonneg E a b) (distK_nonneg E b c) (distK_nonneg E a c) (distK_sq E S a b) (distK_sq E S b c)
  rw [distK_sq E S a c]
  ring

/-! ### the simplification loop only adds to `optimized_len` -/

/-- invariant of the simplification loop: the length removed since the pending start `ls` is at least the straight
distance from `ls` to the last consumed point (and nothing is pending-removed while no start is pending). -/
def SurpInv (ψ : F → K) (st : SimpState P F) (prev : Pos P) : Prop :=
  match st.lastStart with
  | none => ψ st.lenRemoved = 0
  | some ls => distK (P := P) ψ ls prev ≤ ψ st.lenRemoved

theorem simplifyStep_surplus (E : ExactArith φ ψ) (S : SqrtLaws ψ) (n : Nat) (st : SimpState P F) (i : Nat)
    (prev curr : Pos P) (h : SurpInv ψ st prev) :
    SurpInv ψ (simplifyStep n st i prev curr) curr ∧ ψ st.optLen ≤ ψ (simplifyStep n st i prev curr).optLen := by
  unfold SurpInv at h ⊢
  unfold simplifyStep
  cases hls : st.lastStart with
  | none =>
    rw [hls] at h
    simp only [] at h ⊢
    exact ⟨by rw [distK_self E S, h], le_refl _⟩
  | some ls =>
    rw [hls] at h
    simp only [] at h ⊢
    have htri := distance_triangle E S ls prev curr
    have hnew : distK (P := P) ψ ls curr ≤ ψ (st.lenRemoved + Cvt.up (Pos.distance F prev curr)) := by
      rw [E.f.add]
      unfold distK at htri h ⊢
      linarith
    cases hc : (Scalar.lt (6 : F) (Cvt.up (Pos.distance F ls curr)) || (i + 1) % 100 == 0 || i == n - 1)
    · simp only [Bool.false_eq_true, if_false]
      exact ⟨hnew, le_refl _⟩
    · simp only [if_true]
      refine ⟨E.f.zero, ?_⟩
      simp only [E.f.add, E.f.sub]
      unfold distK at hnew; rw [E.f.add] at hnew
      linarith

theorem simplifyLoop_surplus (E : ExactArith φ ψ) (S : SqrtLaws ψ) (n : Nat) :
    ∀ (rest : List (Pos P)) (st : SimpState P F) (i : Nat) (prev : Pos P), SurpInv ψ st prev →
      ψ st.optLen ≤ ψ (simplifyLoop n st i prev rest).optLen := by
  intro rest
  induction rest with
  | nil => intro st i prev _; exact le_refl _
  | cons c rest ih =>
    intro st i prev h
    obtain ⟨h1, h2⟩ := simplifyStep_surplus E S n st i prev c h
    simp only [simplifyLoop]
    exact le_trans h2 (ih _ _ _ h1)

/-- **`surplus_nonneg`** (exact arithmetic, `sqrt` a square root): the osu!-mode Catmull simplification never
decreases `optimized_len` — what it removes between two kept points is at least their straight distance. -/
theorem catmullSimplify_surplus_nonneg (E : ExactArith φ ψ) (S : SqrtLaws ψ) (sub : List (Pos P)) (o : F) :
    ψ o ≤ ψ (catmullSimplify sub o).2 := by
  unfold catmullSimplify
  exact simplifyLoop_surplus E S sub.length sub
    ({ out := [], lastStart := none, lenRemoved := 0, optLen := o } : SimpState P F) 0 Pos.zero E.f.zero

/-! ### `calculate_path` hands over `optimized_len ≥ 0` -/

section Path
variable [Trig F] [Trig P]

theorem calculateSubpath_optLen (E : ExactArith φ ψ) (S : SqrtLaws ψ) (fuel : Nat) (mode : GameMode)
    (seg out : List (Pos P)) (kind : SplineType) (o o' : F) (bz bz' : BezierBuffers P)
    (h : calculateSubpath fuel mode seg kind o bz = .ok (out, o', bz')) : ψ o ≤ ψ o' := by
  unfold calculateSubpath at h
  cases kind with
  | linear =>
    simp only [Outcome.pure_eq_ok, Except.ok.injEq, Prod.mk.injEq] at h
    obtain ⟨_, rfl, _⟩ := h; exact le_refl _
  | bspline =>
    simp only [] at h
    obtain ⟨r, _, h⟩ := Outcome.bind_eq_ok h
    simp only [Outcome.pure_eq_ok, Except.ok.injEq, Prod.mk.injEq] at h
    obtain ⟨_, rfl, _⟩ := h; exact le_refl _
  | catmull =>
    simp only [] at h
    obtain ⟨sub, _, h⟩ := Outcome.bind_eq_ok h
    split at h
    · simp only [Outcome.pure_eq_ok, Except.ok.injEq, Prod.mk.injEq] at h
      obtain ⟨_, rfl, _⟩ := h; exact le_refl _
    · simp only [Outcome.pure_eq_ok, Except.ok.injEq, Prod.mk.injEq] at h
      obtain ⟨_, rfl, _⟩ := h
      exact catmullSimplify_surplus_nonneg E S sub o
  | perfectCurve =>
    have hbez : ∀ {o'' : F} {r : List (Pos P) × F × BezierBuffers P},
        (do let x ← approximateBezier fuel seg bz; pure (x.1, o, x.2) : Outcome _) = .ok r → r.2.1 = o := by
      intro o'' r hr
      obtain ⟨x, _, hr⟩ := Outcome.bind_eq_ok hr
      simp only [Outcome.pure_eq_ok, Except.ok.injEq] at hr
      subst hr; rfl
    simp only [] at h
    split at h
    · obtain ⟨arc, _, h⟩ := Outcome.bind_eq_ok h
      cases arc with
      | some pts =>
        simp only [Outcome.pure_eq_ok, Except.ok.injEq, Prod.mk.injEq] at h
        obtain ⟨_, rfl, _⟩ := h; exact le_refl _
      | none =>
        have := hbez (o'' := o) h
        simp only [] at this
        rw [this]
    · simp only [Outcome.pure_eq_ok, Outcome.ok_bind] at h
      have := hbez (o'' := o) h
      simp only [] at this
      rw [this]

theorem segBody_optLen (E : ExactArith φ ψ) (S : SqrtLaws ψ) (fuel : Nat) (mode : GameMode)
    (points : List (PathControlPoint P)) (vertices : List (Pos P)) (st st' : SegState P F) (i : Nat)
    (h : segBody fuel mode points vertices st i = .ok st') : ψ st.optLen ≤ ψ st'.optLen := by
  unfold segBody at h
  obtain ⟨pt, _, h⟩ := Outcome.bind_eq_ok h
  split at h
  · simp only [Outcome.pure_eq_ok, Except.ok.injEq] at h
    subst h; exact le_refl _
  · obtain ⟨seg, _, h⟩ := Outcome.bind_eq_ok h
    match seg with
    | [] => cases h
    | [v] =>
      simp only [Outcome.pure_eq_ok, Except.ok.injEq] at h
      subst h; exact le_refl _
    | v :: w :: rest =>
      simp only [] at h
      obtain ⟨sp, _, h⟩ := Outcome.bind_eq_ok h
      obtain ⟨r, hsub, h⟩ := Outcome.bind_eq_ok h
      obtain ⟨out, o, bz⟩ := r
      simp only [] at h
      obtain ⟨path, _, h⟩ := Outcome.bind_eq_ok h
      simp only [Outcome.pure_eq_ok, Except.ok.injEq] at h
      subst h
      exact calculateSubpath_optLen E S fuel mode _ _ _ _ _ _ _ hsub

theorem segFold_optLen (E : ExactArith φ ψ) (S : SqrtLaws ψ) (fuel : Nat) (mode : GameMode)
    (points : List (PathControlPoint P)) (vertices : List (Pos P)) :
    ∀ (idx : List Nat) (st st' : SegState P F),
      idx.foldlM (segBody fuel mode points vertices) st = .ok st' → ψ st.optLen ≤ ψ st'.optLen := by
  intro idx
  induction idx with
  | nil =>
    intro st st' h
    simp only [List.foldlM_nil, Outcome.pure_eq_ok, Except.ok.injEq] at h
    subst h; exact le_refl _
  | cons i idx ih =>
    intro st st' h
    rw [List.foldlM_cons] at h
    obtain ⟨st1, h1, h⟩ := Outcome.bind_eq_ok h
    exact le_trans (segBody_optLen E S fuel mode points vertices st st1 i h1) (ih st1 st' h)

/-- **`calculate_path` produces `optimized_len ≥ 0`** (exact arithmetic, `sqrt` a square root). -/
theorem calculatePath_optLen_nonneg (E : ExactArith φ ψ) (S : SqrtLaws ψ) (fuel : Nat) (mode : GameMode)
    (points : List (PathControlPoint P)) (bufs b1 : CurveBuffers P F) (opt : F)
    (h : calculatePath fuel mode points bufs = .ok (b1, opt)) : 0 ≤ ψ opt := by
  unfold calculatePath at h
  split at h
  · simp only [Outcome.pure_eq_ok, Except.ok.injEq, Prod.mk.injEq] at h
    obtain ⟨_, rfl⟩ := h
    rw [E.f.zero]
  · simp only [] at h
    obtain ⟨st, hfold, h⟩ := Outcome.bind_eq_ok h
    simp only [Outcome.pure_eq_ok, Except.ok.injEq, Prod.mk.injEq] at h
    obtain ⟨_, rfl⟩ := h
    have := segFold_optLen E S fuel mode points _ _ _ _ hfold
    simp only [] at this
    rw [E.f.zero] at this
    exact this

/-- **`new_lengths_monotone`** (exact arithmetic, `sqrt` a square root): the cumulative lengths of every curve
`Curve::new` builds never decrease — every mode, control-point list, requested length, fuel and buffer contents. -/
theorem new_lengths_monotone (E : ExactArith φ ψ) (S : SqrtLaws ψ) (fuel : Nat) (mode : GameMode)
    (pts : List (PathControlPoint P)) (e : Option F) (b b' : CurveBuffers P F) (c : Curve P F)
    (h : Curve.new fuel mode pts e b = .ok (c, b')) : Mono c.lengths := by
  obtain ⟨b1, opt, hp, hl⟩ := new_is_calculateLength fuel mode pts e b b' c h
  exact calculateLength_lengths_monotone E b1.path e opt (calculatePath_optLen_nonneg E S fuel mode pts b b1 opt hp)
    c.path c.lengths hl

end Path

/-- the hypotheses hold together over the reals. -/
example : ExactArith (id : ℝ → ℝ) (id : ℝ → ℝ) ∧ SqrtLaws (id : ℝ → ℝ) :=
  ⟨RealInst.exactArith_real, RealInst.sqrtLaws_real⟩

end Rosu.C16
