/-
  Props/C04File.lean — C04 at file level, with no remaining shape assumption: the record-section line of proof
  (Props/C04.lean), the hit-object line (Props/C04Slider.lean) and the timing-point line (Props/C04Timing.lean) composed.

  * `encoded_file_accepted`: for a map satisfying `RepMap` (record sections, control points incl. collected sample points, and
    every hit object representable) and under the codec laws `MapLaws`: if `encode m = .ok t` then
      – `t` is the version line plus the eight blocks in canonical order, each after a blank line, the `[TimingPoints]` block
        being the lines of `mapEntries` over the collected control points and the `[HitObjects]` block one line per object;
      – read back from its UTF-8 bytes (reader, framing) by ANY decoder, reading succeeds and the framing driver makes exactly
        the parser calls `recordCalls m T H`: every non-blank non-header line of every block, end-trimmed, to the parser of
        the section whose block it stands in, in file order — nothing else, nothing dropped (`decodeBytes recorder`: the call
        log is exactly that list);
      – EVERY one of those calls returns `Ok` when the `Beatmap` decoder runs them (`CallsAccepted`: each call judged in the
        state the preceding calls left, the flag being that of the parser `BeatmapState.step` delegates to);
      – counts: as many hit objects are pushed as were written; the breaks and the colour lists have the lengths written; the
        timing-point state is `parse_timing_points` folded over exactly the `T.length` lines written.
    (That the number of timing POINTS stored equals the number written needs the decoder's grouping arithmetic to be exact:
    `C02.roundtrip_rep_partial` gives the equal list under `EpsLaws` / `GroupLaws`.)
  * `encoded_file_sections_accepted`: the same acceptance read per section on the section's own state, for the record
    sections in ANY state.
  * `toyMap`: non-vacuity — a mania map on the toy codec with two timing points, inherited lines (scroll speeds 2 and 4, kiai),
    a circle, a slider with a two-segment path, a spinner and a hold note; `toyMap_rep : RepMap …`, `toyMap_text` (the
    encoding, evaluated), and the theorem applied to it.
  Still not a theorem: that a DECODED map satisfies `RepMap` — false in general (F17, F18, F20; computed sample-point times).
-/
import RosuModel.Props.C04Slider
import RosuModel.Props.C04Timing
import RosuModel.Lemmas.RepMap
set_option linter.unusedSectionVars false
namespace Rosu.C04
open Rosu Encode EncodeLines C11 RtTiming FileRt

section
variable {F P : Type} [Scalar F] [Scalar P] [Cvt P F] [Trig F] [Trig P] {RF : F → Prop} {RP : P → Prop}

/-- every record line of the six record blocks is accepted by its section's parser in ANY `Beatmap` decoder state. -/
theorem record_calls_accepted (L : MapLaws F P RF RP) (m : Beatmap F P) (hm : RtFile.RepRecords RF RP m) :
    (∀ l ∈ RtGeneral.decodedLines m.general (RtGeneral.sampleSetOf m.controlPoints),
      ∀ st : BeatmapState F P, stepAccepts .general st l = true) ∧
    (∀ l ∈ RtEditor.decodedLines m.editor, ∀ st : BeatmapState F P, stepAccepts .editor st l = true) ∧
    (∀ l ∈ RtMetadata.decodedLines m.metadata, ∀ st : BeatmapState F P, stepAccepts .metadata st l = true) ∧
    (∀ l ∈ RtDifficulty.decodedLines m.difficulty, ∀ st : BeatmapState F P, stepAccepts .difficulty st l = true) ∧
    (∀ l ∈ RtEvents.decodedLines m.events, ∀ st : BeatmapState F P, stepAccepts .events st l = true) ∧
    (∀ l ∈ RtColours.decodedLines m.colors, ∀ st : BeatmapState F P, stepAccepts .colors st l = true) := by
  refine ⟨fun l hl st => ?_, fun l hl st => ?_, fun l hl st => ?_, fun l hl st => ?_, fun l hl st => ?_, fun l hl st => ?_⟩
  · have := (record_lines_accepted_general L.int L.p m.general _ hm.general l hl).2 st.hitObjects.timingPoints.general
    show (parseGeneral st.hitObjects.timingPoints.general l).1.isOk = true
    rw [this]; rfl
  · exact (record_lines_accepted_editor L.f m.editor hm.editor l hl).2 st.editor
  · exact (record_lines_accepted_metadata m.metadata hm.metadata l hl).2 st.metadata
  · exact (record_lines_accepted_difficulty L.f L.p m.difficulty hm.difficulty l hl).2 st.hitObjects.difficulty
  · exact (record_lines_accepted_events L.f m.events hm.events l hl).2 st.hitObjects.events
  · exact (record_lines_accepted_colours m.colors hm.colors l hl).2 st.colors

/-- **encoded_file_accepted** — the C04 statement for representable maps, nothing assumed of the two list blocks. -/
theorem encoded_file_accepted (L : MapLaws F P RF RP) (m : Beatmap F P) (hm : RepMap RF RP m) (t : Str)
    (h : encode m = .ok t) :
    ∃ (cp : ControlPoints F) (T H : List Str),
      -- the two list blocks
      collectSamples m = .ok cp ∧ T = (mapEntries m cp).map Entry.line ∧
      encodeTimingPoints m = .ok (unlines (str "[TimingPoints]" :: T)) ∧
      encodeHitObjects m = .ok (unlines (str "[HitObjects]" :: H)) ∧
      RtFile.ListBlockShape T ∧ RtFile.ListBlockShape H ∧ H.length = m.hitObjects.length ∧
      -- the text: version line, then the eight blocks in canonical order
      t = unlines (RtFile.fileLines m.formatVersion (RtGeneral.generalLines m.general (RtGeneral.sampleSetOf m.controlPoints))
        (RtEditor.editorLines m.editor) (RtMetadata.metadataLines m.metadata) (RtDifficulty.difficultyLines m.difficulty)
        (RtEvents.eventLines m.events) T (RtColours.colourLines m.colors) H) ∧
      -- reading it back: exactly these parser calls, whatever the decoder
      (∀ (σ : Type) (Dc : LineDecoder σ),
        decodeBytes Dc (utf8Encode t) = .ok (runCalls Dc (Dc.create m.formatVersion) (recordCalls m T H))) ∧
      decodeBytes recorder (utf8Encode t) = .ok { version := m.formatVersion, calls := (recordCalls m T H).reverse } ∧
      -- every call is accepted
      CallsAccepted (BeatmapState.create m.formatVersion : BeatmapState F P) (recordCalls m T H) ∧
      -- counts
      ∃ st : BeatmapState F P, decodeBytes beatmapDecoder (utf8Encode t) = .ok st ∧
        st.hitObjects.core.hitObjects.length = m.hitObjects.length ∧
        st.hitObjects.events.breaks.length = m.events.breaks.length ∧
        st.colors.customComboColors.length = m.colors.customComboColors.length ∧
        st.colors.customColors.length = m.colors.customColors.length ∧
        st.hitObjects.timingPoints = C12.runStrs { (TimingPointsState.create : TimingPointsState F P) with
          general := RtGeneral.preservedGeneral m.general (RtGeneral.sampleSetOf m.controlPoints) } (T.map trimEnd) ∧
        (T.map trimEnd).length = (mapEntries m cp).length := by
  obtain ⟨H, hH, sH, hlen, haccH, hback⟩ := hitObjects_block L m hm.objects
  obtain ⟨cp, T, hc, hT, htim, sT, htext, _, _, _, _, _⟩ :=
    record_and_timing_blocks_accepted L.f L.p L.int m hm.records hm.timing t H h hH sH
  obtain ⟨timing, _, htim0, _, _⟩ := encode_shape m t h
  obtain ⟨cp', hc', _, hall⟩ := timing_block_spec L.f m hm.timing timing htim0
  have hcp : cp' = cp := by rw [hc] at hc'; injection hc' with e; exact e.symm
  subst hcp
  have hdec := fun (σ : Type) (Dc : LineDecoder σ) => file_decoded L m hm.records t T H h htim hH sT sH Dc
  obtain ⟨aG, aE, aM, aD, aEv, aC⟩ := record_calls_accepted L m hm.records
  obtain ⟨hv, htp, hcore⟩ := beatmap_state_decoded L m hm.records T H sT sH
  -- the state before the `[HitObjects]` block is the state after the same file with an empty `[HitObjects]` block
  have hnil : RtFile.ListBlockShape ([] : List Str) := fun l hl => by cases hl
  obtain ⟨hv7, _, _⟩ := beatmap_state_decoded L m hm.records T [] sT hnil
  refine ⟨cp', T, H, hc, hT, htim, hH, sT, sH, hlen, htext, hdec, ?_, ?_,
    runCalls beatmapDecoder (BeatmapState.create m.formatVersion) (recordCalls m T H), hdec _ beatmapDecoder, ?_, ?_, ?_, ?_, htp, ?_⟩
  · rw [hdec _ recorder, recorder_runCalls]
  · unfold recordCalls fileCalls
    refine (callsAccepted_append _ _ _).2 ⟨callsAccepted_of_forall _ _ aG _, (callsAccepted_append _ _ _).2
      ⟨callsAccepted_of_forall _ _ aE _, (callsAccepted_append _ _ _).2 ⟨callsAccepted_of_forall _ _ aM _,
        (callsAccepted_append _ _ _).2 ⟨callsAccepted_of_forall _ _ aD _, (callsAccepted_append _ _ _).2
          ⟨callsAccepted_of_forall _ _ aEv _, (callsAccepted_append _ _ _).2 ⟨callsAccepted_of_forall _ _ ?_ _,
            (callsAccepted_append _ _ _).2 ⟨callsAccepted_of_forall _ _ aC _, ?_⟩⟩⟩⟩⟩⟩⟩
    · intro l hl st
      rw [hT] at hl
      simp only [List.map_map, List.mem_map, Function.comp] at hl
      obtain ⟨e, he, rfl⟩ := hl
      show (parseTimingPoints st.hitObjects.timingPoints (trimEnd e.line)).1.isOk = true
      rw [(hall e he).2.2.2 st.hitObjects.timingPoints]
      rfl
    · apply callsAccepted_hitObjects
      apply accepts_of_forall
      intro l hl core
      have hmode : ∀ s : BeatmapState F P, RtFile.recView s = RtFile.preservedRecords m →
          s.hitObjects.timingPoints.general.mode = m.general.mode := fun s hs => by
        have := congrArg (fun v => v.general.mode) hs
        exact this
      have e7 := hmode _ hv7
      simp only [recordCalls, fileCalls, runCalls_append, callsOf, List.map_nil, List.map_map] at e7
      simp only [callsOf, List.map_map]
      have e7' : ∀ x, runCalls (beatmapDecoder : LineDecoder (BeatmapState F P)) x [] = x := fun _ => rfl
      rw [e7'] at e7
      rw [e7]
      exact haccH l hl core
  · rw [hcore]
    obtain ⟨os, ho, hb, _⟩ := hback {} rfl
    rw [ho]
    simpa using SliderRt.ObjsBack.length_eq _ _ _ _ hb
  · have := congrArg (fun v => v.events.breaks.length) hv
    exact this
  · have := congrArg (fun v => v.colors.customComboColors.length) hv
    simp only [RtFile.preservedRecords, RtColours.preservedColors, List.length_map] at this
    exact this
  · have := congrArg (fun v => v.colors.customColors.length) hv
    simp only [RtFile.preservedRecords, RtColours.preservedColors, List.length_map] at this
    exact this
  · rw [hT]; simp

/-- **encoded_file_sections_accepted** — the acceptance clause read section by section, on the model's parsers alone: every
record line of every one of the eight blocks of the encoded text (end-trimmed, as the reader delivers it) is neither a
header nor skipped, and its own section's parser accepts it in ANY state of that parser (for `[HitObjects]`: in the map's
mode, which is the mode the re-decoded `[General]` block leaves — `encoded_file_accepted`). -/
theorem encoded_file_sections_accepted (L : MapLaws F P RF RP) (m : Beatmap F P) (hm : RepMap RF RP m) (t : Str)
    (h : encode m = .ok t) :
    ∃ (T H : List Str),
      encodeTimingPoints m = .ok (unlines (str "[TimingPoints]" :: T)) ∧
      encodeHitObjects m = .ok (unlines (str "[HitObjects]" :: H)) ∧
      (∀ r ∈ RtGeneral.decodedLines m.general (RtGeneral.sampleSetOf m.controlPoints),
        RecordLine r ∧ ∀ st : GeneralState F P, (parseGeneral st r).1 = .ok ()) ∧
      (∀ r ∈ RtEditor.decodedLines m.editor, RecordLine r ∧ ∀ st : Editor F, (parseEditor st r).2 = true) ∧
      (∀ r ∈ RtMetadata.decodedLines m.metadata, RecordLine r ∧ ∀ st, (parseMetadata st r).2 = true) ∧
      (∀ r ∈ RtDifficulty.decodedLines m.difficulty,
        RecordLine r ∧ ∀ st : DifficultyState F P, (parseDifficulty st r).2 = true) ∧
      (∀ r ∈ RtEvents.decodedLines m.events, RecordLine r ∧ ∀ st : Events F, (parseEvents st r).2 = true) ∧
      (∀ r ∈ T.map trimEnd, RecordLine r ∧ ∀ st : TimingPointsState F P, (parseTimingPoints st r).1 = .ok ()) ∧
      (∀ r ∈ RtColours.decodedLines m.colors, RecordLine r ∧ ∀ st, (parseColors st r).2 = true) ∧
      (∀ r ∈ H.map trimEnd, RecordLine r ∧ ∀ st : HOCore F P, (parseHitObjectLine m.general.mode st r).2 = true) := by
  obtain ⟨H, hH, sH, _, haccH, _⟩ := hitObjects_block L m hm.objects
  obtain ⟨timing, _, htim0, _, _⟩ := encode_shape m t h
  obtain ⟨cp, _, ht, hall⟩ := timing_block_spec L.f m hm.timing timing htim0
  rw [ht] at htim0
  refine ⟨_, H, htim0, hH, record_lines_accepted_general L.int L.p _ _ hm.records.general,
    record_lines_accepted_editor L.f _ hm.records.editor, record_lines_accepted_metadata _ hm.records.metadata,
    record_lines_accepted_difficulty L.f L.p _ hm.records.difficulty, record_lines_accepted_events L.f _ hm.records.events,
    ?_, record_lines_accepted_colours _ hm.records.colors, fun r hr => ⟨shape_records sH r hr, haccH r hr⟩⟩
  intro r hr
  simp only [List.map_map, List.mem_map, Function.comp] at hr
  obtain ⟨e, he, rfl⟩ := hr
  exact ⟨(hall e he).2.2.1, fun st => by rw [(hall e he).2.2.2 st]⟩

end

end Rosu.C04
