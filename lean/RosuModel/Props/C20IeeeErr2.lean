/-
  Props/C20IeeeErr2.lean — C20, the tick **path progress** and the tick **time** in IEEE doubles, with proved error bounds.

  For the tick at distance `d` of span `s`, `generate_ticks` computes (`mkTick`, Model/SliderEvents.lean)

      path_progress = d / len
      time          = span_start + (reversed ? 1 − path_progress : path_progress) · span_duration ,

  and Props/C20Exact.lean (`tickEvent_exact`) gives the closed forms `d / len` and
  `span_start + (reversed ? 1 − d/len : d/len) · span_duration` in exact arithmetic. Here, for `F := Float`, with
  `toRat` the exact value of a finite double, `u = 2⁻⁵³`:

  * `tick_progress_err_float`: `|toRat (d / len) − d/len| ≤ u · d/len` when the quotient is in the normal range
    (`2⁻¹⁰²² ≤ d/len`); `tick_progress_abs_err_float`: `≤ u · d/len + 2⁻¹⁰⁷⁵` with no range hypothesis (a tick distance
    may be as small as `5e-324`); finiteness of the progress is proved (`0 < d ≤ len`), not assumed;
  * **`tick_progress_multiple_err_float`**: combined with `ticks_near_multiples_float` (Props/C20IeeeErr.lean) — the
    progress of the `(k+1)`-th tick of a span (`k` rounded additions, one rounded division) satisfies
    `|progress_k − (k+1)·t/len| ≤ ((1 + u)^(k+1) − 1) · (k+1)·t/len`;
  * **`tick_time_err_float`**: if the tick time is finite (the only "no overflow" hypothesis: a finite result has
    finite operands), `len` finite, `0 < len`, `0 ≤ d ≤ len`, `0 ≤ span_duration`, then

        |toRat time − (S + θ · D)| ≤ u · |S| + 5u · D + 2⁻¹⁰⁷⁴ ,   S = toRat span_start, D = toRat span_duration,
                                                                  θ = d/len or 1 − d/len (exact) .

    Roundings: the division, `1 − ·` on reversed spans, the product, the sum. The additive `2⁻¹⁰⁷⁴` covers gradual
    underflow of the quotient and of the product (no lower bound on `d`, `span_duration` is assumed);
  * `tick_time_err_of_run_float`: the same for every tick of a run of the loop (`spanTickDists p fuel = some ds`): the
    order hypotheses on `d` follow from `span_tick_dists_increasing_float`;
  * `span_start_err_float`: `span_start = start + s · span_duration` itself (`|s| < 2⁵³`, so `f64::from(s)` is exact):
    `|toRat span_start − (start + s·D)| ≤ u·|start| + 3u·|s|·D + 2⁻¹⁰⁷⁴`, so that the tick time is within
    `tick_time_total_err_float` of the fully exact closed form `start + s·D + θ·D` of Props/C20Exact.lean;
  * kernel-evaluated instance on `exG` (third tick: distance `0.30000000000000004`, time `300.00000000000006`).
-/
import RosuModel.Props.C20IeeeErr
import RosuModel.Lemmas.FloatErrRange
import RosuModel.Lemmas.FloatIntExact
namespace Rosu.C20
open Rosu Rosu.SliderEvents Rosu.FErr

local notation "u₅₃" => ((2 : ℚ) ^ (-53 : Int))
local notation "η₆₄" => ((2 : ℚ) ^ (-1075 : Int))

theorem eta_pos : (0 : ℚ) < η₆₄ := two_zpow_pos _
theorem eta_le : η₆₄ ≤ u₅₃ / 100 :=
  le_trans (zpow_le_zpow_right₀ (by norm_num) (by norm_num) : η₆₄ ≤ (2 : ℚ) ^ (-60 : Int)) (by norm_num)
theorem two_eta : 2 * η₆₄ = (2 : ℚ) ^ (-1074 : Int) := by
  rw [show (-1074 : Int) = -1075 + 1 by norm_num, zpow_add₀ (two_ne_zero), zpow_one]; ring

/-! ## path progress -/

/-- the progress `d / len` of a tick with `0 < d ≤ len` (values) is a finite double: no overflow. -/
theorem tick_progress_finite_float (d len : Float) (fd : d.isFinite = true) (fl : len.isFinite = true)
    (hd : 0 ≤ toRat d) (hdl : toRat d ≤ toRat len) (hl : 0 < toRat len) : (d / len).isFinite = true := by
  refine div_finite_float d len fd fl hl.ne' ?_
  rw [abs_of_nonneg (div_nonneg hd hl.le)]
  have : toRat d / toRat len ≤ 1 := by rw [div_le_one hl]; exact hdl
  exact lt_of_le_of_lt this (lt_of_lt_of_le (by norm_num) (zpow_le_zpow_right₀ (by norm_num) (by norm_num) :
    (2 : ℚ) ^ (1 : Int) ≤ (2 : ℚ) ^ (1023 : Int)))

/-- **tick_progress_err_float**: the stored path progress is the exact quotient up to one rounding,
`|toRat (d / len) − d/len| ≤ 2⁻⁵³ · d/len`, in the normal range. -/
theorem tick_progress_err_float (d len : Float) (fd : d.isFinite = true) (fl : len.isFinite = true)
    (hd : 0 ≤ toRat d) (hdl : toRat d ≤ toRat len) (hl : 0 < toRat len)
    (hnorm : (2 : ℚ) ^ (-1022 : Int) ≤ toRat d / toRat len) :
    |toRat (d / len) - toRat d / toRat len| ≤ u₅₃ * (toRat d / toRat len) := by
  have hq : 0 ≤ toRat d / toRat len := div_nonneg hd hl.le
  have hf := tick_progress_finite_float d len fd fl hd hdl hl
  obtain ⟨δ, hδ, hv⟩ := div_err_float d len fd fl hf (by rw [abs_of_nonneg hq]; exact hnorm)
  rw [hv, show toRat d / toRat len * (1 + δ) - toRat d / toRat len = δ * (toRat d / toRat len) by ring, abs_mul,
    abs_of_nonneg hq]
  exact mul_le_mul_of_nonneg_right hδ hq

/-- without the range hypothesis (tiny tick distances underflow gradually): one more `2⁻¹⁰⁷⁵`. -/
theorem tick_progress_abs_err_float (d len : Float) (fd : d.isFinite = true) (fl : len.isFinite = true)
    (hd : 0 ≤ toRat d) (hdl : toRat d ≤ toRat len) (hl : 0 < toRat len) :
    |toRat (d / len) - toRat d / toRat len| ≤ u₅₃ * (toRat d / toRat len) + η₆₄ := by
  have hq : 0 ≤ toRat d / toRat len := div_nonneg hd hl.le
  have hf := tick_progress_finite_float d len fd fl hd hdl hl
  have := (div_rnd_float d len fd fl hf).abs_add
  rwa [abs_of_nonneg hq] at this

/-- from the two-sided power bounds to the symmetric one. -/
theorem abs_sub_le_of_pow_bounds (x V : ℚ) (n : Nat) (hV : 0 ≤ V)
    (h1 : V * (1 - u₅₃) ^ n ≤ x) (h2 : x ≤ V * (1 + u₅₃) ^ n) : |x - V| ≤ ((1 + u₅₃) ^ n - 1) * V := by
  have h := pow_sum_ge_two u₅₃ u53_pos.le u53_le_one n
  rw [abs_le]
  constructor
  · have : V * (2 - (1 + u₅₃) ^ n) ≤ V * (1 - u₅₃) ^ n := mul_le_mul_of_nonneg_left (by linarith) hV
    linarith
  · linarith

/-- **tick_progress_multiple_err_float** — "ticks lie at multiples of the tick distance along the path", as *path
progress*, IEEE binary64: for the `(k+1)`-th tick of a span (`ds[k]`, `k` rounded additions) with a quotient in the
normal range, the stored progress `ds[k] / len` (one more rounding) satisfies

    `|toRat (ds[k] / len) − (k+1)·t/len| ≤ ((1 + 2⁻⁵³)^(k+1) − 1) · (k+1)·t/len`,   `t = toRat tick_dist`. -/
theorem tick_progress_multiple_err_float (p : Params Float) (fuel : Nat) (ds : List Float)
    (h : spanTickDists p fuel = some ds) (hlen : p.len.isFinite = true) (k : Nat) (hk : k < ds.length)
    (hnorm : (2 : ℚ) ^ (-1022 : Int) ≤ toRat ds[k] / toRat p.len) :
    (ds[k] / p.len).isFinite = true ∧
    |toRat (ds[k] / p.len) - ((k : ℚ) + 1) * toRat p.tickDist / toRat p.len| ≤
      ((1 + u₅₃) ^ (k + 1) - 1) * (((k : ℚ) + 1) * toRat p.tickDist / toRat p.len) := by
  obtain ⟨_, hall, hfirst, _⟩ := span_tick_dists_increasing_float p fuel ds h
  have hfin := tick_dists_finite_float p fuel ds h hlen
  obtain ⟨fd, hpos⟩ := hfin _ (List.getElem_mem hk)
  obtain ⟨_, _, _, hle, _⟩ := hall _ (List.getElem_mem hk)
  have hd := toRat_pos _ hpos fd
  have hdl := toRat_le_of_le _ _ fd hlen hle
  have hl : 0 < toRat p.len := lt_of_lt_of_le hd hdl
  have h0 : 0 < ds.length := by omega
  have htf : p.tickDist.isFinite = true ∧ Scalar.lt (0 : Float) p.tickDist = true := by
    rw [← hfirst h0]; exact hfin _ (List.getElem_mem h0)
  have hT := toRat_pos _ htf.2 htf.1
  have hf := tick_progress_finite_float _ _ fd hlen hd.le hdl hl
  refine ⟨hf, ?_⟩
  have hq : 0 < toRat ds[k] / toRat p.len := div_pos hd hl
  obtain ⟨δ, hδ, hv⟩ := div_err_float _ _ fd hlen hf (by rw [abs_of_pos hq]; exact hnorm)
  obtain ⟨l1, l2⟩ := ticks_near_multiples_float p fuel ds h hlen k hk
  obtain ⟨hδ1, hδ2⟩ := abs_le.mp hδ
  have hu := u53_le_one
  have hV : 0 ≤ ((k : ℚ) + 1) * toRat p.tickDist / toRat p.len := by positivity
  refine abs_sub_le_of_pow_bounds _ _ (k + 1) hV ?_ ?_
  · rw [hv, pow_succ]
    have a1 : ((k : ℚ) + 1) * toRat p.tickDist / toRat p.len * (1 - u₅₃) ^ k ≤ toRat ds[k] / toRat p.len := by
      rw [div_mul_eq_mul_div]; exact div_le_div_of_nonneg_right l1 hl.le
    calc ((k : ℚ) + 1) * toRat p.tickDist / toRat p.len * ((1 - u₅₃) ^ k * (1 - u₅₃))
        = ((k : ℚ) + 1) * toRat p.tickDist / toRat p.len * (1 - u₅₃) ^ k * (1 - u₅₃) := by ring
      _ ≤ toRat ds[k] / toRat p.len * (1 - u₅₃) := mul_le_mul_of_nonneg_right a1 (by linarith)
      _ ≤ toRat ds[k] / toRat p.len * (1 + δ) := mul_le_mul_of_nonneg_left (by linarith) hq.le
  · rw [hv, pow_succ]
    have a2 : toRat ds[k] / toRat p.len ≤ ((k : ℚ) + 1) * toRat p.tickDist / toRat p.len * (1 + u₅₃) ^ k := by
      rw [div_mul_eq_mul_div]; exact div_le_div_of_nonneg_right l2 hl.le
    calc toRat ds[k] / toRat p.len * (1 + δ) ≤ toRat ds[k] / toRat p.len * (1 + u₅₃) :=
          mul_le_mul_of_nonneg_left (by linarith) hq.le
      _ ≤ ((k : ℚ) + 1) * toRat p.tickDist / toRat p.len * (1 + u₅₃) ^ k * (1 + u₅₃) :=
          mul_le_mul_of_nonneg_right a2 (by have := u53_pos; linarith)
      _ = _ := by ring

/-! ## tick time -/

/-- the error of `S + tp · D` (one product, one sum, both rounded) when the time progress `tp` carries `θ ∈ [0, 1]`
with an error `≤ 5u/2`, in ℚ. -/
theorem time_rat (S θ D tp m t δ u η : ℚ) (hu0 : 0 ≤ u) (hu : u ≤ 1 / 100) (hη0 : 0 ≤ η) (hη : η ≤ u / 100)
    (hθ0 : 0 ≤ θ) (hθ1 : θ ≤ 1) (hD : 0 ≤ D)
    (h1 : |tp - θ| ≤ 5 / 2 * u) (h2 : |m - tp * D| ≤ u * |tp * D| + η) (h3 : t = (S + m) * (1 + δ)) (hδ : |δ| ≤ u) :
    |t - (S + θ * D)| ≤ u * |S| + 5 * u * D + 2 * η := by
  -- |tp| ≤ 1 + 5u/2
  have htp : |tp| ≤ 1 + 5 / 2 * u := by
    have : |tp| ≤ |tp - θ| + |θ| := by
      have := abs_add_le (tp - θ) θ; rwa [sub_add_cancel] at this
    rw [abs_of_nonneg hθ0] at this; linarith
  have htpD : |tp * D| ≤ (1 + 5 / 2 * u) * D := by
    rw [abs_mul, abs_of_nonneg hD]; exact mul_le_mul_of_nonneg_right htp hD
  -- E := |m − θ D|
  have hE : |m - θ * D| ≤ (7 / 2 * u + 5 / 2 * (u * u)) * D + η := by
    have e : m - θ * D = (m - tp * D) + (tp - θ) * D := by ring
    rw [e]
    have a := abs_add_le (m - tp * D) ((tp - θ) * D)
    have b : |(tp - θ) * D| ≤ 5 / 2 * u * D := by
      rw [abs_mul, abs_of_nonneg hD]; exact mul_le_mul_of_nonneg_right h1 hD
    have c : u * |tp * D| ≤ u * ((1 + 5 / 2 * u) * D) := mul_le_mul_of_nonneg_left htpD hu0
    nlinarith
  have hθD : |θ * D| ≤ D := by
    rw [abs_mul, abs_of_nonneg hθ0, abs_of_nonneg hD]
    calc θ * D ≤ 1 * D := mul_le_mul_of_nonneg_right hθ1 hD
      _ = D := one_mul D
  have hSm : |S + m| ≤ |S| + D + ((7 / 2 * u + 5 / 2 * (u * u)) * D + η) := by
    have e : S + m = S + (θ * D + (m - θ * D)) := by ring
    rw [e]
    have a := abs_add_le S (θ * D + (m - θ * D))
    have b := abs_add_le (θ * D) (m - θ * D)
    linarith
  have e : t - (S + θ * D) = (S + m) * δ + (m - θ * D) := by rw [h3]; ring
  rw [e]
  have a := abs_add_le ((S + m) * δ) (m - θ * D)
  have b : |(S + m) * δ| ≤ (|S| + D + ((7 / 2 * u + 5 / 2 * (u * u)) * D + η)) * u := by
    rw [abs_mul]
    exact mul_le_mul hSm hδ (abs_nonneg _) (by have := abs_nonneg S; positivity)
  -- the polynomial side: u·D + (1+u)(7u/2 + 5u²/2)·D ≤ 5u·D, (1+u)·η ≤ 2η
  have hS := abs_nonneg S
  have k1 : (1 + u) * (7 / 2 * u + 5 / 2 * (u * u)) + u ≤ 5 * u := by nlinarith [mul_nonneg hu0 hu0]
  have k2 : ((1 + u) * (7 / 2 * u + 5 / 2 * (u * u)) + u) * D ≤ 5 * u * D := mul_le_mul_of_nonneg_right k1 hD
  have k3 : u * η ≤ η := by nlinarith
  nlinarith

/-- the two shapes of the time progress: `pr` itself, or `fl(1 − pr)`; both within `5u/2` of `θ`. -/
theorem progress_fwd_rat (q pr u η : ℚ) (hu0 : 0 ≤ u) (hη : η ≤ u / 100) (hq0 : 0 ≤ q) (hq1 : q ≤ 1)
    (h : |pr - q| ≤ u * q + η) : |pr - q| ≤ 5 / 2 * u := by
  have : u * q ≤ u * 1 := mul_le_mul_of_nonneg_left hq1 hu0
  linarith

theorem progress_rev_rat (q pr tp δ u η : ℚ) (hu0 : 0 ≤ u) (hu : u ≤ 1 / 100) (hη0 : 0 ≤ η) (hη : η ≤ u / 100)
    (hq0 : 0 ≤ q) (hq1 : q ≤ 1) (h : |pr - q| ≤ u * q + η) (htp : tp = (1 - pr) * (1 + δ)) (hδ : |δ| ≤ u) :
    |tp - (1 - q)| ≤ 5 / 2 * u := by
  have h1 : |pr - q| ≤ u + η := by
    have : u * q ≤ u * 1 := mul_le_mul_of_nonneg_left hq1 hu0
    linarith
  have h2 : |1 - pr| ≤ 1 + (u + η) := by
    have e : 1 - pr = (1 - q) + -(pr - q) := by ring
    rw [e]
    have a := abs_add_le (1 - q) (-(pr - q))
    rw [abs_neg, abs_of_nonneg (by linarith : (0 : ℚ) ≤ 1 - q)] at a
    linarith
  have e : tp - (1 - q) = (1 - pr) * δ + -(pr - q) := by rw [htp]; ring
  rw [e]
  have a := abs_add_le ((1 - pr) * δ) (-(pr - q))
  rw [abs_neg] at a
  have b : |(1 - pr) * δ| ≤ (1 + (u + η)) * u := by
    rw [abs_mul]; exact mul_le_mul h2 hδ (abs_nonneg _) (by linarith)
  nlinarith [mul_nonneg hu0 hu0, mul_nonneg hu0 hη0]

theorem toRat_one : toRat (1 : Float) = 1 := by
  have h : (1 : Float).toModel.unpack = .finite .positive 4503599627370496 (-52) (by decide) := by
    have : (1 : Float) = Float.ofBits 0x3FF0000000000000 := by decide +kernel
    rw [this, FM.float_unpack_ofBits _ (by decide)]; rfl
  rw [toRat_of_unpack h]; norm_num [sgnQ]

/-- **the tick-time expression on doubles**: `S + (rev ? 1 − d/len : d/len) · D` evaluated in binary64 is within
`u·|S| + 5u·D + 2⁻¹⁰⁷⁴` of the same expression evaluated exactly, whenever the result is finite. -/
theorem tick_time_expr_err_float (S d len D : Float) (rev : Bool)
    (hfin : (S + (if rev then (1 : Float) - d / len else d / len) * D).isFinite = true)
    (fl : len.isFinite = true) (hl : 0 < toRat len) (hd : 0 ≤ toRat d) (hdl : toRat d ≤ toRat len)
    (hD : 0 ≤ toRat D) :
    |toRat (S + (if rev then (1 : Float) - d / len else d / len) * D) -
        (toRat S + (if rev then 1 - toRat d / toRat len else toRat d / toRat len) * toRat D)| ≤
      u₅₃ * |toRat S| + 5 * u₅₃ * toRat D + (2 : ℚ) ^ (-1074 : Int) := by
  have hu0 := u53_pos.le
  have hu : u₅₃ ≤ 1 / 100 := by norm_num
  have hq0 : 0 ≤ toRat d / toRat len := div_nonneg hd hl.le
  have hq1 : toRat d / toRat len ≤ 1 := by rw [div_le_one hl]; exact hdl
  rw [← two_eta]
  obtain ⟨fS, fm⟩ := finite_of_add_finite _ _ hfin
  obtain ⟨δ₃, hδ₃, h3⟩ := add_err_float _ _ fS fm hfin
  obtain ⟨ftp, fD⟩ := finite_of_mul_finite _ _ fm
  have h2 := (mul_rnd_float _ _ ftp fD fm).abs_add
  cases rev with
  | false =>
    simp only [Bool.false_eq_true, if_false] at hfin fm ftp h2 h3 ⊢
    have fd := finite_of_div_finite _ _ ftp
    have h1 := (div_rnd_float d len fd fl ftp).abs_add
    rw [abs_of_nonneg hq0] at h1
    exact time_rat _ _ _ _ _ _ δ₃ _ _ hu0 hu eta_pos.le eta_le hq0 hq1 hD
      (progress_fwd_rat _ _ _ _ hu0 eta_le hq0 hq1 h1) h2 h3 hδ₃
  | true =>
    simp only [if_true] at hfin fm ftp h2 h3 ⊢
    obtain ⟨f1, fpr⟩ := finite_of_sub_finite _ _ ftp
    have fd := finite_of_div_finite _ _ fpr
    have h1 := (div_rnd_float d len fd fl fpr).abs_add
    rw [abs_of_nonneg hq0] at h1
    obtain ⟨δ₄, hδ₄, h4⟩ := sub_err_float _ _ f1 fpr ftp
    rw [toRat_one] at h4
    exact time_rat _ _ _ _ _ _ δ₃ _ _ hu0 hu eta_pos.le eta_le (by linarith) (by linarith) hD
      (progress_rev_rat _ _ _ δ₄ _ _ hu0 hu eta_pos.le eta_le hq0 hq1 h1 h4 hδ₄) h2 h3 hδ₃

/-- **tick_time_err_float** — the time of the tick at distance `d` of span `s`, IEEE binary64, against the closed form
of Props/C20Exact.lean (`tickEvent_exact`) evaluated exactly on the stored span start: if the tick time is finite,
`len` is finite, `0 < len`, `0 ≤ d ≤ len` (IEEE comparisons) and `0 ≤ span_duration`, then

    `|toRat time − (S + θ·D)| ≤ 2⁻⁵³·|S| + 5·2⁻⁵³·D + 2⁻¹⁰⁷⁴`,
    `S = toRat (span_start s)`, `D = toRat span_duration`, `θ = d/len` (forward) or `1 − d/len` (reversed span). -/
theorem tick_time_err_float (p : Params Float) (s : Int) (d : Float)
    (hfin : (tickEvent p s d).time.isFinite = true) (hlenf : p.len.isFinite = true)
    (hlen : Scalar.lt (0 : Float) p.len = true) (hd0 : Scalar.le (0 : Float) d = true)
    (hdl : Scalar.le d p.len = true) (hdur : Scalar.le (0 : Float) p.spanDuration = true) :
    |toRat (tickEvent p s d).time -
        (toRat (spanStart p s) +
          (if isReversed s then 1 - toRat d / toRat p.len else toRat d / toRat p.len) * toRat p.spanDuration)| ≤
      u₅₃ * |toRat (spanStart p s)| + 5 * u₅₃ * toRat p.spanDuration + (2 : ℚ) ^ (-1074 : Int) := by
  rw [tickEvent_time] at hfin ⊢
  obtain ⟨_, fm⟩ := finite_of_add_finite _ _ hfin
  obtain ⟨ftp, fD⟩ := finite_of_mul_finite _ _ fm
  have fd : d.isFinite = true := by
    cases hr : isReversed s
    · rw [hr] at ftp; simp only [Bool.false_eq_true, if_false] at ftp; exact finite_of_div_finite _ _ ftp
    · rw [hr] at ftp; simp only [if_true] at ftp
      exact finite_of_div_finite _ _ (finite_of_sub_finite _ _ ftp).2
  exact tick_time_expr_err_float (spanStart p s) d p.len p.spanDuration (isReversed s) hfin hlenf
    (toRat_pos _ hlen hlenf) (toRat_nonneg _ hd0 fd) (toRat_le_of_le _ _ fd hlenf hdl) (toRat_nonneg _ hdur fD)

/-- **for every tick of a run of the loop**: the order hypotheses on `d` are theorems
(`span_tick_dists_increasing_float`). -/
theorem tick_time_err_of_run_float (p : Params Float) (fuel : Nat) (ds : List Float)
    (h : spanTickDists p fuel = some ds) (hlenf : p.len.isFinite = true)
    (hdur : Scalar.le (0 : Float) p.spanDuration = true) (s : Int) (d : Float) (hd : d ∈ ds)
    (hfin : (tickEvent p s d).time.isFinite = true) :
    |toRat (tickEvent p s d).time -
        (toRat (spanStart p s) +
          (if isReversed s then 1 - toRat d / toRat p.len else toRat d / toRat p.len) * toRat p.spanDuration)| ≤
      u₅₃ * |toRat (spanStart p s)| + 5 * u₅₃ * toRat p.spanDuration + (2 : ℚ) ^ (-1074 : Int) := by
  obtain ⟨_, hall, _, _⟩ := span_tick_dists_increasing_float p fuel ds h
  obtain ⟨_, hpos, _, hle, _⟩ := hall d hd
  have hlen : Scalar.lt (0 : Float) p.len = true := FMO.lt_of_lt_of_le _ _ _ hpos hle
  exact tick_time_err_float p s d hfin hlenf hlen (FMO.le_of_lt _ _ hpos) hle hdur

/-! ## the span start, and the fully exact closed form -/

/-- **`f64::from(s)` is exact** for `|s| < 2⁵³` (every `i32`). -/
theorem toRat_ofInt (z : Int) (hz : z.natAbs < 2 ^ 53) : toRat (Float.ofInt z) = (z : ℚ) := by
  by_cases h0 : z = 0
  · subst h0
    unfold toRat; rw [FIE.up_ofInt_zero]; simp [uval]
  · obtain ⟨hm, hu⟩ := FIE.up_ofInt z h0 hz
    rw [toRat_of_unpack hu]
    have hl := FIE.log2_le_52 (by omega : z.natAbs ≠ 0) hz
    have hp : ((2 : ℚ) ^ (52 - z.natAbs.log2)) * (2 : ℚ) ^ ((z.natAbs.log2 : Int) - 52) = 1 := by
      rw [← zpow_natCast, ← zpow_add₀ (two_ne_zero)]
      have : ((52 - z.natAbs.log2 : Nat) : Int) + ((z.natAbs.log2 : Int) - 52) = 0 := by omega
      rw [this, zpow_zero]
    push_cast
    rw [mul_assoc, mul_assoc, hp, mul_one]
    unfold FTR.isign
    by_cases hneg : z < 0
    · rw [if_pos hneg]
      have : ((z.natAbs : Nat) : ℚ) = -(z : ℚ) := by
        have h' : ((z.natAbs : Nat) : Int) = -z := by omega
        rw [← Int.cast_natCast, h', Int.cast_neg]
      rw [this]; simp [sgnQ]
    · rw [if_neg hneg]
      have : ((z.natAbs : Nat) : ℚ) = (z : ℚ) := by
        have h' : ((z.natAbs : Nat) : Int) = z := by omega
        rw [← Int.cast_natCast, h']
      rw [this]; simp [sgnQ]

/-- `a + b·c` with a rounded product and a rounded sum, in ℚ. -/
theorem start_rat (A V m t δ u η : ℚ) (hu0 : 0 ≤ u) (hu : u ≤ 1 / 100) (hη0 : 0 ≤ η)
    (h2 : |m - V| ≤ u * |V| + η) (h3 : t = (A + m) * (1 + δ)) (hδ : |δ| ≤ u) :
    |t - (A + V)| ≤ u * |A| + 3 * u * |V| + 2 * η := by
  have e : t - (A + V) = (A + m) * δ + (m - V) := by rw [h3]; ring
  have hAm : |A + m| ≤ |A| + |V| + (u * |V| + η) := by
    have e' : A + m = A + (V + (m - V)) := by ring
    rw [e']
    have a := abs_add_le A (V + (m - V))
    have b := abs_add_le V (m - V)
    linarith
  rw [e]
  have a := abs_add_le ((A + m) * δ) (m - V)
  have b : |(A + m) * δ| ≤ (|A| + |V| + (u * |V| + η)) * u := by
    rw [abs_mul]
    exact mul_le_mul hAm hδ (abs_nonneg _) (by have := abs_nonneg A; have := abs_nonneg V; positivity)
  have hA := abs_nonneg A
  have hV := abs_nonneg V
  have k1 : u * u * |V| ≤ u * |V| := by
    have : u * u ≤ u := by nlinarith
    exact mul_le_mul_of_nonneg_right this hV
  have k3 : u * η ≤ η := by nlinarith
  nlinarith

/-- **span_start_err_float**: `span_start = start + f64::from(s) · span_duration` (one product, one sum) against
`start + s · D`: `≤ u·|start| + 3u·|s|·D + 2⁻¹⁰⁷⁴`, for a finite span start and `|s| < 2⁵³`. -/
theorem span_start_err_float (p : Params Float) (s : Int) (hs : s.natAbs < 2 ^ 53)
    (hfin : (spanStart p s).isFinite = true) :
    |toRat (spanStart p s) - (toRat p.startTime + (s : ℚ) * toRat p.spanDuration)| ≤
      u₅₃ * |toRat p.startTime| + 3 * u₅₃ * |(s : ℚ) * toRat p.spanDuration| + (2 : ℚ) ^ (-1074 : Int) := by
  unfold spanStart at hfin ⊢
  rw [FIE.scalar_ofInt] at hfin ⊢
  obtain ⟨fA, fm⟩ := finite_of_add_finite _ _ hfin
  obtain ⟨δ, hδ, h3⟩ := add_err_float _ _ fA fm hfin
  obtain ⟨fz, fD⟩ := finite_of_mul_finite _ _ fm
  have h2 := (mul_rnd_float _ _ fz fD fm).abs_add
  rw [toRat_ofInt s hs] at h2
  rw [← two_eta]
  exact start_rat _ _ _ _ δ _ _ u53_pos.le (by norm_num) eta_pos.le h2 h3 hδ

/-- **tick_time_total_err_float** — the tick time against the *fully exact* closed form of Props/C20Exact.lean,
`start + s·D + θ·D` (`spanStartK` plus the progress term): the two bounds added,

    `|toRat time − (start + s·D + θ·D)| ≤ u·(|S| + |start|) + u·(5 + 3|s|)·D + 2⁻¹⁰⁷³`,    `S = toRat (span_start s)`. -/
theorem tick_time_total_err_float (p : Params Float) (s : Int) (d : Float) (hs : s.natAbs < 2 ^ 53)
    (hfin : (tickEvent p s d).time.isFinite = true) (hlenf : p.len.isFinite = true)
    (hlen : Scalar.lt (0 : Float) p.len = true) (hd0 : Scalar.le (0 : Float) d = true)
    (hdl : Scalar.le d p.len = true) (hdur : Scalar.le (0 : Float) p.spanDuration = true) :
    |toRat (tickEvent p s d).time -
        (toRat p.startTime + (s : ℚ) * toRat p.spanDuration +
          (if isReversed s then 1 - toRat d / toRat p.len else toRat d / toRat p.len) * toRat p.spanDuration)| ≤
      u₅₃ * (|toRat (spanStart p s)| + |toRat p.startTime|) +
        u₅₃ * (5 + 3 * |(s : ℚ)|) * toRat p.spanDuration + (2 : ℚ) ^ (-1073 : Int) := by
  have h1 := tick_time_err_float p s d hfin hlenf hlen hd0 hdl hdur
  have fS : (spanStart p s).isFinite = true := by
    rw [tickEvent_time] at hfin; exact (finite_of_add_finite _ _ hfin).1
  have h2 := span_start_err_float p s hs fS
  have fD : p.spanDuration.isFinite = true := by
    unfold spanStart at fS
    exact (finite_of_mul_finite _ _ (finite_of_add_finite _ _ fS).2).2
  have hD := toRat_nonneg _ hdur fD
  rw [abs_mul, abs_of_nonneg hD] at h2
  have e73 : (2 : ℚ) ^ (-1073 : Int) = (2 : ℚ) ^ (-1074 : Int) + (2 : ℚ) ^ (-1074 : Int) := by
    rw [show (-1073 : Int) = -1074 + 1 by norm_num, zpow_add₀ (two_ne_zero), zpow_one]; ring
  rw [e73]
  generalize (if isReversed s then 1 - toRat d / toRat p.len else toRat d / toRat p.len) = θ at *
  have tri := abs_add_le (toRat (tickEvent p s d).time - (toRat (spanStart p s) + θ * toRat p.spanDuration))
    (toRat (spanStart p s) - (toRat p.startTime + (s : ℚ) * toRat p.spanDuration))
  have e : toRat (tickEvent p s d).time -
      (toRat p.startTime + (s : ℚ) * toRat p.spanDuration + θ * toRat p.spanDuration) =
      (toRat (tickEvent p s d).time - (toRat (spanStart p s) + θ * toRat p.spanDuration)) +
      (toRat (spanStart p s) - (toRat p.startTime + (s : ℚ) * toRat p.spanDuration)) := by ring
  rw [e]
  refine le_trans tri ?_
  have : u₅₃ * (|toRat (spanStart p s)| + |toRat p.startTime|) + u₅₃ * (5 + 3 * |(s : ℚ)|) * toRat p.spanDuration +
      ((2 : ℚ) ^ (-1074 : Int) + (2 : ℚ) ^ (-1074 : Int)) =
      (u₅₃ * |toRat (spanStart p s)| + 5 * u₅₃ * toRat p.spanDuration + (2 : ℚ) ^ (-1074 : Int)) +
      (u₅₃ * |toRat p.startTime| + 3 * u₅₃ * (|(s : ℚ)| * toRat p.spanDuration) + (2 : ℚ) ^ (-1074 : Int)) := by ring
  rw [this]
  exact add_le_add h1 h2

/-! ## non-vacuity: the third tick of `exG` (kernel-evaluated) -/

section Examples

/-- the third tick of `exG` (forward span 0): distance `0.30000000000000004`, progress the same (`len = 1`), time
`300.00000000000006 = 0x4072C00000000001`. -/
theorem exG_third_tick :
    (tickEvent exG 0 (Float.ofBits 0x3FD3333333333334)).pathProgress = Float.ofBits 0x3FD3333333333334 ∧
    (tickEvent exG 0 (Float.ofBits 0x3FD3333333333334)).time = Float.ofBits 0x4072C00000000001 := by
  decide +kernel

/-- the hypotheses of `tick_time_err_float` / `tick_time_err_of_run_float` hold there … -/
theorem exG_third_tick_hyps :
    (tickEvent exG 0 (Float.ofBits 0x3FD3333333333334)).time.isFinite = true ∧ exG.len.isFinite = true ∧
    Scalar.lt (0 : Float) exG.len = true ∧ Scalar.le (0 : Float) (Float.ofBits 0x3FD3333333333334) = true ∧
    Scalar.le (Float.ofBits 0x3FD3333333333334) exG.len = true ∧ Scalar.le (0 : Float) exG.spanDuration = true ∧
    Float.ofBits 0x3FD3333333333334 ∈ exGds := by
  refine ⟨by decide +kernel, by decide +kernel, by decide +kernel, by decide +kernel, by decide +kernel,
    by decide +kernel, ?_⟩
  simp [exGds]

/-- … and so does the conclusion (an instance of the theorem). -/
example :
    |toRat (tickEvent exG 0 (Float.ofBits 0x3FD3333333333334)).time -
        (toRat (spanStart exG 0) + (toRat (Float.ofBits 0x3FD3333333333334) / toRat exG.len) * toRat exG.spanDuration)| ≤
      u₅₃ * |toRat (spanStart exG 0)| + 5 * u₅₃ * toRat exG.spanDuration + (2 : ℚ) ^ (-1074 : Int) := by
  obtain ⟨h1, h2, _, _, _, h6, h7⟩ := exG_third_tick_hyps
  have := tick_time_err_of_run_float exG 20 exGds exG_run h2 h6 0 _ h7 h1
  simpa [isReversed] using this

/-- the numbers: exact closed form `1000 · toRat 0.30000000000000004`, stored `300.00000000000006`; the difference,
computed exactly, is `7 · 2⁻⁴⁹ ≈ 1.2e-14` — not zero (the product is rounded), and below `5 · 2⁻⁵³ · 1000 ≈ 5.6e-13`. -/
example : toRat (Float.ofBits 0x4072C00000000001) - toRat (Float.ofBits 0x3FD3333333333334) * 1000 =
    7 / 562949953421312 ∧ (7 / 562949953421312 : ℚ) ≤ 5 * u₅₃ * 1000 := by
  refine ⟨?_, by norm_num⟩
  have a : (Float.ofBits 0x4072C00000000001).toModel.unpack =
      .finite .positive 5277655813324801 (-44) (by decide) := by
    rw [FM.float_unpack_ofBits _ (by decide)]; rfl
  rw [toRat_of_unpack a, toRat_of_unpack unpack_third_tick]
  norm_num [sgnQ]

/-- the path-progress bound on the same tick (`k = 2`): hypotheses and instance. -/
example : (exGds[2] / exG.len).isFinite = true ∧
    |toRat (exGds[2] / exG.len) - ((2 : Nat) + 1 : ℚ) * toRat exG.tickDist / toRat exG.len| ≤
      ((1 + u₅₃) ^ (2 + 1) - 1) * (((2 : Nat) + 1 : ℚ) * toRat exG.tickDist / toRat exG.len) := by
  refine tick_progress_multiple_err_float exG 20 exGds exG_run exG_len_finite 2 (by decide) ?_
  have hl : exG.len.toModel.unpack = .finite .positive 4503599627370496 (-52) (by decide) := by
    have : exG.len = Float.ofBits 0x3FF0000000000000 := by decide +kernel
    rw [this, FM.float_unpack_ofBits _ (by decide)]; rfl
  show _ ≤ toRat (Float.ofBits 0x3FD3333333333334) / _
  rw [toRat_of_unpack unpack_third_tick, toRat_of_unpack hl]
  refine le_trans (zpow_le_zpow_right₀ (by norm_num) (by norm_num) : (2 : ℚ) ^ (-1022 : Int) ≤ (2 : ℚ) ^ (-10 : Int)) ?_
  norm_num [sgnQ]

/-- `tick_time_total_err_float` on the same tick (span 0 of `exG`; `|0| < 2⁵³`): an instance. -/
example :
    |toRat (tickEvent exG 0 (Float.ofBits 0x3FD3333333333334)).time -
        (toRat exG.startTime + ((0 : Int) : ℚ) * toRat exG.spanDuration +
          (toRat (Float.ofBits 0x3FD3333333333334) / toRat exG.len) * toRat exG.spanDuration)| ≤
      u₅₃ * (|toRat (spanStart exG 0)| + |toRat exG.startTime|) +
        u₅₃ * (5 + 3 * |((0 : Int) : ℚ)|) * toRat exG.spanDuration + (2 : ℚ) ^ (-1073 : Int) := by
  obtain ⟨h1, h2, h3, h4, h5, h6, _⟩ := exG_third_tick_hyps
  have := tick_time_total_err_float exG 0 _ (by decide) h1 h2 h3 h4 h5 h6
  simpa [isReversed] using this

/-- `f64::from` on a negative span index, exactly. -/
example : toRat (Float.ofInt (-7)) = -7 := by
  have := toRat_ofInt (-7) (by decide); simpa using this

end Examples

end Rosu.C20
