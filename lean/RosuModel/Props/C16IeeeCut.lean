/-
  Props/C16IeeeCut.lean — C16 on IEEE floats: WHERE the re-projected end point of `calculate_length` lies.

  Rust (`curve.rs`, `calculate_length`): `path[end] = path[k] + dir * ((L − lengths[k]) as f32)` with
  `dir = (path[k+1] − path[k]).normalize()`, `normalize` = multiply by `length().recip()` in `f32`.
  Model: `C16.cutPoint` (Props/C16.lean; `cut_shape` shows it is the last point of the adjusted path);
  `cutPoint_eq_reproject` identifies it with `reproject p_k p_{k+1} t`, `t = (L − len_k) as f32`.

  Per coordinate the code performs six roundings in `f32`: `b ⊖ a`, `1 ⊘ ell`, `⊗`, `⊗`, `⊕` (`reproject_chain` over ℚ,
  `coord_err_float32`). `ell` (computed through an `f64` `sqrt`, which the error layer does not cover) is a PARAMETER: a
  finite positive `f32`; every bound is relative to the `ell` the code actually used, i.e. to the point
  `p_k + (τ/ℓ)(p_{k+1} − p_k)` of the exact line through the segment. `τ = toRat32 t` is the `f32` parameter the code used.

  * (1) `cut_end_point_err_float32`: coordinates `≤ 2¹⁹`, `0 < ℓ ≤ 2²¹`, `0 ≤ τ ≤ ℓ(1+κ)`, `κ ≤ 2⁻²⁰` ⟹ both coordinates
    within `cutBound = 11·2⁻²⁴·2¹⁹ + 2⁻²⁰ < 0.34376` px of `p_k + ρ(p_{k+1} − p_k)`, `ρ = τ/ℓ ∈ [0, 1+κ]`.
  * (2) `ext_end_point_err_float32`: `0 ≤ τ ≤ 2⁴⁰` ⟹ within `2⁻⁵ + (5·2⁻²⁴ + 2⁻⁴⁴)·|ρ Δ| + 2⁻¹⁰⁰` per coordinate of the ray point.
  * (3) `cut_end_point_near_segment` (`κ ≤ 2⁻²³`: within `1/2` px per coordinate of a point of the SEGMENT),
    `ext_end_point_near_ray` (`≤ 11/16` px when the extension travels `≤ 2²¹` px per axis); kernel-evaluated demo:
    the computed end point is off the exact line (errors `2⁻¹⁵/10`, `2⁻¹⁴/10`).
  * range of the parameter: `param_range_q`, `cut_param_range_float_partial` (`τ ≤ ℓ(1 + 2⁻²³)` from
    `L ≤ len_k ⊕ f64::from(ell)`), PARTIAL: the two conversion facts (`Cvt.up` exact on values, `Cvt.down` one correct
    rounding) are hypotheses — `upBits`/`downBits` are bit-level definitions outside `Float.Model` and are not connected
    to `toRat`/`toRat32` yet. `τ ≥ 0` is a hypothesis of (1)/(2) for the same reason.
  The only finiteness hypotheses are on the *result* coordinates and on `ell`; finiteness of all intermediates follows.
-/
import RosuModel.Props.C16
import RosuModel.Lemmas.FloatErr32
namespace Rosu.C16
open Rosu Rosu.FErr

/-! ### the accumulated error, over ℚ -/

/-- **the six roundings of one coordinate of the re-projection**, over ℚ: `d = fl(b − a)`, `r = fl(1/ℓ)`, `w = fl(d·r)`,
`v = fl(w·τ)`, `e = fl(a + v)` with unit roundoff `u` (relative) and underflow unit `η` (absolute, the two
multiplications). Then `e` is within `u·A + ((1+u)⁵ − 1)·S + η·(M(1+u) + 1)(1+u)` of `a + τ·(b − a)/ℓ`, where `A`, `S`,
`M` bound `|a|`, the travelled coordinate distance `|τ·(b − a)/ℓ|` and `|τ|`. -/
theorem reproject_chain (a b ℓ τ d r w v e δ1 δ2 δ6 u η A S M : ℚ)
    (hu : 0 ≤ u) (hη : 0 ≤ η) (hℓ : 0 < ℓ)
    (hd : d = (b - a) * (1 + δ1)) (h1 : |δ1| ≤ u)
    (hr : r = 1 / ℓ * (1 + δ2)) (h2 : |δ2| ≤ u)
    (hw : |w - d * r| ≤ u * |d * r| + η)
    (hv : |v - w * τ| ≤ u * |w * τ| + η)
    (he : e = (a + v) * (1 + δ6)) (h6 : |δ6| ≤ u)
    (hA : |a| ≤ A) (hS : |τ * ((b - a) / ℓ)| ≤ S) (hM : |τ| ≤ M) :
    |e - (a + τ * ((b - a) / ℓ))| ≤ u * A + ((1 + u) ^ 5 - 1) * S + η * (M * (1 + u) + 1) * (1 + u) := by
  have hℓ0 : ℓ ≠ 0 := hℓ.ne'
  obtain ⟨q, hq⟩ : ∃ q : ℚ, q = (b - a) / ℓ := ⟨_, rfl⟩
  rw [← hq] at hS ⊢
  have hdr : d * r = q + q * (δ1 + δ2 + δ1 * δ2) := by
    rw [hd, hr, hq]; field_simp; ring
  have hX : 0 ≤ |q| := abs_nonneg q
  have hT : 0 ≤ |τ| := abs_nonneg τ
  have hP : |q| * |τ| ≤ S := by rw [← abs_mul, mul_comm]; exact hS
  have hP0 : 0 ≤ |q| * |τ| := mul_nonneg hX hT
  have hθ : |δ1 + δ2 + δ1 * δ2| ≤ 2 * u + u * u := by
    have t1 : |δ1 * δ2| ≤ u * u := by
      rw [abs_mul]; exact mul_le_mul h1 h2 (abs_nonneg _) hu
    calc |δ1 + δ2 + δ1 * δ2| ≤ |δ1 + δ2| + |δ1 * δ2| := abs_add_le _ _
      _ ≤ |δ1| + |δ2| + |δ1 * δ2| := by linarith [abs_add_le δ1 δ2]
      _ ≤ 2 * u + u * u := by linarith
  -- k1, k2
  have k1 : |d * r - q| ≤ |q| * (2 * u + u * u) := by
    have : d * r - q = q * (δ1 + δ2 + δ1 * δ2) := by rw [hdr]; ring
    rw [this, abs_mul]; exact mul_le_mul_of_nonneg_left hθ hX
  have k2 : |d * r| ≤ |q| * (1 + 2 * u + u * u) := by
    have : d * r = q + (d * r - q) := by ring
    calc |d * r| = |q + (d * r - q)| := by rw [← this]
      _ ≤ |q| + |d * r - q| := abs_add_le _ _
      _ ≤ |q| * (1 + 2 * u + u * u) := by linarith
  -- k3
  have k3 : |w - q| ≤ |q| * ((1 + u) ^ 3 - 1) + η := by
    have t : |w - q| ≤ |w - d * r| + |d * r - q| := abs_sub_le _ _ _
    have t2 : u * |d * r| ≤ u * (|q| * (1 + 2 * u + u * u)) := mul_le_mul_of_nonneg_left k2 hu
    have e3 : |q| * ((1 + u) ^ 3 - 1) = u * (|q| * (1 + 2 * u + u * u)) + |q| * (2 * u + u * u) := by ring
    rw [e3]; linarith
  -- k4
  have k4 : |w * τ - q * τ| ≤ |q| * |τ| * ((1 + u) ^ 3 - 1) + η * M := by
    have : w * τ - q * τ = (w - q) * τ := by ring
    rw [this, abs_mul]
    have t1 : |w - q| * |τ| ≤ (|q| * ((1 + u) ^ 3 - 1) + η) * |τ| := mul_le_mul_of_nonneg_right k3 hT
    have t2 : η * |τ| ≤ η * M := mul_le_mul_of_nonneg_left hM hη
    calc |w - q| * |τ| ≤ (|q| * ((1 + u) ^ 3 - 1) + η) * |τ| := t1
      _ = |q| * |τ| * ((1 + u) ^ 3 - 1) + η * |τ| := by ring
      _ ≤ _ := by linarith
  have k5 : |w * τ| ≤ |q| * |τ| * (1 + u) ^ 3 + η * M := by
    have : w * τ = q * τ + (w * τ - q * τ) := by ring
    calc |w * τ| = |q * τ + (w * τ - q * τ)| := by rw [← this]
      _ ≤ |q * τ| + |w * τ - q * τ| := abs_add_le _ _
      _ = |q| * |τ| + |w * τ - q * τ| := by rw [abs_mul]
      _ ≤ |q| * |τ| * (1 + u) ^ 3 + η * M := by
          have : |q| * |τ| * (1 + u) ^ 3 = |q| * |τ| + |q| * |τ| * ((1 + u) ^ 3 - 1) := by ring
          rw [this]; linarith
  -- k6
  have k6 : |v - q * τ| ≤ |q| * |τ| * ((1 + u) ^ 4 - 1) + (η * M * (1 + u) + η) := by
    have t : |v - q * τ| ≤ |v - w * τ| + |w * τ - q * τ| := abs_sub_le _ _ _
    have t2 : u * |w * τ| ≤ u * (|q| * |τ| * (1 + u) ^ 3 + η * M) := mul_le_mul_of_nonneg_left k5 hu
    have e4 : |q| * |τ| * ((1 + u) ^ 4 - 1) + (η * M * (1 + u) + η) =
        u * (|q| * |τ| * (1 + u) ^ 3 + η * M) + η + (|q| * |τ| * ((1 + u) ^ 3 - 1) + η * M) := by ring
    rw [e4]; linarith
  have k7 : |v| ≤ |q| * |τ| * (1 + u) ^ 4 + (η * M * (1 + u) + η) := by
    have : v = q * τ + (v - q * τ) := by ring
    calc |v| = |q * τ + (v - q * τ)| := by rw [← this]
      _ ≤ |q * τ| + |v - q * τ| := abs_add_le _ _
      _ = |q| * |τ| + |v - q * τ| := by rw [abs_mul]
      _ ≤ _ := by
          have : |q| * |τ| * (1 + u) ^ 4 = |q| * |τ| + |q| * |τ| * ((1 + u) ^ 4 - 1) := by ring
          rw [this]; linarith
  -- k8
  have e8 : e - (a + τ * q) = (a + v) * δ6 + (v - q * τ) := by rw [he]; ring
  have t8 : |(a + v) * δ6| ≤ (A + (|q| * |τ| * (1 + u) ^ 4 + (η * M * (1 + u) + η))) * u := by
    rw [abs_mul]
    have : |a + v| ≤ A + (|q| * |τ| * (1 + u) ^ 4 + (η * M * (1 + u) + η)) := by
      linarith [abs_add_le a v]
    exact mul_le_mul this h6 (abs_nonneg _) (le_trans (abs_nonneg _) this)
  have c5 : 0 ≤ (1 + u) ^ 5 - 1 := by
    have : (1 : ℚ) ≤ (1 + u) ^ 5 := one_le_pow₀ (by linarith)
    linarith
  have hfin : |q| * |τ| * ((1 + u) ^ 5 - 1) ≤ S * ((1 + u) ^ 5 - 1) := mul_le_mul_of_nonneg_right hP c5
  rw [e8]
  calc |(a + v) * δ6 + (v - q * τ)| ≤ |(a + v) * δ6| + |v - q * τ| := abs_add_le _ _
    _ ≤ (A + (|q| * |τ| * (1 + u) ^ 4 + (η * M * (1 + u) + η))) * u +
          (|q| * |τ| * ((1 + u) ^ 4 - 1) + (η * M * (1 + u) + η)) := by linarith
    _ = u * A + |q| * |τ| * ((1 + u) ^ 5 - 1) + η * (M * (1 + u) + 1) * (1 + u) := by ring
    _ ≤ _ := by linarith

/-! ### one coordinate, `f32` -/

/-- one coordinate of `p_k + dir · t`, `dir = (p_{k+1} − p_k) · recip(ell)`, exactly as the code associates it. -/
def coordReproject (a b ell t : Float32) : Float32 := a + ((b - a) * Scalar.recip ell) * t

/-- **the rounding error of one coordinate of the re-projected end point** (`f32`, six roundings: `b ⊖ a`, `1 ⊘ ell`,
`⊗`, `⊗`, `⊕`; the rounding of `t = (L − len_k) as f32` is *not* counted here, `t` is the `f32` the code used).
`ell` is any finite positive `f32` (the code uses `f64::from(dx² + dy²).sqrt() as f32`; nothing about `sqrt` is needed),
`ℓ ≤ 2¹²⁶` keeps `1/ℓ` out of the subnormal range. The only finiteness hypothesis is on the result. -/
theorem coord_err_float32 (a b ell t : Float32) (A S M : ℚ)
    (hfin : (coordReproject a b ell t).isFinite = true)
    (hell : ell.isFinite = true) (hpos : 0 < toRat32 ell) (hle : toRat32 ell ≤ (2 : ℚ) ^ (126 : Int))
    (hA : |toRat32 a| ≤ A)
    (hS : |toRat32 t * ((toRat32 b - toRat32 a) / toRat32 ell)| ≤ S) (hM : |toRat32 t| ≤ M) :
    |toRat32 (coordReproject a b ell t) - (toRat32 a + toRat32 t * ((toRat32 b - toRat32 a) / toRat32 ell))| ≤
      (2 : ℚ) ^ (-24 : Int) * A + ((1 + (2 : ℚ) ^ (-24 : Int)) ^ 5 - 1) * S +
        (2 : ℚ) ^ (-150 : Int) * (M * (1 + (2 : ℚ) ^ (-24 : Int)) + 1) * (1 + (2 : ℚ) ^ (-24 : Int)) := by
  unfold coordReproject at hfin ⊢
  obtain ⟨fa, fv⟩ := finite_of_add_finite32 _ _ hfin
  obtain ⟨fw, ft⟩ := finite_of_mul_finite32 _ _ fv
  obtain ⟨fd, fr⟩ := finite_of_mul_finite32 _ _ fw
  obtain ⟨fb, _⟩ := finite_of_sub_finite32 _ _ fd
  obtain ⟨δ1, h1, hd⟩ := sub_err_float32 b a fb fa fd
  have hrn : (2 : ℚ) ^ (-126 : Int) ≤ |1 / toRat32 ell| := by
    rw [abs_of_pos (by positivity), show (-126 : Int) = -(126 : Int) by norm_num, zpow_neg, one_div]
    exact inv_anti₀ hpos hle
  obtain ⟨δ2, h2, hr⟩ := (recip_rnd_float32 ell hell fr).rel hrn
  obtain ⟨δ6, h6, he⟩ := add_err_float32 _ _ fa fv hfin
  exact reproject_chain _ _ _ _ _ _ _ _ _ δ1 δ2 δ6 _ _ A S M (two_zpow_pos _).le (two_zpow_pos _).le hpos
    hd h1 hr h2 (mul_err_abs_float32 _ _ fd fr fw) (mul_err_abs_float32 _ _ fw ft fv) he h6 hA hS hM

/-! ### the two regimes of one coordinate -/

/-- **cut regime, one coordinate**: coordinates bounded by `2¹⁹` (decoded paths), `0 < ℓ ≤ 2²¹`, parameter
`ρ = τ/ℓ ∈ [0, 1 + κ]`, `κ ≤ 2⁻²⁰`. The coordinate is within `11 · 2⁻²⁴ · 2¹⁹ + 2⁻²⁰` (`< 0.34376` px) of
`a + ρ (b − a)`: one half-ulp of `|a| ≤ 2¹⁹` plus five half-ulps of the travelled `ρ|b − a| ≤ 2²⁰ + 1`. -/
theorem cut_coord_err (a b ell t : Float32) (κ : ℚ)
    (hfin : (coordReproject a b ell t).isFinite = true) (hell : ell.isFinite = true)
    (ha : |toRat32 a| ≤ 524288) (hb : |toRat32 b| ≤ 524288)
    (hpos : 0 < toRat32 ell) (hle : toRat32 ell ≤ 2097152)
    (ht0 : 0 ≤ toRat32 t) (ht1 : toRat32 t ≤ toRat32 ell * (1 + κ)) (hκ0 : 0 ≤ κ) (hκ : κ ≤ 1 / 1048576) :
    (0 ≤ toRat32 t / toRat32 ell ∧ toRat32 t / toRat32 ell ≤ 1 + κ) ∧
    |toRat32 (coordReproject a b ell t) - (toRat32 a + toRat32 t / toRat32 ell * (toRat32 b - toRat32 a))| ≤
      11 * (2 : ℚ) ^ (-24 : Int) * 524288 + (2 : ℚ) ^ (-20 : Int) := by
  have hρ0 : 0 ≤ toRat32 t / toRat32 ell := div_nonneg ht0 hpos.le
  have hρ1 : toRat32 t / toRat32 ell ≤ 1 + κ := by rw [div_le_iff₀ hpos]; linarith
  refine ⟨⟨hρ0, hρ1⟩, ?_⟩
  have hba : |toRat32 b - toRat32 a| ≤ 1048576 := by
    have := abs_sub (toRat32 b) (toRat32 a); linarith
  have e1 : toRat32 t * ((toRat32 b - toRat32 a) / toRat32 ell) =
      toRat32 t / toRat32 ell * (toRat32 b - toRat32 a) := by field_simp
  have hS : |toRat32 t * ((toRat32 b - toRat32 a) / toRat32 ell)| ≤ 1048577 := by
    rw [e1, abs_mul, abs_of_nonneg hρ0]
    calc toRat32 t / toRat32 ell * |toRat32 b - toRat32 a| ≤ (1 + 1 / 1048576) * 1048576 :=
          mul_le_mul (by linarith) hba (abs_nonneg _) (by norm_num)
      _ = 1048577 := by norm_num
  have hM : |toRat32 t| ≤ 4194304 := by
    rw [abs_of_nonneg ht0]
    calc toRat32 t ≤ toRat32 ell * (1 + κ) := ht1
      _ ≤ 2097152 * (1 + 1 / 1048576) := mul_le_mul hle (by linarith) (by linarith) (by norm_num)
      _ ≤ 4194304 := by norm_num
  have := coord_err_float32 a b ell t 524288 1048577 4194304 hfin hell hpos
    (le_trans hle (by norm_num)) ha hS hM
  rw [e1] at this
  refine le_trans this ?_
  norm_num

/-- **extension regime, one coordinate**: the parameter `τ` is any `f32` with `|τ| ≤ 2⁴⁰`; the error is one half-ulp of
`|a| ≤ 2¹⁹` plus (a little more than) five half-ulps *of the travelled coordinate distance* `|ρ (b − a)|` — a relative
bound, necessarily: the extension can be arbitrarily long. -/
theorem ext_coord_err (a b ell t : Float32)
    (hfin : (coordReproject a b ell t).isFinite = true) (hell : ell.isFinite = true)
    (ha : |toRat32 a| ≤ 524288) (hpos : 0 < toRat32 ell) (hle : toRat32 ell ≤ (2 : ℚ) ^ (126 : Int))
    (hM : |toRat32 t| ≤ (2 : ℚ) ^ (40 : Int)) :
    |toRat32 (coordReproject a b ell t) - (toRat32 a + toRat32 t / toRat32 ell * (toRat32 b - toRat32 a))| ≤
      (2 : ℚ) ^ (-5 : Int) +
        (5 * (2 : ℚ) ^ (-24 : Int) + (2 : ℚ) ^ (-44 : Int)) * |toRat32 t / toRat32 ell * (toRat32 b - toRat32 a)| +
        (2 : ℚ) ^ (-100 : Int) := by
  have e1 : toRat32 t * ((toRat32 b - toRat32 a) / toRat32 ell) =
      toRat32 t / toRat32 ell * (toRat32 b - toRat32 a) := by field_simp
  have := coord_err_float32 a b ell t 524288 _ _ hfin hell hpos hle ha (le_refl _) hM
  rw [e1] at this
  refine le_trans this ?_
  have c : ((1 + (2 : ℚ) ^ (-24 : Int)) ^ 5 - 1) ≤ 5 * (2 : ℚ) ^ (-24 : Int) + (2 : ℚ) ^ (-44 : Int) := by norm_num
  have := mul_le_mul_of_nonneg_right c (abs_nonneg (toRat32 t / toRat32 ell * (toRat32 b - toRat32 a)))
  have c2 : (2 : ℚ) ^ (-150 : Int) * ((2 : ℚ) ^ (40 : Int) * (1 + (2 : ℚ) ^ (-24 : Int)) + 1) *
      (1 + (2 : ℚ) ^ (-24 : Int)) ≤ (2 : ℚ) ^ (-100 : Int) := by norm_num
  have c3 : (2 : ℚ) ^ (-24 : Int) * 524288 = (2 : ℚ) ^ (-5 : Int) := by norm_num
  linarith

/-! ### the end point -/

/-- the re-projection of `calculate_length`: `p_k + (p_{k+1} − p_k).normalize() * t`. -/
def reproject (pp pe : Pos Float32) (t : Float32) : Pos Float32 :=
  pp + (Pos.normalize Float (pe - pp)).smul t

theorem reproject_x (pp pe : Pos Float32) (t : Float32) :
    (reproject pp pe t).x = coordReproject pp.x pe.x (Pos.length Float (pe - pp)) t := rfl

theorem reproject_y (pp pe : Pos Float32) (t : Float32) :
    (reproject pp pe t).y = coordReproject pp.y pe.y (Pos.length Float (pe - pp)) t := rfl

/-- **the adjusted end point of `calculate_length` is this re-projection** with `t = (L − len_k) as f32`
(`cut_shape`, Props/C16.lean, shows that `cutPoint` is the last point of the adjusted path; `k + 1 = cutIdx`). -/
theorem cutPoint_eq_reproject (opt : Float) (path : List (Pos Float32)) (L : Float) :
    cutPoint opt path L =
      reproject (path.getD (cutIdx opt path L - 1) Pos.zero) (path.getD (cutIdx opt path L) Pos.zero)
        (Cvt.down (L - (natLens opt path).dropLast.getD (cutIdx opt path L - 1) 0)) := rfl

/-- bounded coordinates: `|x|, |y| ≤ 2¹⁹` (what the decoder guarantees for path points, `MAX_COORDINATE_VALUE = 131072`
and the curve approximations stay in the hull). -/
def Bounded19 (p : Pos Float32) : Prop := |toRat32 p.x| ≤ 524288 ∧ |toRat32 p.y| ≤ 524288

/-- the bound of the cut regime: `11 · 2⁻²⁴ · 2¹⁹ + 2⁻²⁰ = 11/32 + 2⁻²⁰` px. -/
def cutBound : ℚ := 11 * (2 : ℚ) ^ (-24 : Int) * 524288 + (2 : ℚ) ^ (-20 : Int)

theorem cutBound_lt : cutBound < 0.34376 := by unfold cutBound; norm_num

/-- **C16 on IEEE floats, cut regime (1).** Segment `k` with end points `pp = p_k`, `pe = p_{k+1}` bounded by `2¹⁹`,
`ell` = the `f32` length the code computes for it (finite, `0 < ℓ ≤ 2²¹`; nothing else is assumed about it: `sqrt` is not
needed), `t` = the `f32` parameter the code uses, `0 ≤ τ ≤ ℓ(1 + κ)`, `κ ≤ 2⁻²⁰`; the result has finite coordinates.
Then with `ρ = τ/ℓ ∈ [0, 1 + κ]` both coordinates of the new end point are within `11/32 + 2⁻²⁰` px of the point
`p_k + ρ (p_{k+1} − p_k)` of the line through the segment. -/
theorem cut_end_point_err_float32 (pp pe : Pos Float32) (t : Float32) (κ : ℚ)
    (hfx : (reproject pp pe t).x.isFinite = true) (hfy : (reproject pp pe t).y.isFinite = true)
    (hell : (Pos.length Float (pe - pp)).isFinite = true)
    (hpp : Bounded19 pp) (hpe : Bounded19 pe)
    (hpos : 0 < toRat32 (Pos.length Float (pe - pp))) (hle : toRat32 (Pos.length Float (pe - pp)) ≤ 2097152)
    (ht0 : 0 ≤ toRat32 t) (ht1 : toRat32 t ≤ toRat32 (Pos.length Float (pe - pp)) * (1 + κ))
    (hκ0 : 0 ≤ κ) (hκ : κ ≤ 1 / 1048576) :
    (0 ≤ toRat32 t / toRat32 (Pos.length Float (pe - pp)) ∧
      toRat32 t / toRat32 (Pos.length Float (pe - pp)) ≤ 1 + κ) ∧
    |toRat32 (reproject pp pe t).x - (toRat32 pp.x +
        toRat32 t / toRat32 (Pos.length Float (pe - pp)) * (toRat32 pe.x - toRat32 pp.x))| ≤ cutBound ∧
    |toRat32 (reproject pp pe t).y - (toRat32 pp.y +
        toRat32 t / toRat32 (Pos.length Float (pe - pp)) * (toRat32 pe.y - toRat32 pp.y))| ≤ cutBound := by
  rw [reproject_x] at hfx ⊢
  rw [reproject_y] at hfy ⊢
  obtain ⟨hr, hx⟩ := cut_coord_err _ _ _ t κ hfx hell hpp.1 hpe.1 hpos hle ht0 ht1 hκ0 hκ
  obtain ⟨_, hy⟩ := cut_coord_err _ _ _ t κ hfy hell hpp.2 hpe.2 hpos hle ht0 ht1 hκ0 hκ
  exact ⟨hr, hx, hy⟩

/-- **(3), cut regime, in the wording of the property**: if the parameter overshoots the segment by at most `κ ≤ 2⁻²³`
(relative; see `cut_param_range_float`), the new end point is within `1/2` px, in each coordinate, of a point
`p_k + ρ' (p_{k+1} − p_k)`, `ρ' ∈ [0, 1]`, **of the segment** (so within `√2/2` px of the segment). -/
theorem cut_end_point_near_segment (pp pe : Pos Float32) (t : Float32) (κ : ℚ)
    (hfx : (reproject pp pe t).x.isFinite = true) (hfy : (reproject pp pe t).y.isFinite = true)
    (hell : (Pos.length Float (pe - pp)).isFinite = true)
    (hpp : Bounded19 pp) (hpe : Bounded19 pe)
    (hpos : 0 < toRat32 (Pos.length Float (pe - pp))) (hle : toRat32 (Pos.length Float (pe - pp)) ≤ 2097152)
    (ht0 : 0 ≤ toRat32 t) (ht1 : toRat32 t ≤ toRat32 (Pos.length Float (pe - pp)) * (1 + κ))
    (hκ0 : 0 ≤ κ) (hκ : κ ≤ 1 / 8388608) :
    ∃ ρ' : ℚ, 0 ≤ ρ' ∧ ρ' ≤ 1 ∧
      |toRat32 (reproject pp pe t).x - (toRat32 pp.x + ρ' * (toRat32 pe.x - toRat32 pp.x))| ≤ 1 / 2 ∧
      |toRat32 (reproject pp pe t).y - (toRat32 pp.y + ρ' * (toRat32 pe.y - toRat32 pp.y))| ≤ 1 / 2 := by
  obtain ⟨⟨h0, h1⟩, hx, hy⟩ := cut_end_point_err_float32 pp pe t κ hfx hfy hell hpp hpe hpos hle ht0 ht1 hκ0
    (le_trans hκ (by norm_num))
  generalize toRat32 t / toRat32 (Pos.length Float (pe - pp)) = ρ at *
  have hcb : cutBound + 1 / 8388608 * 1048576 ≤ 1 / 2 := by unfold cutBound; norm_num
  have key : ∀ a b e : ℚ, |a| ≤ 524288 → |b| ≤ 524288 → |e - (a + ρ * (b - a))| ≤ cutBound →
      |e - (a + min ρ 1 * (b - a))| ≤ 1 / 2 := by
    intro a b e ha hb he
    have hba : |b - a| ≤ 1048576 := by have := abs_sub b a; linarith
    have hm : |ρ - min ρ 1| ≤ 1 / 8388608 := by
      rcases le_total ρ 1 with h | h
      · rw [min_eq_left h, sub_self, abs_zero]; norm_num
      · rw [min_eq_right h, abs_of_nonneg (by linarith)]; linarith
    have e2 : e - (a + min ρ 1 * (b - a)) = (e - (a + ρ * (b - a))) + (ρ - min ρ 1) * (b - a) := by ring
    rw [e2]
    have : |(ρ - min ρ 1) * (b - a)| ≤ 1 / 8388608 * 1048576 := by
      rw [abs_mul]; exact mul_le_mul hm hba (abs_nonneg _) (by norm_num)
    linarith [abs_add_le (e - (a + ρ * (b - a))) ((ρ - min ρ 1) * (b - a))]
  exact ⟨min ρ 1, le_min h0 (by norm_num), min_le_right _ _, key _ _ _ hpp.1 hpe.1 hx, key _ _ _ hpp.2 hpe.2 hy⟩

/-- **C16 on IEEE floats, extension regime (2)**: `L` beyond the natural length, the last segment is extended in its
own direction. `t` is any `f32` parameter with `0 ≤ τ ≤ 2⁴⁰`; with `ρ = τ/ℓ ≥ 0` the new end point is, per coordinate,
within `2⁻⁵ + (5·2⁻²⁴ + 2⁻⁴⁴)·|ρ (b − a)| + 2⁻¹⁰⁰` of the point `p_k + ρ (p_{k+1} − p_k)` **of the ray** from `p_k`
through `p_{k+1}` — half an ulp of the start coordinate plus five half-ulps of the coordinate distance travelled. -/
theorem ext_end_point_err_float32 (pp pe : Pos Float32) (t : Float32)
    (hfx : (reproject pp pe t).x.isFinite = true) (hfy : (reproject pp pe t).y.isFinite = true)
    (hell : (Pos.length Float (pe - pp)).isFinite = true)
    (hpp : Bounded19 pp)
    (hpos : 0 < toRat32 (Pos.length Float (pe - pp)))
    (hle : toRat32 (Pos.length Float (pe - pp)) ≤ (2 : ℚ) ^ (126 : Int))
    (ht0 : 0 ≤ toRat32 t) (hM : toRat32 t ≤ (2 : ℚ) ^ (40 : Int)) :
    0 ≤ toRat32 t / toRat32 (Pos.length Float (pe - pp)) ∧
    |toRat32 (reproject pp pe t).x - (toRat32 pp.x +
        toRat32 t / toRat32 (Pos.length Float (pe - pp)) * (toRat32 pe.x - toRat32 pp.x))| ≤
      (2 : ℚ) ^ (-5 : Int) + (5 * (2 : ℚ) ^ (-24 : Int) + (2 : ℚ) ^ (-44 : Int)) *
        |toRat32 t / toRat32 (Pos.length Float (pe - pp)) * (toRat32 pe.x - toRat32 pp.x)| + (2 : ℚ) ^ (-100 : Int) ∧
    |toRat32 (reproject pp pe t).y - (toRat32 pp.y +
        toRat32 t / toRat32 (Pos.length Float (pe - pp)) * (toRat32 pe.y - toRat32 pp.y))| ≤
      (2 : ℚ) ^ (-5 : Int) + (5 * (2 : ℚ) ^ (-24 : Int) + (2 : ℚ) ^ (-44 : Int)) *
        |toRat32 t / toRat32 (Pos.length Float (pe - pp)) * (toRat32 pe.y - toRat32 pp.y)| + (2 : ℚ) ^ (-100 : Int) := by
  rw [reproject_x] at hfx ⊢
  rw [reproject_y] at hfy ⊢
  have hM' : |toRat32 t| ≤ (2 : ℚ) ^ (40 : Int) := by rw [abs_of_nonneg ht0]; exact hM
  exact ⟨div_nonneg ht0 hpos.le, ext_coord_err _ _ _ t hfx hell hpp.1 hpos hle hM',
    ext_coord_err _ _ _ t hfy hell hpp.2 hpos hle hM'⟩

/-- **(3), extension regime with an explicit `D`**: if the extension travels at most `2²¹` px along each axis
(`ρ|Δx|, ρ|Δy| ≤ 2²¹`: e.g. both end points of the extended curve are bounded by `2²⁰`), the new end point is within
`11/16` px, per coordinate, of a point of the ray. -/
theorem ext_end_point_near_ray (pp pe : Pos Float32) (t : Float32)
    (hfx : (reproject pp pe t).x.isFinite = true) (hfy : (reproject pp pe t).y.isFinite = true)
    (hell : (Pos.length Float (pe - pp)).isFinite = true)
    (hpp : Bounded19 pp)
    (hpos : 0 < toRat32 (Pos.length Float (pe - pp)))
    (hle : toRat32 (Pos.length Float (pe - pp)) ≤ (2 : ℚ) ^ (126 : Int))
    (ht0 : 0 ≤ toRat32 t) (hM : toRat32 t ≤ (2 : ℚ) ^ (40 : Int))
    (hSx : |toRat32 t / toRat32 (Pos.length Float (pe - pp)) * (toRat32 pe.x - toRat32 pp.x)| ≤ 2097152)
    (hSy : |toRat32 t / toRat32 (Pos.length Float (pe - pp)) * (toRat32 pe.y - toRat32 pp.y)| ≤ 2097152) :
    ∃ ρ : ℚ, 0 ≤ ρ ∧
      |toRat32 (reproject pp pe t).x - (toRat32 pp.x + ρ * (toRat32 pe.x - toRat32 pp.x))| ≤ 11 / 16 ∧
      |toRat32 (reproject pp pe t).y - (toRat32 pp.y + ρ * (toRat32 pe.y - toRat32 pp.y))| ≤ 11 / 16 := by
  obtain ⟨h0, hx, hy⟩ := ext_end_point_err_float32 pp pe t hfx hfy hell hpp hpos hle ht0 hM
  have c : (0 : ℚ) ≤ 5 * (2 : ℚ) ^ (-24 : Int) + (2 : ℚ) ^ (-44 : Int) := by norm_num
  have cx := mul_le_mul_of_nonneg_left hSx c
  have cy := mul_le_mul_of_nonneg_left hSy c
  have n : (2 : ℚ) ^ (-5 : Int) + (5 * (2 : ℚ) ^ (-24 : Int) + (2 : ℚ) ^ (-44 : Int)) * 2097152 +
      (2 : ℚ) ^ (-100 : Int) ≤ 11 / 16 := by norm_num
  exact ⟨_, h0, by linarith, by linarith⟩

/-! ### the range of the parameter in the cut regime -/

/-- over ℚ: `L ≤ fl64(λ + ℓ)`, `y = fl64(L − λ)`, `τ = fl32(y)` ⟹ `τ ≤ ℓ (1 + 2⁻²³)`, as long as the booked length `λ` so
far is at most `2²⁷ ℓ` (its rounding unit `2⁻⁵³ λ` must be small against `ℓ`: this is a real effect, a long curve
followed by a very short segment overshoots more) and `ℓ ≥ 2⁻¹⁰⁰`. -/
theorem param_range_q (Lq lam ℓ y τ δ δ' : ℚ) (hlam0 : 0 ≤ lam) (hℓ : 0 < ℓ)
    (hge : Lq ≤ (lam + ℓ) * (1 + δ')) (hδ' : |δ'| ≤ (2 : ℚ) ^ (-53 : Int))
    (hy : y = (Lq - lam) * (1 + δ)) (hδ : |δ| ≤ (2 : ℚ) ^ (-53 : Int)) (hLl : lam ≤ Lq)
    (hτ : |τ - y| ≤ (2 : ℚ) ^ (-24 : Int) * |y| + (2 : ℚ) ^ (-150 : Int))
    (hlℓ : lam ≤ 134217728 * ℓ) (hℓmin : (2 : ℚ) ^ (-100 : Int) ≤ ℓ) :
    τ ≤ ℓ * (1 + 1 / 8388608) := by
  have hu : (0 : ℚ) < (2 : ℚ) ^ (-53 : Int) := two_zpow_pos _
  have u1 : (2 : ℚ) ^ (-53 : Int) ≤ 1 := by norm_num
  obtain ⟨d1, d2⟩ := abs_le.mp hδ
  obtain ⟨d1', d2'⟩ := abs_le.mp hδ'
  have hD0 : 0 ≤ Lq - lam := by linarith
  have hD : Lq - lam ≤ ℓ * (1 + (2 : ℚ) ^ (-53 : Int) * 134217729) := by
    have t1 : δ' * (lam + ℓ) ≤ (2 : ℚ) ^ (-53 : Int) * (lam + ℓ) :=
      mul_le_mul_of_nonneg_right d2' (by linarith)
    have t2 : (2 : ℚ) ^ (-53 : Int) * (lam + ℓ) ≤ (2 : ℚ) ^ (-53 : Int) * (134217729 * ℓ) :=
      mul_le_mul_of_nonneg_left (by linarith) hu.le
    nlinarith
  have hy0 : 0 ≤ y := by rw [hy]; exact mul_nonneg hD0 (by linarith)
  have hy1 : y ≤ (Lq - lam) * (1 + (2 : ℚ) ^ (-53 : Int)) := by
    rw [hy]; exact mul_le_mul_of_nonneg_left (by linarith) hD0
  rw [abs_of_nonneg hy0] at hτ
  have hτ1 : τ ≤ y * (1 + (2 : ℚ) ^ (-24 : Int)) + (2 : ℚ) ^ (-150 : Int) := by
    have := (abs_le.mp hτ).2; linarith
  have c24 : (0 : ℚ) ≤ 1 + (2 : ℚ) ^ (-24 : Int) := by norm_num
  have c53 : (0 : ℚ) ≤ 1 + (2 : ℚ) ^ (-53 : Int) := by norm_num
  have s1 : y * (1 + (2 : ℚ) ^ (-24 : Int)) ≤
      ℓ * (1 + (2 : ℚ) ^ (-53 : Int) * 134217729) * (1 + (2 : ℚ) ^ (-53 : Int)) * (1 + (2 : ℚ) ^ (-24 : Int)) :=
    mul_le_mul_of_nonneg_right (le_trans hy1 (mul_le_mul_of_nonneg_right hD c53)) c24
  have s2 : (2 : ℚ) ^ (-150 : Int) ≤ ℓ * (2 : ℚ) ^ (-50 : Int) := by
    have : (2 : ℚ) ^ (-150 : Int) = (2 : ℚ) ^ (-100 : Int) * (2 : ℚ) ^ (-50 : Int) := by norm_num
    rw [this]; exact mul_le_mul_of_nonneg_right hℓmin (two_zpow_pos _).le
  have cc : (1 + (2 : ℚ) ^ (-53 : Int) * 134217729) * (1 + (2 : ℚ) ^ (-53 : Int)) * (1 + (2 : ℚ) ^ (-24 : Int)) +
      (2 : ℚ) ^ (-50 : Int) ≤ 1 + 1 / 8388608 := by norm_num
  have := mul_le_mul_of_nonneg_left cc hℓ.le
  rw [mul_add] at this
  have e : ℓ * ((1 + (2 : ℚ) ^ (-53 : Int) * 134217729) * (1 + (2 : ℚ) ^ (-53 : Int)) * (1 + (2 : ℚ) ^ (-24 : Int))) =
      ℓ * (1 + (2 : ℚ) ^ (-53 : Int) * 134217729) * (1 + (2 : ℚ) ^ (-53 : Int)) * (1 + (2 : ℚ) ^ (-24 : Int)) := by ring
  rw [e] at this
  exact le_trans hτ1 (le_trans (add_le_add s1 s2) this)

/-- the statement wanted for the parameter: in the cut regime (`len_k ≤ L ≤ len_{k+1} = len_k ⊕ f64::from(ell)`)
the `f32` parameter `t = (L − len_k) as f32` satisfies `τ ≤ ℓ(1 + 2⁻²³)`. -/
def cut_param_range_float_statement : Prop :=
  ∀ (L lk : Float) (ell : Float32),
    (lk + (Cvt.up ell : Float)).isFinite = true → (L - lk).isFinite = true →
    ell.isFinite = true → ((Cvt.down (L - lk) : Float32)).isFinite = true →
    Scalar.le lk L = true → Scalar.le L (lk + (Cvt.up ell : Float)) = true →
    0 ≤ toRat lk → toRat lk ≤ 134217728 * toRat32 ell → (2 : ℚ) ^ (-100 : Int) ≤ toRat32 ell →
    toRat32 (Cvt.down (L - lk) : Float32) ≤ toRat32 ell * (1 + 1 / 8388608)

/-- **the range of the parameter, PARTIAL**: `cut_param_range_float_statement` under two facts about the conversions
of Model/FloatBits.lean that are *not proved here* (they are bit-level definitions, `upBits` / `downBits` over
`roundRat`, outside `Float.Model`): `hup` — `f64::from` is exact —, `hdn` — `as f32` is one correct rounding.
Everything else (the two `f64` roundings of `len_k ⊕ ℓ` and `L ⊖ len_k`, monotonicity of the value) is proved. -/
theorem cut_param_range_float_partial (L lk : Float) (ell : Float32)
    (hup : toRat (Cvt.up ell : Float) = toRat32 ell)
    (hdn : Rnd32 (toRat32 (Cvt.down (L - lk) : Float32)) (toRat (L - lk)))
    (hfs : (lk + (Cvt.up ell : Float)).isFinite = true) (hfd : (L - lk).isFinite = true)
    (hlL : Scalar.le lk L = true) (hLs : Scalar.le L (lk + (Cvt.up ell : Float)) = true)
    (hl0 : 0 ≤ toRat lk) (hlℓ : toRat lk ≤ 134217728 * toRat32 ell)
    (hpos : 0 < toRat32 ell) (hℓmin : (2 : ℚ) ^ (-100 : Int) ≤ toRat32 ell) :
    toRat32 (Cvt.down (L - lk) : Float32) ≤ toRat32 ell * (1 + 1 / 8388608) := by
  obtain ⟨fl, fu⟩ := finite_of_add_finite _ _ hfs
  obtain ⟨fL, _⟩ := finite_of_sub_finite _ _ hfd
  obtain ⟨δ', hδ', hs⟩ := add_err_float lk _ fl fu hfs
  obtain ⟨δ, hδ, hy⟩ := sub_err_float L lk fL fl hfd
  have h1 := toRat_le_of_le _ _ fL hfs hLs
  have h2 := toRat_le_of_le _ _ fl fL hlL
  rw [hs, hup] at h1
  exact param_range_q _ _ _ _ _ δ δ' hl0 hpos h1 hδ' hy hδ h2 hdn.abs_add hlℓ hℓmin

/-! ### non-vacuity: a concrete cut, evaluated by the kernel -/

section Examples
open Rosu.Curve Float.Model Float.Model.UnpackedFloat

/-- `p_k = (100, 200)`, `p_{k+1} = (107, 224)`: a segment of length `25` (`7² + 24² = 25²`), direction `(0.28, 0.96)`. -/
def demoPP : Pos Float32 := ⟨Float32.ofBits 0x42C80000, Float32.ofBits 0x43480000⟩
def demoPE : Pos Float32 := ⟨Float32.ofBits 0x42D60000, Float32.ofBits 0x43600000⟩
/-- the parameter `(L − len_k) as f32` for `L = 110`, `len_k = 100`. -/
def demoT : Float32 := Cvt.down ((110 : Float) - 100)

/-- `calculate_length` on the two-point path with `L = 10`: the path becomes `[p_k, e]` with
`e = (0x42CD999A, 0x4351999A) = (102.80000305…, 209.60000610…)`, lengths `[0, 10]`; `e` is `reproject p_k p_{k+1} 10`. -/
example : ((calculateLength [demoPP, demoPE] (some (10 : Float)) 0).toOption.map fun r =>
      (r.1.map fun p => (p.x.toBits, p.y.toBits), r.2.map Float.toBits)) =
    some ([(0x42C80000, 0x43480000), (0x42CD999A, 0x4351999A)], ([0, 10] : List Float).map Float.toBits) := by
  decide +kernel

theorem demo_bits : (reproject demoPP demoPE demoT).x = Float32.ofBits 0x42CD999A ∧
    (reproject demoPP demoPE demoT).y = Float32.ofBits 0x4351999A ∧
    Pos.length Float (demoPE - demoPP) = Float32.ofBits 0x41C80000 ∧ demoT = Float32.ofBits 0x41200000 := by
  decide +kernel

theorem toRat32_bits {u : UInt32} {s : Sign} {m : Nat} {e : Int} {hm : 0 < m}
    (h : u.toNat % 2 ^ 31 ≤ 0x7F800000) (hu : FM.unpackNat 23 8 u.toNat = .finite s m e hm) :
    toRat32 (Float32.ofBits u) = sgnQ s * (m : ℚ) * (2 : ℚ) ^ e := by
  apply toRat32_of_unpack (hm := hm); rw [FM.float32_unpack_ofBits u h]; exact hu

theorem demo_100 : toRat32 (Float32.ofBits 0x42C80000) = 100 := by
  rw [toRat32_bits (s := .positive) (m := 13107200) (e := -17) (hm := by decide) (by decide) rfl]; norm_num [sgnQ]
theorem demo_200 : toRat32 (Float32.ofBits 0x43480000) = 200 := by
  rw [toRat32_bits (s := .positive) (m := 13107200) (e := -16) (hm := by decide) (by decide) rfl]; norm_num [sgnQ]
theorem demo_107 : toRat32 (Float32.ofBits 0x42D60000) = 107 := by
  rw [toRat32_bits (s := .positive) (m := 14024704) (e := -17) (hm := by decide) (by decide) rfl]; norm_num [sgnQ]
theorem demo_224 : toRat32 (Float32.ofBits 0x43600000) = 224 := by
  rw [toRat32_bits (s := .positive) (m := 14680064) (e := -16) (hm := by decide) (by decide) rfl]; norm_num [sgnQ]
theorem demo_25 : toRat32 (Float32.ofBits 0x41C80000) = 25 := by
  rw [toRat32_bits (s := .positive) (m := 13107200) (e := -19) (hm := by decide) (by decide) rfl]; norm_num [sgnQ]
theorem demo_10 : toRat32 (Float32.ofBits 0x41200000) = 10 := by
  rw [toRat32_bits (s := .positive) (m := 10485760) (e := -20) (hm := by decide) (by decide) rfl]; norm_num [sgnQ]
theorem demo_ex : toRat32 (Float32.ofBits 0x42CD999A) = 13474202 / 131072 := by
  rw [toRat32_bits (s := .positive) (m := 13474202) (e := -17) (hm := by decide) (by decide) rfl]; norm_num [sgnQ]
theorem demo_ey : toRat32 (Float32.ofBits 0x4351999A) = 13736346 / 65536 := by
  rw [toRat32_bits (s := .positive) (m := 13736346) (e := -16) (hm := by decide) (by decide) rfl]; norm_num [sgnQ]

/-- **the hypotheses of `cut_end_point_err_float32` hold on the demo** (with `κ = 0`: `τ = 10 ≤ ℓ = 25`), so its
conclusion does: `ρ = 10/25` and the end point is within `11/32 + 2⁻²⁰` px of `(102.8, 209.6)`. -/
example :
    |toRat32 (reproject demoPP demoPE demoT).x - (100 + 10 / 25 * (107 - 100))| ≤ cutBound ∧
    |toRat32 (reproject demoPP demoPE demoT).y - (200 + 10 / 25 * (224 - 200))| ≤ cutBound := by
  obtain ⟨bx, bY, bl, bt⟩ := demo_bits
  have h := cut_end_point_err_float32 demoPP demoPE demoT 0
    (by rw [bx]; decide +kernel) (by rw [bY]; decide +kernel) (by rw [bl]; decide +kernel)
    ⟨by show |toRat32 (Float32.ofBits 0x42C80000)| ≤ _; rw [demo_100]; norm_num,
     by show |toRat32 (Float32.ofBits 0x43480000)| ≤ _; rw [demo_200]; norm_num⟩
    ⟨by show |toRat32 (Float32.ofBits 0x42D60000)| ≤ _; rw [demo_107]; norm_num,
     by show |toRat32 (Float32.ofBits 0x43600000)| ≤ _; rw [demo_224]; norm_num⟩
    (by rw [bl, demo_25]; norm_num) (by rw [bl, demo_25]; norm_num) (by rw [bt, demo_10]; norm_num)
    (by rw [bl, bt, demo_25, demo_10]; norm_num) (le_refl _) (by norm_num)
  have e1 : toRat32 demoT = 10 := by rw [bt, demo_10]
  have e2 : toRat32 (Pos.length Float (demoPE - demoPP)) = 25 := by rw [bl, demo_25]
  have a1 : toRat32 demoPP.x = 100 := demo_100
  have a2 : toRat32 demoPP.y = 200 := demo_200
  have a3 : toRat32 demoPE.x = 107 := demo_107
  have a4 : toRat32 demoPE.y = 224 := demo_224
  rw [e1, e2, a1, a2, a3, a4] at h
  exact ⟨h.2.1, h.2.2⟩

/-- the hypotheses of `ext_end_point_err_float32` (and of `ext_end_point_near_ray`) are satisfiable: same demo. -/
example : ∃ ρ : ℚ, 0 ≤ ρ ∧
    |toRat32 (reproject demoPP demoPE demoT).x - (toRat32 demoPP.x + ρ * (toRat32 demoPE.x - toRat32 demoPP.x))| ≤ 11 / 16 ∧
    |toRat32 (reproject demoPP demoPE demoT).y - (toRat32 demoPP.y + ρ * (toRat32 demoPE.y - toRat32 demoPP.y))| ≤ 11 / 16 := by
  obtain ⟨bx, bY, bl, bt⟩ := demo_bits
  have e1 : toRat32 demoT = 10 := by rw [bt, demo_10]
  have e2 : toRat32 (Pos.length Float (demoPE - demoPP)) = 25 := by rw [bl, demo_25]
  have a1 : toRat32 demoPP.x = 100 := demo_100
  have a2 : toRat32 demoPP.y = 200 := demo_200
  have a3 : toRat32 demoPE.x = 107 := demo_107
  have a4 : toRat32 demoPE.y = 224 := demo_224
  exact ext_end_point_near_ray demoPP demoPE demoT
    (by rw [bx]; decide +kernel) (by rw [bY]; decide +kernel) (by rw [bl]; decide +kernel)
    ⟨by rw [a1]; norm_num, by rw [a2]; norm_num⟩
    (by rw [e2]; norm_num) (by rw [e2]; norm_num) (by rw [e1]; norm_num) (by rw [e1]; norm_num)
    (by rw [e1, e2, a1, a3]; norm_num) (by rw [e1, e2, a2, a4]; norm_num)

/-- **the bound is not vacuous and the end point is NOT on the segment**: the computed point is
`(102.8 + 2⁻¹⁷·0.4, 209.6 + 2⁻¹⁶·0.4)`: its errors `≈ 3.05·10⁻⁶` and `≈ 6.10·10⁻⁶` are non-zero (far below the bound
`0.34376`, which is reached only near `|x| = 2¹⁹`), and it is off the line through `p_k`, `p_{k+1}`:
`Δy·(e.x − x_k) ≠ Δx·(e.y − y_k)` (the cross product is `2⁻¹⁵·1.0… ≠ 0`); it does not lie on the exact-arithmetic
segment, only within the rounding bound of it. -/
example :
    toRat32 (reproject demoPP demoPE demoT).x - (100 + 10 / 25 * (107 - 100)) = 1 / 327680 ∧
    toRat32 (reproject demoPP demoPE demoT).y - (200 + 10 / 25 * (224 - 200)) = 1 / 163840 ∧
    (224 - 200) * (toRat32 (reproject demoPP demoPE demoT).x - 100) ≠
      (107 - 100) * (toRat32 (reproject demoPP demoPE demoT).y - 200) := by
  obtain ⟨bx, bY, _, _⟩ := demo_bits
  rw [bx, bY, demo_ex, demo_ey]
  norm_num

end Examples

end Rosu.C16
