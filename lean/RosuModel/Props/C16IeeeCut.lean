/-
  Props/C16IeeeCut.lean — C16 on IEEE floats: WHERE the re-projected end point of `calculate_length` lies.

  Rust (`curve.rs`, `calculate_length`): `path[end] = path[k] + dir * ((L − lengths[k]) as f32)` with
  `dir = (path[k+1] − path[k]).normalize()`, `normalize` = multiply by `length().recip()` in `f32`.
  Model: `C16.cutPoint` (Props/C16.lean; `cut_shape` shows it is the last point of the adjusted path).
-/
import RosuModel.Props.C16
import RosuModel.Lemmas.FloatErr32
namespace Rosu.C16
open Rosu Rosu.FErr

/-! ### the accumulated error, over ℚ -/

/-- **the six roundings of one coordinate of the re-projection**, over ℚ: `d = fl(b − a)`, `r = fl(1/ℓ)`, `w = fl(d·r)`,
`v = fl(w·τ)`, `e = fl(a + v)` with unit roundoff `u` (relative) and underflow unit `η` (absolute, the two
multiplications). Then `e` is within `u·A + ((1+u)⁵ − 1)·S + η·(M(1+u) + 1)(1+u)` of `a + τ·(b − a)/ℓ`, where `A`, `S`,
`M` bound `|a|`, the travelled coordinate distance `|τ·(b − a)/ℓ|` and `|τ|`. -/
theorem reproject_chain (a b ℓ τ d r w v e δ1 δ2 δ6 u η A S M : ℚ)
    (hu : 0 ≤ u) (hη : 0 ≤ η) (hℓ : 0 < ℓ)
    (hd : d = (b - a) * (1 + δ1)) (h1 : |δ1| ≤ u)
    (hr : r = 1 / ℓ * (1 + δ2)) (h2 : |δ2| ≤ u)
    (hw : |w - d * r| ≤ u * |d * r| + η)
    (hv : |v - w * τ| ≤ u * |w * τ| + η)
    (he : e = (a + v) * (1 + δ6)) (h6 : |δ6| ≤ u)
    (hA : |a| ≤ A) (hS : |τ * ((b - a) / ℓ)| ≤ S) (hM : |τ| ≤ M) :
    |e - (a + τ * ((b - a) / ℓ))| ≤ u * A + ((1 + u) ^ 5 - 1) * S + η * (M * (1 + u) + 1) * (1 + u) := by
  have hℓ0 : ℓ ≠ 0 := hℓ.ne'
  obtain ⟨q, hq⟩ : ∃ q : ℚ, q = (b - a) / ℓ := ⟨_, rfl⟩
  rw [← hq] at hS ⊢
  have hdr : d * r = q + q * (δ1 + δ2 + δ1 * δ2) := by
    rw [hd, hr, hq]; field_simp; ring
  have hX : 0 ≤ |q| := abs_nonneg q
  have hT : 0 ≤ |τ| := abs_nonneg τ
  have hP : |q| * |τ| ≤ S := by rw [← abs_mul, mul_comm]; exact hS
  have hP0 : 0 ≤ |q| * |τ| := mul_nonneg hX hT
  have hθ : |δ1 + δ2 + δ1 * δ2| ≤ 2 * u + u * u := by
    have t1 : |δ1 * δ2| ≤ u * u := by
      rw [abs_mul]; exact mul_le_mul h1 h2 (abs_nonneg _) hu
    calc |δ1 + δ2 + δ1 * δ2| ≤ |δ1 + δ2| + |δ1 * δ2| := abs_add_le _ _
      _ ≤ |δ1| + |δ2| + |δ1 * δ2| := by linarith [abs_add_le δ1 δ2]
      _ ≤ 2 * u + u * u := by linarith
  -- k1, k2
  have k1 : |d * r - q| ≤ |q| * (2 * u + u * u) := by
    have : d * r - q = q * (δ1 + δ2 + δ1 * δ2) := by rw [hdr]; ring
    rw [this, abs_mul]; exact mul_le_mul_of_nonneg_left hθ hX
  have k2 : |d * r| ≤ |q| * (1 + 2 * u + u * u) := by
    have : d * r = q + (d * r - q) := by ring
    calc |d * r| = |q + (d * r - q)| := by rw [← this]
      _ ≤ |q| + |d * r - q| := abs_add_le _ _
      _ ≤ |q| * (1 + 2 * u + u * u) := by linarith
  -- k3
  have k3 : |w - q| ≤ |q| * ((1 + u) ^ 3 - 1) + η := by
    have t : |w - q| ≤ |w - d * r| + |d * r - q| := abs_sub_le _ _ _
    have t2 : u * |d * r| ≤ u * (|q| * (1 + 2 * u + u * u)) := mul_le_mul_of_nonneg_left k2 hu
    have e3 : |q| * ((1 + u) ^ 3 - 1) = u * (|q| * (1 + 2 * u + u * u)) + |q| * (2 * u + u * u) := by ring
    rw [e3]; linarith
  -- k4
  have k4 : |w * τ - q * τ| ≤ |q| * |τ| * ((1 + u) ^ 3 - 1) + η * M := by
    have : w * τ - q * τ = (w - q) * τ := by ring
    rw [this, abs_mul]
    have t1 : |w - q| * |τ| ≤ (|q| * ((1 + u) ^ 3 - 1) + η) * |τ| := mul_le_mul_of_nonneg_right k3 hT
    have t2 : η * |τ| ≤ η * M := mul_le_mul_of_nonneg_left hM hη
    calc |w - q| * |τ| ≤ (|q| * ((1 + u) ^ 3 - 1) + η) * |τ| := t1
      _ = |q| * |τ| * ((1 + u) ^ 3 - 1) + η * |τ| := by ring
      _ ≤ _ := by linarith
  have k5 : |w * τ| ≤ |q| * |τ| * (1 + u) ^ 3 + η * M := by
    have : w * τ = q * τ + (w * τ - q * τ) := by ring
    calc |w * τ| = |q * τ + (w * τ - q * τ)| := by rw [← this]
      _ ≤ |q * τ| + |w * τ - q * τ| := abs_add_le _ _
      _ = |q| * |τ| + |w * τ - q * τ| := by rw [abs_mul]
      _ ≤ |q| * |τ| * (1 + u) ^ 3 + η * M := by
          have : |q| * |τ| * (1 + u) ^ 3 = |q| * |τ| + |q| * |τ| * ((1 + u) ^ 3 - 1) := by ring
          rw [this]; linarith
  -- k6
  have k6 : |v - q * τ| ≤ |q| * |τ| * ((1 + u) ^ 4 - 1) + (η * M * (1 + u) + η) := by
    have t : |v - q * τ| ≤ |v - w * τ| + |w * τ - q * τ| := abs_sub_le _ _ _
    have t2 : u * |w * τ| ≤ u * (|q| * |τ| * (1 + u) ^ 3 + η * M) := mul_le_mul_of_nonneg_left k5 hu
    have e4 : |q| * |τ| * ((1 + u) ^ 4 - 1) + (η * M * (1 + u) + η) =
        u * (|q| * |τ| * (1 + u) ^ 3 + η * M) + η + (|q| * |τ| * ((1 + u) ^ 3 - 1) + η * M) := by ring
    rw [e4]; linarith
  have k7 : |v| ≤ |q| * |τ| * (1 + u) ^ 4 + (η * M * (1 + u) + η) := by
    have : v = q * τ + (v - q * τ) := by ring
    calc |v| = |q * τ + (v - q * τ)| := by rw [← this]
      _ ≤ |q * τ| + |v - q * τ| := abs_add_le _ _
      _ = |q| * |τ| + |v - q * τ| := by rw [abs_mul]
      _ ≤ _ := by
          have : |q| * |τ| * (1 + u) ^ 4 = |q| * |τ| + |q| * |τ| * ((1 + u) ^ 4 - 1) := by ring
          rw [this]; linarith
  -- k8
  have e8 : e - (a + τ * q) = (a + v) * δ6 + (v - q * τ) := by rw [he]; ring
  have t8 : |(a + v) * δ6| ≤ (A + (|q| * |τ| * (1 + u) ^ 4 + (η * M * (1 + u) + η))) * u := by
    rw [abs_mul]
    have : |a + v| ≤ A + (|q| * |τ| * (1 + u) ^ 4 + (η * M * (1 + u) + η)) := by
      linarith [abs_add_le a v]
    exact mul_le_mul this h6 (abs_nonneg _) (le_trans (abs_nonneg _) this)
  have c5 : 0 ≤ (1 + u) ^ 5 - 1 := by
    have : (1 : ℚ) ≤ (1 + u) ^ 5 := one_le_pow₀ (by linarith)
    linarith
  have hfin : |q| * |τ| * ((1 + u) ^ 5 - 1) ≤ S * ((1 + u) ^ 5 - 1) := mul_le_mul_of_nonneg_right hP c5
  rw [e8]
  calc |(a + v) * δ6 + (v - q * τ)| ≤ |(a + v) * δ6| + |v - q * τ| := abs_add_le _ _
    _ ≤ (A + (|q| * |τ| * (1 + u) ^ 4 + (η * M * (1 + u) + η))) * u +
          (|q| * |τ| * ((1 + u) ^ 4 - 1) + (η * M * (1 + u) + η)) := by linarith
    _ = u * A + |q| * |τ| * ((1 + u) ^ 5 - 1) + η * (M * (1 + u) + 1) * (1 + u) := by ring
    _ ≤ _ := by linarith

/-! ### one coordinate, `f32` -/

/-- one coordinate of `p_k + dir · t`, `dir = (p_{k+1} − p_k) · recip(ell)`, exactly as the code associates it. -/
def coordReproject (a b ell t : Float32) : Float32 := a + ((b - a) * Scalar.recip ell) * t

/-- **the rounding error of one coordinate of the re-projected end point** (`f32`, six roundings: `b ⊖ a`, `1 ⊘ ell`,
`⊗`, `⊗`, `⊕`; the rounding of `t = (L − len_k) as f32` is *not* counted here, `t` is the `f32` the code used).
`ell` is any finite positive `f32` (the code uses `f64::from(dx² + dy²).sqrt() as f32`; nothing about `sqrt` is needed),
`ℓ ≤ 2¹²⁶` keeps `1/ℓ` out of the subnormal range. The only finiteness hypothesis is on the result. -/
theorem coord_err_float32 (a b ell t : Float32) (A S M : ℚ)
    (hfin : (coordReproject a b ell t).isFinite = true)
    (hell : ell.isFinite = true) (hpos : 0 < toRat32 ell) (hle : toRat32 ell ≤ (2 : ℚ) ^ (126 : Int))
    (hA : |toRat32 a| ≤ A)
    (hS : |toRat32 t * ((toRat32 b - toRat32 a) / toRat32 ell)| ≤ S) (hM : |toRat32 t| ≤ M) :
    |toRat32 (coordReproject a b ell t) - (toRat32 a + toRat32 t * ((toRat32 b - toRat32 a) / toRat32 ell))| ≤
      (2 : ℚ) ^ (-24 : Int) * A + ((1 + (2 : ℚ) ^ (-24 : Int)) ^ 5 - 1) * S +
        (2 : ℚ) ^ (-150 : Int) * (M * (1 + (2 : ℚ) ^ (-24 : Int)) + 1) * (1 + (2 : ℚ) ^ (-24 : Int)) := by
  unfold coordReproject at hfin ⊢
  obtain ⟨fa, fv⟩ := finite_of_add_finite32 _ _ hfin
  obtain ⟨fw, ft⟩ := finite_of_mul_finite32 _ _ fv
  obtain ⟨fd, fr⟩ := finite_of_mul_finite32 _ _ fw
  obtain ⟨fb, _⟩ := finite_of_sub_finite32 _ _ fd
  obtain ⟨δ1, h1, hd⟩ := sub_err_float32 b a fb fa fd
  have hrn : (2 : ℚ) ^ (-126 : Int) ≤ |1 / toRat32 ell| := by
    rw [abs_of_pos (by positivity), show (-126 : Int) = -(126 : Int) by norm_num, zpow_neg, one_div]
    exact inv_anti₀ hpos hle
  obtain ⟨δ2, h2, hr⟩ := (recip_rnd_float32 ell hell fr).rel hrn
  obtain ⟨δ6, h6, he⟩ := add_err_float32 _ _ fa fv hfin
  exact reproject_chain _ _ _ _ _ _ _ _ _ δ1 δ2 δ6 _ _ A S M (two_zpow_pos _).le (two_zpow_pos _).le hpos
    hd h1 hr h2 (mul_err_abs_float32 _ _ fd fr fw) (mul_err_abs_float32 _ _ fw ft fv) he h6 hA hS hM

end Rosu.C16
