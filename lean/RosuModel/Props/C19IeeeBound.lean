/-
  Props/C19IeeeBound.lean — property C19 on the driver's IEEE instance (`F = Float`): the bound that Props/C19IeeePos.lean
  left open, "progress outside [0, 1] is clamped; the distance for a progress is progress × total distance", now in full
  for the rounded arithmetic. `D = dist lengths` is the total distance (the last cumulative length).

  * `progress_to_dist_bounds_unit_float`: `0 ≤ q ≤ 1`, `D` finite, `0 ≤ D` ⟹ `progressToDist lengths q = q * D` and
    `0 ≤ q * D ≤ D` (IEEE `≤`; the product is the rounded one, with underflow).
  * `progress_to_dist_bounds_float`: EVERY number `q` (`±∞`, negative, `> 1` included), `D` finite, `0 ≤ D` ⟹
    `0 ≤ progressToDist lengths q ≤ D`, and the result is a finite number.
  * `progress_to_dist_mono_float`: numbers `q₁ ≤ q₂`, `D` finite, `0 ≤ D` ⟹
    `progressToDist lengths q₁ ≤ progressToDist lengths q₂` (`clamp` is monotone, then the rounded product is).
  * the hypotheses are necessary: for a NaN progress the result is NaN (`progress_clamped_float`), for `D = +∞` and
    `q = 0` it is NaN, for `D < 0` the bounds are reversed (`…_example`s at the end).
  Tools: `FAM.mul_le_mul_right_float` (monotonicity of the rounded product), `FX.one_mul_float` (`1 * D = D`),
  `FX.zero_mul_float` (`0 * D` is a zero), `FMO.clamp_between`.
-/
import RosuModel.Props.C19IeeePos
import RosuModel.Lemmas.FloatArithMono
namespace Rosu.C19
open Rosu Rosu.Curve
open Float.Model Float.Model.UnpackedFloat

/-! ## 0. helpers -/

/-- the product of two finite doubles (zero or finite) is not a NaN (it may overflow to `±∞`). -/
theorem mul_not_nan_of_finite_float (a c : Float) (ha : FX.Finite64 a) (hc : FX.Finite64 c) :
    Scalar.isNaN (a * c) = false := by
  show (a * c).toModel.unpack.isNaN = false
  rw [FAM.float_mul_unpack, FAM.repack_isNaN _ (by decide) _
    (FAM.mul_canon Format.binary64 _ _ (FAM.float_canon a) (FAM.float_canon c))]
  have ha' : a.toModel.unpack.isFinite = true := ha
  have hc' : c.toModel.unpack.isFinite = true := hc
  generalize a.toModel.unpack = u at ha'
  generalize c.toModel.unpack = v at hc'
  rcases u with s|_|s|⟨s,m,e,hm⟩ <;> rcases v with s'|_|s'|⟨s',m',e',hm'⟩ <;>
    first
    | (cases ha'; done)
    | (cases hc'; done)
    | rfl
    | exact FMO.roundWithAccuracy_not_nan _ _ _ _ _

theorem finite_zero_float : FX.Finite64 (0 : Float) := by decide +kernel
theorem finite_one_float : FX.Finite64 (1 : Float) := by decide +kernel
theorem not_nan_zero_float : Scalar.isNaN (0 : Float) = false := by decide +kernel
theorem not_nan_one_float : Scalar.isNaN (1 : Float) = false := by decide +kernel
theorem one_not_lt_zero_float : Scalar.lt (1 : Float) (0 : Float) = false := by decide +kernel

/-- `clamp(q, 0, 1)` of a number is a finite number in `[0, 1]`. -/
theorem clamp_unit_float (q : Float) (hq : Scalar.isNaN q = false) :
    Scalar.le (0 : Float) (Scalar.clamp q 0 1) = true ∧ Scalar.le (Scalar.clamp q (0 : Float) 1) 1 = true ∧
    FX.Finite64 (Scalar.clamp q (0 : Float) 1) := by
  obtain ⟨h0, h1⟩ := FMO.clamp_between q (0 : Float) 1 hq not_nan_zero_float not_nan_one_float one_not_lt_zero_float
  refine ⟨h0, h1, ?_⟩
  exact FMO.finite_of_bounds_float 0 1 _ finite_zero_float finite_one_float (FMO.not_nan_of_le h0).2
    (FMO.not_lt_of_le _ _ h0) (FMO.not_lt_of_le _ _ h1)

/-- a number in `[0, 1]` goes through `clamp(·, 0, 1)` unchanged. -/
theorem clamp_of_unit_float (q : Float) (h0 : Scalar.le (0 : Float) q = true) (h1 : Scalar.le q (1 : Float) = true) :
    Scalar.clamp q (0 : Float) 1 = q := by
  unfold Scalar.clamp
  simp [FMO.not_lt_of_le _ _ h0, FMO.not_lt_of_le _ _ h1]

/-- **`clamp(·, 0, 1)` is monotone on numbers.** -/
theorem clamp_mono_float (q₁ q₂ : Float) (h : Scalar.le q₁ q₂ = true) :
    Scalar.le (Scalar.clamp q₁ (0 : Float) 1) (Scalar.clamp q₂ 0 1) = true := by
  obtain ⟨n1, n2⟩ := FMO.not_nan_of_le h
  obtain ⟨a0, a1, _⟩ := clamp_unit_float q₁ n1
  obtain ⟨b0, b1, _⟩ := clamp_unit_float q₂ n2
  cases l1 : Scalar.lt q₁ (0 : Float)
  · cases u1 : Scalar.lt (1 : Float) q₁
    · -- clamp q₁ = q₁
      have e1 : Scalar.clamp q₁ (0 : Float) 1 = q₁ := by unfold Scalar.clamp; simp [l1, u1]
      have l2 : Scalar.lt q₂ (0 : Float) = false := by
        cases hh : Scalar.lt q₂ (0 : Float)
        · rfl
        · rw [FMO.lt_of_le_of_lt _ _ _ h hh] at l1; cases l1
      cases u2 : Scalar.lt (1 : Float) q₂
      · have e2 : Scalar.clamp q₂ (0 : Float) 1 = q₂ := by unfold Scalar.clamp; simp [l2, u2]
        rw [e1, e2]; exact h
      · have e2 : Scalar.clamp q₂ (0 : Float) 1 = 1 := by unfold Scalar.clamp; simp [l2, u2]
        rw [e2]; exact a1
    · -- clamp q₁ = 1, so 1 < q₁ ≤ q₂ and clamp q₂ = 1
      have u2 : Scalar.lt (1 : Float) q₂ = true := FMO.lt_of_lt_of_le _ _ _ u1 h
      have l2 : Scalar.lt q₂ (0 : Float) = false := by
        cases hh : Scalar.lt q₂ (0 : Float)
        · rfl
        · have := FMO.lt_trans _ _ _ u2 hh
          rw [one_not_lt_zero_float] at this; cases this
      have e1 : Scalar.clamp q₁ (0 : Float) 1 = 1 := by unfold Scalar.clamp; simp [l1, u1]
      have e2 : Scalar.clamp q₂ (0 : Float) 1 = 1 := by unfold Scalar.clamp; simp [l2, u2]
      rw [e1, e2]; exact FMO.le_refl _ not_nan_one_float
  · -- clamp q₁ = 0
    have e1 : Scalar.clamp q₁ (0 : Float) 1 = 0 := by unfold Scalar.clamp; simp [l1, one_not_lt_zero_float]
    rw [e1]; exact b0

/-! ## 1. the bounds -/

/-- for a finite `c` with `0 ≤ c ≤ 1` and a finite `D ≥ 0`: `0 ≤ c * D ≤ D`, and `c * D` is finite. -/
theorem unit_mul_bounds_float (c D : Float) (h0 : Scalar.le (0 : Float) c = true) (h1 : Scalar.le c (1 : Float) = true)
    (hfin : FX.Finite64 D) (hD : Scalar.le (0 : Float) D = true) :
    Scalar.le (0 : Float) (c * D) = true ∧ Scalar.le (c * D) D = true ∧ FX.Finite64 (c * D) := by
  have hc : FX.Finite64 c :=
    FMO.finite_of_bounds_float 0 1 _ finite_zero_float finite_one_float (FMO.not_nan_of_le h0).2
      (FMO.not_lt_of_le _ _ h0) (FMO.not_lt_of_le _ _ h1)
  have hn : Scalar.isNaN (c * D) = false := mul_not_nan_of_finite_float c D hc hfin
  have hnD : Scalar.isNaN D = false := FX.not_nan_of_finite64 D hfin
  have lo : Scalar.le ((0 : Float) * D) (c * D) = true :=
    FAM.mul_le_mul_right_float 0 c D h0 hD (mul_not_nan_of_finite_float 0 D finite_zero_float hfin) hn
  have hi : Scalar.le (c * D) ((1 : Float) * D) = true :=
    FAM.mul_le_mul_right_float c 1 D h1 hD hn (by rw [FX.one_mul_float]; exact hnD)
  rw [FX.one_mul_float] at hi
  rw [FX.zero_mul_float D hfin] at lo
  have lo' : Scalar.le (0 : Float) (c * D) = true :=
    FMO.le_trans _ _ _ (FMO.le_of_eq _ _ (by rw [FMO.eq_symm]; exact FX.eq_zero64 _)) lo
  exact ⟨lo', hi, FMO.finite_of_bounds_float 0 D _ finite_zero_float hfin hn
    (FMO.not_lt_of_le _ _ lo') (FMO.not_lt_of_le _ _ hi)⟩

/-- **`progress_to_dist_bounds_unit_float`** — IEEE doubles: for a progress `0 ≤ q ≤ 1` and a finite total distance
`D = dist lengths ≥ 0`, `progress_to_dist` is the rounded product `q * D` and `0 ≤ q * D ≤ D`. -/
theorem progress_to_dist_bounds_unit_float (lengths : List Float) (q : Float)
    (h0 : Scalar.le (0 : Float) q = true) (h1 : Scalar.le q (1 : Float) = true)
    (hfin : FX.Finite64 (dist lengths)) (hD : Scalar.le (0 : Float) (dist lengths) = true) :
    progressToDist lengths q = q * dist lengths ∧
    Scalar.le (0 : Float) (progressToDist lengths q) = true ∧
    Scalar.le (progressToDist lengths q) (dist lengths) = true := by
  have e : progressToDist lengths q = q * dist lengths := by
    unfold progressToDist; rw [clamp_of_unit_float q h0 h1]
  obtain ⟨a, b, _⟩ := unit_mul_bounds_float q (dist lengths) h0 h1 hfin hD
  rw [e]; exact ⟨rfl, a, b⟩

/-- **`progress_to_dist_bounds_float`** — IEEE doubles: for EVERY number `q` (negative, `> 1`, `±∞`, `±0`) and a finite
total distance `D = dist lengths ≥ 0`: `0 ≤ progress_to_dist(q) ≤ D`, and the result is a finite number. (For a NaN `q`
the result is NaN: `progress_clamped_float`.) -/
theorem progress_to_dist_bounds_float (lengths : List Float) (q : Float) (hq : Scalar.isNaN q = false)
    (hfin : FX.Finite64 (dist lengths)) (hD : Scalar.le (0 : Float) (dist lengths) = true) :
    Scalar.le (0 : Float) (progressToDist lengths q) = true ∧
    Scalar.le (progressToDist lengths q) (dist lengths) = true ∧
    FX.Finite64 (progressToDist lengths q) := by
  obtain ⟨c0, c1, _⟩ := clamp_unit_float q hq
  exact unit_mul_bounds_float _ (dist lengths) c0 c1 hfin hD

/-- **`progress_to_dist_mono_float`** — IEEE doubles: `progress_to_dist` is monotone in the progress, for numbers
`q₁ ≤ q₂` (any numbers, clamped or not) and a finite total distance `≥ 0`. -/
theorem progress_to_dist_mono_float (lengths : List Float) (q₁ q₂ : Float) (h : Scalar.le q₁ q₂ = true)
    (hfin : FX.Finite64 (dist lengths)) (hD : Scalar.le (0 : Float) (dist lengths) = true) :
    Scalar.le (progressToDist lengths q₁) (progressToDist lengths q₂) = true := by
  obtain ⟨n1, n2⟩ := FMO.not_nan_of_le h
  obtain ⟨_, _, f1⟩ := clamp_unit_float q₁ n1
  obtain ⟨_, _, f2⟩ := clamp_unit_float q₂ n2
  unfold progressToDist
  exact FAM.mul_le_mul_right_float _ _ _ (clamp_mono_float q₁ q₂ h) hD
    (mul_not_nan_of_finite_float _ _ f1 hfin) (mul_not_nan_of_finite_float _ _ f2 hfin)

/-! ## 2. non-vacuity and necessity of the hypotheses -/

/-- non-vacuity: `q = 0.3` on `[0, 5, 9]` (the product `0.3 * 9` is rounded). -/
example : Scalar.le (0 : Float) (progressToDist [(0 : Float), 5, 9] 0.3) = true ∧
    Scalar.le (progressToDist [(0 : Float), 5, 9] 0.3) (dist [(0 : Float), 5, 9]) = true :=
  (progress_to_dist_bounds_unit_float _ _ (by decide +kernel) (by decide +kernel) (by decide +kernel)
    (by decide +kernel)).2

/-- non-vacuity: `q = −∞`, `q = 7.5`. -/
example : Scalar.le (0 : Float) (progressToDist [(0 : Float), 5, 9] (-1 / 0)) = true ∧
    Scalar.le (progressToDist [(0 : Float), 5, 9] (-1 / 0)) (dist [(0 : Float), 5, 9]) = true ∧
    FX.Finite64 (progressToDist [(0 : Float), 5, 9] (-1 / 0)) :=
  progress_to_dist_bounds_float _ _ (by decide +kernel) (by decide +kernel) (by decide +kernel)
example : Scalar.le (progressToDist [(0 : Float), 5, 9] 7.5) (dist [(0 : Float), 5, 9]) = true :=
  (progress_to_dist_bounds_float _ _ (by decide +kernel) (by decide +kernel) (by decide +kernel)).2.1

/-- non-vacuity of monotonicity: `0.3 ≤ 0.7`, and across the clamp `−2 ≤ 0.5`, `0.5 ≤ +∞`. -/
example : Scalar.le (progressToDist [(0 : Float), 5, 9] 0.3) (progressToDist [(0 : Float), 5, 9] 0.7) = true :=
  progress_to_dist_mono_float _ _ _ (by decide +kernel) (by decide +kernel) (by decide +kernel)
example : Scalar.le (progressToDist [(0 : Float), 5, 9] (-2)) (progressToDist [(0 : Float), 5, 9] 0.5) = true :=
  progress_to_dist_mono_float _ _ _ (by decide +kernel) (by decide +kernel) (by decide +kernel)
example : Scalar.le (progressToDist [(0 : Float), 5, 9] 0.5) (progressToDist [(0 : Float), 5, 9] (1 / 0)) = true :=
  progress_to_dist_mono_float _ _ _ (by decide +kernel) (by decide +kernel) (by decide +kernel)

/-- **"finite total" is necessary**: with `D = +∞` the distance at progress `0` is `0 * ∞ = NaN`, below and above
nothing. -/
theorem progress_to_dist_infinite_example :
    Scalar.le (0 : Float) (dist [(0 : Float), 1 / 0]) = true ∧
    Scalar.isNaN (progressToDist [(0 : Float), 1 / 0] 0) = true ∧
    Scalar.le (0 : Float) (progressToDist [(0 : Float), 1 / 0] 0) = false := by decide +kernel

/-- **"`0 ≤ D`" is necessary**: with a negative total (`lengths` is caller-supplied in the public API) the bounds are
reversed: `progress_to_dist(0.5) = −4.5 < 0` and `> D = −9`. -/
theorem progress_to_dist_negative_example :
    Scalar.lt (progressToDist [(0 : Float), -9] 0.5) (0 : Float) = true ∧
    Scalar.lt (dist [(0 : Float), -9]) (progressToDist [(0 : Float), -9] 0.5) = true := by decide +kernel

/-- **"`q` is a number" is necessary** for the bounds and for monotonicity: a NaN progress gives a NaN distance. -/
theorem progress_to_dist_nan_example :
    Scalar.le (0 : Float) (progressToDist [(0 : Float), 5, 9] (0 / 0)) = false ∧
    Scalar.le (progressToDist [(0 : Float), 5, 9] (0 / 0)) (dist [(0 : Float), 5, 9]) = false := by decide +kernel

end Rosu.C19
