/-
  Props/C03File.lean — C03, the frame clause for the hit-object and timing-point views with the list-block shape
  discharged (continues Props/C03Frame.lean, same namespace).

  * `edit_frame_objects_rep` / `edit_frame_objects_maps_rep`: `edit_frame_objects` (Props/C03Frame.lean) assumed that the
    `[TimingPoints]` and `[HitObjects]` blocks of the UNEDITED map are LF-free record lines (`ListBlockShape`, then the open part
    of C04). For a map satisfying `RepMap` (Lemmas/RepMap.lean) that shape is a theorem — `C04.timing_block_shape` for the
    timing points, `C04.hitobjects_block_accepted` for the hit objects — so the assumption disappears: for `RepMap m`, an edit
    `FrameEdit m m'` to representable record sections, and `encode m = .ok t`: encoding `m'` succeeds, both texts decode
    without I/O error to states with the same object view, and finalisation yields the same hit objects and control points
    (or the same failure).
  * `repMap_of_frameEdit`: the edited map satisfies `RepMap` again (the frame edits leave everything the list-block
    predicates speak about alone), so `C04.encoded_file_accepted` and `C02.roundtrip_rep_partial` apply to it as well.
  Non-vacuity: `C04.toyMap` (Props/C04Toy.lean) edited in title, preview time, HP drain, background, colours and bookmarks.
-/
import RosuModel.Props.C03Frame
import RosuModel.Props.C04Toy
namespace Rosu.C03
open Rosu Encode EncodeLines C11 RtFile FrameEnc FrameDec

set_option linter.unusedSectionVars false

section
variable {F P : Type} [Scalar F] [Scalar P] [Cvt P F] [Trig F] [Trig P] {RF : F → Prop} {RP : P → Prop}

/-- the two list blocks of a `RepMap` map whose encoding succeeds have the shape `edit_frame_objects` assumes. -/
theorem list_blocks_shape (L : MapLaws F P RF RP) (m : Beatmap F P) (hm : RepMap RF RP m) (t : Str) (h : encode m = .ok t) :
    ∃ T H : List Str, encodeTimingPoints m = .ok (unlines (str "[TimingPoints]" :: T)) ∧
      encodeHitObjects m = .ok (unlines (str "[HitObjects]" :: H)) ∧ ListBlockShape T ∧ ListBlockShape H := by
  obtain ⟨timing, _, htim, _, _⟩ := C04.encode_shape m t h
  obtain ⟨T, hT, sT⟩ := C04.timing_block_shape L.f m hm.timing timing htim
  obtain ⟨H, hH, sH, _, _⟩ := C04.hitobjects_block_accepted L.f L.p L.coord m hm.objects
  exact ⟨T, H, by rw [htim, hT], hH, sT, sH⟩

/-- **edit_frame_objects_rep** — the frame clause of C03 for the hit-object and timing-point views, no shape assumption.
`m` satisfies `RepMap` and encodes; `m'` is `m` after any edits covered by `FrameEdit`, with representable record sections.
Then encoding `m'` succeeds, both texts are read back by the `Beatmap` decoder without I/O error, the two decoder states
agree on hit objects, pending group and control points, and finalisation yields the same hit objects and the same control
points for both (or fails for both in the same way). -/
theorem edit_frame_objects_rep (L : MapLaws F P RF RP) (m m' : Beatmap F P) (hm : RepMap RF RP m)
    (hm' : RepRecords RF RP m') (he : FrameEdit m m') (t : Str) (h : encode m = .ok t) :
    ∃ (t' : Str) (st st' : BeatmapState F P), encode m' = .ok t' ∧
      decodeBytes beatmapDecoder (utf8Encode t) = .ok st ∧ decodeBytes beatmapDecoder (utf8Encode t') = .ok st' ∧
      objView st' = objView st ∧ st'.finish.map listView = st.finish.map listView := by
  obtain ⟨T, H, hT, hH, sT, sH⟩ := list_blocks_shape L m hm t h
  exact edit_frame_objects L.f L.p L.int m m' hm.records hm' he t T H h hT hH sT sH

/-- the same, read on the decoded maps. -/
theorem edit_frame_objects_maps_rep (L : MapLaws F P RF RP) (m m' : Beatmap F P) (hm : RepMap RF RP m)
    (hm' : RepRecords RF RP m') (he : FrameEdit m m') (t : Str) (h : encode m = .ok t) :
    ∃ (t' : Str) (st st' : BeatmapState F P), encode m' = .ok t' ∧
      decodeBytes beatmapDecoder (utf8Encode t) = .ok st ∧ decodeBytes beatmapDecoder (utf8Encode t') = .ok st' ∧
      (∀ m2 : Beatmap F P, st.finish = .ok m2 →
        ∃ m2' : Beatmap F P, st'.finish = .ok m2' ∧ m2'.hitObjects = m2.hitObjects ∧ m2'.controlPoints = m2.controlPoints) ∧
      (∀ e, st.finish = .error e → st'.finish = .error e) := by
  obtain ⟨T, H, hT, hH, sT, sH⟩ := list_blocks_shape L m hm t h
  exact edit_frame_objects_maps L.f L.p L.int m m' hm.records hm' he t T H h hT hH sT sH

/-- **repMap_of_frameEdit**: a `FrameEdit` of a `RepMap` map to representable record sections is a `RepMap` map: control
points, hit objects, mode and the inputs of `collect_samples` are untouched. -/
theorem repMap_of_frameEdit (m m' : Beatmap F P) (hm : RepMap RF RP m) (hm' : RepRecords RF RP m') (he : FrameEdit m m') :
    RepMap RF RP m' := by
  have hcp := he.inputs.controlPoints
  have hmode := he.inputs.mode
  have hobj := he.inputs.hitObjects
  refine ⟨hm', ⟨?_, ?_, ?_, ?_, ?_, ?_⟩, ?_⟩
  · rw [hcp]; exact hm.timing.sig
  · rw [hcp, hmode]; exact hm.timing.sv
  · rw [hcp]; exact hm.timing.timing
  · rw [hcp]; exact hm.timing.difficulty
  · rw [hcp]; exact hm.timing.effect
  · intro cp hc
    rw [collectSamples_congr m m' he.inputs] at hc
    exact hm.timing.samples cp hc
  · rw [hobj, hmode]; exact hm.objects

end

/-! ### non-vacuity (toy codec): `C04.toyMap` and an edit of it -/

/-- the toy map after editing title, preview time, HP drain, background file, custom colours and bookmarks. -/
def toyEdited : Beatmap ZC ZC :=
  { C04.toyMap with
    metadata := { C04.toyMap.metadata with title := str "Re:Zero" }
    general := { C04.toyMap.general with previewTime := -5 }
    difficulty := { C04.toyMap.difficulty with hpDrainRate := ⟨2⟩ }
    events := { C04.toyMap.events with backgroundFile := str "bg 2.png" }
    colors := { C04.toyMap.colors with customColors := [] }
    editor := { C04.toyMap.editor with bookmarks := [] } }

theorem toyEdited_frameEdit : FrameEdit C04.toyMap toyEdited := ⟨⟨rfl, rfl, rfl, rfl, rfl, rfl⟩, rfl⟩

/-- the record sections of the edited toy map are those of `frameSample_edited` (Props/C03Frame.lean). -/
theorem toyEdited_rep : RepRecords ZC.Rep ZC.Rep toyEdited :=
  ⟨frameSample_edited_rep.version, frameSample_edited_rep.general, frameSample_edited_rep.editor,
   frameSample_edited_rep.metadata, frameSample_edited_rep.difficulty, frameSample_edited_rep.events,
   frameSample_edited_rep.colors⟩

/-- every hypothesis of `edit_frame_objects_rep` holds of `toyMap` / `toyEdited`. -/
example := edit_frame_objects_rep ZC.mapLaws C04.toyMap toyEdited C04.toyMap_rep toyEdited_rep toyEdited_frameEdit _ C04.toyMap_lines

example : RepMap ZC.Rep ZC.Rep toyEdited := repMap_of_frameEdit _ _ C04.toyMap_rep toyEdited_rep toyEdited_frameEdit

end Rosu.C03
