/-
  Props/C17ArcEnd.lean — C17: an accepted arc **ends at its third control point**, and with it
  `segment_ends_at_last` for all four segment kinds (before length adjustment).

  Extra explicit hypothesis: `PeriodLaws` (`cos`/`sin` are `2π`-periodic, with the model's own `2.0 * PI`). The last vertex
  is at angle `theta_start + direction * theta_range`, which is `theta_end` (direction `+1`) or `theta_end − 2π` (direction
  `−1`), and `theta_end = atan2(c − centre) + k·2π` (`thetaLoop_periodic`: whatever number of turns the `while` loop adds);
  the circumcentre is equidistant from `a` and `c` (`circumcentre_equidistant`), so `radius = |c − centre|`, and polar
  coordinates give `c`. All hypotheses hold together over the reals (`periodLaws_real`); libm is not claimed.
-/
import RosuModel.Props.C17Arc
set_option linter.unusedSectionVars false
set_option linter.unusedVariables false
namespace Rosu

namespace C17
open Rosu Rosu.Curve

variable {P F : Type} [Scalar P] [Scalar F] [Cvt P F] [Trig F] [Trig P]

/-! ### structural: what the end angle is -/

/-- end-angle part of `circular_arc_properties`: `theta_end` is what the `while` loop makes of `atan2(c − centre)`, and
the pair `(direction, theta_range)` is `(1, theta_end − theta_start)` or `(−1, 2π − (theta_end − theta_start))`. -/
theorem arcProps_end_shape (fuel : Nat) (a b c : Pos P) (pr : ArcProps P F)
    (h : circularArcProperties fuel a b c = .ok (some pr)) :
    ∃ te : F, thetaLoop fuel (Trig.atan2 (Cvt.up (c - pr.centre).y) (Cvt.up (c - pr.centre).x)) pr.thetaStart
        = .ok te ∧
      ((pr.direction = 1 ∧ pr.thetaRange = te - pr.thetaStart) ∨
       (pr.direction = -(1 : F) ∧ pr.thetaRange = (2 : F) * Trig.pi - (te - pr.thetaStart))) := by
  unfold circularArcProperties at h
  split at h
  · cases h
  · simp only [] at h
    split at h
    · cases h
    · obtain ⟨te, hte, h⟩ := Outcome.bind_eq_ok h
      split at h <;> simp only [Outcome.pure_eq_ok, Except.ok.injEq, Option.some.injEq] at h <;> subst h
      · exact ⟨te, hte, Or.inr ⟨rfl, rfl⟩⟩
      · exact ⟨te, hte, Or.inl ⟨rfl, rfl⟩⟩

section Exact
variable {K : Type} [Field K] [LinearOrder K] [IsStrictOrderedRing K] {φ : P → K} {ψ : F → K}

/-- however many turns `while theta_end < theta_start { theta_end += 2π }` adds, `cos` and `sin` do not change. -/
theorem thetaLoop_periodic (T : PeriodLaws ψ) : ∀ (fuel : Nat) (te ts te' : F), thetaLoop fuel te ts = .ok te' →
    ψ (Trig.cos te') = ψ (Trig.cos te) ∧ ψ (Trig.sin te') = ψ (Trig.sin te) := by
  intro fuel
  induction fuel with
  | zero =>
    intro te ts te' h
    unfold thetaLoop at h
    split at h
    · cases h
    · cases h; exact ⟨rfl, rfl⟩
  | succ n ih =>
    intro te ts te' h
    unfold thetaLoop at h
    split at h
    · obtain ⟨h1, h2⟩ := ih _ _ _ h
      exact ⟨by rw [h1, T.cos_add], by rw [h2, T.sin_add]⟩
    · cases h; exact ⟨rfl, rfl⟩

/-- `cos`/`sin` at the last angle are `cos`/`sin` at `atan2(c − centre)`. -/
theorem arc_last_angle (E : ExactScalar ψ) (T : PeriodLaws ψ) (fuel : Nat) (a b c : Pos P) (pr : ArcProps P F)
    (h : circularArcProperties fuel a b c = .ok (some pr)) :
    ψ (Trig.cos (pr.thetaStart + pr.direction * pr.thetaRange)) =
        ψ (Trig.cos (Trig.atan2 (Cvt.up (c - pr.centre).y) (Cvt.up (c - pr.centre).x))) ∧
    ψ (Trig.sin (pr.thetaStart + pr.direction * pr.thetaRange)) =
        ψ (Trig.sin (Trig.atan2 (Cvt.up (c - pr.centre).y) (Cvt.up (c - pr.centre).x))) := by
  obtain ⟨te, hte, hdir⟩ := arcProps_end_shape fuel a b c pr h
  obtain ⟨hc, hs⟩ := thetaLoop_periodic T fuel _ _ _ hte
  rcases hdir with ⟨hd, hr⟩ | ⟨hd, hr⟩
  · have : pr.thetaStart + pr.direction * pr.thetaRange = te := by
      apply E.inj
      rw [hd, hr]
      simp only [E.add, E.mul, E.sub, E.one]
      ring
    rw [this]; exact ⟨hc, hs⟩
  · have : pr.thetaStart + pr.direction * pr.thetaRange + (2 : F) * Trig.pi = te := by
      apply E.inj
      rw [hd, hr]
      simp only [E.add, E.mul, E.sub, E.neg, E.one, E.two]
      ring
    rw [← hc, ← hs, ← this, T.cos_add, T.sin_add]
    exact ⟨rfl, rfl⟩

/-- **`arc_last_point`** (exact arithmetic, `sqrt` a square root, polar coordinates, `2π`-periodicity): the last vertex
of an accepted arc is the third control point `c`. -/
theorem arc_last_point (E : ExactArith φ ψ) (S : SqrtLaws ψ) (T : PolarLaws ψ) (Tp : PeriodLaws ψ) (fuel : Nat)
    (a b c : Pos P) (pts : List (Pos P)) (h : approximateCircularArc (F := F) fuel a b c = .ok (some pts)) :
    pts.getLast? = some c := by
  obtain ⟨pr, hp, hh⟩ := arc_last_vertex E fuel a b c pts h
  rw [hh]
  congr 1
  obtain ⟨hd, hcc, hr, _⟩ := arcProps_shape fuel a b c pr hp
  obtain ⟨hcos, hsin⟩ := arc_last_angle E.f Tp fuel a b c pr hp
  -- radius = |c − centre|
  have hrad : φ pr.radius = ψ (Scalar.sqrt (Cvt.up (c - pr.centre).x * Cvt.up (c - pr.centre).x +
      Cvt.up (c - pr.centre).y * Cvt.up (c - pr.centre).y)) := by
    have hra := arc_radius_sq E S fuel a b c pr hp
    have heq := (circumcentre_equidistant E.p a b c hd).2
    rw [← hcc] at heq
    have h1 : φ pr.radius * φ pr.radius = φ (Pos.lengthSquared (c - pr.centre)) := by
      rw [← E.p.mul, hra, heq]
    have hnn : 0 ≤ φ pr.radius := by rw [hr]; exact E.length_nonneg _
    have harg : ψ (Cvt.up (c - pr.centre).x * Cvt.up (c - pr.centre).x +
        Cvt.up (c - pr.centre).y * Cvt.up (c - pr.centre).y) = φ (Pos.lengthSquared (c - pr.centre)) := by
      unfold Pos.lengthSquared Pos.dot
      simp only [E.up, E.f.add, E.f.mul, E.p.add, E.p.mul]
    have hargnn : 0 ≤ ψ (Cvt.up (c - pr.centre).x * Cvt.up (c - pr.centre).x +
        Cvt.up (c - pr.centre).y * Cvt.up (c - pr.centre).y) := by
      rw [harg]
      unfold Pos.lengthSquared Pos.dot
      rw [E.p.add, E.p.mul, E.p.mul]
      nlinarith [mul_self_nonneg (φ (c - pr.centre).x), mul_self_nonneg (φ (c - pr.centre).y)]
    have h2 := S.mul_self_sqrt _ hargnn
    have hsn := E.f.sqrt_nonneg _ hargnn
    rw [harg, ← h1] at h2
    exact ((mul_self_inj hnn hsn).mp h2.symm)
  unfold arcAt
  apply Pos.ext' <;> apply E.p.inj
  · simp only [Pos.add_x, Pos.smul_x, E.p.add, E.p.mul, E.down]
    rw [hcos, hrad, mul_comm, T.cos, E.up, Pos.sub_x, E.p.sub]
    ring
  · simp only [Pos.add_y, Pos.smul_y, E.p.add, E.p.mul, E.down]
    rw [hsin, hrad, mul_comm, T.sin, E.up, Pos.sub_y, E.p.sub]
    ring

/-- **`segment_ends_at_last_all`** — all four segment kinds, two or more control points, before length adjustment:
structural for linear / B-spline / the Bezier fallback; exact arithmetic for Catmull (also after the osu!-mode
simplification) and for an accepted arc. -/
theorem segment_ends_at_last_all (E : ExactArith φ ψ) (S : SqrtLaws ψ) (T : PolarLaws ψ) (Tp : PeriodLaws ψ)
    (fuel : Nat) (mode : GameMode) (seg out : List (Pos P)) (kind : SplineType) (o o' : F)
    (bz bz' : BezierBuffers P) (h2 : 2 ≤ seg.length)
    (h : calculateSubpath fuel mode seg kind o bz = .ok (out, o', bz')) : out.getLast? = seg.getLast? := by
  cases kind with
  | linear => exact (linear_first_point fuel mode seg out o o' bz bz' h).2
  | bspline =>
    rw [dispatch_bspline] at h
    unfold viaBezier at h
    obtain ⟨r, hb, h⟩ := Outcome.bind_eq_ok h
    obtain ⟨out', bz''⟩ := r
    simp only [Outcome.pure_eq_ok, Except.ok.injEq, Prod.mk.injEq] at h
    obtain ⟨rfl, _, _⟩ := h
    exact bezier_last_point fuel seg _ bz _ hb
  | catmull =>
    unfold calculateSubpath at h
    simp only [] at h
    obtain ⟨sub, hs, h⟩ := Outcome.bind_eq_ok h
    have hsub := catmull_last_point E.p seg sub h2 hs
    split at h
    · simp only [Outcome.pure_eq_ok, Except.ok.injEq, Prod.mk.injEq] at h
      obtain ⟨rfl, _, _⟩ := h
      exact hsub
    · simp only [Outcome.pure_eq_ok, Except.ok.injEq, Prod.mk.injEq] at h
      obtain ⟨rfl, _, _⟩ := h
      rw [catmullSimplify_last, hsub]
  | perfectCurve =>
    have hbez : ∀ r, viaBezier fuel seg o bz = .ok r → r.1.getLast? = seg.getLast? := by
      intro r hr
      unfold viaBezier at hr
      obtain ⟨r', hb, hr⟩ := Outcome.bind_eq_ok hr
      obtain ⟨out', bz''⟩ := r'
      simp only [Outcome.pure_eq_ok, Except.ok.injEq] at hr
      subst hr
      exact bezier_last_point fuel seg _ bz _ hb
    by_cases h3 : seg.length = 3
    · match seg, h3 with
      | [a, b, c], _ =>
        rw [dispatch_perfect_three] at h
        obtain ⟨arc, ha, h⟩ := Outcome.bind_eq_ok h
        cases arc with
        | none => exact hbez _ h
        | some pts =>
          simp only [Outcome.pure_eq_ok, Except.ok.injEq, Prod.mk.injEq] at h
          obtain ⟨rfl, _, _⟩ := h
          exact arc_last_point E S T Tp fuel a b c pts ha
    · rw [dispatch_perfect_not_three fuel mode seg o bz h3] at h
      exact hbez _ h

/-- in exact arithmetic a point equals itself under the derived `PartialEq` (no NaN): the premise `v == v'` of
`joint_vertex_once` holds whenever two consecutive segments push the identical joint vertex. -/
theorem pos_eq_self (E : ExactScalar φ) (v : Pos P) : Pos.eq v v = true := by
  unfold Pos.eq
  rw [(E.eq_iff v.x v.x).mpr rfl, (E.eq_iff v.y v.y).mpr rfl]
  rfl

/-- all five hypothesis structures hold together over the reals. -/
example : ExactArith (id : ℝ → ℝ) (id : ℝ → ℝ) ∧ SqrtLaws (id : ℝ → ℝ) ∧ TrigLaws (id : ℝ → ℝ) ∧
    PolarLaws (id : ℝ → ℝ) ∧ PeriodLaws (id : ℝ → ℝ) :=
  ⟨RealInst.exactArith_real, RealInst.sqrtLaws_real, RealInst.trigLaws_real, RealInst.polarLaws_real,
   RealInst.periodLaws_real⟩

end Exact

end C17
end Rosu
