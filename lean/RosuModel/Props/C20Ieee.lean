/-
  Props/C20Ieee.lean — the order pieces of `OrderedFieldLaws` (Lemmas/EventLaws.lean) that are true of IEEE, for the driver's
  `Float`, and `ticks_respect_min_distance_strict` with its law discharged.

  `OrderedFieldLaws F` as a whole is FALSE for IEEE (`add_mul`, `add_assoc` by rounding; `lt_of_not_le` by NaN;
  `lt_add_pos` when `d + t` rounds to `d`), so it is not instantiated. Its pure order fields hold:
  `not_le_of_lt`, `lt_trans` unconditionally, `lt_of_not_le` on numbers. The only use of the structure in
  `ticks_respect_min_distance_strict` is `lt_of_not_le`, so the strict bound holds of the running code as soon as
  `len − 10·velocity` is a number.
-/
import RosuModel.Props.C20
import RosuModel.Lemmas.FloatModelCompare
namespace Rosu.C20
open Rosu Rosu.SliderEvents

section Generic
variable {F : Type} [Scalar F] [FMO.IeeeOrd F]

/-- **ticks_respect_min_distance_strict** from IEEE order: every tick distance is a number, `<= len`, and strictly less than
`len − 10·velocity` whenever that bound is a number. (If the bound is NaN the guard `d >= bound` is false for every `d` and
nothing is excluded — the hypothesis is needed.) -/
theorem ticks_respect_min_distance_strict_ieee (p : Params F) (fuel : Nat) (ds : List F)
    (h : spanTickDists p fuel = some ds) (hb : Scalar.isNaN (p.len - p.minDistFromEnd) = false) :
    ∀ d ∈ ds, Scalar.isNaN d = false ∧ Scalar.le d p.len = true ∧
      Scalar.lt d (p.len - p.minDistFromEnd) = true := by
  intro d hd
  obtain ⟨h1, h2⟩ := ticks_respect_min_distance p fuel ds h d hd
  have hdn := (FMO.not_nan_of_le h1).1
  exact ⟨hdn, h1, FMO.lt_of_not_le d _ hdn hb h2⟩

end Generic

/-- the order fields of `OrderedFieldLaws` that hold of IEEE doubles (`lt_of_not_le` only on numbers). -/
theorem orderedFieldLaws_order_float :
    (∀ a b : Float, Scalar.lt a b = true → Scalar.le b a = false) ∧
    (∀ a b c : Float, Scalar.lt a b = true → Scalar.lt b c = true → Scalar.lt a c = true) ∧
    (∀ a b : Float, Scalar.isNaN a = false → Scalar.isNaN b = false → Scalar.le b a = false → Scalar.lt a b = true) :=
  ⟨FMO.not_le_of_lt, FMO.lt_trans, FMO.lt_of_not_le⟩

/-- `lt_of_not_le` without the non-NaN guard is false for IEEE doubles: `¬ (NaN <= NaN)` and `¬ (NaN < NaN)`. -/
theorem lt_of_not_le_float_false :
    ¬ (∀ a b : Float, Scalar.le b a = false → Scalar.lt a b = true) := by
  intro h
  have := h FMO.nan64 FMO.nan64 (by decide +kernel)
  revert this
  decide +kernel

/-- … so `OrderedFieldLaws Float` is unsatisfiable: theorems taking it say nothing about the running code. -/
theorem orderedFieldLaws_float_false : ¬ OrderedFieldLaws Float :=
  fun L => lt_of_not_le_float_false L.lt_of_not_le

/-- **ticks_respect_min_distance_strict** for IEEE doubles. -/
theorem ticks_respect_min_distance_strict_float (p : Params Float) (fuel : Nat) (ds : List Float)
    (h : spanTickDists p fuel = some ds) (hb : Scalar.isNaN (p.len - p.minDistFromEnd) = false) :
    ∀ d ∈ ds, Scalar.isNaN d = false ∧ Scalar.le d p.len = true ∧
      Scalar.lt d (p.len - p.minDistFromEnd) = true :=
  ticks_respect_min_distance_strict_ieee p fuel ds h hb

end Rosu.C20
