/-
  Props/C19Ieee.lean — the order part of `PosLaws` (Props/C19.lean) for the driver's `Float`.

  `PosLaws P F` as a whole is FALSE for IEEE (`0 * x = 0` fails for `x = ∞`, NaN, negative `x`; `(b − a) / (b − a) = 1` fails
  when `b − a` overflows; `a + (b − a) = b` rounds), so it is not instantiated. But the two theorems about the binary search,
  `bsLoop_hit` and `idxOfDist_hit`, use only its order fields `lt_irrefl`, `lt_asymm`, which hold of IEEE `<`
  (Lemmas/FloatModelOrder.lean). They are re-proved here for every scalar with IEEE comparisons (same proof, the two fields
  replaced by `FMO.lt_irrefl` / `FMO.lt_asymm`) and stated for `Float`: **on strictly increasing cumulative lengths `idx_of_dist`
  finds the index of an exact hit — for IEEE doubles.**
-/
import RosuModel.Props.C19
import RosuModel.Lemmas.FloatModelCompare
namespace Rosu.C19
open Rosu Rosu.Curve

/-- the three order fields of `PosLaws`, for IEEE doubles. -/
theorem posLaws_order_float :
    (∀ a : Float, Scalar.lt a a = false) ∧ (∀ a b : Float, Scalar.lt a b = true → Scalar.lt b a = false) ∧
    Scalar.lt (1 : Float) (0 : Float) = false :=
  ⟨FMO.lt_irrefl, FMO.lt_asymm, by decide +kernel⟩

section Generic
variable {F : Type} [Scalar F] [FMO.IeeeOrd F]

/-- `bsLoop_hit` from IEEE order alone. -/
theorem bsLoop_hit_ieee (lengths : List F) (hs : StrictSorted lengths) (t : Nat) (d : F)
    (ht : lengths[t]? = some d) : ∀ fuel base size, size ≤ fuel → base ≤ t → t < base + size →
      base + size ≤ lengths.length → bsLoop lengths d fuel base size = t := by
  intro fuel
  induction fuel with
  | zero => intro base size h1 h2 h3 _; omega
  | succ n ih =>
    intro base size h1 h2 h3 h4
    simp only [bsLoop]
    split
    · rename_i hsz
      have hmid : base + size / 2 < lengths.length := by omega
      have hx : lengths.getD (base + size / 2) 0 = lengths[base + size / 2] := by
        rw [List.getD_eq_getElem?_getD, List.getElem?_eq_getElem hmid]; rfl
      have hx' : lengths[base + size / 2]? = some lengths[base + size / 2] := List.getElem?_eq_getElem hmid
      rw [hx]
      rcases Nat.lt_or_ge t (base + size / 2) with hlt | hge
      · have h1' := hs t (base + size / 2) d _ hlt ht hx'
        have h2' := FMO.lt_asymm _ _ h1'
        have hc : cmpLen lengths[base + size / 2] d = .gt := by simp [cmpLen, h1', h2']
        simp only [hc, beq_self_eq_true, if_true]
        exact ih base (size - size / 2) (by omega) h2 (by omega) (by omega)
      · have hc : (cmpLen lengths[base + size / 2] d == .gt) = false := by
          rcases Nat.lt_or_ge (base + size / 2) t with hlt | hge'
          · have h1' := hs (base + size / 2) t _ d hlt hx' ht
            simp [cmpLen, h1']
          · have he : base + size / 2 = t := by omega
            have : lengths[base + size / 2] = d := by
              have h5 : lengths[base + size / 2]? = some d := by rw [he]; exact ht
              rw [hx'] at h5; exact Option.some.inj h5
            simp [cmpLen, this, FMO.lt_irrefl]
        simp only [hc, Bool.false_eq_true, if_false]
        exact ih (base + size / 2) (size - size / 2) (by omega) hge (by omega) (by omega)
    · omega

/-- `idxOfDist_hit` from IEEE order alone. -/
theorem idxOfDist_hit_ieee (lengths : List F) (hs : StrictSorted lengths) (t : Nat) (d : F)
    (ht : lengths[t]? = some d) : idxOfDist lengths d = t := by
  have htl : t < lengths.length := by
    rcases Nat.lt_or_ge t lengths.length with h | h
    · exact h
    · rw [List.getElem?_eq_none h] at ht; cases ht
  unfold idxOfDist
  simp only []
  rw [if_neg (by omega)]
  rw [bsLoop_hit_ieee lengths hs t d ht lengths.length 0 lengths.length (Nat.le_refl _) (Nat.zero_le _)
    (by omega) (by omega)]
  have hx : lengths.getD t 0 = d := by rw [List.getD_eq_getElem?_getD, ht]; rfl
  rw [hx]
  simp [cmpLen, FMO.lt_irrefl]

end Generic

/-- **on strictly increasing lengths the search finds the index of an exact hit — IEEE doubles.** -/
theorem idxOfDist_hit_float (lengths : List Float) (hs : StrictSorted lengths) (t : Nat) (d : Float)
    (ht : lengths[t]? = some d) : idxOfDist lengths d = t := idxOfDist_hit_ieee lengths hs t d ht

/-- non-vacuity on actual doubles: `[0, 1.5, 4]` is strictly increasing and `1.5` is found at index 1. -/
example : idxOfDist [(0 : Float), 1.5, 4] 1.5 = 1 :=
  idxOfDist_hit_float _ (by
    intro i j x y hij hi hj
    have hj' : j < 3 := by
      rcases Nat.lt_or_ge j 3 with h | h
      · exact h
      · rw [List.getElem?_eq_none (by simpa using h)] at hj; cases hj
    have : (i = 0 ∧ j = 1) ∨ (i = 0 ∧ j = 2) ∨ (i = 1 ∧ j = 2) := by omega
    rcases this with ⟨rfl, rfl⟩ | ⟨rfl, rfl⟩ | ⟨rfl, rfl⟩ <;>
      (simp at hi hj; subst hi hj; decide +kernel)) 1 1.5 rfl

end Rosu.C19
