/-
  Props/C20IeeeForms.lean — C20 on IEEE doubles: **head, repeats, last tick and tail** against their closed forms
  (Props/C20Exact.lean: `headEvent_exact`, `repeatEvent_exact`, `lastTickEvent_exact`, `tailEvent_exact`).

  How the model (Model/SliderEvents.lean, `F := Float`) evaluates the times, `A = start_time`, `D = span_duration`,
  `n = span_count`, `fl` = one rounding to binary64, `f64::from(k)` exact for an `i32`:

      head        : A                                             (no arithmetic)
      repeat of s : fl( fl(A + fl(s·D)) + D )                     (3 roundings)        closed form  A + (s+1)·D
      tail        : fl( A + fl(n·D) )                             (2 roundings)        closed form  A + n·D
      last tick   : max( fl(A + fl(fl(n·D) / 2)) ,                (3 roundings)        closed form  A + n·D/2
                         fl( fl( fl(A + fl((n−1)·D)) + D ) + (−36) ) )   (4 roundings) closed form  A + n·D − 36

  With `toRat` the exact value of a finite double, `u = 2⁻⁵³` (results; all hypotheses are "the result is finite",
  `0 ≤ D` in the IEEE order and a range for the integers — a finite result has finite operands):

  * `head_exact_float`: time `= start_time`, progress `= 0` (bits `0`), exactly; generic `head_exact` for every `Scalar`.
  * `repeat_time_err_span_float`:  `|time − (A + (s+1)D)| ≤ 5u·(|A| + (s+1)D) + 2⁻¹⁰⁷³`   (`0 ≤ s < 2³¹`);
    `repeat_time_err_float`: the same in units of `|A| + n·D` for `s + 1 ≤ n < 2³¹`.
  * `tail_time_err_float`:   `|time − (A + nD)| ≤ 3u·(|A| + nD) + 2⁻¹⁰⁷⁴`   (`0 ≤ n < 2³¹`).
  * `last_tick_half_err_float`: `|half − (A + nD/2)| ≤ u·|A| + 2u·nD + 2⁻¹⁰⁷³`;
    `last_tick_end_err_float`:  `|end − (A + nD − 36)| ≤ 7u·(|A| + nD) + 36u + 2⁻¹⁰⁷²`;
    `toRat_max_float`: IEEE `max` of two finite doubles is exact (`toRat (max a b) = max (toRat a) (toRat b)`);
    **`last_tick_time_err_float`**: `|time − max(A + nD/2, A + nD − 36)| ≤ max` of the two operand bounds;
    `last_tick_time_err_simple_float`: `≤ 7u·(|A| + nD + 36) + 2⁻¹⁰⁷²`.
  * `repeat_progress_exact_float`, `tail_progress_exact_float`: the progress of a repeat (`0 ≤ s`) / of the tail
    (`0 ≤ n`) is the double `0` or the double `1` exactly (`f64::from((s+1) % 2)`, `f64::from(n % 2)`), which of the two
    decided by the parity; for a negative `s + 1` the Rust `%` is negative and the progress is `−1`
    (`repeat_progress_negative_float`, outside the domain of C20).
  * `last_tick_progress_err_float`: the last tick's progress `(time − final_start)/D`, mirrored `1 − ·` for an even span
    count, against the same expression evaluated exactly on the *stored* time and final span start:
    `≤ 3u·|θ| + 2⁻¹⁰⁷⁵` (odd `n`), `≤ u + 5u·|θ| + 2⁻¹⁰⁷⁴` (even `n`).
  * kernel-evaluated non-vacuity on `exG` (Props/C20IeeeTicks.lean; one span) and on `exG3` (`exG` with three spans: two
    repeats).
  The order facts that survive rounding are in Props/C20IeeeFormsOrder.lean.
-/
import RosuModel.Props.C20IeeeErr2
namespace Rosu.C20
open Rosu Rosu.SliderEvents Rosu.FErr

local notation "u₅₃" => ((2 : ℚ) ^ (-53 : Int))
local notation "η₆₄" => ((2 : ℚ) ^ (-1075 : Int))

/-! ## 1. the head: no arithmetic -/

/-- the head event for every scalar type: kind, span, times are the start time, syntactically. -/
theorem head_exact {F : Type} [Scalar F] (p : Params F) :
    (headEvent p).kind = .head ∧ (headEvent p).spanIdx = 0 ∧ (headEvent p).spanStartTime = p.startTime ∧
    (headEvent p).time = p.startTime ∧ (headEvent p).pathProgress = (0 : F) := ⟨rfl, rfl, rfl, rfl, rfl⟩

/-- **head_exact_float**: on doubles the head's time *is* `start_time` (whatever it is: NaN, ±∞, −0 included) and its
progress is the double `+0` (bit pattern `0`), value `0`. No rounding is involved. -/
theorem head_exact_float (p : Params Float) :
    (headEvent p).time = p.startTime ∧ (headEvent p).spanStartTime = p.startTime ∧
    (headEvent p).pathProgress = (0 : Float) ∧ (headEvent p).pathProgress.toBits = 0 ∧
    toRat (headEvent p).pathProgress = 0 :=
  ⟨rfl, rfl, rfl, by show (0 : Float).toBits = 0; decide +kernel, toRat_zero⟩

/-! ## 2. literals -/

/-- a numeric literal below `2⁵³` is exact. -/
theorem toRat_lit (n : Nat) (hn : n < 2 ^ 53) : toRat (OfNat.ofNat n : Float) = (n : ℚ) := by
  rw [FIE.scalar_ofNat, toRat_ofInt _ (by simpa using hn)]; simp

theorem toRat_tailLeniency : toRat (tailLeniency : Float) = -36 := by
  unfold tailLeniency
  rw [toRat_neg, toRat_lit 36 (by norm_num)]; norm_num

theorem tailLeniency_finite : (tailLeniency : Float).isFinite = true := by decide +kernel

theorem four_eta : 4 * η₆₄ = (2 : ℚ) ^ (-1073 : Int) := by
  rw [show (-1073 : Int) = -1075 + 2 by norm_num, zpow_add₀ (two_ne_zero)]; norm_num; ring
theorem eight_eta : 8 * η₆₄ = (2 : ℚ) ^ (-1072 : Int) := by
  rw [show (-1072 : Int) = -1075 + 3 by norm_num, zpow_add₀ (two_ne_zero)]; norm_num; ring

/-- the cast of a natural-number-valued `Int`. -/
theorem natAbs_lt_of_range (z : Int) (h0 : 0 ≤ z) (h : z < 2 ^ 31) : z.natAbs < 2 ^ 53 := by omega

/-! ## 3. rational arithmetic of the error propagation -/

/-- one more rounded addition of `D ≥ 0` on top of a span start `S ≈ A + V` (`V = s·D ≥ 0`). -/
theorem repeat_rat (A V D S T δ u η : ℚ) (hu0 : 0 ≤ u) (hu : u ≤ 1 / 100) (hη0 : 0 ≤ η) (hV : 0 ≤ V) (hD : 0 ≤ D)
    (hS : |S - (A + V)| ≤ u * |A| + 3 * u * V + 2 * η) (hT : T = (S + D) * (1 + δ)) (hδ : |δ| ≤ u) :
    |T - (A + V + D)| ≤ 5 * u * (|A| + V + D) + 4 * η := by
  have hA := abs_nonneg A
  have e : T - (A + V + D) = (S + D) * δ + (S - (A + V)) := by rw [hT]; ring
  have hSD : |S + D| ≤ |A| + V + D + (u * |A| + 3 * u * V + 2 * η) := by
    have e' : S + D = (A + (V + D)) + (S - (A + V)) := by ring
    rw [e']
    have a := abs_add_le (A + (V + D)) (S - (A + V))
    have b := abs_add_le A (V + D)
    rw [abs_of_nonneg (by linarith : 0 ≤ V + D)] at b
    linarith
  rw [e]
  have a := abs_add_le ((S + D) * δ) (S - (A + V))
  have b : |(S + D) * δ| ≤ (|A| + V + D + (u * |A| + 3 * u * V + 2 * η)) * u := by
    rw [abs_mul]
    exact mul_le_mul hSD hδ (abs_nonneg _) (by positivity)
  have k1 : u * u * |A| ≤ u * |A| := mul_le_mul_of_nonneg_right (by nlinarith) hA
  have k2 : u * u * V ≤ u * V / 3 := by
    have : u * u ≤ u / 3 := by nlinarith
    have := mul_le_mul_of_nonneg_right this hV
    linarith
  have k3 : u * η ≤ η := by nlinarith
  have k4 : 0 ≤ u * D := mul_nonneg hu0 hD
  have k5 : 0 ≤ u * V := mul_nonneg hu0 hV
  have k6 : 0 ≤ u * |A| := mul_nonneg hu0 hA
  nlinarith

/-- `A + fl(fl(V)/2)`: the product `t ≈ V`, the halving `h ≈ t/2` (a rounding only when it underflows), the sum. -/
theorem half_rat (A V t h a δ u η : ℚ) (hu0 : 0 ≤ u) (hu : u ≤ 1 / 100) (hη0 : 0 ≤ η) (hV : 0 ≤ V)
    (h1 : |t - V| ≤ u * |V| + η) (h2 : |h - t / 2| ≤ u * |t / 2| + η) (h3 : a = (A + h) * (1 + δ)) (hδ : |δ| ≤ u) :
    |a - (A + V / 2)| ≤ u * |A| + 2 * u * V + 4 * η := by
  have hA := abs_nonneg A
  rw [abs_of_nonneg hV] at h1
  have ht : |t| ≤ V + (u * V + η) := by
    have e : t = V + (t - V) := by ring
    have a := abs_add_le V (t - V)
    rw [← e, abs_of_nonneg hV] at a
    linarith
  have ht2 : |t / 2| = |t| / 2 := by rw [abs_div]; norm_num
  rw [ht2] at h2
  have hW : |h - V / 2| ≤ u * (V + (u * V + η)) / 2 + η + (u * V + η) / 2 := by
    have e : h - V / 2 = (h - t / 2) + (t - V) / 2 := by ring
    rw [e]
    have a := abs_add_le (h - t / 2) ((t - V) / 2)
    have b : |(t - V) / 2| = |t - V| / 2 := by rw [abs_div]; norm_num
    have c : u * (|t| / 2) ≤ u * ((V + (u * V + η)) / 2) := mul_le_mul_of_nonneg_left (by linarith) hu0
    rw [b] at a
    linarith
  have hAh : |A + h| ≤ |A| + V / 2 + (u * (V + (u * V + η)) / 2 + η + (u * V + η) / 2) := by
    have e : A + h = A + (V / 2 + (h - V / 2)) := by ring
    rw [e]
    have a := abs_add_le A (V / 2 + (h - V / 2))
    have b := abs_add_le (V / 2) (h - V / 2)
    rw [abs_of_nonneg (by linarith : 0 ≤ V / 2)] at b
    linarith
  have e : a - (A + V / 2) = (A + h) * δ + (h - V / 2) := by rw [h3]; ring
  rw [e]
  have a' := abs_add_le ((A + h) * δ) (h - V / 2)
  have b : |(A + h) * δ| ≤ (|A| + V / 2 + (u * (V + (u * V + η)) / 2 + η + (u * V + η) / 2)) * u := by
    rw [abs_mul]
    exact mul_le_mul hAh hδ (abs_nonneg _) (by positivity)
  have k5 : 0 ≤ u * V := mul_nonneg hu0 hV
  have k6 : 0 ≤ u * |A| := mul_nonneg hu0 hA
  have k7 : 0 ≤ u * η := mul_nonneg hu0 hη0
  have k3 : u * η ≤ η / 100 := by nlinarith
  have k2 : u * (u * V) ≤ u * V / 100 := by nlinarith
  have k8 : 0 ≤ u * (u * V) := mul_nonneg hu0 k5
  have k9 : u * (u * (u * V)) ≤ u * V / 100 := by nlinarith
  have k10 : u * (u * η) ≤ η / 100 := by nlinarith
  nlinarith

/-- adding the (exact) constant `−36` to `R ≈ X` (`|X| ≤ M`), one rounding. -/
theorem leniency_rat (R X M E b δ u : ℚ) (hu0 : 0 ≤ u) (hu : u ≤ 1 / 100) (hE0 : 0 ≤ E) (hX : |X| ≤ M)
    (hR : |R - X| ≤ E) (hb : b = (R + -36) * (1 + δ)) (hδ : |δ| ≤ u) :
    |b - (X - 36)| ≤ u * (M + 36) + (1 + u) * E := by
  have e : b - (X - 36) = (R + -36) * δ + (R - X) := by rw [hb]; ring
  have hR36 : |R + -36| ≤ M + 36 + E := by
    have e' : R + -36 = X + ((R - X) + -36) := by ring
    rw [e']
    have a := abs_add_le X ((R - X) + -36)
    have c := abs_add_le (R - X) (-36)
    have d : |(-36 : ℚ)| = 36 := by norm_num
    linarith
  rw [e]
  have a := abs_add_le ((R + -36) * δ) (R - X)
  have c : |(R + -36) * δ| ≤ (M + 36 + E) * u := by
    rw [abs_mul]
    exact mul_le_mul hR36 hδ (abs_nonneg _) (by have := abs_nonneg X; linarith)
  nlinarith

/-- `|max x y − max x' y'| ≤ max |x − x'| |y − y'|`. -/
theorem abs_max_sub_max_le (x y x' y' : ℚ) : |max x y - max x' y'| ≤ max |x - x'| |y - y'| := by
  have h1 := le_abs_self (x - x')
  have h2 := neg_abs_le (x - x')
  have h3 := le_abs_self (y - y')
  have h4 := neg_abs_le (y - y')
  have m1 := le_max_left |x - x'| |y - y'|
  have m2 := le_max_right |x - x'| |y - y'|
  rw [abs_le]
  constructor
  · rw [neg_le, neg_sub, sub_le_iff_le_add]
    apply max_le
    · have := le_max_left x y; linarith
    · have := le_max_right x y; linarith
  · rw [sub_le_iff_le_add]
    apply max_le
    · have := le_max_left x' y'; linarith
    · have := le_max_right x' y'; linarith

/-! ## 4. repeats and tail -/

theorem repeatEvent_time (p : Params Float) (s : Int) :
    (repeatEvent p s).time = spanStart p s + p.spanDuration := rfl

theorem tailEvent_time (p : Params Float) : (tailEvent p).time = spanStart p p.spanCount := rfl

/-- **repeat_time_err_span_float** — the repeat that ends span `s` (`0 ≤ s < 2³¹`), IEEE binary64: if its time is finite
and `0 ≤ span_duration`, then

    `|toRat time − (A + (s+1)·D)| ≤ 5·2⁻⁵³·(|A| + (s+1)·D) + 2⁻¹⁰⁷³`,   `A = toRat start_time`, `D = toRat span_duration`.

Three roundings (`s·D`, `A + ·`, `· + D`); the absolute term covers a product `s·D` in the subnormal range. -/
theorem repeat_time_err_span_float (p : Params Float) (s : Int) (hs0 : 0 ≤ s) (hs : s < 2 ^ 31)
    (hfin : (repeatEvent p s).time.isFinite = true) (hdur : Scalar.le (0 : Float) p.spanDuration = true) :
    |toRat (repeatEvent p s).time - (toRat p.startTime + ((s : ℚ) + 1) * toRat p.spanDuration)| ≤
      5 * u₅₃ * (|toRat p.startTime| + ((s : ℚ) + 1) * toRat p.spanDuration) + (2 : ℚ) ^ (-1073 : Int) := by
  rw [repeatEvent_time] at hfin ⊢
  obtain ⟨fS, fD⟩ := finite_of_add_finite _ _ hfin
  obtain ⟨δ, hδ, hT⟩ := add_err_float _ _ fS fD hfin
  have hD := toRat_nonneg _ hdur fD
  have hsq : (0 : ℚ) ≤ (s : ℚ) := by exact_mod_cast hs0
  have hS := span_start_err_float p s (natAbs_lt_of_range s hs0 hs) fS
  rw [abs_of_nonneg (mul_nonneg hsq hD), ← two_eta] at hS
  have := repeat_rat _ _ _ _ _ δ _ _ u53_pos.le (by norm_num) eta_pos.le (mul_nonneg hsq hD) hD hS hT hδ
  rw [← four_eta]
  have e : toRat p.startTime + ((s : ℚ) + 1) * toRat p.spanDuration =
      toRat p.startTime + (s : ℚ) * toRat p.spanDuration + toRat p.spanDuration := by ring
  have e' : |toRat p.startTime| + ((s : ℚ) + 1) * toRat p.spanDuration =
      |toRat p.startTime| + (s : ℚ) * toRat p.spanDuration + toRat p.spanDuration := by ring
  rw [e, e']
  exact this

/-- **repeat_time_err_float** — the same in units of `2⁻⁵³·(|start| + n·D)`, `n = span_count`: for `0 ≤ s`,
`s + 1 ≤ n < 2³¹` (every repeat of the stream has `s + 1 ≤ n − 1`), a finite repeat time and `0 ≤ D`,

    `|toRat time − (A + (s+1)·D)| ≤ 5·2⁻⁵³·(|A| + n·D) + 2⁻¹⁰⁷³`. -/
theorem repeat_time_err_float (p : Params Float) (s : Int) (hs0 : 0 ≤ s) (hsn : s + 1 ≤ p.spanCount)
    (hn : p.spanCount < 2 ^ 31)
    (hfin : (repeatEvent p s).time.isFinite = true) (hdur : Scalar.le (0 : Float) p.spanDuration = true) :
    |toRat (repeatEvent p s).time - (toRat p.startTime + ((s : ℚ) + 1) * toRat p.spanDuration)| ≤
      5 * u₅₃ * (|toRat p.startTime| + (p.spanCount : ℚ) * toRat p.spanDuration) + (2 : ℚ) ^ (-1073 : Int) := by
  refine le_trans (repeat_time_err_span_float p s hs0 (by omega) hfin hdur) ?_
  have fD : p.spanDuration.isFinite = true := by
    rw [repeatEvent_time] at hfin; exact (finite_of_add_finite _ _ hfin).2
  have hD := toRat_nonneg _ hdur fD
  have hq : ((s : ℚ) + 1) ≤ (p.spanCount : ℚ) := by exact_mod_cast hsn
  have := mul_le_mul_of_nonneg_right hq hD
  have hu := u53_pos
  nlinarith

/-- **tail_time_err_float** — the tail, `time = fl(A + fl(n·D))`: for `0 ≤ n < 2³¹`, a finite tail time, `0 ≤ D`,

    `|toRat time − (A + n·D)| ≤ 3·2⁻⁵³·(|A| + n·D) + 2⁻¹⁰⁷⁴`. -/
theorem tail_time_err_float (p : Params Float) (hn0 : 0 ≤ p.spanCount) (hn : p.spanCount < 2 ^ 31)
    (hfin : (tailEvent p).time.isFinite = true) (hdur : Scalar.le (0 : Float) p.spanDuration = true) :
    |toRat (tailEvent p).time - (toRat p.startTime + (p.spanCount : ℚ) * toRat p.spanDuration)| ≤
      3 * u₅₃ * (|toRat p.startTime| + (p.spanCount : ℚ) * toRat p.spanDuration) + (2 : ℚ) ^ (-1074 : Int) := by
  rw [tailEvent_time] at hfin ⊢
  have fD : p.spanDuration.isFinite = true := by
    unfold spanStart at hfin
    exact (finite_of_mul_finite _ _ (finite_of_add_finite _ _ hfin).2).2
  have hD := toRat_nonneg _ hdur fD
  have hnq : (0 : ℚ) ≤ (p.spanCount : ℚ) := by exact_mod_cast hn0
  have hS := span_start_err_float p p.spanCount (natAbs_lt_of_range _ hn0 hn) hfin
  rw [abs_of_nonneg (mul_nonneg hnq hD)] at hS
  refine le_trans hS ?_
  have := mul_nonneg u53_pos.le (abs_nonneg (toRat p.startTime))
  have := mul_nonneg u53_pos.le (mul_nonneg hnq hD)
  nlinarith

/-! ## 5. the last tick -/

/-- the first operand of the `max`: `start_time + total_duration / 2.0`. -/
def lastTickHalf {F : Type} [Scalar F] (p : Params F) : F :=
  p.startTime + Scalar.ofInt p.spanCount * p.spanDuration / (2 : F)

/-- the second operand: `final_span_end_time + TAIL_LENIENCY`, the end computed as `final_span_start_time + span_duration`
— the expression of the time of a repeat ending span `n − 1`. -/
def lastTickEnd {F : Type} [Scalar F] (p : Params F) : F :=
  ((p.startTime + Scalar.ofInt (p.spanCount - 1) * p.spanDuration) + p.spanDuration) + tailLeniency

theorem lastTickEvent_time {F : Type} [Scalar F] (p : Params F) :
    (lastTickEvent p).time = Scalar.max (lastTickHalf p) (lastTickEnd p) := rfl

theorem lastTickEnd_eq (p : Params Float) :
    lastTickEnd p = (repeatEvent p (p.spanCount - 1)).time + tailLeniency := rfl

/-- **IEEE `max` of two finite doubles is exact**: it is one of them, the one of larger value. -/
theorem toRat_max_float (a b : Float) (fa : a.isFinite = true) (fb : b.isFinite = true) :
    toRat (Scalar.max a b) = max (toRat a) (toRat b) ∧ (Scalar.max a b).isFinite = true := by
  unfold Scalar.max
  cases hlt : Scalar.lt a b
  · have hna := not_nan_of_finite a fa
    have hnb := not_nan_of_finite b fb
    simp only [Bool.false_eq_true, if_false, hna]
    exact ⟨(max_eq_left (toRat_le_of_le b a fb fa (FMO.le_of_not_lt a b hna hnb hlt))).symm, fa⟩
  · simp only [if_true]
    exact ⟨(max_eq_right (toRat_le_of_lt a b fa fb hlt)).symm, fb⟩

/-- **half-way operand**: `fl(A + fl(fl(n·D)/2))` against `A + n·D/2` (`0 ≤ n < 2³¹`, `0 ≤ D`, finite):
`≤ 2⁻⁵³·|A| + 2·2⁻⁵³·n·D + 2⁻¹⁰⁷³`. (The halving is exact unless it underflows; it is treated as a rounding.) -/
theorem last_tick_half_err_float (p : Params Float) (hn0 : 0 ≤ p.spanCount) (hn : p.spanCount < 2 ^ 31)
    (hfin : (lastTickHalf p).isFinite = true) (hdur : Scalar.le (0 : Float) p.spanDuration = true) :
    |toRat (lastTickHalf p) - (toRat p.startTime + (p.spanCount : ℚ) * toRat p.spanDuration / 2)| ≤
      u₅₃ * |toRat p.startTime| + 2 * u₅₃ * ((p.spanCount : ℚ) * toRat p.spanDuration) + (2 : ℚ) ^ (-1073 : Int) := by
  unfold lastTickHalf at hfin ⊢
  rw [FIE.scalar_ofInt] at hfin ⊢
  obtain ⟨fA, fh⟩ := finite_of_add_finite _ _ hfin
  obtain ⟨δ, hδ, h3⟩ := add_err_float _ _ fA fh hfin
  have ft := finite_of_div_finite _ _ fh
  have f2 : (2 : Float).isFinite = true := by decide +kernel
  have h2 := (div_rnd_float _ _ ft f2 fh).abs_add
  rw [toRat_lit 2 (by norm_num)] at h2
  obtain ⟨fz, fD⟩ := finite_of_mul_finite _ _ ft
  have h1 := (mul_rnd_float _ _ fz fD ft).abs_add
  rw [toRat_ofInt _ (natAbs_lt_of_range _ hn0 hn)] at h1
  have hD := toRat_nonneg _ hdur fD
  have hnq : (0 : ℚ) ≤ (p.spanCount : ℚ) := by exact_mod_cast hn0
  rw [← four_eta]
  have := half_rat _ _ _ _ _ δ _ _ u53_pos.le (by norm_num) eta_pos.le (mul_nonneg hnq hD) h1
    (by simpa using h2) h3 hδ
  simpa using this

/-- **end operand**: `fl(fl(fl(A + fl((n−1)·D)) + D) + (−36))` against `A + n·D − 36` (`1 ≤ n < 2³¹`, `0 ≤ D`, finite):
`≤ 7·2⁻⁵³·(|A| + n·D) + 36·2⁻⁵³ + 2⁻¹⁰⁷²`. -/
theorem last_tick_end_err_float (p : Params Float) (hn0 : 0 < p.spanCount) (hn : p.spanCount < 2 ^ 31)
    (hfin : (lastTickEnd p).isFinite = true) (hdur : Scalar.le (0 : Float) p.spanDuration = true) :
    |toRat (lastTickEnd p) - (toRat p.startTime + (p.spanCount : ℚ) * toRat p.spanDuration - 36)| ≤
      7 * u₅₃ * (|toRat p.startTime| + (p.spanCount : ℚ) * toRat p.spanDuration) + 36 * u₅₃ +
        (2 : ℚ) ^ (-1072 : Int) := by
  rw [lastTickEnd_eq] at hfin ⊢
  obtain ⟨fR, fL⟩ := finite_of_add_finite _ _ hfin
  obtain ⟨δ, hδ, hb⟩ := add_err_float _ _ fR fL hfin
  rw [toRat_tailLeniency] at hb
  have hR := repeat_time_err_float p (p.spanCount - 1) (by omega) (by omega) hn fR hdur
  have fD : p.spanDuration.isFinite = true := by
    rw [repeatEvent_time] at fR; exact (finite_of_add_finite _ _ fR).2
  have hD := toRat_nonneg _ hdur fD
  have hnq : (0 : ℚ) ≤ (p.spanCount : ℚ) := by exact_mod_cast hn0.le
  have hc : (((p.spanCount - 1 : Int) : ℚ) + 1) = (p.spanCount : ℚ) := by push_cast; ring
  rw [hc, ← four_eta] at hR
  have hnD := mul_nonneg hnq hD
  have hX : |toRat p.startTime + (p.spanCount : ℚ) * toRat p.spanDuration| ≤
      |toRat p.startTime| + (p.spanCount : ℚ) * toRat p.spanDuration := by
    have := abs_add_le (toRat p.startTime) ((p.spanCount : ℚ) * toRat p.spanDuration)
    rwa [abs_of_nonneg hnD] at this
  have hA := abs_nonneg (toRat p.startTime)
  have hE0 : 0 ≤ 5 * u₅₃ * (|toRat p.startTime| + (p.spanCount : ℚ) * toRat p.spanDuration) + 4 * η₆₄ := by
    have h1 := mul_nonneg (mul_nonneg (by norm_num : (0 : ℚ) ≤ 5) u53_pos.le) (add_nonneg hA hnD)
    have h2 := eta_pos
    linarith
  have := leniency_rat _ _ _ _ _ δ u₅₃ u53_pos.le (by norm_num) hE0 hX hR hb hδ
  refine le_trans this ?_
  rw [← eight_eta]
  have hu : u₅₃ ≤ 1 / 100 := by norm_num
  have hη := eta_pos
  have hu0 := u53_pos
  generalize u₅₃ = u at *
  generalize η₆₄ = η at *
  generalize |toRat p.startTime| + (p.spanCount : ℚ) * toRat p.spanDuration = M at *
  have hM : 0 ≤ M := le_trans (abs_nonneg _) hX
  have k1 : u * (u * M) ≤ u * M / 100 := by
    have : u * u ≤ u / 100 := by nlinarith
    have := mul_le_mul_of_nonneg_right this hM
    linarith
  have k2 : u * η ≤ η := by nlinarith
  nlinarith

/-- **last_tick_time_err_float** — the last tick's time, IEEE binary64, against the closed form of
`lastTickEvent_exact`: for `1 ≤ n < 2³¹`, `0 ≤ D` and both operands of the `max` finite,

    `|toRat time − max (A + n·D/2) (A + n·D − 36)| ≤ max (u·|A| + 2u·n·D + 2⁻¹⁰⁷³) (7u·(|A| + n·D) + 36u + 2⁻¹⁰⁷²)`,

the two entries being the operands' own bounds (`last_tick_half_err_float`, `last_tick_end_err_float`): the `max` itself
adds no error (`toRat_max_float`), and the time is finite. -/
theorem last_tick_time_err_float (p : Params Float) (hn0 : 0 < p.spanCount) (hn : p.spanCount < 2 ^ 31)
    (hfa : (lastTickHalf p).isFinite = true) (hfb : (lastTickEnd p).isFinite = true)
    (hdur : Scalar.le (0 : Float) p.spanDuration = true) :
    (lastTickEvent p).time.isFinite = true ∧
    ((lastTickEvent p).time = lastTickHalf p ∨ (lastTickEvent p).time = lastTickEnd p) ∧
    |toRat (lastTickEvent p).time -
        max (toRat p.startTime + (p.spanCount : ℚ) * toRat p.spanDuration / 2)
          (toRat p.startTime + (p.spanCount : ℚ) * toRat p.spanDuration - 36)| ≤
      max (u₅₃ * |toRat p.startTime| + 2 * u₅₃ * ((p.spanCount : ℚ) * toRat p.spanDuration) + (2 : ℚ) ^ (-1073 : Int))
        (7 * u₅₃ * (|toRat p.startTime| + (p.spanCount : ℚ) * toRat p.spanDuration) + 36 * u₅₃ +
          (2 : ℚ) ^ (-1072 : Int)) := by
  obtain ⟨hm, hf⟩ := toRat_max_float _ _ hfa hfb
  rw [lastTickEvent_time]
  refine ⟨hf, FMO.max_cases _ _, ?_⟩
  rw [hm]
  refine le_trans (abs_max_sub_max_le _ _ _ _) (max_le_max ?_ ?_)
  · exact last_tick_half_err_float p hn0.le hn hfa hdur
  · exact last_tick_end_err_float p hn0 hn hfb hdur

/-- the same with one constant: `≤ 7·2⁻⁵³·(|A| + n·D + 36) + 2⁻¹⁰⁷²`. -/
theorem last_tick_time_err_simple_float (p : Params Float) (hn0 : 0 < p.spanCount) (hn : p.spanCount < 2 ^ 31)
    (hfa : (lastTickHalf p).isFinite = true) (hfb : (lastTickEnd p).isFinite = true)
    (hdur : Scalar.le (0 : Float) p.spanDuration = true) :
    |toRat (lastTickEvent p).time -
        max (toRat p.startTime + (p.spanCount : ℚ) * toRat p.spanDuration / 2)
          (toRat p.startTime + (p.spanCount : ℚ) * toRat p.spanDuration - 36)| ≤
      7 * u₅₃ * (|toRat p.startTime| + (p.spanCount : ℚ) * toRat p.spanDuration + 36) + (2 : ℚ) ^ (-1072 : Int) := by
  refine le_trans (last_tick_time_err_float p hn0 hn hfa hfb hdur).2.2 (max_le ?_ ?_)
  · have fD : p.spanDuration.isFinite = true := by
      rw [lastTickEnd_eq] at hfb
      have := (finite_of_add_finite _ _ hfb).1
      rw [repeatEvent_time] at this; exact (finite_of_add_finite _ _ this).2
    have hD := toRat_nonneg _ hdur fD
    have hnq : (0 : ℚ) ≤ (p.spanCount : ℚ) := by exact_mod_cast hn0.le
    have hnD := mul_nonneg hnq hD
    have hA := abs_nonneg (toRat p.startTime)
    have h73 : (2 : ℚ) ^ (-1073 : Int) ≤ (2 : ℚ) ^ (-1072 : Int) := zpow_le_zpow_right₀ (by norm_num) (by norm_num)
    have hu0 := u53_pos
    generalize u₅₃ = u at *
    nlinarith [mul_nonneg hu0.le hA, mul_nonneg hu0.le hnD]
  · have hu0 := u53_pos
    linarith

/-! ## 6. progress values -/

theorem tmod_two_cases (z : Int) (hz : 0 ≤ z) : Int.tmod z 2 = 0 ∨ Int.tmod z 2 = 1 := by
  rw [Int.tmod_eq_emod_of_nonneg hz]; omega

/-- **repeat_progress_exact_float**: the path progress of the repeat ending span `s ≥ 0` is `f64::from((s+1) % 2)`:
the double `1` (bits `0x3FF0000000000000`) after a forward span, the double `+0` after a reversed one — exactly. -/
theorem repeat_progress_exact_float (p : Params Float) (s : Int) (hs0 : 0 ≤ s) :
    (repeatEvent p s).pathProgress = (if isReversed s then (0 : Float) else (1 : Float)) ∧
    toRat (repeatEvent p s).pathProgress = (if isReversed s then 0 else 1) := by
  have hp : (repeatEvent p s).pathProgress = Float.ofInt (Int.tmod (s + 1) 2) := rfl
  rw [hp]
  unfold isReversed
  have e1 : Int.tmod (s + 1) 2 = (s + 1) % 2 := Int.tmod_eq_emod_of_nonneg (by omega)
  have e2 : Int.tmod s 2 = s % 2 := Int.tmod_eq_emod_of_nonneg hs0
  rw [e1, e2]
  rcases Int.emod_two_eq_zero_or_one s with h | h
  · have h' : (s + 1) % 2 = 1 := by omega
    rw [h, h']
    exact ⟨rfl, by simpa using toRat_ofInt 1 (by decide)⟩
  · have h' : (s + 1) % 2 = 0 := by omega
    rw [h, h']
    exact ⟨rfl, by simpa using toRat_ofInt 0 (by decide)⟩

/-- **tail_progress_exact_float**: the tail's path progress is `f64::from(n % 2)` — the double `1` for an odd span count
(the slider ends at the far end of the path), the double `+0` for an even one — exactly (`0 ≤ n`). -/
theorem tail_progress_exact_float (p : Params Float) (hn0 : 0 ≤ p.spanCount) :
    (tailEvent p).pathProgress = (if Int.tmod p.spanCount 2 == 0 then (0 : Float) else (1 : Float)) ∧
    toRat (tailEvent p).pathProgress = (if Int.tmod p.spanCount 2 == 0 then 0 else 1) := by
  have hp : (tailEvent p).pathProgress = Float.ofInt (Int.tmod p.spanCount 2) := rfl
  rw [hp]
  rcases tmod_two_cases p.spanCount hn0 with h | h <;> rw [h]
  · exact ⟨rfl, by simpa using toRat_ofInt 0 (by decide)⟩
  · exact ⟨rfl, by simpa using toRat_ofInt 1 (by decide)⟩

/-- outside the domain: Rust's `%` truncates, so a repeat of a span `s` with `s + 1` negative and odd would carry the
progress `−1` (the model follows: `Int.tmod`). Not reachable for `span_count ≥ 1` (spans are `0 … n − 1`). -/
theorem repeat_progress_negative_float (p : Params Float) :
    (repeatEvent p (-2)).pathProgress = Float.ofInt (-1) ∧ toRat (repeatEvent p (-2)).pathProgress = -1 :=
  ⟨rfl, by have h : (repeatEvent p (-2)).pathProgress = Float.ofInt (-1) := rfl
           rw [h]; simpa using toRat_ofInt (-1) (by decide)⟩

/-- `1 − q` with `q ≈ θ`, one rounding. -/
theorem mirror_rat (q θ r δ u E : ℚ) (hu0 : 0 ≤ u) (hq : |q - θ| ≤ E) (hr : r = (1 - q) * (1 + δ)) (hδ : |δ| ≤ u) :
    |r - (1 - θ)| ≤ u * (1 + |θ|) + (1 + u) * E := by
  have hE : 0 ≤ E := le_trans (abs_nonneg _) hq
  have e : r - (1 - θ) = (1 - q) * δ + -(q - θ) := by rw [hr]; ring
  have h1 : |1 - q| ≤ 1 + |θ| + E := by
    have e' : 1 - q = 1 + (-θ + -(q - θ)) := by ring
    rw [e']
    have a := abs_add_le 1 (-θ + -(q - θ))
    have b := abs_add_le (-θ) (-(q - θ))
    rw [abs_neg, abs_neg] at b
    rw [abs_one] at a
    linarith
  rw [e]
  have a := abs_add_le ((1 - q) * δ) (-(q - θ))
  rw [abs_neg] at a
  have b : |(1 - q) * δ| ≤ (1 + |θ| + E) * u := by
    rw [abs_mul]; exact mul_le_mul h1 hδ (abs_nonneg _) (by have := abs_nonneg θ; linarith)
  nlinarith

/-- a rounded difference followed by a rounded quotient. -/
theorem inspan_rat (T S D x q δ u η : ℚ) (hu0 : 0 ≤ u) (hu : u ≤ 1 / 100)
    (hx : x = (T - S) * (1 + δ)) (hδ : |δ| ≤ u) (hq : |q - x / D| ≤ u * |x / D| + η) :
    |q - (T - S) / D| ≤ 3 * u * |(T - S) / D| + η := by
  have hxD : x / D = (T - S) / D * (1 + δ) := by rw [hx]; ring
  rw [hxD] at hq
  have e : q - (T - S) / D = (q - (T - S) / D * (1 + δ)) + (T - S) / D * δ := by ring
  rw [e]
  have a := abs_add_le (q - (T - S) / D * (1 + δ)) ((T - S) / D * δ)
  have hθ := abs_nonneg ((T - S) / D)
  have b : |(T - S) / D * δ| ≤ |(T - S) / D| * u := by
    rw [abs_mul]; exact mul_le_mul_of_nonneg_left hδ hθ
  have c : |(T - S) / D * (1 + δ)| ≤ |(T - S) / D| * (1 + u) := by
    rw [abs_mul]
    refine mul_le_mul_of_nonneg_left ?_ hθ
    have := abs_add_le 1 δ
    rw [abs_one] at this; linarith
  have d : u * |(T - S) / D * (1 + δ)| ≤ u * (|(T - S) / D| * (1 + u)) := mul_le_mul_of_nonneg_left c hu0
  have k : u * (u * |(T - S) / D|) ≤ u * |(T - S) / D| := by
    have : u * u ≤ u := by nlinarith
    have := mul_le_mul_of_nonneg_right this hθ
    linarith
  nlinarith

theorem lastTickEvent_progress (p : Params Float) :
    (lastTickEvent p).pathProgress =
      (if Int.tmod p.spanCount 2 == 0
        then (1 : Float) - ((lastTickEvent p).time - spanStart p (p.spanCount - 1)) / p.spanDuration
        else ((lastTickEvent p).time - spanStart p (p.spanCount - 1)) / p.spanDuration) := rfl

/-- **last_tick_progress_err_float** — the last tick's path progress, IEEE binary64. With `T = toRat time` (the stored
last-tick time), `S = toRat final_span_start` (the stored start of span `n − 1`), `D = toRat span_duration` and
`θ = (T − S)/D` evaluated exactly: if the progress is finite and `span_duration` is finite (then `D ≠ 0`),

    odd  `n`:  `|toRat progress − θ|       ≤ 3·2⁻⁵³·|θ| + 2⁻¹⁰⁷⁵`                 (difference, quotient)
    even `n`:  `|toRat progress − (1 − θ)| ≤ 2⁻⁵³ + 5·2⁻⁵³·|θ| + 2⁻¹⁰⁷⁴`          (and the mirroring `1 − ·`).

No sign or range assumption on `θ` (it is `1 − 36/D` or `n/2 − (n−1)` in exact arithmetic, negative for `n ≥ 3`
when the half-way time wins). -/
theorem last_tick_progress_err_float (p : Params Float)
    (hfin : (lastTickEvent p).pathProgress.isFinite = true) (fD : p.spanDuration.isFinite = true) :
    toRat p.spanDuration ≠ 0 ∧
    |toRat (lastTickEvent p).pathProgress -
        (if Int.tmod p.spanCount 2 == 0
          then 1 - (toRat (lastTickEvent p).time - toRat (spanStart p (p.spanCount - 1))) / toRat p.spanDuration
          else (toRat (lastTickEvent p).time - toRat (spanStart p (p.spanCount - 1))) / toRat p.spanDuration)| ≤
      (if Int.tmod p.spanCount 2 == 0
        then u₅₃ + 5 * u₅₃ *
          |(toRat (lastTickEvent p).time - toRat (spanStart p (p.spanCount - 1))) / toRat p.spanDuration| +
            (2 : ℚ) ^ (-1074 : Int)
        else 3 * u₅₃ *
          |(toRat (lastTickEvent p).time - toRat (spanStart p (p.spanCount - 1))) / toRat p.spanDuration| +
            (2 : ℚ) ^ (-1075 : Int)) := by
  rw [lastTickEvent_progress] at hfin ⊢
  generalize (lastTickEvent p).time = T at *
  generalize spanStart p (p.spanCount - 1) = S at *
  have hu : u₅₃ ≤ 1 / 100 := by norm_num
  cases hpar : (Int.tmod p.spanCount 2 == 0)
  · rw [hpar] at hfin
    simp only [Bool.false_eq_true, if_false] at hfin ⊢
    have fx := finite_of_div_finite _ _ hfin
    obtain ⟨fT, fS⟩ := finite_of_sub_finite _ _ fx
    obtain ⟨δ, hδ, hx⟩ := sub_err_float _ _ fT fS fx
    have hq := (div_rnd_float _ _ fx fD hfin).abs_add
    exact ⟨div_finite_divisor_ne_zero _ _ fx fD hfin,
      inspan_rat _ _ _ _ _ δ _ _ u53_pos.le hu hx hδ hq⟩
  · rw [hpar] at hfin
    simp only [if_true] at hfin ⊢
    obtain ⟨f1, fq⟩ := finite_of_sub_finite _ _ hfin
    have fx := finite_of_div_finite _ _ fq
    obtain ⟨fT, fS⟩ := finite_of_sub_finite _ _ fx
    obtain ⟨δ, hδ, hx⟩ := sub_err_float _ _ fT fS fx
    have hq := (div_rnd_float _ _ fx fD fq).abs_add
    have h1 := inspan_rat _ _ _ _ _ δ _ _ u53_pos.le hu hx hδ hq
    obtain ⟨δ', hδ', hr⟩ := sub_err_float _ _ f1 fq hfin
    rw [toRat_one] at hr
    have h2 := mirror_rat _ _ _ δ' u₅₃ _ u53_pos.le h1 hr hδ'
    refine ⟨div_finite_divisor_ne_zero _ _ fx fD fq, le_trans h2 ?_⟩
    rw [← two_eta]
    have hη := eta_pos
    have hu0 := u53_pos
    have hθ := abs_nonneg ((toRat T - toRat S) / toRat p.spanDuration)
    generalize |(toRat T - toRat S) / toRat p.spanDuration| = θ at *
    generalize u₅₃ = u at *
    generalize η₆₄ = η at *
    have k1 : u * (u * θ) ≤ u * θ / 100 := by
      have : u * u ≤ u / 100 := by nlinarith
      have := mul_le_mul_of_nonneg_right this hθ
      linarith
    have k2 : u * η ≤ η := by nlinarith
    nlinarith

/-! ## 7. non-vacuity (kernel-evaluated) -/

section Examples

/-- `exG` (Props/C20IeeeTicks.lean: start 0, span 1000 ms, one span) with a start and a span duration that are not
dyadic and three spans: repeats end spans 0 and 1. -/
def exH : Params Float := { exG with startTime := 0.1, spanDuration := 333.3, spanCount := 3 }

/-- the values on `exG`: repeat-shaped end of span 0 and tail at `1000`, last tick at `964 = max(500, 1000 − 36)`,
progress `0.964`, tail progress `1`. -/
theorem exG_forms :
    (headEvent exG).time = exG.startTime ∧ (headEvent exG).pathProgress.toBits = 0 ∧
    (repeatEvent exG 0).time = Float.ofBits 0x408F400000000000 ∧
    (tailEvent exG).time = Float.ofBits 0x408F400000000000 ∧
    lastTickHalf exG = Float.ofBits 0x407F400000000000 ∧ lastTickEnd exG = Float.ofBits 0x408E200000000000 ∧
    (lastTickEvent exG).time = Float.ofBits 0x408E200000000000 ∧
    (lastTickEvent exG).pathProgress = Float.ofBits 0x3FEED916872B020C ∧
    (tailEvent exG).pathProgress = (1 : Float) := by
  refine ⟨rfl, ?_, ?_, ?_, ?_, ?_, ?_, ?_, ?_⟩ <;> decide +kernel

/-- the values on `exH`: repeats at `333.40000000000003`, `666.7`; the end of the final span as the last tick computes it
(`1000.0`) is *not* the tail's time (`1000.0000000000001`); last tick at `964.0`, progress `0.8919891989198918`. -/
theorem exH_forms :
    (repeatEvent exH 0).time = Float.ofBits 0x4074D66666666667 ∧
    (repeatEvent exH 1).time = Float.ofBits 0x4084D5999999999A ∧
    (repeatEvent exH 2).time = Float.ofBits 0x408F400000000000 ∧
    (tailEvent exH).time = Float.ofBits 0x408F400000000001 ∧
    lastTickHalf exH = Float.ofBits 0x407F40CCCCCCCCCE ∧ lastTickEnd exH = Float.ofBits 0x408E200000000000 ∧
    (lastTickEvent exH).time = Float.ofBits 0x408E200000000000 ∧
    (lastTickEvent exH).pathProgress = Float.ofBits 0x3FEC8B2CEEB7E0A8 ∧
    (repeatEvent exH 0).pathProgress = (1 : Float) ∧ (repeatEvent exH 1).pathProgress = (0 : Float) ∧
    (tailEvent exH).pathProgress = (1 : Float) := by
  refine ⟨?_, ?_, ?_, ?_, ?_, ?_, ?_, ?_, ?_, ?_, ?_⟩ <;> decide +kernel

/-- the hypotheses of the theorems of this file hold on `exG` and on `exH` … -/
theorem exG_forms_hyps :
    (repeatEvent exG 0).time.isFinite = true ∧ (tailEvent exG).time.isFinite = true ∧
    (lastTickHalf exG).isFinite = true ∧ (lastTickEnd exG).isFinite = true ∧
    (lastTickEvent exG).pathProgress.isFinite = true ∧ exG.spanDuration.isFinite = true ∧
    Scalar.le (0 : Float) exG.spanDuration = true := by
  refine ⟨?_, ?_, ?_, ?_, ?_, ?_, ?_⟩ <;> decide +kernel

theorem exH_forms_hyps :
    (repeatEvent exH 0).time.isFinite = true ∧ (repeatEvent exH 1).time.isFinite = true ∧
    (tailEvent exH).time.isFinite = true ∧
    (lastTickHalf exH).isFinite = true ∧ (lastTickEnd exH).isFinite = true ∧
    (lastTickEvent exH).pathProgress.isFinite = true ∧ exH.spanDuration.isFinite = true ∧
    Scalar.le (0 : Float) exH.spanDuration = true := by
  refine ⟨?_, ?_, ?_, ?_, ?_, ?_, ?_, ?_⟩ <;> decide +kernel

/-- … and so do the conclusions (instances of the theorems). `exG`: -/
example :
    |toRat (repeatEvent exG 0).time - (toRat exG.startTime + (((0 : Int) : ℚ) + 1) * toRat exG.spanDuration)| ≤
      5 * u₅₃ * (|toRat exG.startTime| + (exG.spanCount : ℚ) * toRat exG.spanDuration) + (2 : ℚ) ^ (-1073 : Int) :=
  repeat_time_err_float exG 0 (by decide) (by decide) (by decide) exG_forms_hyps.1 exG_forms_hyps.2.2.2.2.2.2

example :
    |toRat (tailEvent exG).time - (toRat exG.startTime + (exG.spanCount : ℚ) * toRat exG.spanDuration)| ≤
      3 * u₅₃ * (|toRat exG.startTime| + (exG.spanCount : ℚ) * toRat exG.spanDuration) + (2 : ℚ) ^ (-1074 : Int) :=
  tail_time_err_float exG (by decide) (by decide) exG_forms_hyps.2.1 exG_forms_hyps.2.2.2.2.2.2

example :
    |toRat (lastTickEvent exG).time -
        max (toRat exG.startTime + (exG.spanCount : ℚ) * toRat exG.spanDuration / 2)
          (toRat exG.startTime + (exG.spanCount : ℚ) * toRat exG.spanDuration - 36)| ≤
      7 * u₅₃ * (|toRat exG.startTime| + (exG.spanCount : ℚ) * toRat exG.spanDuration + 36) + (2 : ℚ) ^ (-1072 : Int) :=
  last_tick_time_err_simple_float exG (by decide) (by decide) exG_forms_hyps.2.2.1 exG_forms_hyps.2.2.2.1
    exG_forms_hyps.2.2.2.2.2.2

example := last_tick_progress_err_float exG exG_forms_hyps.2.2.2.2.1 exG_forms_hyps.2.2.2.2.2.1

/-- `exH` (three spans, two real repeats): -/
example :
    |toRat (repeatEvent exH 1).time - (toRat exH.startTime + (((1 : Int) : ℚ) + 1) * toRat exH.spanDuration)| ≤
      5 * u₅₃ * (|toRat exH.startTime| + (exH.spanCount : ℚ) * toRat exH.spanDuration) + (2 : ℚ) ^ (-1073 : Int) :=
  repeat_time_err_float exH 1 (by decide) (by decide) (by decide) exH_forms_hyps.2.1 exH_forms_hyps.2.2.2.2.2.2.2

example := (last_tick_time_err_float exH (by decide) (by decide) exH_forms_hyps.2.2.2.1 exH_forms_hyps.2.2.2.2.1
  exH_forms_hyps.2.2.2.2.2.2.2).2.2

example := tail_time_err_float exH (by decide) (by decide) exH_forms_hyps.2.2.1 exH_forms_hyps.2.2.2.2.2.2.2

example := last_tick_progress_err_float exH exH_forms_hyps.2.2.2.2.2.1 exH_forms_hyps.2.2.2.2.2.2.1

/-- the numbers on `exH`, repeat of span 1: stored `666.7 = 0x4084D5999999999A`; exact closed form
`toRat 0.1 + 2 · toRat 333.3`; the difference `819·2⁻⁵⁵ ≈ 2.3e-14` is not zero — and below the bound `5·2⁻⁵³·(|A| + 3D) ≈ 5.6e-13`. -/
example :
    toRat (Float.ofBits 0x4084D5999999999A) - (toRat (Float.ofBits 0x3FB999999999999A) +
      2 * toRat (Float.ofBits 0x4074D4CCCCCCCCCD)) = 819 / 36028797018963968 := by
  have a : (Float.ofBits 0x4084D5999999999A).toModel.unpack =
      .finite .positive 5864355217906074 (-43) (by decide) := by
    rw [FM.float_unpack_ofBits _ (by decide)]; rfl
  have b : (Float.ofBits 0x3FB999999999999A).toModel.unpack =
      .finite .positive 7205759403792794 (-56) (by decide) := by
    rw [FM.float_unpack_ofBits _ (by decide)]; rfl
  have c : (Float.ofBits 0x4074D4CCCCCCCCCD).toModel.unpack =
      .finite .positive 5863475608603853 (-44) (by decide) := by
    rw [FM.float_unpack_ofBits _ (by decide)]; rfl
  rw [toRat_of_unpack a, toRat_of_unpack b, toRat_of_unpack c]
  norm_num [sgnQ]

example : exH.startTime = Float.ofBits 0x3FB999999999999A ∧ exH.spanDuration = Float.ofBits 0x4074D4CCCCCCCCCD := by
  constructor <;> decide +kernel

end Examples

end Rosu.C20
