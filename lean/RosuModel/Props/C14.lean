/-
  Props/C14.lean — hit-object lines decode per the legacy grammar.
-/
import RosuModel.Model.HitObjectLine
namespace Rosu.C14
open Rosu Scalar

variable {F P : Type} [Scalar F] [Scalar P] [Cvt P F]

/-! ### kind precedence and rejection of unknown types -/

/-- **kind_precedence**: circle > slider > spinner > hold on the masked type. -/
theorem kind_precedence (ty : Int) :
    classify ty =
      if testBit ty 0 then some .circle
      else if testBit ty 1 then some .slider
      else if testBit ty 3 then some .spinner
      else if testBit ty 7 then some .hold
      else none := rfl

theorem classify_circle_wins (ty : Int) (h : testBit ty 0 = true) : classify ty = some .circle := by
  simp [classify, typeCircle, h]

theorem classify_slider_over_spinner_hold (ty : Int) (h0 : testBit ty 0 = false) (h1 : testBit ty 1 = true) :
    classify ty = some .slider := by
  simp [classify, typeCircle, typeSlider, h0, h1]

theorem testBit_true (n : Int) (k : Nat) : (testBit n k = true) = ((n / 2 ^ k) % 2 = 1) := by simp [testBit]
theorem testBit_false (n : Int) (k : Nat) : (testBit n k = false) = ¬ ((n / 2 ^ k) % 2 = 1) := by simp [testBit]

/-- clearing the combo bits does not disturb the kind bits. -/
theorem maskedType_bits (ty0 : Int) :
    testBit (maskedType ty0) 0 = testBit ty0 0 ∧ testBit (maskedType ty0) 1 = testBit ty0 1 ∧
    testBit (maskedType ty0) 3 = testBit ty0 3 ∧ testBit (maskedType ty0) 7 = testBit ty0 7 ∧
    testBit (maskedType ty0) 2 = false ∧
    testBit (maskedType ty0) 4 = false ∧ testBit (maskedType ty0) 5 = false ∧ testBit (maskedType ty0) 6 = false := by
  unfold maskedType newComboOf comboOffsetOf typeNewCombo
  simp only []
  split <;> rename_i h <;> simp only [testBit_true, Bool.not_eq_true, testBit_false] at h <;>
    refine ⟨?_, ?_, ?_, ?_, ?_, ?_, ?_, ?_⟩ <;>
    first
      | (rw [Bool.eq_iff_iff]; simp only [testBit_true, Int.reducePow] at h ⊢; omega)
      | (simp only [testBit_false, Int.reducePow] at h ⊢; omega)

/-- **unknown_type_rejected**: none of the four kind bits set ⇒ the line is rejected and nothing changes. -/
theorem unknown_type_rejected (mode : GameMode) (st : HOCore F P) (line : Str) (hd : Header F P)
    (hh : parseHeader line = some hd) (hc : classify (maskedType hd.ty0) = none) :
    parseHitObjectLine mode st line = (st, false) := by
  simp [parseHitObjectLine, hh, hc]

/-- a line without the five leading fields (or with a bad one) is rejected with no effect. -/
theorem bad_header_rejected (mode : GameMode) (st : HOCore F P) (line : Str)
    (hh : (parseHeader line : Option (Header F P)) = none) :
    parseHitObjectLine mode st line = (st, false) := by
  simp [parseHitObjectLine, hh]

/-! ### what an accepted line does -/

/-- class of a built kind. -/
def kindClass : HitObjectKind F P → ObjClass
  | .circle _ => .circle | .slider _ => .slider | .spinner _ => .spinner | .hold _ => .hold

theorem buildCircle_class (st : HOCore F P) (hd : Header F P) (k : HitObjectKind F P) (b : SampleBankInfo)
    (h : buildCircle st hd = some (k, b)) : kindClass k = .circle := by
  unfold buildCircle at h
  split at h
  · cases h
  · cases h; rfl

theorem buildSpinner_class (hd : Header F P) (k : HitObjectKind F P) (b : SampleBankInfo)
    (h : buildSpinner hd = some (k, b)) : kindClass k = .spinner := by
  unfold buildSpinner at h
  repeat' split at h
  all_goals first | (cases h; rfl) | cases h

theorem buildHold_class (hd : Header F P) (k : HitObjectKind F P) (b : SampleBankInfo)
    (h : buildHold hd = some (k, b)) : kindClass k = .hold := by
  unfold buildHold at h
  simp only [] at h
  split at h
  · cases h
  · cases h; rfl

theorem buildSlider_class (mode : GameMode) (st st' : HOCore F P) (hd : Header F P) (k : HitObjectKind F P)
    (b : SampleBankInfo) (h : buildSlider mode st hd = (st', some (k, b))) : kindClass k = .slider := by
  unfold buildSlider at h
  repeat' split at h
  all_goals first | (cases h; rfl) | cases h

/-- the slider arm only ever touches the path scratch of the state. -/
theorem buildSlider_frame (mode : GameMode) (st : HOCore F P) (hd : Header F P) :
    (buildSlider mode st hd).1.hitObjects = st.hitObjects ∧ (buildSlider mode st hd).1.lastObject = st.lastObject := by
  unfold buildSlider
  repeat' split
  all_goals simp [HOCore.withScratch]

/-- **an accepted line pushes exactly one object, of the class its type flags select, and
remembers the masked type**; every earlier object is left alone. -/
theorem accepted_pushes_one (mode : GameMode) (st : HOCore F P) (line : Str)
    (hok : (parseHitObjectLine mode st line).2 = true) :
    ∃ (hd : Header F P) (o : HitObject F P),
      parseHeader line = some hd ∧
      (parseHitObjectLine mode st line).1.hitObjects = st.hitObjects ++ [o] ∧
      (parseHitObjectLine mode st line).1.lastObject = some (maskedType hd.ty0) ∧
      o.startTime = hd.startTime ∧
      classify (maskedType hd.ty0) = some (kindClass o.kind) := by
  unfold parseHitObjectLine at hok ⊢
  cases hh : (parseHeader line : Option (Header F P)) with
  | none => simp [hh] at hok
  | some hd =>
    simp only [hh] at hok ⊢
    cases hc : classify (maskedType hd.ty0) with
    | none => simp [hc] at hok
    | some cls =>
      cases cls with
      | circle =>
        simp only [hc] at hok ⊢
        cases hb : buildCircle st hd with
        | none => simp [hb] at hok
        | some kb =>
          obtain ⟨k, b⟩ := kb
          exact ⟨hd, _, rfl, rfl, rfl, rfl, by
            show classify (maskedType hd.ty0) = some (kindClass k)
            rw [buildCircle_class st hd k b hb]; exact hc⟩
      | slider =>
        simp only [hc] at hok ⊢
        cases hb : buildSlider mode st hd with
        | mk st' r =>
          cases r with
          | none => simp [hb] at hok
          | some kb =>
            obtain ⟨k, b⟩ := kb
            have hf := buildSlider_frame mode st hd
            rw [hb] at hf
            refine ⟨hd, { startTime := hd.startTime, kind := k, samples := b.convertSoundType hd.soundType },
              rfl, ?_, rfl, rfl, ?_⟩
            · simp only [pushObject]
              rw [hf.1]
            · show classify (maskedType hd.ty0) = some (kindClass k)
              rw [buildSlider_class mode st st' hd k b hb]; exact hc
      | spinner =>
        simp only [hc] at hok ⊢
        cases hb : buildSpinner hd with
        | none => simp [hb] at hok
        | some kb =>
          obtain ⟨k, b⟩ := kb
          exact ⟨hd, _, rfl, rfl, rfl, rfl, by
            show classify (maskedType hd.ty0) = some (kindClass k)
            rw [buildSpinner_class hd k b hb]; exact hc⟩
      | hold =>
        simp only [hc] at hok ⊢
        cases hb : buildHold hd with
        | none => simp [hb] at hok
        | some kb =>
          obtain ⟨k, b⟩ := kb
          exact ⟨hd, _, rfl, rfl, rfl, rfl, by
            show classify (maskedType hd.ty0) = some (kindClass k)
            rw [buildHold_class hd k b hb]; exact hc⟩

/-- a rejected line leaves the objects and `last_object` untouched (what it may leave behind in the
path scratch is the subject of C06). -/
theorem rejected_keeps_objects (mode : GameMode) (st : HOCore F P) (line : Str)
    (hrej : (parseHitObjectLine mode st line).2 = false) :
    (parseHitObjectLine mode st line).1.hitObjects = st.hitObjects ∧
    (parseHitObjectLine mode st line).1.lastObject = st.lastObject := by
  unfold parseHitObjectLine at hrej ⊢
  repeat' split at hrej
  all_goals first
    | (cases hrej; done)
    | (simp only []; exact ⟨rfl, rfl⟩)
    | (have hf := buildSlider_frame mode st ‹Header F P›; simp_all)
    | (simp_all)

/-! ### combo rules -/

theorem combo_offset_range (ty0 : Int) : 0 ≤ comboOffsetOf ty0 ∧ comboOffsetOf ty0 ≤ 7 := by
  unfold comboOffsetOf; omega

/-- **combo_offset_needs_new_combo**: the offset bits count only together with the new-combo flag. -/
theorem combo_offset_needs_new_combo (ty0 : Int) (h : newComboOf ty0 = false) : storedComboOffset ty0 = 0 := by
  simp [storedComboOffset, h]

theorem newCombo_is_bit2 (ty0 : Int) : newComboOf ty0 = testBit ty0 2 := by
  unfold newComboOf comboOffsetOf typeNewCombo
  rw [Bool.eq_iff_iff]
  simp only [testBit_true, Int.reducePow]
  omega

/-- **forced_new_combo**: the first object, and an object directly after a spinner, start a new combo
(circles and sliders store `forcedNewCombo`). -/
theorem forced_new_combo (st : HOCore F P) (ty0 : Int)
    (h : st.lastObject = none ∨ lastWasSpinner st = true) : forcedNewCombo st ty0 = true := by
  unfold forcedNewCombo
  rcases h with h | h <;> simp [h]

theorem circle_fields (st : HOCore F P) (hd : Header F P) (k : HitObjectKind F P) (b : SampleBankInfo)
    (h : buildCircle st hd = some (k, b)) :
    k = .circle { pos := hd.pos, newCombo := forcedNewCombo st hd.ty0, comboOffset := storedComboOffset hd.ty0 } := by
  unfold buildCircle at h
  split at h
  · cases h
  · cases h; rfl

/-! ### sliders: repeat cap, node count, length -/

/-- **repeat_cap**: a repeat field above 9000 rejects the line before anything is touched. -/
theorem repeat_cap (mode : GameMode) (st : HOCore F P) (hd : Header F P) (pointStr repeatS : Str) (rest2 : List Str)
    (rc0 : Int) (hr : hd.rest = pointStr :: repeatS :: rest2) (hp : i32Parse repeatS = some rc0) (hbig : rc0 > 9000) :
    buildSlider mode st hd = (st, none) := by
  have : (sliderPrelude hd : Option (SliderPrelude F)) = none := by
    unfold sliderPrelude
    simp [hr, hp, hbig]
  unfold buildSlider
  simp [this]

theorem storedRepeatCount_eq (rc0 : Int) : storedRepeatCount rc0 = max 0 (rc0 - 1) := by
  unfold storedRepeatCount; omega

theorem readNodeBanks_length (infos : List SampleBankInfo) (ss : List Str) (r : List SampleBankInfo)
    (h : readNodeBanks infos ss = some r) : r.length = infos.length := by
  induction infos generalizing ss r with
  | nil => simp [readNodeBanks] at h; subst h; rfl
  | cons i is ih =>
    cases ss with
    | nil => simp [readNodeBanks] at h; subst h; rfl
    | cons s ss =>
      simp only [readNodeBanks] at h
      split at h
      · cases h
      · cases hr : readNodeBanks is ss with
        | none => simp [hr] at h
        | some r' =>
          simp [hr] at h; subst h
          simp [ih ss r' hr]

theorem readNodeSounds_length (snds : List Int) (ss : List Str) : (readNodeSounds snds ss).length = snds.length := by
  induction snds generalizing ss with
  | nil => simp [readNodeSounds]
  | cons i is ih =>
    cases ss with
    | nil => simp [readNodeSounds]
    | cons s ss => simp [readNodeSounds, ih]

/-- **node_count**: a slider has exactly `repeats + 2` node sample sets. -/
theorem node_count (b : SampleBankInfo) (snd : Int) (nodes : Nat) (n8 n9 : Option Str) (r : List (List HitSampleInfo))
    (h : buildNodeSamples b snd nodes n8 n9 = some r) : r.length = nodes := by
  unfold buildNodeSamples at h
  simp only [] at h
  split at h
  · cases h
  · rename_i nb hnb
    cases h
    have hlen : nb.length = nodes := by
      split at hnb
      · rw [readNodeBanks_length _ _ _ hnb]; simp
      · cases hnb; simp
    simp only [List.length_map, List.length_zip, hlen]
    split <;> simp [readNodeSounds_length]

theorem prelude_fields (hd : Header F P) (pre : SliderPrelude F) (h : sliderPrelude hd = some pre) :
    0 ≤ pre.repeatCount ∧ pre.repeatCount ≤ 8999 ∧ pre.nodeSamples.length = pre.repeatCount.toNat + 2 := by
  unfold sliderPrelude at h
  split at h
  · rename_i pointStr repeatS rest2 _
    split at h
    · cases h
    · rename_i rc0 hrc
      split at h
      · cases h
      · rename_i hbig
        split at h
        · cases h
        · split at h
          · cases h
          · split at h
            · cases h
            · rename_i ns hns
              cases h
              refine ⟨?_, ?_, node_count _ _ _ _ _ _ hns⟩
              · show 0 ≤ storedRepeatCount rc0
                unfold storedRepeatCount; split <;> omega
              · show storedRepeatCount rc0 ≤ 8999
                unfold storedRepeatCount; split <;> omega
  · cases h

theorem slider_fields (mode : GameMode) (st st' : HOCore F P) (hd : Header F P) (k : HitObjectKind F P)
    (b : SampleBankInfo) (h : buildSlider mode st hd = (st', some (k, b))) :
    ∃ s : HitObjectSlider F P, k = .slider s ∧ s.pos = hd.pos ∧ s.newCombo = forcedNewCombo st hd.ty0 ∧
      s.comboOffset = storedComboOffset hd.ty0 ∧ 0 ≤ s.repeatCount ∧ s.repeatCount ≤ 8999 ∧
      s.nodeSamples.length = s.repeatCount.toNat + 2 ∧ st'.curvePoints = [] := by
  unfold buildSlider at h
  split at h
  · cases h
  · rename_i pre hpre
    have hp := prelude_fields hd pre hpre
    split at h
    · cases h
    · cases h
      exact ⟨_, rfl, rfl, rfl, rfl, hp.1, hp.2.1, hp.2.2, rfl⟩

/-- **length_none_iff**: an absent length field means natural length; a present one means natural
length exactly when `max(value, 0)` is below `f64::EPSILON` in magnitude (zero or negative values). -/
theorem length_absent : (parseLength ([] : List Str) : Option (Option F)) = some none := rfl

theorem length_present (next : Str) (rest : List Str) (l : F)
    (h : floatParseWithLimits next (Scalar.ofInt maxCoordinate) = some l) :
    (parseLength (next :: rest) : Option (Option F)) =
      some (if le (Scalar.eps : F) (Scalar.abs (Scalar.max l 0)) then some (Scalar.max l 0) else none) := by
  simp [parseLength, h]

theorem length_bad_rejects (next : Str) (rest : List Str)
    (h : (floatParseWithLimits next (Scalar.ofInt maxCoordinate) : Option F) = none) :
    (parseLength (next :: rest) : Option (Option F)) = none := by
  simp [parseLength, h]

/-! ### spinner / hold durations -/

theorem spinner_fields (hd : Header F P) (k : HitObjectKind F P) (b : SampleBankInfo)
    (h : buildSpinner hd = some (k, b)) :
    ∃ d : F, k = .spinner { pos := ⟨(512 : P) / 2, (384 : P) / 2⟩,
                            duration := Scalar.max (d - hd.startTime) 0, newCombo := newComboOf hd.ty0 } := by
  unfold buildSpinner at h
  repeat' split at h
  all_goals first | (cases h; exact ⟨_, rfl⟩) | cases h

/-- `max x 0` is never below 0 under the two order facts of `<` (which also hold for IEEE). -/
theorem max_zero_nonneg {α : Type} [Scalar α] (x : α)
    (hirr : ∀ a : α, lt a a = false) (hasym : ∀ a b : α, lt a b = true → lt b a = false)
    (hnan : ∀ a b : α, isNaN a = true → lt a b = false) :
    lt (Scalar.max x 0) 0 = false := by
  unfold Scalar.max
  by_cases h : lt x 0 = true
  · simp [h, hirr]
  · have h' : lt x 0 = false := by simpa using h
    by_cases hn : isNaN x = true
    · simp [h', hn, hirr]
    · have hn' : isNaN x = false := by simpa using hn
      simp [h', hn']

/-! ### positions -/

/-- **position_truncated**: both coordinates are parsed as `f32` within ±131072 and truncated to an integer. -/
theorem position_truncated (line : Str) (hd : Header F P) (h : parseHeader line = some hd) :
    ∃ xv yv : P, hd.pos = ⟨Scalar.ofInt (Scalar.toI32 xv), Scalar.ofInt (Scalar.toI32 yv)⟩ := by
  unfold parseHeader at h
  repeat' split at h
  all_goals first | (cases h; exact ⟨_, _, rfl⟩) | cases h

/-! ### path types -/

theorem perfect_three_collinear_linear (a b c : PathControlPoint P) (h : isLinear a.pos b.pos c.pos = true) :
    effectivePathType PathType.perfect [a, b, c] = PathType.linear := by
  simp [effectivePathType, h]

theorem perfect_three_noncollinear_kept (a b c : PathControlPoint P) (h : isLinear a.pos b.pos c.pos = false) :
    effectivePathType PathType.perfect [a, b, c] = PathType.perfect := by
  simp [effectivePathType, h]

theorem perfect_other_bezier (vs : List (PathControlPoint P)) (h : vs.length ≠ 3) :
    effectivePathType PathType.perfect vs = PathType.bezier := by
  unfold effectivePathType
  simp only [beq_self_eq_true, if_true]
  split
  · simp at h
  · rfl

theorem non_perfect_unchanged (t : PathType) (vs : List (PathControlPoint P)) (h : t ≠ PathType.perfect) :
    effectivePathType t vs = t := by
  unfold effectivePathType
  have : (t == PathType.perfect) = false := by simpa using h
  simp [this]

example : PathType.newFromStr (str "B3") = ⟨.bspline, some 3⟩ ∧ PathType.newFromStr (str "B0") = PathType.bezier ∧
    PathType.newFromStr (str "L") = PathType.linear ∧ PathType.newFromStr (str "P") = PathType.perfect ∧
    PathType.newFromStr (str "c") = PathType.catmull ∧ PathType.newFromStr (str "1:2") = PathType.catmull := by decide

/-! ### samples -/

theorem soundType_range (s : Str) (n : Int) (h : HitSoundType.parse s = some n) : 0 ≤ n ∧ n < 256 := by
  unfold HitSoundType.parse at h
  split at h
  · cases h; omega
  · cases h

/-- **sound_byte_to_samples**: one base sample, then finish / whistle / clap additions in that order, by bit. -/
theorem sound_byte_to_samples (info : SampleBankInfo) (snd : Int) :
    (info.convertSoundType snd).length =
      1 + (if testBit snd 2 then 1 else 0) + (if testBit snd 1 then 1 else 0) + (if testBit snd 3 then 1 else 0) := by
  unfold SampleBankInfo.convertSoundType sndFinish sndWhistle sndClap
  simp only [List.length_cons, List.length_append]
  repeat' split
  all_goals simp <;> omega

theorem addition_names (info : SampleBankInfo) (snd : Int) :
    ((info.convertSoundType snd).drop 1).map (·.name) =
      (if testBit snd 2 then [.default .finish] else []) ++ (if testBit snd 1 then [.default .whistle] else []) ++
      (if testBit snd 3 then [.default .clap] else []) := by
  unfold SampleBankInfo.convertSoundType sndFinish sndWhistle sndClap
  simp only [List.drop_succ_cons, List.drop_zero, List.map_append]
  repeat' split
  all_goals simp [HitSampleInfo.new]

/-- a file name replaces the base sample (bank normal, custom index 1, not layered). -/
theorem filename_sample (info : SampleBankInfo) (snd : Int) (f : Str) (hf : info.filename = some f) (hne : f.isEmpty = false) :
    (info.convertSoundType snd).head? = some (HitSampleInfo.new (.file f) none 1 info.volume) := by
  unfold SampleBankInfo.convertSoundType
  simp [hf, hne]

/-- the base sample is layered iff some hit-sound bit is set but not the normal bit. -/
theorem base_sample_layered (info : SampleBankInfo) (snd : Int) (hf : info.filename = none) :
    ((info.convertSoundType snd).head?.map (·.isLayered)) = some (snd != 0 && !testBit snd 0) := by
  unfold SampleBankInfo.convertSoundType sndNormal
  simp [hf]

/-- **bank_info_fields**: `normal:addition` — 0 means "not specified", out-of-range values mean normal,
an unspecified addition bank falls back to the normal bank. -/
theorem bank_info_fields (self : SampleBankInfo) (b ab : Str) (bn abn : Int)
    (hne : b.isEmpty = false) (hb : i32Parse b = some bn) (hab : i32Parse ab = some abn) :
    (self.readCustomSampleBanks [b, ab] true) =
      ({ self with bankForNormal := someUnlessNone (bankOrNormal bn),
                   bankForAddition := (someUnlessNone (bankOrNormal abn)).orElse (fun _ => someUnlessNone (bankOrNormal bn)) }, true) := by
  simp [SampleBankInfo.readCustomSampleBanks, hne, hb, hab]

example : (({} : SampleBankInfo).readCustomSampleBanks [str "2", str "0", str "3", str "70", str "f.wav"] false) =
    ({ filename := some (str "f.wav"), bankForNormal := some .soft, bankForAddition := some .soft, volume := 70, customSampleBank := 3 }, true) := by
  decide

end Rosu.C14
