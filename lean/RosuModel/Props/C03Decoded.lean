/-
  Props/C03Decoded.lean — C03 for DECODED maps: the property's own quantifier ("for every decoded map and every edit that
  sets a field to a value the format can represent …").

  `DecodesTo bytes m`: `m` is what the `Beatmap` decoder and its finaliser make of the byte string `bytes` — ANY byte string
  (hostile, non-chronological, with rejected lines). The record theorems of Props/C03.lean / C03Frame.lean / C03File.lean
  assume `RtFile.RepRecords`; here that assumption is DISCHARGED through the `Decoded` invariant (`C04.decoded_map_inv`,
  `C04.decoded_records_representable`) and `edit_keeps_rep` (Props/C03Edit.lean). What is left as hypotheses is exactly what
  the decoder does not guarantee by construction:
    * the codec laws (`CodecLaws`, `IntPrintLaw`; theorems of the model's IEEE codec up to `FloatBitsLaw` / `FloatOfIntLaw`, C02),
      `ConstFacts` (closed facts about the decoder's eight constants), `FloatsRep m` (the codec represents the map's floats;
      implied by the single law `LimitRep`) and `Edit.CodecRep` (… and the edit's own float);
    * `NoDoubleSlash` — finding F16: a decoded file name can contain `//`. `edits_survive_decoded` asks it of the EDITED map only
      (a decoded map is representable up to `//` in its names, `RepUpToDS`; a name edit installs a clean name: `f16_repaired`);
      the frame clauses compare with the unedited round trip and therefore ask it of the decoded map;
    * the two LIST blocks: `edits_survive_decoded` / `edits_frame_decoded` take their shape as a hypothesis
      (`RtFile.ListBlockShape`, on the edited map, for ALL edits incl. mode / slider multiplier / tick rate / breaks);
      `edits_roundtrip_decoded_rep` instead assumes the list-block part of `RepMap` of the UNEDITED decoded map
      (`RtTiming.RepTimingMap`, every object `SliderRt.RepObject`) and needs nothing about the edited map — for frame edits.
      That a decoded map satisfies these is false in general (findings F17, F18, F20, F21, F22; non-finite collected times).
-/
import RosuModel.Props.C03Edit
namespace Rosu.C03
open Rosu Encode EncodeLines C11 RtFile FrameEnc FrameDec Scalar DecodedInv

set_option linter.unusedSectionVars false

section
variable {F P : Type} [Scalar F] [Scalar P] [Cvt P F] [Trig F] [Trig P] {RF : F → Prop} {RP : P → Prop}

/-- `m` is the map decoded from `bytes`: the `Beatmap` decoder reads the bytes without I/O error and its finaliser yields `m`. -/
def DecodesTo (bytes : List UInt8) (m : Beatmap F P) : Prop :=
  ∃ st : BeatmapState F P, decodeBytes beatmapDecoder bytes = .ok st ∧ st.finish = .ok m

/-- the record fields of a finalised map, as a record view (`hasApproachRate` is decoder state, not part of a map). -/
def mapView (m : Beatmap F P) : RecView F P :=
  { version := m.formatVersion, general := m.general, editor := m.editor, metadata := m.metadata,
    difficulty := { hasApproachRate := true, difficulty := m.difficulty }, events := m.events, colors := m.colors }

/-- finalisation copies the record fields. -/
theorem mapView_of_finish (st : BeatmapState F P) (m2 : Beatmap F P) (hf : st.finish = .ok m2)
    (ha : (recView st).difficulty.hasApproachRate = true) : mapView m2 = recView st := by
  obtain ⟨e1, e2, e3, e4, e5, e6, e7⟩ := finish_records st m2 hf
  unfold mapView
  rw [e1, e2, e3, e4, e5, e6, e7, ← ha]

/-- every decoded map: invariant, representable record sections, alpha 255. -/
theorem decoded_rep (C : ConstFacts F P) (bytes : List UInt8) (m : Beatmap F P) (hdec : DecodesTo bytes m)
    (hr : FloatsRep RF RP m) (hds : NoDoubleSlash m) : RepRecords RF RP m ∧ ColorsOpaque m.colors := by
  obtain ⟨st, h, hf⟩ := hdec
  exact ⟨C04.decoded_records_representable C bytes st m h hf hr hds, (C04.decoded_map_inv C bytes st m h hf).alpha⟩

/-- `encode` succeeds as soon as its two list blocks do (the six record blocks cannot fail). -/
theorem encode_ok_of_blocks (m : Beatmap F P) (a b : Str) (hT : encodeTimingPoints m = .ok a) (hH : encodeHitObjects m = .ok b) :
    ∃ t, encode m = .ok t := by
  unfold encode
  rw [hT, hH]
  exact ⟨_, rfl⟩

/-! ### `RepRecords` up to `//` in the file names (so that an edit may REPAIR an F16 name) -/

/-- the map with both file names blanked. -/
def blankNames (m : Beatmap F P) : Beatmap F P :=
  { m with general := { m.general with audioFile := [] }, events := { m.events with backgroundFile := [] } }

/-- everything `RepRecords` asks of a map EXCEPT that its two file names are free of `//`: the map with blank names is
representable, and the names themselves have every other property (`DecInvGeneral` / `FileNameInv`). -/
structure RepUpToDS (RF : F → Prop) (RP : P → Prop) (m : Beatmap F P) : Prop where
  rest : RepRecords RF RP (blankNames m)
  audio : trim m.general.audioFile = m.general.audioFile ∧ '\n' ∉ m.general.audioFile ∧ '\\' ∉ m.general.audioFile
  background : FileNameInv m.events.backgroundFile

theorem repRecords_of_upToDS (m : Beatmap F P) (h : RepUpToDS RF RP m) (hds : NoDoubleSlash m) : RepRecords RF RP m :=
  { h.rest with
    general := { h.rest.general with audioFile := ⟨h.audio.1, h.audio.2.1, hds.audio, h.audio.2.2⟩ }
    events := { h.rest.events with
      background := Or.inr ⟨h.background.noComma, h.background.noLf, h.background.noBackslash, hds.background,
        h.background.head, h.background.last⟩ } }

theorem noDoubleSlash_of_rep (m : Beatmap F P) (h : RepRecords RF RP m) : NoDoubleSlash m :=
  ⟨h.general.audioFile.noDS, h.events.background.elim (fun e => by rw [e]; rfl) (fun r => r.noDS)⟩

/-- every decoded map is representable up to `//` in its file names — no F16 exclusion. -/
theorem upToDS_of_decInv (m : Beatmap F P) (hi : DecInvMap m) (hr : FloatsRep RF RP m) : RepUpToDS RF RP m where
  rest := repRecords_of_decInv (blankNames m)
    ⟨hi.version, { hi.general with audioTrimmed := rfl, audioNoLf := List.not_mem_nil, audioNoBackslash := List.not_mem_nil },
      hi.editor, hi.metadata, hi.difficulty, ⟨fileNameInv_nil, hi.events.breaks⟩, hi.colors, hi.alpha⟩
    ⟨hr.stackLeniency, hr.distanceSpacing, hr.timelineZoom, hr.hp, hr.cs, hr.od, hr.ar, hr.sm, hr.tr, hr.breaks⟩ ⟨rfl, rfl⟩
  audio := ⟨hi.general.audioTrimmed, hi.general.audioNoLf, hi.general.audioNoBackslash⟩
  background := hi.events.background

/-- a representable edit keeps it: a name edit installs a name with all the properties; every other edit commutes with
blanking the names. -/
theorem edit_keeps_upToDS (m : Beatmap F P) (e : Edit F P) (h : RepUpToDS RF RP m) (he : e.Representable)
    (hc : e.CodecRep RF RP) : RepUpToDS RF RP (applyEdit e m) := by
  cases e
  case audioFile v =>
    have he' : RtGeneral.RepAudioName v := he
    exact ⟨h.rest, ⟨he'.trimmed, he'.noLf, he'.noBackslash⟩, h.background⟩
  case backgroundFile v =>
    have he' : v = [] ∨ RtEvents.RepFileName v := he
    refine ⟨h.rest, h.audio, ?_⟩
    rcases he' with e | r
    · rw [e]; exact fileNameInv_nil
    · exact ⟨r.noComma, r.noLf, r.noBackslash, r.head, r.last⟩
  all_goals exact ⟨edit_keeps_rep (blankNames m) _ h.rest he hc, h.audio, h.background⟩

theorem edits_keep_upToDS (es : List (Edit F P)) (m : Beatmap F P) (h : RepUpToDS RF RP m)
    (hes : ∀ e ∈ es, e.Representable ∧ e.CodecRep RF RP) : RepUpToDS RF RP (applyEdits es m) := by
  induction es generalizing m with
  | nil => exact h
  | cons e es ih =>
    rw [applyEdits_cons]
    exact ih _ (edit_keeps_upToDS m e h (hes e List.mem_cons_self).1 (hes e List.mem_cons_self).2)
      (fun e' he' => hes e' (List.mem_cons_of_mem _ he'))

/-- **edits_keep_rep_decoded** — the record sections of a decoded map after any representable edits are representable as
soon as the EDITED map's file names are free of `//` (the unedited map's may contain it: an edit can repair F16). -/
theorem edits_keep_rep_decoded (C : ConstFacts F P) (bytes : List UInt8) (m : Beatmap F P) (hdec : DecodesTo bytes m)
    (hr : FloatsRep RF RP m) (es : List (Edit F P)) (hes : ∀ e ∈ es, e.Representable ∧ e.CodecRep RF RP)
    (hds : NoDoubleSlash (applyEdits es m)) : RepRecords RF RP (applyEdits es m) ∧ ColorsOpaque m.colors := by
  obtain ⟨st, h, hf⟩ := hdec
  have hi := C04.decoded_map_inv C bytes st m h hf
  exact ⟨repRecords_of_upToDS _ (edits_keep_upToDS es m (upToDS_of_decInv m hi hr) hes) hds, hi.alpha⟩

/-! ### every edit, list blocks by their shape -/

/-- **edits_survive_decoded** — decode ANY byte string to a map `m`; apply any sequence of representable edits; encode;
decode again. Under the codec laws, `FloatsRep m`, representability of the edits' own float values, and no `//` in the two
file names of the EDITED map (F16; the decoded map's own names may contain it if an edit replaces them):
encoding the edited map succeeds as soon as its two list blocks are written (here: and are LF-free record lines,
`ListBlockShape`), the text is read back without I/O error, and
* the record view of the new decoder state is exactly the preserved view of the edited map;
* whenever the new state finalises, the re-decoded MAP has exactly these record fields;
* for every edit `e` of the sequence that no later edit touches, the field of `e` shows exactly the value of `e`
  (`Edit.shown`: the value itself; `special_style` as far as the format carries it; a custom colour as the list with that
  name set). -/
theorem edits_survive_decoded (C : ConstFacts F P) (LF : CodecLaws F RF) (LP : CodecLaws P RP) (LI : IntPrintLaw F)
    (bytes : List UInt8) (m : Beatmap F P) (hdec : DecodesTo bytes m) (hr : FloatsRep RF RP m)
    (es : List (Edit F P)) (hes : ∀ e ∈ es, e.Representable ∧ e.CodecRep RF RP)
    (hds : NoDoubleSlash (applyEdits es m)) (T H : List Str)
    (hT : encodeTimingPoints (applyEdits es m) = .ok (unlines (str "[TimingPoints]" :: T)))
    (hH : encodeHitObjects (applyEdits es m) = .ok (unlines (str "[HitObjects]" :: H)))
    (sT : ListBlockShape T) (sH : ListBlockShape H) :
    ∃ (t : Str) (st' : BeatmapState F P), encode (applyEdits es m) = .ok t ∧
      decodeBytes beatmapDecoder (utf8Encode t) = .ok st' ∧
      recView st' = preservedRecords (applyEdits es m) ∧
      (∀ m2 : Beatmap F P, st'.finish = .ok m2 → mapView m2 = preservedRecords (applyEdits es m)) ∧
      (∀ (pre post : List (Edit F P)) (e : Edit F P), es = pre ++ e :: post → (∀ e' ∈ post, e'.touches e.field = false) →
        e.field.get (recView st') = e.shown (applyEdits pre m)) := by
  obtain ⟨hrep', hop⟩ := edits_keep_rep_decoded C bytes m hdec hr es hes hds
  obtain ⟨t, ht⟩ := encode_ok_of_blocks _ _ _ hT hH
  obtain ⟨st', hd, hv⟩ := edit_survives_records LF LP LI (applyEdits es m) hrep' t T H ht hT hH sT sH
  refine ⟨t, st', ht, hd, hv, fun m2 hf => ?_, fun pre post e hsplit hpost => ?_⟩
  · rw [← hv]
    exact mapView_of_finish st' m2 hf (by rw [hv]; rfl)
  · rw [hv, hsplit]
    have hmem : ∀ e' ∈ pre ++ e :: post, e'.Representable := fun e' he' => (hes e' (hsplit ▸ he')).1
    exact edits_show_value pre post e m hop (fun e' he' => hmem e' (List.mem_append_left _ he'))
      (hmem e (List.mem_append_right _ List.mem_cons_self)) hpost

/-- **edit_survives_decoded** — one edit: the re-decoded record fields show exactly the edited value in the edited field. -/
theorem edit_survives_decoded (C : ConstFacts F P) (LF : CodecLaws F RF) (LP : CodecLaws P RP) (LI : IntPrintLaw F)
    (bytes : List UInt8) (m : Beatmap F P) (hdec : DecodesTo bytes m) (hr : FloatsRep RF RP m)
    (e : Edit F P) (he : e.Representable) (hc : e.CodecRep RF RP) (hds : NoDoubleSlash (applyEdit e m)) (T H : List Str)
    (hT : encodeTimingPoints (applyEdit e m) = .ok (unlines (str "[TimingPoints]" :: T)))
    (hH : encodeHitObjects (applyEdit e m) = .ok (unlines (str "[HitObjects]" :: H)))
    (sT : ListBlockShape T) (sH : ListBlockShape H) :
    ∃ (t : Str) (st' : BeatmapState F P), encode (applyEdit e m) = .ok t ∧
      decodeBytes beatmapDecoder (utf8Encode t) = .ok st' ∧
      e.field.get (recView st') = e.shown m ∧
      (∀ m2 : Beatmap F P, st'.finish = .ok m2 → e.field.get (mapView m2) = e.shown m) := by
  obtain ⟨t, st', h1, h2, h3, h4, h5⟩ := edits_survive_decoded C LF LP LI bytes m hdec hr [e]
    (fun e' he' => by rw [List.mem_singleton.mp he']; exact ⟨he, hc⟩) hds T H hT hH sT sH
  have h6 := h5 [] [] e rfl (fun _ h => absurd h List.not_mem_nil)
  refine ⟨t, st', h1, h2, h6, fun m2 hf => ?_⟩
  rw [h4 m2 hf, ← h3]
  exact h6

/-- **edits_frame_decoded** — the frame clause for the record fields, against the UNEDITED round trip (as the property
states it): both the decoded map and the edited map are encoded and decoded again; every record field that no edit of the
sequence touches reads the same in both — in the decoder states, and in the finalised maps whenever both finalise.
`fields_complete`: the 41 fields are the whole record view. For ALL edits, mode / slider multiplier / tick rate / breaks
included. -/
theorem edits_frame_decoded (C : ConstFacts F P) (LF : CodecLaws F RF) (LP : CodecLaws P RP) (LI : IntPrintLaw F)
    (bytes : List UInt8) (m : Beatmap F P) (hdec : DecodesTo bytes m) (hr : FloatsRep RF RP m) (hds : NoDoubleSlash m)
    (es : List (Edit F P)) (hes : ∀ e ∈ es, e.Representable ∧ e.CodecRep RF RP) (T H T0 H0 : List Str)
    (hT : encodeTimingPoints (applyEdits es m) = .ok (unlines (str "[TimingPoints]" :: T)))
    (hH : encodeHitObjects (applyEdits es m) = .ok (unlines (str "[HitObjects]" :: H)))
    (sT : ListBlockShape T) (sH : ListBlockShape H)
    (hT0 : encodeTimingPoints m = .ok (unlines (str "[TimingPoints]" :: T0)))
    (hH0 : encodeHitObjects m = .ok (unlines (str "[HitObjects]" :: H0)))
    (sT0 : ListBlockShape T0) (sH0 : ListBlockShape H0) :
    ∃ (t0 t : Str) (st0 st' : BeatmapState F P), encode m = .ok t0 ∧ encode (applyEdits es m) = .ok t ∧
      decodeBytes beatmapDecoder (utf8Encode t0) = .ok st0 ∧ decodeBytes beatmapDecoder (utf8Encode t) = .ok st' ∧
      (∀ f : Field, (∀ e ∈ es, e.touches f = false) → f.get (recView st') = f.get (recView st0)) ∧
      (∀ m0 m2 : Beatmap F P, st0.finish = .ok m0 → st'.finish = .ok m2 →
        ∀ f : Field, (∀ e ∈ es, e.touches f = false) → f.get (mapView m2) = f.get (mapView m0)) := by
  have hds' := noDoubleSlash_of_rep _ (edits_keep_rep es m (decoded_rep C bytes m hdec hr hds).1 hes)
  obtain ⟨t, st', h1, h2, h3, h4, _⟩ := edits_survive_decoded C LF LP LI bytes m hdec hr es hes hds' T H hT hH sT sH
  obtain ⟨t0, st0, g1, g2, g3, g4, _⟩ := edits_survive_decoded C LF LP LI bytes m hdec hr []
    (fun _ h => absurd h List.not_mem_nil) hds T0 H0 hT0 hH0 sT0 sH0
  refine ⟨t0, t, st0, st', g1, h1, g2, h2, fun f hf => ?_, fun m0 m2 hf0 hf2 f hf => ?_⟩
  · rw [h3, g3]; exact edits_leave_field es m f hf
  · rw [h4 m2 hf2, g4 m0 hf0]; exact edits_leave_field es m f hf

/-- **edit_frame_decoded** — one edit: every other preserved record field is unchanged by the edit. -/
theorem edit_frame_decoded (C : ConstFacts F P) (LF : CodecLaws F RF) (LP : CodecLaws P RP) (LI : IntPrintLaw F)
    (bytes : List UInt8) (m : Beatmap F P) (hdec : DecodesTo bytes m) (hr : FloatsRep RF RP m) (hds : NoDoubleSlash m)
    (e : Edit F P) (he : e.Representable) (hc : e.CodecRep RF RP) (T H T0 H0 : List Str)
    (hT : encodeTimingPoints (applyEdit e m) = .ok (unlines (str "[TimingPoints]" :: T)))
    (hH : encodeHitObjects (applyEdit e m) = .ok (unlines (str "[HitObjects]" :: H)))
    (sT : ListBlockShape T) (sH : ListBlockShape H)
    (hT0 : encodeTimingPoints m = .ok (unlines (str "[TimingPoints]" :: T0)))
    (hH0 : encodeHitObjects m = .ok (unlines (str "[HitObjects]" :: H0)))
    (sT0 : ListBlockShape T0) (sH0 : ListBlockShape H0) :
    ∃ (t0 t : Str) (st0 st' : BeatmapState F P), encode m = .ok t0 ∧ encode (applyEdit e m) = .ok t ∧
      decodeBytes beatmapDecoder (utf8Encode t0) = .ok st0 ∧ decodeBytes beatmapDecoder (utf8Encode t) = .ok st' ∧
      (∀ f : Field, e.touches f = false → f.get (recView st') = f.get (recView st0)) ∧
      (∀ m0 m2 : Beatmap F P, st0.finish = .ok m0 → st'.finish = .ok m2 →
        ∀ f : Field, e.touches f = false → f.get (mapView m2) = f.get (mapView m0)) := by
  obtain ⟨t0, t, st0, st', h1, h2, h3, h4, h5, h6⟩ := edits_frame_decoded C LF LP LI bytes m hdec hr hds [e]
    (fun e' he' => by rw [List.mem_singleton.mp he']; exact ⟨he, hc⟩) T H T0 H0 hT hH sT sH hT0 hH0 sT0 sH0
  exact ⟨t0, t, st0, st', h1, h2, h3, h4,
    fun f hf => h5 f (fun e' he' => by rw [List.mem_singleton.mp he']; exact hf),
    fun m0 m2 a b f hf => h6 m0 m2 a b f (fun e' he' => by rw [List.mem_singleton.mp he']; exact hf)⟩

/-! ### frame edits: nothing assumed of the edited map, hit objects and control points in the frame -/

/-- **edits_roundtrip_decoded_rep** — frame edits (everything but mode, slider multiplier, tick rate, breaks) of a decoded
map whose LIST blocks are representable (`RepTimingMap`, `RepObject` — the part of `RepMap` a decoded map can violate:
F17, F18, F20, F21, F22) and whose encoding succeeds. No shape assumption, nothing assumed of the edited map. Then:
encoding the edited map succeeds; both texts are read back; the edited fields show the edited values; every untouched record
field reads as in the unedited round trip; and the hit-object / control-point part of the decoder state is the same, with the
same finalised hit objects and control points (or the same failure). -/
theorem edits_roundtrip_decoded_rep (C : ConstFacts F P) (L : MapLaws F P RF RP)
    (bytes : List UInt8) (m : Beatmap F P) (hdec : DecodesTo bytes m) (hr : FloatsRep RF RP m) (hds : NoDoubleSlash m)
    (htim : RtTiming.RepTimingMap RF m) (hobj : ∀ h ∈ m.hitObjects, SliderRt.RepObject RF RP m.general.mode h)
    (es : List (Edit F P)) (hes : ∀ e ∈ es, e.Representable ∧ e.CodecRep RF RP) (hfr : ∀ e ∈ es, e.IsFrame = true)
    (t0 : Str) (h0 : encode m = .ok t0) :
    ∃ (t : Str) (st0 st' : BeatmapState F P), encode (applyEdits es m) = .ok t ∧
      decodeBytes beatmapDecoder (utf8Encode t0) = .ok st0 ∧ decodeBytes beatmapDecoder (utf8Encode t) = .ok st' ∧
      recView st' = preservedRecords (applyEdits es m) ∧
      (∀ (pre post : List (Edit F P)) (e : Edit F P), es = pre ++ e :: post → (∀ e' ∈ post, e'.touches e.field = false) →
        e.field.get (recView st') = e.shown (applyEdits pre m)) ∧
      (∀ f : Field, (∀ e ∈ es, e.touches f = false) → f.get (recView st') = f.get (recView st0)) ∧
      objView st' = objView st0 ∧ st'.finish.map listView = st0.finish.map listView := by
  obtain ⟨hrep, hop⟩ := decoded_rep C bytes m hdec hr hds
  have hM : RepMap RF RP m := ⟨hrep, htim, hobj⟩
  have hfe := frameEdit_applyEdits es m hfr
  have hrep' := edits_keep_rep es m hrep hes
  obtain ⟨t, st0, st', e1, e2, e3, e4, e5⟩ := edit_frame_objects_rep L m (applyEdits es m) hM hrep' hfe t0 h0
  obtain ⟨T0, H0, hT0, hH0, sT0, sH0⟩ := list_blocks_shape L m hM t0 h0
  obtain ⟨T, H, hT, hH, sT, sH⟩ := list_blocks_shape L (applyEdits es m) (repMap_of_frameEdit m _ hM hrep' hfe) t e1
  obtain ⟨ta, st2, ea, d2, v2, _, s2⟩ := edits_survive_decoded C L.f L.p L.int bytes m hdec hr es hes
    (noDoubleSlash_of_rep _ hrep') T H hT hH sT sH
  obtain ⟨tb, st1, eb, d1, v1, _, _⟩ := edits_survive_decoded C L.f L.p L.int bytes m hdec hr []
    (fun _ h => absurd h List.not_mem_nil) hds T0 H0 hT0 hH0 sT0 sH0
  -- the texts are the same texts (`encode` is a function), hence the same decoder states
  have eta : ta = t := by rw [e1] at ea; injection ea with ea; exact ea.symm
  have etb : tb = t0 := by rw [applyEdits_nil, h0] at eb; injection eb with eb; exact eb.symm
  subst eta etb
  have es2 : st2 = st' := by rw [e3] at d2; injection d2 with d2; exact d2.symm
  have es1 : st1 = st0 := by rw [e2] at d1; injection d1 with d1; exact d1.symm
  subst es2 es1
  refine ⟨ta, st1, st2, e1, e2, e3, v2, s2, fun f hf => ?_, e4, e5⟩
  rw [v2, v1]
  exact edits_leave_field es m f hf

end

/-! ### non-vacuity (toy codec): the hostile file of Props/C04Decoded.lean, decoded, edited, encoded, decoded again -/

/-- three edits: a title with `:` and `//`, a background file name, two combo colours. -/
def sampleEdits : List (Edit ZC ZC) :=
  [.title (str "Re:Zero // x: y"), .backgroundFile (str "dir/bg 2.png"), .comboColors [⟨10, 20, 30, 255⟩, ⟨255, 0, 128, 255⟩]]

def sampleEdited : Beatmap ZC ZC := applyEdits sampleEdits C04.decodedSampleMap

/-- the sample map IS a decoded map: the bytes of `C04.decodedSampleText` (19 lines with trailing blanks and CR LF) decode to it. -/
theorem decodedSample_decodesTo : DecodesTo (utf8Encode C04.decodedSampleText) C04.decodedSampleMap :=
  ⟨_, C04.decodedSample_decodes, C04.decodedSample_finishes⟩

theorem sampleEdits_representable : ∀ e ∈ sampleEdits, e.Representable ∧ e.CodecRep ZC.Rep ZC.Rep := by
  intro e he
  simp only [sampleEdits, List.mem_cons, List.not_mem_nil, or_false] at he
  rcases he with rfl | rfl | rfl <;> exact ⟨by decide, trivial⟩

theorem sampleEdits_frame : ∀ e ∈ sampleEdits, e.IsFrame = true := by decide

theorem sampleEdited_timing_text : encodeTimingPoints sampleEdited = .ok (unlines [str "[TimingPoints]"]) := by
  rw [show sampleEdited = applyEdits sampleEdits C04.decodedSampleMap from rfl,
    encode_timing_depends_only_on _ _ (frameEdit_applyEdits sampleEdits _ sampleEdits_frame).inputs]
  exact C04.decodedSample_timing_text

theorem sampleEdited_objects_text : encodeHitObjects sampleEdited = .ok (unlines [str "[HitObjects]"]) := by rfl

/-- every hypothesis of `edits_survive_decoded` holds of the sample, so its conclusion does: -/
theorem sampleEdited_survives :
    ∃ (t : Str) (st' : BeatmapState ZC ZC), encode sampleEdited = .ok t ∧
      decodeBytes beatmapDecoder (utf8Encode t) = .ok st' ∧
      st'.metadata.title = str "Re:Zero // x: y" ∧ st'.hitObjects.events.backgroundFile = str "dir/bg 2.png" ∧
      st'.colors.customComboColors = [⟨10, 20, 30, 255⟩, ⟨255, 0, 128, 255⟩] := by
  obtain ⟨t, st', h1, h2, _, _, h5⟩ := edits_survive_decoded ZC.constFacts ZC.laws ZC.laws ZC.intPrintLaw _ _
    decodedSample_decodesTo C04.decodedSample_floatsRep sampleEdits sampleEdits_representable ⟨by decide, by decide⟩
    [] [] sampleEdited_timing_text sampleEdited_objects_text (fun _ h => absurd h List.not_mem_nil) (fun _ h => absurd h List.not_mem_nil)
  have a := h5 [] _ _ rfl (by decide)
  have b := h5 [_] _ _ rfl (by decide)
  have c := h5 [_, _] [] _ rfl (by decide)
  simp only [Edit.field, Field.get, Edit.shown, FieldVal.text.injEq, FieldVal.colours.injEq] at a b c
  exact ⟨t, st', h1, h2, a, b, c⟩

/-- … and of `edits_frame_decoded` (the unedited sample is encoded and read back too). -/
example := edits_frame_decoded ZC.constFacts ZC.laws ZC.laws ZC.intPrintLaw _ _
  decodedSample_decodesTo C04.decodedSample_floatsRep C04.decodedSample_noDoubleSlash sampleEdits sampleEdits_representable
  [] [] [] [] sampleEdited_timing_text sampleEdited_objects_text (fun _ h => absurd h List.not_mem_nil)
  (fun _ h => absurd h List.not_mem_nil) C04.decodedSample_timing_text C04.decodedSample_objects_text
  (fun _ h => absurd h List.not_mem_nil) (fun _ h => absurd h List.not_mem_nil)

/-- encode a map, split the text into lines as the reader does (`textLines`, end-trimmed), run the framing driver and the
`Beatmap` decoder over them, observe the decoder state — the model's own functions, for kernel evaluation. -/
def rereadWith {α : Type} (m : Beatmap ZC ZC) (obs : BeatmapState ZC ZC → α) : Option α :=
  match encode m with
  | .ok t => some (obs (frame (beatmapDecoder : LineDecoder (BeatmapState ZC ZC)) ((textLines t).map trimEnd)))
  | .error _ => none

/-- the same run, EVALUATED by the kernel: title, background, combo colours as edited; audio file and custom colours as decoded. -/
theorem sampleReread_eq :
    rereadWith sampleEdited (fun st => (st.metadata.title, st.hitObjects.events.backgroundFile, st.colors.customComboColors,
      st.hitObjects.timingPoints.general.audioFile, st.colors.customColors)) =
    some (str "Re:Zero // x: y", str "dir/bg 2.png", [⟨10, 20, 30, 255⟩, ⟨255, 0, 128, 255⟩],
      str "dir/a b.mp3", [⟨str "foo bar", ⟨7, 8, 9, 255⟩⟩]) := by decide +kernel

/-- the edit is not the identity: before it, the decoded title, background and combo colours were different. -/
example : C04.decodedSampleMap.metadata.title = str "Re:Zero // x" ∧ C04.decodedSampleMap.events.backgroundFile = str "bg/1.png" ∧
    C04.decodedSampleMap.colors.customComboColors = [⟨1, 2, 3, 255⟩] := by decide

/-! ### an edit can repair finding F16 -/

/-- a file whose audio name decodes to `a//b.mp3` (two backslashes are standardised to `//`; `C04.f16_decoded_witness`). -/
def f16Lines : List Str := [str "osu file format v14", str "[General]", str "AudioFilename: a\\\\b.mp3"]
def f16Text : Str := unlines f16Lines
def f16State : BeatmapState ZC ZC := frame beatmapDecoder f16Lines
def f16Map : Beatmap ZC ZC := C04.noObjectsMap f16State

theorem f16_decodesTo : DecodesTo (utf8Encode f16Text) f16Map := by
  refine ⟨f16State, ?_, C04.finish_of_no_objects f16State (by decide)⟩
  have hl : (textLines f16Text).map trimEnd = f16Lines := (lines_of_unlines _ (by decide)).trans (by decide)
  rw [RtFile.decodeBytes_utf8_text _ _ (by decide), hl]
  rfl

/-- the decoded map violates `NoDoubleSlash` — its own round trip loses the name (F16) … -/
theorem f16_hasDS : f16Map.general.audioFile = str "a//b.mp3" ∧ ¬ NoDoubleSlash f16Map :=
  ⟨by decide, fun h => absurd h.audio (by decide)⟩

/-- … but the edit that sets a clean audio name is covered: every hypothesis of `edit_survives_decoded` holds. -/
theorem f16_repaired :
    ∃ (t : Str) (st' : BeatmapState ZC ZC), encode (applyEdit (.audioFile (str "a/b.mp3")) f16Map) = .ok t ∧
      decodeBytes beatmapDecoder (utf8Encode t) = .ok st' ∧ st'.hitObjects.timingPoints.general.audioFile = str "a/b.mp3" := by
  have hT : encodeTimingPoints (applyEdit (.audioFile (str "a/b.mp3")) f16Map) = .ok (unlines [str "[TimingPoints]"]) := by
    have h1 : (applyEdit (.audioFile (str "a/b.mp3")) f16Map).hitObjects = [] := rfl
    have h2 : (applyEdit (.audioFile (str "a/b.mp3")) f16Map).controlPoints = {} := rfl
    unfold encodeTimingPoints collectSamples
    rw [h1, h2]
    simp [collectAll, addCollected, bind, Except.bind, pure, Except.pure, encodeGroups]
    rfl
  obtain ⟨t, st', h1, h2, h3, _⟩ := edit_survives_decoded ZC.constFacts ZC.laws ZC.laws ZC.intPrintLaw _ _ f16_decodesTo
    (floatsRep_of_limitRep ZC.limitRep ZC.limitRep _ (by
      obtain ⟨st, a, b⟩ := f16_decodesTo
      exact C04.decoded_map_inv ZC.constFacts _ _ _ a b))
    (.audioFile (str "a/b.mp3")) (by decide) trivial ⟨by decide, by decide⟩ [] [] hT rfl
    (fun _ h => absurd h List.not_mem_nil) (fun _ h => absurd h List.not_mem_nil)
  simp only [Edit.field, Field.get, Edit.shown, FieldVal.text.injEq] at h3
  exact ⟨t, st', h1, h2, h3⟩

/-! ### non-vacuity with list blocks: a decoded map with a timing point and a hit object -/

set_option maxRecDepth 100000

/-- the hostile file of Props/C04Decoded.lean with a timing point and a circle. -/
def sample2Lines : List Str := C04.decodedSampleLines ++
  [str "[TimingPoints]", str "0,500,4,1,0,100,1,0", str "[HitObjects]", str "256,192,1000,1,0,0:0:0:0:"]

def sample2Text : Str := unlines (sample2Lines.map (· ++ str " \r"))
def sample2State : BeatmapState ZC ZC := frame beatmapDecoder sample2Lines
def sample2Map : Beatmap ZC ZC :=
  match sample2State.finish with | .ok m => m | .error _ => C04.noObjectsMap sample2State

theorem sample2_lines : (textLines sample2Text).map trimEnd = sample2Lines := by
  have h1 : ∀ l ∈ sample2Lines.map (· ++ str " \r"), '\n' ∉ l := by decide
  have h2 : (sample2Lines.map (· ++ str " \r")).map trimEnd = sample2Lines := by decide
  exact (lines_of_unlines _ h1).trans h2

theorem sample2_decodes :
    decodeBytes (beatmapDecoder : LineDecoder (BeatmapState ZC ZC)) (utf8Encode sample2Text) = .ok sample2State := by
  rw [RtFile.decodeBytes_utf8_text _ _ (by decide), sample2_lines]
  rfl

theorem sample2_finishes : sample2State.finish = .ok sample2Map := by
  have hok : sample2State.finish.toOption.isSome = true := by decide +kernel
  unfold sample2Map
  cases h : sample2State.finish with
  | error e => rw [h] at hok; cases hok
  | ok m => rfl

theorem sample2_decodesTo : DecodesTo (utf8Encode sample2Text) sample2Map := ⟨_, sample2_decodes, sample2_finishes⟩

def sample2Samples : List HitSampleInfo := [HitSampleInfo.new (.default .normal) (some .normal) 0 100]


theorem sample2_objects : sample2Map.hitObjects =
    [⟨⟨1000⟩, .circle ⟨⟨⟨256⟩, ⟨192⟩⟩, true, 0⟩, sample2Samples⟩] := by with_unfolding_all rfl

theorem sample2_controlPoints : sample2Map.controlPoints =
    { timingPoints := [⟨⟨0⟩, ⟨500⟩, false, ⟨4⟩⟩], samplePoints := [⟨⟨0⟩, .normal, 100, 0⟩] } := by with_unfolding_all rfl

theorem sample2_collect : collectSamples sample2Map = .ok sample2Map.controlPoints := by
  with_unfolding_all rfl


theorem sample2_mode : sample2Map.general.mode = GameMode.osu := by with_unfolding_all rfl

theorem sample2_samples_rep (mode : GameMode) : RtObjects.RepSamples sample2Samples mode := by
  refine ⟨?_, ?_, ⟨by decide, by decide, by decide, by decide, by decide, by decide⟩⟩ <;> cases mode <;> decide

theorem sample2_timing : RtTiming.RepTimingMap ZC.Rep sample2Map where
  sig := by rw [sample2_controlPoints]; decide
  sv := by rw [sample2_controlPoints, sample2_mode]; decide
  timing := by rw [sample2_controlPoints]; decide
  difficulty := by rw [sample2_controlPoints]; decide
  effect := by rw [sample2_controlPoints]; decide
  samples := by
    intro cp hc
    rw [sample2_collect] at hc
    cases hc
    rw [sample2_controlPoints]
    decide

theorem sample2_objects_rep : ∀ h ∈ sample2Map.hitObjects, SliderRt.RepObject ZC.Rep ZC.Rep sample2Map.general.mode h := by
  intro h hh
  rw [sample2_objects, List.mem_singleton] at hh
  subst hh
  exact .circle _ rfl ⟨⟨by decide, by decide, rfl⟩, ⟨by decide, by decide, rfl⟩, ⟨by decide, by decide⟩, by decide,
    sample2_samples_rep _⟩

theorem sample2_floatsRep : FloatsRep ZC.Rep ZC.Rep sample2Map :=
  floatsRep_of_limitRep ZC.limitRep ZC.limitRep _ (C04.decoded_map_inv ZC.constFacts _ _ _ sample2_decodes sample2_finishes)

theorem sample2_noDoubleSlash : NoDoubleSlash sample2Map := ⟨by with_unfolding_all decide, by with_unfolding_all decide⟩

theorem sample2_encodes : ∃ t0, encode sample2Map = .ok t0 := by
  have h : (encode sample2Map).toOption.isSome = true := by decide +kernel
  cases h' : encode sample2Map with
  | error e => rw [h'] at h; cases h
  | ok t => exact ⟨t, rfl⟩

/-- nine edits: texts with `:` and `//`, both file names, an integer, an `f32`, bookmarks, combo colours, and a custom colour
whose name the decoded map already has (it is replaced). All are frame edits. -/
def sample2Edits : List (Edit ZC ZC) :=
  [.title (str "Re:Zero // x: y"), .tags (str "[HitObjects] osu file format v9"), .audioFile (str "dir/new song.mp3"),
   .backgroundFile (str "dir/bg 2.png"), .previewTime (-5), .hpDrainRate ⟨7⟩, .bookmarks [0, -5, 2147483647, -2147483648],
   .comboColors [⟨10, 20, 30, 255⟩, ⟨255, 0, 128, 255⟩], .customColor (str "foo bar") ⟨1, 1, 1, 255⟩]

theorem sample2Edits_representable : ∀ e ∈ sample2Edits, e.Representable ∧ e.CodecRep ZC.Rep ZC.Rep := by
  intro e he
  simp only [sample2Edits, List.mem_cons, List.not_mem_nil, or_false] at he
  rcases he with rfl | rfl | rfl | rfl | rfl | rfl | rfl | rfl | rfl <;>
    first | exact ⟨by decide, trivial⟩ | exact ⟨by decide, (by decide : ZC.Rep ⟨7⟩)⟩

/-- every hypothesis of `edits_roundtrip_decoded_rep` holds of the decoded sample and these edits: the conclusion — edited
values shown, untouched fields as in the unedited round trip, same hit objects and control points — holds of them. -/
example (t0 : Str) (h0 : encode sample2Map = .ok t0) :=
  edits_roundtrip_decoded_rep ZC.constFacts ZC.mapLaws _ _ sample2_decodesTo sample2_floatsRep sample2_noDoubleSlash
    sample2_timing sample2_objects_rep sample2Edits sample2Edits_representable (by decide) t0 h0

/-- the same run evaluated by the kernel on the model's own functions (`rereadWith`: encode, reader lines, framing driver,
`Beatmap` decoder, observe). Edited texts and file names, and the untouched artist: -/
theorem sample2_reread_texts :
    rereadWith (applyEdits sample2Edits sample2Map) (fun st => (st.metadata.title, st.metadata.tags,
      st.hitObjects.timingPoints.general.audioFile, st.hitObjects.events.backgroundFile, st.metadata.artist)) =
    some (str "Re:Zero // x: y", str "[HitObjects] osu file format v9", str "dir/new song.mp3", str "dir/bg 2.png", str "") := by
  decide +kernel

/-- edited preview time and HP drain, the untouched slider multiplier (clamped from 99 when the file was first decoded),
the number of hit objects read back (the control-point insertion is defined by well-founded
recursion and does not evaluate in the kernel; `edits_roundtrip_decoded_rep` above covers it): -/
theorem sample2_reread_numbers :
    rereadWith (applyEdits sample2Edits sample2Map) (fun st => (st.hitObjects.timingPoints.general.previewTime,
      st.hitObjects.difficulty.difficulty.hpDrainRate, st.hitObjects.difficulty.difficulty.sliderMultiplier,
      st.hitObjects.core.hitObjects.length)) =
    some (-5, ⟨7⟩, ⟨3⟩, 1) := by decide +kernel

/-- edited bookmarks, combo colours, and the custom colour replaced under its existing name: -/
theorem sample2_reread_lists :
    rereadWith (applyEdits sample2Edits sample2Map) (fun st => (st.editor.bookmarks, st.colors.customComboColors, st.colors.customColors)) =
    some ([0, -5, 2147483647, -2147483648], [⟨10, 20, 30, 255⟩, ⟨255, 0, 128, 255⟩], [⟨str "foo bar", ⟨1, 1, 1, 255⟩⟩]) := by
  decide +kernel

end Rosu.C03
