/-
  Props/C04DecodedIeee.lean — the record-section theorems of C04 for every DECODED map (Props/C04Decoded.lean) at the
  instances the driver runs, `F = Float` (`f64`), `P = Float32` (`f32`), with every hypothesis that is a theorem of those
  instances DISCHARGED:
    * `ConstFacts Float Float32`                    — `constFacts_float` (Props/C04Ieee.lean, kernel evaluation of the literals);
    * `CodecLaws Float IeeeRep64`, `CodecLaws Float32 IeeeRep32`, `IntPrintLaw Float`
                                                    — `C02.codecLaws_float_ieee`, `C02.codecLaws_float32_ieee`,
                                                      `C02.intPrintLaw_float_ieee` (Props/C02CodecIeee.lean);
    * `LimitRep IeeeRep64`, `LimitRep IeeeRep32`    — HERE (`limitRep_float`, `limitRep_float32`): the IEEE codec represents
      every value that is not a NaN (`IeeeRep64 x := x.isNaN = false`), and "within the parse limit" (`InLimit`) contains
      "not a NaN" as its third clause. Hence `FloatsRep` of every decoded map (`decoded_floatsRep_float`).
  What REMAINS in the statements below is no law: that the byte string decodes and finalises (premises), that the encoder's
  two LIST blocks are LF-free record lines (`RtFile.ListBlockShape`; covered for representable list blocks by
  `hitobjects_block_accepted` / `timing_block_shape`), and — for RECOVERY only — that neither file name contains `//`
  (finding F16, `NoDoubleSlash`; false of some decoded maps: `f16_decoded_witness_float`).
  `[Trig Float32]` is an argument (the theorems hold for every choice of the `f32` libm functions; the driver's instance
  is in Model/Cmds/Curve.lean). The last section evaluates a hostile 19-line file IN THE KERNEL with the real instances.
-/
import RosuModel.Props.C04Decoded
import RosuModel.Props.C02CodecIeee
import RosuModel.Props.C04Ieee
namespace Rosu.C04
open Rosu Encode EncodeLines C05 Scalar DecodedInv
set_option linter.unusedSectionVars false

/-- the `f64` values the model's IEEE codec represents (`parse (print x) = some x`, `C02.codecLaws_float_ieee`): all but NaN
— both zeros, subnormals, both infinities included. -/
abbrev IeeeRep64 : Float → Prop := fun x => x.isNaN = false
/-- the same for `f32`. -/
abbrev IeeeRep32 : Float32 → Prop := fun x => x.isNaN = false

/-- **`LimitRep` for `f64`**: a value within the parse limit is not a NaN, hence represented by the codec. -/
theorem limitRep_float : LimitRep IeeeRep64 := fun _ hx => hx.2.2
/-- **`LimitRep` for `f32`**. -/
theorem limitRep_float32 : LimitRep IeeeRep32 := fun _ hx => hx.2.2

/-- every hypothesis structure of the decoded-map theorems of C02 / C03 / C04 (record sections) holds of the driver's
instances. -/
theorem decoded_hypotheses_float :
    ConstFacts Float Float32 ∧ CodecLaws Float IeeeRep64 ∧ CodecLaws Float32 IeeeRep32 ∧ IntPrintLaw Float ∧
    LimitRep IeeeRep64 ∧ LimitRep IeeeRep32 :=
  ⟨constFacts_float, C02.codecLaws_float_ieee, C02.codecLaws_float32_ieee, C02.intPrintLaw_float_ieee,
    limitRep_float, limitRep_float32⟩

section
variable [Trig Float32]

/-- a map satisfying the `Decoded` invariant has only codec-representable floats in its record sections. -/
theorem floatsRep_of_decInv_float (m : Beatmap Float Float32) (h : DecInvMap m) : FloatsRep IeeeRep64 IeeeRep32 m :=
  floatsRep_of_limitRep limitRep_float limitRep_float32 m h

/-- **`FloatsRep` is a theorem for every decoded map**: stack leniency, distance spacing, timeline zoom, the six
difficulty values and every break time of a decoded `Beatmap<f64/f32>` are not NaN. -/
theorem decoded_floatsRep_float (bytes : List UInt8) (st : BeatmapState Float Float32) (m : Beatmap Float Float32)
    (h : decodeBytes beatmapDecoder bytes = .ok st) (hf : st.finish = .ok m) : FloatsRep IeeeRep64 IeeeRep32 m :=
  floatsRep_of_decInv_float m (decoded_map_inv_float bytes st m h hf)

/-- **decoded_records_representable** for the driver's instances, codec side discharged: a decoded map's record sections
are representable as soon as neither file name contains `//` (finding F16). -/
theorem decoded_records_representable_ieee (bytes : List UInt8) (st : BeatmapState Float Float32) (m : Beatmap Float Float32)
    (h : decodeBytes beatmapDecoder bytes = .ok st) (hf : st.finish = .ok m) (hds : NoDoubleSlash m) :
    RtFile.RepRecords IeeeRep64 IeeeRep32 m :=
  decoded_records_representable_float bytes st m h hf (decoded_floatsRep_float bytes st m h hf) hds

/-- **record_lines_accepted_decoded** for `f64` / `f32` — NO hypothesis besides "the bytes decode to `m`": every record
line the encoder writes for `[General]`, `[Editor]`, `[Metadata]`, `[Difficulty]`, `[Events]`, `[Colours]` of a decoded
map is a record line (neither header nor skipped) and is accepted by its section's parser in any state. -/
theorem record_lines_accepted_decoded_float (bytes : List UInt8) (st : BeatmapState Float Float32) (m : Beatmap Float Float32)
    (h : decodeBytes beatmapDecoder bytes = .ok st) (hf : st.finish = .ok m) (ss : SampleBank) :
    (∀ r ∈ RtGeneral.decodedLines m.general ss, RecordLine r ∧
      ∀ s : GeneralState Float Float32, (parseGeneral s r).1 = .ok ()) ∧
    (∀ r ∈ RtEditor.decodedLines m.editor, RecordLine r ∧ ∀ s : Editor Float, (parseEditor s r).2 = true) ∧
    (∀ r ∈ RtMetadata.decodedLines m.metadata, RecordLine r ∧ ∀ s, (parseMetadata s r).2 = true) ∧
    (∀ r ∈ RtDifficulty.decodedLines m.difficulty, RecordLine r ∧
      ∀ s : DifficultyState Float Float32, (parseDifficulty s r).2 = true) ∧
    (∀ r ∈ RtEvents.decodedLines m.events, RecordLine r ∧ ∀ s : Events Float, (parseEvents s r).2 = true) ∧
    (∀ r ∈ RtColours.decodedLines m.colors, RecordLine r ∧ ∀ s, (parseColors s r).2 = true) :=
  record_lines_accepted_decoded constFacts_float C02.codecLaws_float_ieee C02.codecLaws_float32_ieee
    C02.intPrintLaw_float_ieee bytes st m h hf (decoded_floatsRep_float bytes st m h hf) ss

/-- **record_blocks_accepted_decoded** for `f64` / `f32` — file level, acceptance, no F16 exclusion, no law: the text
encoded from a decoded map is the version line and the eight blocks as lines; read back from its UTF-8 bytes, reading
succeeds and the framing driver hands each block's lines, in order, to exactly that section's parser. Remaining: the two
list blocks are LF-free record lines (`ListBlockShape`). -/
theorem record_blocks_accepted_decoded_float (bytes : List UInt8) (st : BeatmapState Float Float32) (m : Beatmap Float Float32)
    (h : decodeBytes beatmapDecoder bytes = .ok st) (hf : st.finish = .ok m)
    (t : Str) (T H : List Str) (he : encode m = .ok t)
    (hT : encodeTimingPoints m = .ok (unlines (str "[TimingPoints]" :: T)))
    (hH : encodeHitObjects m = .ok (unlines (str "[HitObjects]" :: H)))
    (sT : RtFile.ListBlockShape T) (sH : RtFile.ListBlockShape H) :
    t = unlines (RtFile.fileLines m.formatVersion (RtGeneral.generalLines m.general (RtGeneral.sampleSetOf m.controlPoints))
      (RtEditor.editorLines m.editor) (RtMetadata.metadataLines m.metadata) (RtDifficulty.difficultyLines m.difficulty)
      (RtEvents.eventLines m.events) T (RtColours.colourLines m.colors) H) ∧
    decodeBytes (beatmapDecoder : LineDecoder (BeatmapState Float Float32)) (utf8Encode t) =
      .ok ((H.map trimEnd).foldl (BeatmapState.step .hitObjects)
        ((RtColours.decodedLines m.colors).foldl (BeatmapState.step .colors)
        ((T.map trimEnd).foldl (BeatmapState.step .timingPoints)
        ((RtEvents.decodedLines m.events).foldl (BeatmapState.step .events)
        ((RtDifficulty.decodedLines m.difficulty).foldl (BeatmapState.step .difficulty)
        ((RtMetadata.decodedLines m.metadata).foldl (BeatmapState.step .metadata)
        ((RtEditor.decodedLines m.editor).foldl (BeatmapState.step .editor)
        ((RtGeneral.decodedLines m.general (RtGeneral.sampleSetOf m.controlPoints)).foldl (BeatmapState.step .general)
          (BeatmapState.create m.formatVersion))))))))) :=
  record_blocks_accepted_decoded constFacts_float C02.codecLaws_float_ieee C02.codecLaws_float32_ieee
    C02.intPrintLaw_float_ieee bytes st m h hf (decoded_floatsRep_float bytes st m h hf) t T H he hT hH sT sH

/-- **record_blocks_accepted_and_recovered_decoded** for `f64` / `f32`: … and the record view of the new decoder state is
the preserved view of the map. Remaining: the F16 exclusion and the shape of the two list blocks. -/
theorem record_blocks_accepted_and_recovered_decoded_float (bytes : List UInt8) (st : BeatmapState Float Float32)
    (m : Beatmap Float Float32) (h : decodeBytes beatmapDecoder bytes = .ok st) (hf : st.finish = .ok m)
    (hds : NoDoubleSlash m) (t : Str) (T H : List Str) (he : encode m = .ok t)
    (hT : encodeTimingPoints m = .ok (unlines (str "[TimingPoints]" :: T)))
    (hH : encodeHitObjects m = .ok (unlines (str "[HitObjects]" :: H)))
    (sT : RtFile.ListBlockShape T) (sH : RtFile.ListBlockShape H) :
    t = unlines (RtFile.fileLines m.formatVersion (RtGeneral.generalLines m.general (RtGeneral.sampleSetOf m.controlPoints))
      (RtEditor.editorLines m.editor) (RtMetadata.metadataLines m.metadata) (RtDifficulty.difficultyLines m.difficulty)
      (RtEvents.eventLines m.events) T (RtColours.colourLines m.colors) H) ∧
    ∃ st2 : BeatmapState Float Float32, decodeBytes beatmapDecoder (utf8Encode t) = .ok st2 ∧
      RtFile.recView st2 = RtFile.preservedRecords m :=
  record_blocks_accepted_and_recovered_decoded constFacts_float C02.codecLaws_float_ieee C02.codecLaws_float32_ieee
    C02.intPrintLaw_float_ieee bytes st m h hf (decoded_floatsRep_float bytes st m h hf) hds t T H he hT hH sT sH

end

/-! ### finding F16 on the real instances: `NoDoubleSlash` cannot be dropped from the recovery statements -/

/-- two consecutive backslashes in `AudioFilename` are standardised to `//` — a decoded `f64` / `f32` state whose audio
file violates `RepAudioName.noDS` (kernel evaluation of the real decoder). -/
theorem f16_decoded_witness_float :
    hasDS (frame (beatmapDecoder : LineDecoder (BeatmapState Float Float32))
      [str "osu file format v14", str "[General]", str "AudioFilename: a\\\\b.mp3"]).hitObjects.timingPoints.general.audioFile = true := by
  decide +kernel

/-! ### non-vacuity on the REAL instances: the hostile file of Props/C04Decoded.lean, evaluated by the kernel -/

/-- what the `Beatmap<f64/f32>` decoder makes of the 19 sample lines. -/
def decodedSampleStateF : BeatmapState Float Float32 := frame beatmapDecoder decodedSampleLines

/-- the sample text (trailing blanks, CR LF) decodes — through the reader and the framing driver — to `decodedSampleStateF`. -/
theorem decodedSampleF_decodes :
    decodeBytes (beatmapDecoder : LineDecoder (BeatmapState Float Float32)) (utf8Encode decodedSampleText) =
      .ok decodedSampleStateF := by
  rw [RtFile.decodeBytes_utf8_text _ _ (by decide), decodedSample_lines]
  rfl

/-- the decoded values, computed in the kernel with IEEE arithmetic and the model of Rust's `FromStr`: the slider multiplier
`99` is clamped to `3.6`, the tick rate `-4` to `0.5`, the stack leniency is the `f32` `3`, the audio lead-in the `f64` `-7`,
the break `100 → 50` is `100 → 100`; the out-of-range preview time is rejected (default `-1`). -/
theorem decodedSampleF_values :
    decodedSampleStateF.hitObjects.timingPoints.general.audioFile = str "dir/a b.mp3" ∧
    decodedSampleStateF.hitObjects.timingPoints.general.audioLeadIn = -7 ∧
    decodedSampleStateF.hitObjects.timingPoints.general.stackLeniency = 3 ∧
    decodedSampleStateF.hitObjects.timingPoints.general.previewTime = -1 ∧
    decodedSampleStateF.metadata.title = str "Re:Zero // x" ∧
    decodedSampleStateF.hitObjects.difficulty.difficulty.sliderMultiplier = 3.6 ∧
    decodedSampleStateF.hitObjects.difficulty.difficulty.sliderTickRate = 0.5 ∧
    decodedSampleStateF.hitObjects.events.backgroundFile = str "bg/1.png" ∧
    decodedSampleStateF.hitObjects.events.breaks.map (fun b => (b.startTime, b.endTime)) = [(100, 100)] ∧
    decodedSampleStateF.colors.customColors = [⟨str "foo bar", ⟨7, 8, 9, 255⟩⟩] ∧
    decodedSampleStateF.version = 9 := by decide +kernel

/-- the invariant on the sample (an instance of `decoded_inv_float`). -/
example : DecInv decodedSampleStateF := decoded_inv_float _ _ decodedSampleF_decodes

section
variable [Trig Float32]

/-- the finalised sample map. -/
def decodedSampleMapF : Beatmap Float Float32 := noObjectsMap decodedSampleStateF

theorem decodedSampleF_finishes : decodedSampleStateF.finish = .ok decodedSampleMapF :=
  finish_of_no_objects decodedSampleStateF (by decide +kernel)

/-- no hypothesis about numbers is left: the sample's floats are representable because it is a decoded map. -/
theorem decodedSampleF_floatsRep : FloatsRep IeeeRep64 IeeeRep32 decodedSampleMapF :=
  decoded_floatsRep_float _ _ _ decodedSampleF_decodes decodedSampleF_finishes

theorem decodedSampleF_noDoubleSlash : NoDoubleSlash decodedSampleMapF := ⟨by decide +kernel, by decide +kernel⟩

/-- `record_lines_accepted_decoded_float` on the sample — its premises hold. -/
example := record_lines_accepted_decoded_float _ _ _ decodedSampleF_decodes decodedSampleF_finishes SampleBank.normal

theorem decodedSampleF_timing_text : encodeTimingPoints decodedSampleMapF = .ok (unlines [str "[TimingPoints]"]) := by
  have h1 : decodedSampleMapF.hitObjects = [] := rfl
  have h2 : decodedSampleMapF.controlPoints = {} := rfl
  unfold encodeTimingPoints collectSamples
  rw [h1, h2]
  simp [collectAll, addCollected, bind, Except.bind, pure, Except.pure, encodeGroups]
  rfl

theorem decodedSampleF_objects_text : encodeHitObjects decodedSampleMapF = .ok (unlines [str "[HitObjects]"]) := by rfl

theorem decodedSampleF_encodes : ∃ t, encode decodedSampleMapF = .ok t := by
  unfold encode
  rw [decodedSampleF_timing_text, decodedSampleF_objects_text]
  exact ⟨_, rfl⟩

/-- every premise of the file-level theorems holds of the sample: the map, obtained by decoding with the real instances,
is encoded and read back. -/
example (t : Str) (he : encode decodedSampleMapF = .ok t) :=
  record_blocks_accepted_decoded_float _ _ _ decodedSampleF_decodes decodedSampleF_finishes t [] [] he
    decodedSampleF_timing_text decodedSampleF_objects_text
    (fun _ h => absurd h List.not_mem_nil) (fun _ h => absurd h List.not_mem_nil)

example (t : Str) (he : encode decodedSampleMapF = .ok t) :=
  record_blocks_accepted_and_recovered_decoded_float _ _ _ decodedSampleF_decodes decodedSampleF_finishes
    decodedSampleF_noDoubleSlash t [] [] he decodedSampleF_timing_text decodedSampleF_objects_text
    (fun _ h => absurd h List.not_mem_nil) (fun _ h => absurd h List.not_mem_nil)

end

/-- encode a map, split the text into lines as the reader does (`textLines`, end-trimmed), run the framing driver and the
`Beatmap<f64/f32>` decoder over them, observe the decoder state — the model's own functions on the REAL instances, for kernel
evaluation (Rust's `Display` / `FromStr` as `printBits` / `parseBits`, IEEE comparisons and clamps of `Float.Model`). -/
def rereadWithF {α : Type} (m : Beatmap Float Float32) (obs : BeatmapState Float Float32 → α) : Option α :=
  match encode m with
  | .ok t => some (obs (frame (beatmapDecoder : LineDecoder (BeatmapState Float Float32)) ((textLines t).map trimEnd)))
  | .error _ => none

/-- the round trip of the sample, EVALUATED by the kernel: every record value of `decodedSampleF_values` comes back (what
`record_blocks_accepted_and_recovered_decoded_float` proves for every decoded map, seen on one). -/
theorem decodedSampleF_reread :
    rereadWithF decodedSampleMapF (fun st => decide (
      st.hitObjects.timingPoints.general.audioFile = str "dir/a b.mp3" ∧
      st.hitObjects.timingPoints.general.audioLeadIn = -7 ∧
      st.hitObjects.timingPoints.general.stackLeniency = 3 ∧
      st.hitObjects.timingPoints.general.previewTime = -1 ∧
      st.metadata.title = str "Re:Zero // x" ∧
      st.hitObjects.difficulty.difficulty.sliderMultiplier = 3.6 ∧
      st.hitObjects.difficulty.difficulty.sliderTickRate = 0.5 ∧
      st.hitObjects.events.backgroundFile = str "bg/1.png" ∧
      st.hitObjects.events.breaks.map (fun b => (b.startTime, b.endTime)) = [(100, 100)] ∧
      st.colors.customColors = [⟨str "foo bar", ⟨7, 8, 9, 255⟩⟩] ∧ st.version = 9)) = some true := by decide +kernel

end Rosu.C04
