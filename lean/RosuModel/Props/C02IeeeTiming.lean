/-
  Props/C02IeeeTiming.lean — C02, the timing clause **on IEEE doubles**: what decode → encode → decode does to a stored
  slider velocity / scroll speed, with the oracle's "≤ 4 ulp" tolerance replaced by theorems.

  In exact arithmetic (`timing_rt`, Props/C02Timing.lean, under `EpsLaws` / `GroupLaws`) the effective slider-velocity
  timeline survives the round trip unchanged. Those laws are refuted for IEEE doubles (Props/IeeeFalse.lean). What
  really happens on the driver's instance (`F := Float`):

  * the encoder (`encodeGroups`, Model/Encode.lean; Rust `write!(…, -100.0 / props.slider_velocity)`) writes the beat
    length `b = (-100) / sv` of an inherited line — `beatLenWritten`; in taiko / mania `sv` is the effect point's scroll
    speed (`Props.new`);
  * the decimal codec is exact (`float_parse_print`, Props/C02CodecIeee.lean: `parse (print b) = b`, `b` not NaN);
  * the decoder (`parseTpRaw`, Model/TimingDecode.lean; Rust `100.0 / -beat_len` when `beat_len < 0`, else `1`) computes
    the multiplier `speedRead b`, and stores `clamp(·, 0.1, 10)` as the slider velocity (`DifficultyPoint.new`) and, in
    taiko / mania, `clamp(·, 0.01, 10)` as the scroll speed (`TpLine.effectPoint`).

  So the stored value after a round trip is `svRoundtrip sv = clamp (100 / -((-100) / sv)) 0.1 10`
  (`scrollRoundtrip`: the same with `0.01`): two correctly rounded divisions, an exact negation, a clamp.

  Results (all for `Float`, `u = 2⁻⁵³`):
  * `sv_reread_err_float`: for `0.1 ≤ sv ≤ 10` the re-read multiplier is finite and
      `|sv' − sv| ≤ (2u / (1 − u)) · sv`  (`2u/(1−u) = (1+u)/(1−u) − 1`; `sv_reread_err_const_float`: `≤ 2.0000001 · u · sv`);
  * `sv_roundtrip_err_float`: the same bound for the stored value after the decoder's clamp, which is again inside
    `[0.1, 10]` (`sv_roundtrip_within_float`), so the bound applies to every further round (`sv_roundtrip_twice_err_float`);
  * `sv_roundtrip_not_exact_float`: `sv = 2.75` (a dyadic rational!) comes back as `2.7499999999999996`, one ulp below —
    exact equality is FALSE, which is why the oracle needs a tolerance; more witnesses in both directions;
  * `scroll_reread_err_float`, `scroll_roundtrip_err_float`, `scroll_roundtrip_not_exact_float`: the same for the
    scroll speed of taiko / mania, range `[0.01, 10]`;
  * idempotence (does the drift stop after one round?): `sv_roundtrip_idempotent_float_statement` is stated, NOT proved;
    it is kernel-checked on every witness of drift listed here, no counterexample is known (see the section).
-/
import RosuModel.Props.C15IeeeVelocity
import RosuModel.Props.C12Ieee
import RosuModel.Props.C02CodecIeee
import RosuModel.Props.C02Timing
namespace Rosu.C02
open Rosu Scalar Rosu.FErr Rosu.C15 Encode EncodeLines RtTiming

/-! ### the three steps of the round trip of one value -/

/-- the beat length `encodeGroups` writes on an inherited line for the (slider velocity | scroll speed) `sv`:
Rust `-100.0 / props.slider_velocity`. -/
def beatLenWritten (sv : Float) : Float := (-100 : Float) / sv

/-- the multiplier `parseTpRaw` computes from a beat length: Rust
`if beat_len < 0.0 { 100.0 / -beat_len } else { 1.0 }`. -/
def speedRead (b : Float) : Float := if Scalar.lt b (0 : Float) then (100 : Float) / (-b) else 1

/-- write, then read (the decimal text in between is exact: `float_parse_print`). -/
def svReread (sv : Float) : Float := speedRead (beatLenWritten sv)

/-- the slider velocity stored after one decode → encode → decode: `DifficultyPoint::new` clamps to `[0.1, 10]`. -/
def svRoundtrip (sv : Float) : Float := Scalar.clamp (svReread sv) (0.1 : Float) (10 : Float)

/-- the scroll speed stored after one round trip in taiko / mania: clamped to `[0.01, 10]`. -/
def scrollRoundtrip (s : Float) : Float := Scalar.clamp (svReread s) (0.01 : Float) (10 : Float)

/-- these are the model's expressions: the stored slider velocity of the difficulty point of a line with beat length
`b` and the multiplier the decoder computes … -/
theorem difficultyPoint_sv (t b : Float) :
    (DifficultyPoint.new t b (speedRead b)).sliderVelocity = Scalar.clamp (speedRead b) (0.1 : Float) (10 : Float) := rfl

/-- … so after a round trip of `sv` the difficulty point holds `svRoundtrip sv` (definitional). -/
theorem difficultyPoint_roundtrip (t sv : Float) :
    (DifficultyPoint.new t (beatLenWritten sv) (speedRead (beatLenWritten sv))).sliderVelocity = svRoundtrip sv := rfl

/-- the text between the two is exact: the beat length read back is the beat length written. -/
theorem beatLen_text_exact (sv : Float) (h : (beatLenWritten sv).isNaN = false) :
    (Scalar.parse (Scalar.print (beatLenWritten sv)) : Option Float) = some (beatLenWritten sv) :=
  float_parse_print _ h

/-! ### literals -/

theorem unpack_0_01 : (0.01 : Float).toModel.unpack = .finite .positive 5764607523034235 (-59) (by decide) := by
  have : (0.01 : Float) = Float.ofBits 0x3F847AE147AE147B := by decide +kernel
  rw [this, FM.float_unpack_ofBits _ (by decide)]; rfl

/-- the double `0.01` is slightly above `1/100`. -/
theorem toRat_0_01 : toRat (0.01 : Float) = 5764607523034235 / 576460752303423488 := by
  rw [toRat_of_unpack unpack_0_01]; norm_num [sgnQ]

/-! ### the two roundings -/

/-- the unit roundoff is tiny. -/
theorem u53_le' : (2 : ℚ) ^ (-53 : Int) ≤ 1 / 1000000000000000 := by norm_num

/-- **the computation, step by step**: for a finite double of value in `[1/100, 10]` both divisions stay finite and
normal, the written beat length is negative, and the re-read multiplier is `sv · (1+δ₂)/(1+δ₁)`, `|δᵢ| ≤ 2⁻⁵³`. -/
theorem reread_factors_float (sv : Float) (fsv : sv.isFinite = true) (V1 : 1 / 100 ≤ toRat sv) (V2 : toRat sv ≤ 10) :
    Scalar.lt (beatLenWritten sv) (0 : Float) = true ∧ (beatLenWritten sv).isFinite = true ∧
    svReread sv = (100 : Float) / (-((-100 : Float) / sv)) ∧ (svReread sv).isFinite = true ∧
    ∃ δ₁ δ₂ : ℚ, |δ₁| ≤ (2 : ℚ) ^ (-53 : Int) ∧ |δ₂| ≤ (2 : ℚ) ^ (-53 : Int) ∧
      toRat (beatLenWritten sv) = -(100 / toRat sv) * (1 + δ₁) ∧
      toRat (svReread sv) = toRat sv * ((1 + δ₂) / (1 + δ₁)) := by
  have hs0 : 0 < toRat sv := by linarith
  -- x = 100 / sv ∈ [10, 10000]
  have hx1 : 10 ≤ 100 / toRat sv := by rw [le_div_iff₀ hs0]; linarith
  have hx2 : 100 / toRat sv ≤ 10000 := by rw [div_le_iff₀ hs0]; linarith
  have hx0 : 0 < 100 / toRat sv := by linarith
  -- (1) −100 / sv
  have habs : |toRat (-100 : Float) / toRat sv| = 100 / toRat sv := by
    rw [toRat_neg100, neg_div, abs_neg, abs_of_pos hx0]
  obtain ⟨f1, δ₁, hδ₁, e1⟩ := div_ok (-100 : Float) sv (by decide +kernel) fsv hs0.ne'
    (by rw [habs]; exact tiny_le _ (le_trans (by norm_num) hx1))
    (by rw [habs]; exact lt_huge _ (le_trans hx2 (by norm_num)))
  rw [toRat_neg100] at e1
  obtain ⟨d1a, d1b⟩ := dhalf hδ₁
  have hlt : Scalar.lt ((-100 : Float) / sv) 0 = true := by
    refine lt_zero_of_toRat_neg _ f1 ?_
    rw [e1, neg_div, neg_mul]
    have : 0 < 100 / toRat sv * (1 + δ₁) := mul_pos hx0 (by linarith)
    linarith
  -- negation, exact
  have fy : (-((-100 : Float) / sv)).isFinite = true := by rw [neg_isFinite]; exact f1
  have ey : toRat (-((-100 : Float) / sv)) = 100 / toRat sv * (1 + δ₁) := by rw [toRat_neg, e1]; ring
  obtain ⟨Y1, Y2⟩ := rel_bounds _ δ₁ 10 10000 (by norm_num) hx1 hx2 hδ₁
  rw [← ey] at Y1 Y2
  have hY0 : 0 < toRat (-((-100 : Float) / sv)) := by linarith
  -- (2) 100 / (−b)
  have hq0 : 0 < toRat (100 : Float) / toRat (-((-100 : Float) / sv)) := by rw [toRat_100]; exact div_pos (by norm_num) hY0
  have hq1 : (1 : ℚ) / 1000 ≤ toRat (100 : Float) / toRat (-((-100 : Float) / sv)) := by
    rw [toRat_100, le_div_iff₀ hY0]; linarith
  have hq2 : toRat (100 : Float) / toRat (-((-100 : Float) / sv)) ≤ 1000 := by
    rw [toRat_100, div_le_iff₀ hY0]; linarith
  obtain ⟨f2, δ₂, hδ₂, e2⟩ := div_ok (100 : Float) (-((-100 : Float) / sv)) (by decide +kernel) fy hY0.ne'
    (by rw [abs_of_pos hq0]; exact tiny_le _ (le_trans (by norm_num) hq1))
    (by rw [abs_of_pos hq0]; exact lt_huge _ (le_trans hq2 (by norm_num)))
  have hre : svReread sv = (100 : Float) / (-((-100 : Float) / sv)) := by
    unfold svReread speedRead beatLenWritten
    simp only [hlt, if_true]
  refine ⟨hlt, f1, hre, by rw [hre]; exact f2, δ₁, δ₂, hδ₁, hδ₂, ?_, ?_⟩
  · show toRat ((-100 : Float) / sv) = _
    rw [e1]; ring
  · rw [hre, e2, ey, toRat_100]
    have n1 : (1 + δ₁) ≠ 0 := by linarith
    have hs' := hs0.ne'
    field_simp

/-- one rounding above, one below the bar: `|(1+e)/(1+d) − 1| ≤ 2u/(1−u)` for `|d|, |e| ≤ u < 1`. -/
theorem ratio2_bound (u d e : ℚ) (hu : u < 1) (hd : |d| ≤ u) (he : |e| ≤ u) :
    |(1 + e) / (1 + d) - 1| ≤ 2 * u / (1 - u) := by
  rw [abs_le] at hd he
  have h1 : 0 < 1 - u := by linarith
  have h2 : 0 < 1 + d := by linarith
  have e1 : (1 + e) / (1 + d) - 1 = (e - d) / (1 + d) := by field_simp; ring
  rw [e1, abs_div, abs_of_pos h2, div_le_div_iff₀ h2 h1]
  have a1 : |e - d| ≤ 2 * u := by rw [abs_le]; constructor <;> linarith
  have a0 : 0 ≤ |e - d| := abs_nonneg _
  have hu0 : 0 ≤ u := by linarith [abs_nonneg d, hd.1, hd.2]
  calc |e - d| * (1 - u) ≤ 2 * u * (1 - u) := mul_le_mul_of_nonneg_right a1 h1.le
    _ ≤ 2 * u * (1 + d) := mul_le_mul_of_nonneg_left (by linarith) (by linarith)

/-- the relative drift bound of one round trip, `2u/(1−u)` with `u = 2⁻⁵³` (`= (1+u)/(1−u) − 1`). -/
def driftBound : ℚ := 2 * (2 : ℚ) ^ (-53 : Int) / (1 - (2 : ℚ) ^ (-53 : Int))

theorem driftBound_eq : driftBound = (1 + (2 : ℚ) ^ (-53 : Int)) / (1 - (2 : ℚ) ^ (-53 : Int)) - 1 := by
  unfold driftBound; norm_num

theorem driftBound_nonneg : 0 ≤ driftBound := by unfold driftBound; norm_num

/-- `2u/(1−u) ≤ 2.0000001 · u`: two units of `2⁻⁵³`, "plus tiny". -/
theorem driftBound_le : driftBound ≤ 20000001 / 10000000 * (2 : ℚ) ^ (-53 : Int) := by
  unfold driftBound; norm_num

/-- `reread_factors_float` as a relative error. -/
theorem reread_rel_float (sv : Float) (fsv : sv.isFinite = true) (V1 : 1 / 100 ≤ toRat sv) (V2 : toRat sv ≤ 10) :
    (svReread sv).isFinite = true ∧ ∃ ε : ℚ, |ε| ≤ driftBound ∧ toRat (svReread sv) = toRat sv * (1 + ε) := by
  obtain ⟨_, _, _, hf, δ₁, δ₂, h1, h2, _, hv⟩ := reread_factors_float sv fsv V1 V2
  refine ⟨hf, (1 + δ₂) / (1 + δ₁) - 1, ratio2_bound _ δ₁ δ₂ (by norm_num) h1 h2, ?_⟩
  rw [hv]; ring

theorem abs_of_rel {r x ε B : ℚ} (hx : 0 ≤ x) (hε : |ε| ≤ B) (h : r = x * (1 + ε)) : |r - x| ≤ B * x := by
  rw [h, show x * (1 + ε) - x = ε * x by ring, abs_mul, abs_of_nonneg hx]
  exact mul_le_mul_of_nonneg_right hε hx

/-- the decoded range of a slider velocity, in values. -/
theorem sv_range_float (sv : Float) (h1 : Scalar.le (0.1 : Float) sv = true) (h2 : Scalar.le sv (10 : Float) = true) :
    sv.isFinite = true ∧ 1 / 10 ≤ toRat sv ∧ toRat (0.1 : Float) ≤ toRat sv ∧ toRat sv ≤ 10 := by
  have fsv := finite_of_between _ sv _ (by decide +kernel) (by decide +kernel) h1 h2
  have a := toRat_le_of_le _ _ (by decide +kernel) fsv h1
  have b := toRat_le_of_le _ _ fsv (by decide +kernel) h2
  rw [toRat_10] at b
  exact ⟨fsv, le_trans (by rw [toRat_0_1]; norm_num) a, a, b⟩

/-- the decoded range of a scroll speed, in values. -/
theorem scroll_range_float (s : Float) (h1 : Scalar.le (0.01 : Float) s = true) (h2 : Scalar.le s (10 : Float) = true) :
    s.isFinite = true ∧ 1 / 100 ≤ toRat s ∧ toRat (0.01 : Float) ≤ toRat s ∧ toRat s ≤ 10 := by
  have fs := finite_of_between _ s _ (by decide +kernel) (by decide +kernel) h1 h2
  have a := toRat_le_of_le _ _ (by decide +kernel) fs h1
  have b := toRat_le_of_le _ _ fs (by decide +kernel) h2
  rw [toRat_10] at b
  exact ⟨fs, le_trans (by rw [toRat_0_01]; norm_num) a, a, b⟩

/-! ### (1) the slider velocity -/

/-- **sv_reread_err_float** — a stored slider velocity `sv ∈ [0.1, 10]` (the decoded range; IEEE `<=` against the double
literals) is written as `b = (-100) / sv` and re-read as `sv' = 100 / -b`: `b` is finite and negative (so the decoder
takes the inherited branch), `sv'` is finite and `|sv' − sv| ≤ (2u/(1−u)) · sv`, `u = 2⁻⁵³` — two roundings. -/
theorem sv_reread_err_float (sv : Float) (h1 : Scalar.le (0.1 : Float) sv = true) (h2 : Scalar.le sv (10 : Float) = true) :
    Scalar.lt (beatLenWritten sv) (0 : Float) = true ∧ (beatLenWritten sv).isFinite = true ∧
    (svReread sv).isFinite = true ∧ |toRat (svReread sv) - toRat sv| ≤ driftBound * toRat sv := by
  obtain ⟨fsv, V1, _, V2⟩ := sv_range_float sv h1 h2
  obtain ⟨hlt, fb, _, _, _⟩ := reread_factors_float sv fsv (by linarith) V2
  obtain ⟨hf, ε, hε, hv⟩ := reread_rel_float sv fsv (by linarith) V2
  exact ⟨hlt, fb, hf, abs_of_rel (by linarith) hε hv⟩

/-- the same with the explicit constant `c = 2.0000001`: `|sv' − sv| ≤ 2.0000001 · 2⁻⁵³ · sv`. -/
theorem sv_reread_err_const_float (sv : Float) (h1 : Scalar.le (0.1 : Float) sv = true)
    (h2 : Scalar.le sv (10 : Float) = true) :
    |toRat (svReread sv) - toRat sv| ≤ 20000001 / 10000000 * (2 : ℚ) ^ (-53 : Int) * toRat sv := by
  obtain ⟨_, V1, _, _⟩ := sv_range_float sv h1 h2
  exact le_trans (sv_reread_err_float sv h1 h2).2.2.2 (mul_le_mul_of_nonneg_right driftBound_le (by linarith))

/-- **sv_roundtrip_err_float** — the value stored after the decoder's clamp to `[0.1, 10]`: finite and within
`(2u/(1−u)) · sv` of the original. The clamp does not increase the error: `sv` is inside the clamp range, so a
clamped value lies between `sv` and `sv'` (`clamp_rel_float`). -/
theorem sv_roundtrip_err_float (sv : Float) (h1 : Scalar.le (0.1 : Float) sv = true)
    (h2 : Scalar.le sv (10 : Float) = true) :
    (svRoundtrip sv).isFinite = true ∧ |toRat (svRoundtrip sv) - toRat sv| ≤ driftBound * toRat sv := by
  obtain ⟨fsv, V1, L, V2⟩ := sv_range_float sv h1 h2
  obtain ⟨hf, ε, hε, hv⟩ := reread_rel_float sv fsv (by linarith) V2
  obtain ⟨fC, ε', hε', eC⟩ := clamp_rel_float (svReread sv) (0.1 : Float) (10 : Float) (toRat sv) ε driftBound hf
    (by decide +kernel) (by decide +kernel) (by decide +kernel) hv (by linarith) L (by rw [toRat_10]; exact V2) hε
  exact ⟨fC, abs_of_rel (by linarith) hε' eC⟩

/-- `|sv'' − sv| ≤ 2.0000001 · 2⁻⁵³ · sv` for the stored value. -/
theorem sv_roundtrip_err_const_float (sv : Float) (h1 : Scalar.le (0.1 : Float) sv = true)
    (h2 : Scalar.le sv (10 : Float) = true) :
    |toRat (svRoundtrip sv) - toRat sv| ≤ 20000001 / 10000000 * (2 : ℚ) ^ (-53 : Int) * toRat sv := by
  obtain ⟨_, V1, _, _⟩ := sv_range_float sv h1 h2
  exact le_trans (sv_roundtrip_err_float sv h1 h2).2 (mul_le_mul_of_nonneg_right driftBound_le (by linarith))

/-- the stored value is again in the decoded range (IEEE `<=`), whatever `sv` was … -/
theorem sv_roundtrip_within_float (sv : Float) (h1 : Scalar.le (0.1 : Float) sv = true)
    (h2 : Scalar.le sv (10 : Float) = true) :
    Scalar.le (0.1 : Float) (svRoundtrip sv) = true ∧ Scalar.le (svRoundtrip sv) (10 : Float) = true := by
  have hn := not_nan_of_finite _ (sv_roundtrip_err_float sv h1 h2).1
  obtain ⟨w1, w2⟩ := C12.clamp_within_sv_float (svReread sv)
  exact ⟨FMO.le_of_not_lt _ _ hn (by decide +kernel) w1, FMO.le_of_not_lt _ _ (by decide +kernel) hn w2⟩

/-- … so the bound applies to every further round: after two round trips the drift is at most
`(1 + 2u/(1−u))² − 1` (relative; `≈ 4u`). -/
theorem sv_roundtrip_twice_err_float (sv : Float) (h1 : Scalar.le (0.1 : Float) sv = true)
    (h2 : Scalar.le sv (10 : Float) = true) :
    |toRat (svRoundtrip (svRoundtrip sv)) - toRat sv| ≤ ((1 + driftBound) ^ 2 - 1) * toRat sv := by
  obtain ⟨_, V1, _, _⟩ := sv_range_float sv h1 h2
  obtain ⟨w1, w2⟩ := sv_roundtrip_within_float sv h1 h2
  have a := (sv_roundtrip_err_float sv h1 h2).2
  have b := (sv_roundtrip_err_float _ w1 w2).2
  have hB := driftBound_nonneg
  generalize driftBound = B at *
  generalize toRat (svRoundtrip (svRoundtrip sv)) = z at *
  generalize toRat (svRoundtrip sv) = y at *
  generalize toRat sv = x at *
  rw [abs_le] at a b ⊢
  have hx : 0 ≤ x := by linarith
  have hBx : 0 ≤ B * x := mul_nonneg hB hx
  have hy : y ≤ x + B * x := by linarith
  have hBy : B * y ≤ B * (x + B * x) := mul_le_mul_of_nonneg_left hy hB
  constructor <;> nlinarith

/-! ### (4) the scroll speed of taiko / mania: the same formula, range `[0.01, 10]` -/

/-- **scroll_reread_err_float** — in taiko / mania the field of the inherited line carries the effect point's scroll
speed `s ∈ [0.01, 10]`; written as `(-100) / s`, re-read as `100 / -b`: finite, `|s' − s| ≤ (2u/(1−u)) · s`. -/
theorem scroll_reread_err_float (s : Float) (h1 : Scalar.le (0.01 : Float) s = true)
    (h2 : Scalar.le s (10 : Float) = true) :
    Scalar.lt (beatLenWritten s) (0 : Float) = true ∧ (beatLenWritten s).isFinite = true ∧
    (svReread s).isFinite = true ∧ |toRat (svReread s) - toRat s| ≤ driftBound * toRat s := by
  obtain ⟨fs, V1, _, V2⟩ := scroll_range_float s h1 h2
  obtain ⟨hlt, fb, _, _, _⟩ := reread_factors_float s fs V1 V2
  obtain ⟨hf, ε, hε, hv⟩ := reread_rel_float s fs V1 V2
  exact ⟨hlt, fb, hf, abs_of_rel (by linarith) hε hv⟩

/-- **scroll_roundtrip_err_float** — the scroll speed stored after the decoder's clamp to `[0.01, 10]`. -/
theorem scroll_roundtrip_err_float (s : Float) (h1 : Scalar.le (0.01 : Float) s = true)
    (h2 : Scalar.le s (10 : Float) = true) :
    (scrollRoundtrip s).isFinite = true ∧ |toRat (scrollRoundtrip s) - toRat s| ≤ driftBound * toRat s := by
  obtain ⟨fs, V1, L, V2⟩ := scroll_range_float s h1 h2
  obtain ⟨hf, ε, hε, hv⟩ := reread_rel_float s fs V1 V2
  obtain ⟨fC, ε', hε', eC⟩ := clamp_rel_float (svReread s) (0.01 : Float) (10 : Float) (toRat s) ε driftBound hf
    (by decide +kernel) (by decide +kernel) (by decide +kernel) hv (by linarith) L (by rw [toRat_10]; exact V2) hε
  exact ⟨fC, abs_of_rel (by linarith) hε' eC⟩

theorem scroll_roundtrip_err_const_float (s : Float) (h1 : Scalar.le (0.01 : Float) s = true)
    (h2 : Scalar.le s (10 : Float) = true) :
    |toRat (scrollRoundtrip s) - toRat s| ≤ 20000001 / 10000000 * (2 : ℚ) ^ (-53 : Int) * toRat s := by
  obtain ⟨_, V1, _, _⟩ := scroll_range_float s h1 h2
  exact le_trans (scroll_roundtrip_err_float s h1 h2).2 (mul_le_mul_of_nonneg_right driftBound_le (by linarith))

theorem scroll_roundtrip_within_float (s : Float) (h1 : Scalar.le (0.01 : Float) s = true)
    (h2 : Scalar.le s (10 : Float) = true) :
    Scalar.le (0.01 : Float) (scrollRoundtrip s) = true ∧ Scalar.le (scrollRoundtrip s) (10 : Float) = true := by
  have hn := not_nan_of_finite _ (scroll_roundtrip_err_float s h1 h2).1
  obtain ⟨w1, w2⟩ := C12.clamp_within_scroll_float (svReread s)
  exact ⟨FMO.le_of_not_lt _ _ hn (by decide +kernel) w1, FMO.le_of_not_lt _ _ (by decide +kernel) hn w2⟩

/-! ### non-vacuity -/

/-- the hypotheses hold on `sv = 1.5`, and at both ends of the range … -/
example : Scalar.le (0.1 : Float) (1.5 : Float) = true ∧ Scalar.le (1.5 : Float) (10 : Float) = true ∧
    Scalar.le (0.1 : Float) (0.1 : Float) = true ∧ Scalar.le (10 : Float) (10 : Float) = true := by decide +kernel

/-- … and the instance of the theorem at `sv = 1.35` (where the stored value does move, see below). -/
example : (svRoundtrip 1.35).isFinite = true ∧
    |toRat (svRoundtrip 1.35) - toRat (1.35 : Float)| ≤ driftBound * toRat (1.35 : Float) :=
  sv_roundtrip_err_float 1.35 (by decide +kernel) (by decide +kernel)

/-- scroll speed: the hypotheses hold on `0.047`, below the slider-velocity range. -/
example : Scalar.le (0.01 : Float) (0.047 : Float) = true ∧ Scalar.le (0.047 : Float) (10 : Float) = true ∧
    Scalar.le (0.1 : Float) (0.047 : Float) = false := by decide +kernel

example : (scrollRoundtrip 0.047).isFinite = true ∧
    |toRat (scrollRoundtrip 0.047) - toRat (0.047 : Float)| ≤ driftBound * toRat (0.047 : Float) :=
  scroll_roundtrip_err_float 0.047 (by decide +kernel) (by decide +kernel)

/-! ### (3) exact equality is false -/

theorem unpack_2_75 : (2.75 : Float).toModel.unpack = .finite .positive 6192449487634432 (-51) (by decide) := by
  have : (2.75 : Float) = Float.ofBits 0x4006000000000000 := by decide +kernel
  rw [this, FM.float_unpack_ofBits _ (by decide)]; rfl

theorem unpack_2_75_pred : (Float.ofBits 0x4005FFFFFFFFFFFF).toModel.unpack =
    .finite .positive 6192449487634431 (-51) (by decide) := by
  rw [FM.float_unpack_ofBits _ (by decide)]; rfl

/-- **sv_roundtrip_not_exact_float** — `sv = 2.75` (in the decoded range, a dyadic rational: the double is *exactly*
`11/4`) is written as `-36.36363636363637` (`0xC0422E8BA2E8BA2F`) and comes back as `2.7499999999999996`
(`0x4005FFFFFFFFFFFF`): **one ulp below** (`2⁻⁵¹`; relative drift `≈ 1.45 · 2⁻⁵³`, inside the bound `≈ 2 · 2⁻⁵³` of
`sv_roundtrip_err_float`). So `svRoundtrip sv = sv` is false on IEEE doubles — this is why the harness oracle compares
the re-decoded timelines with a tolerance. -/
theorem sv_roundtrip_not_exact_float :
    Scalar.le (0.1 : Float) (2.75 : Float) = true ∧ Scalar.le (2.75 : Float) (10 : Float) = true ∧
    (2.75 : Float) = Float.ofBits 0x4006000000000000 ∧
    beatLenWritten 2.75 = Float.ofBits 0xC0422E8BA2E8BA2F ∧
    svRoundtrip 2.75 = Float.ofBits 0x4005FFFFFFFFFFFF ∧
    svRoundtrip 2.75 ≠ 2.75 ∧
    (svRoundtrip 2.75).toBits.toNat + 1 = (2.75 : Float).toBits.toNat ∧
    toRat (2.75 : Float) - toRat (svRoundtrip 2.75) = (2 : ℚ) ^ (-51 : Int) := by
  have hv : svRoundtrip 2.75 = Float.ofBits 0x4005FFFFFFFFFFFF := by decide +kernel
  refine ⟨by decide +kernel, by decide +kernel, by decide +kernel, by decide +kernel, hv, by decide +kernel,
    by decide +kernel, ?_⟩
  rw [hv, toRat_of_unpack unpack_2_75, toRat_of_unpack unpack_2_75_pred]
  norm_num [sgnQ]

/-- drift in the other direction: `sv = 1.31` comes back one ulp **above**; `1.35` one ulp below. (Of the 991
two-decimal values `0.10 … 10.00`, 81 move, each by exactly one ulp; of random doubles in the range about 7 %.) -/
theorem sv_roundtrip_not_exact_up_float :
    (1.31 : Float) = Float.ofBits 0x3FF4F5C28F5C28F6 ∧ svRoundtrip 1.31 = Float.ofBits 0x3FF4F5C28F5C28F7 ∧
    (1.35 : Float) = Float.ofBits 0x3FF599999999999A ∧ svRoundtrip 1.35 = Float.ofBits 0x3FF5999999999999 := by
  decide +kernel

/-- **scroll_roundtrip_not_exact_float** — taiko / mania: the scroll speed `0.047` (below the slider-velocity range,
inside `[0.01, 10]`) comes back one ulp above, `0.012` one ulp below. -/
theorem scroll_roundtrip_not_exact_float :
    Scalar.le (0.01 : Float) (0.047 : Float) = true ∧ Scalar.le (0.047 : Float) (10 : Float) = true ∧
    (0.047 : Float) = Float.ofBits 0x3FA810624DD2F1AA ∧ scrollRoundtrip 0.047 = Float.ofBits 0x3FA810624DD2F1AB ∧
    scrollRoundtrip 0.047 ≠ 0.047 ∧
    (0.012 : Float) = Float.ofBits 0x3F889374BC6A7EFA ∧ scrollRoundtrip 0.012 = Float.ofBits 0x3F889374BC6A7EF9 ∧
    scrollRoundtrip 0.012 ≠ 0.012 := by
  decide +kernel

/-- the two clamps differ below `0.1`: as a *slider velocity* `0.047` would be clamped up to `0.1`. -/
example : svRoundtrip 0.047 = (0.1 : Float) := by decide +kernel

/-! ### (2) does the drift stop after one round? -/

/-- **the fixed-point statement** (NOT proved here): the value stored after one round trip is reproduced exactly by
every further round trip, i.e. the encoder / decoder pair reaches a fixed point after one round. -/
def sv_roundtrip_idempotent_float_statement : Prop :=
  ∀ sv : Float, Scalar.le (0.1 : Float) sv = true → Scalar.le sv (10 : Float) = true →
    svRoundtrip (svRoundtrip sv) = svRoundtrip sv

/-- the same for the scroll speed. -/
def scroll_roundtrip_idempotent_float_statement : Prop :=
  ∀ s : Float, Scalar.le (0.01 : Float) s = true → Scalar.le s (10 : Float) = true →
    scrollRoundtrip (scrollRoundtrip s) = scrollRoundtrip s

/-- it holds on every witness of drift above: the moved value is a fixed point (kernel-evaluated). No counterexample
is known: none among `2 · 10⁶` random doubles of `[0.1, 10]`, nor in windows of `6 · 10⁵` consecutive doubles around
each of the critical points (powers of two, `100 / 2^k`, `1.25 · 2^k`, `√50 · 2^k`). What a proof needs is in the
final comment of this file. -/
theorem sv_roundtrip_idempotent_witnesses_float :
    svRoundtrip (svRoundtrip 2.75) = svRoundtrip 2.75 ∧ svRoundtrip (svRoundtrip 1.31) = svRoundtrip 1.31 ∧
    svRoundtrip (svRoundtrip 1.35) = svRoundtrip 1.35 ∧ svRoundtrip (svRoundtrip 0.17) = svRoundtrip 0.17 ∧
    svRoundtrip (svRoundtrip 0.3) = svRoundtrip 0.3 ∧ svRoundtrip (svRoundtrip 0.7) = svRoundtrip 0.7 ∧
    svRoundtrip (svRoundtrip 1.1) = svRoundtrip 1.1 ∧ svRoundtrip (svRoundtrip 5.4) = svRoundtrip 5.4 ∧
    scrollRoundtrip (scrollRoundtrip 0.047) = scrollRoundtrip 0.047 ∧
    scrollRoundtrip (scrollRoundtrip 0.012) = scrollRoundtrip 0.012 := by
  decide +kernel

/-- what *is* proved about the second round: it is again inside the range and inside the same bound relative to the
first (`sv_roundtrip_within_float`, `sv_roundtrip_err_float`), hence `sv_roundtrip_twice_err_float`. -/
theorem sv_second_round_err_float (sv : Float) (h1 : Scalar.le (0.1 : Float) sv = true)
    (h2 : Scalar.le sv (10 : Float) = true) :
    |toRat (svRoundtrip (svRoundtrip sv)) - toRat (svRoundtrip sv)| ≤ driftBound * toRat (svRoundtrip sv) :=
  (sv_roundtrip_err_float _ (sv_roundtrip_within_float sv h1 h2).1 (sv_roundtrip_within_float sv h1 h2).2).2

/-! ### the link to `timing_rt`: its hypothesis `SvInverse` is "no drift" -/

/-- for a value of the decoded range, the hypothesis `SvInverse` of `inherited_line_rt` / `TimelineHyps` (Lemmas/RtTimingRt.lean)
on the driver's instance says exactly that the value does not drift (the sign condition always holds). -/
theorem svInverse_iff_float (v : Float) (h1 : Scalar.le (0.01 : Float) v = true) (h2 : Scalar.le v (10 : Float) = true) :
    SvInverse v ↔ svReread v = v := by
  obtain ⟨fs, V1, _, V2⟩ := scroll_range_float v h1 h2
  obtain ⟨hlt, _, hre, _⟩ := reread_factors_float v fs V1 V2
  constructor
  · intro h; rw [hre]; exact h.2
  · intro h; exact ⟨hlt, by rw [← hre]; exact h⟩

/-- so `TimelineHyps` — the hypothesis of `timing_rt` / `timing_roundtrip_file` — FAILS on a collection that stores the
slider velocity `2.75`: the exact-arithmetic theorem does not even apply there, quite apart from `EpsLaws`. -/
theorem svInverse_false_float : ¬ SvInverse (2.75 : Float) := by
  rw [svInverse_iff_float _ (by decide +kernel) (by decide +kernel)]
  decide +kernel

/-- **the values a decoder produces do not drift** (statement, NOT proved): whatever beat length `b` an inherited line
carries, the slider velocity the decoder stores for it is reproduced *exactly* by a round trip. (In the interior of the
clamp this is `fl(100 / fl(100 / fl(100 / x))) = fl(100 / x)`.) Same numerical evidence as for the fixed-point statement,
plus `3 · 10⁶` random `b ∈ [-1000, -10]`: no counterexample. The drifting values (`2.75`, `1.31`, … about 7 % of the
doubles of the range) are exactly values that are NOT of the form `fl(100 / x)`. -/
def sv_decoded_roundtrip_exact_float_statement : Prop :=
  ∀ b : Float, svRoundtrip (Scalar.clamp (speedRead b) (0.1 : Float) (10 : Float)) =
    Scalar.clamp (speedRead b) (0.1 : Float) (10 : Float)

/-- the fixed-point statement is the special case `b = (-100) / sv` (proved). -/
theorem sv_roundtrip_idempotent_of_decoded_exact (h : sv_decoded_roundtrip_exact_float_statement) :
    sv_roundtrip_idempotent_float_statement :=
  fun sv _ _ => h (beatLenWritten sv)

/-- instances: the beat lengths written for the drifting `2.75`, `0.17` are read to values that do not drift;
so are a positive beat length (multiplier `1`), an infinite and a NaN one (kernel-evaluated). -/
theorem sv_decoded_roundtrip_exact_witnesses_float :
    (∀ b ∈ [Float.ofBits 0xC0422E8BA2E8BA2F, Float.ofBits 0xC08261E1E1E1E1E2, (-333.33 : Float), (-1000 : Float),
        (-10 : Float), (-7 : Float), (-20000 : Float), (500 : Float), (0 : Float), Float.ofBits 0xFFF0000000000000,
        Float.ofBits 0x7FF8000000000000],
      svRoundtrip (Scalar.clamp (speedRead b) (0.1 : Float) (10 : Float)) =
        Scalar.clamp (speedRead b) (0.1 : Float) (10 : Float)) := by
  decide +kernel

/-! ### (5) the timeline: why "close" does not follow value by value -/

/-- **a redundancy test flips under the drift** (kernel-evaluated). `s₁ = 0.19` and `s₂ = 0.19 + 2⁻⁵²` (8 ulps apart) are
NOT within `f64::EPSILON` of each other, so the encoder's `is_redundant` writes an inherited line for each; `s₁` comes
back one ulp above, `s₂` unchanged, and the re-read values ARE within `EPSILON` — the decoder's
`DifficultyPoint::is_redundant` drops the second point, and the effective slider velocity after the second line is
`s₁ + 1 ulp` instead of `s₂`: **7 ulps** off (`≈ 9 · 2⁻⁵³` relative), outside `driftBound`. -/
theorem sv_redundancy_flips_float :
    let s₁ : Float := 0.19
    let s₂ : Float := Float.ofBits 0x3FC851EB851EB85A
    Scalar.le (0.1 : Float) s₁ = true ∧ Scalar.le s₂ (10 : Float) = true ∧
    s₁ = Float.ofBits 0x3FC851EB851EB852 ∧
    Scalar.lt (Scalar.abs (s₂ - s₁)) (Scalar.eps : Float) = false ∧
    svRoundtrip s₁ = Float.ofBits 0x3FC851EB851EB853 ∧ svRoundtrip s₂ = s₂ ∧
    Scalar.lt (Scalar.abs (svRoundtrip s₂ - svRoundtrip s₁)) (Scalar.eps : Float) = true := by
  decide +kernel

/-- the same for scroll speeds near `0.011` (taiko / mania): the two speeds are `128` ulps (`2⁻⁵²`) apart, after the
round trip `126`: the second effect point is dropped, the effective scroll speed is **127 ulps** off. -/
theorem scroll_redundancy_flips_float :
    let s₁ : Float := Float.ofBits 0x3F86872B020C49C2
    let s₂ : Float := Float.ofBits 0x3F86872B020C4A42
    Scalar.le (0.01 : Float) s₁ = true ∧ Scalar.le s₂ (10 : Float) = true ∧
    Scalar.lt (Scalar.abs (s₂ - s₁)) (Scalar.eps : Float) = false ∧
    scrollRoundtrip s₁ = Float.ofBits 0x3F86872B020C49C3 ∧ scrollRoundtrip s₂ = Float.ofBits 0x3F86872B020C4A41 ∧
    Scalar.lt (Scalar.abs (scrollRoundtrip s₂ - scrollRoundtrip s₁)) (Scalar.eps : Float) = true := by
  decide +kernel

/-- `TimelineHyps` without the exact inverse `SvInverse`: what a `Float` collection with values in the decoded ranges
satisfies. -/
structure TimelineHypsIeee (mode : GameMode) (cp : ControlPoints Float) : Prop where
  sorted : C13.Sorted cp
  sig : ∀ t ∈ cp.timingPoints, 1 ≤ t.timeSignature.numerator
  beat : ∀ t ∈ cp.timingPoints, clamp t.beatLen (6 : Float) (60000 : Float) = t.beatLen ∧ lt t.beatLen (0 : Float) = false
  sv : ∀ v ∈ (1 : Float) :: svSource mode cp,
    (match mode with
     | .taiko | .mania => Scalar.le (0.01 : Float) v = true ∧ Scalar.le v (10 : Float) = true
     | _ => Scalar.le (0.1 : Float) v = true ∧ Scalar.le v (10 : Float) = true)

/-- **the timeline statement on doubles** (`timing_rt` with "equal" replaced by "within `driftBound`, relative"), a
STATEMENT only. It is not proved, and for collections with arbitrary values of the range it is endangered by
`sv_redundancy_flips_float` (a map-level counterexample would store `0.19` and `0.19 + 2⁻⁵²` at consecutive times; it
has not been evaluated through the state machine here). See the closing comment for what is missing. -/
def timing_rt_close_float_statement : Prop :=
  ∀ (mode : GameMode) (cp : ControlPoints Float), TimelineHypsIeee mode cp →
  ∀ g0 : GeneralState Float Float32, g0.mode = mode →
    let cp' := (C12.runTpLines { (TimingPointsState.create : TimingPointsState Float Float32) with general := g0 }
      ((groupEntries mode cp (timingGroups cp) Props.default).map (Entry.read g0.defaultSampleBank))).finish.2
    cp'.timingPoints = cp.timingPoints ∧
    ∀ u : Float, |toRat (svFor mode cp' u) - toRat (svFor mode cp u)| ≤ driftBound * toRat (svFor mode cp u) ∧
      kiaiAt cp' u = kiaiAt cp u

/-
  What is proved and what is missing.

  Proved: one value, one round trip — error `≤ 2u/(1−u)` relative, before and after the clamp, slider velocity and
  scroll speed; the result is again in range, so `n` rounds cost at most `(1 + 2u/(1−u))^n − 1`; exact equality is
  false (one ulp, both directions); `SvInverse` (the hypothesis of the exact-arithmetic `timing_rt`) is precisely
  "no drift" and fails on `2.75`.

  Not proved (stated): `sv_decoded_roundtrip_exact_float_statement` ⟹ `sv_roundtrip_idempotent_float_statement`.
  A proof needs a *uniqueness* side of the rounding theory that Lemmas/FloatErr*.lean do not have yet: "a double `y`
  with `|V − toRat y| < ½ ulp(y)` is `fl(V)`" (today only `Rnd`: the result is within half an ulp of the target grid).
  With it: for `y = fl(c/x)`, `z = fl(c/y)` one shows `|c/z − y| < ½ ulp(y)` by comparing the relative half-ulps of `y`
  and `z` (their mantissas multiply to `c · 2^k`): where `z` has the larger mantissa this is first-order; where it has the
  smaller one, one uses instead that `x` itself lies in the rounding interval `c / [y ± ½ ulp]`, whose width is then
  below one ulp of `z`, so `z` — the double nearest to `c/y` — lies in it as well, up to a second-order window of relative
  width `≈ 2⁻⁵³` around mantissa ratio 1 (`1.25 · 2^k`, `√50 · 2^k`) which needs an integrality argument
  (`c·2^j − y(2m+1)` is a non-zero integer). The brute-force windows around exactly these points found nothing.

  The timeline: given the exactness statement, every value of a DECODED collection satisfies `SvInverse`
  (`svInverse_iff_float`), so `TimelineHyps` holds for it as in exact arithmetic; what then still blocks `timing_rt` on
  `Float` is only its use of `EpsLaws` / `GroupLaws` (`|a − b| < ε ↔ a = b`, refuted in Props/IeeeFalse.lean) to decide
  the redundancy tests. Since encoder and decoder would see bit-identical values, the proof skeleton survives with
  "the test gives the same answer on both sides" in place of "the test is equality" — a restructuring of
  Lemmas/RtTimeline{Step,Groups,Main}.lean, not cheap. For collections that are not decoded (values off the image of
  `x ↦ fl(100/x)`) the conclusion must be weakened by an additive `EPSILON`: `sv_redundancy_flips_float`.
-/

end Rosu.C02
