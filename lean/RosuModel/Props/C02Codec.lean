/-
  Props/C02Codec.lean — C02, the number codec: the codec laws that the law-dependent round-trip theorems of
  Props/C02.lean (and C03, C04) take as hypotheses are THEOREMS for the number codec the model's driver runs
  (Model/FloatCodec.lean: `printBits` = Rust's `Display`, `parseBits` = Rust's `FromStr`, on IEEE bit patterns with
  exact `Nat`/`Int` arithmetic). Proofs in Lemmas/FloatCodecLaws{Text,Pow,Round,Interval,Shortest,Rt,Inst}.lean;
  this file re-exports the headline statements in namespace `Rosu.C02` and instantiates the section theorems.

  * `parseBits_printBits_f64`, `parseBits_printBits_f32`: `parseBits (printBits b) = some b` for every non-NaN
    bit pattern (both signs, zeros, infinities, subnormals, normals) — no hypothesis;
  * `printBits_clean`, `printBits_ne_nil`: printed numbers are non-empty and made of number characters — no hypothesis;
  * the ingredients: `parseDecimal_renderDecimal`, `roundRat_of_inInterval`, `shortestDigits_inInterval`; and the full
    specification of the decimal → binary rounding, `roundRat_spec` (nearest, ties to even, underflow to 0, overflow to
    infinity) with `roundRat_eq_iff` (`roundRat f num den = b ↔ num/den ∈ rounding interval of b`);
  * `codecLaws_float`, `codecLaws_float32`: `CodecLaws` for the driver's `Float` / `Float32` instances on the non-NaN
    values, from ONE hypothesis each about Lean's opaque runtime floats (`FloatBitsLaw`: `ofBits (toBits x) = x` and
    `toBits x` is not a NaN pattern, for non-NaN `x`), which the kernel cannot see through;
  * `editor_block_roundtrip_ieee`, `difficulty_block_roundtrip_ieee`, `events_block_roundtrip_ieee`: the section round
    trips for the IEEE instances under that hypothesis only.
  * `printBits_intBits_f64`: every integer `z` with `|z| < 2^53` prints as `intDigits z` (bit level, no hypothesis:
    `intBits fmt64 z` is the pattern `roundRat`/`parseBits` assigns to `z`); `intPrintLaw_float`: `IntPrintLaw Float`
    from the runtime hypothesis `FloatOfIntLaw` (`Float.ofInt z` has that pattern on the `i32` range);
    `general_block_roundtrip_ieee`.
  Still hypotheses for the IEEE instance: every arithmetic inverse (Props/C02.lean). That Rust's own `Display`/`FromStr` agree with `printBits`/`parseBits` is tested
  (lib/codecgen.py), not proved.
-/
import RosuModel.Props.C02
import RosuModel.Lemmas.FloatCodecLawsInst
import RosuModel.Lemmas.FloatCodecLawsSpec
namespace Rosu.C02
open Rosu Encode EncodeLines C11 FCL

/-- **`f64`: parse ∘ print = id on every non-NaN bit pattern.** -/
theorem parseBits_printBits_f64 (b : Nat) (h1 : b % 2 ^ 63 ≤ 0x7FF0000000000000) (h2 : b < 2 ^ 64) :
    parseBits fmt64 (printBits fmt64 b) = some b := FCL.parseBits_printBits_f64 b h1 h2

/-- **`f32`: parse ∘ print = id on every non-NaN bit pattern.** -/
theorem parseBits_printBits_f32 (b : Nat) (h1 : b % 2 ^ 31 ≤ 0x7F800000) (h2 : b < 2 ^ 32) :
    parseBits fmt32 (printBits fmt32 b) = some b := FCL.parseBits_printBits_f32 b h1 h2

/-- the same for any format with `p ≥ 2`, `ebits ≥ 2` whose range fits the ±400 decimal-exponent guard. -/
theorem parseBits_printBits (f : FloatFmt) (hok : FmtOK f) (b : Nat) (h1 : b % f.signBit ≤ f.infBits)
    (h2 : b < 2 * f.signBit) : parseBits f (printBits f b) = some b := FCL.parseBits_printBits f hok b h1 h2

theorem printBits_clean (f : FloatFmt) (b : Nat) : ∀ c ∈ printBits f b, numChar c = true := FCL.printBits_clean f b
theorem printBits_ne_nil (f : FloatFmt) (b : Nat) : printBits f b ≠ [] := FCL.printBits_ne_nil f b

/-- text side: the positional rendering of `d · 10^k` parses to the same rational. -/
theorem parseDecimal_renderDecimal (d : Nat) (k : Int) (hd : 0 < d) :
    ∃ m' e', parseDecimal (renderDecimal d k) = some (m', e') ∧ 0 < m' ∧
      m' * 10 ^ e'.toNat * 10 ^ (-k).toNat = d * 10 ^ k.toNat * 10 ^ (-e').toNat :=
  FCL.parseDecimal_renderDecimal d k hd

/-- decimal → binary: anything inside the rounding interval of a finite positive pattern is rounded to it. -/
theorem roundRat_of_inInterval (f : FloatFmt) (hp : 2 ≤ f.p) (b : Nat) (hb0 : 0 < b) (hbi : b < f.infBits)
    (num den : Nat) (hnum : 0 < num) (hden : 0 < den) (h : InIv f b num den) : roundRat f num den = b :=
  FCL.roundRat_of_inInterval f hp b hb0 hbi num den hnum hden h

/-- **correct rounding** of a positive fraction: 0 (at most half the smallest subnormal), or a finite pattern whose
rounding interval contains the fraction, or infinity (at least the midpoint above the largest finite value). -/
theorem roundRat_spec (f : FloatFmt) (hp : 2 ≤ f.p) (he2 : 2 ≤ f.ebits) (num den : Nat) (hnum : 0 < num) (hden : 0 < den) :
    (roundRat f num den = 0 ∧ GeS num den 1 (f.eminSub - 1)) ∨
    (0 < roundRat f num den ∧ roundRat f num den < f.infBits ∧ InIv f (roundRat f num den) num den) ∨
    (roundRat f num den = f.infBits ∧ LeS (2 ^ (f.p + 1) - 1) (emaxE f - 1) num den) :=
  FCL.roundRat_spec f hp he2 num den hnum hden

theorem roundRat_eq_iff (f : FloatFmt) (hp : 2 ≤ f.p) (he2 : 2 ≤ f.ebits) (b : Nat) (hb0 : 0 < b) (hbi : b < f.infBits)
    (num den : Nat) (hnum : 0 < num) (hden : 0 < den) : roundRat f num den = b ↔ InIv f b num den :=
  FCL.roundRat_eq_iff f hp he2 b hb0 hbi num den hnum hden

/-- binary → decimal: the digits chosen denote a value inside the rounding interval. -/
theorem shortestDigits_inInterval (f : FloatFmt) (hp : 1 ≤ f.p) (b : Nat) (hb0 : 0 < b) :
    InIv f b ((shortestDigits f b).1 * 10 ^ (shortestDigits f b).2.toNat) (10 ^ (-(shortestDigits f b).2).toNat) :=
  FCL.shortestDigits_inInterval f hp b hb0

/-- **the codec laws for the driver's `Float`**, from the bit-cast hypothesis alone. -/
theorem codecLaws_float (h : FloatBitsLaw) : CodecLaws Float (fun x => x.isNaN = false) := FCL.codecLaws_float h

/-- **the codec laws for the driver's `Float32`**, from the bit-cast hypothesis alone. -/
theorem codecLaws_float32 (h : Float32BitsLaw) : CodecLaws Float32 (fun x => x.isNaN = false) := FCL.codecLaws_float32 h

/-! ### the section round trips for the IEEE instances -/

theorem editor_block_roundtrip_ieee (h : FloatBitsLaw) (e : Editor Float)
    (he : RtEditor.RepEditor (fun x : Float => x.isNaN = false) e) :
    Accepts parseEditor (Editor.default : Editor Float) (RtEditor.decodedLines e) ∧
    runSection parseEditor Editor.default (RtEditor.decodedLines e) = e :=
  editor_block_roundtrip (codecLaws_float h) e he

theorem difficulty_block_roundtrip_ieee (h : FloatBitsLaw) (h' : Float32BitsLaw) (d : Difficulty Float Float32)
    (hd : RtDifficulty.RepDifficulty (fun x : Float => x.isNaN = false) (fun x : Float32 => x.isNaN = false) d) :
    Accepts parseDifficulty (DifficultyState.create : DifficultyState Float Float32) (RtDifficulty.decodedLines d) ∧
    (runSection parseDifficulty (DifficultyState.create : DifficultyState Float Float32)
      (RtDifficulty.decodedLines d)).difficulty = d :=
  difficulty_block_roundtrip (codecLaws_float h) (codecLaws_float32 h') d hd

/-- **integers print like integers** (`f64`, `|z| < 2^53`), at the bit level. -/
theorem printBits_intBits_f64 (z : Int) (hz : z.natAbs < 2 ^ 53) : printBits fmt64 (intBits fmt64 z) = intDigits z :=
  FCL.printBits_intBits_f64 z hz

/-- an integer-valued finite pattern prints as that integer (any format with `p ≤ 57`). -/
theorem printBits_of_int_value (f : FloatFmt) (hp : 1 ≤ f.p) (hp' : f.p ≤ 57) (b n : Nat) (hb0 : 0 < b)
    (hbi : b < f.infBits) (h : IntPattern f b n) :
    printBits f b = decDigits n ∧ printBits f (f.signBit + b) = '-' :: decDigits n :=
  FCL.printBits_of_int_value f hp hp' b n hb0 hbi h

/-- **`IntPrintLaw` for the driver's `Float`**, from the `ofInt` hypothesis alone. -/
theorem intPrintLaw_float (h : FloatOfIntLaw) : IntPrintLaw Float := FCL.intPrintLaw_float h

theorem general_block_roundtrip_ieee (hi : FloatOfIntLaw) (h' : Float32BitsLaw) (g : GeneralState Float Float32)
    (ss : SampleBank) (hg : RtGeneral.RepGeneral (fun x : Float32 => x.isNaN = false) g) :
    Accepts RtGeneral.generalStep (GeneralState.default : GeneralState Float Float32) (RtGeneral.decodedLines g ss) ∧
    runSection RtGeneral.generalStep (GeneralState.default : GeneralState Float Float32) (RtGeneral.decodedLines g ss) =
      RtGeneral.preservedGeneral g ss :=
  general_block_roundtrip (intPrintLaw_float hi) (codecLaws_float32 h') g ss hg

theorem events_block_roundtrip_ieee (h : FloatBitsLaw) (e : Events Float)
    (he : RtEvents.RepEvents (fun x : Float => x.isNaN = false) e) :
    Accepts parseEvents (Events.default : Events Float) (RtEvents.decodedLines e) ∧
    runSection parseEvents (Events.default : Events Float) (RtEvents.decodedLines e) = e :=
  events_block_roundtrip (codecLaws_float h) e he

end Rosu.C02
