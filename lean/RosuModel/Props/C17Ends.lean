/-
  Props/C17Ends.lean — C17, end points of whole segments (DESIGN.md 5.17).

  * structural (every arithmetic, hence the IEEE instance): `bezier_first_point` / `bezier_last_point` (through the
    adaptive subdivision, any fuel on which it succeeds, any scratch contents), `linear_first_point`,
    `catmullSimplify_head` / `catmullSimplify_last` (the osu!-mode simplification keeps both ends),
    `joint_vertex_once` (a joint vertex pushed identically by two consecutive segments is stored once).
  * exact arithmetic (hypothesis `ExactScalar φ`, Lemmas/ExactArith.lean; satisfiable: `exactScalar_rat`):
    `catmull_first_point`, `catmull_last_point` (the cubic at `t = 0` / `t = 1`).
-/
import RosuModel.Props.C17
import RosuModel.Lemmas.BezierEnds
import RosuModel.Lemmas.ExactArith
set_option linter.unusedSectionVars false
namespace Rosu.C17
open Rosu Rosu.Curve

variable {P F : Type} [Scalar P] [Scalar F] [Cvt P F]

/-! ### Bezier: structural -/

/-- **`bezier_first_point`**: whatever the adaptive subdivision does, the first point `approximate_bezier` pushes is
the segment's first control point — the value itself, for every arithmetic (de Casteljau's left half starts at `p0`
exactly; no law such as `(a + a)/2 = a` is used). -/
theorem bezier_first_point (fuel : Nat) (pts out : List (Pos P)) (b b' : BezierBuffers P)
    (h : approximateBezier fuel pts b = .ok (out, b')) : out.head? = pts.head? ∧ pts ≠ [] :=
  approximateBspline_head fuel pts out _ b' h

/-- **`bezier_last_point`**: before any length adjustment the flattening ends with the last control point. -/
theorem bezier_last_point (fuel : Nat) (pts out : List (Pos P)) (b b' : BezierBuffers P)
    (h : approximateBezier fuel pts b = .ok (out, b')) : out.getLast? = pts.getLast? := by
  unfold approximateBezier approximateBspline at h
  simp only [] at h
  obtain ⟨r1, _, h⟩ := Outcome.bind_eq_ok h
  obtain ⟨u, hu, h⟩ := Outcome.bind_eq_ok h
  obtain ⟨last, hlast, h⟩ := Outcome.bind_eq_ok h
  simp only [Outcome.pure_eq_ok] at h
  cases h
  obtain ⟨_, eu⟩ := usub_ok hu
  subst eu
  rw [getI_ok_iff] at hlast
  rw [List.getLast?_concat, List.getLast?_eq_getElem?, hlast]

/-- the de Casteljau halves keep the end points exactly (`subdivide_is_de_casteljau`, end-point part). -/
theorem subdivide_keeps_ends (pts l r mid l2 r2 m2 : List (Pos P))
    (h : bezierSubdivide pts l r mid = .ok (l2, r2, m2)) :
    l2[0]? = pts[0]? ∧ r2[pts.length - 1]? = pts[pts.length - 1]? :=
  (bezierSubdivide_ends pts l r mid l2 r2 m2 h).2

/-! ### linear -/

section WithTrig
variable [Trig F] [Trig P]

theorem linear_first_point (fuel : Nat) (mode : GameMode) (seg out : List (Pos P)) (o o' : F)
    (b b' : BezierBuffers P) (h : calculateSubpath fuel mode seg .linear o b = .ok (out, o', b')) :
    out.head? = seg.head? ∧ out.getLast? = seg.getLast? := by
  rw [linear_identity] at h
  cases h
  exact ⟨rfl, rfl⟩

end WithTrig

/-! ### the osu!-mode Catmull simplification keeps both ends (structural) -/

theorem simplifyStep_out (n : Nat) (st : SimpState P F) (i : Nat) (prev curr : Pos P) :
    ∃ ext, (simplifyStep n st i prev curr).out = st.out ++ ext := by
  unfold simplifyStep
  split
  · exact ⟨[curr], rfl⟩
  · simp only []
    split
    · exact ⟨[curr], rfl⟩
    · exact ⟨[], by simp⟩

theorem simplifyLoop_out (n : Nat) : ∀ (rest : List (Pos P)) (st : SimpState P F) (i : Nat) (prev : Pos P),
    ∃ ext, (simplifyLoop n st i prev rest).out = st.out ++ ext := by
  intro rest
  induction rest with
  | nil => intro st i prev; exact ⟨[], by simp [simplifyLoop]⟩
  | cons c rest ih =>
    intro st i prev
    obtain ⟨e1, h1⟩ := simplifyStep_out n st i prev c
    obtain ⟨e2, h2⟩ := ih (simplifyStep n st i prev c) (i + 1) c
    exact ⟨e1 ++ e2, by simp only [simplifyLoop]; rw [h2, h1, List.append_assoc]⟩

/-- the first point of the sub-path is always kept. -/
theorem catmullSimplify_head (sub : List (Pos P)) (o : F) :
    (catmullSimplify sub o).1.head? = sub.head? := by
  unfold catmullSimplify
  cases sub with
  | nil => rfl
  | cons c rest =>
    simp only [simplifyLoop]
    obtain ⟨ext, h⟩ := simplifyLoop_out (c :: rest).length rest
      (simplifyStep (c :: rest).length
        ({ out := [], lastStart := none, lenRemoved := 0, optLen := o } : SimpState P F) 0 Pos.zero c) 1 c
    rw [h]
    rfl

theorem simplifyStep_last_kept (n : Nat) (st : SimpState P F) (prev curr : Pos P) :
    (simplifyStep n st (n - 1) prev curr).out.getLast? = some curr := by
  unfold simplifyStep
  split
  · simp
  · simp

theorem simplifyLoop_last (n : Nat) : ∀ (rest : List (Pos P)) (st : SimpState P F) (i : Nat) (prev : Pos P),
    rest ≠ [] → i + rest.length = n → (simplifyLoop n st i prev rest).out.getLast? = rest.getLast? := by
  intro rest
  induction rest with
  | nil => intro st i prev h; exact absurd rfl h
  | cons c rest ih =>
    intro st i prev _ hi
    simp only [simplifyLoop]
    cases rest with
    | nil =>
      simp only [simplifyLoop, List.getLast?_singleton]
      have : i = n - 1 := by simp at hi; omega
      subst this
      exact simplifyStep_last_kept n st prev c
    | cons d rest' =>
      rw [ih _ _ _ (by simp) (by simp at hi ⊢; omega), List.getLast?_cons_cons]

/-- the last point of the sub-path is always kept (`i == sub_path.len() - 1`). -/
theorem catmullSimplify_last (sub : List (Pos P)) (o : F) :
    (catmullSimplify sub o).1.getLast? = sub.getLast? := by
  unfold catmullSimplify
  cases sub with
  | nil => rfl
  | cons c rest => exact simplifyLoop_last _ _ _ _ _ (by simp) (by simp)

/-! ### joints -/

section WithTrig
variable [Trig F] [Trig P]

/-- **`joint_vertex_once`**: when the path so far ends with `v` and the next segment (two or more control points)
pushes `v' :: rest` with `v == v'`, the body of the segment loop stores `… v, rest` — the joint vertex once. -/
theorem joint_vertex_once (fuel : Nat) (mode : GameMode) (points : List (PathControlPoint P))
    (vertices : List (Pos P)) (st : SegState P F) (i : Nat) (pt sp : PathControlPoint P) (seg : List (Pos P))
    (pre rest : List (Pos P)) (v v' : Pos P) (o : F) (bz : BezierBuffers P)
    (hpt : getI points i = .ok pt)
    (hrun : (pt.pathType.isNone && decide (i < points.length - 1)) = false)
    (hseg : sliceIncl vertices st.start i = .ok seg) (h2 : 2 ≤ seg.length)
    (hsp : getI points st.start = .ok sp)
    (hsub : calculateSubpath fuel mode seg
      (match sp.pathType with | none => SplineType.linear | some t => t.kind) st.optLen st.bezier
        = .ok (v' :: rest, o, bz))
    (hpath : st.path = pre ++ [v]) (heq : Pos.eq v v' = true) :
    segBody fuel mode points vertices st i =
      .ok { path := pre ++ [v] ++ rest, optLen := o, bezier := bz, start := i } := by
  unfold segBody
  simp only [hpt, Outcome.ok_bind, hrun, Bool.false_eq_true, if_false, hseg]
  match seg, h2 with
  | a :: b :: t, _ =>
    simp only [hsp, Outcome.ok_bind, hpath]
    cases hty : sp.pathType <;> simp only [hty] at hsub ⊢ <;> rw [hsub] <;>
      simp only [Outcome.ok_bind] <;> rw [joint_dedup pre v v' rest] <;> simp [heq]

/-- … and when they differ (or a coordinate is NaN) both are kept. -/
theorem joint_vertex_kept_when_different (fuel : Nat) (mode : GameMode) (points : List (PathControlPoint P))
    (vertices : List (Pos P)) (st : SegState P F) (i : Nat) (pt sp : PathControlPoint P) (seg : List (Pos P))
    (pre rest : List (Pos P)) (v v' : Pos P) (o : F) (bz : BezierBuffers P)
    (hpt : getI points i = .ok pt)
    (hrun : (pt.pathType.isNone && decide (i < points.length - 1)) = false)
    (hseg : sliceIncl vertices st.start i = .ok seg) (h2 : 2 ≤ seg.length)
    (hsp : getI points st.start = .ok sp)
    (hsub : calculateSubpath fuel mode seg
      (match sp.pathType with | none => SplineType.linear | some t => t.kind) st.optLen st.bezier
        = .ok (v' :: rest, o, bz))
    (hpath : st.path = pre ++ [v]) (heq : Pos.eq v v' = false) :
    segBody fuel mode points vertices st i =
      .ok { path := pre ++ [v] ++ v' :: rest, optLen := o, bezier := bz, start := i } := by
  unfold segBody
  simp only [hpt, Outcome.ok_bind, hrun, Bool.false_eq_true, if_false, hseg]
  match seg, h2 with
  | a :: b :: t, _ =>
    simp only [hsp, Outcome.ok_bind, hpath]
    cases hty : sp.pathType <;> simp only [hty] at hsub ⊢ <;> rw [hsub] <;>
      simp only [Outcome.ok_bind] <;> rw [joint_dedup pre v v' rest] <;> simp [heq]

end WithTrig

/-! ### Catmull: the cubic at `t = 0` and `t = 1` (exact arithmetic) -/

section Exact
variable {K : Type} [Field K] [LinearOrder K] [IsStrictOrderedRing K] {φ : P → K}

theorem catmullPoint_zero (E : ExactScalar φ) (x1 x2 x3 x4 y1 y2 y3 y4 : P) (vx vy : P)
    (hx : x1 = (2 : P) * vx) (hy : y1 = (2 : P) * vy) :
    catmullPoint x1 x2 x3 x4 y1 y2 y3 y4 ((Scalar.ofNat 0 : P) / Scalar.ofNat 50) = ⟨vx, vy⟩ := by
  unfold catmullPoint
  apply Pos.ext' <;> apply E.inj <;>
    simp only [E.mul, E.add, E.div, E.ofNat, E.sci, E.lit, hx, hy] <;> norm_num <;> ring

/-- the first point `catmull_subpath(v1, v2, v3, v4)` emits is `v2`. -/
theorem catmullSubpath_head (E : ExactScalar φ) (v1 v2 v3 v4 : Pos P) :
    (catmullSubpath v1 v2 v3 v4).head? = some v2 := by
  unfold catmullSubpath
  simp only []
  rw [show (50 : Nat) = 49 + 1 from rfl, List.range_succ_eq_map, List.flatMap_cons]
  simp only [List.cons_append, List.head?_cons]
  rw [catmullPoint_zero E _ _ _ _ _ _ _ _ v2.x v2.y rfl rfl]

theorem catmullPoint_one (E : ExactScalar φ) (v1 v2 v3 v4 : Pos P) :
    catmullPoint ((2 : P) * v2.x) ((-v1.x) + v3.x)
      ((2 : P) * v1.x - (5 : P) * v2.x + (4 : P) * v3.x - v4.x) ((-v1.x) + (3 : P) * (v2.x - v3.x) + v4.x)
      ((2 : P) * v2.y) ((-v1.y) + v3.y)
      ((2 : P) * v1.y - (5 : P) * v2.y + (4 : P) * v3.y - v4.y) ((-v1.y) + (3 : P) * (v2.y - v3.y) + v4.y)
      (((Scalar.ofNat 49 : P) + (1 : P)) / Scalar.ofNat 50) = v3 := by
  unfold catmullPoint
  apply Pos.ext' <;> apply E.inj <;>
    simp only [E.mul, E.add, E.sub, E.neg, E.div, E.ofNat, E.sci, E.lit] <;> norm_num <;> ring

/-- the last point `catmull_subpath(v1, v2, v3, v4)` emits is `v3`. -/
theorem catmullSubpath_last (E : ExactScalar φ) (v1 v2 v3 v4 : Pos P) :
    (catmullSubpath v1 v2 v3 v4).getLast? = some v3 := by
  unfold catmullSubpath
  simp only []
  rw [show (50 : Nat) = 49 + 1 from rfl, List.range_succ, List.flatMap_append]
  simp only [List.flatMap_cons, List.flatMap_nil, List.append_nil]
  rw [List.getLast?_append]
  simp only [List.getLast?_cons_cons, List.getLast?_singleton, Option.some_or]
  rw [catmullPoint_one E]

theorem catmullSubpath_ne_nil (v1 v2 v3 v4 : Pos P) : catmullSubpath v1 v2 v3 v4 ≠ [] := by
  unfold catmullSubpath
  simp only []
  rw [show (50 : Nat) = 49 + 1 from rfl, List.range_succ_eq_map, List.flatMap_cons]
  simp

/-- **`catmull_first_point`** (exact arithmetic): the first point `approximate_catmull` emits for a segment with two
or more control points is the first control point. (A one-point segment emits nothing; `calculate_path` pushes such a
vertex itself.) -/
theorem catmull_first_point (E : ExactScalar φ) (pts out : List (Pos P)) (h2 : 2 ≤ pts.length)
    (h : approximateCatmull pts = .ok out) : out.head? = pts.head? := by
  unfold approximateCatmull at h
  rw [if_neg (by omega)] at h
  obtain ⟨_, _, h⟩ := Outcome.bind_eq_ok h
  obtain ⟨v1, hv1, h⟩ := Outcome.bind_eq_ok h
  simp only [Outcome.pure_eq_ok] at h
  cases h
  rw [List.head?_append, catmullSubpath_head E, Option.some_or]
  rw [getI_ok_iff] at hv1
  rw [← hv1, List.head?_eq_getElem?]

theorem catmullRest_last (E : ExactScalar φ) (pts : List (Pos P)) :
    ∀ (L : List (Nat × (Pos P × Pos P))) (i : Nat) (w : Pos P × Pos P) (v3 : Pos P),
      L.getLast? = some (i, w) → pts[i]? = some v3 → (catmullRest pts L).getLast? = some v3 := by
  intro L
  induction L with
  | nil => intro i w v3 h; simp at h
  | cons e L ih =>
    intro i w v3 hl hv
    obtain ⟨j, u1, u2⟩ := e
    cases L with
    | nil =>
      simp only [List.getLast?_singleton, Option.some.injEq, Prod.mk.injEq] at hl
      obtain ⟨rfl, _⟩ := hl
      simp only [catmullRest, List.append_nil, hv]
      exact catmullSubpath_last E _ _ _ _
    | cons e' L' =>
      rw [List.getLast?_cons_cons] at hl
      have := ih i w v3 hl hv
      simp only [catmullRest] at this ⊢
      rw [List.getLast?_append, this]
      rfl

/-- **`catmull_last_point`** (exact arithmetic): the last point `approximate_catmull` emits is the last control
point. -/
theorem catmull_last_point (E : ExactScalar φ) (pts out : List (Pos P)) (h2 : 2 ≤ pts.length)
    (h : approximateCatmull pts = .ok out) : out.getLast? = pts.getLast? := by
  unfold approximateCatmull at h
  rw [if_neg (by omega)] at h
  obtain ⟨_, _, h⟩ := Outcome.bind_eq_ok h
  obtain ⟨v1, hv1, h⟩ := Outcome.bind_eq_ok h
  simp only [Outcome.pure_eq_ok] at h
  cases h
  rcases Nat.lt_or_ge 2 pts.length with h3 | h3
  · -- three or more points: the last remaining iteration has `v3 = points[len - 1]`
    have hlast : pts[pts.length - 1]? = some (pts[pts.length - 1]'(by omega)) :=
      List.getElem?_eq_getElem (by omega)
    rw [List.getLast?_append]
    have hzl : ((List.range' 2 (pts.length - 2)).zip (pts.zip (pts.drop 1))).length = pts.length - 2 := by
      simp; omega
    have hne : ((List.range' 2 (pts.length - 2)).zip (pts.zip (pts.drop 1))) ≠ [] := by
      intro h0; rw [h0] at hzl; simp at hzl; omega
    obtain ⟨e, he⟩ : ∃ e, ((List.range' 2 (pts.length - 2)).zip (pts.zip (pts.drop 1))).getLast? = some e := by
      cases hh : ((List.range' 2 (pts.length - 2)).zip (pts.zip (pts.drop 1))).getLast? with
      | none => rw [List.getLast?_eq_none_iff] at hh; exact absurd hh hne
      | some e => exact ⟨e, rfl⟩
    obtain ⟨i, w⟩ := e
    have hi : i = pts.length - 1 := by
      rw [List.getLast?_eq_getElem?, hzl, List.getElem?_zip_eq_some] at he
      have h1 := he.1
      rw [List.getElem?_range' (by omega)] at h1
      simp only [Option.some.injEq] at h1
      omega
    subst hi
    rw [catmullRest_last E pts _ _ w _ he hlast]
    simp only [Option.some_or]
    rw [List.getLast?_eq_getElem?, hlast]
  · -- exactly two points: only the first sub-path, `v3 = points[1]`
    have hl : pts.length = 2 := by omega
    match pts, hl with
    | [a, b], _ =>
      show (catmullSubpath v1 v1 b (extrapolate b v1) ++ []).getLast? = some b
      rw [List.append_nil, catmullSubpath_last E]

/-- the laws are satisfiable, and the theorem applies to a concrete non-trivial segment over `Rat`. -/
example : (approximateCatmull [(⟨0, 0⟩ : Pos Rat), ⟨3, 4⟩, ⟨10, -2⟩]).map (·.head?) =
    .ok (some (⟨0, 0⟩ : Pos Rat)) := by
  have h : ∃ out, approximateCatmull [(⟨0, 0⟩ : Pos Rat), ⟨3, 4⟩, ⟨10, -2⟩] = .ok out := ⟨_, rfl⟩
  obtain ⟨out, ho⟩ := h
  rw [ho]
  show Except.ok out.head? = _
  rw [catmull_first_point exactScalar_rat _ out (by decide) ho]
  rfl

end Exact

end Rosu.C17
