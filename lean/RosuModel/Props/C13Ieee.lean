/-
  Props/C13Ieee.lean — C13 as worded, for the scalar the driver runs (`Float`, IEEE binary64), without runtime hypotheses.
  Props/C13Exact.lean proves the worded property from `TimeKeyOn S` ("on `S` the `total_cmp` key order is the time order") and
  could only instantiate it on toy scalars because the design assumed `Float` opaque. In Lean 4.33 `Float.lt`, `Float.beq`,
  `Float.le`, `Float.isNaN`, `Float.toBits` unfold to the logical model; Lemmas/FloatModelOrder.lean shows that the model's
  comparison is the comparison of signed magnitudes of the bit patterns. Hence:
  * `float_key_lt_iff`, `float_key_eq_iff`, `float_key_le_iff`: on non-NaN `Float`s the key comparisons are the IEEE comparisons,
    except on the pair of zeros (`−0` has key −1, `+0` has key 0, and they are IEEE-equal);
  * `timeKeyOn_float_iff`: `TimeKeyOn S ↔ S contains no NaN and not both zeros` — the exact boundary announced in
    Props/C13Exact.lean; `timeKeyOn_float` (no NaN, no `−0`), `timeKeyOn_float_no_poszero` (no NaN, no `+0`),
    `timeKeyOn_float_both_zeros_false`;
  * the headline theorems of Props/C13Exact.lean and `C12.lists_strictly_sorted_time` at `Float` with `S` = non-NaN and not `−0`,
    named `<original>_float`; and F8 at `Float` itself, evaluated by the kernel.
-/
import RosuModel.Props.C13Exact
import RosuModel.Props.C12Exact
import RosuModel.Model.FloatInst
import RosuModel.Lemmas.FloatModelOrder
set_option linter.unusedSectionVars false
namespace Rosu.C13
open Rosu

/-! ## the scalar's comparisons are the model's -/

theorem scalar_lt_float (x y : Float) : Scalar.lt x y = Float.lt x y := by
  show decide (Float.lt x y = true) = Float.lt x y
  exact Bool.decide_eq_true
theorem scalar_le_float (x y : Float) : Scalar.le x y = Float.le x y := by
  show decide (Float.le x y = true) = Float.le x y
  exact Bool.decide_eq_true
theorem scalar_eq_float (x y : Float) : Scalar.eq x y = Float.beq x y := rfl
theorem scalar_isNaN_float (x : Float) : Scalar.isNaN x = Float.isNaN x := rfl
theorem scalar_key_float (x : Float) : Scalar.totalKey x = f64TotalKey x := rfl

/-- the key against the signed magnitude: equal for sign bit 0, one less for sign bit 1. -/
theorem key_fval (x : Float) :
    (x.toBits.toNat < 2 ^ 63 ∧ f64TotalKey x = FM.fval x ∧ 0 ≤ FM.fval x) ∨
    (2 ^ 63 ≤ x.toBits.toNat ∧ f64TotalKey x = FM.fval x - 1 ∧ FM.fval x ≤ 0 ∧
      (FM.fval x = 0 ↔ x.toBits.toNat = 2 ^ 63)) := by
  unfold f64TotalKey FM.fval FM.sval FM.signOf
  have := x.toBits.toNat_lt
  simp only [Nat.reducePow] at *
  by_cases h : x.toBits.toNat < 9223372036854775808
  · left
    rw [if_pos h, if_pos (by omega)]
    simp only [Float.Model.UnpackedFloat.Sign.apply]
    omega
  · right
    rw [if_neg h, if_neg (by omega)]
    simp only [Float.Model.UnpackedFloat.Sign.apply]
    omega

theorem negzero_iff (x : Float) : x.toBits = 0x8000000000000000 ↔ x.toBits.toNat = 2 ^ 63 := by
  rw [← UInt64.toNat_inj]; rfl
theorem poszero_iff (x : Float) : x.toBits = 0 ↔ x.toBits.toNat = 0 := by
  rw [← UInt64.toNat_inj]; rfl

/-- `+0` in key terms. -/
theorem fval_zero_pos (x : Float) (h : x.toBits.toNat < 2 ^ 63) : FM.fval x = 0 ↔ x.toBits.toNat = 0 := by
  unfold FM.fval FM.sval FM.signOf
  simp only [Nat.reducePow] at *
  rw [if_pos (by omega)]
  simp only [Float.Model.UnpackedFloat.Sign.apply]
  omega

/-! ## key order = IEEE order, except on the pair of zeros -/

/-- **`<`**: for non-NaN `x`, `y`, unless `x = −0` and `y = +0` (keys −1 < 0, but `−0 < +0` is false). -/
theorem float_key_lt_iff (x y : Float) (hx : x.isNaN = false) (hy : y.isNaN = false)
    (hz : ¬ (x.toBits = 0x8000000000000000 ∧ y.toBits = 0)) :
    Scalar.totalKey x < Scalar.totalKey y ↔ Scalar.lt x y = true := by
  rw [scalar_lt_float, FM.float_lt_iff x y hx hy, scalar_key_float, scalar_key_float]
  rw [negzero_iff, poszero_iff] at hz
  have hy0 := fval_zero_pos y
  rcases key_fval x with ⟨a1, a2, a3⟩ | ⟨a1, a2, a3, a4⟩ <;> rcases key_fval y with ⟨b1, b2, b3⟩ | ⟨b1, b2, b3, b4⟩ <;>
    omega

/-- **`==`**: for non-NaN `x`, `y`, unless they are the two different zeros. -/
theorem float_key_eq_iff (x y : Float) (hx : x.isNaN = false) (hy : y.isNaN = false)
    (hz : ¬ (x.toBits = 0x8000000000000000 ∧ y.toBits = 0)) (hz' : ¬ (x.toBits = 0 ∧ y.toBits = 0x8000000000000000)) :
    Scalar.totalKey x = Scalar.totalKey y ↔ Scalar.eq x y = true := by
  rw [scalar_eq_float, FM.float_beq_iff x y hx hy, scalar_key_float, scalar_key_float]
  rw [negzero_iff, poszero_iff] at hz hz'
  have hx0 := fval_zero_pos x
  have hy0 := fval_zero_pos y
  rcases key_fval x with ⟨a1, a2, a3⟩ | ⟨a1, a2, a3, a4⟩ <;> rcases key_fval y with ⟨b1, b2, b3⟩ | ⟨b1, b2, b3, b4⟩ <;>
    omega

/-- **`<=`**: for non-NaN `x`, `y`, unless `x = +0` and `y = −0` (keys 0 > −1, but `+0 <= −0`). -/
theorem float_key_le_iff (x y : Float) (hx : x.isNaN = false) (hy : y.isNaN = false)
    (hz : ¬ (x.toBits = 0 ∧ y.toBits = 0x8000000000000000)) :
    Scalar.totalKey x ≤ Scalar.totalKey y ↔ Scalar.le x y = true := by
  rw [scalar_le_float, FM.float_le_iff x y hx hy, scalar_key_float, scalar_key_float]
  rw [negzero_iff, poszero_iff] at hz
  have hx0 := fval_zero_pos x
  rcases key_fval x with ⟨a1, a2, a3⟩ | ⟨a1, a2, a3, a4⟩ <;> rcases key_fval y with ⟨b1, b2, b3⟩ | ⟨b1, b2, b3, b4⟩ <;>
    omega

/-! ## `TimeKeyOn` at `Float`: exactly the sets without NaN and without both zeros -/

/-- `−0.0` and `+0.0`. -/
def negZero : Float := Float.ofBits 0x8000000000000000
def posZero : Float := Float.ofBits 0

theorem eq_negZero (x : Float) (h : x.toBits = 0x8000000000000000) : x = negZero := by
  rw [← FM.float_ofBits_toBits x, h]; rfl
theorem eq_posZero (x : Float) (h : x.toBits = 0) : x = posZero := by
  rw [← FM.float_ofBits_toBits x, h]; rfl

/-- the two zeros are IEEE-equal and have different keys (kernel evaluation of Lean's float model). -/
theorem zeros_eq : Scalar.eq negZero posZero = true := by decide +kernel
theorem key_negZero : Scalar.totalKey negZero = -1 := by decide +kernel
theorem key_posZero : Scalar.totalKey posZero = 0 := by decide +kernel
theorem negZero_not_nan : negZero.isNaN = false := by decide +kernel
theorem posZero_not_nan : posZero.isNaN = false := by decide +kernel

/-- a set of non-NaN `Float`s that does not contain both zeros satisfies `TimeKeyOn`. -/
theorem timeKeyOn_float_of (S : Float → Prop) (hnan : ∀ x, S x → x.isNaN = false)
    (hz : ¬ (S negZero ∧ S posZero)) : TimeKeyOn S where
  lt_iff a b ha hb := float_key_lt_iff a b (hnan a ha) (hnan b hb)
    (fun h => hz ⟨eq_negZero a h.1 ▸ ha, eq_posZero b h.2 ▸ hb⟩)
  eq_iff a b ha hb := float_key_eq_iff a b (hnan a ha) (hnan b hb)
    (fun h => hz ⟨eq_negZero a h.1 ▸ ha, eq_posZero b h.2 ▸ hb⟩)
    (fun h => hz ⟨eq_negZero b h.2 ▸ hb, eq_posZero a h.1 ▸ ha⟩)
  le_iff a b ha hb := float_key_le_iff a b (hnan a ha) (hnan b hb)
    (fun h => hz ⟨eq_negZero b h.2 ▸ hb, eq_posZero a h.1 ▸ ha⟩)

/-- **no set containing both zeros satisfies `TimeKeyOn`** (`−0 == +0` but the keys differ) — F8 at `Float`. -/
theorem timeKeyOn_float_both_zeros_false (S : Float → Prop) (h1 : S negZero) (h2 : S posZero) : ¬ TimeKeyOn S := by
  intro T
  have := (T.eq_iff negZero posZero h1 h2).mpr zeros_eq
  rw [key_negZero, key_posZero] at this
  exact absurd this (by decide)

/-- no set containing a NaN satisfies `TimeKeyOn` (a NaN has a key but is `==` to nothing). -/
theorem timeKeyOn_float_nan_false (S : Float → Prop) (x : Float) (hx : S x) (hn : x.isNaN = true) : ¬ TimeKeyOn S := by
  intro T
  have := (T.eq_iff x x hx hx).mp rfl
  rw [scalar_eq_float, FM.float_beq_nan_left x x hn] at this
  exact absurd this (by decide)

/-- **the exact boundary**: for `f64` with `total_cmp`, `TimeKeyOn S` holds exactly for the sets `S` that contain no NaN
and not both `+0.0` and `−0.0` (the claim of Props/C13Exact.lean, now a theorem about Lean's `Float`). -/
theorem timeKeyOn_float_iff (S : Float → Prop) :
    TimeKeyOn S ↔ (∀ x, S x → x.isNaN = false) ∧ ¬ (S negZero ∧ S posZero) := by
  constructor
  · intro T
    refine ⟨fun x hx => ?_, fun h => timeKeyOn_float_both_zeros_false S h.1 h.2 T⟩
    cases hn : x.isNaN
    · rfl
    · exact absurd T (timeKeyOn_float_nan_false S x hx hn)
  · intro h
    exact timeKeyOn_float_of S h.1 h.2

/-- the times that occur in practice: not NaN and not `−0.0`. -/
def NoNegZero : Float → Prop := fun x => Scalar.isNaN x = false ∧ x.toBits ≠ 0x8000000000000000

/-- the symmetric set: not NaN and not `+0.0`. -/
def NoPosZero : Float → Prop := fun x => Scalar.isNaN x = false ∧ x.toBits ≠ 0

theorem negZero_toBits : negZero.toBits = 0x8000000000000000 := by decide +kernel
theorem posZero_toBits : posZero.toBits = 0 := by decide +kernel

/-- **`TimeKeyOn` for `Float`** on the non-NaN values other than `−0.0`. -/
theorem timeKeyOn_float : TimeKeyOn (fun x : Float => Scalar.isNaN x = false ∧ x.toBits ≠ 0x8000000000000000) :=
  timeKeyOn_float_of _ (fun _ h => h.1) (fun h => h.1.2 negZero_toBits)

/-- **`TimeKeyOn` for `Float`** on the non-NaN values other than `+0.0`. -/
theorem timeKeyOn_float_no_poszero : TimeKeyOn (fun x : Float => Scalar.isNaN x = false ∧ x.toBits ≠ 0) :=
  timeKeyOn_float_of _ (fun _ h => h.1) (fun h => h.2.2 posZero_toBits)

theorem timeKeyOn_noNegZero : TimeKeyOn NoNegZero := timeKeyOn_float
theorem timeKeyOn_noPosZero : TimeKeyOn NoPosZero := timeKeyOn_float_no_poszero

/-- non-vacuity: ordinary times are in both sets. -/
example : NoNegZero (Float.ofBits 0x4059000000000000) ∧ NoPosZero (Float.ofBits 0x4059000000000000) ∧
    NoNegZero posZero ∧ NoPosZero negZero := by
  unfold NoNegZero NoPosZero; decide +kernel

/-! ## the worded property at `Float` (`S` = non-NaN and not `−0.0`) -/

section Collection

/-- **times_strictly_sorted** at `Float`. -/
theorem times_strictly_sorted_float {cp : ControlPoints Float} (h : Reach NoNegZero cp) : TimeSorted cp :=
  times_strictly_sorted timeKeyOn_noNegZero h

theorem adds_time_sorted_float (ops : List (Op Float)) (hops : ∀ op ∈ ops, NoNegZero op.time) :
    TimeSorted (applyOps (ControlPoints.empty : ControlPoints Float) ops) :=
  adds_time_sorted timeKeyOn_noNegZero ops hops

/-- **one_point_per_time** at `Float`. -/
theorem one_point_per_time_float {cp : ControlPoints Float} (h : Reach NoNegZero cp) : OnePerTime cp :=
  one_point_per_time timeKeyOn_noNegZero h

/-- **lookup_time_spec** at `Float`. -/
theorem lookup_time_spec_float {cp : ControlPoints Float} (h : Reach NoNegZero cp) {t : Float} (ht : NoNegZero t) :
    cp.difficultyPointAt t = lastLeTime DifficultyPoint.time t cp.difficultyPoints ∧
    cp.effectPointAt t = lastLeTime EffectPoint.time t cp.effectPoints ∧
    cp.timingPointAt t = orHead (lastLeTime TimingPoint.time t cp.timingPoints) cp.timingPoints ∧
    cp.samplePointAt t = orHead (lastLeTime SamplePoint.time t cp.samplePoints) cp.samplePoints :=
  lookup_time_spec timeKeyOn_noNegZero h ht

theorem before_first_time_float {cp : ControlPoints Float} (h : Reach NoNegZero cp) {t : Float} (ht : NoNegZero t)
    (hT : ∀ p ∈ cp.timingPoints, Scalar.lt t p.time = true)
    (hD : ∀ p ∈ cp.difficultyPoints, Scalar.lt t p.time = true)
    (hE : ∀ p ∈ cp.effectPoints, Scalar.lt t p.time = true)
    (hSa : ∀ p ∈ cp.samplePoints, Scalar.lt t p.time = true) :
    cp.timingPointAt t = cp.timingPoints.head? ∧ cp.samplePointAt t = cp.samplePoints.head? ∧
    cp.difficultyPointAt t = none ∧ cp.effectPointAt t = none :=
  before_first_time timeKeyOn_noNegZero h ht hT hD hE hSa

theorem add_redundant_noop_float {cp : ControlPoints Float} (h : Reach NoNegZero cp) :
    (∀ p : DifficultyPoint Float, NoNegZero p.time → p.isRedundant (activeDifficultyT cp p) = true →
      cp.addDifficulty p = cp) ∧
    (∀ p : EffectPoint Float, NoNegZero p.time → p.isRedundant (activeEffectT cp p) = true → cp.addEffect p = cp) ∧
    (∀ p : SamplePoint Float, NoNegZero p.time → sampleRedundantT cp p = true → cp.addSample p = cp) :=
  add_redundant_noop timeKeyOn_noNegZero h

theorem replace_at_equal_time_T_float {cp : ControlPoints Float} (h : Reach NoNegZero cp) :
    (∀ p : TimingPoint Float, NoNegZero p.time → (∃ q ∈ cp.timingPoints, Scalar.eq q.time p.time = true) →
      (cp.addTiming p).timingPoints =
        cp.timingPoints.map (fun x => if Scalar.eq x.time p.time = true then p else x)) ∧
    (∀ p : DifficultyPoint Float, NoNegZero p.time → (∃ q ∈ cp.difficultyPoints, Scalar.eq q.time p.time = true) →
      p.isRedundant (activeDifficultyT cp p) = false →
      (cp.addDifficulty p).difficultyPoints =
        cp.difficultyPoints.map (fun x => if Scalar.eq x.time p.time = true then p else x)) ∧
    (∀ p : EffectPoint Float, NoNegZero p.time → (∃ q ∈ cp.effectPoints, Scalar.eq q.time p.time = true) →
      p.isRedundant (activeEffectT cp p) = false →
      (cp.addEffect p).effectPoints =
        cp.effectPoints.map (fun x => if Scalar.eq x.time p.time = true then p else x)) ∧
    (∀ p : SamplePoint Float, NoNegZero p.time → (∃ q ∈ cp.samplePoints, Scalar.eq q.time p.time = true) →
      sampleRedundantT cp p = false →
      (cp.addSample p).samplePoints =
        cp.samplePoints.map (fun x => if Scalar.eq x.time p.time = true then p else x)) :=
  replace_at_equal_time_T timeKeyOn_noNegZero h

/-- **the worded property, whole, at `Float`**: for every history of `add`s whose times are not NaN and not `−0.0` and every such
probe time — strictly increasing times, one point per time, lookups by time with their fallbacks, redundant adds are no-ops.
No hypothesis about the arithmetic is left. -/
theorem worded_property_float (ops : List (Op Float)) (hops : ∀ op ∈ ops, NoNegZero op.time) :
    let cp := applyOps (ControlPoints.empty : ControlPoints Float) ops
    TimeSorted cp ∧ OnePerTime cp ∧
    (∀ t : Float, NoNegZero t →
      cp.difficultyPointAt t = lastLeTime DifficultyPoint.time t cp.difficultyPoints ∧
      cp.effectPointAt t = lastLeTime EffectPoint.time t cp.effectPoints ∧
      cp.timingPointAt t = orHead (lastLeTime TimingPoint.time t cp.timingPoints) cp.timingPoints ∧
      cp.samplePointAt t = orHead (lastLeTime SamplePoint.time t cp.samplePoints) cp.samplePoints) ∧
    (∀ p : DifficultyPoint Float, NoNegZero p.time → p.isRedundant (activeDifficultyT cp p) = true →
      cp.addDifficulty p = cp) ∧
    (∀ p : EffectPoint Float, NoNegZero p.time → p.isRedundant (activeEffectT cp p) = true → cp.addEffect p = cp) ∧
    (∀ p : SamplePoint Float, NoNegZero p.time → sampleRedundantT cp p = true → cp.addSample p = cp) :=
  worded_property timeKeyOn_noNegZero ops hops

/-- the same with `+0.0` excluded instead of `−0.0`. -/
theorem worded_property_float_no_poszero (ops : List (Op Float)) (hops : ∀ op ∈ ops, NoPosZero op.time) :
    let cp := applyOps (ControlPoints.empty : ControlPoints Float) ops
    TimeSorted cp ∧ OnePerTime cp ∧
    (∀ t : Float, NoPosZero t →
      cp.difficultyPointAt t = lastLeTime DifficultyPoint.time t cp.difficultyPoints ∧
      cp.effectPointAt t = lastLeTime EffectPoint.time t cp.effectPoints ∧
      cp.timingPointAt t = orHead (lastLeTime TimingPoint.time t cp.timingPoints) cp.timingPoints ∧
      cp.samplePointAt t = orHead (lastLeTime SamplePoint.time t cp.samplePoints) cp.samplePoints) ∧
    (∀ p : DifficultyPoint Float, NoPosZero p.time → p.isRedundant (activeDifficultyT cp p) = true →
      cp.addDifficulty p = cp) ∧
    (∀ p : EffectPoint Float, NoPosZero p.time → p.isRedundant (activeEffectT cp p) = true → cp.addEffect p = cp) ∧
    (∀ p : SamplePoint Float, NoPosZero p.time → sampleRedundantT cp p = true → cp.addSample p = cp) :=
  worded_property timeKeyOn_noPosZero ops hops

/-- and for ANY set of non-NaN times that does not contain both zeros. -/
theorem worded_property_float_of (S : Float → Prop) (hnan : ∀ x, S x → x.isNaN = false) (hz : ¬ (S negZero ∧ S posZero))
    (ops : List (Op Float)) (hops : ∀ op ∈ ops, S op.time) :
    let cp := applyOps (ControlPoints.empty : ControlPoints Float) ops
    TimeSorted cp ∧ OnePerTime cp :=
  let w := worded_property (timeKeyOn_float_of S hnan hz) ops hops
  ⟨w.1, w.2.1⟩

/-- **lists_strictly_sorted_time** (Props/C12Exact.lean §4b) at `Float` / `Float32`: decoding any lines whose accepted times are
not NaN and not `−0.0` gives four lists strictly increasing in TIME with at most one point per time. -/
theorem lists_strictly_sorted_time_float (strs : List Str)
    (hS : ∀ l ∈ C12.acceptedLines (TimingPointsState.create : TimingPointsState Float Float32).general strs,
      NoNegZero l.time) :
    TimeSorted (C12.runStrs (TimingPointsState.create : TimingPointsState Float Float32) strs).finish.2 ∧
    OnePerTime (C12.runStrs (TimingPointsState.create : TimingPointsState Float Float32) strs).finish.2 :=
  C12.lists_strictly_sorted_time timeKeyOn_noNegZero strs hS

end Collection

/-! ## F8 at `Float` itself (kernel evaluation) -/

/-- `add(+0.0); add(−0.0)` stores two timing points whose times are `==` — the worded property fails … -/
theorem f8_float :
    let cp := applyOps (ControlPoints.empty : ControlPoints Float)
      [.timing ⟨posZero, Float.ofBits 0x407F400000000000, false, ⟨4⟩⟩,
       .timing ⟨negZero, Float.ofBits 0x406F400000000000, false, ⟨4⟩⟩]
    cp.timingPoints.length = 2 ∧
    cp.timingPoints.Pairwise (fun a b => Scalar.eq a.time b.time = true) := by decide +kernel

/-- … and the same history with one zero only stores one point (the second replaces the first), as worded. -/
theorem f8_float_one_zero :
    let cp := applyOps (ControlPoints.empty : ControlPoints Float)
      [.timing ⟨posZero, Float.ofBits 0x407F400000000000, false, ⟨4⟩⟩,
       .timing ⟨posZero, Float.ofBits 0x406F400000000000, false, ⟨4⟩⟩]
    cp.timingPoints.map (·.beatLen.toBits) = [0x406F400000000000] := by decide +kernel

end Rosu.C13
