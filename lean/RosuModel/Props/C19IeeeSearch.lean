/-
  Props/C19IeeeSearch.lean — C19 on IEEE floats: what the binary search `idx_of_dist` establishes, and the composition with the
  interpolation error bound of Props/C19IeeeErr.lean, so that the statement is about `interpolate_vertices ∘ idx_of_dist`
  (= `position_at` after `progress_to_dist`) itself.

  Rust (`curve.rs`): `idx_of_dist` = `lengths.binary_search_by(|len| len.partial_cmp(&d).unwrap_or(Equal))` with `Ok`/`Err`
  merged; model `Curve.idxOfDist` (std's probing sequence `bsLoop`, comparison `cmpLen`).

  (1) `Sorted` (weakly increasing in the IEEE `<=`, for `i ≤ j`: the reflexive instance says NaN-free);
      `bsLoop_spec_ieee` (loop invariant), **`idxOfDist_spec_ieee`** (three-way: hit / gap / below, WITHOUT range hypotheses),
      **`idxOfDist_bracket_ieee` / `idxOfDist_bracket_float`** (for `lengths[0] ≤ d ≤ last`), `idxOfDist_below_ieee`,
      `idxOfDist_beyond_ieee`. Only order facts of IEEE comparisons (`FMO.*`) are used, no arithmetic.
      Tie behaviour: the index found is the LAST `k` with `lengths[k] == d` when `d` is hit (all later lengths are `> d`),
      otherwise the first `k` with `d < lengths[k]`; so for `0 < i`: `lengths[i−1] < d < lengths[i]` or `lengths[i] == d`.
  (2) **`positionAt_dist_err_float32`**: for a curve (`path.length = lengths.length`, `Sorted lengths`, `Bounded19` vertices) and
      `lengths[0] <= d <= last`, `interpolate_vertices path lengths (idx_of_dist lengths d) d` is `path[0]` (hit of the first
      length), `path[i−1]` (degenerate segment) or within `interpBound` per coordinate of `p0 + w (p1 − p0)` with the exact
      weight `w = (d − d0)/(d1 − d0) ∈ [0, 1]` of the bracketing segment: the hypotheses `d0 <= d`, `d <= d1`, `hdeg` and the
      index facts of `interpolate_err_float32` are derived from the search. `positionAt_dist_on_polyline_float32`: hence
      within `1/4` px per coordinate of a point of the polyline.
      The four no-overflow conditions (`SegFinite`) REMAIN a hypothesis, restricted to the one non-degenerate bracketing
      segment IN THIS FILE. As recorded here (`segFinite_statement`: `0 <= d0`, finite `d1`, `Bounded19` end points) the
      derivation is FALSE — `Bounded19` does not exclude an infinite coordinate — and with `FinitePos` added it is a theorem:
      Props/C19IeeeFinite.lean (`segFinite_statement_false`, `segFinite_of_bounded`, the `…_nofin` corollaries), on the range
      lemmas of Lemmas/FloatErrRange32.lean.
  (3) **`positionAt_progress_err_float32`**: the same for `position_at path lengths progress` itself, any non-NaN progress,
      `lengths[0] <= 0 <= last`, `last` finite (`d = clamp(progress,0,1)·last ∈ [0, last]`, Props/C19IeeeBound.lean).
  Non-vacuity on the closed curve `(100,200) → (107,224) → (100,200)`, lengths `[0, 25, 50]`, kernel-evaluated.
-/
import RosuModel.Props.C19IeeeErr
import RosuModel.Props.C19Ieee
import RosuModel.Props.C19IeeeBound
namespace Rosu.C19
open Rosu Rosu.Curve Rosu.FErr

/-! ## (1) the binary search, from the order properties of IEEE comparisons -/

section Generic
variable {F : Type} [Scalar F] [FMO.IeeeOrd F]

/-- the cumulative lengths weakly increase in the IEEE order: `lengths[i] <= lengths[j]` for `i ≤ j`. The instance `i = j`
says every entry is a number (`x <= x` is false for a NaN), so `Sorted` = "NaN-free and pairwise `<=`" (`sorted_nan_free`,
`sorted_of_adjacent`). `StrictSorted` (Props/C19.lean) implies it (`sorted_of_strictSorted`). -/
def Sorted (lengths : List F) : Prop :=
  ∀ (i j : Nat) (x y : F), i ≤ j → lengths[i]? = some x → lengths[j]? = some y → Scalar.le x y = true

theorem sorted_nan_free (lengths : List F) (hs : Sorted lengths) (i : Nat) (x : F) (hx : lengths[i]? = some x) :
    Scalar.isNaN x = false :=
  (FMO.not_nan_of_le (hs i i x x (Nat.le_refl _) hx hx)).1

theorem sorted_of_strictSorted (lengths : List F) (hs : StrictSorted lengths)
    (hn : ∀ (i : Nat) (x : F), lengths[i]? = some x → Scalar.isNaN x = false) : Sorted lengths := by
  intro i j x y hij hx hy
  rcases Nat.lt_or_ge i j with h | h
  · exact FMO.le_of_lt _ _ (hs i j x y h hx hy)
  · have : i = j := by omega
    subst this
    rw [hx] at hy; cases hy
    exact FMO.le_refl _ (hn i x hx)

/-- `Sorted` from the adjacent pairs and NaN-freeness. -/
theorem sorted_of_adjacent (lengths : List F) (hn : ∀ (i : Nat) (x : F), lengths[i]? = some x → Scalar.isNaN x = false)
    (ha : ∀ (i : Nat) (x y : F), lengths[i]? = some x → lengths[i + 1]? = some y → Scalar.le x y = true) : Sorted lengths := by
  intro i j x y hij hx hy
  obtain ⟨k, rfl⟩ : ∃ k, j = i + k := ⟨j - i, by omega⟩
  clear hij
  induction k generalizing y with
  | zero =>
    rw [Nat.add_zero, hx] at hy; cases hy
    exact FMO.le_refl _ (hn i x hx)
  | succ n ih =>
    have hlt : i + n < lengths.length := by
      rcases Nat.lt_or_ge (i + n + 1) lengths.length with h | h
      · omega
      · rw [show i + (n + 1) = i + n + 1 by omega, List.getElem?_eq_none h] at hy; cases hy
    have hz : lengths[i + n]? = some lengths[i + n] := List.getElem?_eq_getElem hlt
    exact FMO.le_trans _ _ _ (ih _ hz) (ha (i + n) _ y hz hy)

/-- **the invariant of std's `binary_search_by` loop** on weakly sorted numbers, for a number `d`: the final `base` is in
range, `lengths[base] <= d` unless `base` never moved from `0`, and every later entry is `> d`. -/
theorem bsLoop_spec_ieee (lengths : List F) (hs : Sorted lengths) (d : F) (hd : Scalar.isNaN d = false) :
    ∀ fuel base size, size ≤ fuel → 0 < size → base + size ≤ lengths.length →
      (base = 0 ∨ ∀ x, lengths[base]? = some x → Scalar.le x d = true) →
      (∀ (k : Nat) (y : F), base + size ≤ k → lengths[k]? = some y → Scalar.lt d y = true) →
      bsLoop lengths d fuel base size < lengths.length ∧
      (bsLoop lengths d fuel base size = 0 ∨
        ∀ x, lengths[bsLoop lengths d fuel base size]? = some x → Scalar.le x d = true) ∧
      (∀ (k : Nat) (y : F), bsLoop lengths d fuel base size + 1 ≤ k → lengths[k]? = some y → Scalar.lt d y = true) := by
  intro fuel
  induction fuel with
  | zero => intro base size h1 h2; omega
  | succ n ih =>
    intro base size h1 h2 h3 hb hup
    simp only [bsLoop]
    split
    · rename_i hsz
      have hmid : base + size / 2 < lengths.length := by omega
      have hx : lengths.getD (base + size / 2) 0 = lengths[base + size / 2] := by
        rw [List.getD_eq_getElem?_getD, List.getElem?_eq_getElem hmid]; rfl
      have hx' : lengths[base + size / 2]? = some lengths[base + size / 2] := List.getElem?_eq_getElem hmid
      rw [hx]
      have hxn := sorted_nan_free lengths hs _ _ hx'
      cases hgt : Scalar.lt d lengths[base + size / 2]
      · -- not Greater: base := mid
        have hc : (cmpLen lengths[base + size / 2] d == .gt) = false := by
          simp only [cmpLen, hgt]
          cases Scalar.lt lengths[base + size / 2] d <;> rfl
        simp only [hc, Bool.false_eq_true, if_false]
        refine ih (base + size / 2) (size - size / 2) (by omega) (by omega) (by omega) (Or.inr ?_) ?_
        · intro x hxx
          rw [hx'] at hxx; cases hxx
          exact FMO.le_of_not_lt _ _ hd hxn hgt
        · intro k y hk hy
          exact hup k y (by omega) hy
      · -- Greater: base stays
        have hlt := FMO.lt_asymm _ _ hgt
        have hc : cmpLen lengths[base + size / 2] d = .gt := by simp [cmpLen, hgt, hlt]
        simp only [hc, beq_self_eq_true, if_true]
        refine ih base (size - size / 2) (by omega) (by omega) (by omega) hb ?_
        intro k y hk hy
        exact FMO.lt_of_lt_of_le _ _ _ hgt (hs (base + size / 2) k _ y (by omega) hx' hy)
    · have : size = 1 := by omega
      subst this
      exact ⟨by omega, hb, hup⟩

/-- **what `idx_of_dist` returns on weakly sorted numbers, for any number `d`** (no range hypothesis). With
`i = idx_of_dist lengths d` exactly one of:
* HIT: `lengths[i] == d` (IEEE `==`: `±0` identified) and every later entry is `> d` — the LAST index holding `d`;
* GAP: `0 < i ≤ n`, `lengths[i−1] < d` and every entry from `i` on is `> d` (`i = n`: `d` is beyond the last length);
* BELOW: `i = 0` and `d < lengths[0]`. -/
theorem idxOfDist_spec_ieee (lengths : List F) (hs : Sorted lengths) (d : F) (hd : Scalar.isNaN d = false)
    (hne : lengths ≠ []) :
    (∃ x, lengths[idxOfDist lengths d]? = some x ∧ Scalar.eq x d = true ∧
      ∀ (k : Nat) (y : F), idxOfDist lengths d < k → lengths[k]? = some y → Scalar.lt d y = true) ∨
    (0 < idxOfDist lengths d ∧ idxOfDist lengths d ≤ lengths.length ∧
      ∃ x, lengths[idxOfDist lengths d - 1]? = some x ∧ Scalar.lt x d = true ∧
      ∀ (k : Nat) (y : F), idxOfDist lengths d ≤ k → lengths[k]? = some y → Scalar.lt d y = true) ∨
    (idxOfDist lengths d = 0 ∧ ∃ x, lengths[0]? = some x ∧ Scalar.lt d x = true) := by
  have hpos : 0 < lengths.length := List.length_pos_iff.mpr hne
  obtain ⟨hb, hlo, hup⟩ := bsLoop_spec_ieee lengths hs d hd lengths.length 0 lengths.length (Nat.le_refl _) hpos
    (by omega) (Or.inl rfl) (by
      intro k y hk hy
      rw [List.getElem?_eq_none (by omega)] at hy; cases hy)
  unfold idxOfDist
  simp only []
  rw [if_neg (by omega)]
  generalize bsLoop lengths d lengths.length 0 lengths.length = b at hb hlo hup
  have hx : lengths.getD b 0 = lengths[b] := by
    rw [List.getD_eq_getElem?_getD, List.getElem?_eq_getElem hb]; rfl
  have hx' : lengths[b]? = some lengths[b] := List.getElem?_eq_getElem hb
  have hxn := sorted_nan_free lengths hs _ _ hx'
  rw [hx]
  cases hlt : Scalar.lt lengths[b] d
  · cases hgt : Scalar.lt d lengths[b]
    · -- Equal
      have hc : cmpLen lengths[b] d = .eq := by simp [cmpLen, hlt, hgt]
      simp only [hc, beq_self_eq_true, if_true]
      left
      refine ⟨_, hx', ?_, fun k y hk hy => hup k y (by omega) hy⟩
      rcases FMO.lt_trichotomy _ _ hxn hd with h | h | h
      · rw [h] at hlt; cases hlt
      · exact h
      · rw [h] at hgt; cases hgt
    · -- Greater: only at base 0
      have hc : cmpLen lengths[b] d = .gt := by simp [cmpLen, hlt, hgt]
      have e1 : (Ordering.gt == Ordering.eq) = false := rfl
      have e2 : (Ordering.gt == Ordering.lt) = false := rfl
      simp only [hc, e1, e2, Bool.false_eq_true, if_false, Nat.add_zero]
      right; right
      rcases hlo with h0 | hle
      · subst h0
        exact ⟨rfl, _, hx', hgt⟩
      · have := FMO.not_lt_of_le _ _ (hle _ hx')
        rw [this] at hgt; cases hgt
  · -- Less
    have hc : cmpLen lengths[b] d = .lt := by simp [cmpLen, hlt]
    have e1 : (Ordering.lt == Ordering.eq) = false := rfl
    simp only [hc, e1, Bool.false_eq_true, if_false, beq_self_eq_true, if_true]
    right; left
    refine ⟨by omega, by omega, _, by rw [Nat.add_sub_cancel]; exact hx', hlt, fun k y hk hy => hup k y hk hy⟩

/-- **the bracket `idx_of_dist` hands to `interpolate_vertices`**, for a number `d` inside the curve
(`lengths[0] <= d <= last`). With `i = idx_of_dist lengths d`: `i < n` (never "beyond the last vertex"), `d <= lengths[i]`,
every later length is `> d`; `i = 0` only on a hit of `lengths[0]` (`lengths[0] == d`, `interpolate_vertices` returns `path[0]`);
and for `0 < i`: `lengths[i−1] <= d <= lengths[i]` — precisely, either STRICT on both sides `lengths[i−1] < d < lengths[i]`, or a
hit of the right end `lengths[i] == d` (weight `1`; and then `i` is the last index holding `d`). -/
theorem idxOfDist_bracket_ieee (lengths : List F) (hs : Sorted lengths) (d a b : F)
    (ha : lengths[0]? = some a) (hb : lengths.getLast? = some b)
    (hlo : Scalar.le a d = true) (hhi : Scalar.le d b = true) :
    idxOfDist lengths d < lengths.length ∧
    ∃ d1, lengths[idxOfDist lengths d]? = some d1 ∧ Scalar.le d d1 = true ∧
      (∀ (k : Nat) (y : F), idxOfDist lengths d < k → lengths[k]? = some y → Scalar.lt d y = true) ∧
      (idxOfDist lengths d = 0 → Scalar.eq d1 d = true) ∧
      (0 < idxOfDist lengths d → ∃ d0, lengths[idxOfDist lengths d - 1]? = some d0 ∧ Scalar.le d0 d = true ∧
        ((Scalar.lt d0 d = true ∧ Scalar.lt d d1 = true) ∨ Scalar.eq d1 d = true)) := by
  have hd := (FMO.not_nan_of_le hlo).2
  have hne : lengths ≠ [] := by rintro rfl; cases ha
  have hpos : 0 < lengths.length := List.length_pos_iff.mpr hne
  have hb' : lengths[lengths.length - 1]? = some b := by
    rw [List.getLast?_eq_getElem?] at hb; exact hb
  rcases idxOfDist_spec_ieee lengths hs d hd hne with ⟨x, hx, he, hup⟩ | ⟨hi0, hin, x, hx, hl, hup⟩ | ⟨hi0, x, hx, hl⟩
  · generalize idxOfDist lengths d = i at *
    have hil : i < lengths.length := by
      rcases Nat.lt_or_ge i lengths.length with h | h
      · exact h
      · rw [List.getElem?_eq_none h] at hx; cases hx
    have hed : Scalar.eq d x = true := by rw [FMO.eq_symm]; exact he
    refine ⟨hil, x, hx, FMO.le_of_eq _ _ hed, hup, fun _ => he, fun hi => ?_⟩
    have hz : lengths[i - 1]? = some lengths[i - 1] := List.getElem?_eq_getElem (by omega)
    exact ⟨_, hz, FMO.le_trans _ _ _ (hs (i - 1) i _ x (by omega) hz hx) (FMO.le_of_eq _ _ he), Or.inr he⟩
  · generalize idxOfDist lengths d = i at *
    have hil : i < lengths.length := by
      rcases Nat.lt_or_ge i lengths.length with h | h
      · exact h
      · -- beyond the last: `last < d`, against `d <= last`
        have : i = lengths.length := by omega
        subst this
        rw [hx] at hb'; cases hb'
        rw [FMO.not_lt_of_le _ _ hhi] at hl; cases hl
    have hz : lengths[i]? = some lengths[i] := List.getElem?_eq_getElem hil
    have hgt := hup i _ (Nat.le_refl _) hz
    refine ⟨hil, _, hz, FMO.le_of_lt _ _ hgt, fun k y hk hy => hup k y (by omega) hy, fun h => by omega, fun _ => ?_⟩
    exact ⟨x, hx, FMO.le_of_lt _ _ hl, Or.inl ⟨hl, hgt⟩⟩
  · rw [ha] at hx; cases hx
    rw [FMO.not_lt_of_le _ _ hlo] at hl; cases hl

/-- below the curve (`d < lengths[0]`) the search returns `0`: `interpolate_vertices` returns the first vertex. -/
theorem idxOfDist_below_ieee (lengths : List F) (hs : Sorted lengths) (d a : F)
    (ha : lengths[0]? = some a) (hlt : Scalar.lt d a = true) : idxOfDist lengths d = 0 := by
  have hd := (FMO.not_nan_of_lt hlt).1
  have hne : lengths ≠ [] := by rintro rfl; cases ha
  rcases idxOfDist_spec_ieee lengths hs d hd hne with ⟨x, hx, he, _⟩ | ⟨hi0, hin, x, hx, hl, _⟩ | ⟨hi0, _⟩
  · -- a hit `x == d` with `a <= x`: then `a <= d`, against `d < a`
    have h1 := hs 0 _ a x (Nat.zero_le _) ha hx
    have h2 := FMO.le_trans _ _ _ h1 (FMO.le_of_eq _ _ he)
    rw [FMO.not_lt_of_le _ _ h2] at hlt; cases hlt
  · have h1 := hs 0 _ a x (Nat.zero_le _) ha hx
    have h2 := FMO.lt_of_le_of_lt _ _ _ h1 hl
    rw [FMO.lt_asymm _ _ h2] at hlt; cases hlt
  · exact hi0

/-- beyond the curve (`last < d`) the search returns `n = lengths.len()`: `interpolate_vertices` returns the last vertex
(`interpolate_beyond_last`). -/
theorem idxOfDist_beyond_ieee (lengths : List F) (hs : Sorted lengths) (d b : F)
    (hb : lengths.getLast? = some b) (hlt : Scalar.lt b d = true) : idxOfDist lengths d = lengths.length := by
  have hd := (FMO.not_nan_of_lt hlt).2
  have hne : lengths ≠ [] := by rintro rfl; cases hb
  have hpos : 0 < lengths.length := List.length_pos_iff.mpr hne
  have hb' : lengths[lengths.length - 1]? = some b := by
    rw [List.getLast?_eq_getElem?] at hb; exact hb
  rcases idxOfDist_spec_ieee lengths hs d hd hne with ⟨x, hx, he, _⟩ | ⟨hi0, hin, x, hx, hl, hup⟩ | ⟨hi0, x, hx, hl⟩
  · generalize idxOfDist lengths d = i at *
    have hil : i < lengths.length := by
      rcases Nat.lt_or_ge i lengths.length with h | h
      · exact h
      · rw [List.getElem?_eq_none h] at hx; cases hx
    have h1 := hs i _ x b (by omega) hx hb'
    have hed : Scalar.eq d x = true := by rw [FMO.eq_symm]; exact he
    have h2 := FMO.le_trans _ _ _ (FMO.le_of_eq _ _ hed) h1
    rw [FMO.not_lt_of_le _ _ h2] at hlt; cases hlt
  · generalize idxOfDist lengths d = i at *
    rcases Nat.lt_or_ge i lengths.length with h | h
    · have := hup _ b (by omega) hb'
      rw [FMO.lt_asymm _ _ this] at hlt; cases hlt
    · omega
  · have h1 := hs 0 _ x b (Nat.zero_le _) hx hb'
    have h2 := FMO.lt_of_lt_of_le _ _ _ hl h1
    rw [FMO.lt_asymm _ _ h2] at hlt; cases hlt

end Generic

/-- **C19 on IEEE doubles: the bracket `idx_of_dist` establishes** (`idxOfDist_bracket_ieee` at `Float`). -/
theorem idxOfDist_bracket_float (lengths : List Float) (hs : Sorted lengths) (d a b : Float)
    (ha : lengths[0]? = some a) (hb : lengths.getLast? = some b)
    (hlo : Scalar.le a d = true) (hhi : Scalar.le d b = true) :
    idxOfDist lengths d < lengths.length ∧
    ∃ d1, lengths[idxOfDist lengths d]? = some d1 ∧ Scalar.le d d1 = true ∧
      (∀ (k : Nat) (y : Float), idxOfDist lengths d < k → lengths[k]? = some y → Scalar.lt d y = true) ∧
      (idxOfDist lengths d = 0 → Scalar.eq d1 d = true) ∧
      (0 < idxOfDist lengths d → ∃ d0, lengths[idxOfDist lengths d - 1]? = some d0 ∧ Scalar.le d0 d = true ∧
        ((Scalar.lt d0 d = true ∧ Scalar.lt d d1 = true) ∨ Scalar.eq d1 d = true)) :=
  idxOfDist_bracket_ieee lengths hs d a b ha hb hlo hhi

/-! ## (2) `interpolate_vertices ∘ idx_of_dist`: the position for a distance inside the curve -/

/-- the no-overflow side conditions of `interpolate_err_float32` for the segment `[p0, p1]`, `[d0, d1]` and the distance `d`:
the two result coordinates, the `f64` weight and the `f64` denominator are finite. NOT derived here (`segFinite_statement`): for `Bounded19` vertices and finite non-negative lengths they should
hold, but the derivation needs "no overflow from a bound on the exact value" for `f32 ⊕ ⊖ ⊗`, `f64 ⊖` and `as f32`, which
Lemmas/FloatErrRange.lean has for `f64 ⊗ ⊘` only. -/
def SegFinite (p0 p1 : Pos Float32) (d d0 d1 : Float) : Prop :=
  (interpPos p0 p1 d d0 d1).x.isFinite = true ∧ (interpPos p0 p1 d d0 d1).y.isFinite = true ∧
  ((d - d0) / (d1 - d0)).isFinite = true ∧ (d1 - d0).isFinite = true

/-- REFUTED as stated and proved with `FinitePos` added in Props/C19IeeeFinite.lean (the piece that removes the hypothesis `hfin` of `positionAt_dist_err_float32` for curves with
`0 <= lengths[0]` and a finite last length): the no-overflow conditions follow from the bracket, the bounds on the vertices
and a finite `d1`. (`|x0 + (x1 − x0) w| ≤ 3·2¹⁹`, `0 ≤ d1 ⊖ d0 ≤ d1`, `0 ≤ (d ⊖ d0) ⊘ (d1 ⊖ d0) ≤ 1`.) -/
def segFinite_statement : Prop :=
  ∀ (p0 p1 : Pos Float32) (d d0 d1 : Float), C16.Bounded19 p0 → C16.Bounded19 p1 →
    Scalar.le (0 : Float) d0 = true → Scalar.le d0 d = true → Scalar.le d d1 = true → d1.isFinite = true →
    Scalar.le (Scalar.abs (d0 - d1)) (Scalar.eps : Float) = false → SegFinite p0 p1 d d0 d1

/-- **C19 on IEEE floats: the position `interpolate_vertices path lengths (idx_of_dist lengths d) d`** (what `position_at`
evaluates after `progress_to_dist`) for a curve `path`, `lengths` of equal length, `lengths` weakly sorted numbers, vertices
bounded by `2¹⁹`, and a distance `lengths[0] <= d <= last`. The bracket `d0 <= d <= d1` and the non-degeneracy the interpolation
lemma assumes are DERIVED from the search. The call returns a position `p` and, with `i = idx_of_dist lengths d`, exactly one of
* `i = 0` (a hit of `lengths[0]`): `p = path[0]`;
* `0 < i`, the segment is degenerate (`|d0 − d1| <= EPSILON`): `p = path[i−1]`;
* `0 < i`, `d0 = lengths[i−1] <= d <= d1 = lengths[i]`, `d0 < d1`, `p = interpPos p0 p1 d d0 d1` and per coordinate
  `|p.x − (x0 + w (x1 − x0))| ≤ interpBound` (`< 0.21876` px) for the exact weight `w = (d − d0)/(d1 − d0) ∈ [0, 1]`.
Only the no-overflow conditions `SegFinite` of the non-degenerate bracketing segment remain as a hypothesis. -/
theorem positionAt_dist_err_float32 (path : List (Pos Float32)) (lengths : List Float) (d a b : Float)
    (hlen : path.length = lengths.length) (hs : Sorted lengths) (hbd : ∀ p ∈ path, C16.Bounded19 p)
    (ha : lengths[0]? = some a) (hb : lengths.getLast? = some b)
    (hlo : Scalar.le a d = true) (hhi : Scalar.le d b = true)
    (hfin : ∀ (p0 p1 : Pos Float32) (d0 d1 : Float), path[idxOfDist lengths d - 1]? = some p0 →
      path[idxOfDist lengths d]? = some p1 → lengths[idxOfDist lengths d - 1]? = some d0 →
      lengths[idxOfDist lengths d]? = some d1 →
      Scalar.le (Scalar.abs (d0 - d1)) (Scalar.eps : Float) = false → SegFinite p0 p1 d d0 d1) :
    ∃ p, interpolateVertices path lengths (idxOfDist lengths d) d = .ok p ∧
      ((idxOfDist lengths d = 0 ∧ path[0]? = some p) ∨
       (0 < idxOfDist lengths d ∧ path[idxOfDist lengths d - 1]? = some p ∧
         ∃ d0 d1, lengths[idxOfDist lengths d - 1]? = some d0 ∧ lengths[idxOfDist lengths d]? = some d1 ∧
           Scalar.le (Scalar.abs (d0 - d1)) (Scalar.eps : Float) = true) ∨
       (0 < idxOfDist lengths d ∧ ∃ p0 p1 d0 d1, path[idxOfDist lengths d - 1]? = some p0 ∧
         path[idxOfDist lengths d]? = some p1 ∧ lengths[idxOfDist lengths d - 1]? = some d0 ∧
         lengths[idxOfDist lengths d]? = some d1 ∧
         Scalar.le d0 d = true ∧ Scalar.le d d1 = true ∧ toRat d0 < toRat d1 ∧
         p = interpPos p0 p1 d d0 d1 ∧
         (0 ≤ (toRat d - toRat d0) / (toRat d1 - toRat d0) ∧ (toRat d - toRat d0) / (toRat d1 - toRat d0) ≤ 1) ∧
         |toRat32 p.x - (toRat32 p0.x + (toRat d - toRat d0) / (toRat d1 - toRat d0) * (toRat32 p1.x - toRat32 p0.x))|
           ≤ interpBound ∧
         |toRat32 p.y - (toRat32 p0.y + (toRat d - toRat d0) / (toRat d1 - toRat d0) * (toRat32 p1.y - toRat32 p0.y))|
           ≤ interpBound)) := by
  obtain ⟨hil, d1, hd1, hle1, _, _, hpos⟩ := idxOfDist_bracket_float lengths hs d a b ha hb hlo hhi
  generalize idxOfDist lengths d = i at *
  rcases Nat.eq_zero_or_pos i with hi | hi
  · subst hi
    cases path with
    | nil => simp at hlen; omega
    | cons p t => exact ⟨p, interpolate_idx_zero p t lengths d, Or.inl ⟨rfl, rfl⟩⟩
  · obtain ⟨d0, hd0, hle0, _⟩ := hpos hi
    have hp1 : path[i]? = some path[i] := List.getElem?_eq_getElem (by omega)
    have hp0 : path[i - 1]? = some path[i - 1] := List.getElem?_eq_getElem (by omega)
    cases hdeg : Scalar.le (Scalar.abs (d0 - d1)) (Scalar.eps : Float)
    · obtain ⟨hfx, hfy, hw, hm⟩ := hfin _ _ d0 d1 hp0 hp1 hd0 hd1 hdeg
      have hb0 := hbd _ (List.mem_of_getElem? hp0)
      have hb1 := hbd _ (List.mem_of_getElem? hp1)
      obtain ⟨he, hr, hx, hy⟩ := interpolate_err_float32 path lengths i d _ _ d0 d1 (by omega) hp1 hp0 hd0 hd1 hdeg
        hfx hfy hw hm hle0 hle1 hb0 hb1
      have l01 : toRat d0 < toRat d1 := by
        unfold interpPos at hfx; rw [interp_x] at hfx
        exact (interp_coord_err_float32 _ _ d d0 d1 hfx hw hm hle0 hle1 hb0.1 hb1.1).1
      exact ⟨_, he, Or.inr (Or.inr ⟨hi, _, _, d0, d1, hp0, hp1, hd0, hd1, hle0, hle1, l01, rfl, hr, hx, hy⟩)⟩
    · exact ⟨_, interpolate_degenerate path lengths i d _ _ d0 d1 (by omega) hp1 hp0 hd0 hd1 hdeg,
        Or.inr (Or.inl ⟨hi, hp0, d0, d1, hd0, hd1, hdeg⟩)⟩

/-- **… hence within `1/4` px per coordinate of the polyline**: the position is within `1/4` px, per coordinate, of a point
`p0 + w (p1 − p0)`, `w ∈ [0, 1]`, of a segment `[path[k], path[k+1]]` of the path (or it is the vertex `path[k]` itself:
`p1 = p0`). -/
theorem positionAt_dist_on_polyline_float32 (path : List (Pos Float32)) (lengths : List Float) (d a b : Float)
    (hlen : path.length = lengths.length) (hs : Sorted lengths) (hbd : ∀ p ∈ path, C16.Bounded19 p)
    (ha : lengths[0]? = some a) (hb : lengths.getLast? = some b)
    (hlo : Scalar.le a d = true) (hhi : Scalar.le d b = true)
    (hfin : ∀ (p0 p1 : Pos Float32) (d0 d1 : Float), path[idxOfDist lengths d - 1]? = some p0 →
      path[idxOfDist lengths d]? = some p1 → lengths[idxOfDist lengths d - 1]? = some d0 →
      lengths[idxOfDist lengths d]? = some d1 →
      Scalar.le (Scalar.abs (d0 - d1)) (Scalar.eps : Float) = false → SegFinite p0 p1 d d0 d1) :
    ∃ (p : Pos Float32) (k : Nat) (p0 p1 : Pos Float32) (w : ℚ),
      interpolateVertices path lengths (idxOfDist lengths d) d = .ok p ∧
      path[k]? = some p0 ∧ (path[k + 1]? = some p1 ∨ p1 = p0) ∧ 0 ≤ w ∧ w ≤ 1 ∧
      |toRat32 p.x - (toRat32 p0.x + w * (toRat32 p1.x - toRat32 p0.x))| < 1 / 4 ∧
      |toRat32 p.y - (toRat32 p0.y + w * (toRat32 p1.y - toRat32 p0.y))| < 1 / 4 := by
  obtain ⟨p, he, h | h | h⟩ := positionAt_dist_err_float32 path lengths d a b hlen hs hbd ha hb hlo hhi hfin
  · exact ⟨p, 0, p, p, 0, he, h.2, Or.inr rfl, le_refl _, zero_le_one, by norm_num, by norm_num⟩
  · exact ⟨p, _, p, p, 0, he, h.2.1, Or.inr rfl, le_refl _, zero_le_one, by norm_num, by norm_num⟩
  · obtain ⟨hi, p0, p1, d0, d1, hp0, hp1, _, _, _, _, _, _, ⟨hw0, hw1⟩, hx, hy⟩ := h
    refine ⟨p, _, p0, p1, _, he, hp0, Or.inl ?_, hw0, hw1, lt_of_le_of_lt hx interpBound_lt_quarter,
      lt_of_le_of_lt hy interpBound_lt_quarter⟩
    rw [Nat.sub_add_cancel hi]; exact hp1

/-! ## (3) through `progress_to_dist`: `position_at` -/

/-- **C19 on IEEE floats: `position_at(progress)`** for a curve whose lengths start at `<= 0` (they start at `0`), are weakly
sorted numbers with a finite non-negative total, and any progress that is a number (clamped to `[0, 1]` by the code): the
distance `d = clamp(progress, 0, 1) · total` lies in `[0, total]` (`progress_to_dist_bounds_float`), so
`positionAt_dist_err_float32` applies to `d`. -/
theorem positionAt_progress_err_float32 (path : List (Pos Float32)) (lengths : List Float) (q a b : Float)
    (hq : Scalar.isNaN q = false)
    (hlen : path.length = lengths.length) (hs : Sorted lengths) (hbd : ∀ p ∈ path, C16.Bounded19 p)
    (ha : lengths[0]? = some a) (hb : lengths.getLast? = some b)
    (ha0 : Scalar.le a (0 : Float) = true) (hb0 : Scalar.le (0 : Float) b = true) (hbf : FX.Finite64 b)
    (hfin : ∀ (p0 p1 : Pos Float32) (d0 d1 : Float),
      path[idxOfDist lengths (progressToDist lengths q) - 1]? = some p0 →
      path[idxOfDist lengths (progressToDist lengths q)]? = some p1 →
      lengths[idxOfDist lengths (progressToDist lengths q) - 1]? = some d0 →
      lengths[idxOfDist lengths (progressToDist lengths q)]? = some d1 →
      Scalar.le (Scalar.abs (d0 - d1)) (Scalar.eps : Float) = false →
      SegFinite p0 p1 (progressToDist lengths q) d0 d1) :
    Scalar.le (0 : Float) (progressToDist lengths q) = true ∧ Scalar.le (progressToDist lengths q) b = true ∧
    ∃ (p : Pos Float32) (k : Nat) (p0 p1 : Pos Float32) (w : ℚ),
      positionAt path lengths q = .ok p ∧
      path[k]? = some p0 ∧ (path[k + 1]? = some p1 ∨ p1 = p0) ∧ 0 ≤ w ∧ w ≤ 1 ∧
      |toRat32 p.x - (toRat32 p0.x + w * (toRat32 p1.x - toRat32 p0.x))| < 1 / 4 ∧
      |toRat32 p.y - (toRat32 p0.y + w * (toRat32 p1.y - toRat32 p0.y))| < 1 / 4 := by
  have hdist : dist lengths = b := by unfold dist; rw [hb]
  obtain ⟨h0, h1, _⟩ := progress_to_dist_bounds_float lengths q hq (by rw [hdist]; exact hbf) (by rw [hdist]; exact hb0)
  rw [hdist] at h1
  exact ⟨h0, h1, positionAt_dist_on_polyline_float32 path lengths _ a b hlen hs hbd ha hb
    (FMO.le_trans _ _ _ ha0 h0) h1 hfin⟩

/-! ## non-vacuity: the closed three-vertex curve `(100,200) → (107,224) → (100,200)`, lengths `[0, 25, 50]`, kernel-evaluated -/

section Examples
open Rosu.C16

/-- the demo curve. -/
def demoPath : List (Pos Float32) := [demoPP, demoPE, demoPP]
def demoLens : List Float := [0, 25, 50]

theorem three_cases {α : Type} {a b c x : α} {i : Nat} (h : [a, b, c][i]? = some x) :
    (i = 0 ∧ x = a) ∨ (i = 1 ∧ x = b) ∨ (i = 2 ∧ x = c) := by
  match i, h with
  | 0, h => simp at h; exact Or.inl ⟨rfl, h.symm⟩
  | 1, h => simp at h; exact Or.inr (Or.inl ⟨rfl, h.symm⟩)
  | 2, h => simp at h; exact Or.inr (Or.inr ⟨rfl, h.symm⟩)
  | n + 3, h => simp at h

theorem demo_sorted : Sorted demoLens := by
  refine sorted_of_adjacent _ ?_ ?_
  · intro i x hx
    rcases three_cases hx with ⟨_, rfl⟩ | ⟨_, rfl⟩ | ⟨_, rfl⟩ <;> decide +kernel
  · intro i x y hx hy
    rcases three_cases hx with ⟨rfl, rfl⟩ | ⟨rfl, rfl⟩ | ⟨rfl, rfl⟩ <;>
      rcases three_cases hy with ⟨h, rfl⟩ | ⟨h, rfl⟩ | ⟨h, rfl⟩ <;> first | omega | decide +kernel

theorem demo_bounded : ∀ p ∈ demoPath, Bounded19 p := by
  intro p hp
  simp only [demoPath, List.mem_cons, List.not_mem_nil, or_false] at hp
  rcases hp with rfl | rfl | rfl
  · exact demo_b0
  · exact demo_b1
  · exact demo_b0

/-- the search itself, evaluated: `d = 10 ↦ 1`, `d = 30 ↦ 2`; ties: a hit `d = 25 ↦ 1`, `d = 0 ↦ 0`, `d = 50 ↦ 2`; out of
range: `−1 ↦ 0`, `99 ↦ 3`; with a repeated length the LAST index holding `d` is returned (`[0, 25, 25, 50]`, `25 ↦ 2`), and
`−0` hits `+0`. -/
theorem demo_idx : idxOfDist demoLens 10 = 1 ∧ idxOfDist demoLens 30 = 2 ∧ idxOfDist demoLens 25 = 1 ∧
    idxOfDist demoLens 0 = 0 ∧ idxOfDist demoLens 50 = 2 ∧ idxOfDist demoLens (-1) = 0 ∧ idxOfDist demoLens 99 = 3 ∧
    idxOfDist [(0 : Float), 25, 25, 50] 25 = 2 ∧ idxOfDist demoLens (-0.0) = 0 := by decide +kernel

/-- `idxOfDist_bracket_float` on the demo, `d = 10`: the bracket is `0 < 10 < 25`, strict on both sides. -/
example : Scalar.lt (0 : Float) 10 = true ∧ Scalar.lt (10 : Float) 25 = true := by
  obtain ⟨_, d1, hd1, _, _, _, hpos⟩ :=
    idxOfDist_bracket_float demoLens demo_sorted 10 0 50 rfl rfl (by decide +kernel) (by decide +kernel)
  rw [demo_idx.1] at hd1 hpos
  obtain ⟨d0, hd0, _, h⟩ := hpos (by omega)
  cases hd1; cases hd0
  rcases h with h | h
  · exact h
  · exact absurd h (by decide +kernel)

/-- the no-overflow hypothesis on the demo, `d = 10` (segment 1) and `d = 30` (segment 2). -/
theorem demo_fin10 : SegFinite demoPP demoPE 10 0 25 := by
  obtain ⟨bx, bY⟩ := demo_interp_bits
  exact ⟨by rw [bx]; decide +kernel, by rw [bY]; decide +kernel, by decide +kernel, by decide +kernel⟩

theorem demo_interp_bits30 : (interpPos demoPE demoPP (30 : Float) 25 50).x = Float32.ofBits 0x42D33333 ∧
    (interpPos demoPE demoPP (30 : Float) 25 50).y = Float32.ofBits 0x435B3333 := by decide +kernel

theorem demo_fin30 : SegFinite demoPE demoPP 30 25 50 := by
  obtain ⟨bx, bY⟩ := demo_interp_bits30
  exact ⟨by rw [bx]; decide +kernel, by rw [bY]; decide +kernel, by decide +kernel, by decide +kernel⟩

/-- **every hypothesis of `positionAt_dist_err_float32` holds on the demo curve at `d = 10`**, and the THIRD alternative
(a genuinely interpolated position, with the error bound) is the one that holds. -/
example : ∃ p, interpolateVertices demoPath demoLens (idxOfDist demoLens 10) 10 = .ok p ∧
    p = interpPos demoPP demoPE 10 0 25 ∧
    |toRat32 p.x - (toRat32 demoPP.x + (toRat (10 : Float) - toRat (0 : Float)) / (toRat (25 : Float) - toRat (0 : Float)) *
      (toRat32 demoPE.x - toRat32 demoPP.x))| ≤ interpBound := by
  obtain ⟨p, he, h | h | h⟩ := positionAt_dist_err_float32 demoPath demoLens 10 0 50 rfl demo_sorted demo_bounded rfl rfl
    (by decide +kernel) (by decide +kernel) (by
      intro p0 p1 d0 d1 h0 h1 h2 h3 _
      rw [demo_idx.1] at h0 h1 h2 h3
      cases h0; cases h1; cases h2; cases h3
      exact demo_fin10)
  · rw [demo_idx.1] at h; omega
  · obtain ⟨_, _, d0, d1, h2, h3, hdeg⟩ := h
    rw [demo_idx.1] at h2 h3
    cases h2; cases h3
    exact absurd hdeg (by decide +kernel)
  · obtain ⟨_, p0, p1, d0, d1, h0, h1, h2, h3, _, _, _, hp, _, hx, _⟩ := h
    rw [demo_idx.1] at h0 h1 h2 h3
    cases h0; cases h1; cases h2; cases h3
    exact ⟨p, he, hp, hx⟩

/-- … and at `d = 30` (second segment, `(107,224) → (100,200)`, `w = 5/25`): within `1/4` px of the polyline. -/
example : ∃ (p : Pos Float32) (k : Nat) (p0 p1 : Pos Float32) (w : ℚ),
    interpolateVertices demoPath demoLens (idxOfDist demoLens 30) 30 = .ok p ∧
    demoPath[k]? = some p0 ∧ (demoPath[k + 1]? = some p1 ∨ p1 = p0) ∧ 0 ≤ w ∧ w ≤ 1 ∧
    |toRat32 p.x - (toRat32 p0.x + w * (toRat32 p1.x - toRat32 p0.x))| < 1 / 4 ∧
    |toRat32 p.y - (toRat32 p0.y + w * (toRat32 p1.y - toRat32 p0.y))| < 1 / 4 :=
  positionAt_dist_on_polyline_float32 demoPath demoLens 30 0 50 rfl demo_sorted demo_bounded rfl rfl
    (by decide +kernel) (by decide +kernel) (by
      intro p0 p1 d0 d1 h0 h1 h2 h3 _
      rw [demo_idx.2.1] at h0 h1 h2 h3
      cases h0; cases h1; cases h2; cases h3
      exact demo_fin30)

theorem demo_progress : progressToDist demoLens 0.2 = 10 := by decide +kernel

/-- `positionAt_progress_err_float32` on the demo curve at progress `0.2` (`d = 0.2 · 50 = 10`). -/
example : ∃ (p : Pos Float32) (k : Nat) (p0 p1 : Pos Float32) (w : ℚ),
    positionAt demoPath demoLens 0.2 = .ok p ∧
    demoPath[k]? = some p0 ∧ (demoPath[k + 1]? = some p1 ∨ p1 = p0) ∧ 0 ≤ w ∧ w ≤ 1 ∧
    |toRat32 p.x - (toRat32 p0.x + w * (toRat32 p1.x - toRat32 p0.x))| < 1 / 4 ∧
    |toRat32 p.y - (toRat32 p0.y + w * (toRat32 p1.y - toRat32 p0.y))| < 1 / 4 :=
  (positionAt_progress_err_float32 demoPath demoLens 0.2 0 50 (by decide +kernel) rfl demo_sorted demo_bounded rfl rfl
    (by decide +kernel) (by decide +kernel) (by decide +kernel) (by
      intro p0 p1 d0 d1 h0 h1 h2 h3 _
      rw [demo_progress, demo_idx.1] at h0 h1 h2 h3
      rw [demo_progress]
      cases h0; cases h1; cases h2; cases h3
      exact demo_fin10)).2.2

end Examples

end Rosu.C19
